"""C01 — additional, structure-aware input generators for the AOEF round trip (second-engineer review).

Everything here produces *model-layout collection JSON* (see harness/aoef.py) inside the property's quantifier:
coherent sharing (objects with one uuid are equal dicts), distinct feature labels per list, distinct members.

* `dir_cases`        relative recording paths under relative audio directories (and absolute ones), the directory
                     spelled as a caller may write it ("audio", "audio/", "./audio", "audio/.", ".", "", an ancestor)
* `WideGen`          atoms at the edge of their types: very large / very small floats (no negative zero: `-0.0 == 0.0`,
                     the property does not pin the sign of a zero), scores at the
                     ends of [0, 1], zero durations / sample rates, datetimes with and without time zone and
                     microseconds at the ends of the calendar, times with a time zone, unicode of every plane,
                     control characters, geometries with degenerate shape (a line whose ends share a time, an empty
                     box, an interval of length zero) and extreme coordinates
* `TwinGen`          distinct objects (fresh uuid) with *equal content* in every pool: users with equal names,
                     recordings with one path, clips over the same span, sound events with equal geometry,
                     sequences with the same members, annotations / predictions of the same thing, notes with equal text
* `slot_variants`    from an all-fields collection, one optional field at a time absent / empty / falsy, for every
                     (class, field) — the slot table is regenerated from `model_fields` of the real data classes
* `reverse_lists`    the same graph with every list reversed (one of the two orders is unsorted under any key)
* `multi_history`    several collections of different types over one pool of objects, saved / loaded alternately
"""
import copy
import datetime
import random

from . import aoefgen
from .aoef import num, geom_token

# ----------------------------------------------------------------------------- audio directories
# (directory the recordings lie under, spellings of audio directories that contain it)
DIR_FAMILIES = [
    ("audio", ["audio", "audio/", "./audio", "./audio/", "audio/.", "audio//", ".", "./", ""]),
    ("audio/site a/2024", ["audio/site a/2024", "audio/site a/2024/", "./audio/site a", "audio/", "audio", "."]),
    ("../shared/ünï", ["../shared/ünï", "../shared/ünï/", "../shared", "..", "../"]),
    ("a", ["a", "a/", "./a/."]),
    (None, [".", "./", ""]),                       # bare relative paths: "sub/rec.wav"
    ("/data/audio", ["/data/audio/", "/data//audio", "/data/./audio", "/data/audio/.", "/data", "/data/", "/"]),
    ("/", ["/", "/.", "///"]),
    ("/a b/ünï", ["/a b/ünï", "/a b/ünï/", "/a b/", "/a b"]),
]


def dir_cases(rng, n_per_type, types=None, rich_p=0.2, gen=None):
    """roundtrip inputs: recordings under `base`, saved and loaded under a spelling of a containing directory"""
    cases = []
    for ty in types or aoefgen.TYPES:
        for _ in range(n_per_type):
            base, spellings = rng.choice(DIR_FAMILIES)
            G = gen or aoefgen.Gen
            cj = G(rng, rich=rng.random() < rich_p, base=base, size=0.8).collection(ty)
            sd = rng.choice(spellings)
            # the same directory on load, possibly spelled differently
            ld = sd if rng.random() < 0.6 else rng.choice([s for s in spellings if _same(s, sd)])
            cases.append({"collection": cj, "save_dir": sd, "load_dir": ld, "n": rng.choice([1, 2, 3]),
                          "dir_as": rng.choice(["str", "path"]), "fresh": False,
                          "_tally": ("relative" if not (base or "").startswith("/") else "absolute")})
    return cases


def _same(a, b):
    from pathlib import PurePosixPath
    return PurePosixPath(a) == PurePosixPath(b)


def recording_is_directory_cases():
    """a recording whose path *is* the audio directory is stored as '.' and must come back"""
    out = []
    for p, d in [("audio", "audio"), ("audio/x", "audio/x/"), ("/data/a.wav", "/data/a.wav"), ("x", "./x")]:
        g = aoefgen.Gen(random.Random("recdir:" + p), base=None, size=0.5)
        r = g.recording(0)
        r["path"] = p
        cj = {"type": "recording_set", "value": {"uuid": g.uid(), "created_on": g.stamp(), "recordings": [r]}}
        out.append({"collection": cj, "save_dir": d, "load_dir": d, "n": 2, "dir_as": "str", "fresh": False})
    return out


# ----------------------------------------------------------------------------- atoms at the edge of their types
WIDE_TEXTS = ["\U0001F987 bat \U0001F9A4", "zero‍width​join", "‮right-to-left", "﻿bom", "tab\tand\rreturn",
              "line sep para", "nul\x00inside", "\x7f\x1f\x01", "back\\slash \\u0041 \\n", "</script><!--", "퟿￿",
              "{\"json\": [1, null]}", "a" * 3000, " ", "\n", "0.0", "False", "[]", "{}", "NaN", "Infinity", "İı ß ẞ",
              "عربى עברית 中文 日本語 한국어"]
WIDE_FLOATS = [1e308, 1.7976931348623157e308, 5e-324, 2.2250738585072014e-308, 0.1 + 0.2, 1e22, 1e23, 9007199254740993.0,
               -1e-300, -1.7976931348623157e308, 123456789.12345679, 1 / 3, 2.0 ** -1074, 0.30000000000000004, 1e-7, 1e16, 100.0,
               1.0, 0.0, 2.0, -1.0, 1e21, 1e-5, 12345678901234567890.0]
WIDE_UNIT = [0.0, 1.0, 5e-324, 0.9999999999999999, 1e-300, 2.0 ** -53, 0.5, 0.1, 1 / 3, 0.7000000000000001]
ZONES = [None, None, datetime.timezone.utc, datetime.timezone(datetime.timedelta(hours=5, minutes=45)),
         datetime.timezone(datetime.timedelta(hours=-12)), datetime.timezone(datetime.timedelta(hours=14)),
         datetime.timezone(datetime.timedelta(hours=-3, minutes=-30)), datetime.timezone(datetime.timedelta(0), "Z")]


def _coords(ty, c):
    return geom_token({"type": ty, "coordinates": c})


WIDE_GEOMS = [
    # a line whose first and last vertex share a time (both orientations are valid, neither may be flipped)
    _coords("LineString", [[1.0, 1000.0], [1.0, 8000.0]]),
    _coords("LineString", [[1.0, 8000.0], [1.0, 1000.0]]),
    _coords("LineString", [[1.0, 5000.0], [1.5, 3000.0], [1.0, 1000.0]]),
    _coords("LineString", [[0.0, 0.0], [0.0, 0.0]]),
    _coords("LineString", [[0.5, 10.0], [0.25, 20.0], [0.75, 5.0], [2.0, 1.0]]),      # not monotone in between
    _coords("MultiLineString", [[[1.0, 100.0], [2.0, 50.0]], [[0.0, 7.0], [0.5, 9.0], [0.5, 3.0]]]),
    _coords("MultiLineString", [[[3.0, 1.0], [4.0, 1.0]], [[1.0, 1.0], [2.0, 1.0]]]),  # lines not sorted among themselves
    # degenerate but valid shapes
    _coords("BoundingBox", [1.0, 100.0, 1.0, 100.0]),
    _coords("BoundingBox", [0.0, 0.0, 0.0, 0.0]),
    _coords("BoundingBox", [0.0, 0.0, 1e9, 5000000.0]),
    _coords("TimeInterval", [2.0, 2.0]),
    _coords("TimeInterval", [0.0, 1.7976931348623157e308]),
    _coords("TimeStamp", 0.0),
    _coords("TimeStamp", 5e-324),
    _coords("TimeStamp", 1e22),
    _coords("Point", [0.0, 0.0]),
    _coords("Point", [0.1 + 0.2, 5000000.0]),
    _coords("Point", [1e-300, 2.0 ** -1074]),
    _coords("MultiPoint", [[3.0, 3.0], [1.0, 1.0], [2.0, 2.0], [1.0, 1.0]]),            # unsorted, with a repeated point
    _coords("Polygon", [[[0.0, 0.0], [4.0, 0.0], [4.0, 4.0], [0.0, 4.0], [0.0, 0.0]],
                        [[1.0, 1.0], [1.0, 2.0], [2.0, 2.0], [2.0, 1.0], [1.0, 1.0]]]),    # with a hole
    _coords("Polygon", [[[0.0, 0.0], [4.0, 4.0], [4.0, 0.0]]]),                           # ring not closed, clockwise
    _coords("MultiPolygon", [[[[5.0, 0.0], [6.0, 0.0], [6.0, 1.0], [5.0, 0.0]]],
                             [[[0.0, 0.0], [1.0, 0.0], [1.0, 1.0], [0.0, 0.0]]]]),         # polygons not sorted
]


class WideGen(aoefgen.Gen):
    """`aoefgen.Gen` with atoms drawn from the edges of their types"""

    def text(self):
        r = self.rng
        return r.choice(WIDE_TEXTS) if r.random() < 0.6 else r.choice(aoefgen.TEXTS)

    def fl(self, pool=None):
        r = self.rng
        return num(r.choice(WIDE_FLOATS) if r.random() < 0.8 else r.uniform(-1, 1) * 10.0 ** r.randint(-20, 20))

    def unit(self):
        r = self.rng
        return num(r.choice(WIDE_UNIT) if r.random() < 0.8 else r.random())

    def stamp(self):
        r = self.rng
        z = r.choice(ZONES)
        k = r.random()
        if k < 0.1:
            d = datetime.datetime(1, 1, 1, 0, 0, 0, 0)
        elif k < 0.2:
            d = datetime.datetime(9999, 12, 31, 23, 59, 59, 999999)
        elif k < 0.3:
            d = datetime.datetime(1970, 1, 1)
        else:
            d = datetime.datetime(r.randint(1, 9999), r.randint(1, 12), r.randint(1, 28), r.randint(0, 23),
                                  r.randint(0, 59), r.randint(0, 59), r.choice([0, 1, 10, 100000, 999999, 500000, 123]))
        if z is not None and 2 <= d.year <= 9998:
            d = d.replace(tzinfo=z)
        return d.isoformat()

    def geometry(self, i):
        r = self.rng
        if r.random() < 0.75:
            return r.choice(WIDE_GEOMS)
        return super().geometry(i)

    @staticmethod
    def lookalike(s, r):
        """another string that a careless key function would identify with `s`"""
        import unicodedata
        cands = [s.swapcase(), s.upper(), s + " ", " " + s, unicodedata.normalize("NFD", s), unicodedata.normalize("NFC", s),
                 s + "\u200b", s.replace(" ", "_"), s.strip()]
        cands = [c for c in cands if c != s]
        return r.choice(cands) if cands else s + "'"

    def tag(self):
        r = self.rng
        t = super().tag()
        z = r.random()
        if z < 0.2:
            t["key"] = self.lookalike(t["key"], r)        # same value, look-alike label
        elif z < 0.4:
            t["value"] = self.lookalike(t["value"], r)    # same label, look-alike value
        return t

    def features(self, hi=3):
        r = self.rng
        fs = super().features(hi)
        if fs and r.random() < 0.5:
            k = self.lookalike(fs[0]["key"], r)
            if all(f["key"] != k for f in fs):
                fs.insert(r.randint(0, len(fs)), {"key": k, "value": self.fl()})
        return fs

    def user(self):
        r = self.rng
        u = super().user()
        if r.random() < 0.5:
            u["username"] = r.choice(["", " ", "\U0001F987", "a" * 300, "0", "None"])
        if r.random() < 0.5:
            u["email"] = r.choice(["A.B@example.org", "x+y+z@sub.domain.example.co", "o'neil@example.com", "u_1@bücher.example"])
        return u

    def recording(self, i=0):
        r = self.rng
        rec = super().recording(i)
        rec["duration"] = num(r.choice([0.0, 5e-324, 1e308, 1.0, 0.1 + 0.2, 86400.0]))
        rec["channels"] = num(r.choice([0, 1, 2, 64, 2 ** 31]))
        rec["samplerate"] = num(r.choice([0, 1, 44100, 2 ** 31 - 1, 2 ** 40, 384000]))
        rec["time_expansion"] = num(r.choice([1.0, 0.0, 1.0000000000000002, 0.9999999999999999, 1e-300, 10.0, 1e300]))
        if rec.get("date") is not None:
            rec["date"] = r.choice([datetime.date(1, 1, 1), datetime.date(9999, 12, 31), datetime.date(2000, 2, 29)]).isoformat()
        if rec.get("time") is not None:
            rec["time"] = r.choice([datetime.time(0, 0), datetime.time(23, 59, 59, 999999), datetime.time(12, 0, 1, 5),
                                    datetime.time(12, 0, tzinfo=datetime.timezone.utc),
                                    datetime.time(6, 30, 0, 250000, tzinfo=datetime.timezone(datetime.timedelta(hours=2)))]).isoformat()
        if rec.get("latitude") is not None:
            rec["latitude"] = num(r.choice([0.0, 90.0, -90.0, 5e-324, 1e-7]))
        if rec.get("longitude") is not None:
            rec["longitude"] = num(r.choice([0.0, 180.0, -180.0, 179.99999999999997]))
        return rec

    def clip(self):
        r = self.rng
        c = super().clip()
        s, e = r.choice([(0.0, 0.0), (0.0, 5e-324), (1e-300, 1e300), (0.1 + 0.2, 0.30000000000000004),
                         (2.0, 2.0000000000000004), (0.0, 1.7976931348623157e308), (1.0, 2.0)])
        c["start_time"], c["end_time"] = num(s), num(e)
        return c


class RichGen(aoefgen.Gen):
    """all-fields objects (`rich`) whose lists have at least two elements wherever the pools allow it, so that the
    order of every list is observable"""

    def __init__(self, rng, rich=True, base="/data/audio", size=1.5):
        super().__init__(rng, rich=True, base=base, size=size)

    def some(self, pool, lo=0, hi=3, distinct=False):
        return super().some(pool, max(lo, 2), max(hi, 2), distinct)

    def features(self, hi=3):
        keys = self.rng.sample(aoefgen.KEYS, self.rng.randint(2, max(2, hi)))
        return [{"key": k, "value": self.fl()} for k in keys]

    def taglist(self, hi=3):
        return [self.tag() for _ in range(self.rng.randint(2, max(2, hi)))]

    def ptags(self, hi=3):
        return [{"tag": self.tag(), "score": self.unit()} for _ in range(self.rng.randint(2, max(2, hi)))]

    def notes(self, hi=2):
        return super().notes(hi) + super().notes(1)

    def task(self, clip=None):
        t = super().task(clip)
        r = self.rng
        while len(t["status_badges"]) < 2:
            t["status_badges"].append({"state": r.choice(aoefgen.STATES), "owner": self.user_ref(), "created_on": self.stamp()})
        return t

    def collection(self, ty):
        for _ in range(50):
            cj = super().collection(ty)
            v = cj["value"]
            if all(len(v[k]) >= 2 for k in ("recordings", "clip_annotations", "clip_predictions", "clip_evaluations",
                                            "tasks", "annotation_tags", "evaluation_tags", "metrics") if k in v):
                return cj
        return cj


LABELS = ["\U0001F987", "clé espèce", "ключ", "键", "a\u0301", "\u00e1", "tab\tkey", "new\nline", " lead", "trail ", "dc:type",
          "http://rs.tdwg.org/dwc/terms/scientificName", "quote\"d", "back\\slash", "\u200bzero", "k" * 200, "NULL", "0", "true",
          "\ufeffbom", "Key", "key", "KEY", "\u212a"]      # the last four differ only by case / compatibility


def widen_strings(cj, rng):
    """every *short* string slot — tag keys and values, feature labels, user names, hashes, licences, versions, names,
    evaluation tasks — gets unicode of every kind.  One table old -> new, injective, applied everywhere: equal strings
    stay equal (coherent sharing), distinct ones stay distinct (distinct feature labels, distinct tags)."""
    table, used = {}, set()

    def m(s):
        if not isinstance(s, str):
            return s
        if s not in table:
            cand = [x for x in LABELS + WIDE_TEXTS if x not in used]
            table[s] = rng.choice(cand) if cand and rng.random() < 0.8 else s + "\u2063" * (len(used) + 1)
            used.add(table[s])
        return table[s]

    def walk(x, key=None):
        if isinstance(x, dict):
            y = {k: walk(v, k) for k, v in x.items()}
            if set(y) == {"key", "value"}:
                y["key"] = m(y["key"])
                if key not in ("features", "metrics"):
                    y["value"] = m(y["value"])
            for f in ("username", "hash", "license", "version", "evaluation_task"):
                if isinstance(y.get(f), str):
                    y[f] = m(y[f])
            return y
        if isinstance(x, list):
            return [walk(v, key) for v in x]
        return x
    v = walk(cj["value"], "~collection")
    if isinstance(v.get("name"), str):
        v["name"] = m(v["name"])
    return {"type": cj["type"], "value": v}


# ----------------------------------------------------------------------------- equal content, different identity
class TwinGen(aoefgen.Gen):
    """every pool additionally holds *twins*: equal content under a fresh uuid (distinct objects that look the same)"""

    def __init__(self, rng, rich=False, base="/data/audio", size=1.0):
        super().__init__(rng, rich=rich, base=base, size=size)
        r = rng

        def twins(pool, k=2):
            for _ in range(k):
                if pool:
                    pool.append(self.twin(r.choice(pool)))
        twins(self.users)
        twins(self.recordings)
        # later pools draw from the extended earlier ones, then get twins of their own
        self.clips += [self.clip() for _ in range(2)]
        twins(self.clips, 3)
        self.ses += [self.sound_event(i) for i in range(2)]
        twins(self.ses, 3)
        self.seqs.append(self.sequence())
        twins(self.seqs)
        self.seas += [self.sea() for _ in range(2)]
        twins(self.seas, 3)
        self.sqas.append(self.sqa())
        twins(self.sqas)
        self.seps += [self.sep() for _ in range(2)]
        twins(self.seps, 3)
        self.sqps.append(self.sqp())
        twins(self.sqps)

    def notes(self, hi=2):
        ns = super().notes(hi)
        if ns and self.rng.random() < 0.6:
            ns.append(self.twin(ns[0]))          # same text, author, time: another note
        return ns

    def ca(self, clip=None):
        a = super().ca(clip)
        return a

    def collection(self, ty):
        cj = super().collection(ty)
        v = cj["value"]
        r = self.rng
        # a second member with the content of the first (another uuid)
        for key in ("clip_annotations", "clip_predictions", "clip_evaluations"):
            if v.get(key) and r.random() < 0.7:
                t = self.twin(v[key][0])
                if key == "clip_evaluations":
                    t["annotations"] = self.twin(t["annotations"])
                    t["predictions"] = self.twin(t["predictions"])
                    t["matches"] = [self.twin(m) for m in t["matches"]]
                v[key].insert(r.randint(0, len(v[key])), t)
        if v.get("tasks") and r.random() < 0.7:
            v["tasks"].append(self.twin(v["tasks"][0]))
        return cj


# ----------------------------------------------------------------------------- kinds of the model JSON
def kind_of(d, parent_key=None):
    """which data class a dict of the model-layout JSON stands for"""
    if not isinstance(d, dict):
        return None
    ks = set(d)
    if "samplerate" in ks:
        return "Recording"
    if "username" in ks:
        return "User"
    if "message" in ks:
        return "Note"
    if "start_time" in ks:
        return "Clip"
    if "geometry" in ks:
        return "SoundEvent"
    if "parent" in ks:
        return "Sequence"
    if "annotations" in ks and "predictions" in ks:
        return "ClipEvaluation"
    if "affinity" in ks:
        return "Match"
    if "status_badges" in ks:
        return "AnnotationTask"
    if "state" in ks:
        return "StatusBadge"
    if ks == {"tag", "score"}:
        return "PredictedTag"
    if ks == {"key", "value"}:
        return "Feature" if parent_key in ("features", "metrics") else "Tag"
    if "sound_event" in ks:
        return "SoundEventAnnotation" if "created_on" in ks else "SoundEventPrediction"
    if "sequence" in ks:
        return "SequenceAnnotation" if "created_on" in ks else "SequencePrediction"
    if "clip" in ks:
        return "ClipAnnotation" if "notes" in ks else "ClipPrediction"
    return None


def map_kind(cj, kind, fn):
    """apply `fn(dict) -> dict` to every object of a kind (a pure function of the value: copies stay equal)"""
    def walk(x, key=None):
        if isinstance(x, dict):
            y = {k: walk(v, k) for k, v in x.items()}
            return fn(y) if kind_of(y, key) == kind else y
        if isinstance(x, list):
            return [walk(v, key) for v in x]
        return x
    v = walk(cj["value"], "~collection")
    return {"type": cj["type"], "value": v}


def reverse_lists(cj):
    """the same graph with every list reversed (a pure function of each value, so sharing is preserved).
    An annotation project's tasks keep covering its clips; a clip evaluation's matches keep matching."""
    def walk(x):
        if isinstance(x, dict):
            return {k: walk(v) for k, v in x.items()}
        if isinstance(x, list):
            return [walk(v) for v in reversed(x)]
        return x
    return walk(cj)


# model-JSON name of a declared field
RENAME = {("Tag", "term"): "key", ("Feature", "term"): "key"}
COLLECTION_CLASS = {"recording_set": "RecordingSet", "dataset": "Dataset", "annotation_set": "AnnotationSet",
                    "annotation_project": "AnnotationProject", "evaluation_set": "EvaluationSet",
                    "prediction_set": "PredictionSet", "model_run": "ModelRun", "evaluation": "Evaluation"}
# which collection types contain objects of a class (where a variant of that class is worth running)
HOSTS = {
    "User": ["dataset", "annotation_project", "evaluation"], "Note": ["recording_set", "annotation_set", "evaluation"],
    "Recording": ["recording_set", "dataset", "annotation_set", "model_run"],
    "Clip": ["annotation_set", "prediction_set", "annotation_project", "evaluation"],
    "SoundEvent": ["evaluation_set", "model_run", "evaluation"], "Sequence": ["annotation_project", "prediction_set", "evaluation"],
    "SoundEventAnnotation": ["annotation_set", "evaluation_set", "evaluation"],
    "SequenceAnnotation": ["annotation_project", "evaluation_set", "evaluation"],
    "ClipAnnotation": ["annotation_set", "annotation_project", "evaluation_set", "evaluation"],
    "StatusBadge": ["annotation_project"], "AnnotationTask": ["annotation_project"],
    "PredictedTag": ["prediction_set", "model_run", "evaluation"],
    "SoundEventPrediction": ["prediction_set", "model_run", "evaluation"],
    "SequencePrediction": ["prediction_set", "model_run", "evaluation"],
    "ClipPrediction": ["prediction_set", "model_run", "evaluation"],
    "Match": ["evaluation"], "ClipEvaluation": ["evaluation"], "Tag": ["dataset", "evaluation_set", "model_run"],
    "Feature": ["recording_set", "prediction_set", "evaluation"],
}


def slot_table():
    """(class, field, [variant values]) for every declared field that can be absent / empty / falsy, read from
    `model_fields` of the real data classes (regenerated on every run: a new optional field gets its variants,
    a field that stops being optional loses them)"""
    import typing
    from soundevent import data
    table = []
    for cname in sorted(set(HOSTS) | set(COLLECTION_CLASS.values())):
        cls = getattr(data, cname, None)
        if cls is None or not hasattr(cls, "model_fields"):
            continue
        for f, info in cls.model_fields.items():
            ann = info.annotation
            origin, args = typing.get_origin(ann), typing.get_args(ann)
            optional = origin is typing.Union and type(None) in args
            inner = [a for a in args if a is not type(None)][0] if optional and len(args) == 2 else ann
            vals = []
            if optional:
                vals.append(("absent", None))
            io = typing.get_origin(inner)
            if io in (list, typing.List):
                vals.append(("empty", []))
            elif inner is str and f not in ("uuid",):
                vals.append(("falsy", ""))
            elif inner is float:
                vals.append(("falsy", num(0.0)))
            elif inner is int:
                vals.append(("falsy", num(0)))
            elif inner is bool:
                vals.append(("falsy", False))
            if vals:
                table.append((cname, RENAME.get((cname, f), f), vals))
    return table


def slot_variants(rich_by_type, types_per_slot=None, rng=None):
    """from the all-fields collections: one (class, field) at a time absent / empty / falsy in *every* object of the class"""
    out = []
    for cname, f, vals in slot_table():
        if cname in COLLECTION_CLASS.values():
            hosts = [t for t, c in COLLECTION_CLASS.items() if c == cname]
        else:
            hosts = HOSTS.get(cname, [])
            if types_per_slot is not None and rng is not None and len(hosts) > types_per_slot:
                hosts = rng.sample(hosts, types_per_slot)
        for how, val in vals:
            for ty in hosts:
                base = rich_by_type.get(ty)
                if base is None:
                    continue
                if cname in COLLECTION_CLASS.values():
                    if f not in base["value"]:
                        continue
                    cj = {"type": ty, "value": dict(copy.deepcopy(base["value"]), **{f: copy.deepcopy(val)})}
                else:
                    hit = [0]

                    def fn(d, f=f, val=val, hit=hit):
                        if f in d:
                            hit[0] += 1
                            return dict(d, **{f: copy.deepcopy(val)})
                        return d
                    cj = map_kind(base, cname, fn)
                    if not hit[0]:
                        continue
                out.append((f"{cname}.{f}:{how}", {"collection": cj}))
    return out


# ----------------------------------------------------------------------------- several collections, one process
def multi_history(rng, gen_cls=None, base="/data/audio", k=4):
    """collections of different types over the *same* pools (same uuids), saved / loaded alternately, then the same
    again with revised content: nothing written or read for one collection may leak into the next"""
    g = (gen_cls or aoefgen.Gen)(rng, base=base, size=1.0)
    tys = rng.sample(aoefgen.TYPES, k)
    cols = [g.collection(t) for t in tys]
    d = base if (base is not None and rng.random() < 0.5) else None
    mk = lambda c, **kw: dict({"collection": c, "save_dir": d, "load_dir": d, "n": 1, "dir_as": "str", "fresh": False}, **kw)
    steps = [mk(c) for c in cols]
    steps += [mk(aoefgen.revise(c)) for c in cols[::-1]]
    steps += [mk(cols[0], fresh=True), mk(aoefgen.revise(cols[1]), fresh=True), mk(cols[1], fresh=True), mk(cols[0])]
    return {"steps": steps}


# ----------------------------------------------------------------------------- follow-up: boundaries, siblings, sizes
# (HISTORIES.md sections 2-4)
def _rel(x, k, sign):
    """x moved by a relative 10^-k (absolute when x == 0)"""
    return x + sign * (abs(x) if x else 1.0) * 10.0 ** -k


def time_expansion_values():
    """the one numeric comparison the adapters make (`time_expansion != 1.0`: the default is not stored): values at
    10^-6 … 10^-15 relative distance on both sides of 1.0, the neighbouring floats, and the same offsets around other
    magnitudes (nothing special may happen there)"""
    import math
    vals = [1.0, math.nextafter(1.0, 2.0), math.nextafter(1.0, 0.0), 0.0, 5e-324, 1e-9, 1e9, 0.5, 2.0, 10.0]
    for k in (6, 8, 9, 10, 12, 15):
        for s in (1, -1):
            vals += [_rel(1.0, k, s), _rel(10.0, k, s), _rel(1e-6, k, s), _rel(1e9, k, s)]
    out = []
    for v in vals:
        if v not in out and v >= 0:
            out.append(v)
    return out


def time_expansion_cases(types=("recording_set", "evaluation", "annotation_project", "model_run")):
    out = []
    vals = time_expansion_values()
    for j, ty in enumerate(types):
        rng = random.Random("te:" + ty)
        for i, te in enumerate(vals):
            if j and i % len(types) != j:           # every value on the first type, a quarter of them on the others
                continue
            base = ["/data/audio", "audio", None][i % 3]
            g = aoefgen.Gen(rng, base=base, size=0.5)
            for r in g.recordings:
                r["time_expansion"] = num(te)
            g.clips = [g.clip() for _ in range(2)]
            g.ses = [g.sound_event(k) for k in range(2)]
            g.seqs = [g.sequence()]
            g.seas, g.sqas, g.seps, g.sqps = [g.sea()], [g.sqa()], [g.sep()], [g.sqp()]
            cj = g.collection(ty)
            if ty == "recording_set" and not cj["value"]["recordings"]:
                cj["value"]["recordings"] = [copy.deepcopy(g.recordings[0])]
            out.append({"collection": cj, "save_dir": base if i % 2 else None, "load_dir": base if i % 2 else None,
                        "n": 2, "dir_as": "str", "fresh": bool(i % 4 == 3), "_tally": "time_expansion near 1.0"})
    return out


class NearGen(TwinGen):
    """twins that differ from their original by a tolerance-sized amount in one number (10^-6 … 10^-15 relative, at
    small and large magnitudes): two clips over *almost* the same span, two sound events with almost the same
    geometry, scores / features / coordinates a hair apart.  They are different objects with different content and
    must come back as such."""

    def _nudge(self, tok):
        r = self.rng
        x = float(tok)
        y = _rel(x, r.choice([6, 8, 9, 10, 12, 15]), r.choice([1, -1]))
        return num(y) if y != x and abs(y) < 1e300 else num(x + 1.0)

    def twin(self, obj):
        import json as _json
        o = super().twin(obj)
        r = self.rng
        nums = [k for k in ("start_time", "end_time", "duration", "latitude", "longitude", "score", "affinity", "time_expansion")
                if isinstance(o.get(k), str)]
        if nums and r.random() < 0.8:
            k = r.choice(nums)
            if k == "end_time":
                o[k] = num(max(float(self._nudge(o[k])), float(o["start_time"])))
            elif k == "start_time":
                o[k] = num(min(max(float(self._nudge(o[k])), 0.0), float(o["end_time"])))
            elif k in ("score", "affinity"):
                o[k] = num(min(max(float(self._nudge(o[k])), 0.0), 1.0))
            elif k == "latitude":
                o[k] = num(min(max(float(self._nudge(o[k])), -90.0), 90.0))
            elif k == "longitude":
                o[k] = num(min(max(float(self._nudge(o[k])), -180.0), 180.0))
            elif k in ("duration", "time_expansion"):
                o[k] = num(abs(float(self._nudge(o[k]))))
            else:
                o[k] = self._nudge(o[k])
        elif isinstance(o.get("geometry"), str) and r.random() < 0.8:
            g = _json.loads(o["geometry"])
            if g["type"] == "TimeStamp":
                g["coordinates"] = float(self._nudge(num(g["coordinates"])))
            elif g["type"] in ("TimeInterval", "BoundingBox"):
                c = list(g["coordinates"])
                c[-1] = max(float(self._nudge(num(c[-1]))), c[-1])          # the far end moves outwards
                g["coordinates"] = c
            elif g["type"] == "Point":
                g["coordinates"] = [g["coordinates"][0], abs(float(self._nudge(num(g["coordinates"][1]))))]
            o["geometry"] = geom_token(g)
        if isinstance(o.get("features"), list) and o["features"] and r.random() < 0.5:
            o["features"] = [dict(o["features"][0], value=self._nudge(o["features"][0]["value"]))] + o["features"][1:]
        return o


# list slots: (class in the model JSON, field, may an element be repeated?)
LIST_SLOTS = [
    ("Recording", "tags", True), ("Recording", "owners", False), ("Recording", "notes", False), ("Recording", "features", False),
    ("Clip", "features", False), ("SoundEvent", "features", False), ("Sequence", "features", False),
    ("SoundEventAnnotation", "tags", True), ("SoundEventAnnotation", "notes", False),
    ("SequenceAnnotation", "tags", True), ("SequenceAnnotation", "notes", False),
    ("ClipAnnotation", "tags", True), ("ClipAnnotation", "notes", False), ("ClipAnnotation", "sound_events", False),
    ("ClipAnnotation", "sequences", False),
    ("SoundEventPrediction", "tags", True), ("SequencePrediction", "tags", True), ("ClipPrediction", "tags", True),
    ("ClipPrediction", "features", False), ("ClipPrediction", "sound_events", False), ("ClipPrediction", "sequences", False),
    ("AnnotationTask", "status_badges", True), ("Match", "metrics", False), ("ClipEvaluation", "metrics", False),
    ("ClipEvaluation", "matches", False),
]
COLLECTION_LIST_SLOTS = [("annotation_project", "annotation_tags", True), ("evaluation_set", "evaluation_tags", True),
                         ("evaluation", "metrics", False), ("annotation_project", "tasks", False)]


def sibling_variants(rich_by_type, rng, hosts_per_slot=1):
    """every list slot of every class — the siblings that mirror each other (tags of a recording / of a clip
    annotation / of a sound event annotation / of a sequence annotation / of the project; features of …; notes of …) —
    one at a time: reversed, rotated, and (where an element may legitimately occur twice: tags, predicted tags,
    status badges) with its last element repeated in front.  An adapter that treats one of the siblings differently
    from the others (sorts it, de-duplicates it) shows on that slot alone."""
    out = []

    def variants(xs, dup):
        vs = []
        if len(xs) >= 2:
            vs.append(("reversed", list(reversed(xs))))
            vs.append(("rotated", xs[1:] + xs[:1]))
        if dup and xs:
            vs.append(("repeated", [copy.deepcopy(xs[-1])] + xs))
            if isinstance(xs[-1], dict) and set(xs[-1]) == {"tag", "score"}:
                other = num(0.0 if float(xs[-1]["score"]) != 0.0 else 1.0)
                vs.append(("repeated-other-score", [dict(copy.deepcopy(xs[-1]), score=other)] + xs))
        return vs
    for cname, f, dup in LIST_SLOTS:
        hosts = [t for t in HOSTS.get(cname, []) if t in rich_by_type]
        for ty in (rng.sample(hosts, min(hosts_per_slot, len(hosts))) if hosts_per_slot else hosts):
            base = rich_by_type[ty]
            probe = []
            map_kind(base, cname, lambda d, f=f: (probe.append(d.get(f)) or d))
            hows = sorted({h for xs in probe if isinstance(xs, list) for h, _ in variants(xs, dup)})
            for how in hows:
                def fn(d, f=f, how=how, dup=dup):
                    xs = d.get(f)
                    if isinstance(xs, list):
                        for h, ys in variants(xs, dup):
                            if h == how:
                                return dict(d, **{f: ys})
                    return d
                out.append((f"{cname}.{f}:{how}", {"collection": map_kind(base, cname, fn)}))
    for ty, f, dup in COLLECTION_LIST_SLOTS:
        base = rich_by_type.get(ty)
        if base is None or not isinstance(base["value"].get(f), list):
            continue
        for how, ys in variants(base["value"][f], dup):
            out.append((f"{COLLECTION_CLASS[ty]}.{f}:{how}", {"collection": {"type": ty, "value": dict(copy.deepcopy(base["value"]), **{f: ys})}}))
    return out


def share_uuids_across_kinds(cj, rng, k=4):
    """objects of *different* kinds carrying one uuid (a prediction with the uuid of an annotation, a clip with the
    uuid of its recording, the collection with the uuid of a member): identity is per kind, so nothing may merge"""
    by_kind = {}

    def walk(x, key=None):
        if isinstance(x, dict):
            kd = kind_of(x, key)
            if kd and isinstance(x.get("uuid"), str):
                by_kind.setdefault(kd, [])
                if x["uuid"] not in by_kind[kd]:
                    by_kind[kd].append(x["uuid"])
            for kk, v in x.items():
                walk(v, kk)
        elif isinstance(x, list):
            for v in x:
                walk(v, key)
    walk(cj["value"], "~collection")
    kinds = sorted(by_kind)
    out = cj
    if len(kinds) < 2:
        return out
    for _ in range(k):
        ka, kb = rng.sample(kinds, 2)
        ua, ub = rng.choice(by_kind[ka]), rng.choice(by_kind[kb])
        if ub in by_kind[ka]:
            continue
        out = map_kind(out, ka, lambda d, ua=ua, ub=ub: dict(d, uuid=ub) if d.get("uuid") == ua else d)
        by_kind[ka] = [ub if u == ua else u for u in by_kind[ka]]
    if rng.random() < 0.7:
        kb = rng.choice(kinds)
        out = {"type": out["type"], "value": dict(out["value"], uuid=rng.choice(by_kind[kb]))}
    return out


def size_cases(rng, counts=(17, 257, 1025)):
    """collections at the sizes where an implementation could switch strategy (> 16, > 256, >= 1024 elements):
    that many recordings (sharing a handful of tags and users), tags on one recording, sound events / annotations in
    one clip annotation, predictions in one clip prediction, features in one list, notes on one recording, a parent
    chain of sequences, clip annotations in a set"""
    out = []

    def mk(cj, tally):
        out.append({"collection": cj, "save_dir": None, "load_dir": None, "n": 1, "dir_as": "str", "fresh": False,
                    "_tally": tally})
    for n in counts:
        g = aoefgen.Gen(rng, base="/data/audio", size=1.0)
        recs = []
        for i in range(n):
            r = g.recording(i)
            r["path"] = f"/data/audio/site {i % 7}/r{i}.wav"
            r["notes"] = r["notes"][:1] if i % 5 == 0 else []
            recs.append(r)
        mk({"type": "dataset", "value": {"uuid": g.uid(), "created_on": g.stamp(), "name": "n", "description": None,
                                          "recordings": recs}}, f"{n} recordings")
        # n distinct tags on one recording (and a few repeated), n features, n notes
        r0 = g.recording(0)
        r0["tags"] = [{"key": f"k{i % 13}", "value": f"v{i}"} for i in range(n)] + [{"key": "k0", "value": "v0"}]
        r0["features"] = [{"key": f"f{i}", "value": num(i / 7)} for i in range(n)]
        r0["notes"] = [{"uuid": g.uid(), "message": f"note {i}", "created_by": g.user_ref(), "is_issue": bool(i % 2),
                        "created_on": g.stamp()} for i in range(min(n, 300))]
        mk({"type": "recording_set", "value": {"uuid": g.uid(), "created_on": g.stamp(), "recordings": [r0]}},
           f"{n} tags / features on one recording")
        # n sound events, annotated and predicted, in one clip
        rec = g.recording(1)
        clip = {"uuid": g.uid(), "recording": rec, "start_time": num(0.0), "end_time": num(10.0), "features": []}
        ses = [{"uuid": g.uid(), "geometry": geom_token({"type": "TimeInterval", "coordinates": [i / 128, i / 128 + 0.5]}),
                "recording": copy.deepcopy(rec), "features": []} for i in range(n)]
        seas = [{"uuid": g.uid(), "sound_event": s, "notes": [], "tags": [{"key": "k", "value": f"v{i % 19}"}],
                 "created_by": None, "created_on": "2020-01-01T00:00:00"} for i, s in enumerate(ses)]
        seps = [{"uuid": g.uid(), "sound_event": copy.deepcopy(s), "score": num((i % 100) / 100),
                 "tags": [{"tag": {"key": "k", "value": f"v{i % 19}"}, "score": num(0.5)}]} for i, s in enumerate(ses)]
        ca = {"uuid": g.uid(), "clip": clip, "sound_events": seas, "sequences": [], "tags": [], "notes": [],
              "created_on": "2020-01-01T00:00:00"}
        mk({"type": "annotation_set", "value": {"uuid": g.uid(), "created_on": g.stamp(), "clip_annotations": [ca]}},
           f"{n} sound event annotations in one clip")
        cp = {"uuid": g.uid(), "clip": copy.deepcopy(clip), "sound_events": seps, "sequences": [], "tags": [], "features": []}
        mk({"type": "prediction_set", "value": {"uuid": g.uid(), "created_on": g.stamp(), "clip_predictions": [cp]}},
           f"{n} sound event predictions in one clip")
        if n <= 300:
            # a chain of n sequences, each the parent of the next, the last one annotated
            seq = None
            for i in range(n):
                seq = {"uuid": g.uid(), "sound_events": [copy.deepcopy(ses[i % len(ses)])], "features": [], "parent": seq}
            sqa = {"uuid": g.uid(), "sequence": seq, "notes": [], "tags": [], "created_by": None,
                   "created_on": "2020-01-01T00:00:00"}
            ca2 = {"uuid": g.uid(), "clip": copy.deepcopy(clip), "sound_events": [], "sequences": [sqa], "tags": [], "notes": [],
                   "created_on": "2020-01-01T00:00:00"}
            mk({"type": "annotation_set", "value": {"uuid": g.uid(), "created_on": g.stamp(), "clip_annotations": [ca2]}},
               f"a parent chain of {n} sequences")
    return out
