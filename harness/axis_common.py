"""Helpers shared by the axis-family checks (C16, C17, C20)."""
import math
from fractions import Fraction

from .rat import rat, frac

_ERR = [("IndexError", "index"), ("ZeroDivisionError", "zerodiv"), ("KeyError", "key"),
        ("ValidationError", "invalid"), ("ValueError", "invalid"), ("TypeError", "type")]


def canon_exc(e):
    """exception -> the model's error enum (messages never compared); unforeseen -> crash:<T>"""
    names = [c.__name__ for c in type(e).__mro__]
    for n, tag in _ERR:
        if n in names:
            return {"raise": tag}
    return {"raise": "crash:" + type(e).__name__}


def guarded(fn):
    """impl wrapper: every exception of the real code is an observation"""
    def impl(inp):
        try:
            return fn(inp)
        except Exception as e:  # noqa: BLE001
            return canon_exc(e)
    impl.__name__ = getattr(fn, "__name__", "impl")
    return impl


def f(s):
    """rational string -> float (exact when the string came from a float)"""
    return None if s is None else float(frac(s))


def fl(xs):
    return [float(frac(x)) for x in xs]


def is_err(out):
    return isinstance(out, dict) and "raise" in out


def ulp_up(x):
    return math.nextafter(x, math.inf)


def ulp_down(x):
    return math.nextafter(x, -math.inf)


def dy(rng, lo, hi, k):
    """a multiple of 2^-k in [lo, hi] as a Fraction"""
    a = int(math.ceil(lo * (1 << k)))
    b = int(math.floor(hi * (1 << k)))
    return Fraction(rng.randint(a, b), 1 << k)


def rats(xs):
    return [rat(x) for x in xs]
