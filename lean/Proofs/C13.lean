/- C13 — property theorems (to be written). -/
import SoundeventModel.Basic
namespace SE.Proofs.C13

end SE.Proofs.C13
