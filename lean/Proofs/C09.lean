/-
  C09 — Evaluation metrics are what their terms say, in all four tasks.
  Property theorems only (helper lemmas live in Proofs/Lemmas/Metrics.lean).
-/
import SoundeventModel.Metrics
namespace SE.Proofs.C09
open SE SE.Metrics

/-- a table that passes the two regenerated checks has pairwise distinct labels and names,
    and every row carries the name and the label of the term that names its function -/
theorem C09_table_sound (t : List Row) (hd : TermsDistinct t = true) (hm : TermMatchesFunction t = true) :
    (t.map (·.termLabel)).Nodup ∧ (t.map (·.termName)).Nodup ∧
    ∀ r ∈ t, ∃ m : Metric, m.fn = r.fn ∧ r.termName = m.termName ∧ r.termLabel = m.label := by
  unfold TermsDistinct at hd
  simp only [Bool.and_eq_true, decide_eq_true_eq] at hd
  refine ⟨hd.1, hd.2, ?_⟩
  intro r hr
  unfold TermMatchesFunction at hm
  rw [List.all_eq_true] at hm
  have h := hm r hr
  cases hf : Metric.ofFn r.fn with
  | none => simp [hf] at h
  | some m =>
    simp only [hf, Bool.and_eq_true, beq_iff_eq] at h
    refine ⟨m, ?_, h.1, h.2⟩
    unfold Metric.ofFn at hf
    have := List.find?_some hf
    simpa using this

/-- the function name identifies the metric kind -/
private theorem ofFn_fn (m : Metric) : Metric.ofFn m.fn = some m := by cases m <;> decide

/-- when the code's table lists the same functions as the model's driver and passes
    `TermMatchesFunction`, the labels (and names) the code attaches are exactly the ones the
    model attaches, in the same order -/
theorem C09_labels_of_table (task : Task) (lvl : Level) (t : List Row)
    (ha : TableAgrees task lvl t = true) (hm : TermMatchesFunction t = true) :
    t.map (·.termLabel) = (taskMetrics task lvl).map (·.label) := by
  unfold TableAgrees at ha
  have ha' : t.map (·.fn) = (taskMetrics task lvl).map (·.fn) := by simpa using ha
  clear ha
  generalize taskMetrics task lvl = ms at ha'
  unfold TermMatchesFunction at hm
  induction t generalizing ms with
  | nil => cases ms with
    | nil => rfl
    | cons m ms => simp at ha'
  | cons r t ih =>
    cases ms with
    | nil => simp at ha'
    | cons m ms =>
      simp only [List.map_cons, List.cons.injEq] at ha'
      simp only [List.all_cons, Bool.and_eq_true] at hm
      have h1 := hm.1
      rw [ha'.1, ofFn_fn] at h1
      simp only [Bool.and_eq_true, beq_iff_eq] at h1
      simp only [List.map_cons, List.cons.injEq]
      exact ⟨h1.2, ih hm.2 ms ha'.2⟩

/-- the model's own driver tables have pairwise distinct labels at every level of every task -/
theorem C09_model_tables_distinct (task : Task) (lvl : Level) :
    ((taskMetrics task lvl).map (·.label)).Nodup := by
  cases task <;> cases lvl <;> decide

end SE.Proofs.C09
