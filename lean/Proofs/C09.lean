/-
  C09 — Evaluation metrics are what their terms say, in all four tasks.
  Property theorems only (helper lemmas live in Proofs/Lemmas/Metrics.lean).
-/
import SoundeventModel.Metrics
import SoundeventModel.Detection
import Proofs.Lemmas.Metrics
import SoundeventModel.MetricsTags
import Proofs.Lemmas.MetricsTags
import Proofs.C08
import Proofs.C19
namespace SE.Proofs.C09
open SE SE.Metrics

/-- a table that passes the two regenerated checks has pairwise distinct labels and names,
    and every row carries the name and the label of the term that names its function -/
theorem C09_table_sound (t : List Row) (hd : TermsDistinct t = true) (hm : TermMatchesFunction t = true) :
    (t.map (·.termLabel)).Nodup ∧ (t.map (·.termName)).Nodup ∧
    ∀ r ∈ t, ∃ m : Metric, m.fn = r.fn ∧ r.termName = m.termName ∧ r.termLabel = m.label := by
  unfold TermsDistinct at hd
  simp only [Bool.and_eq_true, decide_eq_true_eq] at hd
  refine ⟨hd.1, hd.2, ?_⟩
  intro r hr
  unfold TermMatchesFunction at hm
  rw [List.all_eq_true] at hm
  have h := hm r hr
  cases hf : Metric.ofFn r.fn with
  | none => simp [hf] at h
  | some m =>
    simp only [hf, Bool.and_eq_true, beq_iff_eq] at h
    refine ⟨m, ?_, h.1, h.2⟩
    unfold Metric.ofFn at hf
    have := List.find?_some hf
    simpa using this

/-- the function name identifies the metric kind -/
private theorem ofFn_fn (m : Metric) : Metric.ofFn m.fn = some m := by cases m <;> decide

/-- when the code's table lists the same functions as the model's driver and passes
    `TermMatchesFunction`, the labels (and names) the code attaches are exactly the ones the
    model attaches, in the same order -/
theorem C09_labels_of_table (task : Task) (lvl : Level) (t : List Row)
    (ha : TableAgrees task lvl t = true) (hm : TermMatchesFunction t = true) :
    t.map (·.termLabel) = (taskMetrics task lvl).map (·.label) := by
  unfold TableAgrees at ha
  have ha' : t.map (·.fn) = (taskMetrics task lvl).map (·.fn) := by simpa using ha
  clear ha
  generalize taskMetrics task lvl = ms at ha'
  unfold TermMatchesFunction at hm
  induction t generalizing ms with
  | nil => cases ms with
    | nil => rfl
    | cons m ms => simp at ha'
  | cons r t ih =>
    cases ms with
    | nil => simp at ha'
    | cons m ms =>
      simp only [List.map_cons, List.cons.injEq] at ha'
      simp only [List.all_cons, Bool.and_eq_true] at hm
      have h1 := hm.1
      rw [ha'.1, ofFn_fn] at h1
      simp only [Bool.and_eq_true, beq_iff_eq] at h1
      simp only [List.map_cons, List.cons.injEq]
      exact ⟨h1.2, ih hm.2 ms ha'.2⟩

private def labelOfFn (f : String) : String := match Metric.ofFn f with | some m => m.label | none => ""

private theorem ofFn_fn' (m : Metric) : Metric.ofFn m.fn = some m := by cases m <;> decide

/-- order-insensitive form of `C09_labels_of_table`: the labels the code attaches at a level are
    the labels the model attaches, as a multiset -/
theorem C09_labels_of_table_perm (task : Task) (lvl : Level) (t : List Row)
    (ha : TableAgreesPerm task lvl t = true) (hm : TermMatchesFunction t = true) :
    (t.map (·.termLabel)).Perm ((taskMetrics task lvl).map (·.label)) := by
  unfold TableAgreesPerm at ha
  rw [List.isPerm_iff] at ha
  have h1 : t.map (·.termLabel) = (t.map (·.fn)).map labelOfFn := by
    rw [List.map_map]
    apply List.map_congr_left
    intro r hr
    unfold TermMatchesFunction at hm
    rw [List.all_eq_true] at hm
    have h := hm r hr
    simp only [Function.comp, labelOfFn]
    cases hf : Metric.ofFn r.fn with
    | none => simp [hf] at h
    | some m =>
      simp only [hf, Bool.and_eq_true, beq_iff_eq] at h
      exact h.2
  have h2 : (taskMetrics task lvl).map (·.label) = ((taskMetrics task lvl).map (·.fn)).map labelOfFn := by
    rw [List.map_map]
    apply List.map_congr_left
    intro m _
    simp [Function.comp, labelOfFn, ofFn_fn']
  rw [h1, h2]
  exact ha.map _

example : TableAgreesPerm .clipMultilabel .example
    [⟨"soundevent_metrics:averagePrecision", "Average Precision", "average_precision"⟩,
     ⟨"soundevent_metrics:jaccard", "Jaccard Index", "jaccard"⟩] = true := by decide

/-- the model's own driver tables have pairwise distinct labels at every level of every task -/
theorem C09_model_tables_distinct (task : Task) (lvl : Level) :
    ((taskMetrics task lvl).map (·.label)).Nodup := by
  cases task <;> cases lvl <;> decide

/-! ### the result does not depend on the order of the evaluated items / clips -/

theorem C09_perm_accuracy (C : Nat) {xs ys : List Item} (h : xs.Perm ys) : accuracy C xs = accuracy C ys :=
  accuracy_perm C h

theorem C09_perm_balanced_accuracy (C : Nat) {xs ys : List Item} (h : xs.Perm ys) :
    balancedAccuracy C xs = balancedAccuracy C ys := balancedAccuracy_perm C h

theorem C09_perm_top_k (k C : Nat) {xs ys : List Item} (h : xs.Perm ys) : topK k C xs = topK k C ys :=
  topK_perm k C h

/-- average precision is a function of the multiset of (label, score) pairs -/
theorem C09_perm_average_precision {xs ys : Labelled} (h : xs.Perm ys) :
    averagePrecision xs = averagePrecision ys := averagePrecision_perm h

theorem C09_perm_mean_average_precision (C : Nat) {xs ys : List Item} (h : xs.Perm ys) :
    meanAveragePrecision C xs = meanAveragePrecision C ys := meanAveragePrecision_perm C h

theorem C09_perm_mean_average_precision_multilabel (C : Nat) {xs ys : List MLItem} (h : xs.Perm ys) :
    meanAveragePrecisionML C xs = meanAveragePrecisionML C ys := meanAveragePrecisionML_perm C h

/-- every run-level metric of a single-label task at once (errors included) -/
theorem C09_perm_run_metrics (C : Nat) {xs ys : List Item} (h : xs.Perm ys) (ms : List Metric) :
    features ms (runMetricSL C xs) = features ms (runMetricSL C ys) := by
  have : runMetricSL C xs = runMetricSL C ys := by
    funext m
    cases m <;> simp only [runMetricSL]
    · rw [balancedAccuracy_perm C h]
    · rw [accuracy_perm C h]
    · rw [topK_perm 3 C h]
    · exact meanAveragePrecision_perm C h
  rw [this]

theorem C09_perm_mean {xs ys : List Rat} (h : xs.Perm ys) : mean xs = mean ys := mean_perm h

/-- the overall score does not depend on the order of the clip evaluations -/
theorem C09_perm_overall_score {xs ys : List ClipOut} (h : xs.Perm ys) : overallScore xs = overallScore ys := by
  unfold overallScore
  have hp := h.filterMap (·.score)
  have he : (xs.filterMap (·.score)).isEmpty = (ys.filterMap (·.score)).isEmpty := by
    rw [Bool.eq_iff_iff, List.isEmpty_iff_length_eq_zero, List.isEmpty_iff_length_eq_zero, hp.length_eq]
  simp only [he, mean_perm hp]

/-- permuting the two clip lists (clip ids of the annotations pairwise distinct) permutes the
    evaluated pairs, hence the items every run-level metric is computed over -/
theorem C09_perm_pair_clips {α β} {preds preds' : List (Nat × α)} {anns anns' : List (Nat × β)}
    (hp : preds.Perm preds') (ha : anns.Perm anns') (hn : (anns.map (·.1)).Nodup) :
    (pairClips preds anns).Perm (pairClips preds' anns') := by
  unfold pairClips
  have : (fun p : Nat × α => (lookupLast p.1 anns).map (fun a => (p.1, a, p.2))) =
         (fun p : Nat × α => (lookupLast p.1 anns').map (fun a => (p.1, a, p.2))) := by
    funext p; rw [lookupLast_perm ha hn]
  rw [this]
  exact hp.filterMap _

/-! ### ranges -/

theorem C09_range_accuracy (C : Nat) (xs : List Item) : 0 ≤ accuracy C xs ∧ accuracy C xs ≤ 1 :=
  accuracy_range C xs

theorem C09_range_top_k (k C : Nat) (xs : List Item) : 0 ≤ topK k C xs ∧ topK k C xs ≤ 1 := topK_range k C xs

theorem C09_range_balanced_accuracy (C : Nat) (xs : List Item) :
    0 ≤ balancedAccuracy C xs ∧ balancedAccuracy C xs ≤ 1 := balancedAccuracy_range C xs

theorem C09_range_average_precision (xs : Labelled) : 0 ≤ averagePrecision xs ∧ averagePrecision xs ≤ 1 :=
  averagePrecision_range xs

theorem C09_range_mean_average_precision (C : Nat) (xs : List Item) (v : Rat)
    (h : meanAveragePrecision C xs = some v) : 0 ≤ v ∧ v ≤ 1 := by
  unfold meanAveragePrecision at h
  split at h
  · cases h
  · cases h; exact macroAP_range _ _

theorem C09_range_mean_average_precision_multilabel (C : Nat) (xs : List MLItem) :
    0 ≤ meanAveragePrecisionML C xs ∧ meanAveragePrecisionML C xs ≤ 1 := macroAP_range _ _

theorem C09_range_jaccard (it : MLItem) : 0 ≤ jaccard it ∧ jaccard it ≤ 1 := jaccard_range it

theorem C09_range_example_average_precision (it : MLItem) : 0 ≤ exampleAP it ∧ exampleAP it ≤ 1 :=
  averagePrecision_range _

/-- single-label scoring: non-negative scores summing to at most 1 -/
theorem C09_range_true_class_probability (it : Item) (h0 : ∀ x ∈ it.row, 0 ≤ x) (h1 : it.row.sum ≤ 1) :
    0 ≤ tcp it ∧ tcp it ≤ 1 := tcp_range it h0 h1

theorem C09_range_mean {xs : List Rat} (h : ∀ x ∈ xs, 0 ≤ x ∧ x ≤ 1) : 0 ≤ mean xs ∧ mean xs ≤ 1 := mean_range h

/-! ### average precision is what its term says -/

/-- the step integral `Σₙ (Rₙ − Rₙ₋₁)·Pₙ` over the distinct thresholds equals the mean, over the
    positive examples, of the precision at their own score -/
theorem C09_average_precision_is_mean_precision (xs : Labelled) : averagePrecision xs = apMeanPrecision xs :=
  averagePrecision_eq_mean_precision xs

theorem C09_average_precision_no_positive (xs : Labelled) (h : ∀ x ∈ xs, x.1 = false) : averagePrecision xs = 0 := by
  unfold averagePrecision
  have : numPos xs = 0 := by
    unfold numPos; rw [List.countP_eq_zero]; intro x hx; simp [h x hx]
  simp [this]

/-- a ranking that puts every positive example strictly above every negative one has AP = 1 -/
theorem C09_average_precision_perfect (xs : Labelled) (hpos : ∃ x ∈ xs, x.1 = true)
    (hsep : ∀ p ∈ xs, ∀ n ∈ xs, p.1 = true → n.1 = false → n.2 < p.2) : averagePrecision xs = 1 := by
  rw [averagePrecision_eq_mean_precision]
  unfold apMeanPrecision
  have hP : numPos xs ≠ 0 := by
    obtain ⟨x, hx, hx1⟩ := hpos
    unfold numPos
    exact Nat.pos_iff_ne_zero.mp (List.countP_pos_iff.mpr ⟨x, hx, hx1⟩)
  simp only [hP, if_false]
  have hone : ∀ x ∈ xs.filter (·.1), precisionAt xs x.2 = 1 := by
    intro x hx
    rw [List.mem_filter] at hx
    unfold precisionAt
    have hc : xs.countP (fun y => y.1 && decide (x.2 ≤ y.2)) = xs.countP (fun y => decide (x.2 ≤ y.2)) := by
      apply List.countP_congr
      intro y hy
      cases hy1 : y.1 with
      | true => simp
      | false =>
        have := hsep x hx.1 y hy hx.2 hy1
        simp [not_le.mpr this]
    rw [hc]
    apply ratio_self
    exact Nat.pos_iff_ne_zero.mp (List.countP_pos_iff.mpr ⟨x, hx.1, by simp⟩)
  have hs : ((xs.filter (·.1)).map (fun x => precisionAt xs x.2)).sum = ((xs.filter (·.1)).length : Rat) := by
    generalize xs.filter (·.1) = l at hone
    induction l with
    | nil => simp
    | cons a l ih =>
      simp only [List.map_cons, List.sum_cons, List.length_cons, Nat.cast_add, Nat.cast_one]
      rw [hone a (by simp), ih (fun y hy => hone y (by simp [hy]))]
      ring
  rw [hs, ← numPos_eq_length_filter]
  have : (numPos xs : Rat) ≠ 0 := by exact_mod_cast hP
  exact div_self this

/-! ### argmax and top-k conventions -/

/-- numpy `argmax`: a maximal entry, and the first one -/
theorem C09_argmax_first (row : List Rat) (hne : row ≠ []) :
    argmaxFirst row < row.length ∧ (∀ j, j < row.length → row.getD j 0 ≤ row.getD (argmaxFirst row) 0) ∧
      (∀ j, j < argmaxFirst row → row.getD j 0 < row.getD (argmaxFirst row) 0) := argmaxFirst_spec row hne

/-- top-k accuracy is vacuously 1 when k is at least the number of classes (incl. 'none'):
    a vocabulary of one or two tags always has top-3 accuracy 1 -/
theorem C09_top_k_vacuous (k C : Nat) (items : List Item) (hne : items ≠ [])
    (hv : ∀ it ∈ items, it.row.length = C ∧ trueIdx C it.y ≤ C) (hk : C + 1 ≤ k) : topK k C items = 1 := by
  unfold topK
  have : items.countP (hitK k C) = items.length := by
    rw [List.countP_eq_length]
    intro it hit
    exact hitK_of_few_classes k C it (hv it hit).1 (hv it hit).2 hk
  rw [this]
  exact ratio_self (by simpa using hne)

/-! ### the 'none' class -/

/-- an unlabelled item is class `C` (the appended column) in the accuracy family: its
    true-class score is the left-over mass `1 − Σ`, and it counts as correct exactly when every
    class score is strictly below that mass -/
theorem C09_none_class_accuracy_family (C : Nat) (row : List Rat) (hrow : row.length = C) :
    trueIdx C none = C ∧ (withNone row).getD C 0 = 1 - row.sum ∧ tcp ⟨none, row⟩ = 1 - row.sum ∧
    (correct C ⟨none, row⟩ = true ↔ ∀ j, j < C → row.getD j 0 < 1 - row.sum) := by
  have hget : ∀ j, j < C → (withNone row).getD j 0 = row.getD j 0 := by
    intro j hj
    simp [withNone, List.getD_eq_getElem?_getD, List.getElem?_append_left (hrow ▸ hj)]
  have hlast : (withNone row).getD C 0 = 1 - row.sum := by
    simp [withNone, noneScore, List.getD_eq_getElem?_getD, ← hrow]
  have hlen : (withNone row).length = C + 1 := by simp [withNone, hrow]
  refine ⟨rfl, hlast, rfl, ?_⟩
  have spec := argmaxFirst_spec (withNone row) (by simp [withNone])
  simp only [correct, trueIdx, beq_iff_eq]
  constructor
  · intro h j hj
    have := spec.2.2 j (by omega)
    rw [h, hget j hj, hlast] at this
    exact this
  · intro h
    by_contra hne
    have hr : argmaxFirst (withNone row) < C := by
      have := spec.1; omega
    have h1 := spec.2.1 C (by omega)
    rw [hlast, hget _ hr] at h1
    exact absurd (h _ hr) (not_lt.mpr h1)

/-- unlabelled items are left out of mean average precision -/
theorem C09_none_class_dropped_from_map (C : Nat) (items : List Item) :
    meanAveragePrecision C items = meanAveragePrecision C (items.filter (fun it => it.y.isSome)) := by
  unfold meanAveragePrecision; rw [labelled_filter]

/-- a labelled item's true-class probability is its score for that class -/
theorem C09_true_class_probability (c : Nat) (row : List Rat) : tcp ⟨some c, row⟩ = row.getD c 0 := rfl

/-- balanced accuracy is the mean recall over the classes (incl. 'none') that occur in the truth -/
theorem C09_balanced_accuracy_is_mean_recall (C : Nat) (items : List Item) :
    balancedAccuracy C items = mean ((presentClasses C items).map (recallOf C items)) ∧
    ∀ c, c ∈ presentClasses C items ↔ c ≤ C ∧ ∃ it ∈ items, trueIdx C it.y = c := by
  refine ⟨rfl, ?_⟩
  intro c
  simp only [presentClasses, List.mem_filter, List.mem_range, List.any_eq_true, beq_iff_eq]
  constructor
  · rintro ⟨h, it, hit, he⟩; exact ⟨by omega, it, hit, he⟩
  · rintro ⟨h, it, hit, he⟩; exact ⟨by omega, it, hit, he⟩


/-! ### which metric over which arrays, and scores are means -/

/-- the clip evaluation `clip_classification` builds for one evaluated clip -/
def ccClipOut (C : Nat) (x : Nat × CCAnn × CCPred) : ClipOut :=
  { clip := x.1, metrics := [("True Class Probability", tcp (ccItem C x.2.1 x.2.2))],
    score := some (tcp (ccItem C x.2.1 x.2.2)), mts := [] }

/-- `clip_classification`: balanced accuracy, accuracy and top-3 accuracy over the encoded truth
    and score row of every evaluated clip; per clip the true-class probability, which is also the
    clip's score; the overall score is the mean of the clip scores -/
theorem C09_clip_classification_spec (C : Nat) (preds : List (Nat × CCPred)) (anns : List (Nat × CCAnn))
    (out : EvalOut) (h : clipClassification C preds anns = .ok out) :
    let pairs := pairClips preds anns
    let items := pairs.map (fun x => ccItem C x.2.1 x.2.2)
    items ≠ [] ∧
    out.metrics = [("Balanced Accuracy", balancedAccuracy C items), ("Accuracy", accuracy C items),
                   ("Top 3 Accuracy", topK 3 C items)] ∧
    out.clips = pairs.map (ccClipOut C) ∧
    out.score = mean (items.map tcp) := by
  intro pairs items
  unfold clipClassification at h
  have hclips : (pairClips preds anns).mapM (ccClip C) = .ok (pairs.map (ccClipOut C)) := by
    apply mapM_total
    intro x
    simp [ccClip, ccClipOut, features, taskMetrics, itemMetricSL, Metric.label, List.mapM_cons, List.mapM_nil,
      bind, Except.bind, pure, Except.pure]
  have hfs : features (taskMetrics .clipClassification .run) (runMetricSL C items) =
      .ok [("Balanced Accuracy", balancedAccuracy C items), ("Accuracy", accuracy C items),
           ("Top 3 Accuracy", topK 3 C items)] := by
    simp [features, taskMetrics, runMetricSL, Metric.label, List.mapM_cons, List.mapM_nil, bind, Except.bind,
      pure, Except.pure]
  simp only [hclips, bind, Except.bind] at h
  by_cases he : items.isEmpty = true
  · simp [items, pairs] at he
    simp [he, throw, throwThe, MonadExceptOf.throw] at h
  · have he' : (List.map (fun x => ccItem C x.2.1 x.2.2) (pairClips preds anns)).isEmpty = false := by
      simpa [items, pairs] using he
    simp only [he', Bool.false_eq_true, if_false, pure, Except.pure] at h
    rw [show List.map (fun x => ccItem C x.2.1 x.2.2) (pairClips preds anns) = items from rfl, hfs] at h
    simp only [Except.ok.injEq] at h
    subst h
    refine ⟨?_, rfl, rfl, ?_⟩
    · intro e; simp [e] at he
    · simp only [overallScore]
      have hsc : (pairs.map (ccClipOut C)).filterMap (·.score) = items.map tcp := by
        simp [items, ccClipOut, List.filterMap_map, Function.comp_def]
      rw [show List.map (ccClipOut C) (pairClips preds anns) = pairs.map (ccClipOut C) from rfl, hsc]
      have : (items.map tcp).isEmpty = false := by
        simpa [List.isEmpty_iff] using (by intro e; simp [e] at he : items ≠ [])
      simp [this]


/-- the match `sound_event_classification` builds for one evaluated sound event -/
def secMatchOutV (m : Nat × Nat × Item) : MatchOut :=
  { src := some m.1, tgt := some m.2.1, affinity := 1, score := some (tcp m.2.2),
    metrics := [("True Class Probability", tcp m.2.2)] }

/-- the clip evaluation of one clip: no score when no sound event was evaluated, otherwise the
    mean of the match scores -/
def secClipOut (C : Nat) (x : Nat × List SEAnn × List SEPred) : ClipOut :=
  let ms := secMatches C x.2.1 x.2.2
  { clip := x.1, metrics := [],
    score := if ms.isEmpty then none else some (mean (ms.map (fun m => tcp m.2.2))),
    mts := ms.map secMatchOutV }

/-- the clip's predictions and annotations refer to the same sound events one-to-one (what
    `ClipEvaluation` demands of the matches) -/
def secOneToOne (C : Nat) (x : Nat × List SEAnn × List SEPred) : Prop :=
  secCovered x.2.2.length x.2.1.length (secMatches C x.2.1 x.2.2) = true

theorem secClip_covered (C : Nat) (x : Nat × List SEAnn × List SEPred) (r : ClipOut × List Item)
    (h : secClip C x = .ok r) : secOneToOne C x := by
  unfold secClip at h
  unfold secOneToOne
  cases hc : secCovered x.2.2.length x.2.1.length (secMatches C x.2.1 x.2.2) with
  | true => rfl
  | false => simp [hc, throw, throwThe, MonadExceptOf.throw, bind, Except.bind] at h

theorem secClip_eq (C : Nat) (x : Nat × List SEAnn × List SEPred) (hc : secOneToOne C x) :
    secClip C x = .ok (secClipOut C x, (secMatches C x.2.1 x.2.2).map (·.2.2)) := by
  unfold secClip
  unfold secOneToOne at hc
  simp only [hc, Bool.not_true, Bool.false_eq_true, if_false]
  have hm : (secMatches C x.2.1 x.2.2).mapM secMatchOut = .ok ((secMatches C x.2.1 x.2.2).map secMatchOutV) := by
    apply mapM_total
    intro m
    simp [secMatchOut, secMatchOutV, features, taskMetrics, itemMetricSL, Metric.label, List.mapM_cons,
      List.mapM_nil, bind, Except.bind, pure, Except.pure]
  simp only [hm, bind, Except.bind, pure, Except.pure, secClipOut, List.isEmpty_map]

/-- `sound_event_classification`: the three accuracy metrics over the encoded truth and score row
    of every evaluated sound event of every evaluated clip; per match the true-class
    probability (also its score); clip score = mean of its match scores (none for an empty clip);
    overall score = mean of the clip scores that exist -/
theorem C09_sound_event_classification_spec (C : Nat) (preds : List (Nat × List SEPred))
    (anns : List (Nat × List SEAnn)) (out : EvalOut) (h : soundEventClassification C preds anns = .ok out) :
    let pairs := pairClips preds anns
    let items := (pairs.map (fun x => (secMatches C x.2.1 x.2.2).map (·.2.2))).flatten
    items ≠ [] ∧
    out.metrics = [("Balanced Accuracy", balancedAccuracy C items), ("Accuracy", accuracy C items),
                   ("Top 3 Accuracy", topK 3 C items)] ∧
    out.clips = pairs.map (secClipOut C) ∧
    out.score = overallScore out.clips ∧
    ∀ x ∈ pairs, secOneToOne C x := by
  intro pairs items
  unfold soundEventClassification at h
  have hcov : ∀ x ∈ pairs, secOneToOne C x := by
    cases hrs0 : (pairClips preds anns).mapM (secClip C) with
    | error e => simp [hrs0, bind, Except.bind] at h
    | ok rs0 =>
      intro x hx
      obtain ⟨b, hb⟩ := ((mapM_ok_iff _ _ _).mp hrs0).1 x hx
      exact secClip_covered C x b hb
  have hrs : (pairClips preds anns).mapM (secClip C) =
      .ok (pairs.map (fun x => (secClipOut C x, (secMatches C x.2.1 x.2.2).map (·.2.2)))) :=
    mapM_total_mem _ _ _ (fun x hx => secClip_eq C x (hcov x hx))
  simp only [hrs, bind, Except.bind] at h
  have hitems : (List.map (fun x => x.2) (pairs.map (fun x => (secClipOut C x, (secMatches C x.2.1 x.2.2).map (·.2.2))))).flatten
      = items := by simp [items, List.map_map, Function.comp_def]
  have hclips : List.map (fun x => x.1) (pairs.map (fun x => (secClipOut C x, (secMatches C x.2.1 x.2.2).map (·.2.2))))
      = pairs.map (secClipOut C) := by simp [List.map_map, Function.comp_def]
  rw [hitems, hclips] at h
  have hfs : features (taskMetrics .soundEventClassification .run) (runMetricSL C items) =
      .ok [("Balanced Accuracy", balancedAccuracy C items), ("Accuracy", accuracy C items),
           ("Top 3 Accuracy", topK 3 C items)] := by
    simp [features, taskMetrics, runMetricSL, Metric.label, List.mapM_cons, List.mapM_nil, bind, Except.bind,
      pure, Except.pure]
  by_cases he : items.isEmpty = true
  · simp [he, throw, throwThe, MonadExceptOf.throw] at h
  · simp only [he, Bool.false_eq_true, if_false, pure, Except.pure, hfs, Except.ok.injEq] at h
    subst h
    refine ⟨?_, rfl, rfl, rfl, hcov⟩
    intro e; simp [e] at he

/-- the clip evaluation `clip_multilabel_classification` builds for one evaluated clip, given its score -/
def mlClipOut (C : Nat) (x : Nat × CCAnn × CCPred) (s : Rat) : ClipOut :=
  { clip := x.1, score := some s, mts := [],
    metrics := [("Jaccard Index", jaccard (mlItem C x.2.1 x.2.2)), ("Average Precision", exampleAP (mlItem C x.2.1 x.2.2))] }

/-- `clip_multilabel_classification`: mean average precision over the indicator truth and score
    row of every evaluated clip; per clip the Jaccard index and the average precision of that
    clip's row; the overall score is the mean of the clip scores (the clip score itself,
    `exp(-log_loss)`, is a parameter) -/
theorem C09_clip_multilabel_spec (C : Nat) (preds : List (Nat × CCPred)) (anns : List (Nat × CCAnn))
    (scores : List Rat) (out : EvalOut) (h : clipMultilabel C preds anns scores = .ok out)
    (hlen : scores.length = (pairClips preds anns).length) :
    let pairs := pairClips preds anns
    let rows := pairs.map (fun x => mlItem C x.2.1 x.2.2)
    rows ≠ [] ∧ 2 ≤ C ∧
    out.metrics = [("Mean Average Precision", meanAveragePrecisionML C rows)] ∧
    out.clips.map (·.metrics) = rows.map (fun r => [("Jaccard Index", jaccard r), ("Average Precision", exampleAP r)]) ∧
    out.clips.map (·.score) = scores.map some ∧
    out.score = mean scores := by
  intro pairs rows
  unfold clipMultilabel at h
  by_cases he : (pairClips preds anns).isEmpty = true
  · simp [he, throw, throwThe, MonadExceptOf.throw, bind, Except.bind] at h
  by_cases hC : C ≤ 1
  · simp [he, hC, throw, throwThe, MonadExceptOf.throw, bind, Except.bind, pure, Except.pure] at h
  simp only [he, hC, Bool.false_eq_true, if_false, pure, Except.pure, bind, Except.bind] at h
  have hcl : ((pairClips preds anns).zip scores).mapM (fun (x, s) => do
        let fs ← features (taskMetrics .clipMultilabel .example) (itemMetricML (mlItem C x.2.1 x.2.2))
        return ({ clip := x.1, metrics := fs, score := some s, mts := [] } : ClipOut)) =
      .ok ((pairs.zip scores).map (fun (x, s) => mlClipOut C x s)) := by
    apply mapM_total
    rintro ⟨x, s⟩
    simp [mlClipOut, features, taskMetrics, itemMetricML, Metric.label, List.mapM_cons, List.mapM_nil, bind, Except.bind,
      pure, Except.pure]
  simp only [bind, Except.bind, pure, Except.pure] at hcl
  simp only [hcl] at h
  have hfs : features (taskMetrics .clipMultilabel .run) (runMetricML C rows) =
      .ok [("Mean Average Precision", meanAveragePrecisionML C rows)] := by
    simp [features, taskMetrics, runMetricML, Metric.label, List.mapM_cons, List.mapM_nil, bind, Except.bind,
      pure, Except.pure]
  rw [show List.map (fun x => mlItem C x.2.1 x.2.2) (pairClips preds anns) = rows from rfl, hfs] at h
  simp only [Except.ok.injEq] at h
  subst h
  have hne : pairs ≠ [] := by intro e; simp [pairs, e] at he
  have hlen' : scores.length = pairs.length := hlen
  have h1 : (pairs.zip scores).map Prod.fst = pairs := List.map_fst_zip (by omega)
  have h2 : (pairs.zip scores).map Prod.snd = scores := List.map_snd_zip (by omega)
  refine ⟨by simpa [rows] using hne, by omega, rfl, ?_, ?_, ?_⟩
  · calc ((pairs.zip scores).map (fun x => mlClipOut C x.1 x.2)).map (·.metrics)
        = ((pairs.zip scores).map Prod.fst).map (fun x =>
            [("Jaccard Index", jaccard (mlItem C x.2.1 x.2.2)), ("Average Precision", exampleAP (mlItem C x.2.1 x.2.2))]) := by
          simp [List.map_map, Function.comp_def, mlClipOut]
      _ = _ := by rw [h1]; simp [rows, List.map_map, Function.comp_def]
  · calc ((pairs.zip scores).map (fun x => mlClipOut C x.1 x.2)).map (·.score)
        = ((pairs.zip scores).map Prod.snd).map some := by simp [List.map_map, Function.comp_def, mlClipOut]
      _ = _ := by rw [h2]
  · simp only [overallScore]
    have hsc : ((pairs.zip scores).map (fun x => mlClipOut C x.1 x.2)).filterMap (·.score) = scores := by
      calc ((pairs.zip scores).map (fun x => mlClipOut C x.1 x.2)).filterMap (·.score)
          = (pairs.zip scores).map Prod.snd := by simp [List.filterMap_map, Function.comp_def, mlClipOut]
        _ = scores := h2
    rw [hsc]
    have : scores ≠ [] := by
      intro e; rw [e] at hlen'; simp at hlen'; exact hne (List.length_eq_zero_iff.mp hlen'.symm)
    simp [List.isEmpty_iff, this]


/-! ### an AOEF document keeps every metric -/

/-- AOEF stores a metric list as a mapping keyed by the term's label.  With pairwise distinct
    labels the mapping is injective: saving and loading returns the very same list of
    `(label, value)` (C01's round trip then keeps every metric of an `Evaluation`, of its clip
    evaluations and of their matches) -/
theorem C09_survives_aoef (fs : Features) (h : (fs.map (·.1)).Nodup) : fromDict (toDict fs) = fs := by
  unfold fromDict toDict
  have := foldl_dictInsert fs [] h (by intro p hp; simp at hp)
  simpa using this

/-- what the three-times-*Balanced Accuracy* table of `sound_event_classification` did to its
    metrics when saved: one entry survives, carrying the last value -/
theorem C09_duplicate_labels_collapse (k : String) (a b c : Rat) :
    fromDict (toDict [(k, a), (k, b), (k, c)]) = [(k, c)] := by
  simp [fromDict, toDict, dictInsert]

/-- every metric list the four task drivers produce has pairwise distinct labels, so the
    above applies to all of them -/
theorem C09_features_labels (ms : List Metric) (f : Metric → Option Rat) (fs : Features)
    (h : features ms f = .ok fs) : fs.map (·.1) = ms.map (·.label) := by
  unfold features at h
  have := mapM_ok_forall₂ _ _ _ h
  clear h
  induction this with
  | nil => rfl
  | @cons m p ms' fs' hab _ ih =>
    cases hf : f m with
    | none => simp [hf] at hab
    | some v =>
      simp only [hf, Except.ok.injEq] at hab
      subst hab
      simp [ih]

/-! ### every metric list of every task: distinct terms, and they survive AOEF (review additions) -/

/-- the labels of a metric list are pairwise distinct -/
def DistinctTerms (fs : Features) : Prop := (fs.map (·.1)).Nodup

/-- every metric list of a result — the evaluation's, every clip evaluation's, every match's —
    carries pairwise distinct terms -/
def AllTermsDistinct (out : EvalOut) : Prop :=
  DistinctTerms out.metrics ∧ ∀ c ∈ out.clips, DistinctTerms c.metrics ∧ ∀ m ∈ c.mts, DistinctTerms m.metrics

/-- every metric list of a result comes back unchanged from the label-keyed AOEF mapping -/
def AllSurviveAoef (out : EvalOut) : Prop :=
  fromDict (toDict out.metrics) = out.metrics ∧
  ∀ c ∈ out.clips, fromDict (toDict c.metrics) = c.metrics ∧ ∀ m ∈ c.mts, fromDict (toDict m.metrics) = m.metrics

/-- a metric list computed from a table of the model has pairwise distinct terms -/
theorem C09_features_distinct (task : Task) (lvl : Level) (f : Metric → Option Rat) (fs : Features)
    (h : features (taskMetrics task lvl) f = .ok fs) : DistinctTerms fs := by
  unfold DistinctTerms
  rw [C09_features_labels _ f fs h]
  exact C09_model_tables_distinct task lvl

theorem C09_distinct_terms_survive_aoef (out : EvalOut) (h : AllTermsDistinct out) : AllSurviveAoef out :=
  ⟨C09_survives_aoef _ h.1, fun c hc => ⟨C09_survives_aoef _ (h.2 c hc).1,
    fun m hm => C09_survives_aoef _ ((h.2 c hc).2 m hm)⟩⟩

theorem C09_terms_distinct_clip_classification (C : Nat) (preds : List (Nat × CCPred)) (anns : List (Nat × CCAnn))
    (out : EvalOut) (h : clipClassification C preds anns = .ok out) : AllTermsDistinct out := by
  obtain ⟨_, hm, hc, _⟩ := C09_clip_classification_spec C preds anns out h
  refine ⟨by rw [DistinctTerms, hm]; simp only [List.map_cons, List.map_nil]; decide, ?_⟩
  intro c hcm
  rw [hc] at hcm
  obtain ⟨x, _, rfl⟩ := List.mem_map.mp hcm
  exact ⟨by simp [DistinctTerms, ccClipOut], by simp [ccClipOut]⟩

theorem C09_terms_distinct_sound_event_classification (C : Nat) (preds : List (Nat × List SEPred))
    (anns : List (Nat × List SEAnn)) (out : EvalOut) (h : soundEventClassification C preds anns = .ok out) :
    AllTermsDistinct out := by
  obtain ⟨_, hm, hc, _⟩ := C09_sound_event_classification_spec C preds anns out h
  refine ⟨by rw [DistinctTerms, hm]; simp only [List.map_cons, List.map_nil]; decide, ?_⟩
  intro c hcm
  rw [hc] at hcm
  obtain ⟨x, _, rfl⟩ := List.mem_map.mp hcm
  refine ⟨by simp [DistinctTerms, secClipOut], ?_⟩
  intro m hm
  simp only [secClipOut] at hm
  obtain ⟨e, _, rfl⟩ := List.mem_map.mp hm
  simp [DistinctTerms, secMatchOutV]


/-- `clip_multilabel_classification` in closed form (no hypothesis on the number of scores) -/
theorem clipMultilabel_eq (C : Nat) (preds : List (Nat × CCPred)) (anns : List (Nat × CCAnn))
    (scores : List Rat) (out : EvalOut) (h : clipMultilabel C preds anns scores = .ok out) :
    out.metrics = [("Mean Average Precision",
        meanAveragePrecisionML C ((pairClips preds anns).map (fun x => mlItem C x.2.1 x.2.2)))] ∧
    out.clips = ((pairClips preds anns).zip scores).map (fun x => mlClipOut C x.1 x.2) ∧
    out.score = overallScore out.clips := by
  unfold clipMultilabel at h
  by_cases he : (pairClips preds anns).isEmpty = true
  · simp [he, throw, throwThe, MonadExceptOf.throw, bind, Except.bind] at h
  by_cases hC : C ≤ 1
  · simp [he, hC, throw, throwThe, MonadExceptOf.throw, bind, Except.bind, pure, Except.pure] at h
  simp only [he, hC, Bool.false_eq_true, if_false, pure, Except.pure, bind, Except.bind] at h
  have hcl : ((pairClips preds anns).zip scores).mapM (fun (x, s) => do
        let fs ← features (taskMetrics .clipMultilabel .example) (itemMetricML (mlItem C x.2.1 x.2.2))
        return ({ clip := x.1, metrics := fs, score := some s, mts := [] } : ClipOut)) =
      .ok (((pairClips preds anns).zip scores).map (fun (x, s) => mlClipOut C x s)) := by
    apply mapM_total
    rintro ⟨x, s⟩
    simp [mlClipOut, features, taskMetrics, itemMetricML, Metric.label, List.mapM_cons, List.mapM_nil, bind, Except.bind,
      pure, Except.pure]
  simp only [bind, Except.bind, pure, Except.pure] at hcl
  simp only [hcl] at h
  have hfs : features (taskMetrics .clipMultilabel .run)
      (runMetricML C ((pairClips preds anns).map (fun x => mlItem C x.2.1 x.2.2))) =
      .ok [("Mean Average Precision", meanAveragePrecisionML C ((pairClips preds anns).map (fun x => mlItem C x.2.1 x.2.2)))] := by
    simp [features, taskMetrics, runMetricML, Metric.label, List.mapM_cons, List.mapM_nil, bind, Except.bind,
      pure, Except.pure]
  rw [hfs] at h
  simp only [Except.ok.injEq] at h
  subst h
  exact ⟨rfl, rfl, rfl⟩

theorem C09_terms_distinct_clip_multilabel (C : Nat) (preds : List (Nat × CCPred)) (anns : List (Nat × CCAnn))
    (scores : List Rat) (out : EvalOut) (h : clipMultilabel C preds anns scores = .ok out) :
    AllTermsDistinct out := by
  obtain ⟨hm, hc, _⟩ := clipMultilabel_eq C preds anns scores out h
  refine ⟨by rw [DistinctTerms, hm]; simp, ?_⟩
  intro c hcm
  rw [hc] at hcm
  obtain ⟨x, _, rfl⟩ := List.mem_map.mp hcm
  exact ⟨by simp only [DistinctTerms, mlClipOut, List.map_cons, List.map_nil]; decide, by simp [mlClipOut]⟩

/-- the match `evaluate_clip` builds from an entry (a metric only for a pair) -/
theorem entryOut_metrics (e : Detection.Entry) (m : MatchOut) (h : Detection.entryOut e = .ok m) :
    DistinctTerms m.metrics := by
  unfold Detection.entryOut at h
  cases hp : e.paired with
  | false =>
    simp [hp, bind, Except.bind, pure, Except.pure] at h
    subst h; simp [DistinctTerms]
  | true =>
    simp only [hp, if_true, bind, Except.bind] at h
    cases hf : features (taskMetrics .soundEventDetection .soundEvent) (itemMetricSL e.item) with
    | error err => simp [hf] at h
    | ok fs =>
      simp [hf, pure, Except.pure] at h
      subst h
      exact C09_features_distinct _ _ _ _ hf

/-- `sound_event_detection`, with any matcher answer (no contract needed for this clause) -/
theorem C09_terms_distinct_sound_event_detection (C : Nat) (preds : List (Nat × Detection.PredClip))
    (anns : List (Nat × List SEAnn)) (out : EvalOut) (h : Detection.soundEventDetection C preds anns = .ok out) :
    AllTermsDistinct out := by
  unfold Detection.soundEventDetection at h
  cases hrs : (Detection.pairClips preds anns).mapM (Detection.detClip C) with
  | error e => simp [hrs, bind, Except.bind] at h
  | ok rs =>
    simp only [hrs, bind, Except.bind] at h
    have hclip : ∀ r ∈ rs, DistinctTerms r.1.metrics ∧ ∀ m ∈ r.1.mts, DistinctTerms m.metrics := by
      intro r hr
      obtain ⟨x, _, hx⟩ := mapM_ok_mem _ _ _ hrs hr
      unfold Detection.detClip at hx
      cases he : Detection.evalClip C x.2.2.events x.2.1 x.2.2.matcher with
      | none => simp [he, throw, throwThe, MonadExceptOf.throw] at hx
      | some es =>
        simp only [he, bind, Except.bind] at hx
        cases ho : es.mapM Detection.entryOut with
        | error err => simp [ho] at hx
        | ok outs =>
          simp only [ho, pure, Except.pure, Except.ok.injEq] at hx
          subst hx
          refine ⟨by simp [DistinctTerms], ?_⟩
          intro m hm
          obtain ⟨a, _, hab⟩ := mapM_ok_mem _ _ _ ho hm
          exact entryOut_metrics a _ hab
    split at h
    · simp only [pure, Except.pure, Except.ok.injEq] at h
      subst h
      refine ⟨by simp [DistinctTerms], ?_⟩
      intro c hc
      obtain ⟨r, hr, rfl⟩ := List.mem_map.mp hc
      exact hclip r hr
    · cases hf : features (taskMetrics .soundEventDetection .run)
          (runMetricSL C (rs.map (·.2)).flatten) with
      | error err => simp [hf] at h
      | ok fs =>
        simp only [hf, pure, Except.pure, Except.ok.injEq] at h
        subst h
        refine ⟨C09_features_distinct _ _ _ _ hf, ?_⟩
        intro c hc
        obtain ⟨r, hr, rfl⟩ := List.mem_map.mp hc
        exact hclip r hr


/-! ### the whole result does not depend on the order of the clips (review additions) -/

/-- `clip_classification` succeeds as soon as one clip is evaluated, with this result -/
theorem clipClassification_ok (C : Nat) (preds : List (Nat × CCPred)) (anns : List (Nat × CCAnn))
    (hne : pairClips preds anns ≠ []) :
    ∃ out, clipClassification C preds anns = .ok out := by
  unfold clipClassification
  have hclips : (pairClips preds anns).mapM (ccClip C) = .ok ((pairClips preds anns).map (ccClipOut C)) := by
    apply mapM_total
    intro x
    simp [ccClip, ccClipOut, features, taskMetrics, itemMetricSL, Metric.label, List.mapM_cons, List.mapM_nil,
      bind, Except.bind, pure, Except.pure]
  have he : (List.map (fun x => ccItem C x.2.1 x.2.2) (pairClips preds anns)).isEmpty = false := by
    simpa using hne
  simp [hclips, he, bind, Except.bind, pure, Except.pure, features, taskMetrics, runMetricSL, List.mapM_cons,
    List.mapM_nil]

/-- permuting the prediction list and the annotation list (annotated clip ids pairwise distinct)
    leaves every run-level metric and the overall score of `clip_classification` unchanged and
    permutes the clip evaluations -/
theorem C09_perm_clip_classification (C : Nat) {preds preds' : List (Nat × CCPred)} {anns anns' : List (Nat × CCAnn)}
    (hp : preds.Perm preds') (ha : anns.Perm anns') (hn : (anns.map (·.1)).Nodup) (out : EvalOut)
    (h : clipClassification C preds anns = .ok out) :
    ∃ out', clipClassification C preds' anns' = .ok out' ∧ out'.metrics = out.metrics ∧ out'.score = out.score ∧
      out'.clips.Perm out.clips := by
  have hpairs := C09_perm_pair_clips hp ha hn
  obtain ⟨hne, hm, hc, hs⟩ := C09_clip_classification_spec C preds anns out h
  have hne' : pairClips preds' anns' ≠ [] := by
    intro e; rw [e] at hpairs; have := hpairs.length_eq; simp at this; simp [this] at hne
  obtain ⟨out', h'⟩ := clipClassification_ok C preds' anns' hne'
  obtain ⟨_, hm', hc', hs'⟩ := C09_clip_classification_spec C preds' anns' out' h'
  have hitems : ((pairClips preds' anns').map (fun x => ccItem C x.2.1 x.2.2)).Perm
      ((pairClips preds anns).map (fun x => ccItem C x.2.1 x.2.2)) := (hpairs.map _).symm
  refine ⟨out', h', ?_, ?_, ?_⟩
  · rw [hm, hm', balancedAccuracy_perm C hitems, accuracy_perm C hitems, topK_perm 3 C hitems]
  · rw [hs, hs']; exact mean_perm (hitems.map _)
  · rw [hc, hc']; exact (hpairs.map _).symm

theorem soundEventClassification_ok (C : Nat) (preds : List (Nat × List SEPred)) (anns : List (Nat × List SEAnn))
    (hne : ((pairClips preds anns).map (fun x => (secMatches C x.2.1 x.2.2).map (·.2.2))).flatten ≠ [])
    (hcov : ∀ x ∈ pairClips preds anns, secOneToOne C x) :
    ∃ out, soundEventClassification C preds anns = .ok out := by
  unfold soundEventClassification
  have hrs : (pairClips preds anns).mapM (secClip C) =
      .ok ((pairClips preds anns).map (fun x => (secClipOut C x, (secMatches C x.2.1 x.2.2).map (·.2.2)))) :=
    mapM_total_mem _ _ _ (fun x hx => secClip_eq C x (hcov x hx))
  have he : (List.map (fun x => x.2) ((pairClips preds anns).map
      (fun x => (secClipOut C x, (secMatches C x.2.1 x.2.2).map (·.2.2))))).flatten.isEmpty = false := by
    simp only [List.map_map, Function.comp_def]
    cases hh : (List.map (fun x => List.map (fun x => x.2.2) (secMatches C x.2.1 x.2.2)) (pairClips preds anns)).flatten with
    | nil => exact absurd hh hne
    | cons a l => rfl
  simp only [hrs, bind, Except.bind, he, Bool.false_eq_true, if_false, pure, Except.pure]
  simp [features, taskMetrics, runMetricSL, List.mapM_cons, List.mapM_nil, bind, Except.bind, pure, Except.pure]

theorem C09_perm_sound_event_classification (C : Nat) {preds preds' : List (Nat × List SEPred)}
    {anns anns' : List (Nat × List SEAnn)}
    (hp : preds.Perm preds') (ha : anns.Perm anns') (hn : (anns.map (·.1)).Nodup) (out : EvalOut)
    (h : soundEventClassification C preds anns = .ok out) :
    ∃ out', soundEventClassification C preds' anns' = .ok out' ∧ out'.metrics = out.metrics ∧
      out'.score = out.score ∧ out'.clips.Perm out.clips := by
  have hpairs := C09_perm_pair_clips hp ha hn
  obtain ⟨hne, hm, hc, hs, hcov⟩ := C09_sound_event_classification_spec C preds anns out h
  have hitems : ((pairClips preds' anns').map (fun x => (secMatches C x.2.1 x.2.2).map (·.2.2))).flatten.Perm
      ((pairClips preds anns).map (fun x => (secMatches C x.2.1 x.2.2).map (·.2.2))).flatten :=
    ((hpairs.map _).flatten).symm
  have hne' : ((pairClips preds' anns').map (fun x => (secMatches C x.2.1 x.2.2).map (·.2.2))).flatten ≠ [] := by
    intro e; rw [e] at hitems; exact hne hitems.symm.eq_nil
  obtain ⟨out', h'⟩ := soundEventClassification_ok C preds' anns' hne'
    (fun x hx => hcov x (hpairs.mem_iff.mpr hx))
  obtain ⟨_, hm', hc', hs', _⟩ := C09_sound_event_classification_spec C preds' anns' out' h'
  have hclips : out'.clips.Perm out.clips := by rw [hc, hc']; exact (hpairs.map _).symm
  refine ⟨out', h', ?_, ?_, hclips⟩
  · rw [hm, hm', balancedAccuracy_perm C hitems, accuracy_perm C hitems, topK_perm 3 C hitems]
  · rw [hs, hs']; exact C09_perm_overall_score hclips

/-- `sound_event_detection`, for whatever the matcher answered on each clip -/
theorem C09_perm_sound_event_detection (C : Nat) {preds preds' : List (Nat × Detection.PredClip)}
    {anns anns' : List (Nat × List SEAnn)}
    (hp : preds.Perm preds') (ha : anns.Perm anns') (hn : (anns.map (·.1)).Nodup) (out : EvalOut)
    (h : Detection.soundEventDetection C preds anns = .ok out) :
    ∃ out', Detection.soundEventDetection C preds' anns' = .ok out' ∧ out'.metrics = out.metrics ∧
      out'.score = out.score ∧ out'.clips.Perm out.clips := by
  have hpairs : (Detection.pairClips preds anns).Perm (Detection.pairClips preds' anns') := C09_perm_pair_clips hp ha hn
  unfold Detection.soundEventDetection at h ⊢
  cases hrs : (Detection.pairClips preds anns).mapM (Detection.detClip C) with
  | error e => simp [hrs, bind, Except.bind] at h
  | ok rs =>
    obtain ⟨rs', hrs', hperm⟩ := mapM_ok_perm _ hpairs rs hrs
    simp only [hrs, hrs', bind, Except.bind] at h ⊢
    have hitems : ((rs.map (·.2)).flatten).Perm ((rs'.map (·.2)).flatten) := (hperm.map _).flatten
    have hclips : (rs.map (·.1)).Perm (rs'.map (·.1)) := hperm.map _
    have hsc := hclips.filterMap (·.score)
    have he : (rs.map (·.2)).flatten.isEmpty = (rs'.map (·.2)).flatten.isEmpty := by
      rw [Bool.eq_iff_iff, List.isEmpty_iff_length_eq_zero, List.isEmpty_iff_length_eq_zero, hitems.length_eq]
    have hscore : Detection.meanOrZero ((rs.map (·.1)).filterMap (·.score)) =
        Detection.meanOrZero ((rs'.map (·.1)).filterMap (·.score)) := by
      unfold Detection.meanOrZero
      have : ((rs.map (·.1)).filterMap (·.score)).isEmpty = ((rs'.map (·.1)).filterMap (·.score)).isEmpty := by
        rw [Bool.eq_iff_iff, List.isEmpty_iff_length_eq_zero, List.isEmpty_iff_length_eq_zero, hsc.length_eq]
      rw [this, mean_perm hsc]
    rw [← he, ← C09_perm_run_metrics C hitems]
    by_cases hemp : (rs.map (·.2)).flatten.isEmpty = true
    · simp only [hemp, if_true, pure, Except.pure, Except.ok.injEq] at h ⊢
      subst h
      exact ⟨_, rfl, rfl, hscore.symm, hclips.symm⟩
    · simp only [hemp, Bool.false_eq_true, if_false] at h ⊢
      cases hf : features (taskMetrics .soundEventDetection .run) (runMetricSL C (rs.map (·.2)).flatten) with
      | error err => simp [hf] at h
      | ok fs =>
        simp only [hf, pure, Except.pure, Except.ok.injEq] at h ⊢
        subst h
        exact ⟨_, rfl, rfl, hscore.symm, hclips.symm⟩

/-! ### top-k is monotone in k, the multilabel clip score -/

theorem C09_top_k_monotone (k C : Nat) (items : List Item) : topK k C items ≤ topK (k + 1) C items := by
  unfold topK
  apply ratio_mono
  apply List.countP_mono_left
  intro it _ h
  simp only [hitK, decide_eq_true_eq] at h ⊢
  omega

/-- the clip score of the multilabel task, `exp(-log_loss)`, is the product of the (clipped)
    probabilities of the true classes: it lies in (0, 1], and it is 1 when no class is true -/
theorem C09_multilabel_clip_score (it : MLItem) :
    0 < mlScore it ∧ mlScore it ≤ 1 ∧ ((∀ b ∈ it.truth, b = false) → mlScore it = 1) := by
  refine ⟨(mlScore_range it).1, (mlScore_range it).2, ?_⟩
  intro h
  unfold mlScore
  have : (it.truth.zip it.row).map (fun p => if p.1 then clipEps p.2 else 1) =
      List.replicate (it.truth.zip it.row).length 1 := by
    rw [List.eq_replicate_iff]
    refine ⟨by simp, ?_⟩
    intro x hx
    obtain ⟨p, hp, rfl⟩ := List.mem_map.mp hx
    have := h p.1 (List.of_mem_zip hp).1
    simp [this]
  rw [this, prod_replicate_one]

/-- one true class with a probability inside [2⁻²³, 1 − 2⁻²³]: the score is that probability -/
theorem C09_multilabel_clip_score_single (p : Rat) (h0 : f32eps ≤ p) (h1 : p ≤ 1 - f32eps) :
    mlScore ⟨[true], [p]⟩ = p := by
  have : clipEps p = p := by
    unfold clipEps
    rw [if_neg (not_lt.mpr h0), if_neg (not_lt.mpr h1)]
  simp [mlScore, prod, this]

example : mlScore ⟨[true, true, false], [1/2, 1/4, 1/4]⟩ = 1/8 := by decide +kernel
example : mlScore ⟨[true, true], [0, 0]⟩ = 1 / 70368744177664 := by decide +kernel
-- a tie with the left-over mass ranks the 'none' column first: class 0 is third here
example : hitK 2 2 ⟨some 0, [1/4, 1/2]⟩ = false ∧ hitK 3 2 ⟨some 0, [1/4, 1/2]⟩ = true := by decide +kernel


/-! ### balanced data, two-dimensional inputs (review additions) -/

/-- "for balanced datasets, the score is equal to accuracy" (the definition of the term): when every
    class that occurs in the truth ('none' included) occurs equally often, balanced accuracy is accuracy -/
theorem C09_balanced_accuracy_balanced_is_accuracy (C : Nat) (items : List Item) (m : Nat)
    (hb : ∀ it ∈ items, trueIdx C it.y ≤ C)
    (hm : ∀ c ∈ presentClasses C items, items.countP (fun it => trueIdx C it.y == c) = m) :
    balancedAccuracy C items = accuracy C items := balancedAccuracy_eq_accuracy_of_balanced C items m hb hm

theorem C09_range_jaccard_samples (rows : List MLItem) : 0 ≤ jaccardSamples rows ∧ jaccardSamples rows ≤ 1 := by
  unfold jaccardSamples
  apply mean_range
  intro x hx
  obtain ⟨r, _, rfl⟩ := List.mem_map.mp hx
  exact jaccard_range r

theorem C09_micro_average_precision (rows : List MLItem) :
    0 ≤ microAP rows ∧ microAP rows ≤ 1 ∧ ∀ it : MLItem, microAP [it] = exampleAP it := by
  refine ⟨(averagePrecision_range _).1, (averagePrecision_range _).2, ?_⟩
  intro it
  simp [microAP, exampleAP]

example : jaccardSamples [⟨[true, false], [3/4, 1/4]⟩, ⟨[true, true], [3/4, 1/4]⟩] = 3/4 := by decide +kernel

/-! ### non-vacuity: concrete instances of the hypotheses and conventions above -/

-- first-wins argmax against last-wins top-k on a four-way tie: correct, yet not in the top 3
example : correct 4 ⟨some 0, [1/4, 1/4, 1/4, 1/4]⟩ = true ∧ hitK 3 4 ⟨some 0, [1/4, 1/4, 1/4, 1/4]⟩ = false := by
  decide +kernel
-- an unlabelled item is correct iff the left-over mass beats every class
example : correct 2 ⟨none, [1/4, 1/4]⟩ = true ∧ correct 2 ⟨none, [1/2, 1/4]⟩ = false := by decide +kernel
-- average precision: scikit-learn's documentation example (0.1, 0.4, 0.35, 0.8 with truth 0, 0, 1, 1) = 0.8333…
example : averagePrecision [(false, 1/10), (false, 4/10), (true, 35/100), (true, 8/10)] = 5/6 := by decide +kernel
-- tied scores share one threshold
example : averagePrecision [(true, 1/2), (false, 1/2)] = 1/2 := by decide +kernel
example : averagePrecision [(false, 1/2), (false, 1/4)] = 0 := by decide +kernel
-- mean average precision drops the unlabelled row and averages over all classes of the vocabulary
example : meanAveragePrecision 2 [⟨some 0, [1/2, 1/4]⟩, ⟨none, [1/4, 1/2]⟩] = some (1/2) := by decide +kernel
example : meanAveragePrecision 2 [⟨none, [1/4, 1/2]⟩] = none := by decide +kernel
-- balanced accuracy averages recall over the classes present in the truth only
example : balancedAccuracy 2 [⟨some 0, [1/2, 1/4]⟩, ⟨some 0, [1/4, 1/2]⟩, ⟨none, [0, 0]⟩] = 3/4 := by decide +kernel
example : jaccard ⟨[true, false, true], [3/4, 3/4, 1/2]⟩ = 1/3 := by decide +kernel
-- the hypothesis of `C09_survives_aoef` holds for the model's tables and fails for a duplicated label
example : fromDict (toDict [("Accuracy", 1/2), ("Balanced Accuracy", 1/4)]) = [("Accuracy", 1/2), ("Balanced Accuracy", 1/4)] := by
  decide +kernel
-- `C09_perm_pair_clips`: hypotheses satisfiable
example : pairClips [(3, "p3"), (1, "p1"), (7, "p7")] [(1, "a1"), (3, "a3"), (5, "a5")] = [(3, "a3", "p3"), (1, "a1", "p1")] := by
  decide
-- a task driver returns a value (hypothesis `… = .ok out` of the spec theorems)
example : (clipClassification 2 [(0, ⟨[(some 0, 1/2)]⟩)] [(0, ⟨[some 0]⟩)]).toOption.map (·.score) = some (1/2) := by
  decide +kernel

-- the drivers return a value (hypothesis `… = .ok out` of the distinct-terms and permutation theorems)
example : (soundEventClassification 2 [(0, [⟨7, true, [(some 0, 1/2)]⟩]), (1, [])] [(1, []), (0, [⟨7, true, [some 1]⟩])]).toOption.map
    (fun o => (o.score, o.metrics.map (·.1), o.clips.map (·.score))) =
    some (0, ["Balanced Accuracy", "Accuracy", "Top 3 Accuracy"], [some 0, none]) := by decide +kernel
example : (clipMultilabel 2 [(0, ⟨[(some 0, 3/4)]⟩)] [(0, ⟨[some 0]⟩)] [3/4]).toOption.map
    (fun o => (o.score, o.metrics, o.clips.map (·.metrics))) =
    some (3/4, [("Mean Average Precision", 1/2)], [[("Jaccard Index", 1), ("Average Precision", 1)]]) := by decide +kernel
example : (Detection.soundEventDetection 2 [(0, ⟨[⟨7, true, [(some 0, 1/2)]⟩], [⟨some 0, some 0, 1/2⟩]⟩)]
    [(0, [⟨8, true, [some 0]⟩])]).toOption.map (fun o => (o.score, o.metrics.map (·.1), o.clips.map (fun c => c.mts.map (fun m => m.metrics.map (·.1))))) =
    some (1/2, ["Mean Average Precision", "Balanced Accuracy", "Accuracy", "Top 3 Accuracy"], [[["True Class Probability"]]]) := by
  decide +kernel
-- a balanced truth (each present class once): balanced accuracy = accuracy
example : balancedAccuracy 2 [⟨some 0, [1/2, 1/4]⟩, ⟨some 1, [1/2, 1/4]⟩, ⟨none, [1/4, 1/4]⟩] = 2/3 ∧
    accuracy 2 [⟨some 0, [1/2, 1/4]⟩, ⟨some 1, [1/2, 1/4]⟩, ⟨none, [1/4, 1/4]⟩] = 2/3 := by decide +kernel

-- a predicted sound event that is not annotated in its clip (or the converse): `ClipEvaluation` rejects the clip
example : (soundEventClassification 2 [(0, [⟨7, true, [(some 0, 1/2)]⟩, ⟨9, true, []⟩])] [(0, [⟨7, true, [some 0]⟩])]).toOption.isSome = false ∧
    (soundEventClassification 2 [(0, [⟨7, true, [(some 0, 1/2)]⟩])] [(0, [⟨7, true, [some 0]⟩, ⟨8, true, []⟩])]).toOption.isSome = false := by
  decide +kernel

/-! ### follow-up "pools, histories": where the class of a tag comes from

  The task drivers over real tags (`MetricsTags.lean`) hand the metric models the answers of
  `Encoding.encode` — C19's model of `SimpleEncoder`.  The theorems below say that the arrays every
  metric is computed over *are* the encodings of `evaluation/encoding.py` as C19 models (and ties)
  them, and what those arrays are in terms of tag equality only (no index, no encoder). -/
section Tags
open SE.Encoding SE.Proofs.Lemmas.MetricsTags
open SE.Detection (encTags encPredTags TPred TAnn annClassTag probOf)

/-- **bridge**: for every vocabulary, every list of true tags and every list of predicted tags, the
    item each of the four task drivers hands to the metric functions is made of the encodings of
    `evaluation/encoding.py` over that vocabulary, as C19 models them: `classification_encoding` /
    `multilabel_encoding` of the true tags and `prediction_encoding` of the predicted tags
    (clip level, multilabel, and sound-event level — the latter is also what detection's `evaluate_clip`
    uses, theorem `C08_tags_bridge`) -/
theorem C09_tags_bridge (cast : Rat → Rat) (vocab truth : List Tag) (ps : List PredictedTag) :
    (∀ n m, ccItem vocab.length (CCAnnT.enc vocab ⟨truth, n⟩) (CCPredT.enc cast vocab ⟨ps, m⟩) = itemOfTags cast vocab truth ps) ∧
    (∀ n m, mlItem vocab.length (CCAnnT.enc vocab ⟨truth, n⟩) (CCPredT.enc cast vocab ⟨ps, m⟩) = mlItemOfTags cast vocab truth ps) ∧
    ∀ (i j : Nat) (g h : Bool),
      seItem vocab.length (TAnn.enc vocab ⟨i, g, truth⟩) (TPred.enc cast vocab ⟨j, h, ps⟩) = itemOfTags cast vocab truth ps := by
  have hb := SE.Proofs.C08.C08_tags_bridge cast vocab ps truth
  refine ⟨?_, ?_, ?_⟩
  · intro n m; simp only [ccItem, CCAnnT.enc, CCPredT.enc, itemOfTags, hb.1, hb.2]
  · intro n m; simp only [mlItem, CCAnnT.enc, CCPredT.enc, mlItemOfTags, hb.1, multiEnc_encTags]
  · intro i j g h
    simp only [seItem, TAnn.enc, TPred.enc, itemOfTags, hb.1, hb.2]

/-- what those arrays are, **by tag equality only** (vocabulary without repeated tags): the true
    class is the position of the first true tag that is a vocabulary tag (`none` if there is none);
    entry `i` of the score row is the stored score of the last predicted tag *equal* (term with all
    its fields, and value) to the `i`-th vocabulary tag, 0 without one; entry `i` of the multilabel
    truth says whether the `i`-th vocabulary tag is among the true tags; and `i` is the class of a
    tag iff the tag *is* the `i`-th vocabulary tag — two vocabulary tags that differ in any field
    are different classes, a near miss is no class. -/
theorem C09_items_by_tag_equality (cast : Rat → Rat) (vocab : List Tag) (hnd : vocab.Nodup)
    (truth : List Tag) (ps : List PredictedTag) :
    (itemOfTags cast vocab truth ps).y = (annClassTag vocab truth).bind (encode vocab) ∧
    (itemOfTags cast vocab truth ps).row = vocab.map (probOf cast ps) ∧
    (mlItemOfTags cast vocab truth ps).truth = vocab.map (fun v => decide (v ∈ truth)) ∧
    (mlItemOfTags cast vocab truth ps).row = vocab.map (probOf cast ps) ∧
    (∀ t i, encode vocab t = some i ↔ vocab[i]? = some t) ∧ (∀ t, encode vocab t = none ↔ t ∉ vocab) := by
  have hrow : predictionEncoding cast vocab ps = vocab.map (probOf cast ps) := by
    apply List.ext_getElem?
    intro i
    by_cases hi : i < vocab.length
    · rw [SE.Proofs.C19.C19_scores cast vocab hnd ps i hi, List.getElem?_map, List.getElem?_eq_getElem hi,
        Option.map_some]
      rfl
    · have h2 := SE.Proofs.C19.C19_prediction_length cast vocab ps
      simp only [numClasses] at h2
      rw [List.getElem?_eq_none (by omega), List.getElem?_eq_none (by simpa using hi)]
  refine ⟨?_, hrow, ?_, hrow, fun t i => SE.Proofs.C19.C19_encode_iff vocab hnd t i,
    fun t => SE.Proofs.C19.C19_encode_none vocab t⟩
  · simp only [itemOfTags, annClassTag, SE.Proofs.C19.C19_first_in_vocab]
  · simp only [mlItemOfTags]
    apply List.ext_getElem?
    intro i
    by_cases hi : i < vocab.length
    · rw [List.getElem?_map, SE.Proofs.C19.C19_indicator vocab hnd truth i hi, List.getElem?_map,
        List.getElem?_eq_getElem hi]
      by_cases hm : vocab[i] ∈ truth <;> simp [hm]
    · have h2 := SE.Proofs.C19.C19_multilabel_length vocab truth
      simp only [numClasses] at h2
      rw [List.getElem?_eq_none (by simp; omega), List.getElem?_eq_none (by simpa using hi)]

/-- `clip_classification` end to end on real tags: balanced accuracy, accuracy and top-3 accuracy are computed
    over `classification_encoding` / `prediction_encoding` (C19) of the true / predicted tags of every
    evaluated clip; the overall score is the mean of the true-class probabilities of those items -/
theorem C09_clip_classification_by_tags (cast : Rat → Rat) (vocab : List Tag) (preds : List (Nat × CCPredT))
    (anns : List (Nat × CCAnnT)) (out : EvalOut) (h : clipClassificationT cast vocab preds anns = .ok out) :
    let items := (pairClips preds anns).map (fun x => itemOfTags cast vocab x.2.1.tags x.2.2.tags)
    items ≠ [] ∧
    out.metrics = [("Balanced Accuracy", balancedAccuracy vocab.length items), ("Accuracy", accuracy vocab.length items),
                   ("Top 3 Accuracy", topK 3 vocab.length items)] ∧
    out.clips.map (·.clip) = (pairClips preds anns).map (·.1) ∧
    out.clips.map (·.score) = items.map (fun it => some (tcp it)) ∧
    out.score = mean (items.map tcp) := by
  intro items
  unfold clipClassificationT at h
  split at h
  · cases h
  have hs := C09_clip_classification_spec vocab.length _ _ out h
  simp only [pairClips_encClips] at hs
  have hi : List.map (fun x => ccItem vocab.length x.2.1 x.2.2) (List.map (fun x : Nat × CCAnnT × CCPredT =>
      (x.1, CCAnnT.enc vocab x.2.1, CCPredT.enc cast vocab x.2.2)) (pairClips preds anns)) = items := by
    rw [List.map_map]
    apply List.map_congr_left
    intro x _
    exact (C09_tags_bridge cast vocab x.2.1.tags x.2.2.tags).1 _ _
  rw [hi] at hs
  obtain ⟨h1, h2, h3, h4⟩ := hs
  refine ⟨h1, h2, ?_, ?_, h4⟩
  · rw [h3]; simp [ccClipOut, Function.comp]
  · rw [h3]
    simp only [List.map_map, items]
    apply List.map_congr_left
    intro x _
    simp only [Function.comp, ccClipOut]
    rw [← (C09_tags_bridge cast vocab x.2.1.tags x.2.2.tags).1 x.2.1.nEvents x.2.2.nEvents]

/-- `clip_multilabel_classification` end to end on real tags: mean average precision over
    `multilabel_encoding` / `prediction_encoding` (C19) of every evaluated clip; per clip the Jaccard index and
    the average precision of that clip's two arrays -/
theorem C09_clip_multilabel_by_tags (cast : Rat → Rat) (vocab : List Tag) (preds : List (Nat × CCPredT))
    (anns : List (Nat × CCAnnT)) (scores : List Rat) (out : EvalOut)
    (h : clipMultilabelT cast vocab preds anns scores = .ok out)
    (hlen : scores.length = (pairClips preds anns).length) :
    let rows := (pairClips preds anns).map (fun x => mlItemOfTags cast vocab x.2.1.tags x.2.2.tags)
    rows ≠ [] ∧ 2 ≤ vocab.length ∧
    out.metrics = [("Mean Average Precision", meanAveragePrecisionML vocab.length rows)] ∧
    out.clips.map (·.metrics) = rows.map (fun r => [("Jaccard Index", jaccard r), ("Average Precision", exampleAP r)]) ∧
    out.score = mean scores := by
  intro rows
  unfold clipMultilabelT at h
  split at h
  · cases h
  have hs := C09_clip_multilabel_spec vocab.length _ _ scores out h (by simpa [pairClips_encClips] using hlen)
  simp only [pairClips_encClips] at hs
  have hi : List.map (fun x => mlItem vocab.length x.2.1 x.2.2) (List.map (fun x : Nat × CCAnnT × CCPredT =>
      (x.1, CCAnnT.enc vocab x.2.1, CCPredT.enc cast vocab x.2.2)) (pairClips preds anns)) = rows := by
    rw [List.map_map]
    apply List.map_congr_left
    intro x _
    exact (C09_tags_bridge cast vocab x.2.1.tags x.2.2.tags).2.1 _ _
  rw [hi] at hs
  exact ⟨hs.1, hs.2.1, hs.2.2.1, hs.2.2.2.1, hs.2.2.2.2.2⟩

/-- ... and with the closed-form clip scores (`exp(-log_loss)` of one indicator row = product of the clipped
    probabilities of the true classes, `C09_multilabel_clip_score`): every clip's score is `mlScore` of its two
    arrays and the overall score is their mean -/
theorem C09_clip_multilabel_closed_scores (cast : Rat → Rat) (vocab : List Tag) (preds : List (Nat × CCPredT))
    (anns : List (Nat × CCAnnT)) (out : EvalOut) (h : clipMultilabelClosedT cast vocab preds anns = .ok out) :
    let rows := (pairClips preds anns).map (fun x => mlItemOfTags cast vocab x.2.1.tags x.2.2.tags)
    out.metrics = [("Mean Average Precision", meanAveragePrecisionML vocab.length rows)] ∧
    out.clips.map (·.score) = rows.map (fun r => some (mlScore r)) ∧
    out.score = mean (rows.map mlScore) := by
  intro rows
  have hsc : mlClipScores cast vocab preds anns = rows.map mlScore := by
    simp only [mlClipScores, rows, List.map_map]; rfl
  have hlen : (mlClipScores cast vocab preds anns).length = (pairClips preds anns).length := by
    simp [mlClipScores]
  have h1 := C09_clip_multilabel_by_tags cast vocab preds anns _ out h hlen
  unfold clipMultilabelClosedT clipMultilabelT at h
  split at h
  · cases h
  have h2 := C09_clip_multilabel_spec vocab.length _ _ _ out h (by simpa [pairClips_encClips] using hlen)
  refine ⟨h1.2.2.1, ?_, ?_⟩
  · rw [h2.2.2.2.2.1, hsc, List.map_map]; rfl
  · rw [h1.2.2.2.2, hsc]

/-- the sound-event tasks on real tags are the drivers on the encoded sound events (definitional), and every
    item they evaluate is `itemOfTags` of the two sound events it pairs (`C09_tags_bridge`, third clause) -/
theorem C09_sound_event_tasks_by_tags (cast : Rat → Rat) (vocab : List Tag) (a : TAnn) (p : TPred) :
    seItem vocab.length (TAnn.enc vocab a) (TPred.enc cast vocab p) = itemOfTags cast vocab a.tags p.tags :=
  (C09_tags_bridge cast vocab a.tags p.tags).2.2 a.id p.id a.hasGeom p.hasGeom

-- non-vacuity, and the seeded change `C08-6` (an encoder keyed by (label, value)) as a replay: two terms labelled
-- "taxon"; the vocabulary {gbif Turdus, gbif Parus, ebird Turdus} has three classes.  Two clips, both predicted
-- {gbif Turdus 1/2, ebird Turdus 1/4}; the first is truly gbif Turdus, the second ebird Turdus: accuracy 1/2,
-- clip scores 1/2 and 1/4 (an encoder that merges the two Turdus classes reports accuracy 1 or 0 and equal scores).
-- A true tag whose term differs from a vocabulary term in the uri only is no class.
private def gbif : Term := { termFromKey "taxon" with name := "gbif:taxon", definition := "GBIF backbone" }
private def ebird : Term := { termFromKey "taxon" with name := "ebird:taxon", definition := "eBird taxonomy" }
private def vocab3 : List Tag := [⟨gbif, "Turdus"⟩, ⟨gbif, "Parus"⟩, ⟨ebird, "Turdus"⟩]
private def pred2 : List PredictedTag := [⟨⟨gbif, "Turdus"⟩, 1/2⟩, ⟨⟨ebird, "Turdus"⟩, 1/4⟩]

example : vocab3.Nodup := by decide
example : (clipClassificationT id vocab3 [(0, {tags := pred2}), (1, {tags := pred2})]
    [(0, {tags := [⟨gbif, "Turdus"⟩]}), (1, {tags := [⟨ebird, "Turdus"⟩]})]).toOption.map
    (fun o => (o.metrics, o.clips.map (·.score), o.score)) =
    some ([("Balanced Accuracy", 1/2), ("Accuracy", 1/2), ("Top 3 Accuracy", 1)], [some (1/2), some (1/4)], 3/8) := by
  decide +kernel
example : itemOfTags id vocab3 [⟨{ gbif with uri := some "http://gbif.org/taxon" }, "Turdus"⟩, ⟨ebird, "Turdus"⟩] pred2 = ⟨some 2, [1/2, 0, 1/4]⟩ ∧
    (mlItemOfTags id vocab3 [⟨ebird, "Turdus"⟩, ⟨{ gbif with label := "Taxon" }, "Turdus"⟩] pred2).truth = [false, false, true] := by
  decide +kernel
example : (clipMultilabelT id vocab3 [(0, {tags := pred2})] [(0, {tags := [⟨ebird, "Turdus"⟩]})] [1/4]).toOption.map
    (fun o => (o.metrics, o.clips.map (·.metrics))) =
    some ([("Mean Average Precision", 1/3)], [[("Jaccard Index", 0), ("Average Precision", 1/2)]]) := by
  decide +kernel

-- known finding C09-K3: an evaluated clip that carries a sound event makes the clip-level tasks raise
example : (clipClassificationT id vocab3 [(0, {tags := pred2})] [(0, {tags := [⟨gbif, "Turdus"⟩], nEvents := 1})]).toOption.isSome = false ∧
    (clipClassificationT id vocab3 [(0, {tags := pred2}), (1, {tags := [], nEvents := 2})] [(0, {tags := [⟨gbif, "Turdus"⟩]})]).toOption.isSome = true := by
  decide +kernel

end Tags

end SE.Proofs.C09
