/- C09 — property theorems (to be written). -/
import SoundeventModel.Basic
namespace SE.Proofs.C09

end SE.Proofs.C09
