/-
  C02 — the operational save path refines the declarative writer.

  `SE.Aoef.opSave` (SoundeventModel/Aoef/OpSave.lean) runs the adapters of `soundevent.io.aoef` as a
  state machine, in the code's own call order: `DataAdapter.to_aoef` registers an object and
  assembles it only when its id is not stored yet (visiting what it refers to first, storing it
  afterwards), tag ids are allocated from the size of the key table, a sequence's parent is
  converted before the sequence is stored, and each collection adapter reads `values()` of its
  sub-adapters only after all its members were converted.  `SE.Aoef.save` (Save.lean) is the
  declarative reading: every top-level list is the first-wins de-duplication of the post-order
  traversal restricted to one kind.

  For every coherent collection (`WF`) the two produce *the same document* — same lists in the same
  order, same tag numbering — and fail in the same cases.  Hence everything proved about `save`
  (round trip, closure, uniqueness, parent-first) holds for the operational model.
-/
import Proofs.Lemmas.AoefOpSaveTop
import Proofs.C01
import Proofs.C02
namespace SE.Proofs.C02
open SE SE.Aoef SE.Paths SE.Proofs.C01

/-! ### the refinement theorem -/

/-- **Refinement.**  For a coherent collection the operational save path writes exactly the
    document of the declarative writer (including the order of every list and the tag ids), and
    raises exactly when it raises. -/
theorem C02_opSave_refines (c : Collection) (dir : Option PPath) (hwf : WF c) :
    opSave c dir = save c dir := by
  have s := opSaveM_run c dir hwf
  have sv := save_cases (dir := dir) hwf.recs
  by_cases hok : PathsOK dir c.trav
  · rw [sv.1 hok, opSave, s.1 hok]
  · rw [sv.2 hok, opSave, s.2 hok]
example : WF exEval := wf_exEval
example : WF exProject := wf_exProject

/-- the theorem is about a model that computes: on the concrete collections of C01 the two
    writers agree by evaluation, with and without an audio directory, also when saving fails -/
example : opSave exEval none = save exEval none := by decide +kernel
example : opSave exProject none = save exProject none := by decide +kernel
example : opSave exProject (some exDir) = save exProject (some exDir) := by decide +kernel
example : opSave exProject (some exDir2) = save exProject (some exDir2)
    ∧ opSave exProject (some exDir2) = .error .invalid := by decide +kernel

/-- `WF` matters: when two different recordings carry one uuid, the operational writer skips the
    second one altogether (its tag is never registered), the declarative one still traverses it -/
example : let c : Collection := .recordingSet
            { uuid := "rs", created_on := "2020", recordings := [exRec, { exRec with tags := [exTag2] }] }
          wfB c = false ∧ opSave c none ≠ save c none
          ∧ (opSave c none).map (fun d => (lst d.tags).length) = .ok 1
          ∧ (save c none).map (fun d => (lst d.tags).length) = .ok 2 := by decide +kernel

/-- after a successful operational save the adapter tables are the ones the declarative writer
    predicts for the whole traversal (`mkSt`): every table is the first-wins de-duplication of the
    traversal restricted to its kind, encoded -/
theorem C02_opSave_tables (c : Collection) (dir : Option PPath) (hwf : WF c)
    (hok : ∀ r ∈ recsOf c.trav, PathOK dir r) :
    opSaveM c dir {} = .ok (saveT c dir, mkSt (tagTable c.trav) dir c.trav) := by
  have s := opSaveM_run c dir hwf
  exact s.1 (fun r hr => hok r (recsOf_mem.2 hr))
example : WF exEval ∧ ∀ r ∈ recsOf exEval.trav, PathOK (some exDir) r :=
  ⟨wf_exEval, fun r hr => pathOK_inside (inside_exEval r hr)⟩

/-! ### failure -/

/-- **Failure.**  With an audio directory `A` the operational save raises (and then it is the
    `ValueError` of `relative_to`) exactly when some reachable recording lies outside `A`. -/
theorem C02_opSave_fails_iff (c : Collection) (A : PPath) (hwf : WF c) :
    (∃ e, opSave c (some A) = .error e) ↔ ∃ r, Reachable c (.recording r) ∧ ¬ inside r.path A := by
  rw [C02_opSave_refines c (some A) hwf]
  have sv := save_cases (dir := some A) hwf.recs
  constructor
  · rintro ⟨e, he⟩
    apply Classical.byContradiction
    intro hn
    have hok : PathsOK (some A) c.trav := by
      intro r hr
      apply pathOK_some_iff.2
      apply Classical.byContradiction
      intro hni
      exact hn ⟨r, mem_trav_reachable c _ hr, hni⟩
    rw [sv.1 hok] at he
    cases he
  · rintro ⟨r, hr, hni⟩
    refine ⟨.invalid, sv.2 fun hok => hni ?_⟩
    exact pathOK_some_iff.1 (hok r (reachable_mem_trav c _ hr))
example : WF exProject := wf_exProject
/-- both directions are inhabited: inside `exDir` the save succeeds, under `exDir2` it fails -/
example : (∃ d, opSave exProject (some exDir) = .ok d) ∧ opSave exProject (some exDir2) = .error .invalid := by
  refine ⟨⟨_, (C02_opSave_refines _ _ wf_exProject).trans
    (save_of_pathsOK fun r hr => pathOK_inside (inside_exProject r (recsOf_mem.2 hr)))⟩, ?_⟩
  decide +kernel

/-- the error, when there is one, is the `ValueError` -/
theorem C02_opSave_error (c : Collection) (dir : Option PPath) (hwf : WF c) (e : Err)
    (h : opSave c dir = .error e) : e = .invalid := by
  rw [C02_opSave_refines c dir hwf] at h
  exact save_err_invalid h
example : WF exProject ∧ opSave exProject (some exDir2) = .error .invalid :=
  ⟨wf_exProject, by decide +kernel⟩

/-- without an audio directory the operational save never fails -/
theorem C02_opSave_total (c : Collection) (hwf : WF c) : ∃ d, opSave c none = .ok d :=
  ⟨_, (C02_opSave_refines c none hwf).trans (save_total c)⟩
example : WF exEval := wf_exEval

/-! ### corollaries: what holds of `save` holds of the operational save -/

/-- the operational save round-trips: loading (under `ld`) the document it wrote (under `sd`) gives
    the collection back with every recording relocated -/
theorem C02_opSave_roundtrip (c : Collection) (sd ld : Option PPath) (d : Doc) (hwf : WF c)
    (hs : opSave c sd = .ok d) : load d ld = .ok (c.mapPath (relocated sd ld)) :=
  roundtrip_general c sd ld d hwf ((C02_opSave_refines c sd hwf) ▸ hs)
example : ∃ d, WF exEval ∧ opSave exEval none = .ok d :=
  ⟨_, wf_exEval, (C02_opSave_refines _ _ wf_exEval).trans (save_total _)⟩

/-- … and without audio directories it is the identity -/
theorem C02_opSave_roundtrip_none (c : Collection) (d : Doc) (hwf : WF c)
    (hs : opSave c none = .ok d) : load d none = .ok c :=
  C01_roundtrip c d hwf ((C02_opSave_refines c none hwf) ▸ hs)
example : ∃ d, WF exProject ∧ opSave exProject none = .ok d :=
  ⟨_, wf_exProject, (C02_opSave_refines _ _ wf_exProject).trans (save_total _)⟩

/-- every identifier mentioned in the document the operational save wrote is defined in it -/
theorem C02_opSave_closed (c : Collection) (dir : Option PPath) (d : Doc) (hwf : WF c)
    (hs : opSave c dir = .ok d) : closed d = true :=
  C02_closed c dir d hwf ((C02_opSave_refines c dir hwf) ▸ hs)
example : ∃ d, WF exProject ∧ opSave exProject none = .ok d :=
  ⟨_, wf_exProject, (C02_opSave_refines _ _ wf_exProject).trans (save_total _)⟩

/-- identifiers are unique within each list -/
theorem C02_opSave_unique (c : Collection) (dir : Option PPath) (d : Doc) (hwf : WF c)
    (hs : opSave c dir = .ok d) : unique d = true :=
  C02_unique c dir d hwf ((C02_opSave_refines c dir hwf) ▸ hs)
example : ∃ d, WF exProject ∧ opSave exProject none = .ok d :=
  ⟨_, wf_exProject, (C02_opSave_refines _ _ wf_exProject).trans (save_total _)⟩

/-- an object referenced from several places (its key occurs once per path among the reachable objects)
    is defined exactly once by the operational writer -/
theorem C02_opSave_defined_exactly_once (c : Collection) (dir : Option PPath) (d : Doc) (hwf : WF c)
    (hs : opSave c dir = .ok d) (k : Kind) (hk : k ≠ .tag) (key : String)
    (hkey : key ∈ reachKeys c.trav k) : (defs d k).count key = 1 :=
  C02_defined_exactly_once c dir d hwf ((C02_opSave_refines c dir hwf) ▸ hs) k hk key hkey
example : (reachKeys exShared.trav .clipAnn).count "ca" = 2 ∧ ∃ d, WF exShared ∧ opSave exShared none = .ok d :=
  ⟨by decide +kernel, _, exShared_wf, (C02_opSave_refines _ _ exShared_wf).trans (save_total _)⟩

/-- every sequence's parent is listed before the sequence -/
theorem C02_opSave_parent_first (c : Collection) (dir : Option PPath) (d : Doc) (hwf : WF c)
    (hs : opSave c dir = .ok d) : parentFirst d = true :=
  C02_parent_first c dir d ((C02_opSave_refines c dir hwf) ▸ hs)
example : ∃ d, WF exProject ∧ opSave exProject none = .ok d :=
  ⟨_, wf_exProject, (C02_opSave_refines _ _ wf_exProject).trans (save_total _)⟩

/-- the document defines exactly the reachable objects -/
theorem C02_opSave_exact (c : Collection) (dir : Option PPath) (d : Doc) (hwf : WF c)
    (hs : opSave c dir = .ok d) :
    ∀ k, ∀ key, key ∈ (if k = .tag then tagDefKeys d else defs d k) ↔ key ∈ reachKeys c.trav k :=
  C02_exact c dir d ((C02_opSave_refines c dir hwf) ▸ hs)
example : ∃ d, WF exEval ∧ opSave exEval none = .ok d :=
  ⟨_, wf_exEval, (C02_opSave_refines _ _ wf_exEval).trans (save_total _)⟩

/-- the tag ids the operational tag adapter hands out are `0 … n-1` -/
theorem C02_opSave_tag_ids_dense (c : Collection) (dir : Option PPath) (d : Doc) (hwf : WF c)
    (hs : opSave c dir = .ok d) : (lst d.tags).map (·.id) = List.range (lst d.tags).length :=
  C02_tag_ids_dense c dir d ((C02_opSave_refines c dir hwf) ▸ hs)
example : ∃ d, WF exEval ∧ opSave exEval none = .ok d :=
  ⟨_, wf_exEval, (C02_opSave_refines _ _ wf_exEval).trans (save_total _)⟩

/-- field by field: every identifier held by a reference field of the schema is defined in the list
    of the kind the field points to -/
theorem C02_opSave_rows_defined (c : Collection) (dir : Option PPath) (d : Doc) (hwf : WF c)
    (hs : opSave c dir = .ok d) : ∀ r ∈ refRows, ∀ x ∈ r.get d, x ∈ defs d r.kind :=
  C02_rows_defined c dir d ((C02_opSave_refines c dir hwf) ▸ hs)
example : ∃ d, WF exEval ∧ opSave exEval none = .ok d :=
  ⟨_, wf_exEval, (C02_opSave_refines _ _ wf_exEval).trans (save_total _)⟩

/-- the operational writer defines exactly the reachable objects, kind by kind -/
theorem C02_opSave_exact_objects (c : Collection) (dir : Option PPath) (d : Doc) (hwf : WF c)
    (hs : opSave c dir = .ok d) (k : Kind) (key : String) :
    key ∈ (if k = .tag then tagDefKeys d else defs d k) ↔ ∃ o, Reachable c o ∧ o.kind = k ∧ Obj.key o = key :=
  C02_exact_objects c dir d ((C02_opSave_refines c dir hwf) ▸ hs) k key
example : ∃ d, WF exEval ∧ opSave exEval none = .ok d :=
  ⟨_, wf_exEval, (C02_opSave_refines _ _ wf_exEval).trans (save_total _)⟩

/-- the operational tag adapter defines a tag content once -/
theorem C02_opSave_tag_contents_nodup (c : Collection) (dir : Option PPath) (d : Doc) (hwf : WF c)
    (hs : opSave c dir = .ok d) : ((lst d.tags).map (fun t => (t.key, t.value))).Nodup :=
  C02_tag_contents_nodup c dir d ((C02_opSave_refines c dir hwf) ▸ hs)

/-- the operational tag adapter writes exactly the reachable (label, value) pairs (no joined text key) -/
theorem C02_opSave_tag_pairs_exact (c : Collection) (dir : Option PPath) (d : Doc) (hwf : WF c)
    (hs : opSave c dir = .ok d) (kv : String × String) :
    kv ∈ (lst d.tags).map (fun t => (t.key, t.value)) ↔ kv ∈ (tagsOf c.trav).map (fun t => (t.key, t.value)) :=
  C02_tag_pairs_exact c dir d ((C02_opSave_refines c dir hwf) ▸ hs) kv
example : ∃ d, WF exEval ∧ opSave exEval none = .ok d :=
  ⟨_, wf_exEval, (C02_opSave_refines _ _ wf_exEval).trans (save_total _)⟩


/-! ### the operational model is order-sensitive where the code is

`opSaveEarlyTags` is the evaluation-set writer as it was before the repair: it reads `values()`
of the tag adapter *before* converting the evaluation tags.  On an evaluation set with a tag that
occurs only as an evaluation tag, the document it writes mentions a tag id that its `tags` list
does not define. -/
def exEvalSet : EvaluationSet :=
  { uuid := "es1", clip_annotations := [exCA], created_on := "2020", name := "eval",
    evaluation_tags := [exTag1, exTag2] }

example : wfB (.evaluationSet exEvalSet) = true := by decide +kernel
/-- the early read loses the evaluation-only tag: dangling reference -/
example : (opSaveEarlyTags exEvalSet none).map closed = .ok false := by decide +kernel
/-- the repaired order (the model `opSave`) is closed, and differs from the early read only in `tags` -/
example : (opSave (.evaluationSet exEvalSet) none).map closed = .ok true := by decide +kernel
example : (opSaveEarlyTags exEvalSet none).map (·.tags) = .ok (some [⟨0, "species", "bat"⟩])
    ∧ (opSave (.evaluationSet exEvalSet) none).map (·.tags)
        = .ok (some [⟨0, "species", "bat"⟩, ⟨1, "call", "social"⟩])
    ∧ (opSaveEarlyTags exEvalSet none).map (·.evaluation_tags) = .ok (some [0, 1]) := by
  decide +kernel
/-- hence the early-read writer does *not* refine `save`, although the collection is coherent -/
example : opSaveEarlyTags exEvalSet none ≠ save (.evaluationSet exEvalSet) none := by decide +kernel

/-- skipping a stored object matters too: an object shared by two members is assembled once, and the
    second conversion returns the stored object without visiting its sub-objects (the table keeps
    one entry, in first-conversion position) -/
example : (opSave (.annotationSet { uuid := "as", clip_annotations := [exCA, exCA2], created_on := "2020" }) none).map
      (fun d => (d.recordings.map (·.length), d.sound_event_annotations.map (·.length),
                 d.clip_annotations.map (·.map (·.uuid))))
    = .ok (some 1, some 1, some ["ca1", "ca2"]) := by decide +kernel

end SE.Proofs.C02
