/-
  C04 — Relational schema invariants cannot be bypassed at construction.
  Property theorems only (helper lemmas live in Proofs/Lemmas/Relational.lean).
-/
import SoundeventModel.Relational
import SoundeventModel.Aoef.Valid
import Proofs.Lemmas.Relational
namespace SE.Proofs.C04
open SE SE.Relational SE.Proofs.Lemmas.Relational

/- identifiers are compared for equality only: every relational theorem holds for any type of
   identifier with decidable equality (uuids as text in the correspondence, symbolic rationals in
   the symbolic ties of the validators) -/
variable {α : Type} [DecidableEq α]

/-- the targets / sources a list of matches mentions -/
abbrev targets (ms : List (Option α × Option α)) : List α := ms.filterMap (·.2)
abbrev sources (ms : List (Option α × Option α)) : List α := ms.filterMap (·.1)

/-! ### clip evaluations -/

theorem C04_check_matches_iff (annIds predIds : List α) (ms : List (Option α × Option α)) :
    checkMatches annIds predIds ms = true ↔
      (targets ms).Nodup ∧ (sources ms).Nodup ∧
      (∀ x, x ∈ targets ms ↔ x ∈ annIds) ∧ (∀ x, x ∈ sources ms ↔ x ∈ predIds) := by
  have ite_ft : ∀ (c : Prop) [Decidable c] (x : Bool), ((if c then false else x) = true) ↔ (¬ c ∧ x = true) := by
    intro c _ x; by_cases h : c <;> simp [h]
  have ht := toSet_length_eq_iff (targets ms)
  have hs := toSet_length_eq_iff (sources ms)
  have h3 : setEq (toSet (targets ms)) (toSet annIds) = true ↔ ∀ x, x ∈ targets ms ↔ x ∈ annIds := by
    rw [setEq_iff]; simp only [mem_toSet]
  have h4 : setEq (toSet (sources ms)) (toSet predIds) = true ↔ ∀ x, x ∈ sources ms ↔ x ∈ predIds := by
    rw [setEq_iff]; simp only [mem_toSet]
  unfold checkMatches
  show (if ((targets ms).length != (toSet (targets ms)).length) = true then false
        else if ((sources ms).length != (toSet (sources ms)).length) = true then false
        else if (!setEq (toSet (targets ms)) (toSet annIds)) = true then false
        else if (!setEq (toSet (sources ms)) (toSet predIds)) = true then false else true) = true ↔ _
  rw [ite_ft, ite_ft, ite_ft, ite_ft]
  rw [← ht, ← hs, ← h3, ← h4]
  simp only [bne_iff_ne, ne_eq, Decidable.not_not, Bool.not_eq_true', Bool.not_eq_false, and_true]
  constructor
  · rintro ⟨a, b, c, d⟩; exact ⟨a.symm, b.symm, c, d⟩
  · rintro ⟨a, b, c, d⟩; exact ⟨a.symm, b.symm, c, d⟩

/-- accepted ⇔ same clip, no target and no source repeated, the targets are exactly the
    annotated and the sources exactly the predicted sound events -/
theorem C04_clip_eval_iff (annClip predClip : α) (annIds predIds : List α)
    (ms : List (Option α × Option α)) :
    clipEvalOk annClip predClip annIds predIds ms = true ↔
      annClip = predClip ∧ (targets ms).Nodup ∧ (sources ms).Nodup ∧
      (∀ x, x ∈ targets ms ↔ x ∈ annIds) ∧ (∀ x, x ∈ sources ms ↔ x ∈ predIds) := by
  simp only [clipEvalOk, Bool.and_eq_true, C04_check_matches_iff, clipsMatch]
  simp

/-- the same with each set equality written as two inclusions (the form in which the symbolic
    ties of the validators are discharged: on concrete lists it is a formula of equalities) -/
theorem C04_clip_eval_iff_subsets (annClip predClip : α) (annIds predIds : List α)
    (ms : List (Option α × Option α)) :
    clipEvalOk annClip predClip annIds predIds ms = true ↔
      annClip = predClip ∧ (targets ms).Nodup ∧ (sources ms).Nodup ∧
      (∀ x ∈ targets ms, x ∈ annIds) ∧ (∀ x ∈ annIds, x ∈ targets ms) ∧
      (∀ x ∈ sources ms, x ∈ predIds) ∧ (∀ x ∈ predIds, x ∈ sources ms) := by
  rw [C04_clip_eval_iff]
  constructor
  · rintro ⟨h0, h1, h2, h3, h4⟩
    exact ⟨h0, h1, h2, fun x hx => (h3 x).mp hx, fun x hx => (h3 x).mpr hx,
      fun x hx => (h4 x).mp hx, fun x hx => (h4 x).mpr hx⟩
  · rintro ⟨h0, h1, h2, h3, h3', h4, h4'⟩
    exact ⟨h0, h1, h2, fun x => ⟨h3 x, h3' x⟩, fun x => ⟨h4 x, h4' x⟩⟩

/-- the statement of the property: same clip, every annotated and every predicted sound event
    is mentioned exactly once, and nothing foreign is mentioned -/
theorem C04_clip_eval_exactly_once (annClip predClip : α) (annIds predIds : List α)
    (ms : List (Option α × Option α)) :
    clipEvalOk annClip predClip annIds predIds ms = true ↔
      annClip = predClip ∧
      (∀ a ∈ annIds, (targets ms).count a = 1) ∧ (∀ t ∈ targets ms, t ∈ annIds) ∧
      (∀ p ∈ predIds, (sources ms).count p = 1) ∧ (∀ s ∈ sources ms, s ∈ predIds) := by
  rw [C04_clip_eval_iff]
  have h1 := exactly_once_iff (xs := targets ms) (ys := annIds)
  have h2 := exactly_once_iff (xs := sources ms) (ys := predIds)
  constructor
  · rintro ⟨hc, n1, n2, m1, m2⟩
    exact ⟨hc, (h1.mp ⟨n1, m1⟩).1, (h1.mp ⟨n1, m1⟩).2, (h2.mp ⟨n2, m2⟩).1, (h2.mp ⟨n2, m2⟩).2⟩
  · rintro ⟨hc, a1, a2, b1, b2⟩
    exact ⟨hc, (h1.mpr ⟨a1, a2⟩).1, (h2.mpr ⟨b1, b2⟩).1, (h1.mpr ⟨a1, a2⟩).2, (h2.mpr ⟨b1, b2⟩).2⟩

/-! ### matches, projects, clips, scores -/

theorem C04_unit_iff (x : Rat) : unitOk x = true ↔ 0 ≤ x ∧ x ≤ 1 := by
  simp [unitOk]

/-- a constraint row `ge=0, le=1` is the unit interval; any table the check extracts that passes
    `unitTable` therefore constrains every listed field to [0, 1] -/
theorem C04_unit_table (tbl : List FieldRow) (h : unitTable tbl = true) :
    ∀ r ∈ tbl, ∀ x, r.c.ok x = unitOk x := by
  intro r hr x
  simp only [unitTable, List.all_eq_true, decide_eq_true_eq] at h
  rw [h r hr]
  simp [Constraint.ok, unitOk]

/-- the same for a constraint spelled differently, on binary64 values: `lo` is a value below 0 and
    `hi` a value above 1 (the check takes the neighbours of 0 and 1 in binary64, `-2⁻¹⁰⁷⁴` and
    `1 + 2⁻⁵²`, so that every binary64 value satisfies the hypothesis on `x`); a constraint that
    accepts 0 and 1 and refuses `lo` and `hi` accepts exactly the values of [0, 1] -/
theorem C04_unit_table_float (c : Constraint) (lo hi : Rat) (hlo : lo < 0) (hhi : 1 < hi)
    (h0 : c.ok 0 = true) (h1 : c.ok 1 = true) (hl : c.ok lo = false) (hh : c.ok hi = false) :
    ∀ x, (x ≤ lo ∨ (0 ≤ x ∧ x ≤ 1) ∨ hi ≤ x) → c.ok x = unitOk x := by
  intro x hx
  obtain ⟨ge, gt, le, lt⟩ := c
  cases ge <;> cases gt <;> cases le <;> cases lt <;>
    simp only [Constraint.ok, unitOk, Bool.and_eq_true, decide_eq_true_eq, Bool.true_and, Bool.and_true,
      Bool.and_eq_false_iff, decide_eq_false_iff_not] at h0 h1 hl hh ⊢ <;>
    grind

example : ∀ x : Rat, (x ≤ -1 / 4 ∨ (0 ≤ x ∧ x ≤ 1) ∨ 5 / 4 ≤ x) →
    Constraint.ok { gt := some (-1 / 8), lt := some (9 / 8) } x = unitOk x :=
  C04_unit_table_float _ _ _ (by decide +kernel) (by decide +kernel) (by decide +kernel) (by decide +kernel)
    (by decide +kernel) (by decide +kernel)

theorem C04_match_iff (m : MatchRow) :
    matchOk m = true ↔
      (m.source.isSome ∨ m.target.isSome) ∧ (0 ≤ m.affinity ∧ m.affinity ≤ 1) ∧
      (∀ s, m.score = some s → 0 ≤ s ∧ s ≤ 1) := by
  obtain ⟨s, t, a, sc⟩ := m
  cases s <;> cases t <;> cases sc <;> simp [matchOk, matchSidesOk, optUnitOk, unitOk]

/-- a match has a source or a target -/
theorem C04_match_null_null_rejected (a : Rat) (sc : Option Rat) : matchOk ⟨none, none, a, sc⟩ = false := by
  simp [matchOk, matchSidesOk]

theorem C04_project_iff (taskClips annClips : List α) :
    projectOk taskClips annClips = true ↔ ∀ c ∈ annClips, c ∈ taskClips := by
  induction annClips with
  | nil => simp [projectOk]
  | cons c cs ih =>
    by_cases h : c ∈ taskClips
    · simp [projectOk, mem_toSet, h, ih]
    · simp [projectOk, mem_toSet, h]

/-- the evaluation order the driver uses (task clips collected once) decides the same -/
theorem C04_project_fast (taskClips annClips : List α) :
    projectOkFast taskClips annClips = projectOk taskClips annClips := by
  induction annClips with
  | nil => simp [projectOkFast, projectOk]
  | cons c cs ih =>
    simp only [projectOkFast, List.all_cons] at ih ⊢
    by_cases h : c ∈ toSet taskClips
    · simp [projectOk, h, ih]
    · simp [projectOk, h]

/-- a clip never starts after it ends -/
theorem C04_clip_iff (s e : Rat) : clipOk s e = true ↔ s ≤ e := by
  simp [clipOk, Rat.not_lt]

/-- a whole arrangement is accepted iff every match is well formed with numbers in [0,1], the
    score (if any) is in [0,1], and the relational condition holds -/
theorem C04_arrangement_iff (a : ClipEvalArr) :
    a.accepted = true ↔
      (∀ m ∈ a.ms, (m.source.isSome ∨ m.target.isSome) ∧ (0 ≤ m.affinity ∧ m.affinity ≤ 1) ∧
                   (∀ s, m.score = some s → 0 ≤ s ∧ s ≤ 1)) ∧
      (∀ s, a.score = some s → 0 ≤ s ∧ s ≤ 1) ∧
      a.annClip = a.predClip ∧
      (∀ x ∈ a.annIds, (targets a.pairs).count x = 1) ∧ (∀ t ∈ targets a.pairs, t ∈ a.annIds) ∧
      (∀ p ∈ a.predIds, (sources a.pairs).count p = 1) ∧ (∀ s ∈ sources a.pairs, s ∈ a.predIds) := by
  simp only [ClipEvalArr.accepted, Bool.and_eq_true, List.all_eq_true, C04_match_iff,
    C04_clip_eval_exactly_once]
  have : optUnitOk a.score = true ↔ ∀ s, a.score = some s → 0 ≤ s ∧ s ≤ 1 := by
    cases a.score <;> simp [optUnitOk, unitOk]
  rw [this]
  constructor
  · rintro ⟨⟨h1, h2⟩, h3⟩; exact ⟨h1, h2, h3⟩
  · rintro ⟨h1, h2, h3⟩; exact ⟨⟨h1, h2⟩, h3⟩

/-! ### the patterns the property lists -/

/-- an empty clip (nothing annotated, nothing predicted) is accepted iff no match mentions
    anything; as a `Match` needs a side, iff there are no matches at all -/
theorem C04_empty_clip (c : α) (ms : List (Option α × Option α))
    (hsides : ∀ m ∈ ms, matchSidesOk m.1 m.2 = true) :
    clipEvalOk c c [] [] ms = true ↔ ms = [] := by
  rw [C04_clip_eval_iff]
  constructor
  · rintro ⟨_, _, _, ht, hs⟩
    cases ms with
    | nil => rfl
    | cons m rest =>
      exfalso
      have hm := hsides m (List.mem_cons_self ..)
      obtain ⟨s, t⟩ := m
      cases s with
      | some s => exact absurd ((hs s).mp (by simp [sources])) (by simp)
      | none =>
        cases t with
        | some t => exact absurd ((ht t).mp (by simp [targets])) (by simp)
        | none => simp [matchSidesOk] at hm
  · rintro rfl; simp

/-- nothing matched: one one-sided match per annotated and per predicted sound event -/
theorem C04_all_unmatched_accepted (c : α) (annIds predIds : List α)
    (ha : annIds.Nodup) (hp : predIds.Nodup) :
    clipEvalOk c c annIds predIds
      (annIds.map (fun a => (none, some a)) ++ predIds.map (fun p => (some p, none))) = true := by
  rw [C04_clip_eval_iff]
  have ht : targets (annIds.map (fun a => ((none : Option α), some a)) ++
      predIds.map (fun p => (some p, (none : Option α)))) = annIds := by
    simp [targets, List.filterMap_append, List.filterMap_map, Function.comp_def]
  have hs : sources (annIds.map (fun a => ((none : Option α), some a)) ++
      predIds.map (fun p => (some p, (none : Option α)))) = predIds := by
    simp [sources, List.filterMap_append, List.filterMap_map, Function.comp_def]
  rw [ht, hs]
  exact ⟨rfl, ha, hp, fun _ => Iff.rfl, fun _ => Iff.rfl⟩

/-- a perfect one-to-one pairing is accepted -/
theorem C04_perfect_matching_accepted (c : α) (annIds predIds : List α)
    (ha : annIds.Nodup) (hp : predIds.Nodup) (hlen : annIds.length = predIds.length) :
    clipEvalOk c c annIds predIds ((predIds.zip annIds).map fun (p, a) => (some p, some a)) = true := by
  rw [C04_clip_eval_iff]
  have ht : targets ((predIds.zip annIds).map fun (p, a) => (some p, some a)) = annIds := by
    simp only [targets, List.filterMap_map, Function.comp_def]
    rw [show (fun x : α × α => (some x.2 : Option α)) = some ∘ Prod.snd from rfl]
    rw [← List.filterMap_map, List.map_snd_zip (by omega)]
    simp
  have hs : sources ((predIds.zip annIds).map fun (p, a) => (some p, some a)) = predIds := by
    simp only [sources, List.filterMap_map, Function.comp_def]
    rw [show (fun x : α × α => (some x.1 : Option α)) = some ∘ Prod.fst from rfl]
    rw [← List.filterMap_map, List.map_fst_zip (by omega)]
    simp
  rw [ht, hs]
  exact ⟨rfl, ha, hp, fun _ => Iff.rfl, fun _ => Iff.rfl⟩

/-- two matches for the same annotated sound event: rejected -/
theorem C04_duplicate_target_rejected (ac pc : α) (annIds predIds : List α)
    (pre mid post : List (Option α × Option α)) (s1 s2 : Option α) (t : α) :
    clipEvalOk ac pc annIds predIds (pre ++ (s1, some t) :: mid ++ (s2, some t) :: post) = false := by
  rw [Bool.eq_false_iff]; intro h
  have hn := ((C04_clip_eval_iff ..).mp h).2.1
  simp [targets, List.filterMap_append, List.nodup_append] at hn

/-- two matches for the same predicted sound event: rejected -/
theorem C04_duplicate_source_rejected (ac pc : α) (annIds predIds : List α)
    (pre mid post : List (Option α × Option α)) (t1 t2 : Option α) (s : α) :
    clipEvalOk ac pc annIds predIds (pre ++ (some s, t1) :: mid ++ (some s, t2) :: post) = false := by
  rw [Bool.eq_false_iff]; intro h
  have hn := ((C04_clip_eval_iff ..).mp h).2.2.1
  simp [sources, List.filterMap_append, List.nodup_append] at hn

/-- a match that mentions a sound event which is not annotated (resp. predicted) in this clip:
    rejected, whatever the other side is -/
theorem C04_foreign_rejected (ac pc : α) (annIds predIds : List α)
    (ms : List (Option α × Option α)) (m : Option α × Option α) (hm : m ∈ ms)
    (hf : (∃ t, m.2 = some t ∧ t ∉ annIds) ∨ (∃ s, m.1 = some s ∧ s ∉ predIds)) :
    clipEvalOk ac pc annIds predIds ms = false := by
  rw [Bool.eq_false_iff]; intro h
  obtain ⟨_, _, _, ht, hs⟩ := (C04_clip_eval_iff ..).mp h
  rcases hf with ⟨t, e, hno⟩ | ⟨s, e, hno⟩
  · exact hno ((ht t).mp (List.mem_filterMap.mpr ⟨m, hm, e⟩))
  · exact hno ((hs s).mp (List.mem_filterMap.mpr ⟨m, hm, e⟩))

/-- an annotated or predicted sound event no match mentions: rejected -/
theorem C04_missing_rejected (ac pc : α) (annIds predIds : List α)
    (ms : List (Option α × Option α))
    (hmiss : (∃ a ∈ annIds, ∀ m ∈ ms, m.2 ≠ some a) ∨ (∃ p ∈ predIds, ∀ m ∈ ms, m.1 ≠ some p)) :
    clipEvalOk ac pc annIds predIds ms = false := by
  rw [Bool.eq_false_iff]; intro h
  obtain ⟨_, _, _, ht, hs⟩ := (C04_clip_eval_iff ..).mp h
  rcases hmiss with ⟨a, ha, hno⟩ | ⟨p, hp, hno⟩
  · obtain ⟨m, hm, e⟩ := List.mem_filterMap.mp ((ht a).mpr ha)
    exact hno m hm e
  · obtain ⟨m, hm, e⟩ := List.mem_filterMap.mp ((hs p).mpr hp)
    exact hno m hm e

/-- annotations and predictions of different clips: rejected, whatever the matches -/
theorem C04_different_clips_rejected (ac pc : α) (h : ac ≠ pc) (annIds predIds : List α)
    (ms : List (Option α × Option α)) : clipEvalOk ac pc annIds predIds ms = false := by
  rw [Bool.eq_false_iff]; intro hh
  exact h ((C04_clip_eval_iff ..).mp hh).1

/-- the order of the matches, of the annotated and of the predicted sound events is irrelevant -/
theorem C04_order_irrelevant (ac pc : α) (annIds annIds' predIds predIds' : List α)
    (ms ms' : List (Option α × Option α))
    (ha : annIds.Perm annIds') (hp : predIds.Perm predIds') (hm : ms.Perm ms') :
    clipEvalOk ac pc annIds predIds ms = clipEvalOk ac pc annIds' predIds' ms' := by
  have ht : (targets ms).Perm (targets ms') := hm.filterMap _
  have hs : (sources ms).Perm (sources ms') := hm.filterMap _
  rw [Bool.eq_iff_iff, C04_clip_eval_iff, C04_clip_eval_iff, ht.nodup_iff, hs.nodup_iff]
  simp only [ht.mem_iff, hs.mem_iff, ha.mem_iff, hp.mem_iff]

/-- an annotation that belongs to a clip without a task: the project is rejected -/
theorem C04_project_outsider_rejected (taskClips annClips : List α) (c : α)
    (hc : c ∈ annClips) (hno : c ∉ taskClips) : projectOk taskClips annClips = false := by
  rw [Bool.eq_false_iff]; intro h
  exact hno ((C04_project_iff ..).mp h c hc)

theorem C04_project_no_annotations_accepted (taskClips : List α) : projectOk taskClips [] = true := rfl

/-! ### values of binary64 that are not rationals -/

/-- a float passes `ge=0, le=1` iff it is a finite number of [0,1]: `nan`, `inf`, `-inf` never do -/
theorem C04_unit_float_iff (x : F) : unitOkF x = true ↔ ∃ q, x = .fin q ∧ 0 ≤ q ∧ q ≤ 1 := by
  cases x <;> simp [unitOkF, F.le]

theorem C04_unit_float_fin (q : Rat) : unitOkF (.fin q) = unitOk q := by
  simp [unitOkF, unitOk, F.le]

/-- on finite times the float validator is the rational one -/
theorem C04_clip_float_fin (s e : Rat) : clipOkF (.fin s) (.fin e) = clipOk s e := by
  simp [clipOkF, clipOk, F.gt]

/-- the clips the validator refuses are exactly those whose start is greater than their end in
    the order of the extended reals; a `nan` on either side is never refused (the comparison is
    false) -/
theorem C04_clip_float_iff (s e : F) :
    clipOkF s e = false ↔
      (∃ a b, s = .fin a ∧ e = .fin b ∧ b < a) ∨ (s = .pinf ∧ e ≠ .pinf ∧ e ≠ .nan) ∨
      (e = .ninf ∧ s ≠ .ninf ∧ s ≠ .nan) := by
  cases s <;> cases e <;> simp [clipOkF, F.gt]

theorem C04_clip_float_nan (x : F) : clipOkF .nan x = true ∧ clipOkF x .nan = true := by
  cases x <;> simp [clipOkF, F.gt]

/-! ### AOEF loading (the loader of `SoundeventModel/Aoef`, tied to `soundevent.io.load` by C01/C02)

`loadChecked` is the single-pass loader followed by the validators pydantic runs when the
`Match`, `ClipEvaluation` and `AnnotationProject` objects are constructed.  Whatever the document
contains (dangling references are dropped or become `None`, repeated uuids resolve to the first
object), a collection that comes out of it satisfies the relational conditions. -/

open SE.Aoef in
/-- every clip evaluation of a loaded evaluation: each match has a side, annotations and
    predictions are of the same clip, every annotated / predicted sound event is the target /
    source of exactly one match and nothing else is mentioned -/
theorem C04_aoef_loaded_evaluation (d : Doc) (dir : Option Paths.PPath) (x : Evaluation)
    (h : loadChecked d dir = .ok (.evaluation x)) :
    ∀ e ∈ x.clip_evaluations,
      (∀ m ∈ e.«matches», m.source.isSome ∨ m.target.isSome) ∧
      e.annotations.clip.uuid = e.predictions.clip.uuid ∧
      (∀ a ∈ e.annotations.sound_events,
        ((e.«matches».filterMap (·.target)).map (·.uuid)).count a.uuid = 1) ∧
      (∀ m ∈ e.«matches», ∀ t, m.target = some t → ∃ a ∈ e.annotations.sound_events, a.uuid = t.uuid) ∧
      (∀ p ∈ e.predictions.sound_events,
        ((e.«matches».filterMap (·.source)).map (·.uuid)).count p.uuid = 1) ∧
      (∀ m ∈ e.«matches», ∀ s, m.source = some s → ∃ p ∈ e.predictions.sound_events, p.uuid = s.uuid) := by
  unfold loadChecked at h
  cases hl : load d dir with
  | error err => simp [hl, bind, Except.bind] at h
  | ok c =>
    simp only [hl, bind, Except.bind] at h
    split at h
    · rename_i hv
      have hc : c = .evaluation x := by simpa [pure, Except.pure] using h
      subst hc
      simp only [Collection.validB, List.all_eq_true] at hv
      intro e he
      have hv := hv e he
      simp only [clipEvalValid, Bool.and_eq_true, List.all_eq_true] at hv
      obtain ⟨hm, hce⟩ := hv
      rw [C04_clip_eval_exactly_once] at hce
      obtain ⟨h0, h1, h2, h3, h4⟩ := hce
      have ht : targets (e.«matches».map fun m => (m.source.map (·.uuid), m.target.map (·.uuid)))
          = (e.«matches».filterMap (·.target)).map (·.uuid) := by
        simp only [targets, List.filterMap_map, List.map_filterMap, Function.comp_def]
      have hs : sources (e.«matches».map fun m => (m.source.map (·.uuid), m.target.map (·.uuid)))
          = (e.«matches».filterMap (·.source)).map (·.uuid) := by
        simp only [sources, List.filterMap_map, List.map_filterMap, Function.comp_def]
      rw [ht] at h1 h2
      rw [hs] at h3 h4
      refine ⟨?_, h0, ?_, ?_, ?_, ?_⟩
      · intro m hmm
        have := hm m hmm
        simp only [matchValid, matchSidesOk] at this
        cases hs' : m.source <;> cases ht' : m.target <;> simp_all
      · intro a ha; exact h1 a.uuid (List.mem_map.mpr ⟨a, ha, rfl⟩)
      · intro m hmm t hmt
        have : t.uuid ∈ (e.«matches».filterMap (·.target)).map (·.uuid) :=
          List.mem_map.mpr ⟨t, List.mem_filterMap.mpr ⟨m, hmm, hmt⟩, rfl⟩
        obtain ⟨a, ha, hau⟩ := List.mem_map.mp (h2 _ this)
        exact ⟨a, ha, hau⟩
      · intro p hp; exact h3 p.uuid (List.mem_map.mpr ⟨p, hp, rfl⟩)
      · intro m hmm s hms
        have : s.uuid ∈ (e.«matches».filterMap (·.source)).map (·.uuid) :=
          List.mem_map.mpr ⟨s, List.mem_filterMap.mpr ⟨m, hmm, hms⟩, rfl⟩
        obtain ⟨p, hp, hpu⟩ := List.mem_map.mp (h4 _ this)
        exact ⟨p, hp, hpu⟩
    · simp at h

open SE.Aoef in
/-- a loaded annotation project only holds annotations of clips that have a task -/
theorem C04_aoef_loaded_project (d : Doc) (dir : Option Paths.PPath) (x : AnnotationProject)
    (h : loadChecked d dir = .ok (.annotationProject x)) :
    ∀ ca ∈ x.clip_annotations, ∃ t ∈ x.tasks, t.clip.uuid = ca.clip.uuid := by
  unfold loadChecked at h
  cases hl : load d dir with
  | error err => simp [hl, bind, Except.bind] at h
  | ok c =>
    simp only [hl, bind, Except.bind] at h
    split at h
    · rename_i hv
      have hc : c = .annotationProject x := by simpa [pure, Except.pure] using h
      subst hc
      simp only [Collection.validB, C04_project_iff] at hv
      intro ca hca
      obtain ⟨t, ht, htu⟩ := List.mem_map.mp (hv ca.clip.uuid (List.mem_map.mpr ⟨ca, hca, rfl⟩))
      exact ⟨t, ht, htu⟩
    · simp at h

/-! ### the numbers on the AOEF path -/

/-- loading decides on the numbers of the document exactly as the constructors decide on the same
    numbers: a clip iff start ≤ end, every score / affinity / tag probability iff it is in [0,1] -/
theorem C04_aoef_numbers_agree :
    (∀ s e, aoefClipOk s e = true ↔ s ≤ e) ∧
    (∀ a sc, aoefMatchNumbersOk a sc = true ↔ (0 ≤ a ∧ a ≤ 1) ∧ (0 ≤ sc ∧ sc ≤ 1)) ∧
    (∀ x, aoefEvalScoreOk x = true ↔ 0 ≤ x ∧ x ≤ 1) ∧
    (∀ x t0 t1, aoefPredictionOk x t0 t1 = true ↔ (0 ≤ x ∧ x ≤ 1) ∧ (0 ≤ t0 ∧ t0 ≤ 1) ∧ (0 ≤ t1 ∧ t1 ≤ 1)) ∧
    (∀ t0 t1, aoefClipTagsOk t0 t1 = true ↔ (0 ≤ t0 ∧ t0 ≤ 1) ∧ (0 ≤ t1 ∧ t1 ≤ 1)) := by
  refine ⟨fun s e => ?_, fun a sc => ?_, fun x => ?_, fun x t0 t1 => ?_, fun t0 t1 => ?_⟩
  · simp [aoefClipOk, aoefClipArgs, C04_clip_iff]
  · simp [aoefMatchNumbersOk, aoefMatchArgs, C04_unit_iff]
  · simp [aoefEvalScoreOk, aoefEvalScoreArg, C04_unit_iff]
  · simp [aoefPredictionOk, aoefPredictionArgs, C04_unit_iff, and_assoc]
  · simp [aoefClipTagsOk, aoefClipTagArgs, C04_unit_iff]

/-! ### identifiers shared across kinds

A predicted sound event may carry the uuid of an annotated one (oracle predictions built as
`SoundEventPrediction(uuid=annotation.uuid, …)`, an AOEF file in which the two tables share a uuid).  Targets
are only ever compared with annotated, sources with predicted sound events: the two roles never mix. -/

/-- the decision is the conjunction of a decision about targets / annotated sound events and one about
    sources / predicted sound events -/
theorem C04_roles_separate (annIds predIds : List α) (ms : List (Option α × Option α)) :
    checkMatches annIds predIds ms =
      (checkMatches annIds [] (ms.map fun m => (none, m.2)) && checkMatches [] predIds (ms.map fun m => (m.1, none))) := by
  have t1 : targets (ms.map fun m => ((none : Option α), m.2)) = targets ms := by
    simp [targets, List.filterMap_map, Function.comp_def]
  have s1 : sources (ms.map fun m => ((none : Option α), m.2)) = [] := by
    simp [sources, List.filterMap_map, Function.comp_def]
  have t2 : targets (ms.map fun m => (m.1, (none : Option α))) = [] := by
    simp [targets, List.filterMap_map, Function.comp_def]
  have s2 : sources (ms.map fun m => (m.1, (none : Option α))) = sources ms := by
    simp [sources, List.filterMap_map, Function.comp_def]
  rw [Bool.eq_iff_iff, Bool.and_eq_true, C04_check_matches_iff, C04_check_matches_iff, C04_check_matches_iff,
    t1, s1, t2, s2]
  simp
  constructor
  · rintro ⟨a, b, c, d⟩; exact ⟨⟨a, c⟩, b, d⟩
  · rintro ⟨⟨a, c⟩, b, d⟩; exact ⟨a, b, c, d⟩

/-- whether identifiers of predicted sound events coincide with identifiers of annotated ones is irrelevant:
    renaming the annotated side by any injective `g` and the predicted side by any injective `f` (into one
    common universe, overlapping or not) leaves the decision unchanged -/
theorem C04_kinds_independent (f g : α → α) (hf : ∀ x y, f x = f y → x = y) (hg : ∀ x y, g x = g y → x = y)
    (ac pc : α) (annIds predIds : List α) (ms : List (Option α × Option α)) :
    clipEvalOk ac pc (annIds.map g) (predIds.map f) (ms.map fun m => (m.1.map f, m.2.map g)) =
      clipEvalOk ac pc annIds predIds ms := by
  have ht : targets (ms.map fun m => (m.1.map f, m.2.map g)) = (targets ms).map g := by
    simp only [targets, List.filterMap_map, List.map_filterMap, Function.comp_def]
  have hs : sources (ms.map fun m => (m.1.map f, m.2.map g)) = (sources ms).map f := by
    simp only [sources, List.filterMap_map, List.map_filterMap, Function.comp_def]
  rw [Bool.eq_iff_iff, C04_clip_eval_iff, C04_clip_eval_iff, ht, hs, nodup_map_of_inj hg, nodup_map_of_inj hf,
    same_members_map hg, same_members_map hf]

/-- the arrangements with one identifier `x` used by an annotated *and* a predicted sound event: the pairing
    that mentions both is accepted (it is not a duplicate); a match that mentions only one of the two is
    rejected (the other one is never mentioned); a source `x` does not stand in for the unmatched annotated
    `x`, nor a target `x` for the unmatched predicted `x` -/
theorem C04_shared_identifier (c x : α) :
    clipEvalOk c c [x] [x] [(some x, some x)] = true ∧
    clipEvalOk c c [x] [x] [(some x, none), (none, some x)] = true ∧
    clipEvalOk c c [x] [x] [(some x, none)] = false ∧
    clipEvalOk c c [x] [x] [(none, some x)] = false ∧
    clipEvalOk c c [x] [] [(some x, none)] = false ∧
    clipEvalOk c c [] [x] [(none, some x)] = false := by
  simp [clipEvalOk, clipsMatch, checkMatches, toSet, setEq]

/-! ### histories: several constructions in one process on objects that are reused

`SoundeventModel/RelationalHistory.lean`: a store of live `ClipAnnotation` / `ClipPrediction` objects that are
changed in place, assigned to, copied; every `ClipEvaluation` is constructed from the objects as they are. -/

/-- a construction leaves every object as it was -/
theorem C04_history_eval_no_effect (st : Store) (a p : Nat) (ms : List MatchRow) (sc : Option Rat) :
    (HStep.eval a p ms sc).exec st = st := rfl

/-- the verdict of a construction is the decision on what the two objects carry at that moment (with
    `C04_arrangement_iff`: same clip, every sound event they list *now* mentioned exactly once, nothing foreign,
    numbers in range) — whatever was constructed, changed or copied before, and the steps after it see the
    store the steps before it left -/
theorem C04_history_verdict (st : Store) (pre post : List HStep) (a p : Nat) (ms : List MatchRow)
    (sc : Option Rat) (A P : Coll)
    (hA : (execAll st pre).get a = some A) (hP : (execAll st pre).get p = some P) :
    runHistory st (pre ++ HStep.eval a p ms sc :: post) =
      runHistory st pre ++
        some (ClipEvalArr.accepted ⟨A.clip, P.clip, A.ids, P.ids, ms, sc⟩) :: runHistory (execAll st pre) post := by
  rw [runHistory_append]
  simp [runHistory, HStep.verdict, HStep.exec, arrangementOf, hA, hP]

/-- constructions do not interfere: dropping one construction from a session leaves every other verdict
    unchanged (no verdict depends on which evaluations were built before) -/
theorem C04_history_constructions_do_not_interfere (st : Store) (pre post : List HStep) (e : HStep)
    (he : e.isEval = true) :
    ∃ v, runHistory st (pre ++ e :: post) = runHistory st pre ++ v :: runHistory (execAll st pre) post ∧
         runHistory st (pre ++ post) = runHistory st pre ++ runHistory (execAll st pre) post := by
  cases e with
  | eval a p ms sc =>
    refine ⟨(arrangementOf (execAll st pre) a p ms sc).map ClipEvalArr.accepted, ?_, runHistory_append ..⟩
    rw [runHistory_append]
    simp [runHistory, HStep.verdict, HStep.exec]
  | _ => simp [HStep.isEval] at he

/-- after `sound_events` of an object was changed (in place or by assignment) the object carries the new list
    and its clip; every other object is untouched -/
theorem C04_history_set_ids (st : Store) (h : Nat) (ids : List Id) (c : Coll) (hc : st.get h = some c) :
    ((HStep.setIds h ids).exec st).get h = some { c with ids := ids } ∧
    ∀ h', h' ≠ h → ((HStep.setIds h ids).exec st).get h' = st.get h' := by
  simp only [HStep.exec, hc]
  exact ⟨Store.get_put_same .., fun h' hne => Store.get_put_other _ _ hne⟩

/-- a copy carries what the source carried (with the replaced list, if any); the source and every other
    object are untouched — in particular nothing the source remembered is valid for the copy -/
theorem C04_history_copy (st : Store) (src dst : Nat) (ids : Option (List Id)) (c : Coll)
    (hc : st.get src = some c) :
    ((HStep.copy src dst ids).exec st).get dst = some { c with ids := ids.getD c.ids } ∧
    ∀ h', h' ≠ dst → ((HStep.copy src dst ids).exec st).get h' = st.get h' := by
  simp only [HStep.exec, hc]
  exact ⟨Store.get_put_same .., fun h' hne => Store.get_put_other _ _ hne⟩

/-- non-vacuity (the session of seeded C04-7): an annotation object is used, a sound event is appended to it,
    the same matches are now incomplete and the completed matches are accepted; a copy with a longer list
    behaves the same, the original still accepts the old matches -/
example : runHistory []
    [.new 0 "c" ["a0"], .new 1 "c" ["p0"],
     .eval 0 1 [⟨some "p0", some "a0", 1 / 2, none⟩] none,
     .setIds 0 ["a0", "a1"],
     .eval 0 1 [⟨some "p0", some "a0", 1 / 2, none⟩] none,
     .eval 0 1 [⟨some "p0", some "a0", 1 / 2, none⟩, ⟨none, some "a1", 0, none⟩] none,
     .copy 1 2 (some ["p0", "p1"]),
     .eval 0 2 [⟨some "p0", some "a0", 1 / 2, none⟩, ⟨none, some "a1", 0, none⟩] none,
     .eval 0 1 [⟨some "p0", some "a0", 1 / 2, none⟩, ⟨none, some "a1", 0, none⟩] none,
     .eval 0 2 [⟨some "p0", some "a0", 1 / 2, none⟩, ⟨some "p1", some "a1", 0, none⟩] none]
    = [some true, some false, some true, some false, some true, some true] := by decide +kernel

/-! ### non-vacuity -/
example : clipEvalOk "c" "c" ["a0", "a1"] ["p0"] [(some "p0", some "a0"), (none, some "a1")] = true := by decide
example : clipEvalOk "c" "c" ["a0", "a1"] ["p0"] [(some "p0", some "a0")] = false := by decide
example : clipEvalOk "c" "c" ["a0", "a1"] ["p0", "p1"] [(some "p0", some "a0"), (some "p1", some "a0")] = false := by decide
example : clipEvalOk "c" "d" [] [] [] = false := by decide
example : clipEvalOk "c" "c" [] [] [] = true := by decide
example : clipEvalOk "c" "c" ["a0", "a0"] [] [(none, some "a0")] = true := by decide
example : clipEvalOk "c" "c" ["x"] ["x"] [(some "x", some "x")] = true ∧ clipEvalOk "c" "c" ["x"] ["x"] [(some "x", none)] = false := by decide
example : matchOk ⟨some "p", none, 1, some 0⟩ = true := by decide +kernel
example : matchOk ⟨some "p", none, 1 + 1 / 4503599627370496, none⟩ = false := by decide +kernel
example : matchOk ⟨some "p", some "a", 0, some (-1 / 4503599627370496)⟩ = false := by decide +kernel
example : projectOk ["c0", "c1"] ["c1", "c1", "c0"] = true := by decide
example : projectOk ["c0"] ["c0", "c1"] = false := by decide
example : clipOk 1 1 = true ∧ clipOk (1 + 1 / 4503599627370496) 1 = false := by decide +kernel
example : unitTable [⟨"Match", "affinity", { ge := some 0, le := some 1 }⟩] = true := by decide +kernel
example : unitTable [⟨"Match", "affinity", { ge := some 0 }⟩] = false := by decide +kernel
example : unitOkF .nan = false ∧ unitOkF .pinf = false ∧ unitOkF .ninf = false ∧ unitOkF (.fin 1) = true := by decide +kernel
example : clipOkF .nan (.fin 0) = true ∧ clipOkF .pinf .pinf = true ∧ clipOkF .pinf (.fin 0) = false ∧
    clipOkF (.fin 0) .ninf = false ∧ clipOkF .ninf .ninf = true := by decide +kernel

end SE.Proofs.C04
