/-
  C04 — Relational schema invariants cannot be bypassed at construction.
  Property theorems only (helper lemmas live in Proofs/Lemmas/Relational.lean).
-/
import SoundeventModel.Relational
import Proofs.Lemmas.Relational
namespace SE.Proofs.C04
open SE SE.Relational SE.Proofs.Lemmas.Relational

/-- the targets / sources a list of matches mentions -/
abbrev targets (ms : List (Option Id × Option Id)) : List Id := ms.filterMap (·.2)
abbrev sources (ms : List (Option Id × Option Id)) : List Id := ms.filterMap (·.1)

/-! ### clip evaluations -/

theorem C04_check_matches_iff (annIds predIds : List Id) (ms : List (Option Id × Option Id)) :
    checkMatches annIds predIds ms = true ↔
      (targets ms).Nodup ∧ (sources ms).Nodup ∧
      (∀ x, x ∈ targets ms ↔ x ∈ annIds) ∧ (∀ x, x ∈ sources ms ↔ x ∈ predIds) := by
  have ite_ft : ∀ (c : Prop) [Decidable c] (x : Bool), ((if c then false else x) = true) ↔ (¬ c ∧ x = true) := by
    intro c _ x; by_cases h : c <;> simp [h]
  have ht := toSet_length_eq_iff (targets ms)
  have hs := toSet_length_eq_iff (sources ms)
  have h3 : setEq (toSet (targets ms)) (toSet annIds) = true ↔ ∀ x, x ∈ targets ms ↔ x ∈ annIds := by
    rw [setEq_iff]; simp only [mem_toSet]
  have h4 : setEq (toSet (sources ms)) (toSet predIds) = true ↔ ∀ x, x ∈ sources ms ↔ x ∈ predIds := by
    rw [setEq_iff]; simp only [mem_toSet]
  unfold checkMatches
  show (if ((targets ms).length != (toSet (targets ms)).length) = true then false
        else if ((sources ms).length != (toSet (sources ms)).length) = true then false
        else if (!setEq (toSet (targets ms)) (toSet annIds)) = true then false
        else if (!setEq (toSet (sources ms)) (toSet predIds)) = true then false else true) = true ↔ _
  rw [ite_ft, ite_ft, ite_ft, ite_ft]
  rw [← ht, ← hs, ← h3, ← h4]
  simp only [bne_iff_ne, ne_eq, Decidable.not_not, Bool.not_eq_true', Bool.not_eq_false, and_true]
  constructor
  · rintro ⟨a, b, c, d⟩; exact ⟨a.symm, b.symm, c, d⟩
  · rintro ⟨a, b, c, d⟩; exact ⟨a.symm, b.symm, c, d⟩

/-- accepted ⇔ same clip, no target and no source repeated, the targets are exactly the
    annotated and the sources exactly the predicted sound events -/
theorem C04_clip_eval_iff (annClip predClip : Id) (annIds predIds : List Id)
    (ms : List (Option Id × Option Id)) :
    clipEvalOk annClip predClip annIds predIds ms = true ↔
      annClip = predClip ∧ (targets ms).Nodup ∧ (sources ms).Nodup ∧
      (∀ x, x ∈ targets ms ↔ x ∈ annIds) ∧ (∀ x, x ∈ sources ms ↔ x ∈ predIds) := by
  simp only [clipEvalOk, Bool.and_eq_true, C04_check_matches_iff, clipsMatch]
  simp

/-- the statement of the property: same clip, every annotated and every predicted sound event
    is mentioned exactly once, and nothing foreign is mentioned -/
theorem C04_clip_eval_exactly_once (annClip predClip : Id) (annIds predIds : List Id)
    (ms : List (Option Id × Option Id)) :
    clipEvalOk annClip predClip annIds predIds ms = true ↔
      annClip = predClip ∧
      (∀ a ∈ annIds, (targets ms).count a = 1) ∧ (∀ t ∈ targets ms, t ∈ annIds) ∧
      (∀ p ∈ predIds, (sources ms).count p = 1) ∧ (∀ s ∈ sources ms, s ∈ predIds) := by
  rw [C04_clip_eval_iff]
  have h1 := @exactly_once_iff (targets ms) annIds
  have h2 := @exactly_once_iff (sources ms) predIds
  constructor
  · rintro ⟨hc, n1, n2, m1, m2⟩
    exact ⟨hc, (h1.mp ⟨n1, m1⟩).1, (h1.mp ⟨n1, m1⟩).2, (h2.mp ⟨n2, m2⟩).1, (h2.mp ⟨n2, m2⟩).2⟩
  · rintro ⟨hc, a1, a2, b1, b2⟩
    exact ⟨hc, (h1.mpr ⟨a1, a2⟩).1, (h2.mpr ⟨b1, b2⟩).1, (h1.mpr ⟨a1, a2⟩).2, (h2.mpr ⟨b1, b2⟩).2⟩

/-! ### matches, projects, clips, scores -/

theorem C04_unit_iff (x : Rat) : unitOk x = true ↔ 0 ≤ x ∧ x ≤ 1 := by
  simp [unitOk]

/-- a constraint row `ge=0, le=1` is the unit interval; any table the check extracts that passes
    `unitTable` therefore constrains every listed field to [0, 1] -/
theorem C04_unit_table (tbl : List FieldRow) (h : unitTable tbl = true) :
    ∀ r ∈ tbl, ∀ x, r.c.ok x = unitOk x := by
  intro r hr x
  simp only [unitTable, List.all_eq_true, decide_eq_true_eq] at h
  rw [h r hr]
  simp [Constraint.ok, unitOk]

theorem C04_match_iff (m : MatchRow) :
    matchOk m = true ↔
      (m.source.isSome ∨ m.target.isSome) ∧ (0 ≤ m.affinity ∧ m.affinity ≤ 1) ∧
      (∀ s, m.score = some s → 0 ≤ s ∧ s ≤ 1) := by
  obtain ⟨s, t, a, sc⟩ := m
  cases s <;> cases t <;> cases sc <;> simp [matchOk, matchSidesOk, optUnitOk, unitOk]

/-- a match has a source or a target -/
theorem C04_match_null_null_rejected (a : Rat) (sc : Option Rat) : matchOk ⟨none, none, a, sc⟩ = false := by
  simp [matchOk, matchSidesOk]

theorem C04_project_iff (taskClips annClips : List Id) :
    projectOk taskClips annClips = true ↔ ∀ c ∈ annClips, c ∈ taskClips := by
  induction annClips with
  | nil => simp [projectOk]
  | cons c cs ih =>
    by_cases h : c ∈ taskClips
    · simp [projectOk, mem_toSet, h, ih]
    · simp [projectOk, mem_toSet, h]

/-- a clip never starts after it ends -/
theorem C04_clip_iff (s e : Rat) : clipOk s e = true ↔ s ≤ e := by
  simp [clipOk, Rat.not_lt]

/-- a whole arrangement is accepted iff every match is well formed with numbers in [0,1], the
    score (if any) is in [0,1], and the relational condition holds -/
theorem C04_arrangement_iff (a : ClipEvalArr) :
    a.accepted = true ↔
      (∀ m ∈ a.ms, (m.source.isSome ∨ m.target.isSome) ∧ (0 ≤ m.affinity ∧ m.affinity ≤ 1) ∧
                   (∀ s, m.score = some s → 0 ≤ s ∧ s ≤ 1)) ∧
      (∀ s, a.score = some s → 0 ≤ s ∧ s ≤ 1) ∧
      a.annClip = a.predClip ∧
      (∀ x ∈ a.annIds, (targets a.pairs).count x = 1) ∧ (∀ t ∈ targets a.pairs, t ∈ a.annIds) ∧
      (∀ p ∈ a.predIds, (sources a.pairs).count p = 1) ∧ (∀ s ∈ sources a.pairs, s ∈ a.predIds) := by
  simp only [ClipEvalArr.accepted, Bool.and_eq_true, List.all_eq_true, C04_match_iff,
    C04_clip_eval_exactly_once]
  have : optUnitOk a.score = true ↔ ∀ s, a.score = some s → 0 ≤ s ∧ s ≤ 1 := by
    cases a.score <;> simp [optUnitOk, unitOk]
  rw [this]
  constructor
  · rintro ⟨⟨h1, h2⟩, h3⟩; exact ⟨h1, h2, h3⟩
  · rintro ⟨h1, h2, h3⟩; exact ⟨⟨h1, h2⟩, h3⟩

/-! ### the patterns the property lists -/

/-- an empty clip (nothing annotated, nothing predicted) is accepted iff no match mentions
    anything; as a `Match` needs a side, iff there are no matches at all -/
theorem C04_empty_clip (c : Id) (ms : List (Option Id × Option Id))
    (hsides : ∀ m ∈ ms, matchSidesOk m.1 m.2 = true) :
    clipEvalOk c c [] [] ms = true ↔ ms = [] := by
  rw [C04_clip_eval_iff]
  constructor
  · rintro ⟨_, _, _, ht, hs⟩
    cases ms with
    | nil => rfl
    | cons m rest =>
      exfalso
      have hm := hsides m (List.mem_cons_self ..)
      obtain ⟨s, t⟩ := m
      cases s with
      | some s => exact absurd ((hs s).mp (by simp [sources])) (by simp)
      | none =>
        cases t with
        | some t => exact absurd ((ht t).mp (by simp [targets])) (by simp)
        | none => simp [matchSidesOk] at hm
  · rintro rfl; simp

/-- nothing matched: one one-sided match per annotated and per predicted sound event -/
theorem C04_all_unmatched_accepted (c : Id) (annIds predIds : List Id)
    (ha : annIds.Nodup) (hp : predIds.Nodup) :
    clipEvalOk c c annIds predIds
      (annIds.map (fun a => (none, some a)) ++ predIds.map (fun p => (some p, none))) = true := by
  rw [C04_clip_eval_iff]
  have ht : targets (annIds.map (fun a => ((none : Option Id), some a)) ++
      predIds.map (fun p => (some p, (none : Option Id)))) = annIds := by
    simp [targets, List.filterMap_append, List.filterMap_map, Function.comp_def]
  have hs : sources (annIds.map (fun a => ((none : Option Id), some a)) ++
      predIds.map (fun p => (some p, (none : Option Id)))) = predIds := by
    simp [sources, List.filterMap_append, List.filterMap_map, Function.comp_def]
  rw [ht, hs]
  exact ⟨rfl, ha, hp, fun _ => Iff.rfl, fun _ => Iff.rfl⟩

/-- a perfect one-to-one pairing is accepted -/
theorem C04_perfect_matching_accepted (c : Id) (annIds predIds : List Id)
    (ha : annIds.Nodup) (hp : predIds.Nodup) (hlen : annIds.length = predIds.length) :
    clipEvalOk c c annIds predIds ((predIds.zip annIds).map fun (p, a) => (some p, some a)) = true := by
  rw [C04_clip_eval_iff]
  have ht : targets ((predIds.zip annIds).map fun (p, a) => (some p, some a)) = annIds := by
    simp only [targets, List.filterMap_map, Function.comp_def]
    rw [show (fun x : Id × Id => (some x.2 : Option Id)) = some ∘ Prod.snd from rfl]
    rw [← List.filterMap_map, List.map_snd_zip (by omega)]
    simp
  have hs : sources ((predIds.zip annIds).map fun (p, a) => (some p, some a)) = predIds := by
    simp only [sources, List.filterMap_map, Function.comp_def]
    rw [show (fun x : Id × Id => (some x.1 : Option Id)) = some ∘ Prod.fst from rfl]
    rw [← List.filterMap_map, List.map_fst_zip (by omega)]
    simp
  rw [ht, hs]
  exact ⟨rfl, ha, hp, fun _ => Iff.rfl, fun _ => Iff.rfl⟩

/-- two matches for the same annotated sound event: rejected -/
theorem C04_duplicate_target_rejected (ac pc : Id) (annIds predIds : List Id)
    (pre mid post : List (Option Id × Option Id)) (s1 s2 : Option Id) (t : Id) :
    clipEvalOk ac pc annIds predIds (pre ++ (s1, some t) :: mid ++ (s2, some t) :: post) = false := by
  rw [Bool.eq_false_iff]; intro h
  have hn := ((C04_clip_eval_iff ..).mp h).2.1
  simp [targets, List.filterMap_append, List.nodup_append] at hn

/-- two matches for the same predicted sound event: rejected -/
theorem C04_duplicate_source_rejected (ac pc : Id) (annIds predIds : List Id)
    (pre mid post : List (Option Id × Option Id)) (t1 t2 : Option Id) (s : Id) :
    clipEvalOk ac pc annIds predIds (pre ++ (some s, t1) :: mid ++ (some s, t2) :: post) = false := by
  rw [Bool.eq_false_iff]; intro h
  have hn := ((C04_clip_eval_iff ..).mp h).2.2.1
  simp [sources, List.filterMap_append, List.nodup_append] at hn

/-- a match that mentions a sound event which is not annotated (resp. predicted) in this clip:
    rejected, whatever the other side is -/
theorem C04_foreign_rejected (ac pc : Id) (annIds predIds : List Id)
    (ms : List (Option Id × Option Id)) (m : Option Id × Option Id) (hm : m ∈ ms)
    (hf : (∃ t, m.2 = some t ∧ t ∉ annIds) ∨ (∃ s, m.1 = some s ∧ s ∉ predIds)) :
    clipEvalOk ac pc annIds predIds ms = false := by
  rw [Bool.eq_false_iff]; intro h
  obtain ⟨_, _, _, ht, hs⟩ := (C04_clip_eval_iff ..).mp h
  rcases hf with ⟨t, e, hno⟩ | ⟨s, e, hno⟩
  · exact hno ((ht t).mp (List.mem_filterMap.mpr ⟨m, hm, e⟩))
  · exact hno ((hs s).mp (List.mem_filterMap.mpr ⟨m, hm, e⟩))

/-- an annotated or predicted sound event no match mentions: rejected -/
theorem C04_missing_rejected (ac pc : Id) (annIds predIds : List Id)
    (ms : List (Option Id × Option Id))
    (hmiss : (∃ a ∈ annIds, ∀ m ∈ ms, m.2 ≠ some a) ∨ (∃ p ∈ predIds, ∀ m ∈ ms, m.1 ≠ some p)) :
    clipEvalOk ac pc annIds predIds ms = false := by
  rw [Bool.eq_false_iff]; intro h
  obtain ⟨_, _, _, ht, hs⟩ := (C04_clip_eval_iff ..).mp h
  rcases hmiss with ⟨a, ha, hno⟩ | ⟨p, hp, hno⟩
  · obtain ⟨m, hm, e⟩ := List.mem_filterMap.mp ((ht a).mpr ha)
    exact hno m hm e
  · obtain ⟨m, hm, e⟩ := List.mem_filterMap.mp ((hs p).mpr hp)
    exact hno m hm e

/-- annotations and predictions of different clips: rejected, whatever the matches -/
theorem C04_different_clips_rejected (ac pc : Id) (h : ac ≠ pc) (annIds predIds : List Id)
    (ms : List (Option Id × Option Id)) : clipEvalOk ac pc annIds predIds ms = false := by
  rw [Bool.eq_false_iff]; intro hh
  exact h ((C04_clip_eval_iff ..).mp hh).1

/-- the order of the matches, of the annotated and of the predicted sound events is irrelevant -/
theorem C04_order_irrelevant (ac pc : Id) (annIds annIds' predIds predIds' : List Id)
    (ms ms' : List (Option Id × Option Id))
    (ha : annIds.Perm annIds') (hp : predIds.Perm predIds') (hm : ms.Perm ms') :
    clipEvalOk ac pc annIds predIds ms = clipEvalOk ac pc annIds' predIds' ms' := by
  have ht : (targets ms).Perm (targets ms') := hm.filterMap _
  have hs : (sources ms).Perm (sources ms') := hm.filterMap _
  rw [Bool.eq_iff_iff, C04_clip_eval_iff, C04_clip_eval_iff, ht.nodup_iff, hs.nodup_iff]
  simp only [ht.mem_iff, hs.mem_iff, ha.mem_iff, hp.mem_iff]

/-- an annotation that belongs to a clip without a task: the project is rejected -/
theorem C04_project_outsider_rejected (taskClips annClips : List Id) (c : Id)
    (hc : c ∈ annClips) (hno : c ∉ taskClips) : projectOk taskClips annClips = false := by
  rw [Bool.eq_false_iff]; intro h
  exact hno ((C04_project_iff ..).mp h c hc)

theorem C04_project_no_annotations_accepted (taskClips : List Id) : projectOk taskClips [] = true := rfl

/-! ### non-vacuity -/
example : clipEvalOk "c" "c" ["a0", "a1"] ["p0"] [(some "p0", some "a0"), (none, some "a1")] = true := by decide
example : clipEvalOk "c" "c" ["a0", "a1"] ["p0"] [(some "p0", some "a0")] = false := by decide
example : clipEvalOk "c" "c" ["a0", "a1"] ["p0", "p1"] [(some "p0", some "a0"), (some "p1", some "a0")] = false := by decide
example : clipEvalOk "c" "d" [] [] [] = false := by decide
example : clipEvalOk "c" "c" [] [] [] = true := by decide
example : clipEvalOk "c" "c" ["a0", "a0"] [] [(none, some "a0")] = true := by decide
example : matchOk ⟨some "p", none, 1, some 0⟩ = true := by decide +kernel
example : matchOk ⟨some "p", none, 1 + 1 / 4503599627370496, none⟩ = false := by decide +kernel
example : matchOk ⟨some "p", some "a", 0, some (-1 / 4503599627370496)⟩ = false := by decide +kernel
example : projectOk ["c0", "c1"] ["c1", "c1", "c0"] = true := by decide
example : projectOk ["c0"] ["c0", "c1"] = false := by decide
example : clipOk 1 1 = true ∧ clipOk (1 + 1 / 4503599627370496) 1 = false := by decide +kernel
example : unitTable [⟨"Match", "affinity", { ge := some 0, le := some 1 }⟩] = true := by decide +kernel
example : unitTable [⟨"Match", "affinity", { ge := some 0 }⟩] = false := by decide +kernel

end SE.Proofs.C04
