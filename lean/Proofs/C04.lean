/- C04 — property theorems (to be written). -/
import SoundeventModel.Basic
namespace SE.Proofs.C04

end SE.Proofs.C04
