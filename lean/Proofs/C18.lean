/- C18 — property theorems (to be written). -/
import SoundeventModel.Basic
namespace SE.Proofs.C18

end SE.Proofs.C18
