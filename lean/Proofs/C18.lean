/-
  C18 — audio paths of an AOEF document: `relative_to` / join on POSIX pure paths, and what
  `save` stores for the recordings when an audio directory is given.
-/
import Proofs.Lemmas.AoefClosure
import Proofs.Lemmas.PathsWF
import Proofs.Lemmas.PathsReloc
import Proofs.Lemmas.Session
namespace SE.Proofs.C18
open SE SE.Paths SE.Aoef

/-! concrete paths for the non-vacuity examples -/
def exA : PPath := ⟨"/", ["data", "audio"]⟩
def exB : PPath := ⟨"/", ["mnt", "x"]⟩
def exX : PPath := ⟨"", ["sub dir", "ñ.wav"]⟩
def exOut : PPath := ⟨"/", ["data", "other", "a.wav"]⟩

/-- `p.relative_to(A)` succeeds exactly when `A` is an ancestor-or-self of `p` (same anchor, parts a
    prefix), the result is the relative path of the remaining parts; otherwise `ValueError` -/
theorem C18_relative_iff (p A q : PPath) :
    (relativeTo p A = .ok q ↔ (inside p A ∧ q = ⟨"", p.parts.drop A.parts.length⟩)) ∧
    (¬ inside p A → relativeTo p A = .error .invalid) :=
  ⟨relativeTo_ok_iff p A q, relativeTo_not_inside p A⟩

example : inside (join exA exX) exA := by decide
example : relativeTo (join exA exX) exA = .ok exX := by decide
example : ¬ inside exOut exA := by decide
example : relativeTo exOut exA = .error .invalid := by decide

theorem C18_relative_join (A x : PPath) (hx : x.root = "") : relativeTo (join A x) A = .ok x :=
  relativeTo_join A x hx

example : exX.root = "" := rfl

theorem C18_join_relative (p A q : PPath) (h : relativeTo p A = .ok q) : join A q = p :=
  join_relativeTo p A q h

example : relativeTo ⟨"/", ["data", "audio", "sub dir", "ñ.wav"]⟩ exA = .ok exX := by decide

/-- saving under `A` and loading under `B` maps `A/x` to `B/x` -/
theorem C18_relocate (A B x : PPath) (hx : x.root = "") :
    relocated (some A) (some B) (join A x) = join B x := by
  unfold relocated
  simp only [storedPath, relativeTo_join A x hx, loadedPath]

example : relocated (some exA) (some exB) (join exA exX) = ⟨"/", ["mnt", "x", "sub dir", "ñ.wav"]⟩ := by
  decide

/-- without audio directories paths are stored and loaded unchanged -/
theorem C18_passthrough (p : PPath) :
    relocated none none p = p ∧ storedPath none p = .ok p ∧ loadedPath none p = p :=
  ⟨rfl, rfl, rfl⟩

/-! concrete collections for the non-vacuity examples -/
def recIn : Recording :=
  { uuid := "r1", path := ⟨"/", ["data", "audio", "sub dir", "ñ.wav"]⟩, duration := "1.0", channels := "1",
    samplerate := "8000" }
def recOut : Recording :=
  { uuid := "r2", path := exOut, duration := "1.0", channels := "1", samplerate := "8000" }
/-- a second recording object with the uuid of `recIn` but a path outside `exA` (incoherent sharing) -/
def recOutSame : Recording := { recOut with uuid := "r1" }
def caOf (u : Atom) (r : Recording) : ClipAnnotation :=
  { uuid := u, clip := ⟨"c" ++ u, r, "0", "1", []⟩, created_on := "t" }
def exGood : Collection := .annotationSet ⟨"as", [caOf "1" recIn], "t"⟩
def exBad : Collection := .annotationSet ⟨"as", [caOf "1" recIn, caOf "2" recOut], "t"⟩
def exIncoh : Collection := .annotationSet ⟨"as", [caOf "1" recIn, caOf "2" recOutSame], "t"⟩
def exBadRS : Collection := .recordingSet ⟨"rs", [recIn, recOut], "t"⟩

/-- every stored path is the recording's path relative to `A` -/
theorem C18_stored_relative (c : Collection) (A : PPath) (d : Doc) (h : save c (some A) = .ok d) :
    ∀ o ∈ lst d.recordings, ∃ r ∈ recsOf c.trav, o.uuid = r.uuid ∧ relativeTo r.path A = .ok o.path := by
  obtain ⟨rs, hrs, spec⟩ := save_spec h
  rw [spec.recordings]
  intro o ho
  obtain ⟨r, hr, henc⟩ := forall₂_mem_right (mapM_ok_forall₂.1 hrs) o ho
  obtain ⟨q, hq, rfl⟩ := encRecording_ok_iff.1 henc
  exact ⟨r, recSrc_subset hr, rfl, hq⟩

example : ∃ d, save exGood (some exA) = .ok d ∧ (lst d.recordings).map (·.path) = [exX] := ⟨_, rfl, rfl⟩

/-- every reachable recording is stored, with its path relative to `A` -/
theorem C18_every_recording_stored (c : Collection) (A : PPath) (d : Doc) (hwf : WF c)
    (h : save c (some A) = .ok d) :
    ∀ r ∈ recsOf c.trav, ∃ o ∈ lst d.recordings, o.uuid = r.uuid ∧ relativeTo r.path A = .ok o.path := by
  obtain ⟨rs, hrs, spec⟩ := save_spec h
  rw [spec.recordings]
  intro r hr
  obtain ⟨o, ho, henc⟩ :=
    forall₂_mem_left (mapM_ok_forall₂.1 hrs) r ((recSrc_iff_of_coherent hwf.recs).2 hr)
  obtain ⟨q, hq, rfl⟩ := encRecording_ok_iff.1 henc
  exact ⟨_, ho, rfl, hq⟩

example : WF exGood ∧ ∃ d, save exGood (some exA) = .ok d := ⟨WF_of_wfB (by decide), _, rfl⟩

/-- the only error of the recording encoder is `ValueError` -/
theorem encRecording_error_invalid {tids : List Tag} {A : PPath} {r : Recording} {e : Err}
    (h : encRecording tids (some A) r = .error e) : e = .invalid :=
  (relativeTo_error _ _ _ (encRecording_error h)).1

/-- a recording among those that are encoded lies outside `A`: saving fails as a whole -/
theorem outside_fails_src (c : Collection) (A : PPath) (r : Recording) (hr : r ∈ recSrc c)
    (hout : ¬ inside r.path A) : save c (some A) = .error .invalid := by
  apply save_error
  apply mapM_error_of_exists
  · intro x _ e he; exact encRecording_error_invalid he
  · exact ⟨r, hr, .invalid, encRecording_of_error (relativeTo_not_inside _ _ hout)⟩

/-- a reachable recording outside the audio directory makes `save` fail as a whole (`ValueError`),
    for all eight collection types.  The hypothesis of coherence (part of `WF`) is necessary:
    see `C18_outside_fails_needs_coherence`. -/
theorem C18_outside_fails (c : Collection) (A : PPath) (r : Recording)
    (hc : CoherentBy (·.uuid) (recsOf c.trav)) (hr : r ∈ recsOf c.trav) (hout : ¬ inside r.path A) :
    save c (some A) = .error .invalid :=
  outside_fails_src c A r ((recSrc_iff_of_coherent hc).2 hr) hout

example : CoherentBy (·.uuid) (recsOf exBad.trav) ∧ recOut ∈ recsOf exBad.trav ∧ ¬ inside recOut.path exA :=
  ⟨(WF_of_wfB (c := exBad) (by decide)).recs, by decide, by decide⟩
example : save exBad (some exA) = .error .invalid := by decide

/-- without coherence the statement is false: two recording objects share the uuid `r1`, the first one
    (inside `exA`) is the one the recording table keeps, the second one lies outside, and saving
    succeeds -/
theorem C18_outside_fails_needs_coherence :
    ¬ (∀ (c : Collection) (A : PPath) (r : Recording), r ∈ recsOf c.trav → ¬ inside r.path A →
        save c (some A) = .error .invalid) := by
  intro h
  have := h exIncoh exA recOutSame (by decide) (by decide)
  exact absurd this (by decide)

theorem C18_outside_fails_wf (c : Collection) (A : PPath) (r : Recording)
    (hwf : WF c) (hr : r ∈ recsOf c.trav) (hout : ¬ inside r.path A) :
    save c (some A) = .error .invalid :=
  C18_outside_fails c A r hwf.recs hr hout

/-- recording sets and datasets encode their member list itself: no coherence needed -/
theorem C18_outside_fails_recordingSet (x : RecordingSet) (A : PPath) (r : Recording)
    (hr : r ∈ recsOf (Collection.recordingSet x).trav) (hout : ¬ inside r.path A) :
    save (.recordingSet x) (some A) = .error .invalid := by
  apply outside_fails_src _ A r _ hout
  simpa only [recSrc, mem_recsOf, Collection.trav, recording_mem_flatMap_recAll] using hr

theorem C18_outside_fails_dataset (x : Dataset) (A : PPath) (r : Recording)
    (hr : r ∈ recsOf (Collection.dataset x).trav) (hout : ¬ inside r.path A) :
    save (.dataset x) (some A) = .error .invalid := by
  apply outside_fails_src _ A r _ hout
  simpa only [recSrc, mem_recsOf, Collection.trav, recording_mem_flatMap_recAll] using hr

example : recOut ∈ recsOf exBadRS.trav ∧ ¬ inside recOut.path exA ∧ save exBadRS (some exA) = .error .invalid := by
  decide

example : recOut ∈ recsOf (Collection.dataset ⟨"ds", [recIn, recOut], "t", "n", none⟩).trav ∧
    save (.dataset ⟨"ds", [recIn, recOut], "t", "n", none⟩) (some exA) = .error .invalid := by decide

/-- when every reachable recording lies inside `A`, saving succeeds -/
theorem C18_inside_succeeds (c : Collection) (A : PPath)
    (hin : ∀ r ∈ recsOf c.trav, inside r.path A) : ∃ d, save c (some A) = .ok d := by
  have : ∃ rs, (recSrc c).mapM (encRecording (tagTable c.trav) (some A)) = .ok rs := by
    apply mapM_ok_of_forall
    intro r hr
    exact ⟨_, encRecording_ok_iff.2 ⟨_, relativeTo_inside _ _ (hin r (recSrc_subset hr)), rfl⟩⟩
  obtain ⟨rs, hrs⟩ := this
  obtain ⟨d, hd, _⟩ := save_ok hrs
  exact ⟨d, hd⟩

example : ∀ r ∈ recsOf exGood.trav, inside r.path exA := by decide

/-! ### `parse` (string level) -/

theorem parse_parts_ok (str : String) : ∀ s ∈ (parse str).parts, s ≠ "" ∧ s ≠ "." :=
  SE.Paths.parse_parts_ok str

theorem parse_root_ok (str : String) :
    (parse str).root = "" ∨ (parse str).root = "/" ∨ (parse str).root = "//" :=
  SE.Paths.parse_root_ok str

/-- `Path(str(p)) == p` for well-formed paths -/
theorem C18_parse_render (p : PPath) (h : p.WF) : parse (render p) = p := parse_render p h

example : exX.WF ∧ exA.WF ∧ (⟨"//", ["..", "x"]⟩ : PPath).WF ∧ (⟨"", []⟩ : PPath).WF :=
  ⟨⟨by decide, by decide⟩, ⟨by decide, by decide⟩, ⟨by decide, by decide⟩, ⟨by decide, by decide⟩⟩

/-- rendering and parsing of the example paths (`String.splitOn` is defined by well-founded recursion on
    byte positions and does not evaluate in the kernel: `splitOn_slash` moves to the character list) -/
example : render exX = "sub dir/ñ.wav" ∧ render exA = "/data/audio" := by decide +kernel
example : parse "/data/audio" = exA := by unfold parse; rw [splitOn_slash]; decide
example : parse "sub dir/ñ.wav" = exX := by unfold parse; rw [splitOn_slash]; decide
example : parse "/data//audio/./" = exA := by unfold parse; rw [splitOn_slash]; decide
example : parse "///mnt/x" = exB ∧ (parse "//mnt/x").root = "//" := by
  unfold parse; rw [splitOn_slash, splitOn_slash]; decide

/-! ### second review: `parse` yields well-formed paths, the string level of a save / load, the mixed
    modes (a directory on one side only), and the collection level of relocation -/

/-- every path string parses to a well-formed path (root `""`, `"/"` or `"//"`; no part empty, "." or
    containing '/'): the hypothesis of `C18_parse_render` holds for whatever `Path(s)` yields -/
theorem C18_parse_wf (str : String) : (parse str).WF := parse_wf str

/-- `Path(str(Path(s))) == Path(s)` for every string -/
theorem C18_parse_render_parse (str : String) : parse (render (parse str)) = parse str :=
  parse_render_parse str

example : parse (render (parse "//data///./audio/../x /")) = parse "//data///./audio/../x /" :=
  C18_parse_render_parse _

/-- `relative_to` and `/` keep paths well formed -/
theorem C18_relative_join_wf (p A q x : PPath) :
    (p.WF → relativeTo p A = .ok q → q.WF) ∧ (A.WF → x.WF → (join A x).WF) :=
  ⟨fun hp h => relativeTo_wf hp h, fun hA hx => join_wf hA hx⟩

/-- `str` is injective on well-formed paths: the harness may compare rendered strings -/
theorem C18_render_injective (p q : PPath) (hp : p.WF) (hq : q.WF) (h : render p = render q) : p = q :=
  render_injective hp hq h

example : exA.WF ∧ exB.WF ∧ render exA ≠ render exB :=
  ⟨⟨by decide, by decide⟩, ⟨by decide, by decide⟩, by decide +kernel⟩

/-- the string level of one recording: the recording's path string `s`, saved under the directory string
    `a`, is written as `render q`; whoever reads that string back and joins it under the directory string
    `b` gets `B/q`, and rendering that path and reading it again changes nothing -/
theorem C18_string_level (s a b : String) (q : PPath) (h : relativeTo (parse s) (parse a) = .ok q) :
    parse (render q) = q ∧
    loadedPath (some (parse b)) (parse (render q)) = join (parse b) q ∧
    parse (render (join (parse b) q)) = join (parse b) q := by
  have hq : q.WF := relativeTo_wf (parse_wf s) h
  have h1 : parse (render q) = q := parse_render q hq
  exact ⟨h1, by rw [h1]; rfl, parse_render _ (join_wf (parse_wf b) hq)⟩

example : relativeTo (parse "/data//audio/./sub dir/ñ.wav") (parse "/data/audio/") = .ok exX := by
  unfold parse; rw [splitOn_slash, splitOn_slash]; decide

/-- a directory on the saving side only: the stored relative path comes back as it is -/
theorem C18_relocate_to_none (A x : PPath) (hx : x.root = "") : relocated (some A) none (join A x) = x := by
  unfold relocated
  simp only [storedPath, relativeTo_join A x hx, loadedPath]

example : relocated (some exA) none (join exA exX) = exX := by decide

/-- a directory on the loading side only: the stored path is the recording's own path; an anchored
    (absolute) one is kept, a relative one is put under the directory -/
theorem C18_relocate_from_none (B p : PPath) :
    relocated none (some B) p = join B p ∧
    (p.root ≠ "" → relocated none (some B) p = p) ∧
    (p.root = "" → relocated none (some B) p = ⟨B.root, B.parts ++ p.parts⟩) := by
  refine ⟨rfl, fun h => ?_, fun h => ?_⟩
  · show join B p = p
    unfold join; rw [if_pos h]
  · show join B p = _
    exact join_relative_root B p h

example : relocated none (some exB) exOut = exOut ∧ relocated none (some exB) exX = join exB exX := by decide

/-- the recordings reachable from a relocated collection are the relocated recordings, by whatever route
    they are reached (clip, sound event, sequence or ancestor sequence, annotation, prediction, task,
    match, clip evaluation) -/
theorem C18_recordings_of_mapPath (c : Collection) (f : PPath → PPath) :
    recsOf (c.mapPath f).trav = (recsOf c.trav).map (Recording.mapPath f) :=
  recsOf_trav_mapPath f c

/-- saving under `sd` and loading under `ld` (each a directory or none): loading succeeds and the
    recordings reachable from the loaded collection are those of the saved one, in the same order, with
    `relocated sd ld` applied to the path and nothing else changed -/
theorem C18_loaded_recordings (c : Collection) (sd ld : Option PPath) (d : Doc) (hwf : WF c)
    (hs : save c sd = .ok d) :
    ∃ c', load d ld = .ok c' ∧
      recsOf c'.trav = (recsOf c.trav).map (Recording.mapPath (relocated sd ld)) :=
  ⟨_, roundtrip_general c sd ld d hwf hs, recsOf_trav_mapPath _ c⟩

/-- the property at the level of a collection: when every reachable recording lies inside `A`, saving
    under `A` succeeds, loading under `B` succeeds, and every recording reachable from the loaded
    collection is the corresponding recording `A/x` of the saved one, now at `B/x` -/
theorem C18_relocate_collection (c : Collection) (A B : PPath) (hwf : WF c)
    (hin : ∀ r ∈ recsOf c.trav, inside r.path A) :
    ∃ d c', save c (some A) = .ok d ∧ load d (some B) = .ok c' ∧
      recsOf c'.trav = (recsOf c.trav).map (Recording.mapPath (relocated (some A) (some B))) ∧
      ∀ r ∈ recsOf c.trav, ∃ x : PPath, x.root = "" ∧ r.path = join A x ∧
        relocated (some A) (some B) r.path = join B x := by
  obtain ⟨d, hd⟩ := C18_inside_succeeds c A hin
  obtain ⟨c', hl, hrecs⟩ := C18_loaded_recordings c (some A) (some B) d hwf hd
  refine ⟨d, c', hd, hl, hrecs, fun r hr => ?_⟩
  have hrel := relativeTo_inside r.path A (hin r hr)
  refine ⟨_, rfl, (join_relativeTo _ _ _ hrel).symm, ?_⟩
  unfold relocated
  simp only [storedPath, hrel, loadedPath]

example : WF exGood ∧ ∀ r ∈ recsOf exGood.trav, inside r.path exA := ⟨WF_of_wfB (by decide), by decide⟩
example : ∃ d c', save exGood (some exA) = .ok d ∧ load d (some exB) = .ok c' ∧
    (recsOf c'.trav).map (·.path) = [⟨"/", ["mnt", "x", "sub dir", "ñ.wav"]⟩] := ⟨_, _, rfl, rfl, by decide⟩

/-- without audio directories: saving succeeds, every stored path is the recording's own path, and
    loading gives the collection back -/
theorem C18_passthrough_collection (c : Collection) (hwf : WF c) :
    ∃ d, save c none = .ok d ∧
      (∀ o ∈ lst d.recordings, ∃ r ∈ recsOf c.trav, o.uuid = r.uuid ∧ o.path = r.path) ∧
      ∃ c', load d none = .ok c' ∧ recsOf c'.trav = recsOf c.trav := by
  have hd := save_total c
  refine ⟨_, hd, ?_, ?_⟩
  · obtain ⟨rs, hrs, spec⟩ := save_spec hd
    rw [spec.recordings]
    intro o ho
    obtain ⟨r, hr, henc⟩ := forall₂_mem_right (mapM_ok_forall₂.1 hrs) o ho
    obtain ⟨q, hq, rfl⟩ := encRecording_ok_iff.1 henc
    simp only [storedPath, Except.ok.injEq] at hq
    exact ⟨r, recSrc_subset hr, rfl, hq.symm⟩
  · obtain ⟨c', hl, hrecs⟩ := C18_loaded_recordings c none none _ hwf hd
    refine ⟨c', hl, ?_⟩
    rw [hrecs]
    conv => rhs; rw [← List.map_id (recsOf c.trav)]
    exact List.map_congr_left (fun r _ => rfl)

example : WF exBad := WF_of_wfB (by decide)


/-! ### the adapter table (Tie 1): regenerated on every run by introspection of `soundevent.io.aoef.ADAPTERS` -/

/-- one row of the adapter table as observed on the imported code: the collection type, the number of
    distinct recording adapters reachable from the collection adapter that `to_aeof` / `to_soundevent`
    build with a directory, what each of them does with a recording below that directory
    (`assemble_aoef` stores it relative, fails for one outside; `assemble_soundevent` joins), and that
    the adapter built without a directory passes paths through on both sides -/
structure AdapterRow where
  type : String
  recAdapters : Nat
  storesRelative : Bool
  failsOutside : Bool
  joinsOnLoad : Bool
  passThrough : Bool
  deriving DecidableEq, Repr

def AdapterRow.ok (r : AdapterRow) : Bool :=
  r.recAdapters == 1 && r.storesRelative && r.failsOutside && r.joinsOnLoad && r.passThrough

/-- the `collection_type`s of the eight constructors of the model -/
def allTypeNames : List String :=
  ["recording_set", "dataset", "annotation_set", "annotation_project", "evaluation_set", "prediction_set",
   "model_run", "evaluation"]

/-- every collection type of the model has a row, and the row is as the model assumes: *one* recording
    adapter per collection adapter (so every route to a recording goes through it) that got the
    directory -/
def ThreadsDir (tbl : List AdapterRow) : Prop :=
  ∀ t ∈ allTypeNames, ∃ r ∈ tbl, r.type = t ∧ r.ok = true

instance (tbl : List AdapterRow) : Decidable (ThreadsDir tbl) := by unfold ThreadsDir; exact inferInstance

/-- a well-formed adapter table covers every constructor of the model: whatever collection is saved or
    loaded, its adapter has exactly one recording adapter, which stores relative to the directory, fails
    outside it, joins on load, and passes paths through without a directory — the shape `save` / `load`
    of the model have (one `dir`, one recording table) -/
theorem C18_adapter_table (tbl : List AdapterRow) (h : ThreadsDir tbl) (c : Collection) :
    ∃ r ∈ tbl, r.type = c.typeName ∧ r.recAdapters = 1 ∧ r.storesRelative = true ∧ r.failsOutside = true ∧
      r.joinsOnLoad = true ∧ r.passThrough = true := by
  have hmem : c.typeName ∈ allTypeNames := by cases c <;> simp [Collection.typeName, allTypeNames]
  obtain ⟨r, hr, ht, hok⟩ := h _ hmem
  simp only [AdapterRow.ok, Bool.and_eq_true, beq_iff_eq] at hok
  obtain ⟨⟨⟨⟨h1, h2⟩, h3⟩, h4⟩, h5⟩ := hok
  exact ⟨r, hr, ht, h1, h2, h3, h4, h5⟩

example : ThreadsDir (allTypeNames.map fun t => ⟨t, 1, true, true, true, true⟩) := by decide
example : ¬ ThreadsDir ((allTypeNames.map fun t => ⟨t, 1, true, true, true, true⟩).tail) := by decide
example : ¬ ThreadsDir (allTypeNames.map fun t => ⟨t, if t = "model_run" then 2 else 1, true, true, true, true⟩) := by
  decide

/-! ### follow-up: two more tables regenerated on every run (Tie 1) -/

/-- which adapter converts an instance of a collection class, as observed on the imported code: the
    `collection_type` of the document `save` writes for a smallest instance of the class itself
    (`exact`) and for a smallest instance of a user-defined subclass of it (`subclass`) -/
structure DispatchRow where
  type : String
  exact : String
  subclass : String
  deriving DecidableEq, Repr

/-- every collection type of the model is converted by its own adapter, also when the object is an
    instance of a user-defined subclass (`class LabProject(AnnotationProject)`): the model has one
    constructor per type and treats such an instance as its base type's content -/
def DispatchOK (tbl : List DispatchRow) : Prop :=
  ∀ t ∈ allTypeNames, ∃ r ∈ tbl, r.type = t ∧ r.exact = t ∧ r.subclass = t

instance (tbl : List DispatchRow) : Decidable (DispatchOK tbl) := by unfold DispatchOK; exact inferInstance

theorem C18_dispatch_table (tbl : List DispatchRow) (h : DispatchOK tbl) (c : Collection) :
    ∃ r ∈ tbl, r.type = c.typeName ∧ r.exact = c.typeName ∧ r.subclass = c.typeName := by
  have hmem : c.typeName ∈ allTypeNames := by cases c <;> simp [Collection.typeName, allTypeNames]
  exact h _ hmem

example : DispatchOK (allTypeNames.map fun t => ⟨t, t, t⟩) := by decide
/-- seeded change C02-9: a subclass of `AnnotationProject` falls to the adapter of `AnnotationSet` -/
example : ¬ DispatchOK (allTypeNames.map fun t =>
    ⟨t, t, if t = "annotation_project" then "annotation_set" else t⟩) := by decide

/-- the positions at which the public functions take the directory (and the two other optional
    arguments that precede or follow it) when called positionally — the convention of the positional
    routes of the check (`io.save(obj, path, audio_dir, format)`, `io.load(path, audio_dir, format, type)`,
    `aoef.save(obj, path, audio_dir)`, `aoef.load(path, audio_dir, type)`, `to_aeof(obj, audio_dir)`,
    `to_soundevent(doc, audio_dir)`) -/
def callConvention : List (String × String × Nat) :=
  [("io.save", "audio_dir", 2), ("io.save", "format", 3), ("io.load", "audio_dir", 1), ("io.load", "format", 2),
   ("io.load", "type", 3), ("aoef.save", "audio_dir", 2), ("aoef.load", "audio_dir", 1), ("aoef.load", "type", 2),
   ("aoef.to_aeof", "audio_dir", 1), ("aoef.to_soundevent", "audio_dir", 1)]

/-- a signature table `(function, parameter, position among the positional parameters)` agrees with the
    convention on every function it lists (a function whose signature cannot be introspected — a
    `*args` wrapper — is not listed; the positional routes of the correspondence decide it) -/
def SigOK (tbl : List (String × String × Nat)) : Prop :=
  ∀ r ∈ callConvention, (tbl.any fun x => x.1 == r.1) = true → r ∈ tbl

instance (tbl : List (String × String × Nat)) : Decidable (SigOK tbl) := by unfold SigOK; exact inferInstance

theorem C18_signature_table (tbl : List (String × String × Nat)) (h : SigOK tbl) (fn par : String) (i : Nat)
    (hc : (fn, par, i) ∈ callConvention) (hl : ∃ row ∈ tbl, row.1 = fn) : (fn, par, i) ∈ tbl := by
  apply h _ hc
  obtain ⟨row, hrow, hfn⟩ := hl
  exact List.any_eq_true.2 ⟨row, hrow, by simp [hfn]⟩

example : SigOK callConvention := by decide
/-- the two optional parameters of `io.save` swapped (mutant M19 of the review) -/
example : ¬ SigOK [("io.save", "obj", 0), ("io.save", "path", 1), ("io.save", "format", 2), ("io.save", "audio_dir", 3)] := by
  decide
example : SigOK [] := by decide

/-! ### follow-up: sessions — the file system as state, objects changed between saves

`SoundeventModel/Aoef/Session.lean`: a session is a list of steps (`put`, `move`, `save`, `load`) run over two
finite maps, the content of the live objects and the document every file holds.  The check runs the same
sessions on the real code in one process (`session` in `harness/props/c18.py`) and compares every step's
output with `Session.run`; the theorems say what `Session.run` is. -/
section Sessions
open SE.Aoef.Session SE.History

/-- **A successful save replaces the whole file, and nothing else.**  Whatever the target held before
    (nothing, a shorter document, a longer one, the document of another collection type), it holds
    exactly the new document afterwards; what the step reports are that document's recording entries;
    every other file and every live object is as before.  Nothing on the right-hand sides depends on
    `s.files`: what is written is a function of the object's content and the directory alone. -/
theorem C18_session_save_ok (s : State) (k f : String) (dir : Option PPath) (c : Collection) (d : Doc)
    (hk : get s.objs k = some c) (hd : save c dir = .ok d) :
    (step s (.save k f dir)).2 = .stored (storedOf d) ∧
    get (step s (.save k f dir)).1.files f = some d ∧
    (∀ g, g ≠ f → get (step s (.save k f dir)).1.files g = get s.files g) ∧
    (step s (.save k f dir)).1.objs = s.objs := by
  rw [step_save_ok hk hd]
  exact ⟨rfl, get_put_same _ _ _, fun g hg => get_put_other _ _ hg, rfl⟩

/-- **A failing save changes nothing**: no file (in particular not an existing file at the target), no
    live object. -/
theorem C18_session_save_fails (s : State) (k f : String) (dir : Option PPath) (c : Collection) (e : Err)
    (hk : get s.objs k = some c) (he : save c dir = .error e) :
    step s (.save k f dir) = (s, .fail e) :=
  step_save_error hk he

/-- the content of a cell (a file, an in-memory document) changes only through a successful save to that
    very cell, and then it is exactly the document of that save — or through a copy into it (a document
    written out, a file parsed), and then it is the source's document (one step) -/
theorem C18_session_file_changes (s : State) (st : Step) (f : String) :
    get (step s st).1.files f = get s.files f ∨
    (∃ k dir c d, st = .save k f dir ∧ get s.objs k = some c ∧ save c dir = .ok d ∧
      get (step s st).1.files f = some d) ∨
    (∃ src d, st = .copy src f ∧ get s.files src = some d ∧ get (step s st).1.files f = some d) :=
  file_changes s st f

/-- … and over any number of steps none of which saves to `f` (saves to other files, loads of any file,
    changes of any object): `f` is as it was -/
theorem C18_session_frame (s : State) (steps : List Step) (f : String)
    (h : ∀ st ∈ steps, st.savesTo f = false) : get (after s steps).files f = get s.files f :=
  frame f steps s h

/-- a load reads: no file changes, and the result is `load` of the document the file holds *now* under
    the directory given *now* -/
theorem C18_session_load (s : State) (f into : String) (dir : Option PPath) (d : Doc)
    (hf : get s.files f = some d) :
    (step s (.load f dir into)).1.files = s.files ∧
    (step s (.load f dir into)).2 =
      (match load d dir with | .ok c => .recs (recPaths c) | .error e => .fail e) := by
  cases hl : load d dir with
  | ok c => simp [step, hf, hl]
  | error e => simp [step, hf, hl]

/-- **The property over a history.**  The object `k` (content `c`, every recording inside `A`) is saved to
    `f` under `A`; then anything happens that is not a save to `f` — saves of the same or other objects to
    other files under other directories, loads, recordings of `k` itself moved by assignment; then `f` is
    loaded under `B`.  The loaded recordings are those `c` had *when it was saved*, each `A/x` at `B/x`. -/
theorem C18_session_relocate (s : State) (k f into : String) (A B : PPath) (c : Collection)
    (mid : List Step) (hk : get s.objs k = some c) (hwf : WF c)
    (hin : ∀ r ∈ recsOf c.trav, inside r.path A) (hmid : ∀ st ∈ mid, st.savesTo f = false) :
    ∃ d c' outs, save c (some A) = .ok d ∧
      run s (.save k f (some A) :: mid ++ [.load f (some B) into]) =
        .stored (storedOf d) :: outs ++ [.recs (recPaths c')] ∧
      recsOf c'.trav = (recsOf c.trav).map (Recording.mapPath (relocated (some A) (some B))) := by
  obtain ⟨d, c', hd, hl, hrecs, _⟩ := C18_relocate_collection c A B hwf hin
  have hs1 : step s (.save k f (some A)) = ({ s with files := put s.files f d }, .stored (storedOf d)) :=
    step_save_ok hk hd
  have hf : get (after { s with files := put s.files f d } mid).files f = some d := by
    rw [frame f mid _ hmid]; exact get_put_same _ _ _
  refine ⟨d, c', run { s with files := put s.files f d } mid, hd, ?_, hrecs⟩
  rw [run_append, run_cons, hs1]
  have hafter : after s (.save k f (some A) :: mid) = after { s with files := put s.files f d } mid := by
    show after (step s (.save k f (some A))).1 mid = _
    rw [hs1]
  rw [hafter, run_cons, step_load_ok hf hl]
  rfl

/-- **A failing save over an existing file leaves it untouched**: `k` is saved to `f` under `A`, then a
    collection with a recording outside `A'` is saved to the same `f` under `A'` (fails), then `f` is
    loaded under `B`: the three outputs are the first document's entries, the failure, and the first
    collection's recordings relocated from `A` to `B`. -/
theorem C18_session_failed_save_keeps_file (s : State) (k k' f into : String) (A A' B : PPath)
    (c c₂ : Collection) (r : Recording) (hk : get s.objs k = some c) (hk' : get s.objs k' = some c₂)
    (hwf : WF c) (hin : ∀ x ∈ recsOf c.trav, inside x.path A)
    (hc₂ : CoherentBy (·.uuid) (recsOf c₂.trav)) (hr : r ∈ recsOf c₂.trav) (hout : ¬ inside r.path A') :
    ∃ d c', save c (some A) = .ok d ∧
      run s [.save k f (some A), .save k' f (some A'), .load f (some B) into] =
        [.stored (storedOf d), .fail .invalid, .recs (recPaths c')] ∧
      recsOf c'.trav = (recsOf c.trav).map (Recording.mapPath (relocated (some A) (some B))) := by
  obtain ⟨d, c', hd, hl, hrecs, _⟩ := C18_relocate_collection c A B hwf hin
  have hfail := C18_outside_fails c₂ A' r hc₂ hr hout
  refine ⟨d, c', hd, ?_, hrecs⟩
  have hk2 : get ({ s with files := put s.files f d } : State).objs k' = some c₂ := hk'
  have hf : get ({ s with files := put s.files f d } : State).files f = some d := get_put_same _ _ _
  simp only [run, runS, step_save_ok hk hd, step_save_error hk2 hfail, step_load_ok hf hl]

/-- **One document, several conversions** (seeded change C18-7).  `to_aeof(obj, A)` gives an in-memory
    document (the cell `D`); `to_soundevent(D, B)`, then `to_soundevent(D, C)` on the *same* document object,
    then the document written out: the second conversion relocates from `A` to `C` (it does not see `B`), and
    what is written out is the document of the save — conversions read the document, they do not change it. -/
theorem C18_session_document_reused (s : State) (k D x y out : String) (A B C : PPath) (c : Collection)
    (hk : get s.objs k = some c) (hwf : WF c) (hin : ∀ r ∈ recsOf c.trav, inside r.path A) :
    ∃ d cB cC, save c (some A) = .ok d ∧
      run s [.save k D (some A), .load D (some B) x, .load D (some C) y, .copy D out] =
        [.stored (storedOf d), .recs (recPaths cB), .recs (recPaths cC), .stored (storedOf d)] ∧
      recsOf cB.trav = (recsOf c.trav).map (Recording.mapPath (relocated (some A) (some B))) ∧
      recsOf cC.trav = (recsOf c.trav).map (Recording.mapPath (relocated (some A) (some C))) := by
  obtain ⟨d, cB, hd, hlB, hrB, _⟩ := C18_relocate_collection c A B hwf hin
  obtain ⟨d', cC, hd', hlC, hrC, _⟩ := C18_relocate_collection c A C hwf hin
  have hdd : d' = d := by rw [hd] at hd'; exact (Except.ok.inj hd').symm
  subst hdd
  refine ⟨d', cB, cC, hd, ?_, hrB, hrC⟩
  have h1 : get ({ s with files := put s.files D d' } : State).files D = some d' := get_put_same _ _ _
  have h2 : get ({ objs := put s.objs x cB, files := put s.files D d' } : State).files D = some d' :=
    get_put_same _ _ _
  have h3 : get ({ objs := put (put s.objs x cB) y cC, files := put s.files D d' } : State).files D = some d' :=
    get_put_same _ _ _
  simp only [run, runS, step_save_ok hk hd, step_load_ok h1 hlB, step_load_ok h2 hlC, step_copy_ok h3]

/-- one save as the file system sees it: the collection's content, the directory, the target -/
abbrev SaveCall := Collection × Option PPath × String

/-- the pure model of one save: the recording entries of the document, or the failure -/
def saveOut (x : SaveCall) : Out :=
  match save x.1 x.2.1 with
  | .ok d => .stored (storedOf d)
  | .error e => .fail e

/-- saves run over a file system -/
def fsSave (fs : List (String × Doc)) (x : SaveCall) : List (String × Doc) × Out :=
  match save x.1 x.2.1 with
  | .ok d => (put fs x.2.2 d, .stored (storedOf d))
  | .error e => (fs, .fail e)

/-- **Saves are history free.**  `fsSave` is what `Session.step` does for a save (first part); over any
    sequence of saves to whatever targets, starting from whatever files, every save reports what the
    pure model says about that save alone — nothing an earlier save did (the directory it used, what it
    left at the same target) shows in a later one. -/
theorem C18_saves_history_free (fs0 : List (String × Doc)) :
    (∀ (s : State) k f dir c, get s.objs k = some c →
      (step s (.save k f dir)).2 = (fsSave s.files (c, dir, f)).2 ∧
      (step s (.save k f dir)).1.files = (fsSave s.files (c, dir, f)).1) ∧
    HistoryFree fsSave fs0 saveOut ∧
    ∀ calls : List SaveCall, runS fsSave fs0 calls = calls.map saveOut := by
  have hfree : HistoryFree fsSave fs0 saveOut := by
    intro fs _ x
    unfold fsSave saveOut
    cases save x.1 x.2.1 <;> rfl
  refine ⟨?_, hfree, (historyFree_iff fsSave fs0 saveOut).1 hfree⟩
  intro s k f dir c hk
  cases hd : save c dir with
  | ok d => rw [step_save_ok hk hd]; simp [fsSave, hd]
  | error e => rw [step_save_error hk hd]; simp [fsSave, hd]

/-- an implementation that keeps a cache of the relative directory keyed by the recording's parent only
    (seeded change C18-3) or that does not truncate the target (C01-9) is not history free; the smallest
    witness in the model's own terms: a "save" that reuses the first directory it ever saw -/
example :
    let stale : Option (Option PPath) → SaveCall → Option (Option PPath) × Out := fun memo x =>
      let dir := memo.getD x.2.1
      (some dir, saveOut (x.1, dir, x.2.2))
    runS stale none [(exGood, some exA, "f"), (exGood, none, "f")] ≠
      [(exGood, some exA, "f"), (exGood, none, "f")].map saveOut := by
  decide

/-- a session on the example collections: the good one saved to `f` under `A`, the bad one (one recording
    outside) saved over it — fails —, `f` loaded under `B`; then the good one moved to another place by
    assignment and saved again, to the same file, without a directory -/
example :
    run State.empty [.put "a" exGood, .put "b" exBad, .save "a" "f" (some exA), .save "b" "f" (some exA),
        .load "f" (some exB) "c", .move "a" recIn.path ⟨"/", ["new", "z.wav"]⟩, .save "a" "f" none,
        .load "f" (some exB) "c"] =
      [.recs [("r1", recIn.path)], .recs [("r1", recIn.path), ("r2", exOut)], .stored [("r1", exX)],
       .fail .invalid, .recs [("r1", ⟨"/", ["mnt", "x", "sub dir", "ñ.wav"]⟩)],
       .recs [("r1", ⟨"/", ["new", "z.wav"]⟩)], .stored [("r1", ⟨"/", ["new", "z.wav"]⟩)],
       .recs [("r1", ⟨"/", ["new", "z.wav"]⟩)]] := by
  decide

end Sessions

end SE.Proofs.C18
