/- C07 — property theorems (to be written). -/
import SoundeventModel.Basic
namespace SE.Proofs.C07

end SE.Proofs.C07
