/-
  C07 — Matching is an optimal one-to-one assignment that covers every geometry once.
  Property theorems only (helper lemmas: Proofs/Lemmas/Matching.lean).

  `selectMatches n m aff assigned` is `list(match_geometries(source, target))` with the
  `n × m` affinity matrix `aff` and the answer `assigned` of
  `scipy.optimize.linear_sum_assignment(aff, maximize=True)` as parameters.
  `ValidAssignment` is scipy's contract (rows distinct, columns distinct, in range); it is
  evaluated on scipy's answer on every case of the check.
-/
import Proofs.Lemmas.Matching
import Proofs.Lemmas.MatchCall
namespace SE.Proofs.C07
open SE SE.Matching

/-- scipy's contract for the answer of `linear_sum_assignment` on an `n × m` matrix -/
abbrev ValidAssignment (n m : Nat) (assigned : List (Nat × Nat)) : Prop := PartialInjection n m assigned

/-- the executable form of the contract (what the check evaluates) is the contract -/
theorem C07_contract_decidable (n m : Nat) (assigned : List (Nat × Nat)) :
    validAssignment n m assigned = true ↔ ValidAssignment n m assigned :=
  validAssignment_iff n m assigned

/-- under scipy's contract `_select_matches` never raises and its result is: the assigned
    pairs of positive affinity, then the left-over rows, then the left-over columns -/
theorem C07_total (n m : Nat) (aff : Mat) (assigned : List (Nat × Nat))
    (h : ValidAssignment n m assigned) :
    selectMatches n m aff assigned = .ok (closedForm n m aff assigned) :=
  selectMatches_eq_closed n m aff assigned h

/-- every source index `0..n-1` and every target index `0..m-1` is mentioned exactly once
    (the mentioned indices are a permutation of the index range), and no entry is empty -/
theorem C07_cover (n m : Nat) (aff : Mat) (assigned : List (Nat × Nat)) (out : List Entry)
    (h : ValidAssignment n m assigned) (hout : selectMatches n m aff assigned = .ok out) :
    (srcs out).Perm (List.range n) ∧ (tgts out).Perm (List.range m) ∧
      ∀ e ∈ out, e.src ≠ none ∨ e.tgt ≠ none := by
  rw [C07_total n m aff assigned h] at hout
  cases hout
  have hk := h.sublist (keptPairs_sublist aff assigned)
  refine ⟨?_, ?_, ?_⟩
  · rw [closedForm, srcs_emit]
    exact perm_append_filter_not_mem _ _ hk.rows_nodup List.nodup_range
      (fun a ha => by
        obtain ⟨p, hp, rfl⟩ := List.mem_map.1 ha
        exact List.mem_range.2 (hk.rows_lt p hp))
  · rw [closedForm, tgts_emit]
    exact perm_append_filter_not_mem _ _ hk.cols_nodup List.nodup_range
      (fun a ha => by
        obtain ⟨p, hp, rfl⟩ := List.mem_map.1 ha
        exact List.mem_range.2 (hk.cols_lt p hp))
  · intro e he
    simp only [closedForm, emit, List.mem_append, List.mem_map] at he
    rcases he with (⟨p, _, rfl⟩ | ⟨i, _, rfl⟩) | ⟨j, _, rfl⟩ <;> simp [pairEntry, srcOnly, tgtOnly]

/-- the same in counting form: each index below the length occurs exactly once and
    nothing else occurs -/
theorem C07_cover_count (n m : Nat) (aff : Mat) (assigned : List (Nat × Nat)) (out : List Entry)
    (h : ValidAssignment n m assigned) (hout : selectMatches n m aff assigned = .ok out) :
    (∀ i, (srcs out).count i = if i < n then 1 else 0) ∧
    (∀ j, (tgts out).count j = if j < m then 1 else 0) := by
  obtain ⟨hs, ht, _⟩ := C07_cover n m aff assigned out h hout
  constructor
  · intro i
    rw [hs.count_eq, List.nodup_range.count]; simp
  · intro j
    rw [ht.count_eq, List.nodup_range.count]; simp

/-- a source is paired with a target only if their affinity is positive, and the pair is one
    the solver assigned -/
theorem C07_positive_pairs (n m : Nat) (aff : Mat) (assigned : List (Nat × Nat)) (out : List Entry)
    (h : ValidAssignment n m assigned) (hout : selectMatches n m aff assigned = .ok out) :
    ∀ e ∈ out, ∀ i j, e.src = some i → e.tgt = some j → 0 < aff i j ∧ (i, j) ∈ assigned := by
  rw [C07_total n m aff assigned h] at hout
  cases hout
  intro e he i j hi hj
  simp only [closedForm, emit, List.mem_append, List.mem_map] at he
  rcases he with (⟨p, hp, rfl⟩ | ⟨i', _, rfl⟩) | ⟨j', _, rfl⟩
  · simp only [pairEntry, Option.some.injEq] at hi hj
    subst hi hj
    exact ⟨keptPairs_pos aff assigned p hp, (keptPairs_sublist aff assigned).subset hp⟩
  · simp [srcOnly] at hj
  · simp [tgtOnly] at hi

/-- conversely every pair the solver assigned with positive affinity is reported -/
theorem C07_positive_assigned_reported (n m : Nat) (aff : Mat) (assigned : List (Nat × Nat))
    (out : List Entry) (h : ValidAssignment n m assigned)
    (hout : selectMatches n m aff assigned = .ok out) :
    ∀ p ∈ assigned, 0 < aff p.1 p.2 → ⟨some p.1, some p.2, aff p.1 p.2⟩ ∈ out := by
  rw [C07_total n m aff assigned h] at hout
  cases hout
  intro p hp hpos
  simp only [closedForm, emit, List.mem_append, List.mem_map]
  refine Or.inl (Or.inl ⟨p, ?_, rfl⟩)
  simp [keptPairs, List.mem_filter, hp, hpos]

/-- the reported affinity of a pair is exactly its matrix entry -/
theorem C07_reported_affinity (n m : Nat) (aff : Mat) (assigned : List (Nat × Nat)) (out : List Entry)
    (h : ValidAssignment n m assigned) (hout : selectMatches n m aff assigned = .ok out) :
    ∀ e ∈ out, ∀ i j, e.src = some i → e.tgt = some j → e.aff = aff i j := by
  rw [C07_total n m aff assigned h] at hout
  cases hout
  intro e he i j hi hj
  simp only [closedForm, emit, List.mem_append, List.mem_map] at he
  rcases he with (⟨p, hp, rfl⟩ | ⟨i', _, rfl⟩) | ⟨j', _, rfl⟩
  · simp only [pairEntry, Option.some.injEq] at hi hj
    subst hi hj
    rfl
  · simp [srcOnly] at hj
  · simp [tgtOnly] at hi

/-- unpaired entries report 0 -/
theorem C07_unpaired_zero (n m : Nat) (aff : Mat) (assigned : List (Nat × Nat)) (out : List Entry)
    (h : ValidAssignment n m assigned) (hout : selectMatches n m aff assigned = .ok out) :
    ∀ e ∈ out, (e.src = none ∨ e.tgt = none) → e.aff = 0 := by
  rw [C07_total n m aff assigned h] at hout
  cases hout
  intro e he hn
  simp only [closedForm, emit, List.mem_append, List.mem_map] at he
  rcases he with (⟨p, hp, rfl⟩ | ⟨i', _, rfl⟩) | ⟨j', _, rfl⟩
  · simp [pairEntry] at hn
  · rfl
  · rfl

/-- the brute-force optimum bounds the value of every one-to-one pairing -/
theorem bestValue_upper (n m : Nat) (aff : Mat) (M : List (Nat × Nat)) (hM : PartialInjection n m M) :
    value aff M ≤ bestValue n m aff :=
  best_upper aff m n [] M hM.matching

/-- and it is the value of one of them: `bestValue` *is* the maximum -/
theorem bestValue_attained (n m : Nat) (aff : Mat) :
    ∃ M, PartialInjection n m M ∧ value aff M = bestValue n m aff := by
  obtain ⟨M, hM, hv⟩ := best_attained aff m n []
  exact ⟨M, hM.partialInjection, hv⟩

/-- the executable optimality test means what it says: no one-to-one pairing has a total
    affinity exceeding the sum of the reported affinities by more than `tol` -/
theorem C07_optimal (tol : Rat) (n m : Nat) (aff : Mat) (out : List Entry)
    (h : optimalWithin tol n m aff out = true) :
    ∀ M, PartialInjection n m M → value aff M ≤ total out + tol := by
  intro M hM
  have h1 := bestValue_upper n m aff M hM
  simp only [optimalWithin, decide_eq_true_eq] at h
  exact Rat.le_trans h1 h

/-- … and the test is complete: it fails only if some pairing beats the output by more than `tol` -/
theorem C07_optimal_complete (tol : Rat) (n m : Nat) (aff : Mat) (out : List Entry)
    (h : ∀ M, PartialInjection n m M → value aff M ≤ total out + tol) :
    optimalWithin tol n m aff out = true := by
  obtain ⟨M, hM, hv⟩ := bestValue_attained n m aff
  simp only [optimalWithin, decide_eq_true_eq, ← hv]
  exact h M hM

/-- the sum of the reported affinities is the value of the pairs that were kept, which is a
    one-to-one pairing: it never exceeds the optimum … -/
theorem C07_total_le_best (n m : Nat) (aff : Mat) (assigned : List (Nat × Nat)) (out : List Entry)
    (h : ValidAssignment n m assigned) (hout : selectMatches n m aff assigned = .ok out) :
    total out ≤ bestValue n m aff := by
  rw [C07_total n m aff assigned h] at hout
  cases hout
  rw [closedForm, total_emit]
  exact bestValue_upper n m aff _ (h.sublist (keptPairs_sublist aff assigned))

/-- … and reaches it (within `tol`) whenever the solver's answer does: skipping the
    non-positive pairs loses nothing.  (`tol = 0`: the sum of reported affinities is the
    maximum achievable by any one-to-one pairing.) -/
theorem C07_optimal_of_solver (tol : Rat) (n m : Nat) (aff : Mat) (assigned : List (Nat × Nat))
    (out : List Entry) (h : ValidAssignment n m assigned)
    (hopt : ∀ M, PartialInjection n m M → value aff M ≤ value aff assigned + tol)
    (hout : selectMatches n m aff assigned = .ok out) :
    ∀ M, PartialInjection n m M → value aff M ≤ total out + tol := by
  rw [C07_total n m aff assigned h] at hout
  cases hout
  intro M hM
  rw [closedForm, total_emit]
  have h1 := hopt M hM
  have h2 := value_le_keptPairs aff assigned
  grind

/-- both lists empty: no matches; one list empty: every geometry of the other is one-sided -/
theorem C07_empty (n m : Nat) (aff : Mat) (assigned : List (Nat × Nat)) (out : List Entry)
    (h : ValidAssignment n m assigned) (hout : selectMatches n m aff assigned = .ok out)
    (hnm : n = 0 ∨ m = 0) :
    out = (List.range n).map srcOnly ++ (List.range m).map tgtOnly ∧
    (n = 0 → m = 0 → out = []) := by
  have ha : assigned = [] := by
    cases assigned with
    | nil => rfl
    | cons p ps =>
      have h1 := h.rows_lt p (by simp)
      have h2 := h.cols_lt p (by simp)
      omega
  subst ha
  have ht : ∀ l : List Nat, l.filter (fun _ => true) = l := fun l => List.filter_eq_self.2 (by simp)
  simp only [selectMatches, assignLoop, emit, List.map_nil, List.nil_append, Except.ok.injEq] at hout
  subst hout
  refine ⟨rfl, ?_⟩
  intro h0 h1; subst h0 h1; rfl

/-- geometries without any overlap (all affinities zero) are all reported one-sided,
    whatever the solver assigned -/
theorem C07_no_overlap_all_unpaired (n m : Nat) (aff : Mat) (assigned : List (Nat × Nat))
    (out : List Entry) (h : ValidAssignment n m assigned)
    (hout : selectMatches n m aff assigned = .ok out) (hz : ∀ i j, i < n → j < m → aff i j ≤ 0) :
    out = (List.range n).map srcOnly ++ (List.range m).map tgtOnly := by
  rw [C07_total n m aff assigned h] at hout
  cases hout
  have hk : keptPairs aff assigned = [] := by
    simp only [keptPairs, List.filter_eq_nil_iff, decide_eq_true_eq]
    intro p hp
    exact Rat.not_lt.2 (hz p.1 p.2 (h.rows_lt p hp) (h.cols_lt p hp))
  have ht : ∀ l : List Nat, l.filter (fun _ => true) = l := fun l => List.filter_eq_self.2 (by simp)
  simp [closedForm, hk, emit, ht]

/-! ### the property as one predicate, and its executable form `holds` -/

/-- the statement of C07 about an output `out` for the matrix `aff` (optimality up to `tol`) -/
structure Spec (tol : Rat) (n m : Nat) (aff : Mat) (out : List Entry) : Prop where
  cover_src : (srcs out).Perm (List.range n)
  cover_tgt : (tgts out).Perm (List.range m)
  nonempty : ∀ e ∈ out, e.src ≠ none ∨ e.tgt ≠ none
  positive : ∀ e ∈ out, ∀ i j, e.src = some i → e.tgt = some j → 0 < aff i j
  reported : ∀ e ∈ out, ∀ i j, e.src = some i → e.tgt = some j → e.aff = aff i j
  unpaired : ∀ e ∈ out, (e.src = none ∨ e.tgt = none) → e.aff = 0
  optimal : ∀ M, PartialInjection n m M → value aff M ≤ total out + tol

/-- `holds` (what the check evaluates on the real output of `match_geometries`) is exactly
    the property -/
theorem C07_holds_iff (tol : Rat) (n m : Nat) (aff : Mat) (out : List Entry) :
    holds tol n m aff out = true ↔ Spec tol n m aff out := by
  simp only [holds, Verdict.all, judge, Bool.and_eq_true, List.isPerm_iff, List.all_eq_true]
  constructor
  · rintro ⟨⟨⟨hs, ht⟩, he⟩, ho⟩
    refine ⟨hs, ht, ?_, ?_, ?_, ?_, C07_optimal tol n m aff out ho⟩
    · intro e hin
      have := he e hin
      unfold entryOk at this
      rcases hs' : e.src with _ | i <;> rcases ht' : e.tgt with _ | j <;> simp_all
    · intro e hin i j hi hj
      have := he e hin
      simp only [entryOk, hi, hj, Bool.and_eq_true, decide_eq_true_eq] at this
      exact this.1
    · intro e hin i j hi hj
      have := he e hin
      simp only [entryOk, hi, hj, Bool.and_eq_true, decide_eq_true_eq] at this
      exact this.2
    · intro e hin hn
      have := he e hin
      unfold entryOk at this
      rcases hs' : e.src with _ | i <;> rcases ht' : e.tgt with _ | j <;> simp_all
  · intro h
    refine ⟨⟨⟨h.cover_src, h.cover_tgt⟩, ?_⟩, C07_optimal_complete tol n m aff out h.optimal⟩
    intro e hin
    unfold entryOk
    rcases hs' : e.src with _ | i <;> rcases ht' : e.tgt with _ | j
    · have := h.nonempty e hin; simp_all
    · simp [h.unpaired e hin (Or.inl hs')]
    · simp [h.unpaired e hin (Or.inr ht')]
    · simp [h.positive e hin i j hs' ht', h.reported e hin i j hs' ht']

/-- the modelled `match_geometries` satisfies the property whenever the solver honours its
    contract (a valid assignment that is optimal within `tol`) -/
theorem C07_model_holds (tol : Rat) (n m : Nat) (aff : Mat) (assigned : List (Nat × Nat))
    (out : List Entry) (h : ValidAssignment n m assigned)
    (hopt : ∀ M, PartialInjection n m M → value aff M ≤ value aff assigned + tol)
    (hout : selectMatches n m aff assigned = .ok out) :
    holds tol n m aff out = true := by
  rw [C07_holds_iff]
  obtain ⟨hs, ht, hne⟩ := C07_cover n m aff assigned out h hout
  exact ⟨hs, ht, hne,
    fun e he i j hi hj => (C07_positive_pairs n m aff assigned out h hout e he i j hi hj).1,
    C07_reported_affinity n m aff assigned out h hout,
    C07_unpaired_zero n m aff assigned out h hout,
    C07_optimal_of_solver tol n m aff assigned out h hopt hout⟩

/-! ### non-vacuity and the repaired defect on concrete matrices -/

/-- two boxes four seconds apart (affinity 0): the solver pairs them, the (repaired) code
    reports two one-sided matches -/
example : (selectMatches 1 1 (matOfRows [[0]]) [(0, 0)]).toOption = some [srcOnly 0, tgtOnly 0] := by decide +kernel
example : validAssignment 1 1 [(0, 0)] = true := by decide +kernel
/-- the pinned code's answer `[(0, 0, 0.0)]` violates the property (pair with affinity 0) -/
example : (judge 0 1 1 (matOfRows [[0]]) [⟨some 0, some 0, 0⟩]).entries = false := by decide +kernel
example : holds 0 1 1 (matOfRows [[0]]) [srcOnly 0, tgtOnly 0] = true := by decide +kernel
/-- a 2 × 3 matrix with a tie and a zero column -/
example : (selectMatches 2 3 (matOfRows [[1/2, 1/2, 0], [1/2, 0, 0]]) [(0, 1), (1, 0)]).toOption
    = some [⟨some 0, some 1, 1/2⟩, ⟨some 1, some 0, 1/2⟩, tgtOnly 2] := by decide +kernel
example : bestValue 2 3 (matOfRows [[1/2, 1/2, 0], [1/2, 0, 0]]) = 1 := by decide +kernel
/-- a sub-optimal (greedy) answer is rejected by `optimalWithin` -/
example : optimalWithin 0 2 2 (matOfRows [[1, 3/4], [3/4, 0]])
    [⟨some 0, some 0, 1⟩, srcOnly 1, tgtOnly 1] = false := by decide +kernel
example : optimalWithin 0 2 2 (matOfRows [[1, 3/4], [3/4, 0]])
    [⟨some 0, some 1, 3/4⟩, ⟨some 1, some 0, 3/4⟩] = true := by decide +kernel
/-- an invalid solver answer (row used twice) makes the loop raise, as `rows.remove` would -/
example : (match selectMatches 2 2 (matOfRows [[1, 1], [1, 1]]) [(0, 0), (0, 1)] with
    | .error .key => true | _ => false) = true := by decide +kernel

/-! ### review additions -/

/-- weak duality: non-negative potentials with `aff i j ≤ u i + v j` bound every one-to-one
    pairing (any size; no search) -/
theorem C07_weak_duality (n m : Nat) (aff : Mat) (u v : Nat → Rat) (M : List (Nat × Nat))
    (hf : dualFeasible n m aff u v = true) (hM : PartialInjection n m M) :
    value aff M ≤ dualBound n m u v :=
  weak_duality n m aff u v M hf hM

/-- a certificate pins the optimum: the witness is a one-to-one pairing, nothing beats it, and
    its value *is* the brute-force optimum -/
theorem C07_cert_best (n m : Nat) (aff : Mat) (u v : Nat → Rat) (w : List (Nat × Nat))
    (h : certOk n m aff u v w = true) :
    PartialInjection n m w ∧ (∀ M, PartialInjection n m M → value aff M ≤ value aff w) ∧
      bestValue n m aff = value aff w := by
  simp only [certOk, Bool.and_eq_true, decide_eq_true_eq] at h
  obtain ⟨⟨hf, hw⟩, hv⟩ := h
  have hw' := (validAssignment_iff n m w).1 hw
  have hall : ∀ M, PartialInjection n m M → value aff M ≤ value aff w := by
    intro M hM; rw [hv]; exact weak_duality n m aff u v M hf hM
  refine ⟨hw', hall, ?_⟩
  obtain ⟨M, hM, hMv⟩ := bestValue_attained n m aff
  have h1 := hall M hM
  have h2 := bestValue_upper n m aff w hw'
  grind

/-- the certificate test is the brute-force test (whenever the certificate is accepted) -/
theorem C07_optimal_cert_iff (tol : Rat) (n m : Nat) (aff : Mat) (u v : Nat → Rat)
    (w : List (Nat × Nat)) (out : List Entry) (h : certOk n m aff u v w = true) :
    optimalByCert tol n m aff u v w out = optimalWithin tol n m aff out := by
  obtain ⟨_, _, hb⟩ := C07_cert_best n m aff u v w h
  simp only [optimalByCert, optimalWithin, h, Bool.true_and, hb]

/-- … hence it means optimality -/
theorem C07_optimal_by_cert (tol : Rat) (n m : Nat) (aff : Mat) (u v : Nat → Rat)
    (w : List (Nat × Nat)) (out : List Entry) (h : optimalByCert tol n m aff u v w out = true) :
    ∀ M, PartialInjection n m M → value aff M ≤ total out + tol := by
  have hc : certOk n m aff u v w = true := by
    simp only [optimalByCert, Bool.and_eq_true] at h; exact h.1
  rw [C07_optimal_cert_iff tol n m aff u v w out hc] at h
  exact C07_optimal tol n m aff out h

/-- `holds` = the shape clauses and the optimality test; with an accepted certificate the
    factorial brute force can be replaced by the certificate test -/
theorem C07_holds_by_cert (tol : Rat) (n m : Nat) (aff : Mat) (u v : Nat → Rat)
    (w : List (Nat × Nat)) (out : List Entry) (h : certOk n m aff u v w = true) :
    (holdsShape n m aff out && optimalByCert tol n m aff u v w out) = holds tol n m aff out := by
  rw [C07_optimal_cert_iff tol n m aff u v w out h]
  simp [holds, holdsShape, judge, Verdict.all]

/-- for *every* valid assignment (optimal or not) the modelled code satisfies all clauses of
    the property other than optimality -/
theorem C07_shape_any_valid (n m : Nat) (aff : Mat) (assigned : List (Nat × Nat)) (out : List Entry)
    (h : ValidAssignment n m assigned) (hout : selectMatches n m aff assigned = .ok out) :
    holdsShape n m aff out = true := by
  obtain ⟨hs, ht, _⟩ := C07_cover n m aff assigned out h hout
  simp only [holdsShape, Bool.and_eq_true, List.isPerm_iff, List.all_eq_true]
  refine ⟨⟨hs, ht⟩, ?_⟩
  intro e he
  have hp := C07_positive_pairs n m aff assigned out h hout e he
  have hr := C07_reported_affinity n m aff assigned out h hout e he
  have hu := C07_unpaired_zero n m aff assigned out h hout e he
  have hn := (C07_cover n m aff assigned out h hout).2.2 e he
  unfold entryOk
  rcases hs' : e.src with _ | i <;> rcases ht' : e.tgt with _ | j
  · simp_all
  · simp [hu (Or.inl hs')]
  · simp [hu (Or.inr ht')]
  · simp [(hp i j hs' ht').1, hr i j hs' ht']

/-- number of yielded triples: `n + m` minus the number of two-sided matches (each geometry is
    mentioned once; a two-sided match mentions two) -/
theorem C07_length (n m : Nat) (aff : Mat) (assigned : List (Nat × Nat)) (out : List Entry)
    (h : ValidAssignment n m assigned) (hout : selectMatches n m aff assigned = .ok out) :
    out.length + (out.filter (fun e => e.src.isSome && e.tgt.isSome)).length = n + m := by
  obtain ⟨hs, ht, hne⟩ := C07_cover n m aff assigned out h hout
  have h1 : (srcs out).length = n := by rw [hs.length_eq]; simp
  have h2 : (tgts out).length = m := by rw [ht.length_eq]; simp
  have key : ∀ l : List Entry, (∀ e ∈ l, e.src ≠ none ∨ e.tgt ≠ none) →
      l.length + (l.filter (fun e => e.src.isSome && e.tgt.isSome)).length = (srcs l).length + (tgts l).length := by
    intro l
    induction l with
    | nil => intro _; simp [srcs, tgts]
    | cons e es ih =>
      intro hl
      have ih' := ih (fun x hx => hl x (List.mem_cons_of_mem _ hx))
      have he := hl e (by simp)
      simp only [srcs, tgts] at ih' ⊢
      rcases hs' : e.src with _ | i <;> rcases ht' : e.tgt with _ | j <;>
        simp_all <;> omega
  rw [key out hne, h1, h2]

/-- the canonical order used when outputs are compared is a permutation: nothing is lost -/
theorem C07_sortEntries_perm (out : List Entry) : (sortEntries out).Perm out := by
  have hins : ∀ (e : Entry) (l : List Entry), (insertEntry e l).Perm (e :: l) := by
    intro e l
    induction l with
    | nil => simp [insertEntry]
    | cons x xs ih =>
      simp only [insertEntry]
      split
      · exact List.Perm.refl _
      · exact ((List.Perm.cons x ih).trans (List.Perm.swap e x xs))
  induction out with
  | nil => simp [sortEntries]
  | cons x xs ih => exact (hins x _).trans (List.Perm.cons x ih)

/-! #### the matrix is the table of affinities of the geometries -/

/-- `cost_matrix[i, j]` after the fill loop is `compute_affinity(source[i], target[j])` -/
theorem C07_matrix_is_affinity {G : Type} (affinity : G → G → Rat) (src tgt : List G) (i j : Nat)
    (hi : i < src.length) (hj : j < tgt.length) :
    matOfRows (fillMatrix affinity src tgt) i j = affinity src[i] tgt[j] :=
  fillMatrix_read affinity src tgt i j hi hj

/-- total affinity of a pairing of geometries -/
def geomValue {G : Type} (affinity : G → G → Rat) (src tgt : List G) (M : List (Nat × Nat)) : Rat :=
  (M.map fun p => match src[p.1]?, tgt[p.2]? with
    | some a, some b => affinity a b
    | _, _ => 0).sum

/-- the property on the geometries themselves: with `compute_affinity` any function and the
    solver honouring its contract on the matrix it is given, `match_geometries` covers every
    source and target index once, pairs `i` with `j` only if `affinity source[i] target[j] > 0`,
    reports exactly that number, reports 0 for one-sided matches, and the sum of the reported
    affinities is within `tol` of the best total over all one-to-one pairings of the geometries -/
theorem C07_geometries {G : Type} (affinity : G → G → Rat) (solver : Nat → Nat → Mat → List (Nat × Nat))
    (src tgt : List G) (out : List Entry) (tol : Rat)
    (hvalid : ValidAssignment src.length tgt.length
      (solver src.length tgt.length (matOfRows (fillMatrix affinity src tgt))))
    (hopt : ∀ M, PartialInjection src.length tgt.length M →
      value (matOfRows (fillMatrix affinity src tgt)) M ≤
        value (matOfRows (fillMatrix affinity src tgt))
          (solver src.length tgt.length (matOfRows (fillMatrix affinity src tgt))) + tol)
    (hout : matchGeometries affinity solver src tgt = .ok out) :
    (srcs out).Perm (List.range src.length) ∧ (tgts out).Perm (List.range tgt.length) ∧
    (∀ e ∈ out, ∀ i j, e.src = some i → e.tgt = some j →
      ∃ (hi : i < src.length) (hj : j < tgt.length),
        0 < affinity src[i] tgt[j] ∧ e.aff = affinity src[i] tgt[j]) ∧
    (∀ e ∈ out, (e.src = none ∨ e.tgt = none) → e.aff = 0) ∧
    (∀ M, PartialInjection src.length tgt.length M → geomValue affinity src tgt M ≤ total out + tol) := by
  unfold matchGeometries at hout
  simp only at hout
  obtain ⟨hs, ht, _⟩ := C07_cover _ _ _ _ out hvalid hout
  refine ⟨hs, ht, ?_, C07_unpaired_zero _ _ _ _ out hvalid hout, ?_⟩
  · intro e he i j hi hj
    obtain ⟨hpos, hmem⟩ := C07_positive_pairs _ _ _ _ out hvalid hout e he i j hi hj
    have hr := C07_reported_affinity _ _ _ _ out hvalid hout e he i j hi hj
    have hi' := hvalid.rows_lt _ hmem
    have hj' := hvalid.cols_lt _ hmem
    rw [fillMatrix_read affinity src tgt i j hi' hj'] at hpos hr
    exact ⟨hi', hj', hpos, hr⟩
  · intro M hM
    have h1 := C07_optimal_of_solver tol _ _ _ _ out hvalid hopt hout M hM
    have h2 : geomValue affinity src tgt M = value (matOfRows (fillMatrix affinity src tgt)) M := by
      unfold geomValue value
      congr 1
      apply List.map_congr_left
      intro p hp
      have hi' := hM.rows_lt p hp
      have hj' := hM.cols_lt p hp
      rw [fillMatrix_read affinity src tgt p.1 p.2 hi' hj']
      simp [List.getElem?_eq_getElem hi', List.getElem?_eq_getElem hj']
    rw [h2]; exact h1

/-- non-vacuity: two intervals-as-numbers, affinity = 1 if equal else 0, identity solver -/
example : (matchGeometries (fun (a b : Nat) => if a = b then (1 : Rat) else 0)
    (fun _ _ _ => [(0, 0), (1, 1)]) [3, 5] [3, 7]).toOption
    = some [⟨some 0, some 0, 1⟩, srcOnly 1, tgtOnly 1] := by decide +kernel
example : fillMatrix (fun (a b : Nat) => (a : Rat) * 10 + b) [1, 2] [3, 4, 5] =
    [[13, 14, 15], [23, 24, 25]] := by decide +kernel
/-- certificates for `[[1, 3/4], [3/4, 0]]` (optimum 3/2 by the anti-diagonal): potentials whose sum is not
    the witness's value are rejected, tight ones are accepted; the greedy output `(0,0)` alone is then refused -/
example : certOk 2 2 (matOfRows [[1, 3/4], [3/4, 0]]) (vecOf [3/4, 0]) (vecOf [3/4, 3/4]) [(0, 1), (1, 0)]
    = false := by decide +kernel
example : certOk 2 2 (matOfRows [[1, 3/4], [3/4, 0]]) (vecOf [3/4, 1/2]) (vecOf [1/4, 0]) [(0, 1), (1, 0)]
    = true := by decide +kernel
example : optimalByCert 0 2 2 (matOfRows [[1, 3/4], [3/4, 0]]) (vecOf [3/4, 1/2]) (vecOf [1/4, 0])
    [(0, 1), (1, 0)] [⟨some 0, some 0, 1⟩, srcOnly 1, tgtOnly 1] = false := by decide +kernel
example : sortEntries [tgtOnly 1, srcOnly 0, ⟨some 1, some 0, 1/2⟩] =
    [tgtOnly 1, srcOnly 0, ⟨some 1, some 0, 1/2⟩] := by decide +kernel

/-! ## follow-up: histories and construction paths (`SoundeventModel/MatchCall.lean`) -/

open SE.MatchCall in
/-- Positional and keyword passing are the same call: positional arguments bind to the positional parameters
    in signature order, so a call `f(*pos, **kw)` binds exactly like the all-keyword call that names them
    (for every signature; `pos` not longer than the positional parameters, no name given twice). -/
theorem C07_bind_positional_eq_keyword {V : Type} (sig : List (Param V)) (pos : List V) (kw : List (String × V))
    (hlen : pos.length ≤ (positionalNames sig).length)
    (hfresh : ∀ e ∈ kw, ((positionalNames sig).zip pos).lookup e.1 = none) :
    bindArgs sig pos kw = bindArgs sig [] ((positionalNames sig).zip pos ++ kw) := by
  unfold bindArgs
  simp only
  have h1 : ¬ (positionalNames sig).length < pos.length := Nat.not_lt.2 hlen
  have h2 : ¬ (positionalNames sig).length < ([] : List V).length := by simp
  rw [if_neg h1, if_neg h2]
  have hA : kw.find? (fun e => (((positionalNames sig).zip pos).lookup e.1).isSome) = none := by
    rw [List.find?_eq_none]
    intro e he
    simp [hfresh e he]
  have hB : ((positionalNames sig).zip pos ++ kw).find?
      (fun e => ((((positionalNames sig).zip ([] : List V))).lookup e.1).isSome) = none := by
    rw [List.find?_eq_none]
    intro e _
    simp
  rw [hA, hB]
  have hC : ((positionalNames sig).zip pos ++ kw).find? (fun e => !(sig.map (·.name)).contains e.1)
      = kw.find? (fun e => !(sig.map (·.name)).contains e.1) := by
    rw [List.find?_append]
    have : ((positionalNames sig).zip pos).find? (fun e => !(sig.map (·.name)).contains e.1) = none := by
      rw [List.find?_eq_none]
      intro e he
      have hmem : e.1 ∈ positionalNames sig := by
        have := List.of_mem_zip (a := e.1) (b := e.2) (by simpa using he)
        exact this.1
      have := positionalNames_sub sig e.1 hmem
      simpa using this
    rw [this]; simp
  rw [hC]
  cases kw.find? (fun e => !(sig.map (·.name)).contains e.1) with
  | some e => rfl
  | none =>
    simp only
    congr 1
    funext p
    have : (positionalNames sig).zip ([] : List V) = [] := by simp
    rw [this, resolve_append]

open SE.MatchCall in
/-- `match_geometries` called positionally in the documented order `(source, target, time_buffer, freq_buffer)`,
    by keywords in any other order, half positionally, or with the buffers omitted (defaults 0.01 s, 100 Hz) is
    the same call -/
theorem C07_match_call_styles (s t : List Geom) (tb fb : Rat) :
    callOf [.geoms s, .geoms t, .num tb, .num fb] [] = .ok (some ⟨s, t, tb, fb⟩) ∧
    callOf [] [("freq_buffer", .num fb), ("target", .geoms t), ("time_buffer", .num tb), ("source", .geoms s)]
      = .ok (some ⟨s, t, tb, fb⟩) ∧
    callOf [.geoms s, .geoms t, .num tb] [("freq_buffer", .num fb)] = .ok (some ⟨s, t, tb, fb⟩) ∧
    callOf [.geoms s, .geoms t] [("freq_buffer", .num fb), ("time_buffer", .num tb)] = .ok (some ⟨s, t, tb, fb⟩) ∧
    callOf [.geoms s, .geoms t] [] = .ok (some ⟨s, t, 1 / 100, 100⟩) ∧
    callOf [.geoms s, .geoms t] [("time_buffer", .num tb)] = .ok (some ⟨s, t, tb, 100⟩) ∧
    callOf [.geoms s, .geoms t] [("freq_buffer", .num fb)] = .ok (some ⟨s, t, 1 / 100, fb⟩) ∧
    callOf [.geoms s, .geoms t, .num tb, .num fb] [("time_buffer", .num tb)] = .error (.multipleValues "time_buffer") ∧
    callOf [.geoms s, .geoms t, .num tb, .num fb, .num fb] [] = .error .tooManyPositional ∧
    callOf [.geoms s] [] = .error (.missing "target") := by
  refine ⟨?_, ?_, ?_, ?_, ?_, ?_, ?_, ?_, ?_, ?_⟩ <;>
    simp [callOf, bindArgs, matchSig, positionalNames, resolve, callOfBound, List.lookup, List.find?, List.mapM_cons,
      List.mapM_nil, pure, Except.pure, Except.bind, Bind.bind]

open SE.MatchCall in
/-- The property for a whole call, stated on the coordinates: for non-negative buffers and a solver that honours
    its contract, `match_geometries` on geometries with a closed-form affinity never raises, covers every source
    and target index once, pairs `i` with `j` only if the closed-form affinity of `source[i]`, `target[j]` *for the
    buffers of this call* is positive, reports exactly that number, reports 0 for one-sided matches, and is optimal
    within `tol`. -/
theorem C07_call_spec (solver : Nat → Nat → Mat → List (Nat × Nat)) (c : Call) (tol : Rat)
    (htb : 0 ≤ c.tb) (hfb : 0 ≤ c.fb)
    (hvalid : ValidAssignment c.src.length c.tgt.length
      (solver c.src.length c.tgt.length (matOfRows (fillMatrix (affinityOf c.tb c.fb) c.src c.tgt))))
    (hopt : ∀ M, PartialInjection c.src.length c.tgt.length M →
      value (matOfRows (fillMatrix (affinityOf c.tb c.fb) c.src c.tgt)) M ≤
        value (matOfRows (fillMatrix (affinityOf c.tb c.fb) c.src c.tgt))
          (solver c.src.length c.tgt.length (matOfRows (fillMatrix (affinityOf c.tb c.fb) c.src c.tgt))) + tol) :
    ∃ out, matchCall solver c = .ok out ∧
      (srcs out).Perm (List.range c.src.length) ∧ (tgts out).Perm (List.range c.tgt.length) ∧
      (∀ e ∈ out, ∀ i j, e.src = some i → e.tgt = some j →
        ∃ (hi : i < c.src.length) (hj : j < c.tgt.length) (a : Rat),
          closedAffinity c.tb c.fb c.src[i] c.tgt[j] = .ok a ∧ 0 < a ∧ e.aff = a) ∧
      (∀ e ∈ out, (e.src = none ∨ e.tgt = none) → e.aff = 0) ∧
      (∀ M, PartialInjection c.src.length c.tgt.length M →
        geomValue (affinityOf c.tb c.fb) c.src c.tgt M ≤ total out + tol) := by
  have hne := callError_none c htb hfb
  have hsel := C07_total _ _ (matOfRows (fillMatrix (affinityOf c.tb c.fb) c.src c.tgt)) _ hvalid
  have hmg : matchGeometries (affinityOf c.tb c.fb) solver c.src c.tgt =
      .ok (closedForm c.src.length c.tgt.length (matOfRows (fillMatrix (affinityOf c.tb c.fb) c.src c.tgt))
        (solver c.src.length c.tgt.length (matOfRows (fillMatrix (affinityOf c.tb c.fb) c.src c.tgt)))) := by
    unfold matchGeometries; exact hsel
  refine ⟨_, by unfold matchCall; rw [hne, hmg], ?_⟩
  obtain ⟨h1, h2, h3, h4, h5⟩ := C07_geometries (affinityOf c.tb c.fb) solver c.src c.tgt _ tol hvalid hopt hmg
  refine ⟨h1, h2, ?_, h4, h5⟩
  intro e he i j hi hj
  obtain ⟨hi', hj', hpos, hrep⟩ := h3 e he i j hi hj
  obtain ⟨a, ha⟩ := closedAffinity_ok c.tb c.fb c.src[i] c.tgt[j] htb hfb
  have : affinityOf c.tb c.fb c.src[i] c.tgt[j] = a := by unfold affinityOf; rw [ha]
  exact ⟨hi', hj', a, ha, this ▸ hpos, this ▸ hrep⟩

open SE.MatchCall in
/-- history semantics: whatever was called before and whatever is called afterwards, the answer to a call is the
    answer to that call alone -/
theorem C07_history_step (solver : Nat → Nat → Mat → List (Nat × Nat)) (pre post : List Call) (c : Call) :
    (runHistory solver (pre ++ c :: post))[pre.length]? = some (matchCall solver c) := by
  simp [runHistory]

open SE.MatchCall in
/-- an implementation that memoises an intermediate result agrees with the pure function on every history, from
    an empty table, if the key determines the result (a cache keyed by the full input) -/
theorem C07_memo_full_key_sound {X K Y : Type} [DecidableEq K] (key : X → K) (f : X → Y)
    (hkey : ∀ x x', key x = key x' → f x = f x') (xs : List X) :
    memoRun key f [] xs = xs.map f :=
  memoRun_sound key f hkey xs [] (by simp)

open SE.MatchCall in
/-- … and only then: if two inputs share a key but not the result, the history "first one, then the other"
    is answered wrongly (a cache keyed by part of the input) -/
theorem C07_memo_partial_key_unsound {X K Y : Type} [DecidableEq K] (key : X → K) (f : X → Y)
    (x x' : X) (hk : key x = key x') (hf : f x ≠ f x') :
    memoRun key f [] [x, x'] ≠ [x, x'].map f := by
  simp [memoRun, hk]
  exact hf

open SE.MatchCall in
/-- the instance seeded change C07-7 builds: the buffered extent of a time stamp memoised under the time stamp
    alone answers `(1 s, buffer 1/2 s)` after `(1 s, buffer 1/100 s)` with the stale 10 ms extent -/
theorem C07_stale_buffer_history :
    memoRun (fun x : Rat × Rat => x.1) stampExtent [] [(1, 1 / 100), (1, 1 / 2)]
      ≠ [(1, 1 / 100), (1, 1 / 2)].map stampExtent :=
  C07_memo_partial_key_unsound _ _ _ _ rfl (by decide +kernel)

open SE.MatchCall in
/-- Judging against an independent matrix with a tolerance: if the output satisfies `holds` for a matrix `b`
    that agrees with `a` within `τ` on the `n × m` block, every one-to-one pairing `M` is worth at most
    `total out + tol + |M| τ` under `a`. -/
theorem C07_optimal_perturb (τ tol : Rat) (n m : Nat) (a b : Mat) (out : List Entry)
    (hclose : closeWithin τ n m a b = true) (hholds : holds tol n m b out = true) :
    ∀ M, PartialInjection n m M → value a M ≤ total out + tol + (M.length : Rat) * τ := by
  intro M hM
  have hspec := (C07_holds_iff tol n m b out).1 hholds
  have h1 := hspec.optimal M hM
  have hc : ∀ i j, i < n → j < m → a i j - b i j ≤ τ := by
    intro i j hi hj
    simp only [closeWithin, List.all_eq_true, List.mem_range, Bool.and_eq_true, decide_eq_true_eq] at hclose
    exact (hclose i hi j hj).1
  have h2 := value_perturb τ n m a b hc M (fun p hp => ⟨hM.rows_lt p hp, hM.cols_lt p hp⟩)
  grind

open SE.MatchCall in
/-- What the check's judgement against the *independent* affinity matrix `a` means (`holdsInd`, tolerance `τ` per
    entry because the code computes in binary64): cover, every reported pair has a positive reported affinity
    within `τ` of the independent affinity of that pair, one-sided matches report 0, and every one-to-one pairing
    is worth at most `total out + tol + |M| τ` under `a`. -/
theorem C07_holds_ind (τ tol : Rat) (hτ : 0 ≤ τ) (n m : Nat) (a : Mat) (out : List Entry)
    (h : holdsInd τ tol n m a out = true) :
    (srcs out).Perm (List.range n) ∧ (tgts out).Perm (List.range m) ∧
    (∀ e ∈ out, ∀ i j, e.src = some i → e.tgt = some j →
      0 < e.aff ∧ a i j - e.aff ≤ τ ∧ e.aff - a i j ≤ τ) ∧
    (∀ e ∈ out, (e.src = none ∨ e.tgt = none) → e.aff = 0) ∧
    (∀ M, PartialInjection n m M → value a M ≤ total out + tol + (M.length : Rat) * τ) := by
  have hspec := (C07_holds_iff tol n m (snap τ a out) out).1 h
  refine ⟨hspec.cover_src, hspec.cover_tgt, ?_, hspec.unpaired, ?_⟩
  · intro e he i j hi hj
    have hp := hspec.positive e he i j hi hj
    have hr := hspec.reported e he i j hi hj
    have hw := snap_within τ hτ a out i j
    rw [hr]
    exact ⟨hp, hw.1, hw.2⟩
  · exact C07_optimal_perturb τ tol n m a (snap τ a out) out (snap_close τ hτ n m a out) h

open SE.MatchCall in
/-- for matrices beyond the brute force the optimum of the snapped matrix is certified: same verdict -/
theorem C07_holds_ind_cert (τ tol : Rat) (n m : Nat) (a : Mat) (u v : Nat → Rat) (w : List (Nat × Nat))
    (out : List Entry) (hc : certOk n m (snap τ a out) u v w = true) :
    holdsIndCert τ tol n m a u v w out = holdsInd τ tol n m a out :=
  C07_holds_by_cert tol n m (snap τ a out) u v w out hc

/-- non-vacuity, and the scenario of seeded change C07-7 in the pure model: time stamps 1 s, 4 s against
    1.3 s, 4.2 s are all unmatched with the 10 ms default buffer and matched with affinities 7/13 and 2/3 with a
    buffer of 1/2 s -/
example : (SE.MatchCall.matchCall (fun _ _ _ => [(0, 0), (1, 1)])
    ⟨[.timeStamp 1, .timeStamp 4], [.timeStamp (13 / 10), .timeStamp (21 / 5)], 1 / 100, 100⟩).toOption
    = some [srcOnly 0, srcOnly 1, tgtOnly 0, tgtOnly 1] := by decide +kernel
example : (SE.MatchCall.matchCall (fun _ _ _ => [(0, 0), (1, 1)])
    ⟨[.timeStamp 1, .timeStamp 4], [.timeStamp (13 / 10), .timeStamp (21 / 5)], 1 / 2, 100⟩).toOption
    = some [⟨some 0, some 0, 7 / 13⟩, ⟨some 1, some 1, 2 / 3⟩] := by decide +kernel
/-- a negative buffer reaching a time stamp raises; boxes alone never consult the buffers -/
example : (match SE.MatchCall.matchCall (fun _ _ _ => [(0, 0)]) ⟨[.timeStamp 1], [.timeStamp 1], -1, 100⟩ with
    | .error (.affinity .invalid) => true | _ => false) = true := by decide +kernel
example : (SE.MatchCall.matchCall (fun _ _ _ => [(0, 0)])
    ⟨[.boundingBox 0 0 1 1], [.boundingBox 0 0 1 2], -1, 100⟩).toOption
    = some [⟨some 0, some 0, 1 / 2⟩] := by decide +kernel
/-- a reported 0.6000000001 against the independent 3/5 passes with `τ = 2^-20`, fails with `τ = 0`; a stale
    affinity (0 reported pairs where 3/5 was available) fails either way -/
example : SE.MatchCall.holdsInd (1 / 1048576) (1 / 1048576) 1 1 (matOfRows [[3 / 5]])
    [⟨some 0, some 0, 6000000001 / 10000000000⟩] = true := by decide +kernel
example : SE.MatchCall.holdsInd 0 0 1 1 (matOfRows [[3 / 5]])
    [⟨some 0, some 0, 6000000001 / 10000000000⟩] = false := by decide +kernel
example : SE.MatchCall.holdsInd (1 / 1048576) (1 / 1048576) 1 1 (matOfRows [[3 / 5]])
    [srcOnly 0, tgtOnly 0] = false := by decide +kernel
example : SE.MatchCall.compatible (SE.MatchCall.matchSig ++ [⟨"solver", .keywordOnly, some (.num 0)⟩])
    SE.MatchCall.matchSig = true := by decide +kernel
example : SE.MatchCall.compatible
    [⟨"source", .positional, none⟩, ⟨"target", .positional, none⟩,
     ⟨"freq_buffer", .positional, some (.num 100)⟩, ⟨"time_buffer", .positional, some (.num (1 / 100))⟩]
    SE.MatchCall.matchSig = false := by decide +kernel

end SE.Proofs.C07
