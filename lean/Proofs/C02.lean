/-
  C02 — a saved AOEF document is closed under reference, its identifiers are unique, parents come
  first in the sequence list, and it defines exactly the reachable objects.
-/
import Proofs.Lemmas.AoefC02Keys
import Proofs.Lemmas.AoefC02Reach
import Proofs.Lemmas.AoefC02Closed
import Proofs.C02Adapter
import SoundeventModel.Aoef.RefTable
namespace SE.Proofs.C02
open SE SE.Paths SE.Aoef

/-! ### the example collection of the non-vacuity checks

An annotation project with
  * a task whose status badge is owned by a user reachable only there,
  * a project tag reachable only there,
  * a clip annotation with a sequence annotation whose sequence has a parent. -/

def exRec : Recording :=
  { uuid := "r1", path := ⟨"/", ["a", "x.wav"]⟩, duration := "1.0", channels := "1", samplerate := "8000",
    tags := [⟨"site", "A"⟩], owners := [{ uuid := "u-owner" }] }
def exClip : Clip := { uuid := "c1", recording := exRec, start_time := "0", end_time := "1" }
def exSe1 : SoundEvent := { uuid := "se1", recording := exRec }
def exSe2 : SoundEvent := { uuid := "se2", recording := exRec, geometry := some "g" }
def exParent : SeqNode := { uuid := "sq-parent", sound_events := [exSe1] }
def exSeq : Sequence := ⟨{ uuid := "sq-child", sound_events := [exSe2] }, [exParent]⟩
def exSqa : SequenceAnnotation :=
  { uuid := "sqa1", sequence := exSeq, tags := [⟨"species", "x"⟩], created_on := "t" }
def exCa : ClipAnnotation :=
  { uuid := "ca1", clip := exClip, sequences := [exSqa], tags := [⟨"site", "A"⟩], created_on := "t" }
def exTask : AnnotationTask :=
  { uuid := "t1", clip := exClip, created_on := "t",
    status_badges := [{ state := "completed", owner := some { uuid := "u-badge" }, created_on := "t" }] }
def ex : Collection :=
  .annotationProject
    { uuid := "ap", clip_annotations := [exCa], created_on := "t", name := "n",
      annotation_tags := [⟨"project", "only"⟩], tasks := [exTask] }

theorem ex_wfB : wfB ex = true := by decide +kernel
theorem ex_wf : WF ex := WF_of_wfB ex_wfB
/-- the saved document of the example -/
def exDoc : Doc := match save ex none with | .ok d => d | .error _ => default
theorem ex_saved : save ex none = .ok exDoc := by decide +kernel

/-- a hand-written document with a dangling tag reference: `closed` is not trivially true -/
def exDangling : Doc :=
  { collection_type := "annotation_set", uuid := "as",
    tags := some [⟨0, "site", "A"⟩],
    recordings := some [{ uuid := "r1", path := ⟨"", ["x.wav"]⟩, duration := "1", channels := "1",
                          samplerate := "8000", tags := some [0, 7] }] }
example : closed exDangling = false := by decide +kernel
example : unique exDangling = true := by decide +kernel
example : closed exDoc = true ∧ unique exDoc = true ∧ parentFirst exDoc = true := by decide +kernel
/-- the badge owner, the project tag and the parent sequence are all defined in the example -/
example : "u-badge" ∈ defs exDoc .user ∧ "project\u0000only" ∈ tagDefKeys exDoc
    ∧ defs exDoc .sequence = ["sq-parent", "sq-child"] := by decide +kernel

/-! ### the traversal is exactly the set of reachable objects -/

theorem C02_trav_iff_reachable (c : Collection) (o : Obj) : o ∈ c.trav ↔ Reachable c o :=
  ⟨mem_trav_reachable c o, reachable_mem_trav c o⟩

/-- the objects defined are exactly the distinct reachable objects: nothing reachable is missing,
    nothing unreachable is written (no well-formedness hypothesis is needed) -/
theorem C02_exact (c : Collection) (dir : Option PPath) (d : Doc) (h : save c dir = .ok d) :
    ∀ k, ∀ key, key ∈ (if k = .tag then tagDefKeys d else defs d k) ↔ key ∈ reachKeys c.trav k := by
  obtain ⟨rs, hrs, spec⟩ := save_spec h
  intro k key
  by_cases hk : k = .tag
  · subst hk
    rw [if_pos rfl]
    unfold tagDefKeys
    rw [spec.tags, encTags_contents (tagTable c.trav) (fun k v => s!"{k}\u0000{v}")]
    simp only [reachKeys, List.mem_map, mem_tagTable, mem_tagsOf]
  · rw [if_neg hk, defs_eq_srcKeys hrs spec k]
    exact srcKeys_mem hk

example : ∃ d, save ex none = .ok d := ⟨_, ex_saved⟩

/-- in terms of objects: a key is defined iff it is the key of a reachable object of that kind -/
theorem C02_exact_reachable (c : Collection) (dir : Option PPath) (d : Doc) (h : save c dir = .ok d)
    (u : Atom) : u ∈ defs d .user ↔ ∃ x : User, Reachable c (.user x) ∧ x.uuid = u := by
  have := C02_exact c dir d h .user u
  rw [if_neg (by decide)] at this
  rw [this]
  simp only [reachKeys, List.mem_map, mem_usersOf, C02_trav_iff_reachable]

/-! ### the sequence list: parents first -/

theorem C02_parent_first (c : Collection) (dir : Option PPath) (d : Doc) (h : save c dir = .ok d) :
    parentFirst d = true := by
  obtain ⟨rs, _, spec⟩ := save_spec h
  unfold parentFirst
  rw [spec.seqs]
  exact parentFirstAux_trav c

example : ∃ d, save ex none = .ok d := ⟨_, ex_saved⟩

/-! ### the tag table -/

theorem C02_tag_ids_dense (c : Collection) (dir : Option PPath) (d : Doc) (h : save c dir = .ok d) :
    (lst d.tags).map (·.id) = List.range (lst d.tags).length := by
  obtain ⟨rs, _, spec⟩ := save_spec h
  rw [spec.tags, encTags_ids, encTags_length]

/-- ids are allocated per distinct (label, value): two tag objects of a saved document with the same
    key and value are the same entry -/
theorem C02_tag_ids_by_content (c : Collection) (dir : Option PPath) (d : Doc) (h : save c dir = .ok d) :
    ∀ t1 ∈ lst d.tags, ∀ t2 ∈ lst d.tags, t1.key = t2.key → t1.value = t2.value → t1 = t2 := by
  obtain ⟨rs, _, spec⟩ := save_spec h
  rw [spec.tags]
  intro t1 h1 t2 h2 hk hv
  exact encTags_by_content (tagTable_nodup _) h1 h2 hk hv

example : (lst exDoc.tags).map (fun t => (t.id, t.key, t.value))
    = [(0, "site", "A"), (1, "project", "only"), (2, "species", "x")] := by decide +kernel

/-! ### identifiers are unique -/

theorem C02_unique (c : Collection) (dir : Option PPath) (d : Doc) (hwf : WF c) (h : save c dir = .ok d) :
    unique d = true := by
  obtain ⟨rs, hrs, spec⟩ := save_spec h
  unfold unique
  rw [List.all_eq_true]
  intro k _
  unfold uniqueAt
  rw [nodupB_iff, defs_eq_srcKeys hrs spec k]
  exact srcKeys_nodup hwf k

example : WF ex ∧ ∃ d, save ex none = .ok d := ⟨ex_wf, _, ex_saved⟩

/-! ### closed under reference -/

/-- every identifier mentioned anywhere in a saved document is defined in the list of its kind
    (no well-formedness hypothesis is needed) -/
theorem C02_closed_any (c : Collection) (dir : Option PPath) (d : Doc) (h : save c dir = .ok d) :
    closed d = true := by
  obtain ⟨rs, S⟩ := saved_of_save h
  exact S.doc_closed

theorem C02_closed (c : Collection) (dir : Option PPath) (d : Doc) (_hwf : WF c) (h : save c dir = .ok d) :
    closed d = true := C02_closed_any c dir d h

example : WF ex ∧ ∃ d, save ex none = .ok d := ⟨ex_wf, _, ex_saved⟩


/-! ### the reference table: `refs` is every declared reference field, and only those

`refs d k` is what `closed` quantifies over.  `refRows` (SoundeventModel/Aoef/RefTable.lean) lists
the reference-carrying fields of the schema one by one; its (owner, path, id type) triples are
re-extracted from the type annotations of the declared fields of the `…Object` classes on every
run and compared by a regenerated obligation.  Here: `refs` is exactly the union of the rows. -/

theorem C02_refs_are_the_rows (d : Doc) (k : Kind) (x : String) : x ∈ refs d k ↔ x ∈ rowRefs d k := by
  cases k <;>
    simp [refs, rowRefs, rowsOf, refRows, noteRefs, List.mem_append, and_or_left, exists_or, or_assoc]

theorem mem_rowRefs {d : Doc} {k : Kind} {x : String} :
    x ∈ rowRefs d k ↔ ∃ r ∈ refRows, r.kind = k ∧ x ∈ r.get d := by
  unfold rowRefs rowsOf
  simp only [List.mem_flatMap, List.mem_filter, beq_iff_eq]
  constructor
  · rintro ⟨r, ⟨hr, hk⟩, hx⟩; exact ⟨r, hr, hk, hx⟩
  · rintro ⟨r, hr, hk, hx⟩; exact ⟨r, ⟨hr, hk⟩, hx⟩

theorem kind_mem_all (k : Kind) : k ∈ Kind.all := by cases k <;> decide

/-- `closed`, row by row: a document is closed under reference iff every identifier found by any
    row of the reference table is defined in the top-level list of the row's kind -/
theorem C02_closed_iff_rows (d : Doc) :
    closed d = true ↔ ∀ r ∈ refRows, ∀ x ∈ r.get d, x ∈ defs d r.kind := by
  unfold closed closedAt
  simp only [List.all_eq_true, List.contains_iff_mem]
  constructor
  · intro h r hr x hx
    exact h r.kind (kind_mem_all _) x ((C02_refs_are_the_rows d r.kind x).2 (mem_rowRefs.2 ⟨r, hr, rfl, hx⟩))
  · intro h k _ x hx
    obtain ⟨r, hr, hk, hxr⟩ := mem_rowRefs.1 ((C02_refs_are_the_rows d k x).1 hx)
    subst hk
    exact h r hr x hxr

/-- the property, field by field: in a saved document every identifier held by any reference field
    of the schema is defined in the top-level list of the kind the field points to -/
theorem C02_rows_defined (c : Collection) (dir : Option PPath) (d : Doc) (h : save c dir = .ok d) :
    ∀ r ∈ refRows, ∀ x ∈ r.get d, x ∈ defs d r.kind :=
  (C02_closed_iff_rows d).1 (C02_closed_any c dir d h)

example : rowsWellTyped = true := by decide
example : refRows.length = 37 := by decide

theorem within_of_withinB {d : Doc} {keys : List String} (h : d.withinB keys = true) : d.within keys := by
  unfold Doc.withinB at h
  simp only [Bool.and_eq_true, List.all_eq_true, Bool.or_eq_true, List.contains_iff_mem, List.isEmpty_iff] at h
  refine ⟨fun r hr hk => ?_, fun k hk => ?_⟩
  · rcases h.1 r hr with h1 | h1
    · exact absurd h1 hk
    · exact h1
  · rcases h.2 k (kind_mem_all k) with h1 | h1
    · exact absurd h1 hk
    · exact h1

/-- **generic schema theorem** (instantiated on the key list extracted from every collection
    schema on every run): if a schema is closed — it declares, for every reference field it can
    hold, the definition list of that field's kind — then in any document that populates only
    declared fields every reference that occurs lives under a declared key and points into a
    declared definition list -/
theorem C02_schema_closed (keys : List String) (hk : schemaClosed keys = true) (d : Doc) (hd : d.within keys) :
    ∀ r ∈ refRows, r.get d ≠ [] → r.owner ∈ keys ∧ r.kind.name ∈ keys := by
  intro r hr hne
  have ho : r.owner ∈ keys := by
    by_contra hn
    exact hne (hd.1 r hr hn)
  refine ⟨ho, ?_⟩
  unfold schemaClosed at hk
  simp only [List.all_eq_true, Bool.or_eq_true, Bool.not_eq_true', List.contains_iff_mem] at hk
  rcases hk r hr with h | h
  · simp [ho] at h
  · exact h

example : schemaClosed (Doc.keys "annotation_project") = true ∧ schemaClosed (Doc.keys "recording_set") = true
    ∧ schemaClosed (Doc.keys "evaluation") = true := by decide +kernel
example : exDoc.withinB (Doc.keys "annotation_project") = true := by decide +kernel
/-- a schema that can hold clips but declares no recording list is not closed -/
example : schemaClosed ["uuid", "clips", "clip_annotations", "tags", "users", "sound_event_annotations",
                        "sequence_annotations"] = false := by decide +kernel

/-! ### exactness, in terms of objects, for every kind -/

def Obj.key : Obj → String
  | .user x => x.uuid | .tag t => s!"{t.key}\u0000{t.value}" | .recording x => x.uuid | .clip x => x.uuid
  | .soundEvent x => x.uuid | .sequence x => x.uuid | .seAnn x => x.uuid | .seqAnn x => x.uuid
  | .clipAnn x => x.uuid | .sePred x => x.uuid | .seqPred x => x.uuid | .clipPred x => x.uuid
  | .task x => x.uuid | .mtch x => x.uuid | .clipEval x => x.uuid

theorem mem_reachKeys {os : List Obj} {k : Kind} {key : String} :
    key ∈ reachKeys os k ↔ ∃ o ∈ os, o.kind = k ∧ Obj.key o = key := by
  cases k <;>
  · simp only [reachKeys, List.mem_map, mem_usersOf, mem_tagsOf, mem_recsOf, mem_clipsOf, mem_sesOf, mem_seqsOf,
      mem_seasOf, mem_sqasOf, mem_casOf, mem_sepsOf, mem_sqpsOf, mem_cpsOf, mem_tasksOf, mem_matchesOf, mem_cesOf]
    constructor
    · rintro ⟨x, hx, rfl⟩
      exact ⟨_, hx, rfl, rfl⟩
    · rintro ⟨o, ho, hk, rfl⟩
      cases o <;> simp only [Obj.kind, reduceCtorEq] at hk
      exact ⟨_, ho, rfl⟩

/-- the objects defined are exactly the reachable ones, for every kind: an identifier (a tag: its
    content) is defined iff it is the identifier of an object of that kind reachable from the
    collection along direct references -/
theorem C02_exact_objects (c : Collection) (dir : Option PPath) (d : Doc) (h : save c dir = .ok d)
    (k : Kind) (key : String) :
    key ∈ (if k = .tag then tagDefKeys d else defs d k) ↔ ∃ o, Reachable c o ∧ o.kind = k ∧ Obj.key o = key := by
  rw [C02_exact c dir d h k key, mem_reachKeys]
  constructor
  · rintro ⟨o, ho, hk, hkey⟩; exact ⟨o, (C02_trav_iff_reachable c o).1 ho, hk, hkey⟩
  · rintro ⟨o, ho, hk, hkey⟩; exact ⟨o, (C02_trav_iff_reachable c o).2 ho, hk, hkey⟩

/-- a tag content is defined once: no two entries of the tag list have the same (key, value) -/
theorem C02_tag_contents_nodup (c : Collection) (dir : Option PPath) (d : Doc) (h : save c dir = .ok d) :
    ((lst d.tags).map (fun t => (t.key, t.value))).Nodup := by
  obtain ⟨rs, _, spec⟩ := save_spec h
  rw [spec.tags]
  have : (encTags (tagTable c.trav)).map (fun t => (t.key, t.value))
      = (tagTable c.trav).map (fun t => (t.key, t.value)) := by
    unfold encTags
    rw [List.map_map]
    have : ((fun o : TagObj => (o.key, o.value)) ∘ fun x : Tag × Nat => (⟨x.2, x.1.key, x.1.value⟩ : TagObj))
        = (fun t : Tag => (t.key, t.value)) ∘ Prod.fst := rfl
    rw [this, ← List.map_map, List.zipIdx_map_fst]
  rw [this]
  refine List.Pairwise.map _ ?_ (tagTable_nodup _)
  intro a b hab heq
  apply hab
  cases a; cases b
  simp only [Prod.mk.injEq] at heq
  obtain ⟨h1, h2⟩ := heq
  subst h1; subst h2; rfl

example : (lst exDoc.tags).map (fun t => (t.key, t.value)) = [("site", "A"), ("project", "only"), ("species", "x")] := by
  decide +kernel

/-! ### follow-up (wave 6): tag contents as *pairs*

`C02_exact` states the tag case through the text `label ++ NUL ++ value`, which is not injective in
(label, value) (a label may itself contain NUL).  The statements below use the pair itself, so two distinct
tags whose joined texts coincide under *any* separator are two entries. -/

theorem encTags_pairs (tids : List Tag) :
    (encTags tids).map (fun t => (t.key, t.value)) = tids.map (fun t => (t.key, t.value)) := by
  unfold encTags
  rw [List.map_map]
  have : ((fun o : TagObj => (o.key, o.value)) ∘ fun x : Tag × Nat => (⟨x.2, x.1.key, x.1.value⟩ : TagObj))
      = (fun t : Tag => (t.key, t.value)) ∘ Prod.fst := rfl
  rw [this, ← List.map_map, List.zipIdx_map_fst]

/-- a (label, value) pair is an entry of the written tag list iff it is the content of a tag of the traversal -/
theorem C02_tag_pairs_exact (c : Collection) (dir : Option PPath) (d : Doc) (h : save c dir = .ok d)
    (kv : String × String) :
    kv ∈ (lst d.tags).map (fun t => (t.key, t.value)) ↔ kv ∈ (tagsOf c.trav).map (fun t => (t.key, t.value)) := by
  obtain ⟨rs, _, spec⟩ := save_spec h
  rw [spec.tags, encTags_pairs]
  simp only [List.mem_map, mem_tagTable, mem_tagsOf]

/-- … iff a tag with exactly that label and that value is reachable from the collection -/
theorem C02_tag_pairs_reachable (c : Collection) (dir : Option PPath) (d : Doc) (h : save c dir = .ok d)
    (k v : String) :
    (k, v) ∈ (lst d.tags).map (fun t => (t.key, t.value)) ↔ ∃ t : Tag, Reachable c (.tag t) ∧ t.key = k ∧ t.value = v := by
  rw [C02_tag_pairs_exact c dir d h]
  simp only [List.mem_map, mem_tagsOf, C02_trav_iff_reachable, Prod.mk.injEq]

/-- two distinct tags whose `label:value` texts coincide: both are written, with different ids -/
def exCollide : Collection :=
  .recordingSet { uuid := "rs", created_on := "2024-01-01T00:00:00", recordings := [
    { uuid := "r1", path := ⟨"", ["a.wav"]⟩, duration := "1", channels := "1", samplerate := "8000",
      tags := [{ key := "time", value := "dawn:early" }] },
    { uuid := "r2", path := ⟨"", ["b.wav"]⟩, duration := "1", channels := "1", samplerate := "8000",
      tags := [{ key := "time:dawn", value := "early" }] }] }
example : ∃ d, save exCollide none = .ok d
    ∧ (lst d.tags).map (fun t => (t.id, t.key, t.value)) = [(0, "time", "dawn:early"), (1, "time:dawn", "early")] := by
  refine ⟨_, rfl, ?_⟩
  decide +kernel


/-! ### a saved document populates only what its schema declares -/

set_option linter.unusedSimpArgs false
macro "within_simp" "[" ls:Lean.Parser.Tactic.simpLemma,* "]" : tactic =>
  `(tactic| simp [Doc.withinB, refRows, Kind.all, Doc.keys, baseKeysRS, baseKeysAS, baseKeysPS, Collection.typeName,
      noteRefs, defs, Kind.name, caSrc, cpSrc, taskSrc, projTags, evalTags, dedupBy, tagRefs, $ls,*])

set_option maxRecDepth 2000 in
theorem C02_save_within (c : Collection) (dir : Option PPath) (d : Doc) (h : save c dir = .ok d) :
    d.withinB (Doc.keys c.typeName) = true := by
  obtain ⟨rs, _, spec⟩ := save_spec h
  have hk := trav_kinds c
  cases c with
  | recordingSet x =>
    within_simp [spec.clips, spec.ses, spec.seqs, spec.seas, spec.sqas, spec.cas, spec.seps,
      spec.sqps, spec.cps, spec.ces, spec.ms, spec.tasks, spec.ptags, spec.etags,
      clipsOf_nil hk rfl, sesOf_nil hk rfl, seqsOf_nil hk rfl, seasOf_nil hk rfl, sqasOf_nil hk rfl,
      casOf_nil hk rfl, sepsOf_nil hk rfl, sqpsOf_nil hk rfl, cpsOf_nil hk rfl, tasksOf_nil hk rfl,
      matchesOf_nil hk rfl, cesOf_nil hk rfl]
  | dataset x =>
    within_simp [spec.clips, spec.ses, spec.seqs, spec.seas, spec.sqas, spec.cas, spec.seps,
      spec.sqps, spec.cps, spec.ces, spec.ms, spec.tasks, spec.ptags, spec.etags,
      clipsOf_nil hk rfl, sesOf_nil hk rfl, seqsOf_nil hk rfl, seasOf_nil hk rfl, sqasOf_nil hk rfl,
      casOf_nil hk rfl, sepsOf_nil hk rfl, sqpsOf_nil hk rfl, cpsOf_nil hk rfl, tasksOf_nil hk rfl,
      matchesOf_nil hk rfl, cesOf_nil hk rfl]
  | annotationSet x =>
    within_simp [spec.seps, spec.sqps, spec.cps, spec.ces, spec.ms, spec.tasks, spec.ptags, spec.etags,
      sepsOf_nil hk rfl, sqpsOf_nil hk rfl, cpsOf_nil hk rfl, tasksOf_nil hk rfl,
      matchesOf_nil hk rfl, cesOf_nil hk rfl]
  | annotationProject x =>
    within_simp [spec.seps, spec.sqps, spec.cps, spec.ces, spec.ms, spec.etags,
      sepsOf_nil hk rfl, sqpsOf_nil hk rfl, cpsOf_nil hk rfl, matchesOf_nil hk rfl, cesOf_nil hk rfl]
  | evaluationSet x =>
    within_simp [spec.seps, spec.sqps, spec.cps, spec.ces, spec.ms, spec.tasks, spec.ptags,
      sepsOf_nil hk rfl, sqpsOf_nil hk rfl, cpsOf_nil hk rfl, tasksOf_nil hk rfl,
      matchesOf_nil hk rfl, cesOf_nil hk rfl]
  | predictionSet x =>
    within_simp [spec.seas, spec.sqas, spec.cas, spec.ces, spec.ms, spec.tasks, spec.ptags, spec.etags,
      seasOf_nil hk rfl, sqasOf_nil hk rfl, casOf_nil hk rfl, tasksOf_nil hk rfl,
      matchesOf_nil hk rfl, cesOf_nil hk rfl]
  | modelRun x =>
    within_simp [spec.seas, spec.sqas, spec.cas, spec.ces, spec.ms, spec.tasks, spec.ptags, spec.etags,
      seasOf_nil hk rfl, sqasOf_nil hk rfl, casOf_nil hk rfl, tasksOf_nil hk rfl,
      matchesOf_nil hk rfl, cesOf_nil hk rfl]
  | evaluation x =>
    within_simp [spec.tasks, spec.ptags, spec.etags, tasksOf_nil hk rfl]

example : exDoc.withinB (Doc.keys ex.typeName) = true := C02_save_within ex none exDoc ex_saved

/-- the model's eight schemas are closed (the regenerated obligation states the same of the key
    lists extracted from the code) -/
theorem C02_model_schemas_closed (c : Collection) : schemaClosed (Doc.keys c.typeName) = true := by
  cases c <;> simp only [Collection.typeName] <;> decide +kernel

/-- in a saved document every reference lives under a key the collection's schema declares and
    points into a definition list that schema declares -/
theorem C02_save_refs_declared (c : Collection) (dir : Option PPath) (d : Doc) (h : save c dir = .ok d) :
    ∀ r ∈ refRows, r.get d ≠ [] → r.owner ∈ Doc.keys c.typeName ∧ r.kind.name ∈ Doc.keys c.typeName :=
  C02_schema_closed _ (C02_model_schemas_closed c) d (within_of_withinB (C02_save_within c dir d h))

example : ∃ d, save ex none = .ok d := ⟨_, ex_saved⟩

/-! ### an object referenced from several places is defined exactly once

`unique` says no identifier is listed twice, `C02_exact` that the listed identifiers are the reachable
ones.  Together, in terms of the traversal (in which an object occurs once *per path* leading to it):
however often the key of an object occurs among the reachable objects of its kind, the definition list
of that kind holds it exactly once. -/

theorem C02_defined_exactly_once (c : Collection) (dir : Option PPath) (d : Doc) (hwf : WF c)
    (h : save c dir = .ok d) (k : Kind) (hk : k ≠ .tag) (key : String)
    (hkey : key ∈ reachKeys c.trav k) : (defs d k).count key = 1 := by
  have hu := C02_unique c dir d hwf h
  unfold unique at hu
  rw [List.all_eq_true] at hu
  have hnd : (defs d k).Nodup := (nodupB_iff _).1 (hu k (by cases k <;> decide))
  have hmem : key ∈ defs d k := by
    have := (C02_exact c dir d h k key).2 hkey
    rwa [if_neg hk] at this
  have h1 := List.nodup_iff_count.1 hnd key
  have h2 := List.count_pos_iff.2 hmem
  omega

/-- non-vacuity: an evaluation whose two clip evaluations share one ClipAnnotation object (two detector
    settings scored against one ground truth) and whose two clip predictions share one sound event
    prediction; the clip, its recording and the annotated sound event hang under both as well -/
def exShRec : Recording := { uuid := "r", path := ⟨"/", ["x.wav"]⟩, duration := "1", channels := "1", samplerate := "8000" }
def exShClip : Clip := { uuid := "c", recording := exShRec, start_time := "0", end_time := "1" }
def exShSea : SoundEventAnnotation :=
  { uuid := "sea", sound_event := { uuid := "se", recording := exShRec }, created_on := "t", tags := [⟨"species", "x"⟩] }
def exShCa : ClipAnnotation := { uuid := "ca", clip := exShClip, sound_events := [exShSea], created_on := "t" }
def exShSep : SoundEventPrediction :=
  { uuid := "sep", sound_event := { uuid := "se2", recording := exShRec }, score := "0.5", tags := [⟨⟨"species", "x"⟩, "0.5"⟩] }
def exShCe (u p m : Atom) : ClipEvaluation :=
  { uuid := u, annotations := exShCa, predictions := { uuid := p, clip := exShClip, sound_events := [exShSep] },
    «matches» := [{ uuid := m, source := some exShSep, target := some exShSea, affinity := "1" }] }
def exShared : Collection :=
  .evaluation { uuid := "ev", created_on := "t", evaluation_task := "d",
                clip_evaluations := [exShCe "ce1" "p1" "m1", exShCe "ce2" "p2" "m2"] }
theorem exShared_wf : WF exShared := WF_of_wfB (by decide +kernel)
/-- the shared objects occur several times in the traversal … -/
example : (reachKeys exShared.trav .clipAnn).count "ca" = 2 ∧ (reachKeys exShared.trav .sePred).count "sep" = 4
    ∧ (reachKeys exShared.trav .clip).count "c" = 4 := by decide +kernel
/-- … and once in the document -/
def exSharedDoc : Doc := match save exShared none with | .ok d => d | .error _ => default
theorem exShared_saved : save exShared none = .ok exSharedDoc := by decide +kernel
example : defs exSharedDoc .clipAnn = ["ca"] ∧ defs exSharedDoc .clipPred = ["p1", "p2"]
    ∧ defs exSharedDoc .sePred = ["sep"] ∧ defs exSharedDoc .seAnn = ["sea"] ∧ defs exSharedDoc .clip = ["c"]
    ∧ defs exSharedDoc .recording = ["r"] ∧ tagDefKeys exSharedDoc = ["species\u0000x"] := by decide +kernel
example : (defs exSharedDoc .clipAnn).count "ca" = 1 :=
  C02_defined_exactly_once exShared none exSharedDoc exShared_wf exShared_saved .clipAnn (by decide) "ca"
    (by decide +kernel)
/-- a hand-written document that defines the shared clip annotation once per clip evaluation (what a writer
    that lists the annotations "in collection order" produces) is closed but not unique -/
def exTwice : Doc :=
  { collection_type := "evaluation", uuid := "ev",
    recordings := some [{ uuid := "r", path := ⟨"", ["x.wav"]⟩, duration := "1", channels := "1", samplerate := "8000" }],
    clips := some [{ uuid := "c", recording := "r", start_time := "0", end_time := "1" }],
    clip_annotations := some [{ uuid := "ca", clip := "c", created_on := "t" }, { uuid := "ca", clip := "c", created_on := "t" }] }
example : closed exTwice = true ∧ unique exTwice = false
    ∧ problems exTwice = ["duplicate identifiers in clip_annotations"] := by decide +kernel

end SE.Proofs.C02
