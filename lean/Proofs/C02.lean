/- C02 — property theorems (to be written). -/
import SoundeventModel.Basic
namespace SE.Proofs.C02

end SE.Proofs.C02
