/-
  C02 — a saved AOEF document is closed under reference, its identifiers are unique, parents come
  first in the sequence list, and it defines exactly the reachable objects.
-/
import Proofs.Lemmas.AoefC02Keys
import Proofs.Lemmas.AoefC02Reach
import Proofs.Lemmas.AoefC02Closed
import Proofs.C02Adapter
namespace SE.Proofs.C02
open SE SE.Paths SE.Aoef

/-! ### the example collection of the non-vacuity checks

An annotation project with
  * a task whose status badge is owned by a user reachable only there,
  * a project tag reachable only there,
  * a clip annotation with a sequence annotation whose sequence has a parent. -/

def exRec : Recording :=
  { uuid := "r1", path := ⟨"/", ["a", "x.wav"]⟩, duration := "1.0", channels := "1", samplerate := "8000",
    tags := [⟨"site", "A"⟩], owners := [{ uuid := "u-owner" }] }
def exClip : Clip := { uuid := "c1", recording := exRec, start_time := "0", end_time := "1" }
def exSe1 : SoundEvent := { uuid := "se1", recording := exRec }
def exSe2 : SoundEvent := { uuid := "se2", recording := exRec, geometry := some "g" }
def exParent : SeqNode := { uuid := "sq-parent", sound_events := [exSe1] }
def exSeq : Sequence := ⟨{ uuid := "sq-child", sound_events := [exSe2] }, [exParent]⟩
def exSqa : SequenceAnnotation :=
  { uuid := "sqa1", sequence := exSeq, tags := [⟨"species", "x"⟩], created_on := "t" }
def exCa : ClipAnnotation :=
  { uuid := "ca1", clip := exClip, sequences := [exSqa], tags := [⟨"site", "A"⟩], created_on := "t" }
def exTask : AnnotationTask :=
  { uuid := "t1", clip := exClip, created_on := "t",
    status_badges := [{ state := "completed", owner := some { uuid := "u-badge" }, created_on := "t" }] }
def ex : Collection :=
  .annotationProject
    { uuid := "ap", clip_annotations := [exCa], created_on := "t", name := "n",
      annotation_tags := [⟨"project", "only"⟩], tasks := [exTask] }

theorem ex_wfB : wfB ex = true := by decide +kernel
theorem ex_wf : WF ex := WF_of_wfB ex_wfB
/-- the saved document of the example -/
def exDoc : Doc := match save ex none with | .ok d => d | .error _ => default
theorem ex_saved : save ex none = .ok exDoc := by decide +kernel

/-- a hand-written document with a dangling tag reference: `closed` is not trivially true -/
def exDangling : Doc :=
  { collection_type := "annotation_set", uuid := "as",
    tags := some [⟨0, "site", "A"⟩],
    recordings := some [{ uuid := "r1", path := ⟨"", ["x.wav"]⟩, duration := "1", channels := "1",
                          samplerate := "8000", tags := some [0, 7] }] }
example : closed exDangling = false := by decide +kernel
example : unique exDangling = true := by decide +kernel
example : closed exDoc = true ∧ unique exDoc = true ∧ parentFirst exDoc = true := by decide +kernel
/-- the badge owner, the project tag and the parent sequence are all defined in the example -/
example : "u-badge" ∈ defs exDoc .user ∧ "project\u0000only" ∈ tagDefKeys exDoc
    ∧ defs exDoc .sequence = ["sq-parent", "sq-child"] := by decide +kernel

/-! ### the traversal is exactly the set of reachable objects -/

theorem C02_trav_iff_reachable (c : Collection) (o : Obj) : o ∈ c.trav ↔ Reachable c o :=
  ⟨mem_trav_reachable c o, reachable_mem_trav c o⟩

/-- the objects defined are exactly the distinct reachable objects: nothing reachable is missing,
    nothing unreachable is written (no well-formedness hypothesis is needed) -/
theorem C02_exact (c : Collection) (dir : Option PPath) (d : Doc) (h : save c dir = .ok d) :
    ∀ k, ∀ key, key ∈ (if k = .tag then tagDefKeys d else defs d k) ↔ key ∈ reachKeys c.trav k := by
  obtain ⟨rs, hrs, spec⟩ := save_spec h
  intro k key
  by_cases hk : k = .tag
  · subst hk
    rw [if_pos rfl]
    unfold tagDefKeys
    rw [spec.tags, encTags_contents (tagTable c.trav) (fun k v => s!"{k}\u0000{v}")]
    simp only [reachKeys, List.mem_map, mem_tagTable, mem_tagsOf]
  · rw [if_neg hk, defs_eq_srcKeys hrs spec k]
    exact srcKeys_mem hk

example : ∃ d, save ex none = .ok d := ⟨_, ex_saved⟩

/-- in terms of objects: a key is defined iff it is the key of a reachable object of that kind -/
theorem C02_exact_reachable (c : Collection) (dir : Option PPath) (d : Doc) (h : save c dir = .ok d)
    (u : Atom) : u ∈ defs d .user ↔ ∃ x : User, Reachable c (.user x) ∧ x.uuid = u := by
  have := C02_exact c dir d h .user u
  rw [if_neg (by decide)] at this
  rw [this]
  simp only [reachKeys, List.mem_map, mem_usersOf, C02_trav_iff_reachable]

/-! ### the sequence list: parents first -/

theorem C02_parent_first (c : Collection) (dir : Option PPath) (d : Doc) (h : save c dir = .ok d) :
    parentFirst d = true := by
  obtain ⟨rs, _, spec⟩ := save_spec h
  unfold parentFirst
  rw [spec.seqs]
  exact parentFirstAux_trav c

example : ∃ d, save ex none = .ok d := ⟨_, ex_saved⟩

/-! ### the tag table -/

theorem C02_tag_ids_dense (c : Collection) (dir : Option PPath) (d : Doc) (h : save c dir = .ok d) :
    (lst d.tags).map (·.id) = List.range (lst d.tags).length := by
  obtain ⟨rs, _, spec⟩ := save_spec h
  rw [spec.tags, encTags_ids, encTags_length]

/-- ids are allocated per distinct (label, value): two tag objects of a saved document with the same
    key and value are the same entry -/
theorem C02_tag_ids_by_content (c : Collection) (dir : Option PPath) (d : Doc) (h : save c dir = .ok d) :
    ∀ t1 ∈ lst d.tags, ∀ t2 ∈ lst d.tags, t1.key = t2.key → t1.value = t2.value → t1 = t2 := by
  obtain ⟨rs, _, spec⟩ := save_spec h
  rw [spec.tags]
  intro t1 h1 t2 h2 hk hv
  exact encTags_by_content (tagTable_nodup _) h1 h2 hk hv

example : (lst exDoc.tags).map (fun t => (t.id, t.key, t.value))
    = [(0, "site", "A"), (1, "project", "only"), (2, "species", "x")] := by decide +kernel

/-! ### identifiers are unique -/

theorem C02_unique (c : Collection) (dir : Option PPath) (d : Doc) (hwf : WF c) (h : save c dir = .ok d) :
    unique d = true := by
  obtain ⟨rs, hrs, spec⟩ := save_spec h
  unfold unique
  rw [List.all_eq_true]
  intro k _
  unfold uniqueAt
  rw [nodupB_iff, defs_eq_srcKeys hrs spec k]
  exact srcKeys_nodup hwf k

example : WF ex ∧ ∃ d, save ex none = .ok d := ⟨ex_wf, _, ex_saved⟩

/-! ### closed under reference -/

/-- every identifier mentioned anywhere in a saved document is defined in the list of its kind
    (no well-formedness hypothesis is needed) -/
theorem C02_closed_any (c : Collection) (dir : Option PPath) (d : Doc) (h : save c dir = .ok d) :
    closed d = true := by
  obtain ⟨rs, S⟩ := saved_of_save h
  exact S.doc_closed

theorem C02_closed (c : Collection) (dir : Option PPath) (d : Doc) (_hwf : WF c) (h : save c dir = .ok d) :
    closed d = true := C02_closed_any c dir d h

example : WF ex ∧ ∃ d, save ex none = .ok d := ⟨ex_wf, _, ex_saved⟩

end SE.Proofs.C02
