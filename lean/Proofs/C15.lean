/-
  C15 — Audio-derived arrays are sample-accurate and their axes tell the truth.
  Property theorems only (helper lemmas live in Proofs/Lemmas/Audio.lean).
-/
import SoundeventModel.Audio
import Proofs.Lemmas.Audio
namespace SE.Proofs.C15
open SE SE.Audio

/-! ### load_clip -/

/-- the offset is `⌊start·samplerate⌋` (as a natural number once the start is not negative) -/
theorem C15_offset_is_floor (sr : Nat) (s : Rat) (h0 : 0 ≤ s) :
    (((clipOffset sr s).toNat : Nat) : Rat) ≤ s * sr ∧ s * sr < ((clipOffset sr s).toNat : Rat) + 1 := by
  have hsr : (0 : Rat) ≤ sr := by exact_mod_cast Nat.zero_le sr
  have hnn : 0 ≤ clipOffset sr s := by
    unfold clipOffset; rw [Rat.le_floor_iff]; simpa using mul_nonneg h0 hsr
  have hc : (((clipOffset sr s).toNat : Nat) : Rat) = (clipOffset sr s : Rat) := by
    have : ((clipOffset sr s).toNat : Int) = clipOffset sr s := Int.toNat_of_nonneg hnn
    exact_mod_cast this
  rw [hc]
  refine ⟨Rat.floor_le _, ?_⟩
  have := Rat.lt_floor_add_one (s * sr)
  push_cast at this; exact this

/-- `load_clip` succeeds exactly for a well-formed clip that starts inside the file (or at its
    very end): in particular the coordinate/data length conflict (`shape`) can never occur -/
theorem C15_clip_loads (file : List Frame) (ch sr : Nat) (s e : Rat) :
    (∃ a, loadClip file ch sr s e = .ok a) ↔
      (s ≤ e ∧ 0 < sr ∧ 0 ≤ s ∧ s * sr < (file.length : Rat) + 1) := by
  rw [loadClip_normal]
  by_cases h1 : e < s
  · simp [h1]
  by_cases h2 : sr = 0
  · simp [h1, h2]
  have hsr : (0 : Rat) < sr := by exact_mod_cast Nat.pos_of_ne_zero h2
  have ha : clipOffset sr s < 0 ↔ s < 0 := by
    unfold clipOffset
    rw [Rat.floor_lt_iff]
    constructor
    · intro h; by_contra hs; rw [not_lt] at hs
      have := mul_nonneg hs hsr.le; simp at h; linarith
    · intro h; simpa using mul_neg_of_neg_of_pos h hsr
  have hb : (file.length : Int) < clipOffset sr s ↔ (file.length : Rat) + 1 ≤ s * sr := by
    unfold clipOffset
    rw [show ((file.length : Int) < (s * sr).floor) ↔ ((file.length : Int) + 1 ≤ (s * sr).floor) from Iff.rfl,
      Rat.le_floor_iff]
    push_cast; rfl
  by_cases h3 : clipOffset sr s < 0 ∨ (file.length : Int) < clipOffset sr s
  · simp only [h1, h2, h3, if_true, if_false]
    simp only [reduceCtorEq, exists_false, false_iff, not_and, not_lt]
    intro _ _ h0
    rcases h3 with h3 | h3
    · exact absurd (ha.mp h3) (not_lt.mpr h0)
    · exact hb.mp h3
  · simp only [h1, h2, h3, if_false]
    rw [not_or, not_lt, not_lt] at h3
    refine ⟨fun _ => ⟨not_lt.mp h1, Nat.pos_of_ne_zero h2, ?_, ?_⟩, fun _ => ⟨_, rfl⟩⟩
    · by_contra hs; exact absurd (ha.mpr (lt_of_not_ge hs)) (not_lt.mpr h3.1)
    · by_contra hs; exact absurd (hb.mpr (not_lt.mp hs)) (not_lt.mpr h3.2)


/-- exactly `⌊duration × samplerate⌋` frames, and as many time stamps -/
theorem C15_clip_length (file : List Frame) (ch sr : Nat) (s e : Rat) (a : TimeArray)
    (h : loadClip file ch sr s e = .ok a) :
    a.times.length = a.frames.length ∧
    (a.frames.length : Rat) ≤ (e - s) * sr ∧ (e - s) * sr < (a.frames.length : Rat) + 1 := by
  obtain ⟨hse, _, _, _, rfl⟩ := loadClip_ok file ch sr s e a h
  simp only [lattice_length, readFrames_length, true_and]
  rw [toNat_cast_of_nonneg _ (clipCount_nonneg sr s e hse)]
  refine ⟨Rat.floor_le _, ?_⟩
  have := Rat.lt_floor_add_one ((e - s) * sr)
  push_cast at this; exact this

/-- frame `i` of the clip is frame `off + i` of the file, a zero frame past the end of the file -/
theorem C15_clip_frames (file : List Frame) (ch sr : Nat) (s e : Rat) (a : TimeArray)
    (h : loadClip file ch sr s e = .ok a) (i : Nat) (hi : i < a.frames.length) :
    a.frames[i] = if h' : (clipOffset sr s).toNat + i < file.length
                  then file[(clipOffset sr s).toNat + i] else zeroFrame ch := by
  obtain ⟨_, _, _, _, rfl⟩ := loadClip_ok file ch sr s e a h
  exact readFrames_getElem ..

/-- frame `i` carries time `(off + i)/samplerate`; the axis advertises `1/samplerate` -/
theorem C15_clip_times (file : List Frame) (ch sr : Nat) (s e : Rat) (a : TimeArray)
    (h : loadClip file ch sr s e = .ok a) :
    a.step = 1 / sr ∧
    ∀ i (hi : i < a.times.length), a.times[i] = (((clipOffset sr s).toNat + i : Nat) : Rat) / sr := by
  obtain ⟨_, _, h0, _, rfl⟩ := loadClip_ok file ch sr s e a h
  refine ⟨rfl, fun i hi => ?_⟩
  simp only [lattice_getElem]
  push_cast
  rw [toNat_cast_of_nonneg _ h0]
  ring

/-- the axis starts on the sample boundary at or just before the requested start -/
theorem C15_clip_start_snapped (file : List Frame) (ch sr : Nat) (s e : Rat) (a : TimeArray)
    (h : loadClip file ch sr s e = .ok a) (h0 : 0 < a.times.length) :
    a.times[0] ≤ s ∧ s - (1 : Rat) / (sr : Rat) < a.times[0] := by
  obtain ⟨_, hsr, hnn, _, rfl⟩ := loadClip_ok file ch sr s e a h
  have hsr' : (0 : Rat) < sr := by exact_mod_cast hsr
  simp only [lattice_getElem]
  have h1 := Rat.floor_le (s * sr)
  have h2 := Rat.lt_floor_add_one (s * sr)
  push_cast at h2
  unfold clipOffset
  constructor
  · rw [show ((0 : Nat) : Rat) * (1 / (sr : Rat)) = 0 by simp, add_zero, div_le_iff₀ hsr']; exact h1
  · rw [show ((0 : Nat) : Rat) * (1 / (sr : Rat)) = 0 by simp, add_zero, lt_div_iff₀ hsr']
    have : (s - 1 / (sr : Rat)) * sr = s * sr - 1 := by field_simp
    rw [this]; linarith

/-! ### load_recording, and the clip as a window into it -/

/-- `load_recording` succeeds with all `N` frames on the axis `j/samplerate` whenever
    `duration × samplerate` is within half a sample of `N` (the trailing-point rule absorbs the
    rounding of a stored float duration) -/
theorem C15_recording_loads (file : List Frame) (sr : Nat) (d : Rat) (hsr : 0 < sr)
    (h1 : (file.length : Rat) - 1 / 2 < d * sr) (h2 : d * sr ≤ (file.length : Rat) + 1 / 2) :
    loadRecording file sr d = .ok ⟨file, lattice 0 (1 / sr) file.length, 1 / sr⟩ := by
  have hsr' : (0 : Rat) < sr := by exact_mod_cast hsr
  have hq : (d - 0) / (1 / (sr : Rat)) = d * sr := by rw [sub_zero]; field_simp
  have hr := rangeDim_of_round 0 d (1 / sr) file.length (one_div_pos.mpr hsr')
    (by rw [hq]; exact h1) (by rw [hq]; exact h2)
  unfold loadRecording
  rw [hr]
  simp [Nat.ne_of_gt hsr, lattice_length]

/-- … in particular for the recording `Recording.from_file` builds for that file, for every
    time-expansion factor that keeps the samplerate whole -/
theorem C15_recording_of_file (file : List Frame) (fsr : Nat) (te : Rat) (hf : 0 < fsr) (hte : 0 < te)
    (hint : ∃ m : Nat, (fsr : Rat) * te = m) :
    loadRecording file (recordingOf file.length fsr te).1 (recordingOf file.length fsr te).2 =
      .ok ⟨file, lattice 0 (1 / ((fsr : Rat) * te)) file.length, 1 / ((fsr : Rat) * te)⟩ := by
  obtain ⟨m, hm⟩ := hint
  have hf' : (0 : Rat) < fsr := by exact_mod_cast hf
  have hmpos : (0 : Rat) < m := by rw [← hm]; positivity
  have hsr : (recordingOf file.length fsr te).1 = m := by
    simp only [recordingOf, hm]
    rw [truncZ_of_nonneg _ hmpos.le]
    have : ((m : Nat) : Rat) = ((m : Int) : Rat) := by push_cast; rfl
    rw [this, Rat.floor_intCast]; simp
  have hd : (recordingOf file.length fsr te).2 * (m : Rat) = file.length := by
    simp only [recordingOf]; rw [← hm]; field_simp
  rw [hsr, hm]
  exact C15_recording_loads file m (recordingOf file.length fsr te).2 (by exact_mod_cast hmpos)
    (by rw [hd]; linarith) (by rw [hd]; linarith)

/-- frame `i` of the clip and its time stamp are those of index `off + i` of the loaded recording -/
theorem C15_clip_agrees_with_recording (file : List Frame) (ch sr : Nat) (s e d : Rat)
    (c r : TimeArray) (hc : loadClip file ch sr s e = .ok c) (hr : loadRecording file sr d = .ok r)
    (i : Nat) (hi : i < c.frames.length) (hin : (clipOffset sr s).toNat + i < file.length) :
    ∃ (h1 : (clipOffset sr s).toNat + i < r.frames.length)
      (h2 : (clipOffset sr s).toNat + i < r.times.length) (h3 : i < c.times.length),
      c.frames[i] = r.frames[(clipOffset sr s).toNat + i] ∧
      c.times[i] = r.times[(clipOffset sr s).toNat + i] := by
  have hlen := (C15_clip_length file ch sr s e c hc).1
  have hf := C15_clip_frames file ch sr s e c hc i hi
  have ht := (C15_clip_times file ch sr s e c hc).2 i (by omega)
  obtain ⟨_, rfl⟩ := loadRecording_ok file sr d r hr
  refine ⟨hin, by simpa [lattice_length] using hin, by omega, ?_, ?_⟩
  · rw [hf, dif_pos hin]
  · rw [ht]; simp only [lattice_getElem]; ring

end SE.Proofs.C15
