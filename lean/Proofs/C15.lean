/- C15 — property theorems (to be written). -/
import SoundeventModel.Basic
namespace SE.Proofs.C15

end SE.Proofs.C15
