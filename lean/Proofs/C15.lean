/-
  C15 — Audio-derived arrays are sample-accurate and their axes tell the truth.
  Property theorems only (helper lemmas live in Proofs/Lemmas/Audio.lean).
-/
import SoundeventModel.Audio
import SoundeventModel.Audio.FileSys
import Proofs.Lemmas.Audio
import Proofs.Lemmas.History
import Mathlib.Data.List.Induction
namespace SE.Proofs.C15
open SE SE.Audio

/-! ### load_clip -/

/-- the offset is `⌊start·samplerate⌋` (as a natural number once the start is not negative) -/
theorem C15_offset_is_floor (sr : Nat) (s : Rat) (h0 : 0 ≤ s) :
    (((clipOffset sr s).toNat : Nat) : Rat) ≤ s * sr ∧ s * sr < ((clipOffset sr s).toNat : Rat) + 1 := by
  have hsr : (0 : Rat) ≤ sr := by exact_mod_cast Nat.zero_le sr
  have hnn : 0 ≤ clipOffset sr s := by
    unfold clipOffset; rw [Rat.le_floor_iff]; simpa using mul_nonneg h0 hsr
  have hc : (((clipOffset sr s).toNat : Nat) : Rat) = (clipOffset sr s : Rat) := by
    have : ((clipOffset sr s).toNat : Int) = clipOffset sr s := Int.toNat_of_nonneg hnn
    exact_mod_cast this
  rw [hc]
  refine ⟨Rat.floor_le _, ?_⟩
  have := Rat.lt_floor_add_one (s * sr)
  push_cast at this; exact this

/-- `load_clip` succeeds exactly for a well-formed clip that starts inside the file (or at its
    very end): in particular the coordinate/data length conflict (`shape`) can never occur -/
theorem C15_clip_loads (file : List Frame) (ch sr : Nat) (s e : Rat) :
    (∃ a, loadClip file ch sr s e = .ok a) ↔
      (s ≤ e ∧ 0 < sr ∧ 0 ≤ s ∧ s * sr < (file.length : Rat) + 1) := by
  rw [loadClip_normal]
  by_cases h1 : e < s
  · simp [h1]
  by_cases h2 : sr = 0
  · simp [h1, h2]
  have hsr : (0 : Rat) < sr := by exact_mod_cast Nat.pos_of_ne_zero h2
  have ha : clipOffset sr s < 0 ↔ s < 0 := by
    unfold clipOffset
    rw [Rat.floor_lt_iff]
    constructor
    · intro h; by_contra hs; rw [not_lt] at hs
      have := mul_nonneg hs hsr.le; simp at h; linarith
    · intro h; simpa using mul_neg_of_neg_of_pos h hsr
  have hb : (file.length : Int) < clipOffset sr s ↔ (file.length : Rat) + 1 ≤ s * sr := by
    unfold clipOffset
    rw [show ((file.length : Int) < (s * sr).floor) ↔ ((file.length : Int) + 1 ≤ (s * sr).floor) from Iff.rfl,
      Rat.le_floor_iff]
    push_cast; rfl
  by_cases h3 : clipOffset sr s < 0 ∨ (file.length : Int) < clipOffset sr s
  · simp only [h1, h2, h3, if_true, if_false]
    simp only [reduceCtorEq, exists_false, false_iff, not_and, not_lt]
    intro _ _ h0
    rcases h3 with h3 | h3
    · exact absurd (ha.mp h3) (not_lt.mpr h0)
    · exact hb.mp h3
  · simp only [h1, h2, h3, if_false]
    rw [not_or, not_lt, not_lt] at h3
    refine ⟨fun _ => ⟨not_lt.mp h1, Nat.pos_of_ne_zero h2, ?_, ?_⟩, fun _ => ⟨_, rfl⟩⟩
    · by_contra hs; exact absurd (ha.mpr (lt_of_not_ge hs)) (not_lt.mpr h3.1)
    · by_contra hs; exact absurd (hb.mpr (not_lt.mp hs)) (not_lt.mpr h3.2)


/-- exactly `⌊duration × samplerate⌋` frames, and as many time stamps -/
theorem C15_clip_length (file : List Frame) (ch sr : Nat) (s e : Rat) (a : TimeArray)
    (h : loadClip file ch sr s e = .ok a) :
    a.times.length = a.frames.length ∧
    (a.frames.length : Rat) ≤ (e - s) * sr ∧ (e - s) * sr < (a.frames.length : Rat) + 1 := by
  obtain ⟨hse, _, _, _, rfl⟩ := loadClip_ok file ch sr s e a h
  simp only [lattice_length, readFrames_length, true_and]
  rw [toNat_cast_of_nonneg _ (clipCount_nonneg sr s e hse)]
  refine ⟨Rat.floor_le _, ?_⟩
  have := Rat.lt_floor_add_one ((e - s) * sr)
  push_cast at this; exact this

/-- frame `i` of the clip is frame `off + i` of the file, a zero frame past the end of the file -/
theorem C15_clip_frames (file : List Frame) (ch sr : Nat) (s e : Rat) (a : TimeArray)
    (h : loadClip file ch sr s e = .ok a) (i : Nat) (hi : i < a.frames.length) :
    a.frames[i] = if h' : (clipOffset sr s).toNat + i < file.length
                  then file[(clipOffset sr s).toNat + i] else zeroFrame ch := by
  obtain ⟨_, _, _, _, rfl⟩ := loadClip_ok file ch sr s e a h
  exact readFrames_getElem ..

/-- frame `i` carries time `(off + i)/samplerate`; the axis advertises `1/samplerate` -/
theorem C15_clip_times (file : List Frame) (ch sr : Nat) (s e : Rat) (a : TimeArray)
    (h : loadClip file ch sr s e = .ok a) :
    a.step = 1 / sr ∧
    ∀ i (hi : i < a.times.length), a.times[i] = (((clipOffset sr s).toNat + i : Nat) : Rat) / sr := by
  obtain ⟨_, _, h0, _, rfl⟩ := loadClip_ok file ch sr s e a h
  refine ⟨rfl, fun i hi => ?_⟩
  simp only [lattice_getElem]
  push_cast
  rw [toNat_cast_of_nonneg _ h0]
  ring

/-- the axis starts on the sample boundary at or just before the requested start -/
theorem C15_clip_start_snapped (file : List Frame) (ch sr : Nat) (s e : Rat) (a : TimeArray)
    (h : loadClip file ch sr s e = .ok a) (h0 : 0 < a.times.length) :
    a.times[0] ≤ s ∧ s - (1 : Rat) / (sr : Rat) < a.times[0] := by
  obtain ⟨_, hsr, hnn, _, rfl⟩ := loadClip_ok file ch sr s e a h
  have hsr' : (0 : Rat) < sr := by exact_mod_cast hsr
  simp only [lattice_getElem]
  have h1 := Rat.floor_le (s * sr)
  have h2 := Rat.lt_floor_add_one (s * sr)
  push_cast at h2
  unfold clipOffset
  constructor
  · rw [show ((0 : Nat) : Rat) * (1 / (sr : Rat)) = 0 by simp, add_zero, div_le_iff₀ hsr']; exact h1
  · rw [show ((0 : Nat) : Rat) * (1 / (sr : Rat)) = 0 by simp, add_zero, lt_div_iff₀ hsr']
    have : (s - 1 / (sr : Rat)) * sr = s * sr - 1 := by field_simp
    rw [this]; linarith

/-! ### load_recording, and the clip as a window into it -/

/-- `load_recording` succeeds with all `N` frames on the axis `j/samplerate` whenever
    `duration × samplerate` is within half a sample of `N` (the trailing-point rule absorbs the
    rounding of a stored float duration) -/
theorem C15_recording_loads (file : List Frame) (sr : Nat) (d : Rat) (hsr : 0 < sr)
    (h1 : (file.length : Rat) - 1 / 2 < d * sr) (h2 : d * sr ≤ (file.length : Rat) + 1 / 2) :
    loadRecording file sr d = .ok ⟨file, lattice 0 (1 / sr) file.length, 1 / sr⟩ := by
  have hsr' : (0 : Rat) < sr := by exact_mod_cast hsr
  have hq : (d - 0) / (1 / (sr : Rat)) = d * sr := by rw [sub_zero]; field_simp
  have hr := rangeDim_of_round 0 d (1 / sr) file.length (one_div_pos.mpr hsr')
    (by rw [hq]; exact h1) (by rw [hq]; exact h2)
  unfold loadRecording
  rw [hr]
  simp [Nat.ne_of_gt hsr, lattice_length]

/-- … in particular for the recording `Recording.from_file` builds for that file, for every
    time-expansion factor that keeps the samplerate whole -/
theorem C15_recording_of_file (file : List Frame) (fsr : Nat) (te : Rat) (hf : 0 < fsr) (hte : 0 < te)
    (hint : ∃ m : Nat, (fsr : Rat) * te = m) :
    loadRecording file (recordingOf file.length fsr te).1 (recordingOf file.length fsr te).2 =
      .ok ⟨file, lattice 0 (1 / ((fsr : Rat) * te)) file.length, 1 / ((fsr : Rat) * te)⟩ := by
  obtain ⟨m, hm⟩ := hint
  have hf' : (0 : Rat) < fsr := by exact_mod_cast hf
  have hmpos : (0 : Rat) < m := by rw [← hm]; positivity
  have hsr : (recordingOf file.length fsr te).1 = m := by
    simp only [recordingOf, hm]
    rw [truncZ_of_nonneg _ hmpos.le]
    have : ((m : Nat) : Rat) = ((m : Int) : Rat) := by push_cast; rfl
    rw [this, Rat.floor_intCast]; simp
  have hd : (recordingOf file.length fsr te).2 * (m : Rat) = file.length := by
    simp only [recordingOf]; rw [← hm]; field_simp
  rw [hsr, hm]
  exact C15_recording_loads file m (recordingOf file.length fsr te).2 (by exact_mod_cast hmpos)
    (by rw [hd]; linarith) (by rw [hd]; linarith)

/-- frame `i` of the clip and its time stamp are those of index `off + i` of the loaded recording -/
theorem C15_clip_agrees_with_recording (file : List Frame) (ch sr : Nat) (s e d : Rat)
    (c r : TimeArray) (hc : loadClip file ch sr s e = .ok c) (hr : loadRecording file sr d = .ok r)
    (i : Nat) (hi : i < c.frames.length) (hin : (clipOffset sr s).toNat + i < file.length) :
    ∃ (h1 : (clipOffset sr s).toNat + i < r.frames.length)
      (h2 : (clipOffset sr s).toNat + i < r.times.length) (h3 : i < c.times.length),
      c.frames[i] = r.frames[(clipOffset sr s).toNat + i] ∧
      c.times[i] = r.times[(clipOffset sr s).toNat + i] := by
  have hlen := (C15_clip_length file ch sr s e c hc).1
  have hf := C15_clip_frames file ch sr s e c hc i hi
  have ht := (C15_clip_times file ch sr s e c hc).2 i (by omega)
  obtain ⟨_, rfl⟩ := loadRecording_ok file sr d r hr
  refine ⟨hin, by simpa [lattice_length] using hin, by omega, ?_, ?_⟩
  · rw [hf, dif_pos hin]
  · rw [ht]; simp only [lattice_getElem]; ring

/-! ### time expansion -/

/-- Time expansion enters only through the recording's own samplerate: loading the clip `[s, e]`
    of a recording at `fsr·te` Hz (file rate `fsr`, factor `te`) reads exactly the frames of the
    clip `[s·te, e·te]` of the unexpanded file, with every time stamp and the step divided by
    `te` (errors coincide too). -/
theorem C15_time_expansion (file : List Frame) (ch fsr sr : Nat) (te s e : Rat) (hte : 0 < te)
    (hf : 0 < fsr) (hsr : (fsr : Rat) * te = sr) :
    loadClip file ch sr s e = (loadClip file ch fsr (s * te) (e * te)).map (scaleTime te) := by
  have hf' : (0 : Rat) < fsr := by exact_mod_cast hf
  have hsr' : (0 : Rat) < sr := by rw [← hsr]; positivity
  have hsr0 : sr ≠ 0 := by intro h; rw [h] at hsr'; simp at hsr'
  have hoff : clipOffset sr s = clipOffset fsr (s * te) := by
    unfold clipOffset; rw [← hsr]; congr 1; ring
  have hcnt : clipCount sr s e = clipCount fsr (s * te) (e * te) := by
    unfold clipCount; rw [← hsr]; congr 1; ring
  have hlt : e * te < s * te ↔ e < s := by
    constructor
    · intro h; exact lt_of_mul_lt_mul_right h hte.le
    · intro h; exact mul_lt_mul_of_pos_right h hte
  rw [loadClip_normal, loadClip_normal]
  simp only [hlt, ← hoff, ← hcnt]
  by_cases h1 : e < s
  · simp [h1, Except.map]
  by_cases h3 : clipOffset sr s < 0 ∨ (file.length : Int) < clipOffset sr s
  · simp [h1, hsr0, Nat.ne_of_gt hf, h3, Except.map]
  simp only [h1, hsr0, Nat.ne_of_gt hf, h3, if_false, Except.map, scaleTime]
  congr 2
  · simp only [lattice, List.map_map]
    apply List.map_congr_left
    intro i _
    simp only [Function.comp]
    rw [← hsr]; field_simp
  · rw [← hsr]; field_simp

/-! ### resample -/

/-- the resampled axis has `⌊n·target·step⌋` points and advertises `1/target` -/
theorem C15_resample_length (n : Nat) (t0 t1 step : Rat) (target : Nat) (a : Axis)
    (h : resampleAxis n t0 t1 step target = .ok a) (hstep : 0 < step) :
    a.step = 1 / (target : Rat) ∧ 0 < a.coords.length ∧
    (a.coords.length : Rat) ≤ n * target * step ∧ (n : Rat) * target * step < (a.coords.length : Rat) + 1 := by
  obtain ⟨_, hnum, rfl⟩ := resampleAxis_ok n t0 t1 step target a h
  have hq : (0 : Rat) ≤ (n : Rat) * ((target : Rat) * step) := by positivity
  have hb := truncZ_le_self_of_nonneg _ hq
  simp only [List.length_map, List.length_range, true_and]
  rw [toNat_cast_of_nonneg _ hnum.le]
  refine ⟨by omega, ?_, ?_⟩
  · rw [mul_assoc]; exact hb.1
  · rw [mul_assoc]; exact hb.2

/-- every resampled coordinate lies within one advertised step of `first + k/target`
    (the drift is `k·frac(n·target·step)/(num·target)`, and `k < num`) -/
theorem C15_resample_within_one_step (n : Nat) (t0 t1 step : Rat) (target : Nat) (a : Axis)
    (h : resampleAxis n t0 t1 step target = .ok a) (hstep : 0 < step) (hdt : t1 - t0 = step)
    (k : Nat) (hk : k < a.coords.length) :
    |a.coords[k] - (t0 + (k : Rat) / (target : Rat))| < 1 / (target : Rat) := by
  obtain ⟨_, hnum, rfl⟩ := resampleAxis_ok n t0 t1 step target a h
  simp only [List.length_map, List.length_range] at hk
  simp only [List.getElem_map, List.getElem_range]
  set num := truncZ ((n : Rat) * ((target : Rat) * step)) with hnumdef
  have hq : (0 : Rat) ≤ (n : Rat) * ((target : Rat) * step) := by positivity
  have hb := truncZ_le_self_of_nonneg _ hq
  rw [← hnumdef] at hb
  have hnumQ : (0 : Rat) < (num : Rat) := by exact_mod_cast hnum
  have hkQ : (k : Rat) < (num : Rat) := by
    have : (k : Int) < num := by omega
    exact_mod_cast this
  have htpos : (0 : Rat) < (target : Rat) := by
    rcases Nat.eq_zero_or_pos target with h0 | h0
    · exfalso; rw [h0] at hb; simp at hb; linarith [hb.1]
    · exact_mod_cast h0
  have hk0 : (0 : Rat) ≤ (k : Rat) := by positivity
  -- drift = k·(r − num)/(num·target), 0 ≤ r − num < 1
  have hd : t0 + (t1 - t0) * ((n : Rat) / (num : Rat)) * (k : Rat) - (t0 + (k : Rat) / (target : Rat))
      = (k : Rat) * ((n : Rat) * ((target : Rat) * step) - (num : Rat)) / ((num : Rat) * (target : Rat)) := by
    rw [hdt]; field_simp; ring
  rw [hd, abs_lt]
  have hfr0 : 0 ≤ (n : Rat) * ((target : Rat) * step) - (num : Rat) := by linarith [hb.1]
  have hfr1 : (n : Rat) * ((target : Rat) * step) - (num : Rat) < 1 := by linarith [hb.2]
  have hden : (0 : Rat) < (num : Rat) * (target : Rat) := by positivity
  constructor
  · have : 0 ≤ (k : Rat) * ((n : Rat) * ((target : Rat) * step) - (num : Rat)) / ((num : Rat) * (target : Rat)) :=
      div_nonneg (mul_nonneg hk0 hfr0) hden.le
    have : -(1 / (target : Rat)) < 0 := by simp [htpos]
    linarith
  · rw [div_lt_div_iff₀ hden htpos]
    have : (k : Rat) * ((n : Rat) * ((target : Rat) * step) - (num : Rat)) < (num : Rat) := by
      calc (k : Rat) * ((n : Rat) * ((target : Rat) * step) - (num : Rat)) ≤ (k : Rat) * 1 :=
            mul_le_mul_of_nonneg_left hfr1.le hk0
        _ < num := by simpa using hkQ
    nlinarith

/-! ### compute_spectrogram -/

/-- (repaired code, fixes C15-1 and C15-3) the spectrogram's time coordinates are exactly
    `first + k·step` for the advertised step — for every window length, also one longer than the
    audio (the advertised step is computed from the window that is actually used) -/
theorem C15_stft_step_truthful (len : Nat) (t0 step w h : Rat) (a : SpecAxes)
    (hok : stftAxes len t0 step w h = .ok a)
    (k : Nat) (hk : k < a.time.coords.length) :
    a.time.coords[k] = t0 + (k : Rat) * a.time.step := by
  obtain ⟨_, _, _, rfl⟩ := stftAxes_ok len t0 step w h a hok
  simp only [stftTimes_getElem]
  push_cast; field_simp

/-- the frequency coordinates are exactly `k·step` for the advertised step `samplerate/nperseg`
    (every window length; `nperseg` is the clamped one), and there are `nperseg/2 + 1` of them -/
theorem C15_stft_freq_truthful (len : Nat) (t0 step w h : Rat) (a : SpecAxes)
    (hok : stftAxes len t0 step w h = .ok a)
    (k : Nat) (hk : k < a.freq.coords.length) :
    a.freq.coords[k] = (k : Rat) * a.freq.step ∧ a.freq.coords.length = (a.nperseg / 2 + 1).toNat := by
  obtain ⟨_, _, _, rfl⟩ := stftAxes_ok len t0 step w h a hok
  simp only [stftFreqs_getElem, true_and]
  simp [stftFreqs]

/-- `nperseg` is the requested `int(w·samplerate)` clamped to the audio, `noverlap` the truncation the
    code computes; whenever the requested window is no longer than the audio the advertised
    (realised) hop differs from the requested hop by less than one sample period and `nperseg` is
    the floor of `w·samplerate`.  (For a longer window scipy's hop is `len − noverlap`: the axis
    still tells the truth — `C15_stft_step_truthful` — but the request cannot be honoured.) -/
theorem C15_stft_hop_within_one_sample (len : Nat) (t0 step w h : Rat) (a : SpecAxes)
    (hok : stftAxes len t0 step w h = .ok a) (hstep : 0 < step) (hh : h ≤ w) :
    a.nperseg = min (stftNperseg step w) (len : Int) ∧ a.nperseg ≤ (len : Int) ∧
    (a.nperseg : Rat) ≤ w / step ∧
    (a.noverlap : Rat) ≤ (w - h) / step ∧ (w - h) / step < (a.noverlap : Rat) + 1 ∧
    (stftNperseg step w ≤ (len : Int) → |a.time.step - h| < step ∧ w / step < (a.nperseg : Rat) + 1) := by
  obtain ⟨_, hn1, _, rfl⟩ := stftAxes_ok len t0 step w h a hok
  simp only
  have hreq1 : 1 ≤ stftNperseg step w := by omega
  have hw0 : 0 ≤ w * (1 / step) := by
    by_contra hneg
    have hlt : w * (1 / step) < 0 := lt_of_not_ge hneg
    have := (truncZ_near (w * (1 / step))).2
    have h1 : ((stftNperseg step w : Int) : Rat) < 1 := by unfold stftNperseg; linarith
    have : (1 : Rat) ≤ (stftNperseg step w : Rat) := by exact_mod_cast hreq1
    linarith
  have hwh0 : 0 ≤ (w - h) * (1 / step) := mul_nonneg (by linarith) (one_div_pos.mpr hstep).le
  have b1 := truncZ_le_self_of_nonneg _ hw0
  have b2 := truncZ_le_self_of_nonneg _ hwh0
  have e1 : w * (1 / step) = w / step := by ring
  have e2 : (w - h) * (1 / step) = (w - h) / step := by ring
  have hminle : ((min (stftNperseg step w) (len : Int) : Int) : Rat) ≤ (stftNperseg step w : Rat) := by
    exact_mod_cast min_le_left _ _
  unfold stftNperseg stftNoverlap at *
  rw [e1] at b1 hminle ⊢; rw [e2] at b2 ⊢
  refine ⟨trivial, min_le_right _ _, le_trans hminle b1.1, b2.1, b2.2, fun hfit => ?_⟩
  rw [min_eq_left hfit]
  refine ⟨?_, b1.2⟩
  have hd : (((truncZ (w / step) - truncZ ((w - h) / step) : Int) : Rat)) / (1 / step) - h
      = (((truncZ (w / step) : Rat) - w / step) - ((truncZ ((w - h) / step) : Rat) - (w - h) / step)) * step := by
    push_cast; field_simp; ring
  rw [hd, abs_lt]
  constructor <;> nlinarith [b1.1, b1.2, b2.1, b2.2]

/-- (pinned code) `compute_spectrogram(window 0.01, hop 0.0033)` of one second at 8 kHz: the
    advertised step is the requested 0.0033 s while the realised hop is 27 samples = 0.003375 s;
    coordinate 44 is already a whole advertised step away from `first + 44·step` (the last one,
    index 297, 6.75 steps): the monitored statement `axisOk` is false, the axis does not tell the
    truth. -/
theorem C15_stft_step_pinned_untruthful :
    (stftAxesPinned 8000 0 (1 / 8000) (1 / 100) (33 / 10000)).toOption.map
        (fun a => (a.time.step, a.time.coords[1]?, a.time.coords[44]?, a.time.coords.length, axisOk 0 a.time))
      = some (33 / 10000, some (27 / 8000), some (44 * (33 / 10000) + 33 / 10000), 298, false) := by
  decide +kernel

/-- the same request on the repaired code: advertised step = realised hop, truthful axes -/
example :
    (stftAxes 8000 0 (1 / 8000) (1 / 100) (33 / 10000)).toOption.map
        (fun a => (a.nperseg, a.noverlap, a.time.step, a.time.coords.length, axisOk 0 a.time, axisOk 0 a.freq))
      = some (80, 53, 27 / 8000, 298, true, true) := by
  decide +kernel

/-! ### the monitor -/

/-- meaning of the executable statement the harness evaluates on the implementation's axes:
    strictly increasing, starts at `first`, every coordinate within one advertised step of
    `first + i·step` -/
theorem C15_monitor_meaning (first : Rat) (a : Axis) :
    axisOk first a = true ↔
      (∀ i (h : i + 1 < a.coords.length), a.coords[i] < a.coords[i + 1]) ∧
      (∀ h : 0 < a.coords.length, a.coords[0] = first) ∧
      (∀ i (h : i < a.coords.length), |a.coords[i] - (first + (i : Rat) * a.step)| < a.step) := by
  rw [axisOk_iff]
  simp only [abs_lt]

/-- the monitor holds on the time axis of every loaded clip (source start = the snapped start) -/
theorem C15_axis_ok_clip (file : List Frame) (ch sr : Nat) (s e : Rat) (a : TimeArray)
    (h : loadClip file ch sr s e = .ok a) :
    axisOk ((clipOffset sr s : Rat) / sr) ⟨a.times, a.step⟩ = true := by
  obtain ⟨_, hsr, _, _, rfl⟩ := loadClip_ok file ch sr s e a h
  have hsr' : (0 : Rat) < sr := by exact_mod_cast hsr
  exact axisOk_lattice _ _ _ (one_div_pos.mpr hsr')

/-- … of every loaded recording (source start = 0) -/
theorem C15_axis_ok_recording (file : List Frame) (sr : Nat) (d : Rat) (a : TimeArray)
    (h : loadRecording file sr d = .ok a) : axisOk 0 ⟨a.times, a.step⟩ = true := by
  obtain ⟨hsr, rfl⟩ := loadRecording_ok file sr d a h
  have hsr' : (0 : Rat) < sr := by exact_mod_cast hsr
  exact axisOk_lattice _ _ _ (one_div_pos.mpr hsr')

/-- … of every resampled array whose input axis was truthful (source start = the input's first
    coordinate) -/
theorem C15_axis_ok_resample (n : Nat) (t0 t1 step : Rat) (target : Nat) (a : Axis)
    (h : resampleAxis n t0 t1 step target = .ok a) (hstep : 0 < step) (hdt : t1 - t0 = step) :
    axisOk t0 a = true := by
  rw [C15_monitor_meaning]
  have hw := C15_resample_within_one_step n t0 t1 step target a h hstep hdt
  obtain ⟨_, hnum, ha⟩ := resampleAxis_ok n t0 t1 step target a h
  have hnumQ : (0 : Rat) < (truncZ ((n : Rat) * ((target : Rat) * step)) : Rat) := by exact_mod_cast hnum
  refine ⟨?_, ?_, ?_⟩
  · intro i hi
    subst ha
    simp only [List.getElem_map, List.getElem_range]
    have hd : 0 < (t1 - t0) * ((n : Rat) / (truncZ ((n : Rat) * ((target : Rat) * step)) : Rat)) := by
      rw [hdt]; apply mul_pos hstep; apply div_pos _ hnumQ
      have : 2 ≤ n := (resampleAxis_ok n t0 t1 step target _ h).1
      exact_mod_cast (by omega : 0 < n)
    push_cast; nlinarith
  · intro h0; subst ha; simp
  · intro i hi
    have := hw i hi
    have hs : a.step = 1 / (target : Rat) := by subst ha; rfl
    rw [hs]
    have e : (i : Rat) * (1 / (target : Rat)) = (i : Rat) / (target : Rat) := by ring
    rw [e]; exact this

/-- … and (repaired code) of both axes of every spectrogram, whatever the window length -/
theorem C15_axis_ok_stft (len : Nat) (t0 step w h : Rat) (a : SpecAxes)
    (hok : stftAxes len t0 step w h = .ok a) (hstep : 0 < step) :
    axisOk t0 a.time = true ∧ axisOk 0 a.freq = true := by
  have ht := C15_stft_step_truthful len t0 step w h a hok
  have hf := C15_stft_freq_truthful len t0 step w h a hok
  obtain ⟨_, hn1, hov, ha⟩ := stftAxes_ok len t0 step w h a hok
  have hts : 0 < a.time.step := by
    rw [ha]; simp only
    apply div_pos _ (one_div_pos.mpr hstep)
    exact_mod_cast (by omega : (0 : Int) < min (stftNperseg step w) (len : Int) - stftNoverlap step w h)
  have hfs : 0 < a.freq.step := by
    rw [ha]; simp only
    apply div_pos (one_div_pos.mpr hstep)
    exact_mod_cast (by omega : (0 : Int) < min (stftNperseg step w) (len : Int))
  constructor
  · rw [C15_monitor_meaning]
    refine ⟨fun i hi => ?_, fun h0 => ?_, fun i hi => ?_⟩
    · rw [ht i (by omega), ht (i + 1) hi]; push_cast; nlinarith
    · rw [ht 0 h0]; simp
    · rw [ht i hi]; simpa using hts
  · rw [C15_monitor_meaning]
    refine ⟨fun i hi => ?_, fun h0 => ?_, fun i hi => ?_⟩
    · rw [(hf i (by omega)).1, (hf (i + 1) hi).1]; push_cast; nlinarith
    · rw [(hf 0 h0).1]; simp
    · rw [(hf i hi).1]; simpa using hfs

/-- Every axis is strictly increasing and starts at its source's start: the snapped clip start,
    0 for a recording, the input's first coordinate for `resample` and `compute_spectrogram`,
    0 Hz for the frequency axis. -/
theorem C15_axes_increasing :
    (∀ (file : List Frame) (ch sr : Nat) (s e : Rat) (a : TimeArray), loadClip file ch sr s e = .ok a →
      (∀ i (h : i + 1 < a.times.length), a.times[i] < a.times[i + 1]) ∧
      (∀ h : 0 < a.times.length, a.times[0] = (clipOffset sr s : Rat) / sr)) ∧
    (∀ (file : List Frame) (sr : Nat) (d : Rat) (a : TimeArray), loadRecording file sr d = .ok a →
      (∀ i (h : i + 1 < a.times.length), a.times[i] < a.times[i + 1]) ∧
      (∀ h : 0 < a.times.length, a.times[0] = 0)) ∧
    (∀ (n : Nat) (t0 t1 step : Rat) (target : Nat) (a : Axis), resampleAxis n t0 t1 step target = .ok a →
      0 < step → t1 - t0 = step →
      (∀ i (h : i + 1 < a.coords.length), a.coords[i] < a.coords[i + 1]) ∧
      (∀ h : 0 < a.coords.length, a.coords[0] = t0)) ∧
    (∀ (len : Nat) (t0 step w h : Rat) (a : SpecAxes), stftAxes len t0 step w h = .ok a →
      0 < step →
      (∀ i (h : i + 1 < a.time.coords.length), a.time.coords[i] < a.time.coords[i + 1]) ∧
      (∀ h : 0 < a.time.coords.length, a.time.coords[0] = t0) ∧
      (∀ i (h : i + 1 < a.freq.coords.length), a.freq.coords[i] < a.freq.coords[i + 1]) ∧
      (∀ h : 0 < a.freq.coords.length, a.freq.coords[0] = 0)) := by
  refine ⟨fun file ch sr s e a h => ?_, fun file sr d a h => ?_, fun n t0 t1 step target a h hs hd => ?_,
    fun len t0 step w h a hok hs => ?_⟩
  · have := (C15_monitor_meaning _ _).mp (C15_axis_ok_clip file ch sr s e a h)
    exact ⟨this.1, this.2.1⟩
  · have := (C15_monitor_meaning _ _).mp (C15_axis_ok_recording file sr d a h)
    exact ⟨this.1, this.2.1⟩
  · have := (C15_monitor_meaning _ _).mp (C15_axis_ok_resample n t0 t1 step target a h hs hd)
    exact ⟨this.1, this.2.1⟩
  · have := C15_axis_ok_stft len t0 step w h a hok hs
    have h1 := (C15_monitor_meaning _ _).mp this.1
    have h2 := (C15_monitor_meaning _ _).mp this.2
    exact ⟨h1.1, h1.2.1, h2.1, h2.2.1⟩

/-! ### the model is the traced plan composed with the library contracts

The `…Plan` functions are proved equal, on every run and for all rational inputs, to the decision
trees traced from the real `load_clip`, `load_recording`, `create_time_range`, `create_range_dim`,
`resample` and `compute_spectrogram` (Tie 1b).  The theorems below say that the model the property
theorems are about is exactly: plan, then the library's part (soundfile's zero-filled read, numpy's
`arange` lattice, xarray's length check, scipy's `resample` / `stft` coordinate formulas). -/

/-- `create_range_dim` yields the lattice its traced plan describes -/
theorem C15_range_factors (start stop step : Rat) :
    rangeDim start stop step =
      lattice (rangePlan start stop step).start (rangePlan start stop step).step (rangePlan start stop step).count ∧
    (rangePlan start stop step).adv = step := by
  exact ⟨rangeDim_eq_count start stop step, rfl⟩

theorem C15_clip_factors (file : List Frame) (ch sr : Nat) (s e : Rat) :
    loadClip file ch sr s e =
      if e < s then .error .clip else if sr = 0 then .error .clip
      else loadClipOfPlan file ch (clipPlan sr s e) := by
  unfold loadClip loadClipOfPlan clipPlan timeRangePlan rangePlan clipOffset clipCount
  simp only [rangeDim_eq_count]

theorem C15_recording_factors (file : List Frame) (sr : Nat) (d : Rat) :
    loadRecording file sr d =
      if sr = 0 then .error .clip else loadRecordingOfPlan file (recordingPlan sr d) := by
  unfold loadRecording loadRecordingOfPlan recordingPlan timeRangePlan rangePlan
  simp only [rangeDim_eq_count]

theorem C15_resample_factors (n : Nat) (t0 t1 step : Rat) (target : Nat) :
    resampleAxis n t0 t1 step target = resampleOfPlan n t0 t1 (resamplePlan n step target) := by
  unfold resampleAxis resampleOfPlan resamplePlan
  rfl

theorem C15_stft_factors (len : Nat) (t0 step w h : Rat) :
    stftAxes len t0 step w h = stftOfPlan len (stftPlan step w h t0 len) := by
  unfold stftAxes stftAxesGen stftClamp stftOfPlan stftPlan stftNperseg stftNoverlap stftTimes stftFreqs
  simp only [Bool.false_eq_true, if_false, if_true]
  by_cases h1 : len = 0
  · simp only [h1, if_true]
  by_cases h2 : min (truncZ (w * (1 / step))) (len : Int) < 1
  · simp only [h1, h2, if_true, if_false]
  by_cases h3 : truncZ ((w - h) * (1 / step)) ≥ min (min (truncZ (w * (1 / step))) (len : Int)) (len : Int)
  · simp only [h1, h2, h3, if_true, if_false]
  simp only [h1, h2, h3, if_false]
  congr 3
  · apply List.map_congr_left
    intro k _
    ring
  · push_cast; ring

/-- the plan as the symbolic trace states it (all quantities rational, the clamp as the comparison
    `n < nperseg` Python's `min` makes) is the plan of the model, for every number of samples -/
theorem C15_stft_plan_tuple (step w h t0 : Rat) (len : Nat) :
    stftPlanTuple step w h t0 (len : Rat) = (stftPlan step w h t0 len).toTuple := by
  unfold stftPlanTuple stftPlan StftPlan.toTuple
  have hc : (((len : Nat) : Rat) < ((truncZ (w * (1 / step)) : Int) : Rat)) ↔ ((len : Int) < truncZ (w * (1 / step))) := by
    rw [show ((len : Nat) : Rat) = (((len : Nat) : Int) : Rat) by push_cast; rfl]
    exact Rat.intCast_lt_intCast
  by_cases hlt : (len : Int) < truncZ (w * (1 / step))
  · simp only [hc.mpr hlt, if_true, min_eq_right hlt.le]
    push_cast; rfl
  · have hnc : ¬ (((len : Nat) : Rat) < ((truncZ (w * (1 / step)) : Int) : Rat)) := fun hh => hlt (hc.mp hh)
    simp only [hnc, if_false, min_eq_left (not_lt.mp hlt)]

/-- pre-repair behaviour (before fix C15-3): the un-clamped code is the un-clamped plan followed by
    scipy's part — the same library part, so the only difference to the code that exists is the
    `nperseg` the advertised steps are computed from -/
theorem C15_stft_unclamped_factors (len : Nat) (t0 step w h : Rat) :
    stftAxesUnclamped len t0 step w h = stftOfPlan len (stftPlanUnclamped step w h t0) := by
  unfold stftAxesUnclamped stftAxesGen stftClamp stftOfPlan stftPlanUnclamped stftNperseg stftNoverlap stftTimes stftFreqs
  simp only [Bool.false_eq_true, if_false]
  by_cases h1 : len = 0
  · simp only [h1, if_true]
  by_cases h2 : truncZ (w * (1 / step)) < 1
  · simp only [h1, h2, if_true, if_false]
  by_cases h3 : truncZ ((w - h) * (1 / step)) ≥ min (truncZ (w * (1 / step))) (len : Int)
  · simp only [h1, h2, h3, if_true, if_false]
  simp only [h1, h2, h3, if_false]
  congr 3
  · apply List.map_congr_left
    intro k _
    ring
  · push_cast; ring

/-! ### channels -/

/-- every frame of a clip has the file's channel count (also the zero frames past its end) -/
theorem C15_clip_channels (file : List Frame) (ch sr : Nat) (s e : Rat) (a : TimeArray)
    (h : loadClip file ch sr s e = .ok a) (hfile : ∀ f ∈ file, f.length = ch) :
    ∀ f ∈ a.frames, f.length = ch := by
  obtain ⟨_, _, _, _, rfl⟩ := loadClip_ok file ch sr s e a h
  intro f hf
  simp only [readFrames, List.mem_map, List.mem_range] at hf
  obtain ⟨i, _, rfl⟩ := hf
  by_cases hi : (clipOffset sr s).toNat + i < file.length
  · simp only [List.getD, List.getElem?_eq_getElem hi, Option.getD_some]
    exact hfile _ (List.getElem_mem hi)
  · simp [List.getD, List.getElem?_eq_none (Nat.le_of_not_lt hi), zeroFrame]

/-! ### resample without the assumption that the input axis is truthful -/

/-- exact drift of resampled coordinate `k` from `first + k/target`, for an input axis of any
    spacing `t1 − t0` (a resampled array's own spacing is *not* its advertised step):
    `k·(n·target·(t1 − t0) − num)/(num·target)` -/
theorem C15_resample_drift (n : Nat) (t0 t1 step : Rat) (target : Nat) (a : Axis)
    (h : resampleAxis n t0 t1 step target = .ok a) (k : Nat) (hk : k < a.coords.length) :
    a.coords[k] - (t0 + (k : Rat) / (target : Rat)) =
      (k : Rat) * ((n : Rat) * (target : Rat) * (t1 - t0) - (a.coords.length : Rat)) /
        ((a.coords.length : Rat) * (target : Rat)) ∧
    0 < target := by
  obtain ⟨_, hnum, rfl⟩ := resampleAxis_ok n t0 t1 step target a h
  have htpos : 0 < target := by
    rcases Nat.eq_zero_or_pos target with h0 | h0
    · exfalso
      rw [h0] at hnum
      have : truncZ ((n : Rat) * (((0 : Nat) : Rat) * step)) = 0 := by
        rw [show (n : Rat) * (((0 : Nat) : Rat) * step) = ((0 : Int) : Rat) by simp]
        rw [truncZ_of_nonneg _ (by simp), Rat.floor_intCast]
      omega
    · exact h0
  refine ⟨?_, htpos⟩
  simp only [List.length_map, List.length_range, List.getElem_map, List.getElem_range]
  rw [toNat_cast_of_nonneg _ hnum.le]
  have hnumQ : (0 : Rat) < (truncZ ((n : Rat) * ((target : Rat) * step)) : Rat) := by exact_mod_cast hnum
  have htQ : (0 : Rat) < (target : Rat) := by exact_mod_cast htpos
  generalize (truncZ ((n : Rat) * ((target : Rat) * step)) : Rat) = N at hnumQ ⊢
  have hN : N ≠ 0 := ne_of_gt hnumQ
  have hT : (target : Rat) ≠ 0 := ne_of_gt htQ
  field_simp
  ring

/-- … hence coordinate `k` lies within one advertised step of `first + k/target` **iff**
    `k·|n·target·(t1 − t0) − num| < num` -/
theorem C15_resample_within_one_step_iff (n : Nat) (t0 t1 step : Rat) (target : Nat) (a : Axis)
    (h : resampleAxis n t0 t1 step target = .ok a) (k : Nat) (hk : k < a.coords.length) :
    |a.coords[k] - (t0 + (k : Rat) / (target : Rat))| < 1 / (target : Rat) ↔
      (k : Rat) * |(n : Rat) * (target : Rat) * (t1 - t0) - (a.coords.length : Rat)| < (a.coords.length : Rat) := by
  obtain ⟨hd, htpos⟩ := C15_resample_drift n t0 t1 step target a h k hk
  rw [hd]
  have htQ : (0 : Rat) < (target : Rat) := by exact_mod_cast htpos
  have hlen : (0 : Rat) < (a.coords.length : Rat) := by exact_mod_cast (by omega : 0 < a.coords.length)
  have hk0 : (0 : Rat) ≤ (k : Rat) := by positivity
  have hLT := mul_pos hlen htQ
  generalize (n : Rat) * (target : Rat) * (t1 - t0) - (a.coords.length : Rat) = y
  generalize (a.coords.length : Rat) = L at hlen hLT ⊢
  generalize (k : Rat) = K at hk0 ⊢
  generalize (target : Rat) = T at htQ hLT ⊢
  rcases le_total 0 y with hy | hy
  · rw [abs_of_nonneg hy, abs_of_nonneg (div_nonneg (mul_nonneg hk0 hy) hLT.le), div_lt_div_iff₀ hLT htQ]
    constructor <;> intro hh <;> nlinarith
  · have he : K * y / (L * T) ≤ 0 := div_nonpos_of_nonpos_of_nonneg (mul_nonpos_of_nonneg_of_nonpos hk0 hy) hLT.le
    rw [abs_of_nonpos hy, abs_of_nonpos he, ← neg_div, div_lt_div_iff₀ hLT htQ]
    constructor <;> intro hh <;> nlinarith

/-- resampling a *resampled* array (known finding C15-2): 100 samples at 8192 Hz to 1355 Hz gives 16
    points spaced 25/32768 s but advertising 1/1355 s; resampling those to 13550 Hz gives 160 points
    spaced 1/13107.2 s and advertising 1/13550 s, the last one 5.37 advertised steps from
    `first + k·step`: the monitored statement `axisOk` is false -/
theorem C15_resample_chain_untruthful :
    (resampleAxis 100 0 (1 / 8192) (1 / 8192) 1355).toOption.map
        (fun a => (a.coords.length, a.coords[1]?, a.step, axisOk 0 a)) =
      some (16, some (25 / 32768), 1 / 1355, true) ∧
    (resampleAxis 16 0 (25 / 32768) (1 / 1355) 13550).toOption.map
        (fun a => (a.coords.length, a.coords[1]?, a.step, axisOk 0 a)) =
      some (160, some (5 / 65536), 1 / 13550, false) := by
  constructor <;> decide +kernel

/-! ### a window longer than the audio -/

/-- (repaired code, fix C15-3) for a requested window longer than the audio the window used is the
    whole audio: `nperseg = len`, the coordinates are `k·fs/len` and `t0 + k·(len − noverlap)/fs`,
    and the advertised steps are exactly those spacings, `fs/len` and `(len − noverlap)/fs` -/
theorem C15_stft_long_window (len : Nat) (t0 step w h : Rat) (a : SpecAxes)
    (hok : stftAxes len t0 step w h = .ok a) (hlong : (len : Int) < stftNperseg step w) :
    a.nperseg = (len : Int) ∧
    (∀ k (hk : k < a.freq.coords.length), a.freq.coords[k] = (k : Rat) * (1 / step / (len : Rat))) ∧
    (∀ k (hk : k < a.time.coords.length),
        a.time.coords[k] = t0 + (k : Rat) * ((((len : Int) - a.noverlap : Int) : Rat) * step)) ∧
    a.freq.step = 1 / step / (len : Rat) ∧
    a.time.step = (((len : Int) - a.noverlap : Int) : Rat) * step := by
  obtain ⟨_, _, _, rfl⟩ := stftAxes_ok len t0 step w h a hok
  have hmin : min (stftNperseg step w) (len : Int) = (len : Int) := min_eq_right hlong.le
  simp only [hmin]
  refine ⟨trivial, fun k hk => ?_, fun k hk => ?_, ?_, ?_⟩
  · rw [stftFreqs_getElem]; push_cast; rfl
  · rw [stftTimes_getElem]
  · push_cast; rfl
  · field_simp

/-- pre-repair behaviour (the code before fix C15-3, `stftAxesUnclamped`): scipy shrinks `nperseg`
    to the input length, so the coordinates are `k·fs/len` and `t0 + k·(len − noverlap)/fs`, while
    both advertised steps refer to the *requested* `nperseg` -/
theorem C15_stft_unclamped_long_window (len : Nat) (t0 step w h : Rat) (a : SpecAxes)
    (hok : stftAxesUnclamped len t0 step w h = .ok a) (hlong : (len : Int) < a.nperseg) :
    a.nperseg = stftNperseg step w ∧
    (∀ k (hk : k < a.freq.coords.length), a.freq.coords[k] = (k : Rat) * (1 / step / (len : Rat))) ∧
    (∀ k (hk : k < a.time.coords.length),
        a.time.coords[k] = t0 + (k : Rat) * ((((len : Int) - a.noverlap : Int) : Rat) * step)) ∧
    a.freq.step = 1 / step / (a.nperseg : Rat) ∧
    a.time.step = ((a.nperseg - a.noverlap : Int) : Rat) * step := by
  obtain ⟨_, _, _, rfl⟩ := stftAxesGen_ok false false len t0 step w h a hok
  simp only [stftClamp, Bool.false_eq_true, if_false] at hlong ⊢
  have hmin : min (stftNperseg step w) (len : Int) = (len : Int) := min_eq_right hlong.le
  simp only [hmin]
  refine ⟨trivial, fun k hk => ?_, fun k hk => ?_, ?_, ?_⟩
  · rw [stftFreqs_getElem]; push_cast; rfl
  · rw [stftTimes_getElem]
  · first | rfl | trivial
  · field_simp

/-- pre-repair behaviour (the defect repaired by fix C15-3, formerly known finding C15-3): on the
    un-clamped code 50 samples at 8192 Hz with a window of 64 and a hop of 32 samples give frequency
    bins 163.84 Hz apart advertising 128 Hz (bin 25 is 7 advertised steps off) and segments 18 samples
    apart advertising 32: both monitored statements are false.  The code that exists advertises
    163.84 Hz and 18 samples on the same input and both statements hold. -/
theorem C15_stft_unclamped_long_window_untruthful :
    ((stftAxesUnclamped 50 0 (1 / 8192) (64 / 8192) (32 / 8192)).toOption.map
        (fun a => (a.nperseg, a.noverlap, a.freq.coords.length)) = some (64, 32, 26) ∧
     (stftAxesUnclamped 50 0 (1 / 8192) (64 / 8192) (32 / 8192)).toOption.map
        (fun a => (a.freq.step, a.freq.coords[1]?, axisOk 0 a.freq)) = some (128, some (4096 / 25), false) ∧
     (stftAxesUnclamped 50 0 (1 / 8192) (64 / 8192) (32 / 8192)).toOption.map
        (fun a => (a.time.step, a.time.coords[1]?, axisOk 0 a.time)) =
       some (1 / 256, some (9 / 4096), false)) ∧
    ((stftAxes 50 0 (1 / 8192) (64 / 8192) (32 / 8192)).toOption.map
        (fun a => (a.nperseg, a.noverlap, a.freq.coords.length)) = some (50, 32, 26) ∧
     (stftAxes 50 0 (1 / 8192) (64 / 8192) (32 / 8192)).toOption.map
        (fun a => (a.freq.step, a.freq.coords[1]?, axisOk 0 a.freq)) = some (4096 / 25, some (4096 / 25), true) ∧
     (stftAxes 50 0 (1 / 8192) (64 / 8192) (32 / 8192)).toOption.map
        (fun a => (a.time.step, a.time.coords[1]?, axisOk 0 a.time)) =
       some (9 / 4096, some (9 / 4096), true)) := by
  refine ⟨⟨?_, ?_, ?_⟩, ?_, ?_, ?_⟩ <;> decide +kernel

/-! ### further consequences, non-vacuity -/

/-- the clip stays inside the requested interval at its end as well: the sample after the last
    one starts no later than `e`, and fewer than two sample periods are lost -/
theorem C15_clip_end (file : List Frame) (ch sr : Nat) (s e : Rat) (a : TimeArray)
    (h : loadClip file ch sr s e = .ok a) :
    ((clipOffset sr s : Rat) + a.frames.length) / sr ≤ e ∧
    e - 2 / (sr : Rat) < ((clipOffset sr s : Rat) + a.frames.length) / sr := by
  have hl := C15_clip_length file ch sr s e a h
  obtain ⟨_, hsr, _, _, _⟩ := loadClip_ok file ch sr s e a h
  have hsr' : (0 : Rat) < sr := by exact_mod_cast hsr
  have h1 := Rat.floor_le (s * sr)
  have h2 := Rat.lt_floor_add_one (s * sr)
  push_cast at h2
  unfold clipOffset
  constructor
  · rw [div_le_iff₀ hsr']; nlinarith [hl.2.1]
  · rw [lt_div_iff₀ hsr']
    have : (e - 2 / (sr : Rat)) * sr = e * sr - 2 := by field_simp
    rw [this]; nlinarith [hl.2.2]

/-- the resampled axis spans exactly the input's span: `num` realised steps = `n` input steps -/
theorem C15_resample_span (n : Nat) (t0 t1 step : Rat) (target : Nat) (a : Axis)
    (h : resampleAxis n t0 t1 step target = .ok a) (k : Nat) (hk : k < a.coords.length) :
    a.coords[k] = t0 + (k : Rat) * ((n : Rat) * (t1 - t0) / (a.coords.length : Rat)) := by
  obtain ⟨_, hnum, rfl⟩ := resampleAxis_ok n t0 t1 step target a h
  simp only [List.length_map, List.length_range, List.getElem_map, List.getElem_range]
  rw [toNat_cast_of_nonneg _ hnum.le]
  ring

-- non-vacuity ---------------------------------------------------------------------------------
-- `demoFile`: a 6-frame stereo file, loaded at 4 Hz

-- off both sample boundaries and past the end of file: offset ⌊0.625·4⌋ = 2, ⌊1.5·4⌋ = 6 frames
example : loadClip demoFile 2 4 (5 / 8) (17 / 8) =
    .ok ⟨[[3, -3], [4, -4], [5, -5], [6, -6], [0, 0], [0, 0]], [1 / 2, 3 / 4, 1, 5 / 4, 3 / 2, 7 / 4], 1 / 4⟩ := by
  decide +kernel
-- zero-length and sub-sample clips load as empty arrays (with the guard of C16-1) …
example : loadClip demoFile 2 4 (1 / 2) (1 / 2) = .ok ⟨[], [], 1 / 4⟩ := by decide +kernel
example : loadClip demoFile 2 4 (1 / 2) (5 / 8) = .ok ⟨[], [], 1 / 4⟩ := by decide +kernel
-- … while the pinned `create_range_dim` raises `IndexError` on the empty range
example : rangeDimPinned (1 / 2) (1 / 2) (1 / 4) = .error .index := by decide +kernel
-- starting exactly at the end of file is fine (all zeros), beyond it libsndfile cannot seek
example : loadClip demoFile 2 4 (3 / 2) 2 = .ok ⟨[[0, 0], [0, 0]], [3 / 2, 7 / 4], 1 / 4⟩ := by decide +kernel
example : loadClip demoFile 2 4 (7 / 4) 2 = .error .seek := by decide +kernel
example : loadClip demoFile 2 4 (-1 / 8) 2 = .error .seek := by decide +kernel
example : loadClip demoFile 2 4 1 (1 / 2) = .error .clip := by decide +kernel
-- the recording: 6 frames, duration 1.5 s (also when the stored duration is a little off)
example : loadRecording demoFile 4 (3 / 2) = .ok ⟨demoFile, [0, 1 / 4, 1 / 2, 3 / 4, 1, 5 / 4], 1 / 4⟩ := by decide +kernel
example : loadRecording demoFile 4 (3 / 2 + 1 / 10) = .ok ⟨demoFile, [0, 1 / 4, 1 / 2, 3 / 4, 1, 5 / 4], 1 / 4⟩ := by decide +kernel
example : loadRecording demoFile 4 (7 / 4) = .error .shape := by decide +kernel
example : recordingOf 6 2 2 = (4, 3 / 2) := by decide +kernel
-- time expansion: file rate 2 Hz, factor 2 (hypotheses of `C15_time_expansion` hold: 2·2 = 4)
example : loadClip demoFile 2 4 (5 / 8) (17 / 8) = (loadClip demoFile 2 2 (5 / 4) (17 / 4)).map (scaleTime 2) := by
  decide +kernel
-- resample: 16 samples at 1/16 s to 6 Hz gives ⌊16·6/16⌋ = 6 exact points; to 7 Hz gives 7 points
-- spaced 1/7 … and 100 samples at 1/8192 s to 1355 Hz gives 16 points whose spacing is not 1/1355
example : resampleAxis 16 1 (17 / 16) (1 / 16) 6 = .ok ⟨[1, 7 / 6, 4 / 3, 3 / 2, 5 / 3, 11 / 6], 1 / 6⟩ := by
  decide +kernel
example : (resampleAxis 100 0 (1 / 8192) (1 / 8192) 1355).toOption.map
    (fun a => (a.coords.length, a.coords[1]?, a.step, axisOk 0 a)) =
    some (16, some (25 / 32768), 1 / 1355, true) := by decide +kernel
example : resampleAxis 5 0 (1 / 8192) (1 / 8192) 1000 = .error .zerodiv := by decide +kernel
-- spectrogram: window and hop of 8.5 and 3.25 samples at 8 Hz: nperseg 8, noverlap ⌊5.25⌋ = 5
example : (stftAxes 32 2 (1 / 8) (17 / 16) (13 / 32)).toOption.map
    (fun a => (a.nperseg, a.noverlap, a.time.step, a.time.coords.take 3, a.time.coords.length)) =
    some (8, 5, 3 / 8, [2, 19 / 8, 11 / 4], 12) := by decide +kernel
example : (stftAxes 32 2 (1 / 8) (17 / 16) (13 / 32)).toOption.map
    (fun a => (a.freq.step, a.freq.coords, axisOk 2 a.time, axisOk 0 a.freq)) =
    some (1, [0, 1, 2, 3, 4], true, true) := by decide +kernel
-- hop longer than the window: `int()` truncates the negative overlap toward zero
example : (stftAxes 32 0 (1 / 8) (1 / 2) (11 / 16)).toOption.map (fun a => (a.nperseg, a.noverlap, a.time.step)) =
    some (4, -1, 5 / 8) := by decide +kernel
example : stftAxes 32 0 (1 / 8) (1 / 16) (1 / 32) = .error .value := by decide +kernel   -- window < 1 sample
example : stftAxes 32 0 (1 / 8) (17 / 16) (1 / 64) = .error .value := by decide +kernel  -- noverlap = nperseg
-- the traced plans on the examples above (non-vacuity of the `…_factors` theorems and of `C15_clip_channels`)
example : ∀ f ∈ demoFile, f.length = 2 := by decide
example : (clipPlan 4 (5 / 8) (17 / 8)).toTuple = (2, 6, 1 / 2, 1 / 4, 6, 1 / 4) := by decide +kernel
example : (recordingPlan 4 (3 / 2 + 1 / 10)).toTuple = (0, 1 / 4, 6, 1 / 4) := by decide +kernel
example : (rangePlan (1 / 2) (1 / 2) (1 / 4)).toTuple = (1 / 2, 1 / 4, 0, 1 / 4) := by decide +kernel
example : resamplePlanTuple 100 (1 / 8192) 1355 = (16, 1 / 1355) := by decide +kernel
example : (stftPlan (1 / 8) (17 / 16) (13 / 32) 2 32).toTuple = (8, 8, 5, 1, 2, 3 / 8) := by decide +kernel
-- a window longer than the audio (50 samples, window 64, hop 32): the plan hands scipy the clamped window and
-- advertises its steps; the traced form of the plan agrees (hypothesis-free `C15_stft_plan_tuple`)
example : (stftPlan (1 / 8192) (64 / 8192) (32 / 8192) 0 50).toTuple = (8192, 50, 32, 4096 / 25, 0, 9 / 4096) := by
  decide +kernel
example : stftPlanTuple (1 / 8192) (64 / 8192) (32 / 8192) 0 50 = (8192, 50, 32, 4096 / 25, 0, 9 / 4096) := by
  decide +kernel
example : (stftPlanUnclamped (1 / 8192) (64 / 8192) (32 / 8192) 0).toTuple = (8192, 64, 32, 128, 0, 1 / 256) := by
  decide +kernel
-- `C15_stft_long_window` is not vacuous: the clamped window, noverlap < len
example : (stftAxes 50 (1 / 4) (1 / 8192) (51 / 8192) (25 / 8192)).toOption.map
    (fun a => (a.nperseg, a.noverlap, a.time.step, a.time.coords.take 2, a.time.coords.length)) =
    some (50, 26, 3 / 1024, [1 / 4, 259 / 1024], 4) := by decide +kernel
example : (stftAxes 50 (1 / 4) (1 / 8192) (51 / 8192) (25 / 8192)).toOption.map
    (fun a => (a.freq.step, a.freq.coords.length, axisOk (1 / 4) a.time, axisOk 0 a.freq)) =
    some (4096 / 25, 26, true, true) := by decide +kernel
-- … and scipy still rejects an overlap that is not shorter than the shortened window (unchanged by the repair)
example : stftAxes 50 0 (1 / 8192) (64 / 8192) (10 / 8192) = .error .value := by decide +kernel
example : stftAxesUnclamped 50 0 (1 / 8192) (64 / 8192) (10 / 8192) = .error .value := by decide +kernel
-- a first stage that realises its advertised step exactly (96 samples at 48 kHz to 16 kHz: 32 points) can be
-- resampled again truthfully
example : (resampleAxis 32 0 (1 / 16000) (1 / 16000) 160000).toOption.map (fun a => (a.coords.length, axisOk 0 a)) =
    some (320, true) := by decide +kernel

/-! ### follow-up (histories and construction paths): options, positional calls, sessions -/

/-- the defaults (`padded=True`, `boundary="zeros"`) of the option-aware model are the model of the
    code all other theorems are about -/
theorem C15_stft_options_default (len : Nat) (t0 step w h : Rat) :
    stftAxesOpt true true len t0 step w h = stftAxes len t0 step w h := by
  unfold stftAxesOpt stftAxes stftAxesGen
  have hc : stftClamp true (stftNperseg step w) len = min (stftNperseg step w) (len : Int) := by
    simp [stftClamp]
  rw [hc]
  have hm : min (min (stftNperseg step w) (len : Int)) (len : Int) = min (stftNperseg step w) (len : Int) := by
    omega
  simp only [hm, stftFirst, stftCountOpt, stftCount, if_true, Bool.false_eq_true, if_false]

/-- whatever `padded` / `boundary` are, both axes are exactly `first + k·step` for their advertised
    steps — the time axis starting at the source's start or (no boundary extension) at the centre of
    the first whole window — and the monitor accepts them -/
theorem C15_stft_options_truthful (padded ext : Bool) (len : Nat) (t0 step w h : Rat) (a : SpecAxes)
    (hok : stftAxesOpt padded ext len t0 step w h = .ok a) :
    (∀ k (hk : k < a.time.coords.length),
      a.time.coords[k] = stftFirst ext t0 step a.nperseg + (k : Rat) * a.time.step) ∧
    (∀ k (hk : k < a.freq.coords.length), a.freq.coords[k] = (k : Rat) * a.freq.step) ∧
    (0 < step → axisOk (stftFirst ext t0 step a.nperseg) a.time = true ∧ axisOk 0 a.freq = true) := by
  obtain ⟨_, hn1, hov, rfl⟩ := stftAxesOpt_ok padded ext len t0 step w h a hok
  have ht : ∀ k (hk : k < (stftTimes (stftFirst ext t0 step (min (stftNperseg step w) (len : Int))) step
        (min (stftNperseg step w) (len : Int) - stftNoverlap step w h)
        (stftCountOpt padded ext len (min (stftNperseg step w) (len : Int)) (stftNoverlap step w h))).length),
      (stftTimes (stftFirst ext t0 step (min (stftNperseg step w) (len : Int))) step
        (min (stftNperseg step w) (len : Int) - stftNoverlap step w h)
        (stftCountOpt padded ext len (min (stftNperseg step w) (len : Int)) (stftNoverlap step w h)))[k] =
      stftFirst ext t0 step (min (stftNperseg step w) (len : Int)) + (k : Rat) *
        (((min (stftNperseg step w) (len : Int) - stftNoverlap step w h : Int) : Rat) / (1 / step)) := by
    intro k hk
    rw [stftTimes_getElem]; push_cast; field_simp
  have hf : ∀ k (hk : k < (stftFreqs step (min (stftNperseg step w) (len : Int))).length),
      (stftFreqs step (min (stftNperseg step w) (len : Int)))[k] =
        (k : Rat) * (1 / step / ((min (stftNperseg step w) (len : Int) : Int) : Rat)) := by
    intro k hk; rw [stftFreqs_getElem]
  refine ⟨ht, hf, fun hstep => ?_⟩
  have hts : (0 : Rat) < ((min (stftNperseg step w) (len : Int) - stftNoverlap step w h : Int) : Rat) / (1 / step) := by
    apply div_pos _ (one_div_pos.mpr hstep)
    exact_mod_cast (by omega : (0 : Int) < min (stftNperseg step w) (len : Int) - stftNoverlap step w h)
  have hfs : (0 : Rat) < 1 / step / ((min (stftNperseg step w) (len : Int) : Int) : Rat) := by
    apply div_pos (one_div_pos.mpr hstep)
    exact_mod_cast (by omega : (0 : Int) < min (stftNperseg step w) (len : Int))
  constructor
  · rw [C15_monitor_meaning]
    refine ⟨fun i hi => ?_, fun h0 => ?_, fun i hi => ?_⟩
    · simp only at hi ⊢
      rw [ht i (by omega), ht (i + 1) hi]; push_cast at hts ⊢; nlinarith
    · simp only at h0 ⊢
      rw [ht 0 h0]; simp
    · simp only at hi ⊢
      rw [ht i hi]; simpa using hts
  · rw [C15_monitor_meaning]
    refine ⟨fun i hi => ?_, fun h0 => ?_, fun i hi => ?_⟩
    · simp only at hi ⊢
      rw [hf i (by omega), hf (i + 1) hi]
      generalize 1 / step / ((min (stftNperseg step w) (len : Int) : Int) : Rat) = q at hfs ⊢
      push_cast; nlinarith
    · simp only at h0 ⊢
      rw [hf 0 h0]; simp
    · simp only at hi ⊢
      rw [hf i hi]; simpa using hfs

/-- the options never reach the window, the overlap, the advertised steps or the frequency axis: a
    call with any `padded` / `boundary` succeeds exactly when the default call does, and they agree on
    all of these (only the number of segments, and for `boundary=None` the first centre, differ) -/
theorem C15_stft_options_same_steps (padded ext : Bool) (len : Nat) (t0 step w h : Rat) (a : SpecAxes)
    (hok : stftAxesOpt padded ext len t0 step w h = .ok a) :
    ∃ b, stftAxes len t0 step w h = .ok b ∧ a.nperseg = b.nperseg ∧ a.noverlap = b.noverlap ∧
      a.time.step = b.time.step ∧ a.freq = b.freq := by
  obtain ⟨h0, hn1, hov, rfl⟩ := stftAxesOpt_ok padded ext len t0 step w h a hok
  rw [← C15_stft_options_default]
  unfold stftAxesOpt
  have h1 : len ≠ 0 := by omega
  have h2 : ¬ min (stftNperseg step w) (len : Int) < 1 := by omega
  have h3 : ¬ stftNoverlap step w h ≥ min (stftNperseg step w) (len : Int) := by omega
  simp only [h1, h2, h3, if_false]
  exact ⟨_, rfl, rfl, rfl, rfl, rfl⟩

/-- positional calls: under a signature without repeated names the i-th positional value is bound to
    the i-th documented parameter — a positional call *is* the keyword call with the documented names -/
theorem C15_positional_binding {α : Type} (params : List String) (args : List α) (hnd : params.Nodup)
    (hlen : args.length ≤ params.length) (i : Nat) (hi : i < args.length) :
    (bindPositional params args).lookup (params[i]'(by omega)) = some args[i] := by
  unfold bindPositional
  induction params generalizing args i with
  | nil =>
    have : args.length = 0 := by simpa using hlen
    omega
  | cons p ps ih =>
    cases args with
    | nil => simp at hi
    | cons x xs =>
      cases i with
      | zero => simp
      | succ j =>
        have hnd' := List.nodup_cons.mp hnd
        have hj : j < xs.length := by simpa using hi
        have hlen' : xs.length ≤ ps.length := by simpa using hlen
        have hne : (ps[j]'(by omega) == p) = false := by
          simp only [beq_eq_false_iff_ne, ne_eq]
          intro he
          exact hnd'.1 (he ▸ List.getElem_mem (by omega))
        simp only [List.zip_cons_cons, List.getElem_cons_succ, List.lookup, hne]
        exact ih xs hnd'.2 hlen' j hj

/-- … and the documented signatures of the four public functions have no repeated names, the audio
    array / clip / recording first and the numeric parameters in the documented order -/
theorem C15_signatures_wellformed :
    (∀ fn ∈ signatures.map (·.1), (paramsOf fn).Nodup) ∧
    paramsOf "compute_spectrogram" = ["audio", "window_size", "hop_size", "window_type", "detrend", "padded", "boundary"] ∧
    paramsOf "resample" = ["array", "target_samplerate", "window", "dim"] ∧
    paramsOf "load_clip" = ["clip", "audio_dir"] ∧ paramsOf "load_recording" = ["recording", "audio_dir"] := by
  decide

/-! #### sessions -/

theorem runSession_snoc (S : Source) (steps : List Step) (st : Step) :
    runSession S (steps ++ [st]) = runSession S steps ++ [evalStep S (runSession S steps) st] := by
  simp [runSession, List.foldl_append]

/-- one value per step -/
theorem C15_session_length (S : Source) (steps : List Step) : (runSession S steps).length = steps.length := by
  induction steps using List.reverseRecOn with
  | nil => simp [runSession]
  | append_singleton l st ih => rw [runSession_snoc]; simp [ih]

/-- later steps never change what earlier steps produced (no call writes into an earlier array, no
    result aliases internal state): the values of a session are a prefix of those of every extension -/
theorem C15_session_prefix (S : Source) (steps more : List Step) :
    (runSession S (steps ++ more)).take steps.length = runSession S steps := by
  induction more using List.reverseRecOn with
  | nil => simp [← C15_session_length S steps]
  | append_singleton l st ih =>
    rw [← List.append_assoc, runSession_snoc, List.take_append_of_le_length]
    · exact ih
    · rw [C15_session_length]; simp

/-- every step is the base operation's model applied to the values its sources had when *they* were
    produced — nothing else of the history enters -/
theorem C15_session_step (S : Source) (steps : List Step) (k : Nat) (hk : k < steps.length) :
    (runSession S steps)[k]? = some (evalStep S (runSession S (steps.take k)) steps[k]) := by
  have hsplit : steps = steps.take k ++ [steps[k]] ++ steps.drop (k + 1) := by
    rw [List.append_assoc, List.singleton_append, List.getElem_cons_drop, List.take_append_drop]
  have hp := C15_session_prefix S (steps.take k ++ [steps[k]]) (steps.drop (k + 1))
  rw [← hsplit] at hp
  have hl : (steps.take k ++ [steps[k]]).length = k + 1 := by simp; omega
  rw [hl, runSession_snoc] at hp
  have hlk : (runSession S (steps.take k)).length = k := by rw [C15_session_length]; simp; omega
  have : ((runSession S steps).take (k + 1))[k]? = some (evalStep S (runSession S (steps.take k)) steps[k]) := by
    rw [hp, List.getElem?_append_right (by omega), hlk]; simp
  rw [List.getElem?_take] at this
  simpa using this

/-- looking at an earlier array again gives that array -/
theorem C15_session_look (S : Source) (steps : List Step) (k j : Nat) (hk : k < steps.length)
    (hst : steps[k] = .look j) (hj : j < k) (a : Axis)
    (hv : (runSession S steps)[j]? = some (.ok (.audio a))) :
    (runSession S steps)[k]? = some (.ok (.audio a)) := by
  rw [C15_session_step S steps k hk, hst]
  have hp := C15_session_prefix S (steps.take k) (steps.drop k)
  rw [List.take_append_drop] at hp
  have hjk : (runSession S (steps.take k))[j]? = some (.ok (.audio a)) := by
    rw [← hp, List.getElem?_take]
    have : j < (steps.take k).length := by simp; omega
    simp only [this, hv, if_true]
  simp [evalStep, srcAudio, hjk]

theorem exact_iff (a : Axis) :
    a.exact = true ↔ ∀ h : 1 < a.coords.length, a.coords[1] - a.coords[0] = a.step := by
  obtain ⟨coords, st⟩ := a
  match coords with
  | [] => simp [Axis.exact]
  | [x] => simp [Axis.exact]
  | x :: y :: t => simp [Axis.exact]

theorem srcAudio_ok (env : List (Except AErr SVal)) (j : Nat) (a : Axis) (h : srcAudio env j = .ok a) :
    env[j]? = some (.ok (.audio a)) := by
  unfold srcAudio at h
  split at h <;> simp_all

/-- arrays that come straight from a file have the spacing they advertise -/
theorem C15_loaded_exact :
    (∀ (file : List Frame) (ch sr : Nat) (s e : Rat) (a : TimeArray), loadClip file ch sr s e = .ok a →
      (⟨a.times, a.step⟩ : Axis).exact = true) ∧
    (∀ (file : List Frame) (sr : Nat) (d : Rat) (a : TimeArray), loadRecording file sr d = .ok a →
      (⟨a.times, a.step⟩ : Axis).exact = true) := by
  constructor
  · intro file ch sr s e a h
    obtain ⟨_, _, _, _, rfl⟩ := loadClip_ok file ch sr s e a h
    rw [exact_iff]; intro h1
    simp only [lattice_getElem]; push_cast; ring
  · intro file sr d a h
    obtain ⟨_, rfl⟩ := loadRecording_ok file sr d a h
    rw [exact_iff]; intro h1
    simp only [lattice_getElem]; push_cast; ring

/-- a resampled array has the spacing it advertises exactly when the number of output samples is the
    exact ratio (no truncation happened): only then may it be resampled again truthfully
    (`C15_resample_chain_untruthful`, known finding C15-2) -/
theorem C15_resample_exact_iff (n : Nat) (t0 t1 step : Rat) (target : Nat) (a : Axis)
    (h : resampleAxis n t0 t1 step target = .ok a) (h2 : 1 < a.coords.length) :
    a.exact = true ↔ (n : Rat) * (target : Rat) * (t1 - t0) = (a.coords.length : Rat) := by
  have hd0 := (C15_resample_drift n t0 t1 step target a h 0 (by omega)).2
  have hsp := C15_resample_span n t0 t1 step target a h
  have hst : a.step = 1 / (target : Rat) := by
    obtain ⟨_, _, rfl⟩ := resampleAxis_ok n t0 t1 step target a h; rfl
  have hT : (0 : Rat) < target := by exact_mod_cast hd0
  have hL : (0 : Rat) < (a.coords.length : Rat) := by exact_mod_cast (by omega : 0 < a.coords.length)
  rw [exact_iff]
  constructor
  · intro he
    have := he h2
    rw [hsp 1 h2, hsp 0 (by omega), hst] at this
    field_simp at this
    push_cast at this
    linarith
  · intro he _
    rw [hsp 1 h2, hsp 0 (by omega), hst]
    field_simp
    push_cast
    linarith

/-- the invariant of a session: audio axes are arithmetic progressions the monitor accepts (relative
    to their own start) with a positive advertised step; spectrogram axes are accepted by the monitor -/
def goodVal : SVal → Prop
  | .audio a => a.good
  | .spec s => SVal.truthful (.spec s) = true

theorem bind_ok {ε α β : Type} {x : Except ε α} {f : α → Except ε β} {b : β} (h : x >>= f = .ok b) :
    ∃ a, x = .ok a ∧ f a = .ok b := by
  cases x with
  | error e => simp [bind, Except.bind] at h
  | ok a => exact ⟨a, rfl, h⟩

theorem step_good (S : Source) (env : List (Except AErr SVal)) (st : Step) (v : SVal)
    (henv : ∀ (j : Nat) (a : Axis), env[j]? = some (Except.ok (SVal.audio a)) → a.good)
    (hex : ∀ (j target : Nat), st = Step.resample j target →
      ∀ a : Axis, env[j]? = some (Except.ok (SVal.audio a)) → a.exact = true)
    (hv : evalStep S env st = .ok v) : goodVal v := by
  cases st with
  | loadClip s e =>
    simp only [evalStep] at hv
    cases hl : loadClip S.file S.ch S.sr s e with
    | error e => simp [hl, Except.map] at hv
    | ok a =>
      simp only [hl, Except.map, Except.ok.injEq] at hv
      subst hv
      obtain ⟨_, hsr, _, _, rfl⟩ := loadClip_ok _ _ _ _ _ a hl
      exact good_lattice _ _ _ (one_div_pos.mpr (by exact_mod_cast hsr))
  | loadRecording =>
    simp only [evalStep] at hv
    cases hl : loadRecording S.file S.sr S.duration with
    | error e => simp [hl, Except.map] at hv
    | ok a =>
      simp only [hl, Except.map, Except.ok.injEq] at hv
      subst hv
      obtain ⟨hsr, rfl⟩ := loadRecording_ok _ _ _ a hl
      exact good_lattice _ _ _ (one_div_pos.mpr (by exact_mod_cast hsr))
  | resample j target =>
    obtain ⟨x, hs, h1⟩ := bind_ok (show (srcAudio env j >>= fun a =>
      resampleAxis a.coords.length (a.coords.headD 0) (a.coords.getD 1 0) a.step target >>= fun r =>
        pure (SVal.audio r)) = .ok v from hv)
    obtain ⟨r, hr, h2⟩ := bind_ok h1
    cases h2
    have hx := henv j x (srcAudio_ok env j x hs)
    have hxe := hex j target rfl x (srcAudio_ok env j x hs)
    obtain ⟨hn2, _, _⟩ := resampleAxis_ok _ _ _ _ _ r hr
    have hdt : x.coords.getD 1 0 - x.coords.headD 0 = x.step := by
      have := (exact_iff x).mp hxe (by omega)
      rw [headD_eq_getElem _ (by omega)]
      have h1 : x.coords.getD 1 0 = x.coords[1]'(by omega) := by
        simp [List.getD, List.getElem?_eq_getElem (show 1 < x.coords.length by omega)]
      rw [h1]; exact this
    have hok := C15_axis_ok_resample _ _ _ _ _ r hr hx.1 hdt
    have hlen := (C15_resample_length _ _ _ _ _ r hr hx.1)
    have hT := (C15_resample_drift _ _ _ _ _ r hr 0 hlen.2.1).2
    have hhead : r.coords.headD 0 = x.coords.headD 0 := by
      rw [headD_eq_getElem _ hlen.2.1]
      exact ((axisOk_iff _ _).mp hok).2.1 hlen.2.1
    refine ⟨?_, axisOk_headD _ _ hok,
      (x.coords.length : Rat) * (x.coords.getD 1 0 - x.coords.headD 0) / (r.coords.length : Rat), fun i hi => ?_⟩
    · rw [hlen.1]; exact one_div_pos.mpr (by exact_mod_cast hT)
    · rw [hhead]; exact C15_resample_span _ _ _ _ _ r hr i hi
  | spectrogram j w h padded ext =>
    obtain ⟨x, hs, h1⟩ := bind_ok (show (srcAudio env j >>= fun a =>
      stftAxesOpt padded ext a.coords.length (a.coords.headD 0) a.step w h >>= fun r =>
        pure (SVal.spec r)) = .ok v from hv)
    obtain ⟨r, hr, h2⟩ := bind_ok h1
    cases h2
    have hx := henv j x (srcAudio_ok env j x hs)
    have := (C15_stft_options_truthful padded ext _ _ _ _ _ r hr).2.2 hx.1
    simp only [goodVal, SVal.truthful, Bool.and_eq_true]
    exact ⟨axisOk_headD _ _ this.1, this.2⟩
  | slice j a b =>
    obtain ⟨x, hs, h1⟩ := bind_ok (show (srcAudio env j >>= fun x =>
      pure (SVal.audio ⟨(x.coords.take b).drop a, x.step⟩)) = .ok v from hv)
    cases h1
    exact good_slice x a b (henv j x (srcAudio_ok env j x hs))
  | look j =>
    obtain ⟨x, hs, h1⟩ := bind_ok (show (srcAudio env j >>= fun x => pure (SVal.audio x)) = .ok v from hv)
    cases h1
    exact henv j x (srcAudio_ok env j x hs)

theorem session_good (S : Source) (steps : List Step)
    (hex : ∀ (k j target : Nat), steps[k]? = some (Step.resample j target) →
      ∀ a : Axis, (runSession S steps)[j]? = some (Except.ok (SVal.audio a)) → j < k → a.exact = true) :
    ∀ (k : Nat) (v : SVal), (runSession S steps)[k]? = some (Except.ok v) → goodVal v := by
  induction steps using List.reverseRecOn with
  | nil => intro k v h; simp [runSession] at h
  | append_singleton l st ih =>
    have hlen := C15_session_length S l
    have hpre : ∀ j, j < l.length → (runSession S (l ++ [st]))[j]? = (runSession S l)[j]? := by
      intro j hj; rw [runSession_snoc, List.getElem?_append_left (by omega)]
    have ih' := ih (fun k j target hk a ha hjk => by
      have hkl : k < l.length := by
        by_contra hc
        rw [List.getElem?_eq_none (by omega)] at hk; simp at hk
      refine hex k j target ?_ a ?_ hjk
      · rw [List.getElem?_append_left hkl]; exact hk
      · rw [hpre j (by omega)]; exact ha)
    intro k v hk
    by_cases hkl : k < l.length
    · rw [hpre k hkl] at hk; exact ih' k v hk
    · rw [runSession_snoc] at hk
      by_cases hke : k = l.length
      · subst hke
        rw [List.getElem?_append_right (by omega), hlen] at hk
        simp only [Nat.sub_self, List.getElem?_cons_zero, Option.some.injEq] at hk
        refine step_good S (runSession S l) st v (fun j a ha => ih' j (.audio a) ha) ?_ hk
        intro j target hst a ha
        have hjl : j < l.length := by
          by_contra hc
          rw [List.getElem?_eq_none (by omega)] at ha; simp at ha
        refine hex l.length j target ?_ a ?_ hjl
        · rw [List.getElem?_append_right (by omega)]; simp [hst]
        · rw [hpre j hjl]; exact ha
      · rw [List.getElem?_eq_none (by simp; omega)] at hk; simp at hk

/-- **sessions tell the truth**: in every session in which `resample` is only applied to arrays whose
    spacing is their advertised step (arrays from a file always are, `C15_loaded_exact`; a resampled
    array iff no truncation happened, `C15_resample_exact_iff`), *every* array produced — loaded,
    resampled, sliced, looked at again, and both axes of every spectrogram for every `padded` /
    `boundary` — is strictly increasing and within one advertised step of `first + i·step`, and every
    audio array advertises a positive step.  Together with `C15_session_prefix` (values never change
    afterwards) this is the property over histories. -/
theorem C15_session_truthful (S : Source) (steps : List Step)
    (hex : ∀ (k j target : Nat), steps[k]? = some (Step.resample j target) →
      ∀ a : Axis, (runSession S steps)[j]? = some (Except.ok (SVal.audio a)) → j < k → a.exact = true)
    (k : Nat) (v : SVal) (hv : (runSession S steps)[k]? = some (Except.ok v)) :
    v.truthful = true ∧ ∀ a, v = .audio a → 0 < a.step := by
  have := session_good S steps hex k v hv
  cases v with
  | audio a => exact ⟨this.2.1, fun b hb => by cases hb; exact this.1⟩
  | spec s => exact ⟨this, fun b hb => by cases hb⟩

-- non-vacuity of the follow-up theorems
-- options: 20 samples at 8 Hz from 0.5 s, window 1 s, hop 0.375 s (3 samples): 8 / 7 / 5 / 5 segments, the first
-- at the source's start or, without a boundary extension, half a window (0.5 s) later; steps are those of the default
example : [(true, true), (false, true), (true, false), (false, false)].map (fun (p : Bool × Bool) =>
    (stftAxesOpt p.1 p.2 20 (1 / 2) (1 / 8) 1 (3 / 8)).toOption.map
      (fun a => (a.time.coords.length, a.time.coords.head?, a.time.step, a.freq.step))) =
    [some (8, some (1 / 2), 3 / 8, 1), some (7, some (1 / 2), 3 / 8, 1),
     some (5, some 1, 3 / 8, 1), some (5, some 1, 3 / 8, 1)] := by decide +kernel
example : (stftAxesOpt false false 20 (1 / 2) (1 / 8) 1 (3 / 8)).toOption.map
    (fun a => (axisOk (stftFirst false (1 / 2) (1 / 8) a.nperseg) a.time, axisOk 0 a.freq)) = some (true, true) := by
  decide +kernel
-- positional binding on the documented signature
example : (bindPositional (paramsOf "compute_spectrogram") ["audio", "0.02", "0.01", "hamming"]).lookup "hop_size" =
    some "0.01" := by decide
example : (bindPositional (paramsOf "resample") ["array", "8000"]).lookup "target_samplerate" = some "8000" := by decide
-- a session on the 6-frame demo file at 4 Hz: clip, its spectrogram (no padding, no boundary), an exact resampling
-- (6 x 8 / 4 = 12 samples), a resampling of that, a slice, a second look at the clip, a spectrogram of the slice:
-- every value truthful, the resampled arrays exact, the hypothesis of `C15_session_truthful` satisfied
example : (runSession ⟨demoFile, 2, 4, 3 / 2⟩
      [.loadClip (1 / 8) (3 / 2), .spectrogram 0 (1 / 2) (1 / 4) false false, .resample 0 8, .resample 2 16,
       .slice 3 2 9, .look 0, .loadRecording, .spectrogram 4 (1 / 4) (1 / 16) true true]).map
    (fun r => r.toOption.map fun v => (v.truthful, match v with | .audio a => (a.coords.length, a.exact) | .spec s => (s.time.coords.length, true))) =
    [some (true, 5, true), some (true, 4, true), some (true, 10, true), some (true, 20, true), some (true, 7, true),
     some (true, 5, true), some (true, 6, true), some (true, 8, true)] := by decide +kernel
-- … and a resampling that truncates (5 x 6 / 4 = 7.5 -> 7 samples) is not exact: resampling *it* is outside the hypothesis
example : (runSession ⟨demoFile, 2, 4, 3 / 2⟩ [.loadClip (1 / 8) (3 / 2), .resample 0 6]).map
    (fun r => r.toOption.map fun v => (v.truthful, match v with | .audio a => a.exact | .spec _ => true)) =
    [some (true, true), some (true, false)] := by decide +kernel


/-! ### the file system is state: the WAV file under a path is rewritten between loads (follow-up, wave 5)

`SoundeventModel/Audio/FileSys.lean`: a one-cell-per-path file system, the calls `put` (somebody rewrites the
file: a longer / shorter take, another samplerate, another channel count, other samples of equal length), `rm`,
`Recording.from_file`, `load_clip`, `load_recording`.  Every read answers for the content its path holds at that
moment; nothing an earlier call saw survives. -/
section FileSystem
open SE.Audio.FS SE.History

/-- reads (`from_file`, `load_clip`, `load_recording`) never change the file system -/
theorem C15_fs_reads_never_write (fs : FileSys) (c : Cmd) (h : c.target = none) : (exec fs c).1 = fs := by
  cases c <;> simp_all [exec, Cmd.target]

/-- calls that do not write to `p` leave what `p` holds alone -/
theorem fs_frame (ys : List Cmd) (fs : FileSys) (p : String) (h : ∀ y ∈ ys, y.target ≠ some p) :
    stateAfter exec fs ys p = fs p := by
  induction ys generalizing fs with
  | nil => rfl
  | cons y ys ih =>
    have hy := h y (by simp)
    simp only [stateAfter]
    rw [ih _ (fun z hz => h z (by simp [hz]))]
    cases y with
    | put q w =>
      have : p ≠ q := fun e => hy (by simp [Cmd.target, e])
      simp [exec, write, this]
    | rm q =>
      have : p ≠ q := fun e => hy (by simp [Cmd.target, e])
      simp [exec, remove, this]
    | fromFile q te => rfl
    | loadClip r s e => rfl
    | loadRecording r => rfl

/-- **Load after rewrite (every history).**  Whatever calls `xs` came first — whatever the path held before
    (a shorter or longer take, another samplerate, another channel count, other samples, nothing) and however
    often it was loaded —, once the file under `p` has been (re)written with `w`, and whatever calls `ys` that do
    not write to `p` follow (loads of any path, rewrites of other paths), every read of `p` answers for `w`:
    `load_clip` returns the model's clip of `w`'s frames (so `C15_clip_length / _frames / _times` speak about the
    *new* content), `load_recording` the model's recording of them, `Recording.from_file` describes `w`. -/
theorem C15_fs_load_after_rewrite (fs0 : FileSys) (xs ys : List Cmd) (p : String) (w : Wav)
    (hys : ∀ y ∈ ys, y.target ≠ some p) :
    (∀ (r : Rec) (s e : Rat), r.path = p →
      (exec (stateAfter exec fs0 (xs ++ Cmd.put p w :: ys)) (.loadClip r s e)).2
        = .array (loadClip w.frames w.ch r.sr s e)) ∧
    (∀ (r : Rec), r.path = p →
      (exec (stateAfter exec fs0 (xs ++ Cmd.put p w :: ys)) (.loadRecording r)).2
        = .array (loadRecording w.frames r.sr r.duration)) ∧
    (∀ te : Rat, (exec (stateAfter exec fs0 (xs ++ Cmd.put p w :: ys)) (.fromFile p te)).2
        = .recording ⟨p, (recordingOf w.frames.length w.fsr te).1, (recordingOf w.frames.length w.fsr te).2⟩) := by
  have h1 : FS.read p (stateAfter exec fs0 (xs ++ Cmd.put p w :: ys)) = some w := by
    rw [stateAfter_append]
    simp only [stateAfter]
    show stateAfter exec (exec (stateAfter exec fs0 xs) (Cmd.put p w)).1 ys p = some w
    rw [fs_frame ys _ p hys]
    simp [exec, write]
  generalize stateAfter exec fs0 (xs ++ Cmd.put p w :: ys) = fs at h1
  refine ⟨?_, ?_, ?_⟩
  · intro r s e hr; subst hr; simp [exec, load, h1, answer]
  · intro r hr; subst hr; simp [exec, load, h1, answer]
  · intro te; simp [exec, load, h1, answer, recOf]

/-- a take — the file is (re)written, described by `Recording.from_file`, a clip and the whole recording are
    loaded — answers as the pure model does, in **every** file system -/
theorem C15_fs_take (fs : FileSys) (t : Take) : (takeStep fs t).2 = takePure t := by
  simp [takeStep, takeStepW, takePure, exec, load, FS.read, write, answer, outArray, recOf]

/-- takes are history-free: no reachable file system changes an answer -/
theorem C15_fs_history_free (fs0 : FileSys) : HistoryFree takeStep fs0 takePure :=
  fun s _ t => C15_fs_take s t

/-- **Every history of takes** — the same path again and again with longer, shorter, re-sampled, re-channelled,
    re-valued files, other paths in between, any previous content — answers step by step as the pure model on the
    content written at that step (instance of `History.historyFree_iff`) -/
theorem C15_fs_history (fs0 : FileSys) (xs : List Take) : runS takeStep fs0 xs = runPure takePure xs :=
  (historyFree_iff takeStep fs0 takePure).1 (C15_fs_history_free fs0) xs

/-- … and the recording loaded at every step is exactly the frames written at that step, on the axis
    `k / (file rate × expansion)` (for every time-expansion factor that keeps the samplerate whole) -/
theorem C15_fs_history_recording (fs0 : FileSys) (xs : List Take)
    (h : ∀ t ∈ xs, 0 < t.wav.fsr ∧ 0 < t.te ∧ ∃ m : Nat, (t.wav.fsr : Rat) * t.te = m) :
    (runS takeStep fs0 xs).map (·.2) = xs.map fun t =>
      .ok ⟨t.wav.frames, lattice 0 (1 / ((t.wav.fsr : Rat) * t.te)) t.wav.frames.length,
           1 / ((t.wav.fsr : Rat) * t.te)⟩ := by
  rw [C15_fs_history]
  unfold runPure
  rw [List.map_map]
  apply List.map_congr_left
  intro t ht
  obtain ⟨hf, hte, hint⟩ := h t ht
  simp only [Function.comp, takePure, recOf]
  exact C15_recording_of_file t.wav.frames t.wav.fsr t.te hf hte hint

/-! non-vacuity: a 3-frame take, then a 6-frame take under the same path (4 Hz, stereo), then a mono take at
    8 Hz, another path in between; an implementation that keeps sound files open per path (seeded C15-10) is *not*
    history-free on exactly that history: after the rewrite it still answers for the first take -/
def exTake1 : Wav := ⟨demoFile.take 3, 2, 4⟩
def exTake2 : Wav := ⟨demoFile, 2, 4⟩
def exTake3 : Wav := ⟨[[7], [8], [9], [10]], 1, 8⟩
def exTakes : List Take :=
  [⟨"a.wav", exTake1, 1, 1 / 4, 5 / 4⟩, ⟨"a.wav", exTake2, 1, 1 / 4, 5 / 4⟩, ⟨"b.wav", exTake1, 1, 0, 1 / 2⟩,
   ⟨"a.wav", exTake3, 1, 1 / 8, 1 / 2⟩, ⟨"a.wav", exTake1, 2, 0, 1 / 4⟩]
def exView (o : TakeOut) : List (Option (List Frame × List Rat)) :=
  [o.1.toOption.map fun a => (a.frames, a.times), o.2.toOption.map fun a => (a.frames, a.times)]

example : (runS takeStep FS.empty exTakes).map exView =
    [[some ([[2, -2], [3, -3], [0, 0], [0, 0]], [1 / 4, 1 / 2, 3 / 4, 1]),
      some ([[1, -1], [2, -2], [3, -3]], [0, 1 / 4, 1 / 2])],
     [some ([[2, -2], [3, -3], [4, -4], [5, -5]], [1 / 4, 1 / 2, 3 / 4, 1]),
      some (demoFile, [0, 1 / 4, 1 / 2, 3 / 4, 1, 5 / 4])],
     [some ([[1, -1], [2, -2]], [0, 1 / 4]), some ([[1, -1], [2, -2], [3, -3]], [0, 1 / 4, 1 / 2])],
     [some ([[8], [9], [10]], [1 / 8, 1 / 4, 3 / 8]), some ([[7], [8], [9], [10]], [0, 1 / 8, 1 / 4, 3 / 8])],
     [some ([[1, -1], [2, -2]], [0, 1 / 8]), some ([[1, -1], [2, -2], [3, -3]], [0, 1 / 8, 1 / 4])]] := by
  decide +kernel
example : ∀ t ∈ exTakes, 0 < t.wav.fsr ∧ 0 < t.te ∧ ∃ m : Nat, (t.wav.fsr : Rat) * t.te = m := by
  intro t ht
  simp only [exTakes, List.mem_cons, List.not_mem_nil, or_false] at ht
  rcases ht with rfl | rfl | rfl | rfl | rfl
  · exact ⟨by decide, by decide +kernel, 4, by decide +kernel⟩
  · exact ⟨by decide, by decide +kernel, 4, by decide +kernel⟩
  · exact ⟨by decide, by decide +kernel, 4, by decide +kernel⟩
  · exact ⟨by decide, by decide +kernel, 8, by decide +kernel⟩
  · exact ⟨by decide, by decide +kernel, 8, by decide +kernel⟩
-- the stale-handle implementation: the second take of "a.wav" is answered from the first one's handle (frames
-- that now exist come back as zeros; the recording's data no longer fits its axis: `shape`)
example : ((runS (takeStepW execStale) (FS.empty, []) exTakes).map exView)[1]? =
    some [some ([[2, -2], [3, -3], [0, 0], [0, 0]], [1 / 4, 1 / 2, 3 / 4, 1]), none] := by decide +kernel
example : (runS (takeStepW execStale) (FS.empty, []) exTakes).map exView ≠ (runPure takePure exTakes).map exView := by
  decide +kernel

end FileSystem


end SE.Proofs.C15
