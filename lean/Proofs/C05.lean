/- C05 — property theorems (to be written). -/
import SoundeventModel.Basic
namespace SE.Proofs.C05

end SE.Proofs.C05
