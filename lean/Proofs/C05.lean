/-
  C05 — Bounds, geometric features and anchor points agree with the coordinates.
  Property theorems only (helper lemmas live in Proofs/Lemmas/Bounds.lean).

  Reading guide: `SE.Geom.bounds` models `compute_bounds`, `SE.Bnd.toShape` models
  `geometry_to_shapely`, `SE.Bnd.features` models `compute_geometric_features`,
  `SE.Bnd.pointAt` models `get_geometry_point`.  `IsBoundsOf b pts` says that `b` is
  (min time, min frequency, max time, max frequency) over `pts`.
-/
import SoundeventModel.Bounds
import Proofs.Lemmas.Bounds
import Proofs.Lemmas.Centroid
namespace SE.Proofs.C05
open SE SE.Bnd SE.Proofs.Lemmas.Bounds SE.Proofs.Lemmas.Centroid

/-! ### bounds -/

/-- `compute_bounds` is read off the converted shape: the model of `compute_bounds` in
    Geometry.lean is the envelope of the model of `geometry_to_shapely` -/
theorem C05_bounds_via_shape (g : Geom) : (toShape g).bounds = g.bounds := by
  cases g with
  | timeInterval s e =>
    -- the ring of `box(s, 0, e, MAX)` has the envelope of its two corners
    simp only [toShape, Shape.bounds, Shape.envPts, Geom.bounds, Geom.boundPts, boxRing]
    rw [ptsBounds_congr_mem _ _ (mem_closeRing _)]
    simp only [ptsBounds, List.foldl, Option.some.injEq, Bounds.mk.injEq]; grind
  | boundingBox s l e h =>
    simp only [toShape, Shape.bounds, Shape.envPts, Geom.bounds, Geom.boundPts, boxRing]
    rw [ptsBounds_congr_mem _ _ (mem_closeRing _)]
    simp only [ptsBounds, List.foldl, Option.some.injEq, Bounds.mk.injEq]; grind
  | polygon rings =>
    -- closing the shell adds no new point
    simp only [toShape, Shape.bounds, Shape.envPts, Geom.bounds, Geom.boundPts, polyOf]
    exact ptsBounds_congr_mem _ _ (mem_closeRing _)
  | multiPolygon ps =>
    simp only [toShape, Shape.bounds, Shape.envPts, Geom.bounds, Geom.boundPts, List.map_map]
    apply ptsBounds_congr_mem
    intro p
    simp only [List.mem_flatten, List.mem_map, Function.comp_apply, polyOf]
    constructor
    · rintro ⟨l, ⟨rings, hr, rfl⟩, hp⟩
      exact ⟨_, ⟨rings, hr, rfl⟩, (mem_closeRing _ p).mp hp⟩
    · rintro ⟨l, ⟨rings, hr, rfl⟩, hp⟩
      exact ⟨_, ⟨rings, hr, rfl⟩, (mem_closeRing _ p).mpr hp⟩
  | _ => rfl

/-- bounds = (min time, min frequency, max time, max frequency) over the vertices of the
    converted shape (for polygons: of the shell, see `C05_bounds_all_coordinates`) -/
theorem C05_bounds_minmax (g : Geom) (b : Bounds) (h : g.bounds = some b) :
    IsBoundsOf b g.boundPts :=
  ptsBounds_isBoundsOf _ _ h

/-- the same in terms of `listMin` / `listMax` over the two coordinate columns -/
theorem C05_bounds_minmax_columns (g : Geom) (b : Bounds) (h : g.bounds = some b) :
    listMin (g.boundPts.map (·.1)) = some b.st ∧ listMin (g.boundPts.map (·.2)) = some b.lo ∧
    listMax (g.boundPts.map (·.1)) = some b.en ∧ listMax (g.boundPts.map (·.2)) = some b.hi := by
  obtain ⟨hc, ⟨p1, hp1, e1⟩, ⟨p2, hp2, e2⟩, ⟨p3, hp3, e3⟩, ⟨p4, hp4, e4⟩⟩ := C05_bounds_minmax g b h
  refine ⟨?_, ?_, ?_, ?_⟩
  · rw [listMin_eq_some_iff]
    exact ⟨List.mem_map.mpr ⟨p1, hp1, e1⟩, by
      intro x hx; obtain ⟨p, hp, rfl⟩ := List.mem_map.mp hx; exact (hc p hp).1⟩
  · rw [listMin_eq_some_iff]
    exact ⟨List.mem_map.mpr ⟨p2, hp2, e2⟩, by
      intro x hx; obtain ⟨p, hp, rfl⟩ := List.mem_map.mp hx; exact (hc p hp).2.2.1⟩
  · rw [listMax_eq_some_iff]
    exact ⟨List.mem_map.mpr ⟨p3, hp3, e3⟩, by
      intro x hx; obtain ⟨p, hp, rfl⟩ := List.mem_map.mp hx; exact (hc p hp).2.1⟩
  · rw [listMax_eq_some_iff]
    exact ⟨List.mem_map.mpr ⟨p4, hp4, e4⟩, by
      intro x hx; obtain ⟨p, hp, rfl⟩ := List.mem_map.mp hx; exact (hc p hp).2.2.2⟩

/-- the bounding rectangle is unique: *exactly* (min, min, max, max) -/
theorem C05_bounds_unique (b b' : Bounds) (pts : List Pt)
    (h : IsBoundsOf b pts) (h' : IsBoundsOf b' pts) : b = b' :=
  isBoundsOf_unique b b' pts h h'

/-- bounds are undefined only for a geometry without vertices (no valid geometry) -/
theorem C05_bounds_defined (g : Geom) : g.bounds = none ↔ g.boundPts = [] :=
  ptsBounds_eq_none _

theorem C05_bounds_ordered (g : Geom) (b : Bounds) (h : g.bounds = some b) :
    b.st ≤ b.en ∧ b.lo ≤ b.hi :=
  isBoundsOf_ordered b _ (C05_bounds_minmax g b h)

/-- time-only geometries span the full band `[0, MAXF]` -/
theorem C05_time_only_full_band (t s e : Rat) :
    (Geom.timeStamp t).bounds = some ⟨t, 0, t, MAXF⟩ ∧
    (s ≤ e → (Geom.timeInterval s e).bounds = some ⟨s, 0, e, MAXF⟩) := by
  have hM : (0 : Rat) ≤ MAXF := by decide +kernel
  constructor
  · simp only [Geom.bounds, Geom.boundPts, ptsBounds, List.foldl, Option.some.injEq, Bounds.mk.injEq]
    grind
  · intro h
    simp only [Geom.bounds, Geom.boundPts, ptsBounds, List.foldl, Option.some.injEq, Bounds.mk.injEq]
    grind

/-- a stored box is its own bounds -/
theorem C05_box_bounds (s l e h : Rat) (h1 : s ≤ e) (h2 : l ≤ h) :
    (Geom.boundingBox s l e h).bounds = some ⟨s, l, e, h⟩ := by
  simp only [Geom.bounds, Geom.boundPts, ptsBounds, List.foldl, Option.some.injEq, Bounds.mk.injEq]
  grind

private theorem hole_in_env (rings : List (List Pt)) (hh : holesInShellEnvelope rings = true)
    (p : Pt) (hp : p ∈ rings.tail.flatten) :
    ∃ bi, ptsBounds (rings.headD []) = some bi ∧
      bi.st ≤ p.1 ∧ p.1 ≤ bi.en ∧ bi.lo ≤ p.2 ∧ p.2 ≤ bi.hi := by
  unfold holesInShellEnvelope at hh
  split at hh
  · simp only [List.isEmpty_iff] at hh
    rw [hh] at hp; simp at hp
  · rename_i bi hbi
    refine ⟨bi, hbi, ?_⟩
    have := List.all_eq_true.mp hh p hp
    simpa [Bool.and_eq_true, decide_eq_true_eq, and_assoc] using this

/-- with the holes of every polygon inside the envelope of its shell (every OGC-valid
    polygon), the bounds are (min, min, max, max) over *all* stored coordinates, hole
    vertices included; time-only types store no frequency and are covered by
    `C05_time_only_full_band` -/
theorem C05_bounds_all_coordinates (g : Geom) (b : Bounds) (hto : timeOnly g = false)
    (hh : HolesInside g = true) (h : g.bounds = some b) : IsBoundsOf b (allPts g) := by
  have hb := C05_bounds_minmax g b h
  cases g with
  | timeStamp t => simp [timeOnly] at hto
  | timeInterval s e => simp [timeOnly] at hto
  | point t f => simpa [allPts, Geom.boundPts] using hb
  | lineString pts => simpa [allPts, Geom.boundPts] using hb
  | boundingBox s l e h' => simpa [allPts, Geom.boundPts] using hb
  | multiPoint pts => simpa [allPts, Geom.boundPts] using hb
  | multiLineString ls => simpa [allPts, Geom.boundPts] using hb
  | polygon rings =>
    simp only [Geom.boundPts] at hb
    simp only [allPts]
    cases rings with
    | nil => simp [Geom.bounds, Geom.boundPts, ptsBounds] at h
    | cons shell holes =>
      simp only [List.headD_cons] at hb
      refine isBoundsOf_extend b shell _ (by intro p hp; simp [hp]) ?_ hb
      intro p hp
      simp only [List.flatten_cons, List.mem_append] at hp
      rcases hp with hp | hp
      · exact hb.contains p hp
      · obtain ⟨bi, hbi, hin⟩ := hole_in_env (shell :: holes) hh p (by simpa using hp)
        simp only [List.headD_cons] at hbi
        have : bi = b := by
          have := h; simp only [Geom.bounds, Geom.boundPts, List.headD_cons] at this
          rw [hbi] at this; simpa using this
        subst this; exact hin
  | multiPolygon ps =>
    simp only [Geom.boundPts] at hb
    simp only [allPts]
    refine isBoundsOf_extend b _ _ ?_ ?_ hb
    · -- every shell vertex is a stored coordinate
      intro p hp
      obtain ⟨l, hl, hpl⟩ := List.mem_flatten.mp hp
      obtain ⟨rings, hr, rfl⟩ := List.mem_map.mp hl
      refine List.mem_flatten.mpr ⟨rings.flatten, List.mem_map.mpr ⟨rings, hr, rfl⟩, ?_⟩
      cases rings with
      | nil => simp at hpl
      | cons shell holes => simp only [List.headD_cons] at hpl; simp [hpl]
    · intro p hp
      obtain ⟨l, hl, hpl⟩ := List.mem_flatten.mp hp
      obtain ⟨rings, hr, rfl⟩ := List.mem_map.mp hl
      have hhr : holesInShellEnvelope rings = true := by
        simp only [HolesInside, List.all_eq_true] at hh; exact hh rings hr
      cases rings with
      | nil => simp at hpl
      | cons shell holes =>
        simp only [List.flatten_cons, List.mem_append] at hpl
        have hshell : ∀ q ∈ shell, q ∈ (ps.map (fun rings => rings.headD [])).flatten := by
          intro q hq
          exact List.mem_flatten.mpr ⟨shell, List.mem_map.mpr ⟨shell :: holes, hr, by simp⟩, hq⟩
        rcases hpl with hpl | hpl
        · exact hb.contains p (hshell p hpl)
        · obtain ⟨bi, hbi, hin⟩ := hole_in_env (shell :: holes) hhr p (by simpa using hpl)
          simp only [List.headD_cons] at hbi
          obtain ⟨_, ⟨q1, hq1, e1⟩, ⟨q2, hq2, e2⟩, ⟨q3, hq3, e3⟩, ⟨q4, hq4, e4⟩⟩ :=
            ptsBounds_isBoundsOf shell bi hbi
          have c1 := hb.contains q1 (hshell q1 hq1)
          have c2 := hb.contains q2 (hshell q2 hq2)
          have c3 := hb.contains q3 (hshell q3 hq3)
          have c4 := hb.contains q4 (hshell q4 hq4)
          grind

/-- the bounds are *determined*: an observed 4-tuple passes the executable statement
    `boundsHolds` (contains every coordinate, every side attained; time-only types over the
    band `[0, MAXF]`) iff it is the model's bounds -/
theorem C05_bounds_holds_iff (g : Geom) (b b' : Bounds) (hh : HolesInside g = true)
    (h : g.bounds = some b') : boundsHolds g b = true ↔ b = b' := by
  have hspec : IsBoundsOf b' (specPts g) := by
    unfold specPts
    by_cases hto : timeOnly g = true
    · simp only [hto, if_true]; exact C05_bounds_minmax g b' h
    · simp only [hto]; exact C05_bounds_all_coordinates g b' (by simpa using hto) hh h
  unfold boundsHolds
  rw [isBoundsOfB_iff]
  constructor
  · intro hb; exact isBoundsOf_unique b b' _ hb hspec
  · rintro rfl; exact hspec

/-! ### the shapely conversion -/

/-- kind of the converted shape, per geometry type -/
theorem C05_conversion_kind (g : Geom) :
    (toShape g).kind =
      match g with
      | .timeStamp _ => "LineString"
      | .timeInterval .. => "Polygon"
      | .point .. => "Point"
      | .lineString _ => "LineString"
      | .polygon _ => "Polygon"
      | .boundingBox .. => "Polygon"
      | .multiPoint _ => "MultiPoint"
      | .multiLineString _ => "MultiLineString"
      | .multiPolygon _ => "MultiPolygon" := by
  cases g <;> rfl

private theorem map_closeRing_of_closed (rs : List (List Pt)) (h : rs.all ringClosed = true) :
    rs.map closeRing = rs := by
  calc rs.map closeRing = rs.map id :=
        List.map_congr_left (fun r hr => closeRing_of_closed r (List.all_eq_true.mp h r hr))
    _ = rs := List.map_id _

private theorem polyOf_back (rings : List (List Pt)) (hne : rings ≠ []) (h : rings.all ringClosed = true) :
    (polyOf rings).1 :: (polyOf rings).2 = rings := by
  cases rings with
  | nil => exact absurd rfl hne
  | cons a as =>
    simp only [List.all_cons, Bool.and_eq_true] at h
    simp only [polyOf, List.headD_cons, List.tail_cons, closeRing_of_closed a h.1,
      map_closeRing_of_closed as h.2]

/-- the six types whose coordinates are vertices are converted without loss: kind, part
    structure, ring structure and every coordinate in order can be read back (rings stored
    closed; shapely closes an open ring, see `C05_conversion_vertex_set`) -/
theorem C05_conversion_lossless (g : Geom) (hto : timeOnly g = false)
    (hbox : ∀ s l e h, g ≠ .boundingBox s l e h)
    (hrings : ∀ rings, g = .polygon rings → rings ≠ [])
    (hpolys : ∀ ps, g = .multiPolygon ps → ∀ rings ∈ ps, rings ≠ [])
    (hcl : RingsClosed g = true) :
    (toShape g).back = g ∧ (toShape g).kind = g.tag ∧ (toShape g).coords = allPts g := by
  cases g with
  | timeStamp t => simp [timeOnly] at hto
  | timeInterval s e => simp [timeOnly] at hto
  | boundingBox s l e h => exact absurd rfl (hbox s l e h)
  | point t f => exact ⟨rfl, rfl, rfl⟩
  | lineString pts => exact ⟨rfl, rfl, rfl⟩
  | multiPoint pts => exact ⟨rfl, rfl, rfl⟩
  | multiLineString ls => exact ⟨rfl, rfl, rfl⟩
  | polygon rings =>
    have hb := polyOf_back rings (hrings rings rfl) hcl
    refine ⟨?_, rfl, ?_⟩
    · simp only [toShape, Shape.back, hb]
    · simp only [toShape, Shape.coords, allPts]
      rw [← List.flatten_cons, hb]
  | multiPolygon ps =>
    have hb : ∀ rings ∈ ps, (polyOf rings).1 :: (polyOf rings).2 = rings := fun rings hr =>
      polyOf_back rings (hpolys ps rfl rings hr) (List.all_eq_true.mp hcl rings hr)
    refine ⟨?_, rfl, ?_⟩
    · simp only [toShape, Shape.back, List.map_map, Geom.multiPolygon.injEq]
      calc ps.map ((fun p : List Pt × List (List Pt) => p.1 :: p.2) ∘ polyOf)
          = ps.map id := List.map_congr_left (by intro r hr; simpa using hb r hr)
        _ = ps := List.map_id _
    · simp only [toShape, Shape.coords, allPts, List.map_map]
      congr 1
      apply List.map_congr_left
      intro rings hr
      simp only [Function.comp_apply]
      rw [← List.flatten_cons, hb rings hr]

/-- whatever the rings look like, the converted shape has exactly the stored coordinates as
    its vertices (closing a ring repeats a vertex, it adds no new one) -/
theorem C05_conversion_vertex_set (g : Geom) (hto : timeOnly g = false)
    (hbox : ∀ s l e h, g ≠ .boundingBox s l e h) (p : Pt) :
    p ∈ (toShape g).coords ↔ p ∈ allPts g := by
  have hpoly : ∀ rings : List (List Pt),
      p ∈ (polyOf rings).1 ++ (polyOf rings).2.flatten ↔ p ∈ rings.flatten := by
    intro rings
    cases rings with
    | nil => simp [polyOf, closeRing]
    | cons a as =>
      simp only [polyOf, List.headD_cons, List.tail_cons, List.flatten_cons, List.mem_append,
        mem_closeRing, List.mem_flatten, List.mem_map]
      constructor
      · rintro (h | ⟨l, ⟨r, hr, rfl⟩, hp⟩)
        · exact Or.inl h
        · exact Or.inr ⟨r, hr, (mem_closeRing r p).mp hp⟩
      · rintro (h | ⟨r, hr, hp⟩)
        · exact Or.inl h
        · exact Or.inr ⟨_, ⟨r, hr, rfl⟩, (mem_closeRing r p).mpr hp⟩
  cases g with
  | timeStamp t => simp [timeOnly] at hto
  | timeInterval s e => simp [timeOnly] at hto
  | boundingBox s l e h => exact absurd rfl (hbox s l e h)
  | point t f => rfl
  | lineString pts => rfl
  | multiPoint pts => rfl
  | multiLineString ls => rfl
  | polygon rings => simpa [toShape, Shape.coords, allPts] using hpoly rings
  | multiPolygon ps =>
    simp only [toShape, Shape.coords, allPts, List.map_map, List.mem_flatten, List.mem_map,
      Function.comp_apply]
    constructor
    · rintro ⟨l, ⟨rings, hr, rfl⟩, hp⟩
      exact ⟨_, ⟨rings, hr, rfl⟩, (hpoly rings).mp hp⟩
    · rintro ⟨l, ⟨rings, hr, rfl⟩, hp⟩
      exact ⟨_, ⟨rings, hr, rfl⟩, (hpoly rings).mpr hp⟩

/-- boxes and intervals become the rectangle polygon whose vertices are exactly the four
    corners (intervals: over the full band), time stamps the vertical segment over the band -/
theorem C05_conversion_box (s l e h t : Rat) :
    (∃ ring, toShape (.boundingBox s l e h) = .polygon ring [] ∧
      ∀ p, p ∈ ring ↔ p ∈ [(s, l), (s, h), (e, l), (e, h)]) ∧
    (∃ ring, toShape (.timeInterval s e) = .polygon ring [] ∧
      ∀ p, p ∈ ring ↔ p ∈ [(s, 0), (s, MAXF), (e, 0), (e, MAXF)]) ∧
    toShape (.timeStamp t) = .lineString [(t, 0), (t, MAXF)] := by
  refine ⟨⟨boxRing s l e h, rfl, ?_⟩, ⟨boxRing s 0 e MAXF, rfl, ?_⟩, rfl⟩ <;>
  · intro p; simp only [boxRing, mem_closeRing, List.mem_cons, List.not_mem_nil, or_false]; grind

/-! ### features -/

private theorem boundsFeatures_ok (b : Bounds) (n : Nat) :
    ∀ nv ∈ boundsFeatures b, ofBounds nv.1 b n = some nv.2 := by
  intro nv hnv
  simp only [boundsFeatures, List.mem_cons, List.not_mem_nil, or_false] at hnv
  rcases hnv with rfl | rfl | rfl | rfl <;> simp [ofBounds, fDuration, fLow, fHigh, fBandwidth]

private theorem segFeatures_ok (b : Bounds) (n : Nat) :
    ∀ nv ∈ boundsFeatures b ++ [(fSegments, (n : Rat))], ofBounds nv.1 b n = some nv.2 := by
  intro nv hnv
  rcases List.mem_append.mp hnv with h | h
  · exact boundsFeatures_ok b n nv h
  · simp only [List.mem_cons, List.not_mem_nil, or_false] at h
    subst h; simp [ofBounds, fDuration, fLow, fHigh, fBandwidth, fSegments]

/-- every reported feature is what its name says, computed from `compute_bounds` of the
    same geometry (and the number of parts); each type reports exactly its list of names -/
theorem C05_features_consistent (g : Geom) (b : Bounds) (ho : Ordered g) (hb : g.bounds = some b) :
    ∃ fs, features g = some fs ∧ fs.map (·.1) = expectedNames g ∧
      ∀ nv ∈ fs, ofBounds nv.1 b (parts g) = some nv.2 := by
  have hs : (toShape g).bounds = some b := by rw [C05_bounds_via_shape]; exact hb
  cases g with
  | timeStamp t =>
    have := (C05_time_only_full_band t 0 0).1
    rw [this] at hb; cases hb
    exact ⟨_, rfl, rfl, by simp [ofBounds, fDuration]⟩
  | timeInterval s e =>
    have := (C05_time_only_full_band 0 s e).2 ho
    rw [this] at hb; cases hb
    exact ⟨_, rfl, rfl, by simp [ofBounds, fDuration]⟩
  | boundingBox s l e h =>
    have := C05_box_bounds s l e h ho.1 ho.2
    rw [this] at hb; cases hb
    refine ⟨_, rfl, rfl, ?_⟩
    intro nv hnv
    simp only [List.mem_cons, List.not_mem_nil, or_false] at hnv
    rcases hnv with rfl | rfl | rfl | rfl <;> simp [ofBounds, fDuration, fLow, fHigh, fBandwidth]
  | point t f =>
    simp only [Geom.bounds, Geom.boundPts, ptsBounds, List.foldl, Option.some.injEq] at hb
    subst hb
    have hf : features (.point t f) = some [(fDuration, 0), (fLow, f), (fHigh, f), (fBandwidth, 0)] := by
      simp only [features, hs, Option.map, Geom.tag]
      simp [shapeFeatures]
    refine ⟨_, hf, rfl, ?_⟩
    intro nv hnv
    simp only [List.mem_cons, List.not_mem_nil, or_false] at hnv
    rcases hnv with rfl | rfl | rfl | rfl <;> simp [ofBounds, fDuration, fLow, fHigh, fBandwidth]
  | lineString pts =>
    have hf : features (.lineString pts) = some (boundsFeatures b) := by
      simp only [features, hs, Option.map, Geom.tag]
      simp [shapeFeatures]
    exact ⟨_, hf, rfl, boundsFeatures_ok b _⟩
  | polygon rings =>
    have hf : features (.polygon rings) = some (boundsFeatures b) := by
      simp only [features, hs, Option.map, Geom.tag]
      simp [shapeFeatures]
    exact ⟨_, hf, rfl, boundsFeatures_ok b _⟩
  | multiPoint pts =>
    have hf : features (.multiPoint pts) = some (boundsFeatures b ++ [(fSegments, (pts.length : Rat))]) := by
      simp only [features, hs, Option.map, Geom.tag]
      simp [shapeFeatures, toShape, Shape.numParts]
    exact ⟨_, hf, rfl, segFeatures_ok b _⟩
  | multiLineString ls =>
    have hf : features (.multiLineString ls) = some (boundsFeatures b ++ [(fSegments, (ls.length : Rat))]) := by
      simp only [features, hs, Option.map, Geom.tag]
      simp [shapeFeatures, toShape, Shape.numParts]
    exact ⟨_, hf, rfl, segFeatures_ok b _⟩
  | multiPolygon ps =>
    have hf : features (.multiPolygon ps) = some (boundsFeatures b ++ [(fSegments, (ps.length : Rat))]) := by
      simp only [features, hs, Option.map, Geom.tag]
      simp [shapeFeatures, toShape, Shape.numParts]
    exact ⟨_, hf, rfl, segFeatures_ok b _⟩

/-- consequences the statement names: durations and bandwidths are never negative, a point
    and a time stamp have zero extent -/
theorem C05_features_nonneg (g : Geom) (fs : List (String × Rat)) (ho : Ordered g)
    (hf : features g = some fs) : ∀ nv ∈ fs, nv.1 = fDuration ∨ nv.1 = fBandwidth → 0 ≤ nv.2 := by
  have hbd : ∃ b, g.bounds = some b := by
    cases hgb : g.bounds with
    | some b => exact ⟨b, rfl⟩
    | none =>
      exfalso
      have hs : (toShape g).bounds = none := by rw [C05_bounds_via_shape]; exact hgb
      cases g <;> simp_all [features, Geom.bounds, Geom.boundPts, ptsBounds]
  obtain ⟨b, hb⟩ := hbd
  obtain ⟨fs', hf', _, hall⟩ := C05_features_consistent g b ho hb
  have : fs' = fs := by rw [hf'] at hf; simpa using hf
  subst this
  obtain ⟨o1, o2⟩ := C05_bounds_ordered g b hb
  intro nv hnv hname
  have := hall nv hnv
  rcases hname with hn | hn <;> rw [hn] at this <;>
    simp [ofBounds, fDuration, fLow, fHigh, fBandwidth] at this <;> grind

/-- the feature list is *determined*: an observed list passes the executable statement
    `featuresHolds` (right names in order, every value what its name says of the bounds) iff it
    is the model's list -/
theorem C05_features_holds_iff (g : Geom) (b : Bounds) (fs : List (String × Rat)) (ho : Ordered g)
    (hb : g.bounds = some b) : featuresHolds g b fs = true ↔ features g = some fs := by
  obtain ⟨fs', hf', hn', hv'⟩ := C05_features_consistent g b ho hb
  simp only [featuresHolds, Bool.and_eq_true, decide_eq_true_eq, List.all_eq_true]
  constructor
  · rintro ⟨hn, hv⟩
    rw [hf']; congr 1
    exact assoc_ext (fun n => ofBounds n b (parts g)) fs' fs (by rw [hn, hn']) hv' hv
  · intro h
    have : fs' = fs := by rw [hf'] at h; simpa using h
    subst this; exact ⟨hn', hv'⟩

/-- `_COMPUTE_FEATURES` covers every geometry type as soon as it has the nine tags as keys
    (instantiated at the keys extracted from the code on every run) -/
theorem C05_feature_table_total (keys : List String) (h : ∀ k ∈ featureTypes, k ∈ keys) (g : Geom) :
    g.tag ∈ keys := by
  apply h
  cases g <;> simp [Geom.tag, featureTypes]

/-! ### anchor points -/

/-- the table of the nine named positions: corner, edge midpoint or centre of the bounds.
    `top` is the high frequency, `right` is the end time; a swap of left/right or
    top/bottom for any one name contradicts this -/
theorem C05_points_table (lib : String → Pt) (b : Bounds) :
    pointAt lib "bottom-left" b = .ok (b.st, b.lo) ∧
    pointAt lib "bottom-right" b = .ok (b.en, b.lo) ∧
    pointAt lib "top-left" b = .ok (b.st, b.hi) ∧
    pointAt lib "top-right" b = .ok (b.en, b.hi) ∧
    pointAt lib "center-left" b = .ok (b.st, (b.lo + b.hi) / 2) ∧
    pointAt lib "center-right" b = .ok (b.en, (b.lo + b.hi) / 2) ∧
    pointAt lib "top-center" b = .ok ((b.st + b.en) / 2, b.hi) ∧
    pointAt lib "bottom-center" b = .ok ((b.st + b.en) / 2, b.lo) ∧
    pointAt lib "center" b = .ok ((b.st + b.en) / 2, (b.lo + b.hi) / 2) := by
  refine ⟨?_, ?_, ?_, ?_, ?_, ?_, ?_, ?_, ?_⟩ <;> rfl

/-- centroid and point-on-surface are whatever shapely answers (monitored, not modelled) -/
theorem C05_points_delegated (lib : String → Pt) (b : Bounds) :
    pointAt lib "centroid" b = .ok (lib "centroid") ∧
    pointAt lib "point_on_surface" b = .ok (lib "point_on_surface") := ⟨rfl, rfl⟩

theorem mem_boundsPositions (pos : String) : pos ∈ boundsPositions ↔
    pos = "bottom-left" ∨ pos = "bottom-right" ∨ pos = "top-left" ∨ pos = "top-right" ∨
    pos = "center-left" ∨ pos = "center-right" ∨ pos = "top-center" ∨ pos = "bottom-center" ∨
    pos = "center" := by
  simp [boundsPositions]

/-- every one of the nine positions is a point of the closed bounding rectangle -/
theorem C05_points_inside (lib : String → Pt) (b : Bounds) (pos : String)
    (h1 : b.st ≤ b.en) (h2 : b.lo ≤ b.hi) (hp : pos ∈ boundsPositions) :
    ∃ p, pointAt lib pos b = .ok p ∧ inside b p = true := by
  obtain ⟨t1, t2, t3, t4, t5, t6, t7, t8, t9⟩ := C05_points_table lib b
  rw [mem_boundsPositions] at hp
  rcases hp with rfl | rfl | rfl | rfl | rfl | rfl | rfl | rfl | rfl
  · exact ⟨_, t1, by simp [inside]; grind⟩
  · exact ⟨_, t2, by simp [inside]; grind⟩
  · exact ⟨_, t3, by simp [inside]; grind⟩
  · exact ⟨_, t4, by simp [inside]; grind⟩
  · exact ⟨_, t5, by simp [inside]; grind⟩
  · exact ⟨_, t6, by simp [inside]; grind⟩
  · exact ⟨_, t7, by simp [inside]; grind⟩
  · exact ⟨_, t8, by simp [inside]; grind⟩
  · exact ⟨_, t9, by simp [inside]; grind⟩

/-- … in particular for the bounds of any geometry -/
theorem C05_points_inside_geometry (lib : String → Pt) (g : Geom) (b : Bounds) (pos : String)
    (hb : g.bounds = some b) (hp : pos ∈ boundsPositions) :
    ∃ p, pointAt lib pos b = .ok p ∧ inside b p = true :=
  let ⟨o1, o2⟩ := C05_bounds_ordered g b hb
  C05_points_inside lib b pos o1 o2 hp

/-- a name outside the `Positions` literal raises `ValueError`; a name inside never raises -/
theorem C05_unknown_position_rejected (lib : String → Pt) (b : Bounds) (pos : String) :
    (pos ∉ positionNames → pointAt lib pos b = .error .invalid) ∧
    (pos ∈ positionNames → ∃ p, pointAt lib pos b = .ok p) := by
  constructor
  · intro h; simp [pointAt, h]
  · intro h
    simp only [positionNames, List.mem_cons, List.not_mem_nil, or_false] at h
    rcases h with rfl | rfl | rfl | rfl | rfl | rfl | rfl | rfl | rfl | rfl | rfl <;>
      exact ⟨_, rfl⟩

-- non-vacuity: concrete geometries (a polygon with a hole, a multi-polygon, a degenerate line)
example : (Geom.polygon [[(1, 2), (5, 2), (3, 7), (1, 2)], [(2, 3), (3, 3), (3, 4), (2, 3)]]).bounds
    = some ⟨1, 2, 5, 7⟩ := by decide +kernel
example : HolesInside (.polygon [[(1, 2), (5, 2), (3, 7), (1, 2)], [(2, 3), (3, 3), (3, 4), (2, 3)]])
    = true := by decide +kernel
example : features (.multiPolygon [[[(1, 2), (5, 2), (3, 7), (1, 2)]], [[(6, 1), (8, 1), (7, 3), (6, 1)]]])
    = some [("duration", 7), ("low_freq", 1), ("high_freq", 7), ("bandwidth", 6), ("num_segments", 2)] := by
  decide +kernel
example : features (.lineString [(1, 4), (1, 4)])
    = some [("duration", 0), ("low_freq", 4), ("high_freq", 4), ("bandwidth", 0)] := by decide +kernel
example : Ordered (.boundingBox 1 2 3 4) := by decide +kernel
example : (pointAt (fun _ => (0, 0)) "top-left" ⟨1, 2, 3, 4⟩).toOption = some (1, 4) := by decide +kernel
example : (pointAt (fun _ => (0, 0)) "center-right" ⟨1, 2, 3, 4⟩).toOption = some (3, 3) := by decide +kernel
example : (pointAt (fun _ => (0, 0)) "left-top" ⟨1, 2, 3, 4⟩).toOption = none := by decide +kernel
-- the shell-only reading of polygon bounds is not vacuous: a hole outside the shell is ignored
example : (Geom.polygon [[(1, 2), (5, 2), (3, 7), (1, 2)], [(8, 8), (9, 8), (9, 9), (8, 8)]]).bounds
    = some ⟨1, 2, 5, 7⟩ := by decide +kernel

-- ring closure as shapely does it: open ring closed, closed three-vertex ring padded, closed ring kept
example : toShape (.polygon [[(1, 2), (2, 2), (3, 5)]]) = .polygon [(1, 2), (2, 2), (3, 5), (1, 2)] [] := by
  decide +kernel
example : toShape (.polygon [[(1, 2), (2, 2), (1, 2)]]) = .polygon [(1, 2), (2, 2), (1, 2), (1, 2)] [] := by
  decide +kernel
example : RingsClosed (.polygon [[(1, 2), (5, 2), (3, 7), (1, 2)]]) = true := by decide +kernel
example : boundsHolds (.timeInterval 1 3) ⟨1, 0, 3, MAXF⟩ = true := by decide +kernel
example : boundsHolds (.timeInterval 1 3) ⟨1, 0, 3, 4⟩ = false := by decide +kernel


/-! ### review additions: constructor calls, ring order, degenerate positions, centroid -/

/-- the conversion is the shapely constructor call of `toCall` (tied symbolically to every
    `*_to_shapely`), realised by shapely -/
theorem C05_conversion_calls (g : Geom) : toShape g = (toCall g).realize := by
  cases g <;> simp [toShape, toCall, ShCall.realize, polyOf, List.map_map, Function.comp_def]

/-- the rectangle of a box / an interval, vertex by vertex: counter-clockwise from
    (end, low), closed; four vertices only when start = end (first and last corner coincide) -/
theorem C05_conversion_box_ring (s l e h : Rat) :
    (s ≠ e → toShape (.boundingBox s l e h) = .polygon [(e, l), (e, h), (s, h), (s, l), (e, l)] []) ∧
    (s = e → toShape (.boundingBox s l e h) = .polygon [(e, l), (e, h), (s, h), (s, l)] []) ∧
    (s ≠ e → toShape (.timeInterval s e) = .polygon [(e, 0), (e, MAXF), (s, MAXF), (s, 0), (e, 0)] []) ∧
    (s = e → toShape (.timeInterval s e) = .polygon [(e, 0), (e, MAXF), (s, MAXF), (s, 0)] []) := by
  refine ⟨?_, ?_, ?_, ?_⟩
  · intro hse; simp [toShape, boxRing, closeRing, hse]
  · intro hse; simp [toShape, boxRing, closeRing, hse]
  · intro hse; simp [toShape, boxRing, closeRing, hse]
  · intro hse; simp [toShape, boxRing, closeRing, hse]

/-- shapely keeps the order of the stored ring: the converted ring is the stored one, or the
    stored one with its first vertex appended; with at least three stored vertices (the data
    model's minimum) it is closed -/
theorem C05_conversion_ring_order (r : List Pt) :
    (closeRing r = r ∨ ∃ p, r.head? = some p ∧ closeRing r = r ++ [p]) ∧
    (3 ≤ r.length → ringClosed (closeRing r) = true) := by
  cases r with
  | nil => simp [closeRing]
  | cons p ps =>
    constructor
    · simp only [closeRing]
      split
      · exact Or.inr ⟨p, rfl, rfl⟩
      · exact Or.inl rfl
    · intro hl
      simp only [closeRing]
      split
      · simp at hl
        have hlast : (p :: (ps ++ [p])).getLast? = some p := by
          rw [← List.cons_append, List.getLast?_append]; simp
        simp [ringClosed]; exact ⟨hlast, hl⟩
      · rename_i hc
        simp only [not_or, not_not, Nat.not_lt] at hc
        simp [ringClosed, hc.1]; simpa using hc.2

/-- degenerate bounds (a point, a box of zero extent): all nine positions coincide -/
theorem C05_points_degenerate (lib : String → Pt) (b : Bounds) (pos : String)
    (ht : b.st = b.en) (hf : b.lo = b.hi) (hp : pos ∈ boundsPositions) :
    pointAt lib pos b = .ok (b.st, b.lo) := by
  obtain ⟨t1, t2, t3, t4, t5, t6, t7, t8, t9⟩ := C05_points_table lib b
  have m1 : (b.st + b.en) / 2 = b.st := by rw [← ht]; grind
  have m2 : (b.lo + b.hi) / 2 = b.lo := by rw [← hf]; grind
  rw [mem_boundsPositions] at hp
  rcases hp with rfl | rfl | rfl | rfl | rfl | rfl | rfl | rfl | rfl
  · rw [t1]
  · rw [t2, ← ht]
  · rw [t3, ← hf]
  · rw [t4, ← ht, ← hf]
  · rw [t5, m2]
  · rw [t6, m2, ← ht]
  · rw [t7, m1, ← hf]
  · rw [t8, m1]
  · rw [t9, m1, m2]

/-- end to end: the corner positions of a geometry are (min/max time, min/max frequency) of its
    coordinates, the centre their half-sums -/
theorem C05_points_from_coordinates (lib : String → Pt) (g : Geom) (b : Bounds) (hb : g.bounds = some b) :
    ∃ t0 f0 t1 f1,
      listMin (g.boundPts.map (·.1)) = some t0 ∧ listMin (g.boundPts.map (·.2)) = some f0 ∧
      listMax (g.boundPts.map (·.1)) = some t1 ∧ listMax (g.boundPts.map (·.2)) = some f1 ∧
      pointAt lib "bottom-left" b = .ok (t0, f0) ∧ pointAt lib "bottom-right" b = .ok (t1, f0) ∧
      pointAt lib "top-left" b = .ok (t0, f1) ∧ pointAt lib "top-right" b = .ok (t1, f1) ∧
      pointAt lib "center" b = .ok ((t0 + t1) / 2, (f0 + f1) / 2) := by
  obtain ⟨c1, c2, c3, c4⟩ := C05_bounds_minmax_columns g b hb
  exact ⟨b.st, b.lo, b.en, b.hi, c1, c2, c3, c4, rfl, rfl, rfl, rfl, rfl⟩

/-- every vertex the envelope ranges over lies inside the bounds (the post-condition of
    `point_on_surface` for shapes of dimension 0 and 1, where GEOS answers a vertex: contract
    `isVertex`, evaluated at run time) -/
theorem C05_vertex_inside (g : Geom) (b : Bounds) (p : Pt) (hb : g.bounds = some b)
    (hv : isVertex g p = true) : inside b p = true := by
  have hm : p ∈ g.boundPts := by simpa [isVertex] using hv
  have := (C05_bounds_minmax g b hb).contains p hm
  simpa [inside, and_assoc] using this

/-- the type dispatch of `compute_geometric_features` / `geometry_to_shapely`: total on the nine
    geometry types, `NotImplementedError` on any other tag -/
theorem C05_dispatch (g : Geom) (tag : String) :
    dispatch g.tag = .ok () ∧ (tag ∉ featureTypes → dispatch tag = .error .notImpl) := by
  constructor
  · have : g.tag ∈ featureTypes := C05_feature_table_total featureTypes (fun _ h => h) g
    simp [dispatch, this]
  · intro h; simp [dispatch, h]

/-- **centroid inside the bounds** (GEOS's algorithm, any non-negative segment lengths), for
    every geometry whose converted shape is tame: no holes and every shell fan-convex.
    Full statement (not proved): the same for every simple polygon with holes inside its shell;
    it is false for self-intersecting polygons (known finding C05-centroid-self-intersecting). -/
theorem C05_centroid_inside_partial (len : Pt → Pt → Rat) (hlen : LenOK len) (g : Geom) (b : Bounds)
    (hb : g.bounds = some b) (ht : (toShape g).Tame = true) :
    ∃ c, (toShape g).centroid len = some c ∧ inside b c = true := by
  have hs : (toShape g).bounds = some b := by rw [C05_bounds_via_shape]; exact hb
  obtain ⟨c, hc, hin⟩ := centroid_inside len hlen (toShape g) b hs ht
  exact ⟨c, hc, (inside_iff b c).mpr hin⟩

/-- which geometries are tame: everything without area, and boxes / intervals as stored by the
    data model (start ≤ end, low ≤ high) -/
theorem C05_tame_types (g : Geom) (ho : Ordered g)
    (hp : ∀ rings, g ≠ .polygon rings) (hm : ∀ ps, g ≠ .multiPolygon ps) :
    (toShape g).Tame = true := by
  have hM : (0 : Rat) ≤ MAXF := by decide +kernel
  have hbox : ∀ x0 y0 x1 y1 : Rat, x0 ≤ x1 → y0 ≤ y1 → fanSameSign (boxRing x0 y0 x1 y1) = true := by
    intro x0 y0 x1 y1 hx hy
    have hA : 0 ≤ (x1 - x0) * (y1 - y0) := mul_nonneg (by linarith) (by linarith)
    simp only [fanSameSign, Bool.or_eq_true, List.all_eq_true, decide_eq_true_eq]
    left
    intro t ht
    simp only [boxRing, closeRing] at ht
    split at ht <;>
      simp [fanTerms, segs, tri2] at ht <;>
      (rcases ht with rfl | rfl | rfl | rfl <;> simp <;> nlinarith)
  cases g with
  | polygon rings => exact absurd rfl (hp rings)
  | multiPolygon ps => exact absurd rfl (hm ps)
  | timeInterval s e =>
    simp only [toShape, Shape.Tame, Shape.polys, List.all_cons, List.all_nil, Bool.and_true,
      List.isEmpty_nil, Bool.true_and]
    exact hbox s 0 e MAXF ho hM
  | boundingBox s l e h =>
    simp only [toShape, Shape.Tame, Shape.polys, List.all_cons, List.all_nil, Bool.and_true,
      List.isEmpty_nil, Bool.true_and]
    exact hbox s l e h ho.1 ho.2
  | _ => rfl

/-- … hence for seven of the nine types every one of the ten modelled positions of
    `get_geometry_point` (the nine of the bounds and the centroid) lies inside the bounds -/
theorem C05_getPoint_inside_partial (len : Pt → Pt → Rat) (hlen : LenOK len) (pos_ : Pt) (g : Geom)
    (b : Bounds) (name : String) (hb : g.bounds = some b) (ht : (toShape g).Tame = true)
    (hn : name ∈ boundsPositions ∨ name = "centroid") :
    ∃ p, getPoint len pos_ g name = .ok p ∧ inside b p = true := by
  rcases hn with hn | rfl
  · have hne : name ≠ "centroid" := by
      intro h; subst h; simp [boundsPositions] at hn
    obtain ⟨p, hp, hin⟩ := C05_points_inside_geometry (fun _ => pos_) g b name hb hn
    exact ⟨p, by simp [getPoint, hne, hb, hp], hin⟩
  · obtain ⟨c, hc, hin⟩ := C05_centroid_inside_partial len hlen g b hb ht
    exact ⟨c, by simp [getPoint, hc], hin⟩

/-- the centroid of a point is the point, of a time stamp the middle of the band -/
theorem C05_centroid_point (len : Pt → Pt → Rat) (t f : Rat) :
    (toShape (.point t f)).centroid len = some (t, f) := by
  simp [toShape, Shape.centroid, Shape.areaTerms, Shape.polys, Shape.lineTerms, Shape.lines,
    Shape.ptTerms, wmean, wsum, wsumX, wsumY]

theorem C05_centroid_time_stamp (len : Pt → Pt → Rat) (t : Rat) (hl : 0 < len (t, 0) (t, MAXF)) :
    (toShape (.timeStamp t)).centroid len = some (t, MAXF / 2) := by
  have hne : len (t, 0) (t, MAXF) ≠ 0 := ne_of_gt hl
  simp [toShape, Shape.centroid, Shape.areaTerms, Shape.polys, Shape.lineTerms, Shape.lines,
    segTerms, segs, wmean, wsum, wsumX, wsumY, hl]
  exact ⟨mul_div_cancel_left₀ _ hne, mul_div_cancel_left₀ _ hne⟩

/-- the centroid of a non-degenerate box / interval is the `center` position of its bounds -/
theorem C05_centroid_box (len : Pt → Pt → Rat) (lib : String → Pt) (s l e h : Rat) (h1 : s < e) (h2 : l < h) :
    (toShape (.boundingBox s l e h)).centroid len = some ((s + e) / 2, (l + h) / 2) ∧
    (toShape (.timeInterval s e)).centroid len = some ((s + e) / 2, (0 + MAXF) / 2) ∧
    pointAt lib "center" ⟨s, l, e, h⟩ = .ok ((s + e) / 2, (l + h) / 2) :=
  ⟨centroid_boxRing len s l e h h1 h2, centroid_boxRing len s 0 e MAXF h1 (by decide +kernel), rfl⟩

-- non-vacuity of the review additions
example : (toShape (.polygon [[(0, 0), (4, 0), (4, 3), (0, 0)]])).Tame = true := by decide +kernel
example : (toShape (.polygon [[(0, 0), (4, 4), (4, 0), (0, 3), (0, 0)]])).Tame = false := by decide +kernel
-- the self-intersecting polygon of the known finding: GEOS's formula leaves the bounds
example : (toShape (.polygon [[(0, 0), (4, 4), (4, 0), (0, 3), (0, 0)]])).centroid (fun _ _ => 1)
    = some (20 / 3, 7 / 3) := by decide +kernel
example : (toShape (.polygon [[(0, 0), (4, 0), (4, 3), (0, 0)]])).centroid (fun _ _ => 1)
    = some (8 / 3, 1) := by decide +kernel
-- a polygon with a hole (not tame, still computed): the hole counts negative
example : (toShape (.polygon [[(0, 0), (8, 0), (8, 8), (0, 8), (0, 0)], [(0, 0), (4, 0), (4, 4), (0, 4), (0, 0)]])).centroid
    (fun _ _ => 1) = some (14 / 3, 14 / 3) := by decide +kernel
-- degenerate polygon: no area, the line centroid takes over
example : (toShape (.polygon [[(1, 2), (3, 2), (1, 2)]])).centroid (fun p q => if p = q then 0 else 2)
    = some (2, 2) := by decide +kernel
example : LenOK (fun _ _ => 1) := fun _ _ => by show (0 : Rat) ≤ 1; decide +kernel
example : isVertex (.lineString [(1, 2), (3, 4)]) (3, 4) = true := by decide +kernel
example : dispatch "Circle" = .error .notImpl := by decide

/-! ### follow-up: histories and call forms -/

/-- **history semantics**: whatever happened before in the process (`pre`: other objects, earlier
    content of this object, calls, poisoned results), once the object carries the content `g`
    every call answers exactly what the base operation answers for `g` — the answers of a history
    are the per-step answers of the pure model, so each step of a run of the real code can be
    judged on its own -/
theorem C05_history_pure (lib : Geom → String → Pt) (cur : Option Geom) (pre : List Step) (g : Geom)
    (qs : List Call) :
    runHist lib cur (pre ++ .set g :: qs.map .query) = runHist lib cur pre ++ qs.map (answer lib g) := by
  have hq : ∀ qs : List Call, runHist lib (some g) (qs.map .query) = qs.map (answer lib g) := by
    intro qs
    induction qs with
    | nil => rfl
    | cons c cs ih => simp [runHist, ih]
  induction pre generalizing cur with
  | nil => simp [runHist, hq]
  | cons s rest ih =>
    cases s with
    | set g' => simpa [runHist] using ih (some g')
    | poison k => simpa [runHist] using ih cur
    | query c =>
      cases cur with
      | none => simp [runHist, ih]
      | some g' => simp [runHist, ih]

/-- a caller that mutates a value it was handed changes no later answer: the history with the
    poison steps removed has the same answers -/
theorem C05_history_poison (lib : Geom → String → Pt) (cur : Option Geom) (steps : List Step) :
    runHist lib cur (steps.filter (fun s => !s.isPoison)) = runHist lib cur steps := by
  induction steps generalizing cur with
  | nil => rfl
  | cons s rest ih =>
    cases s with
    | set g' =>
      simp only [List.filter_cons, show (Step.set g').isPoison = false from rfl, Bool.not_false, if_true, runHist, ih]
    | poison k =>
      simp only [List.filter_cons, show (Step.poison k).isPoison = true from rfl, Bool.not_true, runHist]
      simp [ih]
    | query c =>
      cases cur <;>
        simp only [List.filter_cons, show (Step.query c).isPoison = false from rfl, Bool.not_false, if_true, runHist, ih]

/-- asking again gives the same answer, and asking in between about other content does not matter:
    `x, y, x` answers `x` the same both times -/
theorem C05_history_revisit (lib : Geom → String → Pt) (x y : Geom) (c c' : Call) :
    runHist lib none [.set x, .query c, .poison 0, .set y, .query c', .set x, .query c]
      = [answer lib x c, answer lib y c', answer lib x c] := by
  simp [runHist]

/-- **call forms of `get_geometry_point`** (parameters `n0`, `n1 = d` by default, then parameters
    with defaults): positional, keyword in either order and mixed calls all bind the geometry `g`
    and the position `p` to the same parameters; leaving the position out binds the declared
    default; swapping the positional arguments is another call -/
theorem C05_call_forms (n0 n1 d g p : String) (rest : List Param) (hn : n0 ≠ n1)
    (hr : ∀ q ∈ rest, q.dflt.isSome = true ∧ q.name ≠ n0 ∧ q.name ≠ n1) :
    let sig : List Param := ⟨n0, none⟩ :: ⟨n1, some d⟩ :: rest
    let tail := rest.map fun q => q.dflt.getD ""
    bindCall sig [g, p] [] = some (g :: p :: tail) ∧
    bindCall sig [g] [(n1, p)] = some (g :: p :: tail) ∧
    bindCall sig [] [(n0, g), (n1, p)] = some (g :: p :: tail) ∧
    bindCall sig [] [(n1, p), (n0, g)] = some (g :: p :: tail) ∧
    bindCall sig [g] [] = some (g :: d :: tail) ∧
    bindCall sig [p, g] [] = some (p :: g :: tail) ∧
    bindCall sig [g, p] [(n1, p)] = none := by
  intro sig tail
  have hn' : n1 ≠ n0 := fun h => hn h.symm
  have hb : (n0 == n1) = false := by simp [hn]
  have hb' : (n1 == n0) = false := by simp [hn']
  have look : ∀ kw : List (String × String), (∀ k ∈ kw, k.1 = n0 ∨ k.1 = n1) →
      ∀ q ∈ rest, q.dflt.isSome = true ∧ kw.lookup q.name = none := by
    intro kw hk q hq
    refine ⟨(hr q hq).1, ?_⟩
    rw [List.lookup_eq_none_iff]
    intro k hkm
    rcases hk k hkm with h | h <;> simp [h, (hr q hq).2.1, (hr q hq).2.2]
  have t0 := bindArgs_defaults rest [] (look [] (by simp))
  have t1 := bindArgs_defaults rest [(n1, p)] (look _ (by simp))
  have t2 := bindArgs_defaults rest [(n0, g), (n1, p)] (look _ (by simp))
  have t3 := bindArgs_defaults rest [(n1, p), (n0, g)] (look _ (by simp))
  refine ⟨?_, ?_, ?_, ?_, ?_, ?_, ?_⟩
  · simp [bindCall, sig, bindArgs, t0, tail]
  · simp [bindCall, sig, bindArgs, t1, tail, hb, List.lookup]
  · simp [bindCall, sig, bindArgs, t2, tail, hn, hb, hb', List.lookup]
  · simp [bindCall, sig, bindArgs, t3, tail, hn', hb, hb', List.lookup]
  · simp [bindCall, sig, bindArgs, t0, tail]
  · simp [bindCall, sig, bindArgs, t0, tail]
  · simp [bindCall, sig, bindArgs, List.lookup, hb]

/-- **call forms of the three one-argument functions**: positionally or by keyword, the same binding -/
theorem C05_call_forms_unary (n g : String) (rest : List Param)
    (hr : ∀ q ∈ rest, q.dflt.isSome = true ∧ q.name ≠ n) :
    let sig : List Param := ⟨n, none⟩ :: rest
    let tail := rest.map fun q => q.dflt.getD ""
    bindCall sig [g] [] = some (g :: tail) ∧ bindCall sig [] [(n, g)] = some (g :: tail) ∧
    bindCall sig [] [] = none := by
  intro sig tail
  have look : ∀ kw : List (String × String), (∀ k ∈ kw, k.1 = n) →
      ∀ q ∈ rest, q.dflt.isSome = true ∧ kw.lookup q.name = none := by
    intro kw hk q hq
    refine ⟨(hr q hq).1, ?_⟩
    rw [List.lookup_eq_none_iff]
    intro k hkm
    simp [hk k hkm, (hr q hq).2]
  have t0 := bindArgs_defaults rest [] (look [] (by simp))
  have t1 := bindArgs_defaults rest [(n, g)] (look _ (by simp))
  refine ⟨?_, ?_, ?_⟩
  · simp [bindCall, sig, bindArgs, t0, tail]
  · simp [bindCall, sig, bindArgs, t1, tail, List.lookup]
  · simp [bindCall, sig, bindArgs]

/-- a parameter list that passes `sigOK` is of the shape the call-form theorems speak about -/
theorem C05_sig_shape (sig : List Param) (h : sigOK sig true = true) :
    ∃ n0 n1 d rest, sig = ⟨n0, none⟩ :: ⟨n1, some d⟩ :: rest ∧ n0 ≠ n1 ∧ d ∈ positionNames ∧
      ∀ q ∈ rest, q.dflt.isSome = true ∧ q.name ≠ n0 ∧ q.name ≠ n1 := by
  match sig, h with
  | ⟨n0, d0⟩ :: ⟨n1, d1⟩ :: rest, h =>
    simp only [sigOK, Bool.and_eq_true, decide_eq_true_eq, List.map_cons, List.nodup_cons,
      List.mem_cons, List.mem_map, not_or, not_exists, not_and, List.all_eq_true] at h
    obtain ⟨⟨⟨hne, hr0⟩, hr1, _⟩, ⟨hd0, hd1⟩, hrest⟩ := h
    cases d0 with
    | some v => simp at hd0
    | none =>
      cases d1 with
      | none => simp at hd1
      | some d =>
        refine ⟨n0, n1, d, rest, rfl, hne, by simpa using hd1, ?_⟩
        intro q hq
        exact ⟨hrest q hq, hr0 q hq, hr1 q hq⟩

/-! ### wave-5 follow-up: the anchor points as binary64 values

  `get_geometry_point` is tied symbolically to `pointAt` under ordered-field semantics, where
  `start + 1 * (end - start)` *is* `end`.  In binary64 it is not: a corner obtained by arithmetic can
  land one ulp outside the bounds.  The statements below say what survives rounding: corner and
  edge components are selections of the bounds (no arithmetic, hence exact for every float), a
  midpoint component is one rounding of `(a + b) / 2` and stays inside `[a, b]` for *every* monotone
  rounding function that leaves the two bounds alone.  `holdsAnchor` is the executable form the
  harness evaluates on the observed floats (`holds_anchor`). -/

/-- the table with the two midpoints as parameters: corner and edge components are the bounds
    themselves, whatever the midpoint values are -/
theorem C05_points_selection (mt mf : Rat) (b : Bounds) :
    pointAtM mt mf "bottom-left" b = .ok (b.st, b.lo) ∧
    pointAtM mt mf "bottom-right" b = .ok (b.en, b.lo) ∧
    pointAtM mt mf "top-left" b = .ok (b.st, b.hi) ∧
    pointAtM mt mf "top-right" b = .ok (b.en, b.hi) ∧
    pointAtM mt mf "center-left" b = .ok (b.st, mf) ∧
    pointAtM mt mf "center-right" b = .ok (b.en, mf) ∧
    pointAtM mt mf "top-center" b = .ok (mt, b.hi) ∧
    pointAtM mt mf "bottom-center" b = .ok (mt, b.lo) ∧
    pointAtM mt mf "center" b = .ok (mt, mf) := by
  refine ⟨?_, ?_, ?_, ?_, ?_, ?_, ?_, ?_, ?_⟩ <;> rfl

/-- with the exact midpoints the parametrised table is the model of `get_geometry_point` -/
theorem C05_points_exact_mid (lib : String → Pt) (b : Bounds) (pos : String) (hp : pos ∈ boundsPositions) :
    pointAtM ((b.st + b.en) / 2) ((b.lo + b.hi) / 2) pos b = pointAt lib pos b := by
  obtain ⟨t1, t2, t3, t4, t5, t6, t7, t8, t9⟩ := C05_points_table lib b
  obtain ⟨s1, s2, s3, s4, s5, s6, s7, s8, s9⟩ := C05_points_selection ((b.st + b.en) / 2) ((b.lo + b.hi) / 2) b
  rw [mem_boundsPositions] at hp
  rcases hp with rfl | rfl | rfl | rfl | rfl | rfl | rfl | rfl | rfl
  · rw [t1, s1]
  · rw [t2, s2]
  · rw [t3, s3]
  · rw [t4, s4]
  · rw [t5, s5]
  · rw [t6, s6]
  · rw [t7, s7]
  · rw [t8, s8]
  · rw [t9, s9]

/-- a monotone rounding function that leaves `a` and `c` alone keeps the midpoint inside `[a, c]` -/
theorem C05_midpoint_rounded (rnd : Rat → Rat) (hm : ∀ x y, x ≤ y → rnd x ≤ rnd y) (a c : Rat)
    (fa : rnd a = a) (fc : rnd c = c) (h : a ≤ c) : a ≤ rnd ((a + c) / 2) ∧ rnd ((a + c) / 2) ≤ c := by
  have h1 : a ≤ (a + c) / 2 := by grind
  have h2 : (a + c) / 2 ≤ c := by grind
  have := hm _ _ h1
  have := hm _ _ h2
  constructor
  · rw [fa] at *; assumption
  · rw [fc] at *; assumption

/-- **float level**: for every rounding function `rnd` that is monotone and leaves the four bounds
    alone (they are binary64 values), the nine positions evaluated with rounded midpoints
    `rnd ((a + b) / 2)` exist and lie inside the bounds -- the corner and edge components because they
    are the bounds (`C05_points_selection`), the midpoints by monotonicity.  (An implementation that
    obtains a corner by arithmetic, `start + 1.0 * (end - start)`, is not of this form and does leave
    the bounds by an ulp.) -/
theorem C05_points_rounded (rnd : Rat → Rat) (hm : ∀ x y, x ≤ y → rnd x ≤ rnd y) (b : Bounds) (pos : String)
    (f1 : rnd b.st = b.st) (f2 : rnd b.en = b.en) (f3 : rnd b.lo = b.lo) (f4 : rnd b.hi = b.hi)
    (h1 : b.st ≤ b.en) (h2 : b.lo ≤ b.hi) (hp : pos ∈ boundsPositions) :
    ∃ p, pointAtM (rnd ((b.st + b.en) / 2)) (rnd ((b.lo + b.hi) / 2)) pos b = .ok p ∧ inside b p = true := by
  obtain ⟨s1, s2, s3, s4, s5, s6, s7, s8, s9⟩ :=
    C05_points_selection (rnd ((b.st + b.en) / 2)) (rnd ((b.lo + b.hi) / 2)) b
  obtain ⟨m1, m2⟩ := C05_midpoint_rounded rnd hm b.st b.en f1 f2 h1
  obtain ⟨m3, m4⟩ := C05_midpoint_rounded rnd hm b.lo b.hi f3 f4 h2
  rw [mem_boundsPositions] at hp
  rcases hp with rfl | rfl | rfl | rfl | rfl | rfl | rfl | rfl | rfl
  · exact ⟨_, s1, by simp [inside]; grind⟩
  · exact ⟨_, s2, by simp [inside]; grind⟩
  · exact ⟨_, s3, by simp [inside]; grind⟩
  · exact ⟨_, s4, by simp [inside]; grind⟩
  · exact ⟨_, s5, by simp [inside]; grind⟩
  · exact ⟨_, s6, by simp [inside]; grind⟩
  · exact ⟨_, s7, by simp [inside]; grind⟩
  · exact ⟨_, s8, by simp [inside]; grind⟩
  · exact ⟨_, s9, by simp [inside]; grind⟩

/-- what the monitor `holdsAnchor` accepts: only points inside the bounds whose corner / edge
    components are the bounds themselves (bit for bit, the values are compared exactly) -/
theorem C05_anchor_holds_sound (tol : Rat) (b : Bounds) (pos : String) (p : Pt)
    (h : holdsAnchor tol b pos p = true) :
    pos ∈ boundsPositions ∧ inside b p = true ∧ pointAtM p.1 p.2 pos b = .ok p ∧
    (pos = "bottom-left" → p = (b.st, b.lo)) ∧ (pos = "bottom-right" → p = (b.en, b.lo)) ∧
    (pos = "top-left" → p = (b.st, b.hi)) ∧ (pos = "top-right" → p = (b.en, b.hi)) ∧
    (pos = "center-left" ∨ pos = "center-right" → nearMid tol b.lo b.hi p.2 = true) ∧
    (pos = "top-center" ∨ pos = "bottom-center" → nearMid tol b.st b.en p.1 = true) ∧
    (pos = "center" → nearMid tol b.st b.en p.1 = true ∧ nearMid tol b.lo b.hi p.2 = true) := by
  simp only [holdsAnchor, Bool.and_eq_true, decide_eq_true_eq, Bool.or_eq_true, Bool.not_eq_true'] at h
  obtain ⟨⟨⟨⟨hp, hin⟩, hsel⟩, ht⟩, hf⟩ := h
  have hsel' : pointAtM p.1 p.2 pos b = .ok p := by
    revert hsel
    cases pointAtM p.1 p.2 pos b with
    | ok q => intro hq; simp at hq; rw [hq]
    | error e => intro hq; simp at hq
  obtain ⟨s1, s2, s3, s4, _, _, _, _, _⟩ := C05_points_selection p.1 p.2 b
  refine ⟨hp, hin, hsel', ?_, ?_, ?_, ?_, ?_, ?_, ?_⟩
  · rintro rfl; rw [s1] at hsel'; exact (Except.ok.inj hsel').symm
  · rintro rfl; rw [s2] at hsel'; exact (Except.ok.inj hsel').symm
  · rintro rfl; rw [s3] at hsel'; exact (Except.ok.inj hsel').symm
  · rintro rfl; rw [s4] at hsel'; exact (Except.ok.inj hsel').symm
  · rintro (rfl | rfl) <;> simpa [freqIsMid] using hf
  · rintro (rfl | rfl) <;> simpa [timeIsMid] using ht
  · rintro rfl; exact ⟨by simpa [timeIsMid] using ht, by simpa [freqIsMid] using hf⟩

/-- the model's own answer passes the monitor (`∀ x, holds x (model x)`): the monitor demands
    nothing the property does not state -/
theorem C05_anchor_holds_model (lib : String → Pt) (tol : Rat) (b : Bounds) (pos : String) (p : Pt)
    (ht : 0 ≤ tol) (h1 : b.st ≤ b.en) (h2 : b.lo ≤ b.hi) (hp : pos ∈ boundsPositions)
    (hm : pointAt lib pos b = .ok p) : holdsAnchor tol b pos p = true := by
  obtain ⟨q, hq, hin⟩ := C05_points_inside lib b pos h1 h2 hp
  rw [hm] at hq; cases hq
  have n1 := nearMid_exact tol b.st b.en ht h1
  have n2 := nearMid_exact tol b.lo b.hi ht h2
  obtain ⟨t1, t2, t3, t4, t5, t6, t7, t8, t9⟩ := C05_points_table lib b
  have hp' := hp
  rw [mem_boundsPositions] at hp
  obtain ⟨s1, s2, s3, s4, s5, s6, s7, s8, s9⟩ := C05_points_selection p.1 p.2 b
  rcases hp with rfl | rfl | rfl | rfl | rfl | rfl | rfl | rfl | rfl
  · rw [t1] at hm; cases hm; simp [holdsAnchor, hp', hin, s1, timeIsMid, freqIsMid]
  · rw [t2] at hm; cases hm; simp [holdsAnchor, hp', hin, s2, timeIsMid, freqIsMid]
  · rw [t3] at hm; cases hm; simp [holdsAnchor, hp', hin, s3, timeIsMid, freqIsMid]
  · rw [t4] at hm; cases hm; simp [holdsAnchor, hp', hin, s4, timeIsMid, freqIsMid]
  · rw [t5] at hm; cases hm; simp [holdsAnchor, hp', hin, s5, timeIsMid, freqIsMid, n2]
  · rw [t6] at hm; cases hm; simp [holdsAnchor, hp', hin, s6, timeIsMid, freqIsMid, n2]
  · rw [t7] at hm; cases hm; simp [holdsAnchor, hp', hin, s7, timeIsMid, freqIsMid, n1]
  · rw [t8] at hm; cases hm; simp [holdsAnchor, hp', hin, s8, timeIsMid, freqIsMid, n1]
  · rw [t9] at hm; cases hm; simp [holdsAnchor, hp', hin, s9, timeIsMid, freqIsMid, n1, n2]

-- non-vacuity of the follow-up additions
example : sigOK [⟨"geometry", none⟩, ⟨"position", some "bottom-left"⟩] true = true := by decide
example : sigOK [⟨"geom", none⟩] false = true := by decide
example : sigOK [⟨"position", some "bottom-left"⟩, ⟨"geometry", none⟩] true = false := by decide
example : bindCall [⟨"geometry", none⟩, ⟨"position", some "bottom-left"⟩] ["G"] [("position", "center")]
    = some ["G", "center"] := by decide
example : bindCall [⟨"geometry", none⟩, ⟨"position", some "bottom-left"⟩] ["G"] [("where", "center")] = none := by decide
example : runHist (fun _ _ => (0, 0)) none [.set (.timeStamp 3), .query .features, .poison 0, .set (.timeStamp 3), .query .features]
    = [.ok (.features [("duration", 0)]), .ok (.features [("duration", 0)])] := by decide +kernel

-- non-vacuity of the wave-5 additions; the interval [8.936, 81.492] as binary64 values
example : holdsAnchor (1 / 2 ^ 50) ⟨1, 2, 3, 5⟩ "top-right" (3, 5) = true := by decide +kernel
example : holdsAnchor (1 / 2 ^ 50) ⟨1, 2, 3, 5⟩ "top-right" (3 + 1 / 2 ^ 51, 5) = false := by decide +kernel
example : holdsAnchor (1 / 2 ^ 50) ⟨1, 2, 3, 5⟩ "top-center" (2, 5) = true := by decide +kernel
example : holdsAnchor (1 / 2 ^ 50) ⟨1, 2, 3, 5⟩ "top-center" (2 + 1 / 2 ^ 40, 5) = false := by decide +kernel
example : holdsAnchor (1 / 2 ^ 50) ⟨3, 2, 3, 5⟩ "top-center" (3 + 1 / 2 ^ 51, 5) = false := by decide +kernel
-- `start + 1.0 * (end - start)` in binary64: one ulp above `end`
example : holdsAnchor (1 / 2 ^ 50) ⟨1257630195943211 / 140737488355328, 0, 5734489700526195 / 70368744177664, MAXF⟩
    "top-right" (1433622425131549 / 17592186044416, MAXF) = false := by decide +kernel
-- `(start + end) / 2` and `start + 0.5 * (end - start)` in binary64: both acceptable midpoints
example : holdsAnchor (1 / 2 ^ 50) ⟨1257630195943211 / 140737488355328, 0, 5734489700526195 / 70368744177664, MAXF⟩
    "top-center" (795413099812225 / 17592186044416, MAXF) = true := by decide +kernel
example : holdsAnchor (1 / 2 ^ 50) ⟨1257630195943211 / 140737488355328, 0, 5734489700526195 / 70368744177664, MAXF⟩
    "top-center" (6363304798497801 / 140737488355328, MAXF) = true := by decide +kernel
example : ∃ p, pointAtM (id ((1 + 3 : Rat) / 2)) (id ((2 + 5 : Rat) / 2)) "center-right" ⟨1, 2, 3, 5⟩ = .ok p ∧
    inside ⟨1, 2, 3, 5⟩ p = true :=
  C05_points_rounded id (fun _ _ h => h) ⟨1, 2, 3, 5⟩ "center-right" rfl rfl rfl rfl (by decide +kernel)
    (by decide +kernel) (by decide)

end SE.Proofs.C05
