/- C10 — property theorems (to be written). -/
import SoundeventModel.Basic
namespace SE.Proofs.C10

end SE.Proofs.C10
