/-
  C10 — Crowsetta conversions preserve times, frequencies, labels and order.
  Property theorems only (helper lemmas live in Proofs/Lemmas/Crowsetta.lean).
-/
import SoundeventModel.Crowsetta
import Proofs.Lemmas.Crowsetta
import Proofs.Lemmas.Bounds
import Proofs.Lemmas.CrowsettaHist
namespace SE.Proofs.C10
open SE SE.Crowsetta SE.Proofs.Lemmas.Crowsetta

/-! ## import: the expansion factor is applied exactly once -/

/-- from seconds: the time of an imported segment is `onset / te`, `offset / te`
    (for `te = 1` that is the value itself); no hypothesis on `te` -/
theorem C10_import_once_seconds (a b : Rat) (ns ne : Option Rat) (sr te : Rat) :
    segTimes (some a) (some b) ns ne sr te true = some (a / te, b / te) := by
  unfold segTimes fileTime adjTime
  by_cases h : te = 1
  · subst h; simp; constructor <;> grind
  · simp [h]

/-- from sample indices: `sample / samplerate`, whatever the expansion factor — the division by
    `samplerate / te` and the later division by `te` cancel -/
theorem C10_import_once_samples (n m sr te : Rat) (hte : te ≠ 0) :
    segTimes none none (some n) (some m) sr te true = some (n / sr, m / sr) := by
  unfold segTimes fileTime adjTime
  by_cases h : te = 1
  · subst h; simp; constructor <;> grind
  · simp [h]; constructor <;> grind

/-- each end separately (any mixture of seconds and samples) -/
theorem C10_import_once_end (sec sample : Option Rat) (sr te : Rat) (hte : te ≠ 0) :
    (fileTime sec sample sr te).map (adjTime true te) =
      match sec, sample with
      | some s, _ => some (s / te)
      | none, some n => some (n / sr)
      | none, none => none := by
  unfold fileTime adjTime
  by_cases h : te = 1
  · subst h; cases sec <;> cases sample <;> simp <;> grind
  · cases sec <;> cases sample <;> simp [h]; grind

/-- boxes: times divided, frequencies multiplied, once -/
theorem C10_import_once_box (onset offset low high te : Rat) :
    boxCoords onset offset low high te true = (onset / te, low * te, offset / te, high * te) := by
  unfold boxCoords adjTime adjFreq
  by_cases h : te = 1
  · subst h; simp; constructor <;> grind
  · simp [h]

/-- without adjustment nothing is scaled: seconds and box coordinates are copied, sample indices
    become file time `sample / (samplerate / te)` -/
theorem C10_import_unadjusted (a b n m onset offset low high sr te : Rat) :
    segTimes (some a) (some b) none none sr te false = some (a, b) ∧
    segTimes none none (some n) (some m) sr te false = some (n / (sr / te), m / (sr / te)) ∧
    boxCoords onset offset low high te false = (onset, low, offset, high) := by
  simp [segTimes, fileTime, adjTime, boxCoords, adjFreq]

/-- a recording without time expansion: seconds are copied whatever `adjust` says -/
theorem C10_import_no_expansion (a b : Rat) (ns ne : Option Rat) (sr : Rat) (adjust : Bool) :
    segTimes (some a) (some b) ns ne sr 1 adjust = some (a, b) := by
  simp [segTimes, fileTime, adjTime]

/-- `segment_to_annotation` succeeds exactly when both ends are known, the interval is a valid
    `TimeInterval` and the label converts; the geometry is the interval of `segTimes` -/
theorem C10_import_segment_geometry (o : LabelOpts) (adjust : Bool) (r : Rec) (s : Segment) (a : Ann) :
    importSegment o adjust r s = .ok a ↔
      ∃ st en, segTimes s.onsetS s.offsetS (s.onsetSample.map ratOfInt) (s.offsetSample.map ratOfInt)
          r.samplerate r.te adjust = some (st, en) ∧ 0 ≤ st ∧ st ≤ en ∧
        a.geom = some (.timeInterval st en) ∧ labelToTags o s.label = .ok a.tags := by
  unfold importSegment
  cases hs : segTimes s.onsetS s.offsetS (s.onsetSample.map ratOfInt) (s.offsetSample.map ratOfInt)
      r.samplerate r.te adjust with
  | none => simp
  | some p =>
    obtain ⟨st, en⟩ := p
    simp only [mkInterval, Option.some.injEq, Prod.mk.injEq]
    by_cases hv : st > en ∨ st < 0 ∨ en < 0
    · simp only [hv, if_true, bind, Except.bind]
      constructor
      · intro h; cases h
      · rintro ⟨st', en', ⟨rfl, rfl⟩, h0, h1, _⟩; exfalso; grind
    · simp only [hv, if_false, bind, Except.bind]
      cases hl : labelToTags o s.label with
      | error e => simp
      | ok tags =>
        simp only [pure, Except.pure, Except.ok.injEq]
        constructor
        · rintro rfl; exact ⟨st, en, ⟨rfl, rfl⟩, by grind, by grind, rfl, rfl⟩
        · rintro ⟨st', en', ⟨rfl, rfl⟩, _, _, hg, ht⟩
          cases a; simp at hg ht; simp [hg, ht]

/-- a missing onset (or offset) is a `ValueError` -/
theorem C10_import_segment_missing (o : LabelOpts) (adjust : Bool) (r : Rec) (s : Segment)
    (h : (s.onsetS = none ∧ s.onsetSample = none) ∨ (s.offsetS = none ∧ s.offsetSample = none)) :
    importSegment o adjust r s = .error .invalid := by
  unfold importSegment segTimes fileTime
  rcases h with ⟨h1, h2⟩ | ⟨h1, h2⟩ <;> simp [h1, h2]
  cases s.onsetS <;> cases s.onsetSample <;> simp

/-- `bbox_to_annotation`: the geometry is the `BoundingBox` of the scaled coordinates; for a
    crowsetta box (onset ≤ offset, low ≤ high) and a positive factor no pair is swapped -/
theorem C10_import_bbox_geometry (o : LabelOpts) (r : Rec) (b : BBox) (a : Ann)
    (hte : 0 < r.te) (ht : b.onset ≤ b.offset) (hf : b.lowFreq ≤ b.highFreq) :
    importBBox o true r b = .ok a ↔
      0 ≤ b.onset ∧ 0 ≤ b.lowFreq ∧ b.highFreq * r.te ≤ MAXF ∧
      a.geom = some (.boundingBox (b.onset / r.te) (b.lowFreq * r.te) (b.offset / r.te) (b.highFreq * r.te)) ∧
      labelToTags o b.label = .ok a.tags := by
  unfold importBBox
  rw [C10_import_once_box]
  have hinv : 0 < r.te⁻¹ := Rat.inv_pos.mpr hte
  have h1 : b.onset / r.te ≤ b.offset / r.te := by
    rw [Rat.div_def, Rat.div_def]; exact Rat.mul_le_mul_of_nonneg_right ht (Rat.le_of_lt hinv)
  have h2 : b.lowFreq * r.te ≤ b.highFreq * r.te := Rat.mul_le_mul_of_nonneg_right hf (Rat.le_of_lt hte)
  have h3 : 0 ≤ b.onset ↔ 0 ≤ b.onset / r.te := by
    rw [Rat.div_def]
    constructor
    · intro h; exact Rat.mul_nonneg h (Rat.le_of_lt hinv)
    · intro h
      by_cases hn : 0 ≤ b.onset
      · exact hn
      · exfalso
        have : b.onset * r.te⁻¹ < 0 := by
          have := Rat.mul_lt_mul_of_pos_right (Rat.not_le.mp hn) hinv
          simpa using this
        grind
  have h4 : 0 ≤ b.lowFreq ↔ 0 ≤ b.lowFreq * r.te := by
    constructor
    · intro h; exact Rat.mul_nonneg h (Rat.le_of_lt hte)
    · intro h
      by_cases hn : 0 ≤ b.lowFreq
      · exact hn
      · exfalso
        have : b.lowFreq * r.te < 0 := by
          have := Rat.mul_lt_mul_of_pos_right (Rat.not_le.mp hn) hte
          simpa using this
        grind
  simp only [mkBox]
  by_cases hv : b.onset / r.te < 0 ∨ b.lowFreq * r.te < 0 ∨ b.lowFreq * r.te > MAXF ∨ b.offset / r.te < 0 ∨
      b.highFreq * r.te < 0 ∨ b.highFreq * r.te > MAXF
  · simp only [hv, if_true, bind, Except.bind]
    constructor
    · intro h; cases h
    · rintro ⟨h0, h0', hm, _⟩; exfalso; grind
  · simp only [hv, if_false, bind, Except.bind]
    have e1 : ¬ b.onset / r.te > b.offset / r.te := by grind
    have e2 : ¬ b.lowFreq * r.te > b.highFreq * r.te := by grind
    simp only [e1, e2, if_false]
    cases hl : labelToTags o b.label with
    | error e => simp
    | ok tags =>
      simp only [pure, Except.pure, Except.ok.injEq]
      constructor
      · rintro rfl; exact ⟨by grind, by grind, by grind, rfl, rfl⟩
      · rintro ⟨_, _, _, hg, ht⟩
        cases a; simp at hg ht; simp [hg, ht]

example : importSegment {} true ⟨8000, 10, "rec.wav"⟩ ⟨"a", some 5, some 20, none, none⟩ =
    .ok ⟨some (.timeInterval (1/2) 2), [⟨termFromKey "crowsetta", "a"⟩]⟩ := by decide +kernel
example : importSegment {} true ⟨8000, 10, "rec.wav"⟩ ⟨"a", none, none, some 4000, some 16000⟩ =
    .ok ⟨some (.timeInterval (1/2) 2), [⟨termFromKey "crowsetta", "a"⟩]⟩ := by decide +kernel
example : importBBox {} true ⟨8000, 10, "rec.wav"⟩ ⟨5, 20, 100, 400, "a"⟩ =
    .ok ⟨some (.boundingBox (1/2) 1000 2 4000), [⟨termFromKey "crowsetta", "a"⟩]⟩ := by decide +kernel
example : importBBox {} true ⟨8000, 10, "rec.wav"⟩ ⟨5, 20, 100, 600000, "a"⟩ = .error .invalid := by
  decide +kernel

/-! ## import keeps order and length -/

/-- one annotation per segment, in order: the i-th annotation is the import of the i-th segment -/
theorem C10_import_order_length (o : LabelOpts) (adjust : Bool) (r : Rec) (segs : List Segment)
    (anns : List Ann) (h : importSequence o adjust r segs = .ok anns) :
    anns.length = segs.length ∧
      ∀ i (hi : i < segs.length) (ha : i < anns.length), importSegment o adjust r segs[i] = .ok anns[i] :=
  ⟨mapM_ok_length h, fun i hi ha => mapM_ok_get h i hi ha⟩

/-- the sequence converts iff every segment does, and then it is the list of the single results;
    otherwise the error of the first failing segment is raised -/
theorem C10_import_sequence_get (o : LabelOpts) (adjust : Bool) (r : Rec) (segs : List Segment) :
    (∀ anns, importSequence o adjust r segs = .ok anns ↔
        segs.map (importSegment o adjust r) = anns.map Except.ok) ∧
    (∀ e, importSequence o adjust r segs = .error e ↔
        ∃ pre s post, segs = pre ++ s :: post ∧ importSegment o adjust r s = .error e ∧
          ∀ x ∈ pre, ∃ a, importSegment o adjust r x = .ok a) :=
  ⟨fun anns => mapM_ok_iff _ segs anns, fun e => mapM_error_iff _ segs e⟩

/-- `annotation_to_clip_annotation`: the sound events are the imported boxes followed by the
    imported segments of every sequence, all in order; every sequence annotation lists exactly
    the sound events of its crowsetta sequence -/
theorem C10_import_annotation_order (o : LabelOpts) (adjust : Bool) (r : Rec) (ca : CrowAnn) (c : ClipAnn)
    (h : importAnnotation o adjust r ca = .ok c) :
    ∃ boxes : List Ann,
      ca.bboxes.map (importBBox o adjust r) = boxes.map Except.ok ∧
      ca.seqs.map (importSequence o adjust r) = c.sequences.map Except.ok ∧
      c.soundEvents = boxes ++ c.sequences.flatten ∧
      c.soundEvents.length = ca.bboxes.length + (ca.seqs.map List.length).sum := by
  unfold importAnnotation at h
  split at h
  · cases h
  · cases hb : ca.bboxes.mapM (importBBox o adjust r) with
    | error e => simp [hb, bind, Except.bind] at h
    | ok boxes =>
      cases hq : importSeqs o adjust r ca.seqs with
      | error e => simp [hb, hq, bind, Except.bind] at h
      | ok seqs =>
        simp [hb, hq, bind, Except.bind, pure, Except.pure] at h
        subst h
        have h1 := (mapM_ok_iff _ _ _).mp hb
        have h2 := (importSeqs_ok_iff o adjust r ca.seqs seqs).mp hq
        refine ⟨boxes, h1, h2, rfl, ?_⟩
        have hl1 : boxes.length = ca.bboxes.length := mapM_ok_length hb
        have hl2 := importSeqs_lengths o adjust r ca.seqs seqs h2
        simp [List.length_flatten, hl1, hl2]

/-- a notated path that differs from the recording's path is a `ValueError` -/
theorem C10_import_annotation_path (o : LabelOpts) (adjust : Bool) (r : Rec) (ca : CrowAnn) (p : String)
    (hp : ca.notatedPath = some p) (hne : p ≠ r.path) :
    importAnnotation o adjust r ca = .error .invalid := by
  unfold importAnnotation
  simp [hp, hne]

example : importSequence {} true ⟨8, 2, "rec.wav"⟩
    [⟨"a", some 2, some 4, none, none⟩, ⟨"__empty__", none, none, some 8, some 16⟩] =
    .ok [⟨some (.timeInterval 1 2), [⟨termFromKey "crowsetta", "a"⟩]⟩, ⟨some (.timeInterval 1 2), []⟩] := by
  decide +kernel
example : importSequence {} true ⟨8, 2, "rec.wav"⟩
    [⟨"a", some 2, some 4, none, none⟩, ⟨"b", some 4, some 2, none, none⟩] = .error .invalid := by
  decide +kernel
example : (importAnnotation {} true ⟨8, 1, "rec.wav"⟩
    ⟨some "rec.wav", [⟨1, 2, 3, 4, "b"⟩], [[⟨"a", some 2, some 4, none, none⟩]]⟩).map (·.soundEvents.length) = .ok 2 := by
  decide +kernel

/-! ## label → tags: one lemma per rung of the documented cascade -/

/-- rung 1: an empty label gives no tags, whatever else is configured -/
theorem C10_to_tags_empty (o : LabelOpts) (label : String) (h : label ∈ o.emptyLabels) :
    labelToTags o label = .ok [] := by
  simp [labelToTags, h]

/-- rung 2: the function's result wins (a single tag is wrapped in a list) -/
theorem C10_to_tags_fn_returns (o : LabelOpts) (label : String) (f : String → Except Err TagRes) (r : TagRes)
    (he : label ∉ o.emptyLabels) (hf : o.tagFn = some f) (hr : f label = .ok r) :
    labelToTags o label = .ok r.toList := by
  simp [labelToTags, he, fnRung, hf, hr]

/-- rung 2': only `ValueError` is caught; any other exception of the function propagates -/
theorem C10_to_tags_fn_raises_other (o : LabelOpts) (label : String) (f : String → Except Err TagRes) (e : Err)
    (he : label ∉ o.emptyLabels) (hf : o.tagFn = some f) (hr : f label = .error e) (hne : e ≠ .invalid) :
    labelToTags o label = .error e := by
  cases e <;> simp_all [labelToTags, fnRung]

/-- rung 2'': a function that raises `ValueError` is as good as no function -/
theorem C10_to_tags_fn_falls_through (o : LabelOpts) (label : String)
    (h : o.tagFn = none ∨ ∃ f, o.tagFn = some f ∧ f label = .error .invalid) :
    labelToTags o label = labelToTags { o with tagFn := none } label := by
  rcases h with h | ⟨f, hf, hr⟩ <;> simp [labelToTags, fnRung, chooseKey, *]

/-- rung 3: a term-mapping hit decides the term (before tag mapping, explicit term and keys) -/
theorem C10_to_tags_term_mapping (o : LabelOpts) (label : String) (t : Term)
    (he : label ∉ o.emptyLabels) (hf : fnRung o label = none) (ht : hit o.termMapping label = some t) :
    labelToTags o label = .ok [⟨t, label⟩] := by
  simp [labelToTags, he, hf, ht]

/-- rung 4: a tag-mapping hit returns its tags — also when an explicit term is given -/
theorem C10_to_tags_tag_mapping (o : LabelOpts) (label : String) (r : TagRes)
    (he : label ∉ o.emptyLabels) (hf : fnRung o label = none) (ht : hit o.termMapping label = none)
    (hm : hit o.tagMapping label = some r) :
    labelToTags o label = .ok r.toList := by
  simp [labelToTags, he, hf, ht, hm]

/-- rung 7/8: the explicit term (no mapping hit) — keys are not consulted -/
theorem C10_to_tags_explicit_term (o : LabelOpts) (label : String) (t : Term)
    (he : label ∉ o.emptyLabels) (hf : fnRung o label = none) (ht : hit o.termMapping label = none)
    (hm : hit o.tagMapping label = none) (hterm : o.term = some t) :
    labelToTags o label = .ok [⟨t, label⟩] := by
  simp [labelToTags, he, hf, ht, hm, hterm]

/-- rung 5: a key-mapping hit (before the explicit key) -/
theorem C10_to_tags_key_mapping (o : LabelOpts) (label : String) (k : String)
    (he : label ∉ o.emptyLabels) (hf : fnRung o label = none) (ht : hit o.termMapping label = none)
    (hm : hit o.tagMapping label = none) (hterm : o.term = none) (hk : hit o.keyMapping label = some k) :
    labelToTags o label = .ok [⟨termFromKey k, label⟩] := by
  simp [labelToTags, he, hf, ht, hm, hterm, chooseKey, hk]

/-- rung 6: the explicit key survives a key-mapping miss -/
theorem C10_to_tags_explicit_key (o : LabelOpts) (label : String) (k : String)
    (he : label ∉ o.emptyLabels) (hf : fnRung o label = none) (ht : hit o.termMapping label = none)
    (hm : hit o.tagMapping label = none) (hterm : o.term = none) (hk : hit o.keyMapping label = none)
    (hkey : o.key = some k) :
    labelToTags o label = .ok [⟨termFromKey k, label⟩] := by
  simp [labelToTags, he, hf, ht, hm, hterm, chooseKey, hk, hkey]

/-- rung 6': nothing given: the fallback key -/
theorem C10_to_tags_fallback (o : LabelOpts) (label : String)
    (he : label ∉ o.emptyLabels) (hf : fnRung o label = none) (ht : hit o.termMapping label = none)
    (hm : hit o.tagMapping label = none) (hterm : o.term = none) (hk : hit o.keyMapping label = none)
    (hkey : o.key = none) :
    labelToTags o label = .ok [⟨termFromKey o.fallback, label⟩] := by
  simp [labelToTags, he, hf, ht, hm, hterm, chooseKey, hk, hkey]

/-- rung 8: unless a function or a tag mapping supplies the tags, the result is exactly one tag
    and its value is the label -/
theorem C10_to_tags_value_is_label (o : LabelOpts) (label : String)
    (he : label ∉ o.emptyLabels) (hf : fnRung o label = none) (hm : hit o.tagMapping label = none) :
    ∃ t, labelToTags o label = .ok [⟨t, label⟩] := by
  simp only [labelToTags, he, hf, hm, if_false]
  cases hit o.termMapping label <;> cases o.term <;> simp

/-- the documented cascade as a relation: exactly one rung applies -/
inductive ToTagsSpec (o : LabelOpts) (label : String) : Except Err (List Tag) → Prop
  | empty : label ∈ o.emptyLabels → ToTagsSpec o label (.ok [])
  | fnReturns (f r) : label ∉ o.emptyLabels → o.tagFn = some f → f label = .ok r →
      ToTagsSpec o label (.ok r.toList)
  | fnRaises (f e) : label ∉ o.emptyLabels → o.tagFn = some f → f label = .error e → e ≠ .invalid →
      ToTagsSpec o label (.error e)
  | termMapping (t) : label ∉ o.emptyLabels → fnRung o label = none → hit o.termMapping label = some t →
      ToTagsSpec o label (.ok [⟨t, label⟩])
  | tagMapping (r) : label ∉ o.emptyLabels → fnRung o label = none → hit o.termMapping label = none →
      hit o.tagMapping label = some r → ToTagsSpec o label (.ok r.toList)
  | explicitTerm (t) : label ∉ o.emptyLabels → fnRung o label = none → hit o.termMapping label = none →
      hit o.tagMapping label = none → o.term = some t → ToTagsSpec o label (.ok [⟨t, label⟩])
  | keyMapping (k) : label ∉ o.emptyLabels → fnRung o label = none → hit o.termMapping label = none →
      hit o.tagMapping label = none → o.term = none → hit o.keyMapping label = some k →
      ToTagsSpec o label (.ok [⟨termFromKey k, label⟩])
  | explicitKey (k) : label ∉ o.emptyLabels → fnRung o label = none → hit o.termMapping label = none →
      hit o.tagMapping label = none → o.term = none → hit o.keyMapping label = none → o.key = some k →
      ToTagsSpec o label (.ok [⟨termFromKey k, label⟩])
  | fallback : label ∉ o.emptyLabels → fnRung o label = none → hit o.termMapping label = none →
      hit o.tagMapping label = none → o.term = none → hit o.keyMapping label = none → o.key = none →
      ToTagsSpec o label (.ok [⟨termFromKey o.fallback, label⟩])

/-- `label_to_tags` computes exactly what the documented cascade prescribes -/
theorem C10_label_to_tags_cascade (o : LabelOpts) (label : String) (res : Except Err (List Tag)) :
    labelToTags o label = res ↔ ToTagsSpec o label res := by
  constructor
  · rintro rfl
    by_cases he : label ∈ o.emptyLabels
    · rw [C10_to_tags_empty o label he]; exact .empty he
    · cases hfn : fnRung o label with
      | some r =>
        -- the function returned or raised something other than ValueError
        unfold fnRung at hfn
        cases hf : o.tagFn with
        | none => simp [hf] at hfn
        | some f =>
          cases hr : f label with
          | ok r' =>
            rw [C10_to_tags_fn_returns o label f r' he hf hr]; exact .fnReturns f r' he hf hr
          | error e =>
            have hne : e ≠ .invalid := by
              intro h; subst h; simp [hf, hr] at hfn
            rw [C10_to_tags_fn_raises_other o label f e he hf hr hne]; exact .fnRaises f e he hf hr hne
      | none =>
        cases ht : hit o.termMapping label with
        | some t => rw [C10_to_tags_term_mapping o label t he hfn ht]; exact .termMapping t he hfn ht
        | none =>
          cases hm : hit o.tagMapping label with
          | some r => rw [C10_to_tags_tag_mapping o label r he hfn ht hm]; exact .tagMapping r he hfn ht hm
          | none =>
            cases hterm : o.term with
            | some t =>
              rw [C10_to_tags_explicit_term o label t he hfn ht hm hterm]
              exact .explicitTerm t he hfn ht hm hterm
            | none =>
              cases hk : hit o.keyMapping label with
              | some k =>
                rw [C10_to_tags_key_mapping o label k he hfn ht hm hterm hk]
                exact .keyMapping k he hfn ht hm hterm hk
              | none =>
                cases hkey : o.key with
                | some k =>
                  rw [C10_to_tags_explicit_key o label k he hfn ht hm hterm hk hkey]
                  exact .explicitKey k he hfn ht hm hterm hk hkey
                | none =>
                  rw [C10_to_tags_fallback o label he hfn ht hm hterm hk hkey]
                  exact .fallback he hfn ht hm hterm hk hkey
  · intro h
    cases h with
    | empty he => exact C10_to_tags_empty o label he
    | fnReturns f r he hf hr => exact C10_to_tags_fn_returns o label f r he hf hr
    | fnRaises f e he hf hr hne => exact C10_to_tags_fn_raises_other o label f e he hf hr hne
    | termMapping t he hfn ht => exact C10_to_tags_term_mapping o label t he hfn ht
    | tagMapping r he hfn ht hm => exact C10_to_tags_tag_mapping o label r he hfn ht hm
    | explicitTerm t he hfn ht hm hterm => exact C10_to_tags_explicit_term o label t he hfn ht hm hterm
    | keyMapping k he hfn ht hm hterm hk => exact C10_to_tags_key_mapping o label k he hfn ht hm hterm hk
    | explicitKey k he hfn ht hm hterm hk hkey =>
      exact C10_to_tags_explicit_key o label k he hfn ht hm hterm hk hkey
    | fallback he hfn ht hm hterm hk hkey => exact C10_to_tags_fallback o label he hfn ht hm hterm hk hkey

-- non-vacuity: every rung is reachable, and the three Recon inputs behave as documented
example : labelToTags {} "__empty__" = .ok [] := by decide
example : labelToTags { key := some "explicit", keyMapping := some [("other", "x")] } "lab" =
    .ok [⟨termFromKey "explicit", "lab"⟩] := by decide
example : labelToTags { term := some ⟨"L", "n:L", "d"⟩, tagMapping := some [("lab", .single ⟨termFromKey "k", "v"⟩)] } "lab" =
    .ok [⟨termFromKey "k", "v"⟩] := by decide
example : labelToTags { term := some ⟨"L", "n:L", "d"⟩, keyMapping := some [("lab", "k")] } "lab" =
    .ok [⟨⟨"L", "n:L", "d"⟩, "lab"⟩] := by decide
example : labelToTags { tagFn := some (fun _ => .error .invalid), keyMapping := some [("lab", "k")], key := some "e" } "lab" =
    .ok [⟨termFromKey "k", "lab"⟩] := by decide
example : labelToTags { tagFn := some (fun _ => .error .key) } "lab" = .error .key := by decide
example : labelToTags { termMapping := some [("lab", ⟨"T", "n:T", "d"⟩)],
                        tagMapping := some [("lab", .many [])], term := some ⟨"L", "n:L", "d"⟩ } "lab" =
    .ok [⟨⟨"T", "n:T", "d"⟩, "lab"⟩] := by decide

/-! ## tag(s) → label: one lemma per rung -/

/-- `label_from_tag` rung 1: the function decides (its exceptions propagate) -/
theorem C10_from_tag_fn (kw : TagKw) (sep : String) (t : Tag) (f : Tag → Except Err String)
    (h : kw.labelFn = some f) : labelFromTag kw sep t = f t := by
  simp [labelFromTag, h]

/-- rung 2: a mapping hit -/
theorem C10_from_tag_mapping (kw : TagKw) (sep : String) (t : Tag) (m : List (Tag × String)) (l : String)
    (hf : kw.labelFn = none) (hm : kw.labelMapping = some m) (hl : m.lookup t = some l) :
    labelFromTag kw sep t = .ok l := by
  simp [labelFromTag, hf, hm, hl]

/-- rung 3: value only -/
theorem C10_from_tag_value_only (kw : TagKw) (sep : String) (t : Tag)
    (hf : kw.labelFn = none) (hm : kw.labelMapping.bind (·.lookup t) = none) (hv : kw.valueOnly = some true) :
    labelFromTag kw sep t = .ok t.value := by
  simp [labelFromTag, hf, hm, hv]

/-- rung 4: key, separator, value -/
theorem C10_from_tag_key_value (kw : TagKw) (sep : String) (t : Tag)
    (hf : kw.labelFn = none) (hm : kw.labelMapping.bind (·.lookup t) = none) (hv : kw.valueOnly.getD false = false) :
    labelFromTag kw sep t = .ok (t.term.label ++ sep ++ t.value) := by
  simp [labelFromTag, hf, hm, hv, keyFromTerm]

/-- `label_from_tags` rung 1: the sequence function decides, even for an empty tag list -/
theorem C10_from_tags_fn (o : TagsOpts) (tags : List Tag) (f : List Tag → Except Err String)
    (h : o.seqLabelFn = some f) : labelFromTags o tags = f tags := by
  simp [labelFromTags, h]

/-- rung 2: no tags: the empty label -/
theorem C10_from_tags_empty (o : TagsOpts) (h : o.seqLabelFn = none) :
    labelFromTags o [] = .ok o.emptyLabel := by
  simp [labelFromTags, h]

/-- rung 3: select by key: the first tag whose key matches, converted value-only (whatever
    `value_only` was passed; the function and the mapping of `label_from_tag` still apply) -/
theorem C10_from_tags_select_hit (o : TagsOpts) (tags : List Tag) (k : String) (t : Tag)
    (hf : o.seqLabelFn = none) (hne : tags ≠ []) (hk : o.selectByKey = some k)
    (ht : tags.find? (fun t => keyFromTerm t.term == k) = some t) :
    labelFromTags o tags = labelFromTag { o.kw with valueOnly := some true } tagSep t := by
  cases tags with
  | nil => exact absurd rfl hne
  | cons a as => simp only [labelFromTags, hf, hk, List.isEmpty_cons, ht]; rfl

/-- … which, without function and mapping, is the value of the first matching tag: tags before
    it do not carry the key -/
theorem C10_from_tags_select_first (o : TagsOpts) (pre post : List Tag) (k : String) (t : Tag)
    (hf : o.seqLabelFn = none) (hk : o.selectByKey = some k)
    (hpre : ∀ x ∈ pre, x.term.label ≠ k) (ht : t.term.label = k)
    (hfn : o.kw.labelFn = none) (hm : o.kw.labelMapping = none) :
    labelFromTags o (pre ++ t :: post) = .ok t.value := by
  have hfind : (pre ++ t :: post).find? (fun t => keyFromTerm t.term == k) = some t := by
    have : pre.find? (fun t => keyFromTerm t.term == k) = none := by
      rw [List.find?_eq_none]; intro x hx; simpa [keyFromTerm] using hpre x hx
    rw [List.find?_append, this]
    simp [keyFromTerm, ht]
  rw [C10_from_tags_select_hit o _ k t hf (by simp) hk hfind]
  simp [labelFromTag, hfn, hm]

/-- rung 3': no tag carries the key: the empty label -/
theorem C10_from_tags_select_miss (o : TagsOpts) (tags : List Tag) (k : String)
    (hf : o.seqLabelFn = none) (hk : o.selectByKey = some k)
    (hmiss : ∀ x ∈ tags, x.term.label ≠ k) :
    labelFromTags o tags = .ok o.emptyLabel := by
  cases tags with
  | nil => exact C10_from_tags_empty o hf
  | cons a as =>
    have : (a :: as).find? (fun t => keyFromTerm t.term == k) = none := by
      rw [List.find?_eq_none]; intro x hx; simpa [keyFromTerm] using hmiss x hx
    simp only [labelFromTags, hf, hk, List.isEmpty_cons, this]; rfl

/-- the index is taken modulo the number of tags: always in range (no `IndexError`) -/
theorem C10_from_tags_index_range (tags : List Tag) (i : Int) (hne : tags ≠ []) :
    (i % (tags.length : Int)).toNat < tags.length := by
  have hpos : (0 : Int) < tags.length := by
    have : 0 < tags.length := List.length_pos_iff.mpr hne
    omega
  have h1 := Int.emod_nonneg i (Int.ne_of_gt hpos)
  have h2 := Int.emod_lt_of_pos i hpos
  omega

/-- rung 4: the tag at `index mod length` (negative and too large indices wrap around) -/
theorem C10_from_tags_index (o : TagsOpts) (tags : List Tag) (i : Int)
    (hf : o.seqLabelFn = none) (hne : tags ≠ []) (hk : o.selectByKey = none) (hi : o.index = some i) :
    labelFromTags o tags =
      labelFromTag o.kw tagSep (tags[(i % (tags.length : Int)).toNat]'(C10_from_tags_index_range tags i hne)) := by
  have hr := C10_from_tags_index_range tags i hne
  cases tags with
  | nil => exact absurd rfl hne
  | cons a as =>
    simp only [labelFromTags, hf, hk, hi, List.isEmpty_cons]
    rw [List.getElem?_eq_getElem hr]
    rfl

/-- rung 5: the labels of all tags, in order, joined by the separator; the first tag whose
    conversion fails raises -/
theorem C10_from_tags_join (o : TagsOpts) (tags : List Tag)
    (hf : o.seqLabelFn = none) (hne : tags ≠ []) (hk : o.selectByKey = none) (hi : o.index = none) :
    (∀ ls, tags.map (labelFromTag o.kw tagSep) = ls.map Except.ok →
        labelFromTags o tags = .ok (String.intercalate o.separator ls)) ∧
    (∀ e, tags.mapM (labelFromTag o.kw tagSep) = .error e → labelFromTags o tags = .error e) := by
  cases tags with
  | nil => exact absurd rfl hne
  | cons a as =>
    constructor
    · intro ls h
      have := (mapM_ok_iff _ _ _).mpr h
      simp only [labelFromTags, hf, hk, hi, List.isEmpty_cons, this]; rfl
    · intro e h
      simp only [labelFromTags, hf, hk, hi, List.isEmpty_cons, h]; rfl

/-- the documented cascade of `label_from_tags` as a relation -/
inductive FromTagsSpec (o : TagsOpts) (tags : List Tag) : Except Err String → Prop
  | seqFn (f) : o.seqLabelFn = some f → FromTagsSpec o tags (f tags)
  | noTags : o.seqLabelFn = none → tags = [] → FromTagsSpec o tags (.ok o.emptyLabel)
  | selectHit (k t) : o.seqLabelFn = none → tags ≠ [] → o.selectByKey = some k →
      tags.find? (fun t => keyFromTerm t.term == k) = some t →
      FromTagsSpec o tags (labelFromTag { o.kw with valueOnly := some true } tagSep t)
  | selectMiss (k) : o.seqLabelFn = none → tags ≠ [] → o.selectByKey = some k →
      tags.find? (fun t => keyFromTerm t.term == k) = none → FromTagsSpec o tags (.ok o.emptyLabel)
  | index (i) (hne : tags ≠ []) : o.seqLabelFn = none → o.selectByKey = none → o.index = some i →
      FromTagsSpec o tags
        (labelFromTag o.kw tagSep (tags[(i % (tags.length : Int)).toNat]'(C10_from_tags_index_range tags i hne)))
  | join : o.seqLabelFn = none → tags ≠ [] → o.selectByKey = none → o.index = none →
      FromTagsSpec o tags ((tags.mapM (labelFromTag o.kw tagSep)).map (String.intercalate o.separator))

/-- `label_from_tags` computes exactly what the documented cascade prescribes -/
theorem C10_label_from_tags_cascade (o : TagsOpts) (tags : List Tag) (res : Except Err String) :
    labelFromTags o tags = res ↔ FromTagsSpec o tags res := by
  constructor
  · rintro rfl
    cases hf : o.seqLabelFn with
    | some f => rw [C10_from_tags_fn o tags f hf]; exact .seqFn f hf
    | none =>
      by_cases hne : tags = []
      · subst hne; rw [C10_from_tags_empty o hf]; exact .noTags hf rfl
      · cases hk : o.selectByKey with
        | some k =>
          cases ht : tags.find? (fun t => keyFromTerm t.term == k) with
          | some t => rw [C10_from_tags_select_hit o tags k t hf hne hk ht]; exact .selectHit k t hf hne hk ht
          | none =>
            have : labelFromTags o tags = .ok o.emptyLabel := by
              cases tags with
              | nil => exact absurd rfl hne
              | cons a as => simp only [labelFromTags, hf, hk, List.isEmpty_cons, ht]; rfl
            rw [this]; exact .selectMiss k hf hne hk ht
        | none =>
          cases hi : o.index with
          | some i => rw [C10_from_tags_index o tags i hf hne hk hi]; exact .index i hne hf hk hi
          | none =>
            have : labelFromTags o tags =
                (tags.mapM (labelFromTag o.kw tagSep)).map (String.intercalate o.separator) := by
              cases tags with
              | nil => exact absurd rfl hne
              | cons a as => simp only [labelFromTags, hf, hk, hi, List.isEmpty_cons]; rfl
            rw [this]; exact .join hf hne hk hi
  · intro h
    cases h with
    | seqFn f hf => exact C10_from_tags_fn o tags f hf
    | noTags hf he => subst he; exact C10_from_tags_empty o hf
    | selectHit k t hf hne hk ht => exact C10_from_tags_select_hit o tags k t hf hne hk ht
    | selectMiss k hf hne hk ht =>
      cases tags with
      | nil => exact absurd rfl hne
      | cons a as => simp only [labelFromTags, hf, hk, List.isEmpty_cons, ht]; rfl
    | index i hne hf hk hi => exact C10_from_tags_index o tags i hf hne hk hi
    | join hf hne hk hi =>
      cases tags with
      | nil => exact absurd rfl hne
      | cons a as => simp only [labelFromTags, hf, hk, hi, List.isEmpty_cons]; rfl

-- non-vacuity
example : labelFromTags { selectByKey := some "k", kw := { valueOnly := some true } } [⟨termFromKey "k", "v"⟩] = .ok "v" := by
  decide
example : labelFromTags { selectByKey := some "k", kw := { valueOnly := some false } }
    [⟨termFromKey "a", "x"⟩, ⟨termFromKey "k", "v"⟩, ⟨termFromKey "k", "w"⟩] = .ok "v" := by decide
example : labelFromTags { index := some (-1) } [⟨termFromKey "a", "x"⟩, ⟨termFromKey "k", "v"⟩] = .ok "k:v" := by decide
example : labelFromTags { index := some 5 } [⟨termFromKey "a", "x"⟩, ⟨termFromKey "k", "v"⟩] = .ok "k:v" := by decide
example : labelFromTags { index := some 4, kw := { valueOnly := some true } }
    [⟨termFromKey "a", "x"⟩, ⟨termFromKey "k", "v"⟩] = .ok "x" := by decide
example : labelFromTags {} [⟨termFromKey "a", "x"⟩, ⟨termFromKey "k", "v"⟩] = .ok "a:x,k:v" := by decide
example : labelFromTags { selectByKey := some "zz", emptyLabel := "NA" } [⟨termFromKey "a", "x"⟩] = .ok "NA" := by decide

/-! ## export -/

/-- what validation guarantees for a `TimeInterval` (start ≤ end); no condition on other types -/
def IntervalOrdered : Geom → Prop
  | .timeInterval s e => s ≤ e
  | _ => True

/-- `segment_from_annotation` spans the time bounds of the geometry (of any type) and converts
    the tags by the label cascade -/
theorem C10_export_bounds_segment (o : TagsOpts) (cast : Bool) (sr : Rat) (a : Ann) (s : Segment)
    (g : Geom) (b : Bounds) (hg : a.geom = some g) (hb : g.bounds = some b) (hord : IntervalOrdered g)
    (h : exportSegment o cast sr a = .ok s) :
    s.onsetS = some b.st ∧ s.offsetS = some b.en ∧ labelFromTags o a.tags = .ok s.label := by
  unfold exportSegment at h
  rw [hg] at h
  simp only at h
  have key : ∀ p, geomToInterval g cast = .ok p → p = (b.st, b.en) := by
    intro p hp
    cases g with
    | timeInterval s0 e0 =>
      rw [bounds_timeInterval s0 e0 hord] at hb
      cases hb
      simp [geomToInterval] at hp; exact hp.symm
    | _ =>
      simp only [geomToInterval, hb] at hp
      cases cast <;> simp at hp
      all_goals (cases hm : mkInterval b.st b.en <;> simp [hm] at hp; exact hp.symm)
  cases hgi : geomToInterval g cast with
  | error e => simp [hgi, bind, Except.bind] at h
  | ok p =>
    have := key p hgi; subst this
    cases hl : labelFromTags o a.tags with
    | error e => simp [hgi, hl, bind, Except.bind] at h
    | ok l =>
      simp [hgi, hl, bind, Except.bind, pure, Except.pure] at h
      subst h; exact ⟨rfl, rfl, rfl⟩

/-- a `TimeInterval` is exported as it is, whatever the cast switch says -/
theorem C10_export_interval_identity (o : TagsOpts) (cast : Bool) (sr : Rat) (a : Ann) (s e : Rat) (l : String)
    (hg : a.geom = some (.timeInterval s e)) (hl : labelFromTags o a.tags = .ok l) :
    exportSegment o cast sr a = .ok ⟨l, some s, some e, some (timeToSample sr s), some (timeToSample sr e)⟩ := by
  simp [exportSegment, hg, geomToInterval, hl, bind, Except.bind, pure, Except.pure]

/-- sample indices of an exported segment are `floor(time · samplerate)` of its own onset and
    offset (times of valid geometries and sample rates are non-negative) -/
theorem C10_export_samples_floor (o : TagsOpts) (cast : Bool) (sr : Rat) (a : Ann) (s : Segment)
    (h : exportSegment o cast sr a = .ok s) :
    ∃ t u, s.onsetS = some t ∧ s.offsetS = some u ∧
      s.onsetSample = some (timeToSample sr t) ∧ s.offsetSample = some (timeToSample sr u) ∧
      (0 ≤ t * sr → timeToSample sr t = (t * sr).floor) ∧ (0 ≤ u * sr → timeToSample sr u = (u * sr).floor) := by
  unfold exportSegment at h
  cases hg : a.geom with
  | none => simp [hg] at h
  | some g =>
    simp only [hg] at h
    cases hgi : geomToInterval g cast with
    | error e => simp [hgi, bind, Except.bind] at h
    | ok p =>
      cases hl : labelFromTags o a.tags with
      | error e => simp [hgi, hl, bind, Except.bind] at h
      | ok l =>
        simp [hgi, hl, bind, Except.bind, pure, Except.pure] at h
        subst h
        exact ⟨p.1, p.2, rfl, rfl, rfl, rfl, fun h => (timeToSample_floor sr p.1 h).1,
               fun h => (timeToSample_floor sr p.2 h).1⟩

/-- `bbox_from_annotation` spans the time and frequency bounds of the geometry (of any type), the
    upper frequency capped at the Nyquist frequency -/
theorem C10_export_bounds_bbox (o : TagsOpts) (cast raiseTime : Bool) (sr : Rat) (a : Ann) (bb : BBox)
    (h : exportBBox o cast raiseTime sr a = .ok bb) :
    ∃ g b, a.geom = some g ∧ g.bounds = some b ∧ bb.onset = b.st ∧ bb.offset = b.en ∧ bb.lowFreq = b.lo ∧
      bb.highFreq = min b.hi (sr / 2) ∧ labelFromTags o a.tags = .ok bb.label := by
  unfold exportBBox at h
  cases hg : a.geom with
  | none => simp [hg] at h
  | some g =>
    simp only [hg] at h
    cases hgb : geomToBounds g cast raiseTime with
    | error e => simp [hgb, bind, Except.bind] at h
    | ok b =>
      have hb : g.bounds = some b := by
        unfold geomToBounds at hgb
        split at hgb
        · cases hgb
        · split at hgb
          · cases hgb
          · cases hbb : g.bounds with
            | none => simp [hbb] at hgb
            | some b' => simp [hbb] at hgb; rw [hgb]
      cases hl : labelFromTags o a.tags with
      | error e => simp [hgb, hl, bind, Except.bind] at h
      | ok l =>
        simp only [hgb, hl, bind, Except.bind, mkBBox] at h
        split at h
        · cases h
        · cases h; exact ⟨g, b, rfl, hb, rfl, rfl, rfl, rfl, rfl⟩

/-- the Nyquist cap: never above `samplerate / 2`, never above the geometry's own upper
    frequency, and equal to it when that is at most the Nyquist frequency -/
theorem C10_export_nyquist_cap (o : TagsOpts) (cast raiseTime : Bool) (sr : Rat) (a : Ann) (bb : BBox)
    (h : exportBBox o cast raiseTime sr a = .ok bb) :
    bb.highFreq ≤ sr / 2 ∧
      ∀ g b, a.geom = some g → g.bounds = some b → bb.highFreq ≤ b.hi ∧ (b.hi ≤ sr / 2 → bb.highFreq = b.hi) := by
  obtain ⟨g, b, hg, hb, _, _, _, hh, _⟩ := C10_export_bounds_bbox o cast raiseTime sr a bb h
  refine ⟨by rw [hh]; grind, ?_⟩
  intro g' b' hg' hb'
  rw [hg] at hg'; cases hg'; rw [hb] at hb'; cases hb'
  rw [hh]; constructor <;> grind

/-- an exported box satisfies crowsetta's invariants (otherwise the export raises `ValueError`) -/
theorem C10_export_bbox_valid (o : TagsOpts) (cast raiseTime : Bool) (sr : Rat) (a : Ann) (bb : BBox)
    (h : exportBBox o cast raiseTime sr a = .ok bb) :
    0 ≤ bb.onset ∧ bb.onset < bb.offset ∧ 0 ≤ bb.lowFreq ∧ bb.lowFreq < bb.highFreq := by
  unfold exportBBox at h
  cases hg : a.geom with
  | none => simp [hg] at h
  | some g =>
    simp only [hg] at h
    cases hgb : geomToBounds g cast raiseTime with
    | error e => simp [hgb, bind, Except.bind] at h
    | ok b =>
      cases hl : labelFromTags o a.tags with
      | error e => simp [hgb, hl, bind, Except.bind] at h
      | ok l =>
        simp only [hgb, hl, bind, Except.bind, mkBBox] at h
        split at h
        · cases h
        · cases h; simp only; grind

/-- the switches of `segment_from_annotation`: no geometry is a `ValueError`; a geometry that is
    not a `TimeInterval` is a `ValueError` unless casting is allowed -/
theorem C10_export_switches_segment (o : TagsOpts) (cast : Bool) (sr : Rat) (a : Ann) :
    (a.geom = none → exportSegment o cast sr a = .error .invalid) ∧
    (∀ g, a.geom = some g → (∀ s e, g ≠ .timeInterval s e) → cast = false →
        exportSegment o cast sr a = .error .invalid) := by
  constructor
  · intro h; simp [exportSegment, h]
  · intro g hg hnt hc
    subst hc
    cases g <;> simp [exportSegment, hg, geomToInterval, bind, Except.bind]
    exact absurd rfl (hnt _ _)

/-- the switches of `bbox_from_annotation`; with both switches permissive a time interval becomes
    the box from 0 Hz to `min(MAX_FREQUENCY, Nyquist)` -/
theorem C10_export_switches_bbox (o : TagsOpts) (cast raiseTime : Bool) (sr : Rat) (a : Ann) :
    (a.geom = none → exportBBox o cast raiseTime sr a = .error .invalid) ∧
    (∀ g, a.geom = some g → isBoxGeom g = false → cast = false →
        exportBBox o cast raiseTime sr a = .error .invalid) ∧
    (∀ g, a.geom = some g → isTimeGeom g = true → raiseTime = true →
        exportBBox o cast raiseTime sr a = .error .invalid) ∧
    (∀ s e l, a.geom = some (.timeInterval s e) → s ≤ e → cast = true → raiseTime = false →
        labelFromTags o a.tags = .ok l →
        exportBBox o cast raiseTime sr a = mkBBox s e 0 (min MAXF (sr / 2)) l) := by
  refine ⟨?_, ?_, ?_, ?_⟩
  · intro h; simp [exportBBox, h]
  · intro g hg hb hc
    simp [exportBBox, hg, geomToBounds, hb, hc, bind, Except.bind]
  · intro g hg ht hr
    simp only [exportBBox, hg, geomToBounds, ht, hr, bind, Except.bind]
    by_cases hb : (!isBoxGeom g) = true ∧ (!cast) = true <;> simp [hb]
  · intro s e l hg hse hc hr hl
    subst hc; subst hr
    simp [exportBBox, hg, geomToBounds, isBoxGeom, isTimeGeom, bounds_timeInterval s e hse, hl, bind, Except.bind]

/-- `ignore_errors=True`: the conversion succeeds iff no element fails with anything but a
    `ValueError`; the result is then the conversions of the convertible elements, in order -/
theorem C10_export_error_policy_ignore (o : TagsOpts) (cast raiseTime : Bool) (r : Rec) (anns : List Ann) :
    (∀ segs, exportSequence o cast true r.samplerate anns = .ok segs ↔
      (∀ a ∈ anns, ∀ e, exportSegment o cast r.samplerate a = .error e → e = .invalid) ∧
        segs = anns.filterMap (fun a => (exportSegment o cast r.samplerate a).toOption)) ∧
    (∀ ca, exportAnnotation o .bbox true cast raiseTime r anns = .ok ca ↔
      (∀ a ∈ anns, ∀ e, exportBBox o cast raiseTime r.samplerate a = .error e → e = .invalid) ∧
        ca = ⟨some r.path, anns.filterMap (fun a => (exportBBox o cast raiseTime r.samplerate a).toOption), []⟩) := by
  constructor
  · intro segs; exact collect_ignore_ok_iff _ anns segs
  · intro ca
    unfold exportAnnotation
    cases hc : collect (exportBBox o cast raiseTime r.samplerate) true anns with
    | ok boxes =>
      have := (collect_ignore_ok_iff _ anns boxes).mp hc
      simp only [bind, Except.bind, pure, Except.pure, Except.ok.injEq]
      constructor
      · rintro rfl; exact ⟨this.1, by rw [this.2]⟩
      · rintro ⟨_, rfl⟩; rw [this.2]
    | error e =>
      simp only [bind, Except.bind, reduceCtorEq, false_iff, not_and]
      intro hall _
      have := (collect_ignore_ok_iff _ anns _).mpr ⟨hall, rfl⟩
      rw [hc] at this; cases this

/-- `ignore_errors=False`: every element must convert; the error raised is the one of the first
    element that fails.  With `ignore_errors=True` the same holds for errors other than `ValueError` -/
theorem C10_export_error_policy_raise (o : TagsOpts) (cast ignore : Bool) (sr : Rat) (anns : List Ann) :
    exportSequence o cast false sr anns = anns.mapM (exportSegment o cast sr) ∧
    (∀ e, exportSequence o cast ignore sr anns = .error e ↔
      ∃ pre a post, anns = pre ++ a :: post ∧ exportSegment o cast sr a = .error e ∧
        ¬ (e = .invalid ∧ ignore = true) ∧
        ∀ x ∈ pre, (∃ s, exportSegment o cast sr x = .ok s) ∨
          (exportSegment o cast sr x = .error .invalid ∧ ignore = true)) :=
  ⟨collect_raise_eq_mapM _ anns, fun e => collect_error_iff _ ignore anns e⟩

/-- order: whatever the policy, the exported elements are the convertible ones in their original
    order (never more than there were) -/
theorem C10_export_order (o : TagsOpts) (cast ignore : Bool) (sr : Rat) (anns : List Ann) (segs : List Segment)
    (h : exportSequence o cast ignore sr anns = .ok segs) :
    segs = anns.filterMap (fun a => (exportSegment o cast sr a).toOption) ∧ segs.length ≤ anns.length := by
  have := collect_ok_filterMap _ ignore anns segs h
  exact ⟨this, by rw [this]; exact List.length_filterMap_le _ _⟩

/-- when every element converts nothing is dropped: one segment per annotation, in order -/
theorem C10_export_no_error_all (o : TagsOpts) (cast ignore : Bool) (sr : Rat) (anns : List Ann)
    (g : Ann → Segment) (h : ∀ a ∈ anns, exportSegment o cast sr a = .ok (g a)) :
    exportSequence o cast ignore sr anns = .ok (anns.map g) :=
  collect_all_ok _ g ignore anns h

-- non-vacuity
example : exportSegment { kw := { valueOnly := some true } } true 10 ⟨some (.boundingBox (1/2) 3 (7/4) 9), [⟨termFromKey "k", "v"⟩]⟩ =
    .ok ⟨"v", some (1/2), some (7/4), some 5, some 17⟩ := by decide +kernel
example : exportSegment {} false 10 ⟨some (.boundingBox (1/2) 3 (7/4) 9), []⟩ = .error .invalid := by decide +kernel
example : exportBBox {} true true 10 ⟨some (.boundingBox (1/2) 3 (7/4) 9), []⟩ =
    .ok ⟨1/2, 7/4, 3, 5, "__empty__"⟩ := by decide +kernel
example : exportBBox {} true true 10 ⟨some (.boundingBox (1/2) 6 (7/4) 9), []⟩ = .error .invalid := by decide +kernel
example : exportBBox {} true false 10 ⟨some (.timeInterval 1 2), []⟩ = .ok ⟨1, 2, 0, 5, "__empty__"⟩ := by decide +kernel
example : exportBBox {} true true 10 ⟨some (.lineString [(1, 2), (2, 1), (3, 4)]), []⟩ =
    .ok ⟨1, 3, 1, 4, "__empty__"⟩ := by decide +kernel
example : exportSequence {} false true 10 [⟨some (.timeInterval 1 2), []⟩, ⟨none, []⟩, ⟨some (.point 1 2), []⟩,
    ⟨some (.timeInterval 2 3), []⟩] =
    .ok [⟨"__empty__", some 1, some 2, some 10, some 20⟩, ⟨"__empty__", some 2, some 3, some 20, some 30⟩] := by
  decide +kernel
example : exportSequence {} false false 10 [⟨some (.timeInterval 1 2), []⟩, ⟨none, []⟩] = .error .invalid := by
  decide +kernel
example : exportSequence { kw := { labelFn := some (fun _ => .error .key) } } true true 10
    [⟨none, []⟩, ⟨some (.timeInterval 1 2), [⟨termFromKey "k", "v"⟩]⟩] = .error .key := by decide +kernel

/-! ## the round trip: export after import -/

/-- import options that turn a label into (at most) one tag whose value is the label -/
structure SingleTagImport (io : LabelOpts) : Prop where
  noFn : io.tagFn = none
  noTagMapping : io.tagMapping = none

/-- export options that give value-only labels -/
structure ValueOnlyExport (eo : TagsOpts) : Prop where
  noSeqFn : eo.seqLabelFn = none
  noSelect : eo.selectByKey = none
  noFn : eo.kw.labelFn = none
  noMapping : eo.kw.labelMapping = none
  valueOnly : eo.kw.valueOnly = some true

/-- labels survive: whatever term, key, mappings or fallback the import uses and whatever index
    or separator the export uses, provided both sides agree on the empty label -/
theorem C10_roundtrip_label (io : LabelOpts) (eo : TagsOpts) (hi : SingleTagImport io) (he : ValueOnlyExport eo)
    (hm : io.emptyLabels = [eo.emptyLabel]) (label : String) :
    ∃ tags, labelToTags io label = .ok tags ∧ labelFromTags eo tags = .ok label := by
  by_cases hl : label ∈ io.emptyLabels
  · refine ⟨[], C10_to_tags_empty io label hl, ?_⟩
    rw [C10_from_tags_empty eo he.noSeqFn]
    rw [hm] at hl; simp at hl; rw [hl]
  · have hfn : fnRung io label = none := by simp [fnRung, hi.noFn]
    have htm : hit io.tagMapping label = none := by simp [hit, hi.noTagMapping]
    obtain ⟨t, ht⟩ := C10_to_tags_value_is_label io label hl hfn htm
    refine ⟨_, ht, ?_⟩
    have hone : labelFromTag eo.kw tagSep ⟨t, label⟩ = .ok label := by
      simp [labelFromTag, he.noFn, he.noMapping, he.valueOnly]
    cases hidx : eo.index with
    | some i =>
      rw [C10_from_tags_index eo _ i he.noSeqFn (by simp) he.noSelect hidx]
      have : (i % ((([⟨t, label⟩] : List Tag).length : Nat) : Int)).toNat = 0 := by simp
      simp only [this]; exact hone
    | none =>
      have := (C10_from_tags_join eo [⟨t, label⟩] he.noSeqFn (by simp) he.noSelect hidx).1 [label]
        (by simp [hone])
      rw [this]; rfl

/-- what the round trip makes of a segment given in seconds: label, onset and offset are
    reproduced; the sample indices are `int(seconds · samplerate)` -/
def canonSegment (sr : Rat) (s : Segment) : Segment :=
  ⟨s.label, s.onsetS, s.offsetS, s.onsetS.map (timeToSample sr), s.offsetS.map (timeToSample sr)⟩

/-- a segment the importer accepts from its seconds -/
def SecondsValid (s : Segment) : Prop :=
  ∃ a b, s.onsetS = some a ∧ s.offsetS = some b ∧ 0 ≤ a ∧ a ≤ b

/-- the two steps of the segment round trip: the import succeeds with *some* annotation and the
    export of that annotation is the canonical segment -/
theorem C10_roundtrip_segment_steps (io : LabelOpts) (eo : TagsOpts) (hi : SingleTagImport io) (he : ValueOnlyExport eo)
    (hm : io.emptyLabels = [eo.emptyLabel]) (adjust cast : Bool) (r : Rec) (hte : r.te = 1 ∨ adjust = false)
    (s : Segment) (hs : SecondsValid s) :
    ∃ ann, importSegment io adjust r s = .ok ann ∧
      exportSegment eo cast r.samplerate ann = .ok (canonSegment r.samplerate s) := by
  obtain ⟨a, b, hsa, hsb, h0, hab⟩ := hs
  obtain ⟨tags, htags, hlab⟩ := C10_roundtrip_label io eo hi he hm s.label
  have hseg : segTimes s.onsetS s.offsetS (s.onsetSample.map ratOfInt) (s.offsetSample.map ratOfInt)
      r.samplerate r.te adjust = some (a, b) := by
    rw [hsa, hsb]
    rcases hte with h | h
    · rw [h]; exact C10_import_no_expansion a b _ _ _ adjust
    · subst h; simp [segTimes, fileTime, adjTime]
  refine ⟨⟨some (.timeInterval a b), tags⟩, ?_, ?_⟩
  · rw [C10_import_segment_geometry]
    exact ⟨a, b, hseg, h0, hab, rfl, htags⟩
  · rw [C10_export_interval_identity eo cast r.samplerate _ a b s.label rfl hlab]
    simp [canonSegment, hsa, hsb]

/-- **round trip, segments** (`te = 1` or no adjustment, value-only labels): onset, offset and
    label come back exactly, sample indices are recomputed from the seconds -/
theorem C10_roundtrip_segment (io : LabelOpts) (eo : TagsOpts) (hi : SingleTagImport io) (he : ValueOnlyExport eo)
    (hm : io.emptyLabels = [eo.emptyLabel]) (adjust cast : Bool) (r : Rec) (hte : r.te = 1 ∨ adjust = false)
    (s : Segment) (hs : SecondsValid s) :
    roundtripSegment io eo adjust cast r s = .ok (canonSegment r.samplerate s) := by
  obtain ⟨ann, h1, h2⟩ := C10_roundtrip_segment_steps io eo hi he hm adjust cast r hte s hs
  simp [roundtripSegment, h1, h2, bind, Except.bind]

/-- **round trip, segments given in samples only** (`te = 1`, positive sample rate): the sample
    indices come back exactly, the seconds are `sample / samplerate` -/
theorem C10_roundtrip_segment_samples (io : LabelOpts) (eo : TagsOpts) (hi : SingleTagImport io)
    (he : ValueOnlyExport eo) (hm : io.emptyLabels = [eo.emptyLabel]) (adjust cast : Bool) (r : Rec)
    (hte : r.te = 1) (hsr : 0 < r.samplerate) (label : String) (n m : Int) (h0 : 0 ≤ n) (hnm : n ≤ m) :
    roundtripSegment io eo adjust cast r ⟨label, none, none, some n, some m⟩ =
      .ok ⟨label, some ((n : Rat) / r.samplerate), some ((m : Rat) / r.samplerate), some n, some m⟩ := by
  obtain ⟨tags, htags, hlab⟩ := C10_roundtrip_label io eo hi he hm label
  have hne : r.samplerate ≠ 0 := by grind
  have hinv : 0 < r.samplerate⁻¹ := Rat.inv_pos.mpr hsr
  have hseg : segTimes none none (some (ratOfInt n)) (some (ratOfInt m)) r.samplerate r.te adjust =
      some ((n : Rat) / r.samplerate, (m : Rat) / r.samplerate) := by
    rw [hte]; simp only [segTimes, fileTime, adjTime, ratOfInt]
    simp; constructor <;> grind
  have hn0 : (0 : Rat) ≤ (n : Rat) / r.samplerate := by
    rw [Rat.div_def]; exact Rat.mul_nonneg (by exact_mod_cast h0) (Rat.le_of_lt hinv)
  have hle : (n : Rat) / r.samplerate ≤ (m : Rat) / r.samplerate := by
    rw [Rat.div_def, Rat.div_def]
    exact Rat.mul_le_mul_of_nonneg_right (by exact_mod_cast hnm) (Rat.le_of_lt hinv)
  have himp : importSegment io adjust r ⟨label, none, none, some n, some m⟩ =
      .ok ⟨some (.timeInterval ((n : Rat) / r.samplerate) ((m : Rat) / r.samplerate)), tags⟩ := by
    rw [C10_import_segment_geometry]
    exact ⟨_, _, hseg, hn0, hle, rfl, htags⟩
  have hsn : timeToSample r.samplerate ((n : Rat) / r.samplerate) = n := by
    have : (n : Rat) / r.samplerate * r.samplerate = (n : Rat) := by grind
    rw [timeToSample, this]; exact pyInt_intCast n
  have hsm : timeToSample r.samplerate ((m : Rat) / r.samplerate) = m := by
    have : (m : Rat) / r.samplerate * r.samplerate = (m : Rat) := by grind
    rw [timeToSample, this]; exact pyInt_intCast m
  simp only [roundtripSegment, himp, bind, Except.bind]
  rw [C10_export_interval_identity eo cast r.samplerate _ _ _ label rfl hlab, hsn, hsm]

/-- the time the importer reads from one end of a segment when there is no time expansion -/
def endTime (sr : Rat) (sec : Option Rat) (sample : Option Int) : Option Rat :=
  fileTime sec (sample.map ratOfInt) sr 1

/-- a segment the importer accepts without time expansion: each end given in seconds or in samples
    (any mixture), non-negative and ordered -/
def SegValid (sr : Rat) (s : Segment) : Prop :=
  ∃ a b, endTime sr s.onsetS s.onsetSample = some a ∧ endTime sr s.offsetS s.offsetSample = some b ∧
    0 ≤ a ∧ a ≤ b

/-- what the round trip makes of such a segment -/
def rtImage (sr : Rat) (s : Segment) : Segment :=
  ⟨s.label, endTime sr s.onsetS s.onsetSample, endTime sr s.offsetS s.offsetSample,
   (endTime sr s.onsetS s.onsetSample).map (timeToSample sr),
   (endTime sr s.offsetS s.offsetSample).map (timeToSample sr)⟩

/-- the two steps, general form: import succeeds, export of the imported annotation is the image -/
theorem C10_roundtrip_segment_general_steps (io : LabelOpts) (eo : TagsOpts) (hi : SingleTagImport io)
    (he : ValueOnlyExport eo) (hm : io.emptyLabels = [eo.emptyLabel]) (adjust cast : Bool) (r : Rec)
    (hte : r.te = 1) (s : Segment) (hs : SegValid r.samplerate s) :
    ∃ ann, importSegment io adjust r s = .ok ann ∧
      exportSegment eo cast r.samplerate ann = .ok (rtImage r.samplerate s) := by
  obtain ⟨a, b, ha, hb, h0, hab⟩ := hs
  obtain ⟨tags, htags, hlab⟩ := C10_roundtrip_label io eo hi he hm s.label
  have hseg : segTimes s.onsetS s.offsetS (s.onsetSample.map ratOfInt) (s.offsetSample.map ratOfInt)
      r.samplerate r.te adjust = some (a, b) := by
    unfold endTime at ha hb
    rw [hte]; simp [segTimes, ha, hb, adjTime]
  refine ⟨⟨some (.timeInterval a b), tags⟩, ?_, ?_⟩
  · rw [C10_import_segment_geometry]
    exact ⟨a, b, hseg, h0, hab, rfl, htags⟩
  · rw [C10_export_interval_identity eo cast r.samplerate _ a b s.label rfl hlab]
    simp [rtImage, ha, hb]

/-- **round trip, segments, general form** (`te = 1`): each end may be given in seconds or in
    samples; label, onset and offset are reproduced -/
theorem C10_roundtrip_segment_general (io : LabelOpts) (eo : TagsOpts) (hi : SingleTagImport io)
    (he : ValueOnlyExport eo) (hm : io.emptyLabels = [eo.emptyLabel]) (adjust cast : Bool) (r : Rec)
    (hte : r.te = 1) (s : Segment) (hs : SegValid r.samplerate s) :
    roundtripSegment io eo adjust cast r s = .ok (rtImage r.samplerate s) := by
  obtain ⟨ann, h1, h2⟩ := C10_roundtrip_segment_general_steps io eo hi he hm adjust cast r hte s hs
  simp [roundtripSegment, h1, h2, bind, Except.bind]

/-- the image satisfies the monitor: seconds that were given come back with
    `floor(seconds · samplerate)`, ends given in samples get their sample index back -/
theorem C10_roundtrip_monitor_segment (sr : Rat) (hsr : sr ≠ 0) (s : Segment) (hs : SegValid sr s) :
    rtSegmentOk sr s (rtImage sr s) = true := by
  obtain ⟨a, b, ha, hb, _, _⟩ := hs
  have key : ∀ (sec : Option Rat) (smp : Option Int) (t : Rat), endTime sr sec smp = some t →
      rtEndOk sr sec smp (endTime sr sec smp) ((endTime sr sec smp).map (timeToSample sr)) = true := by
    intro sec smp t h
    cases sec with
    | some x => simp [rtEndOk, endTime, fileTime]
    | none =>
      cases smp with
      | none => simp [endTime, fileTime] at h
      | some n =>
        have hd : ratOfInt n / (sr / 1) = ratOfInt n / sr := by grind
        simp [rtEndOk, endTime, fileTime, hd, timeToSample_div sr hsr n]
  simp only [rtSegmentOk, rtImage, decide_true, Bool.true_and, Bool.and_eq_true]
  exact ⟨key _ _ a ha, key _ _ b hb⟩

/-- … and for sequences: same length, same order, every segment -/
theorem C10_roundtrip_monitor_sequence (sr : Rat) (hsr : sr ≠ 0) (segs : List Segment) (hs : ∀ s ∈ segs, SegValid sr s) :
    rtSeqOk sr segs (segs.map (rtImage sr)) = true := by
  induction segs with
  | nil => rfl
  | cons s ss ih =>
    simp only [List.map_cons, rtSeqOk, Bool.and_eq_true]
    exact ⟨C10_roundtrip_monitor_segment sr hsr s (hs s (by simp)), ih (fun x hx => hs x (by simp [hx]))⟩

/-- **round trip, sequences and sequence annotations, general form** (`te = 1`, non-zero rate) -/
theorem C10_roundtrip_sequence_general (io : LabelOpts) (eo : TagsOpts) (hi : SingleTagImport io)
    (he : ValueOnlyExport eo) (hm : io.emptyLabels = [eo.emptyLabel]) (adjust cast ignore raiseTime : Bool) (r : Rec)
    (hte : r.te = 1) (segs : List Segment) (hs : ∀ s ∈ segs, SegValid r.samplerate s) :
    roundtripSequence io eo adjust cast ignore r segs = .ok (segs.map (rtImage r.samplerate)) ∧
    roundtripAnnotation io eo .seq adjust ignore cast raiseTime r ⟨some r.path, [], [segs]⟩ =
      .ok ⟨some r.path, [], [segs.map (rtImage r.samplerate)]⟩ := by
  obtain ⟨anns, h1, h2⟩ := mapM_collect_roundtrip (importSegment io adjust r)
    (exportSegment eo cast r.samplerate) (rtImage r.samplerate) ignore segs
    (fun s h => C10_roundtrip_segment_general_steps io eo hi he hm adjust cast r hte s (hs s h))
  have h1' : importSequence io adjust r segs = .ok anns := h1
  constructor
  · simp [roundtripSequence, exportSequence, h1', h2, bind, Except.bind]
  · simp [roundtripAnnotation, importAnnotation, importSeqs, exportAnnotation, exportSequence, h1', h2, bind,
      Except.bind, pure, Except.pure]

/-- the monitor evaluated by the harness on the implementation's own round trips is implied,
    for every segment / sequence / sequence annotation in the domain -/
theorem C10_roundtrip_holds_general (io : LabelOpts) (eo : TagsOpts) (hi : SingleTagImport io)
    (he : ValueOnlyExport eo) (hm : io.emptyLabels = [eo.emptyLabel]) (adjust cast ignore raiseTime : Bool) (r : Rec)
    (hte : r.te = 1) (hsr : r.samplerate ≠ 0) :
    (∀ s y, SegValid r.samplerate s → roundtripSegment io eo adjust cast r s = .ok y →
        rtSegmentOk r.samplerate s y = true) ∧
    (∀ segs ys, (∀ s ∈ segs, SegValid r.samplerate s) →
        roundtripSequence io eo adjust cast ignore r segs = .ok ys → rtSeqOk r.samplerate segs ys = true) ∧
    (∀ segs y, (∀ s ∈ segs, SegValid r.samplerate s) →
        roundtripAnnotation io eo .seq adjust ignore cast raiseTime r ⟨some r.path, [], [segs]⟩ = .ok y →
        rtAnnOk r.samplerate ⟨some r.path, [], [segs]⟩ y = true) := by
  refine ⟨?_, ?_, ?_⟩
  · intro s y hs hy
    rw [C10_roundtrip_segment_general io eo hi he hm adjust cast r hte s hs] at hy
    cases hy; exact C10_roundtrip_monitor_segment _ hsr s hs
  · intro segs ys hs hy
    rw [(C10_roundtrip_sequence_general io eo hi he hm adjust cast ignore raiseTime r hte segs hs).1] at hy
    cases hy; exact C10_roundtrip_monitor_sequence _ hsr segs hs
  · intro segs y hs hy
    rw [(C10_roundtrip_sequence_general io eo hi he hm adjust cast ignore raiseTime r hte segs hs).2] at hy
    cases hy
    simp [rtAnnOk, rtSeqsOk, C10_roundtrip_monitor_sequence _ hsr segs hs]

example : SegValid 8 ⟨"a", some (1/2), none, none, some 10⟩ :=
  ⟨1/2, 5/4, by decide +kernel, by decide +kernel, by decide +kernel, by decide +kernel⟩
example : roundtripSegment {} { kw := { valueOnly := some true } } true true ⟨8, 1, "rec.wav"⟩
    ⟨"a", some (1/2), none, none, some 10⟩ = .ok ⟨"a", some (1/2), some (5/4), some 4, some 10⟩ := by decide +kernel

/-- a crowsetta box the round trip reproduces: crowsetta's own invariants, the upper frequency
    within `MAX_FREQUENCY` and the Nyquist frequency -/
structure BoxInDomain (r : Rec) (b : BBox) : Prop where
  onset_nonneg : 0 ≤ b.onset
  onset_lt : b.onset < b.offset
  low_nonneg : 0 ≤ b.lowFreq
  low_lt : b.lowFreq < b.highFreq
  high_le_max : b.highFreq ≤ MAXF
  high_le_nyquist : b.highFreq ≤ r.samplerate / 2

/-- the two steps of the box round trip: the import succeeds and the export of the imported
    annotation is the box itself (no element can be dropped by `ignore_errors`) -/
theorem C10_roundtrip_bbox_steps (io : LabelOpts) (eo : TagsOpts) (hi : SingleTagImport io) (he : ValueOnlyExport eo)
    (hm : io.emptyLabels = [eo.emptyLabel]) (adjust cast raiseTime : Bool) (r : Rec)
    (hte : r.te = 1 ∨ adjust = false) (b : BBox) (hb : BoxInDomain r b) :
    ∃ ann, importBBox io adjust r b = .ok ann ∧ exportBBox eo cast raiseTime r.samplerate ann = .ok b := by
  obtain ⟨tags, htags, hlab⟩ := C10_roundtrip_label io eo hi he hm b.label
  obtain ⟨h0, h1, h2, h3, h4, h5⟩ := hb
  have hc : boxCoords b.onset b.offset b.lowFreq b.highFreq r.te adjust =
      (b.onset, b.lowFreq, b.offset, b.highFreq) := by
    rcases hte with h | h
    · rw [h]; simp [boxCoords, adjTime, adjFreq]
    · subst h; simp [boxCoords, adjTime, adjFreq]
  have hmk : mkBox b.onset b.lowFreq b.offset b.highFreq =
      .ok (.boundingBox b.onset b.lowFreq b.offset b.highFreq) := by
    unfold mkBox
    have c1 : ¬ (b.onset < 0 ∨ b.lowFreq < 0 ∨ b.lowFreq > MAXF ∨ b.offset < 0 ∨ b.highFreq < 0 ∨ b.highFreq > MAXF) := by
      grind
    have c2 : ¬ b.onset > b.offset := by grind
    have c3 : ¬ b.lowFreq > b.highFreq := by grind
    simp only [c1, c2, c3, if_false]
  refine ⟨⟨some (.boundingBox b.onset b.lowFreq b.offset b.highFreq), tags⟩, ?_, ?_⟩
  · simp only [importBBox, hc, hmk, htags, bind, Except.bind, pure, Except.pure]
  · have hbd := bounds_boundingBox b.onset b.lowFreq b.offset b.highFreq (by grind) (by grind)
    have hmin : min b.highFreq (r.samplerate / 2) = b.highFreq := by grind
    have hv : ¬ (b.onset < 0 ∨ ¬ b.onset < b.offset ∨ b.offset < 0 ∨ b.lowFreq < 0 ∨ ¬ b.lowFreq < b.highFreq ∨
        b.highFreq < 0) := by grind
    simp only [exportBBox, geomToBounds, isBoxGeom, isTimeGeom, hbd, hlab, mkBBox, bind, Except.bind]
    simp only [Bool.not_true, Bool.false_eq_true, false_and, if_false, hmin, hv]

/-- **round trip, boxes** (`te = 1` or no adjustment, value-only labels, `high ≤ Nyquist`):
    export after import is the identity, for every setting of the cast / raise switches -/
theorem C10_roundtrip_bbox (io : LabelOpts) (eo : TagsOpts) (hi : SingleTagImport io) (he : ValueOnlyExport eo)
    (hm : io.emptyLabels = [eo.emptyLabel]) (adjust cast raiseTime : Bool) (r : Rec)
    (hte : r.te = 1 ∨ adjust = false) (b : BBox) (hb : BoxInDomain r b) :
    roundtripBBox io eo adjust cast raiseTime r b = .ok b := by
  obtain ⟨ann, h1, h2⟩ := C10_roundtrip_bbox_steps io eo hi he hm adjust cast raiseTime r hte b hb
  simp [roundtripBBox, h1, h2, bind, Except.bind]

/-- **round trip, sequences**: one segment per segment, in order, each reproduced; nothing is
    dropped under either error policy -/
theorem C10_roundtrip_sequence (io : LabelOpts) (eo : TagsOpts) (hi : SingleTagImport io) (he : ValueOnlyExport eo)
    (hm : io.emptyLabels = [eo.emptyLabel]) (adjust cast ignore : Bool) (r : Rec)
    (hte : r.te = 1 ∨ adjust = false) (segs : List Segment) (hs : ∀ s ∈ segs, SecondsValid s) :
    roundtripSequence io eo adjust cast ignore r segs = .ok (segs.map (canonSegment r.samplerate)) := by
  obtain ⟨anns, h1, h2⟩ := mapM_collect_roundtrip (importSegment io adjust r)
    (exportSegment eo cast r.samplerate) (canonSegment r.samplerate) ignore segs
    (fun s h => C10_roundtrip_segment_steps io eo hi he hm adjust cast r hte s (hs s h))
  simp [roundtripSequence, importSequence, exportSequence, h1, h2, bind, Except.bind]

/-- **round trip, annotations with boxes**: the annotation comes back unchanged -/
theorem C10_roundtrip_annotation_bbox (io : LabelOpts) (eo : TagsOpts) (hi : SingleTagImport io)
    (he : ValueOnlyExport eo) (hm : io.emptyLabels = [eo.emptyLabel]) (adjust ignore cast raiseTime : Bool)
    (r : Rec) (hte : r.te = 1 ∨ adjust = false) (boxes : List BBox) (hb : ∀ b ∈ boxes, BoxInDomain r b) :
    roundtripAnnotation io eo .bbox adjust ignore cast raiseTime r ⟨some r.path, boxes, []⟩ =
      .ok ⟨some r.path, boxes, []⟩ := by
  obtain ⟨anns, h1, h2⟩ := mapM_collect_roundtrip (importBBox io adjust r)
    (exportBBox eo cast raiseTime r.samplerate) id ignore boxes
    (fun b h => C10_roundtrip_bbox_steps io eo hi he hm adjust cast raiseTime r hte b (hb b h))
  simp [roundtripAnnotation, importAnnotation, importSeqs, exportAnnotation, h1, h2, bind, Except.bind,
    pure, Except.pure]

/-- **round trip, annotations with a sequence** -/
theorem C10_roundtrip_annotation_seq (io : LabelOpts) (eo : TagsOpts) (hi : SingleTagImport io)
    (he : ValueOnlyExport eo) (hm : io.emptyLabels = [eo.emptyLabel]) (adjust ignore cast raiseTime : Bool)
    (r : Rec) (hte : r.te = 1 ∨ adjust = false) (segs : List Segment) (hs : ∀ s ∈ segs, SecondsValid s) :
    roundtripAnnotation io eo .seq adjust ignore cast raiseTime r ⟨some r.path, [], [segs]⟩ =
      .ok ⟨some r.path, [], [segs.map (canonSegment r.samplerate)]⟩ := by
  obtain ⟨anns, h1, h2⟩ := mapM_collect_roundtrip (importSegment io adjust r)
    (exportSegment eo cast r.samplerate) (canonSegment r.samplerate) ignore segs
    (fun s h => C10_roundtrip_segment_steps io eo hi he hm adjust cast r hte s (hs s h))
  have h1' : importSequence io adjust r segs = .ok anns := h1
  simp [roundtripAnnotation, importAnnotation, importSeqs, exportAnnotation, exportSequence, h1', h2, bind,
    Except.bind, pure, Except.pure]

/-- the monitor the harness evaluates on the implementation's own output is implied by the round
    trip: both kinds of segments satisfy `rtSegmentOk` -/
theorem C10_roundtrip_holds_segment (io : LabelOpts) (eo : TagsOpts) (hi : SingleTagImport io)
    (he : ValueOnlyExport eo) (hm : io.emptyLabels = [eo.emptyLabel]) (adjust cast : Bool) (r : Rec) :
    (∀ s y, (r.te = 1 ∨ adjust = false) → SecondsValid s → roundtripSegment io eo adjust cast r s = .ok y →
        rtSegmentOk r.samplerate s y = true) ∧
    (∀ label n m y, r.te = 1 → 0 < r.samplerate → 0 ≤ n → n ≤ m →
        roundtripSegment io eo adjust cast r ⟨label, none, none, some n, some m⟩ = .ok y →
        rtSegmentOk r.samplerate ⟨label, none, none, some n, some m⟩ y = true) := by
  constructor
  · intro s y hte hs hy
    rw [C10_roundtrip_segment io eo hi he hm adjust cast r hte s hs] at hy
    cases hy
    obtain ⟨a, b, hsa, hsb, _, _⟩ := hs
    simp [rtSegmentOk, rtEndOk, canonSegment, hsa, hsb]
  · intro label n m y hte hsr h0 hnm hy
    rw [C10_roundtrip_segment_samples io eo hi he hm adjust cast r hte hsr label n m h0 hnm] at hy
    cases hy
    simp [rtSegmentOk, rtEndOk, ratOfInt]

/-- the sequence monitor on the canonical image of segments given in seconds -/
theorem C10_roundtrip_monitor_sequence_seconds (sr : Rat) (segs : List Segment) (hs : ∀ s ∈ segs, SecondsValid s) :
    rtSeqOk sr segs (segs.map (canonSegment sr)) = true := by
  induction segs with
  | nil => rfl
  | cons s ss ih =>
    obtain ⟨a, b, hsa, hsb, _, _⟩ := hs s (by simp)
    simp only [List.map_cons, rtSeqOk, Bool.and_eq_true]
    exact ⟨by simp [rtSegmentOk, rtEndOk, canonSegment, hsa, hsb], ih (fun x hx => hs x (by simp [hx]))⟩

/-- … and so do sequences (lengths, order, every segment) and annotations -/
theorem C10_roundtrip_holds_sequence (io : LabelOpts) (eo : TagsOpts) (hi : SingleTagImport io)
    (he : ValueOnlyExport eo) (hm : io.emptyLabels = [eo.emptyLabel]) (adjust cast ignore raiseTime : Bool) (r : Rec)
    (hte : r.te = 1 ∨ adjust = false) (segs : List Segment) (hs : ∀ s ∈ segs, SecondsValid s) :
    (∀ ys, roundtripSequence io eo adjust cast ignore r segs = .ok ys → rtSeqOk r.samplerate segs ys = true) ∧
    (∀ y, roundtripAnnotation io eo .seq adjust ignore cast raiseTime r ⟨some r.path, [], [segs]⟩ = .ok y →
        rtAnnOk r.samplerate ⟨some r.path, [], [segs]⟩ y = true) ∧
    (∀ boxes y, (∀ b ∈ boxes, BoxInDomain r b) →
        roundtripAnnotation io eo .bbox adjust ignore cast raiseTime r ⟨some r.path, boxes, []⟩ = .ok y →
        rtAnnOk r.samplerate ⟨some r.path, boxes, []⟩ y = true) := by
  refine ⟨?_, ?_, ?_⟩
  · intro ys hy
    rw [C10_roundtrip_sequence io eo hi he hm adjust cast ignore r hte segs hs] at hy
    cases hy; exact C10_roundtrip_monitor_sequence_seconds _ segs hs
  · intro y hy
    rw [C10_roundtrip_annotation_seq io eo hi he hm adjust ignore cast raiseTime r hte segs hs] at hy
    cases hy
    simp [rtAnnOk, rtSeqsOk, C10_roundtrip_monitor_sequence_seconds _ segs hs]
  · intro boxes y hb hy
    rw [C10_roundtrip_annotation_bbox io eo hi he hm adjust ignore cast raiseTime r hte boxes hb] at hy
    cases hy
    simp [rtAnnOk, rtSeqsOk]

-- non-vacuity: the hypotheses are satisfiable and the round trip is not the identity outside them
example : roundtripSegment {} { kw := { valueOnly := some true } } true true ⟨8, 1, "rec.wav"⟩
    ⟨"a", some (1/2), some (5/4), none, none⟩ = .ok ⟨"a", some (1/2), some (5/4), some 4, some 10⟩ := by decide +kernel
example : roundtripSegment {} { kw := { valueOnly := some true } } true true ⟨8, 1, "rec.wav"⟩
    ⟨"__empty__", none, none, some 4, some 10⟩ = .ok ⟨"__empty__", some (1/2), some (5/4), some 4, some 10⟩ := by
  decide +kernel
example : roundtripSegment {} { kw := { valueOnly := some true } } true true ⟨8, 2, "rec.wav"⟩
    ⟨"a", some (1/2), some (5/4), none, none⟩ = .ok ⟨"a", some (1/4), some (5/8), some 2, some 5⟩ := by decide +kernel
example : roundtripSegment {} {} true true ⟨8, 1, "rec.wav"⟩
    ⟨"a", some (1/2), some (5/4), none, none⟩ = .ok ⟨"crowsetta:a", some (1/2), some (5/4), some 4, some 10⟩ := by
  decide +kernel
example : roundtripBBox {} { kw := { valueOnly := some true } } true true true ⟨8, 1, "rec.wav"⟩ ⟨1, 2, 1, 3, "a"⟩ =
    .ok ⟨1, 2, 1, 3, "a"⟩ := by decide +kernel
example : roundtripBBox {} { kw := { valueOnly := some true } } true true true ⟨8, 1, "rec.wav"⟩ ⟨1, 2, 1, 5, "a"⟩ =
    .ok ⟨1, 2, 1, 4, "a"⟩ := by decide +kernel
example : BoxInDomain ⟨8, 1, "rec.wav"⟩ ⟨1, 2, 1, 3, "a"⟩ := by constructor <;> decide +kernel
example : SecondsValid ⟨"a", some (1/2), some (5/4), none, none⟩ := ⟨1/2, 5/4, rfl, rfl, by decide +kernel, by decide +kernel⟩

/-! ## the defects of the pinned commit, as theorems about `Pinned.*`

  `Pinned.labelToTags` / `Pinned.labelFromTags` are the cascades as they stand at the pinned commit.
  They differ from the documented cascade (the model above, which the repaired code follows)
  exactly on the three input classes of `fixes/C10-{1,2,3}-*.patch`. -/

/-- `label_to_tags` at the pinned commit deviates from the documented cascade iff no earlier rung
    applies and either (defect 3) an explicit `term` hides a `tag_mapping` hit, or (defect 1) a
    `key_mapping` *miss* discards the explicit `key` -/
theorem C10_pinned_to_tags_differs_iff (o : LabelOpts) (label : String) :
    Pinned.labelToTags o label ≠ labelToTags o label ↔
      label ∉ o.emptyLabels ∧ fnRung o label = none ∧ hit o.termMapping label = none ∧
        ((∃ t r, o.term = some t ∧ hit o.tagMapping label = some r ∧ r.toList ≠ [⟨t, label⟩]) ∨
         (o.term = none ∧ hit o.tagMapping label = none ∧ o.keyMapping.isSome = true ∧
            hit o.keyMapping label = none ∧ ∃ k, o.key = some k ∧ k ≠ o.fallback)) := by
  unfold Pinned.labelToTags labelToTags
  by_cases he : label ∈ o.emptyLabels
  · simp [he]
  · cases hfn : fnRung o label with
    | some r => simp [he]
    | none =>
      cases ht : hit o.termMapping label with
      | some t => simp [he]
      | none =>
        cases hterm : o.term with
        | some t =>
          cases hm : hit o.tagMapping label with
          | none => simp [he]
          | some r =>
            simp only [he, if_false, Option.isNone_some, Bool.false_eq_true, false_and, Option.getD_some,
              not_false_eq_true, true_and, ne_eq, Except.ok.injEq]
            constructor
            · intro h; exact Or.inl ⟨t, r, rfl, rfl, fun h' => h h'.symm⟩
            · rintro (⟨t', r', ht', hr', hne⟩ | ⟨h', _⟩)
              · cases ht'; cases hr'; exact fun h' => hne h'.symm
              · cases h'
        | none =>
          cases hm : hit o.tagMapping label with
          | some r => simp [he]
          | none =>
            cases hkm : o.keyMapping with
            | none => simp [he, chooseKey, hit, hkm]
            | some m =>
              cases hk : hit o.keyMapping label with
              | some k =>
                have : hit (some m) label = some k := by rw [← hkm]; exact hk
                simp [he, chooseKey, hkm, this]
              | none =>
                have hk' : hit (some m) label = none := by rw [← hkm]; exact hk
                cases hkey : o.key with
                | none => simp [he, chooseKey, hkm, hk', hkey]
                | some k =>
                  simp [he, chooseKey, hkm, hk', hkey, termFromKey_inj]
                  exact ⟨fun h h' => h h'.symm, fun h h' => h h'.symm⟩

/-- defect 2: `label_from_tags` at the pinned commit deviates iff a tag is selected by key while
    `value_only` is among the keyword arguments (duplicate keyword: `TypeError`) -/
theorem C10_pinned_from_tags_differs_iff (o : TagsOpts) (tags : List Tag) :
    Pinned.labelFromTags o tags ≠ labelFromTags o tags ↔
      o.seqLabelFn = none ∧ tags ≠ [] ∧ o.kw.valueOnly.isSome = true ∧
        ∃ k t, o.selectByKey = some k ∧ tags.find? (fun t => keyFromTerm t.term == k) = some t ∧
          labelFromTag { o.kw with valueOnly := some true } tagSep t ≠ .error .type := by
  unfold Pinned.labelFromTags labelFromTags
  cases hf : o.seqLabelFn with
  | some f => simp
  | none =>
    by_cases hne : tags = []
    · subst hne; simp
    · have hemp : tags.isEmpty = false := by cases tags <;> simp_all
      cases hk : o.selectByKey with
      | none => simp
      | some k =>
        cases ht : tags.find? (fun t => keyFromTerm t.term == k) with
        | none => simp [hemp, ht]
        | some t =>
          by_cases hv : o.kw.valueOnly.isSome = true
          · simp only [hemp, Bool.false_eq_true, if_false, ht, hv, if_true, ne_eq, hne, not_false_eq_true, true_and,
              Option.some.injEq, exists_and_left, exists_eq_left']
            exact ⟨fun h h' => h h'.symm, fun h h' => h h'.symm⟩
          · simp [hemp, ht, hv]

-- the three Recon inputs: the pinned cascades deviate from the documented one
example : Pinned.labelToTags { keyMapping := some [("other", "x")], key := some "explicit" } "lab" =
    .ok [⟨termFromKey "crowsetta", "lab"⟩] := by decide
example : Pinned.labelFromTags { selectByKey := some "k", kw := { valueOnly := some true } } [⟨termFromKey "k", "v"⟩] =
    .error .type := by decide
example : Pinned.labelToTags { term := some ⟨"L", "n:L", "d"⟩, tagMapping := some [("lab", .single ⟨termFromKey "k", "v"⟩)] } "lab" =
    .ok [⟨⟨"L", "n:L", "d"⟩, "lab"⟩] := by decide

/-! ## review additions: the decisions of the exporters by type tag, "spans" as min / max,
    the recording loaded from the notated path, the round trip through `select_by_key` -/

/-- `convert_geometry_to_interval` is `spanOf` of the geometry's type tag (the table the symbolic
    ties re-establish for the nine types × `cast_to_segment`), followed by pydantic's validation of
    the cast interval -/
theorem C10_export_span_of (g : Geom) (cast : Bool) :
    (∀ s e, g = .timeInterval s e → ∀ b, geomToInterval g cast = .ok (s, e) ∧ spanOf g.tag cast s e b = some (s, e)) ∧
    ((∀ s e, g ≠ .timeInterval s e) → ∀ b, g.bounds = some b → ∀ s e,
      (spanOf g.tag cast s e b = none → geomToInterval g cast = .error .invalid) ∧
      (∀ p, spanOf g.tag cast s e b = some p → p = (b.st, b.en) ∧
        geomToInterval g cast = (mkInterval b.st b.en).map (fun _ => p))) := by
  constructor
  · rintro s e rfl b
    simp [geomToInterval, spanOf, Geom.tag]
  · intro hnt b hb s e
    cases g with
    | timeInterval s0 e0 => exact absurd rfl (hnt s0 e0)
    | _ =>
      cases cast <;> simp [geomToInterval, spanOf, Geom.tag, hb] <;>
        (cases mkInterval b.st b.en <;> simp [Except.map])

/-- the fields of an exported segment are `segFields` of the chosen time span: the seconds are the
    span itself and the sample indices are Python's `int()` of `time · samplerate` -/
theorem C10_export_segment_fields (o : TagsOpts) (cast : Bool) (sr : Rat) (a : Ann) (seg : Segment) :
    exportSegment o cast sr a = .ok seg ↔
      ∃ g s e l, a.geom = some g ∧ geomToInterval g cast = .ok (s, e) ∧ labelFromTags o a.tags = .ok l ∧
        seg = ⟨l, some (segFields sr s e).1, some (segFields sr s e).2.1,
               some (pyInt (segFields sr s e).2.2.1), some (pyInt (segFields sr s e).2.2.2)⟩ := by
  unfold exportSegment
  cases hg : a.geom with
  | none => simp
  | some g =>
    simp only [Option.some.injEq, exists_and_left, exists_eq_left']
    cases hgi : geomToInterval g cast with
    | error e => simp [bind, Except.bind]
    | ok p =>
      obtain ⟨s, e⟩ := p
      cases hl : labelFromTags o a.tags with
      | error e => simp [bind, Except.bind]
      | ok l =>
        simp only [bind, Except.bind, pure, Except.pure, Except.ok.injEq, segFields, timeToSample,
          Prod.mk.injEq]
        constructor
        · rintro rfl; exact ⟨s, e, ⟨rfl, rfl⟩, l, rfl, rfl⟩
        · rintro ⟨s', e', ⟨rfl, rfl⟩, l', rfl, rfl⟩; rfl

/-- `convert_geometry_to_bbox` refuses exactly when `boxRefused` of the type tag says so (the table
    the symbolic ties re-establish for the nine types × `cast_to_bbox` × `raise_on_time_geometries`);
    otherwise the export is the label cascade followed by `boxOf` -/
theorem C10_export_bbox_decision (o : TagsOpts) (cast raiseTime : Bool) (sr : Rat) (a : Ann) (g : Geom) (b : Bounds)
    (hg : a.geom = some g) (hb : g.bounds = some b) :
    exportBBox o cast raiseTime sr a =
      if boxRefused g.tag cast raiseTime = true then .error .invalid
      else (labelFromTags o a.tags).bind (boxOf g.tag cast raiseTime b sr) := by
  unfold exportBBox
  simp only [hg]
  cases g <;> cases cast <;> cases raiseTime <;>
    simp [geomToBounds, boxRefused, boxOf, isBoxGeom, isTimeGeom, Geom.tag, hb, bind, Except.bind]

/-- `boxRefused` spelled out: refused iff (not a box and casting is off) or (a time geometry and
    `raise_on_time_geometries`) -/
theorem C10_export_bbox_refused_iff (g : Geom) (cast raiseTime : Bool) :
    boxRefused g.tag cast raiseTime = true ↔
      (isBoxGeom g = false ∧ cast = false) ∨ (isTimeGeom g = true ∧ raiseTime = true) := by
  cases g <;> cases cast <;> cases raiseTime <;> simp [boxRefused, isBoxGeom, isTimeGeom, Geom.tag]

/-- "spans the geometry's time bounds", as minimum and maximum: every point of the geometry lies
    between the exported onset and offset, and both are attained by points of the geometry -/
theorem C10_export_spans_segment (o : TagsOpts) (cast : Bool) (sr : Rat) (a : Ann) (s : Segment) (g : Geom)
    (hg : a.geom = some g) (hord : IntervalOrdered g) (h : exportSegment o cast sr a = .ok s) :
    ∃ on off, s.onsetS = some on ∧ s.offsetS = some off ∧
      (∀ p ∈ g.boundPts, on ≤ p.1 ∧ p.1 ≤ off) ∧ (∃ p ∈ g.boundPts, p.1 = on) ∧ (∃ p ∈ g.boundPts, p.1 = off) := by
  cases hb : g.bounds with
  | none =>
    -- a geometry without points exports nothing
    exfalso
    have hpts : g.boundPts = [] := (SE.Proofs.Lemmas.Bounds.ptsBounds_eq_none _).mp hb
    cases g with
    | timeInterval s0 e0 => simp [Geom.boundPts] at hpts
    | _ =>
      simp only [exportSegment, hg, geomToInterval, hb] at h
      cases cast <;> simp [bind, Except.bind] at h
  | some b =>
    obtain ⟨h1, h2, _⟩ := C10_export_bounds_segment o cast sr a s g b hg hb hord h
    have hB := SE.Proofs.Lemmas.Bounds.ptsBounds_isBoundsOf g.boundPts b hb
    exact ⟨b.st, b.en, h1, h2, fun p hp => ⟨(hB.contains p hp).1, (hB.contains p hp).2.1⟩, hB.st_attained, hB.en_attained⟩

/-- "spans the geometry's time and frequency bounds": onset, offset and low frequency are the
    minima / maximum over the geometry's points, the high frequency is the maximum capped at the
    Nyquist frequency -/
theorem C10_export_spans_bbox (o : TagsOpts) (cast raiseTime : Bool) (sr : Rat) (a : Ann) (bb : BBox)
    (h : exportBBox o cast raiseTime sr a = .ok bb) :
    ∃ g, a.geom = some g ∧
      (∀ p ∈ g.boundPts, bb.onset ≤ p.1 ∧ p.1 ≤ bb.offset ∧ bb.lowFreq ≤ p.2 ∧ min p.2 (sr / 2) ≤ bb.highFreq) ∧
      (∃ p ∈ g.boundPts, p.1 = bb.onset) ∧ (∃ p ∈ g.boundPts, p.1 = bb.offset) ∧
      (∃ p ∈ g.boundPts, p.2 = bb.lowFreq) ∧ (∃ p ∈ g.boundPts, min p.2 (sr / 2) = bb.highFreq) := by
  obtain ⟨g, b, hg, hb, h1, h2, h3, h4, _⟩ := C10_export_bounds_bbox o cast raiseTime sr a bb h
  have hB := SE.Proofs.Lemmas.Bounds.ptsBounds_isBoundsOf g.boundPts b hb
  refine ⟨g, hg, ?_, ?_, ?_, ?_, ?_⟩
  · intro p hp
    have := hB.contains p hp
    rw [h1, h2, h3, h4]
    refine ⟨this.1, this.2.1, this.2.2.1, ?_⟩
    have := this.2.2.2
    grind
  · rw [h1]; exact hB.st_attained
  · rw [h2]; exact hB.en_attained
  · rw [h3]; exact hB.lo_attained
  · obtain ⟨p, hp, e⟩ := hB.hi_attained
    exact ⟨p, hp, by rw [h4, e]⟩

/-- no recording given and no notated path: `ValueError` -/
theorem C10_import_annotation_load_nopath (o : LabelOpts) (adjust : Bool) (load : String → Rec) (ca : CrowAnn)
    (hp : ca.notatedPath = none) : importAnnotationLoad o adjust load ca = .error .invalid := by
  simp [importAnnotationLoad, hp]

/-- no recording given: the annotation is imported against the recording loaded from its notated
    path; with the loader's contract (`Recording.from_file(p).path = p`) the path check cannot fail, so
    the result is the one of `importAnnotation` for an annotation without notated path -/
theorem C10_import_annotation_load (o : LabelOpts) (adjust : Bool) (load : String → Rec) (ca : CrowAnn) (p : String)
    (hp : ca.notatedPath = some p) (hload : (load p).path = p) :
    importAnnotationLoad o adjust load ca = importAnnotation o adjust (load p) ca ∧
    importAnnotation o adjust (load p) ca = importAnnotation o adjust (load p) { ca with notatedPath := none } := by
  simp [importAnnotationLoad, importAnnotation, hp, hload]

/-- value-only labels through `select_by_key`: importing with a fixed term or key (no mappings) and
    exporting with `select_by_key` equal to that key reproduces the label, whatever `value_only`
    says (the selected tag is always rendered value-only) -/
theorem C10_roundtrip_label_select (io : LabelOpts) (eo : TagsOpts) (hi : SingleTagImport io)
    (htm : io.termMapping = none) (hkm : io.keyMapping = none)
    (hsf : eo.seqLabelFn = none) (hfn : eo.kw.labelFn = none) (hmp : eo.kw.labelMapping = none)
    (hsel : eo.selectByKey = some (match io.term with | some t => t.label | none => io.key.getD io.fallback))
    (hm : io.emptyLabels = [eo.emptyLabel]) (label : String) :
    ∃ tags, labelToTags io label = .ok tags ∧ labelFromTags eo tags = .ok label := by
  obtain ⟨hnf, hntm⟩ := hi
  by_cases hl : label = eo.emptyLabel
  · subst hl
    exact ⟨[], by simp [labelToTags, hm], by simp [labelFromTags, hsf]⟩
  · cases ht : io.term with
    | some t =>
      rw [ht] at hsel
      refine ⟨[⟨t, label⟩], ?_, ?_⟩
      · simp [labelToTags, hm, hl, fnRung, hnf, hit, htm, hntm, ht]
      · simp [labelFromTags, hsf, hsel, keyFromTerm, labelFromTag, hfn, hmp]
    | none =>
      rw [ht] at hsel
      refine ⟨[⟨termFromKey (io.key.getD io.fallback), label⟩], ?_, ?_⟩
      · simp [labelToTags, hm, hl, fnRung, hnf, hit, htm, hntm, ht, chooseKey, hkm]
      · simp [labelFromTags, hsf, hsel, keyFromTerm, termFromKey, labelFromTag, hfn, hmp]

-- non-vacuity
example : spanOf "Polygon" true 0 0 ⟨1, 2, 3, 4⟩ = some (1, 3) ∧ spanOf "Polygon" false 0 0 ⟨1, 2, 3, 4⟩ = none ∧
    spanOf "TimeInterval" false 5 6 ⟨1, 2, 3, 4⟩ = some (5, 6) := by decide +kernel
example : boxRefused "TimeStamp" true true = true ∧ boxRefused "TimeStamp" true false = false ∧
    boxRefused "Polygon" false false = true ∧ boxRefused "BoundingBox" false true = false := by decide
example : boxOf "LineString" true true ⟨1, 1, 3, 9⟩ 10 "x" = .ok ⟨1, 3, 1, 5, "x"⟩ := by decide +kernel
example : exportSegment {} true 10 ⟨some (.lineString [(2, 5), (1/2, 7), (3/2, 1)]), []⟩ =
    .ok ⟨"__empty__", some (1/2), some 2, some 5, some 20⟩ := by decide +kernel
example : importAnnotationLoad {} true (fun p => ⟨8, 2, p⟩) ⟨some "x.wav", [⟨2, 4, 3, 4, "b"⟩], []⟩ =
    .ok ⟨[⟨some (.boundingBox 1 6 2 8), [⟨termFromKey "crowsetta", "b"⟩]⟩], []⟩ := by decide +kernel
example : importAnnotationLoad {} true (fun p => ⟨8, 2, p⟩) ⟨none, [⟨2, 4, 3, 4, "b"⟩], []⟩ = .error .invalid := by
  decide +kernel
example : ∃ tags, labelToTags { key := some "species" } "Myotis" = .ok tags ∧
    labelFromTags { selectByKey := some "species", kw := { valueOnly := some false } } tags = .ok "Myotis" :=
  ⟨[⟨termFromKey "species", "Myotis"⟩], by decide, by decide⟩

/-- the label part of the round trip, as a property of a pair of option records -/
def LabelRoundTrip (io : LabelOpts) (eo : TagsOpts) : Prop :=
  ∀ label, ∃ tags, labelToTags io label = .ok tags ∧ labelFromTags eo tags = .ok label

/-- both documented ways to value-only labels give it: `value_only=True` (`C10_roundtrip_label`) and
    `select_by_key` of the importer's key (`C10_roundtrip_label_select`) -/
theorem C10_label_roundtrip_cases (io : LabelOpts) (eo : TagsOpts) (hi : SingleTagImport io)
    (hm : io.emptyLabels = [eo.emptyLabel])
    (h : ValueOnlyExport eo ∨
      (io.termMapping = none ∧ io.keyMapping = none ∧ eo.seqLabelFn = none ∧ eo.kw.labelFn = none ∧
        eo.kw.labelMapping = none ∧
        eo.selectByKey = some (match io.term with | some t => t.label | none => io.key.getD io.fallback))) :
    LabelRoundTrip io eo := by
  intro label
  rcases h with he | ⟨h1, h2, h3, h4, h5, h6⟩
  · exact C10_roundtrip_label io eo hi he hm label
  · exact C10_roundtrip_label_select io eo hi h1 h2 h3 h4 h5 h6 hm label

/-- **round trip from the label round trip alone** (`te = 1`): whatever options make labels survive,
    segments (each end in seconds or samples), sequences, sequence annotations, boxes and box
    annotations are reproduced — times, frequencies, labels, order, nothing dropped -/
theorem C10_roundtrip_of_label_roundtrip (io : LabelOpts) (eo : TagsOpts) (hl : LabelRoundTrip io eo)
    (adjust cast ignore raiseTime : Bool) (r : Rec) (hte : r.te = 1) :
    (∀ s, SegValid r.samplerate s → roundtripSegment io eo adjust cast r s = .ok (rtImage r.samplerate s)) ∧
    (∀ segs, (∀ s ∈ segs, SegValid r.samplerate s) →
      roundtripSequence io eo adjust cast ignore r segs = .ok (segs.map (rtImage r.samplerate)) ∧
      roundtripAnnotation io eo .seq adjust ignore cast raiseTime r ⟨some r.path, [], [segs]⟩ =
        .ok ⟨some r.path, [], [segs.map (rtImage r.samplerate)]⟩) ∧
    (∀ b, BoxInDomain r b → roundtripBBox io eo adjust cast raiseTime r b = .ok b) ∧
    (∀ boxes, (∀ b ∈ boxes, BoxInDomain r b) →
      roundtripAnnotation io eo .bbox adjust ignore cast raiseTime r ⟨some r.path, boxes, []⟩ =
        .ok ⟨some r.path, boxes, []⟩) := by
  have segSteps : ∀ s, SegValid r.samplerate s → ∃ ann, importSegment io adjust r s = .ok ann ∧
      exportSegment eo cast r.samplerate ann = .ok (rtImage r.samplerate s) := by
    intro s hs
    obtain ⟨a, b, ha, hb, h0, hab⟩ := hs
    obtain ⟨tags, htags, hlab⟩ := hl s.label
    have hseg : segTimes s.onsetS s.offsetS (s.onsetSample.map ratOfInt) (s.offsetSample.map ratOfInt)
        r.samplerate r.te adjust = some (a, b) := by
      unfold endTime at ha hb
      rw [hte]; simp [segTimes, ha, hb, adjTime]
    refine ⟨⟨some (.timeInterval a b), tags⟩, ?_, ?_⟩
    · rw [C10_import_segment_geometry]
      exact ⟨a, b, hseg, h0, hab, rfl, htags⟩
    · rw [C10_export_interval_identity eo cast r.samplerate _ a b s.label rfl hlab]
      simp [rtImage, ha, hb]
  have boxSteps : ∀ b, BoxInDomain r b → ∃ ann, importBBox io adjust r b = .ok ann ∧
      exportBBox eo cast raiseTime r.samplerate ann = .ok b := by
    intro b hb
    obtain ⟨tags, htags, hlab⟩ := hl b.label
    obtain ⟨h0, h1, h2, h3, h4, h5⟩ := hb
    have hc : boxCoords b.onset b.offset b.lowFreq b.highFreq r.te adjust =
        (b.onset, b.lowFreq, b.offset, b.highFreq) := by
      rw [hte]; simp [boxCoords, adjTime, adjFreq]
    have hmk : mkBox b.onset b.lowFreq b.offset b.highFreq =
        .ok (.boundingBox b.onset b.lowFreq b.offset b.highFreq) := by
      unfold mkBox
      have c1 : ¬ (b.onset < 0 ∨ b.lowFreq < 0 ∨ b.lowFreq > MAXF ∨ b.offset < 0 ∨ b.highFreq < 0 ∨ b.highFreq > MAXF) := by
        grind
      have c2 : ¬ b.onset > b.offset := by grind
      have c3 : ¬ b.lowFreq > b.highFreq := by grind
      simp only [c1, c2, c3, if_false]
    refine ⟨⟨some (.boundingBox b.onset b.lowFreq b.offset b.highFreq), tags⟩, ?_, ?_⟩
    · simp only [importBBox, hc, hmk, htags, bind, Except.bind, pure, Except.pure]
    · have hbd := bounds_boundingBox b.onset b.lowFreq b.offset b.highFreq (by grind) (by grind)
      have hmin : min b.highFreq (r.samplerate / 2) = b.highFreq := by grind
      have hv : ¬ (b.onset < 0 ∨ ¬ b.onset < b.offset ∨ b.offset < 0 ∨ b.lowFreq < 0 ∨ ¬ b.lowFreq < b.highFreq ∨
          b.highFreq < 0) := by grind
      simp only [exportBBox, geomToBounds, isBoxGeom, isTimeGeom, hbd, hlab, mkBBox, bind, Except.bind]
      simp only [Bool.not_true, Bool.false_eq_true, false_and, if_false, hmin, hv]
  refine ⟨?_, ?_, ?_, ?_⟩
  · intro s hs
    obtain ⟨ann, h1, h2⟩ := segSteps s hs
    simp [roundtripSegment, h1, h2, bind, Except.bind]
  · intro segs hs
    obtain ⟨anns, h1, h2⟩ := mapM_collect_roundtrip (importSegment io adjust r)
      (exportSegment eo cast r.samplerate) (rtImage r.samplerate) ignore segs (fun s h => segSteps s (hs s h))
    have h1' : importSequence io adjust r segs = .ok anns := h1
    constructor
    · simp [roundtripSequence, exportSequence, h1', h2, bind, Except.bind]
    · simp [roundtripAnnotation, importAnnotation, importSeqs, exportAnnotation, exportSequence, h1', h2, bind,
        Except.bind, pure, Except.pure]
  · intro b hb
    obtain ⟨ann, h1, h2⟩ := boxSteps b hb
    simp [roundtripBBox, h1, h2, bind, Except.bind]
  · intro boxes hb
    obtain ⟨anns, h1, h2⟩ := mapM_collect_roundtrip (importBBox io adjust r)
      (exportBBox eo cast raiseTime r.samplerate) id ignore boxes (fun b h => boxSteps b (hb b h))
    simp [roundtripAnnotation, importAnnotation, importSeqs, exportAnnotation, h1, h2, bind, Except.bind,
      pure, Except.pure]

-- non-vacuity: the `select_by_key` route through a whole segment
example : roundtripSegment { key := some "species" } { selectByKey := some "species" } true true ⟨8, 1, "rec.wav"⟩
    ⟨"Myotis", some (1/2), none, none, some 10⟩ = .ok ⟨"Myotis", some (1/2), some (5/4), some 4, some 10⟩ := by
  decide +kernel

/-! ## follow-up: histories (state between calls) and construction paths (positional calls)

  `Hist.run` is the store semantics of consecutive imports in one process: every tag the cascade builds is
  a freshly allocated mutable object, a caller may edit the tags of any earlier result in place.
  `Hist.pureRun` is the value semantics: every call is the pure function `labelToTags` on its own
  arguments, every edit changes the edited result only.  They agree, so every step of a history has
  exactly one right answer, whatever happened before (the harness observes the same reads on the real
  objects: op `tag_history`). -/

open SE.Crowsetta.Hist SE.Proofs.Lemmas.CrowsettaHist in
/-- after any history of calls and in-place edits, what the caller reads from all results is what the
    value semantics says: calls are pure functions of their own arguments, edits are local -/
theorem C10_history_value_semantics (evs : List Hist.Ev) :
    (List.range (Hist.run evs).results.length).map (Hist.run evs).cells = Hist.pureRun evs := by
  have h := (foldl_sim evs {} wf_init).2
  have h0 : reads ({} : Hist.St) = [] := by simp [reads]
  rw [h0] at h
  exact h

open SE.Crowsetta.Hist SE.Proofs.Lemmas.CrowsettaHist in
/-- a call at the end of *any* history (earlier results edited in place or not) reads as the pure
    function of its own options and labels: nothing carries over from earlier calls -/
theorem C10_history_call_pure (evs : List Hist.Ev) (o : LabelOpts) (ls : List String) :
    (Hist.run (evs ++ [.call o ls])).cells (Hist.run evs).results.length =
      (Hist.callVals o ls).toOption := by
  have hw := (foldl_sim evs {} wf_init).1
  have hs := (step_sim (Hist.run evs) hw (.call o ls)).2
  have hrun : Hist.run (evs ++ [.call o ls]) = Hist.step (Hist.run evs) (.call o ls) := by
    simp [Hist.run, List.foldl_append]
  rw [hrun]
  have hk := congrArg (fun l => l[(Hist.run evs).results.length]?) hs
  simp only [reads_getElem?, Hist.pureStep] at hk
  have hlen : (Hist.run evs).results.length < (Hist.step (Hist.run evs) (.call o ls)).results.length := by
    cases hc : Hist.callVals o ls <;> simp [Hist.step, hc]
  simp only [hlen, if_true] at hk
  rw [List.getElem?_append_right (by simp [reads_length])] at hk
  simpa [reads_length] using hk

open SE.Crowsetta.Hist SE.Proofs.Lemmas.CrowsettaHist in
/-- a later call leaves every earlier result as it was (a result does not alias anything a later call touches) -/
theorem C10_history_results_kept (evs : List Hist.Ev) (o : LabelOpts) (ls : List String) (k : Nat)
    (hk : k < (Hist.run evs).results.length) :
    (Hist.run (evs ++ [.call o ls])).cells k = (Hist.run evs).cells k := by
  have hw := (foldl_sim evs {} wf_init).1
  have hs := (step_sim (Hist.run evs) hw (.call o ls)).2
  have hrun : Hist.run (evs ++ [.call o ls]) = Hist.step (Hist.run evs) (.call o ls) := by
    simp [Hist.run, List.foldl_append]
  rw [hrun]
  have h := congrArg (fun l => l[k]?) hs
  simp only [reads_getElem?, Hist.pureStep] at h
  have hlen : k < (Hist.step (Hist.run evs) (.call o ls)).results.length := by
    cases hc : Hist.callVals o ls <;> simp [Hist.step, hc] <;> omega
  simp only [hlen, if_true] at h
  rw [List.getElem?_append_left (by simpa [reads_length] using hk), reads_getElem?] at h
  simpa [hk] using h

open SE.Crowsetta.Hist SE.Proofs.Lemmas.CrowsettaHist in
/-- an in-place edit of the tags of result `k` is seen in result `k` only -/
theorem C10_history_edit_local (evs : List Hist.Ev) (k a : Nat) (v : String) (j : Nat) (hj : j ≠ k) :
    (Hist.run (evs ++ [.edit k a v])).cells j = (Hist.run evs).cells j := by
  have hw := (foldl_sim evs {} wf_init).1
  have hs := (step_sim (Hist.run evs) hw (.edit k a v)).2
  have hrun : Hist.run (evs ++ [.edit k a v]) = Hist.step (Hist.run evs) (.edit k a v) := by
    simp [Hist.run, List.foldl_append]
  rw [hrun]
  have hres : (Hist.step (Hist.run evs) (.edit k a v)).results = (Hist.run evs).results := by
    simp only [Hist.step]
    split
    · split <;> rfl
    · rfl
  by_cases hlt : j < (Hist.run evs).results.length
  · have h := congrArg (fun l => l[j]?) hs
    simp only [reads_getElem?, Hist.pureStep, modifyAt_getElem?, hres, hlt, if_true, hj, if_false] at h
    simpa using h
  · have h1 : (Hist.run evs).results[j]? = none := by simp; omega
    simp [Hist.St.cells, hres, h1]

open SE.Crowsetta.Hist SE.Proofs.Lemmas.CrowsettaHist in
/-- the statement of seeded change C10-7 as a theorem: whatever was imported and edited before, every tag
    the cascade builds for a later element carries that element's label as its value -/
theorem C10_history_value_is_label (evs : List Hist.Ev) (o : LabelOpts) (ls : List String) (ts : List Tag)
    (ho : Hist.ownTags o = true)
    (h : (Hist.run (evs ++ [.call o ls])).cells (Hist.run evs).results.length = some ts) :
    ∀ t ∈ ts, t.value ∈ ls := by
  rw [C10_history_call_pure] at h
  cases hc : Hist.callVals o ls with
  | error e => simp [hc, Except.toOption] at h
  | ok ts' =>
    simp only [hc, Except.toOption, Option.some.injEq] at h
    subst h
    unfold Hist.callVals at hc
    cases hm : ls.mapM (labelToTags o) with
    | error e => simp [hm, Except.map] at hc
    | ok tss =>
      simp only [hm, Except.map, Except.ok.injEq] at hc
      subst hc
      have hmap := (mapM_ok_iff (labelToTags o) ls tss).mp hm
      intro t ht
      obtain ⟨tl, htl, htin⟩ := List.mem_flatten.mp ht
      obtain ⟨i, hi, rfl⟩ := List.getElem_of_mem htl
      have hlen : tss.length = ls.length := by
        have := congrArg List.length hmap; simpa using this.symm
      have hi' : i < ls.length := by omega
      have hget := congrArg (fun l => l[i]?) hmap
      simp only [List.getElem?_map, List.getElem?_eq_getElem hi', List.getElem?_eq_getElem hi, Option.map_some,
        Option.some.injEq] at hget
      rw [ownTags_value o ls[i] tss[i] ho hget t htin]
      exact List.getElem_mem _

-- non-vacuity: the history of seeded change C10-7 (import "a", the caller corrects the tag in place, import "a" again)
example : Hist.pureRun [.call {} ["a", "b", "a"], .edit 0 0 "a-corrected", .call {} ["a"]] =
    [some [⟨termFromKey "crowsetta", "a-corrected"⟩, ⟨termFromKey "crowsetta", "b"⟩, ⟨termFromKey "crowsetta", "a"⟩],
     some [⟨termFromKey "crowsetta", "a"⟩]] := by decide +kernel

/-! ### positional calls -/

open SE.Proofs.Lemmas.CrowsettaHist in
/-- no public converter has two parameters of the same name (the table is tied to the signatures on every run) -/
theorem C10_signatures_wellformed : ∀ s ∈ signatures, s.params.Nodup := by decide

open SE.Proofs.Lemmas.CrowsettaHist in
/-- every split between positional and keyword passing (in the table's order) binds the same values:
    the call is the keyword call `params.zip vals` -/
theorem C10_positional_split {α} (s : Sig) (hs : s ∈ signatures) (vals : List α) (k : Nat)
    (hl : vals.length ≤ s.params.length) : splitCall s.params vals k = some (s.params.zip vals) :=
  splitCall_eq s.params vals k (C10_signatures_wellformed s hs) hl

open SE.Proofs.Lemmas.CrowsettaHist in
/-- … in which the `i`-th parameter of the table receives the `i`-th value -/
theorem C10_positional_lookup {α} (s : Sig) (hs : s ∈ signatures) (vals : List α) (i : Nat)
    (hp : i < s.params.length) (hv : i < vals.length) : (s.params.zip vals).lookup s.params[i] = some vals[i] :=
  zip_lookup s.params vals (C10_signatures_wellformed s hs) i hp hv

/-- more positional values than parameters is a `TypeError` -/
theorem C10_positional_too_many {α} (params : List String) (pos : List α) (kw : List (String × α))
    (h : params.length < pos.length) : bindCall params pos kw = none := by
  unfold bindCall
  have : ¬ pos.length ≤ params.length := by omega
  simp [this]

-- non-vacuity
example : splitCall ["obj", "cast_to_bbox", "raise_on_time_geometries"] [1, 2, 3] 1 =
    some [("obj", 1), ("cast_to_bbox", 2), ("raise_on_time_geometries", 3)] := by decide

end SE.Proofs.C10
