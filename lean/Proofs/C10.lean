/-
  C10 — Crowsetta conversions preserve times, frequencies, labels and order.
  Property theorems only (helper lemmas live in Proofs/Lemmas/Crowsetta.lean).
-/
import SoundeventModel.Crowsetta
import Proofs.Lemmas.Crowsetta
namespace SE.Proofs.C10
open SE SE.Crowsetta SE.Proofs.Lemmas.Crowsetta

/-! ## import: the expansion factor is applied exactly once -/

/-- from seconds: the time of an imported segment is `onset / te`, `offset / te`
    (for `te = 1` that is the value itself); no hypothesis on `te` -/
theorem C10_import_once_seconds (a b : Rat) (ns ne : Option Rat) (sr te : Rat) :
    segTimes (some a) (some b) ns ne sr te true = some (a / te, b / te) := by
  unfold segTimes fileTime adjTime
  by_cases h : te = 1
  · subst h; simp; constructor <;> grind
  · simp [h]

/-- from sample indices: `sample / samplerate`, whatever the expansion factor — the division by
    `samplerate / te` and the later division by `te` cancel -/
theorem C10_import_once_samples (n m sr te : Rat) (hte : te ≠ 0) :
    segTimes none none (some n) (some m) sr te true = some (n / sr, m / sr) := by
  unfold segTimes fileTime adjTime
  by_cases h : te = 1
  · subst h; simp; constructor <;> grind
  · simp [h]; constructor <;> grind

/-- each end separately (any mixture of seconds and samples) -/
theorem C10_import_once_end (sec sample : Option Rat) (sr te : Rat) (hte : te ≠ 0) :
    (fileTime sec sample sr te).map (adjTime true te) =
      match sec, sample with
      | some s, _ => some (s / te)
      | none, some n => some (n / sr)
      | none, none => none := by
  unfold fileTime adjTime
  by_cases h : te = 1
  · subst h; cases sec <;> cases sample <;> simp <;> grind
  · cases sec <;> cases sample <;> simp [h]; grind

/-- boxes: times divided, frequencies multiplied, once -/
theorem C10_import_once_box (onset offset low high te : Rat) :
    boxCoords onset offset low high te true = (onset / te, low * te, offset / te, high * te) := by
  unfold boxCoords adjTime adjFreq
  by_cases h : te = 1
  · subst h; simp; constructor <;> grind
  · simp [h]

/-- without adjustment nothing is scaled: seconds and box coordinates are copied, sample indices
    become file time `sample / (samplerate / te)` -/
theorem C10_import_unadjusted (a b n m onset offset low high sr te : Rat) :
    segTimes (some a) (some b) none none sr te false = some (a, b) ∧
    segTimes none none (some n) (some m) sr te false = some (n / (sr / te), m / (sr / te)) ∧
    boxCoords onset offset low high te false = (onset, low, offset, high) := by
  simp [segTimes, fileTime, adjTime, boxCoords, adjFreq]

/-- a recording without time expansion: seconds are copied whatever `adjust` says -/
theorem C10_import_no_expansion (a b : Rat) (ns ne : Option Rat) (sr : Rat) (adjust : Bool) :
    segTimes (some a) (some b) ns ne sr 1 adjust = some (a, b) := by
  simp [segTimes, fileTime, adjTime]

/-- `segment_to_annotation` succeeds exactly when both ends are known, the interval is a valid
    `TimeInterval` and the label converts; the geometry is the interval of `segTimes` -/
theorem C10_import_segment_geometry (o : LabelOpts) (adjust : Bool) (r : Rec) (s : Segment) (a : Ann) :
    importSegment o adjust r s = .ok a ↔
      ∃ st en, segTimes s.onsetS s.offsetS (s.onsetSample.map ratOfInt) (s.offsetSample.map ratOfInt)
          r.samplerate r.te adjust = some (st, en) ∧ 0 ≤ st ∧ st ≤ en ∧
        a.geom = some (.timeInterval st en) ∧ labelToTags o s.label = .ok a.tags := by
  unfold importSegment
  cases hs : segTimes s.onsetS s.offsetS (s.onsetSample.map ratOfInt) (s.offsetSample.map ratOfInt)
      r.samplerate r.te adjust with
  | none => simp
  | some p =>
    obtain ⟨st, en⟩ := p
    simp only [mkInterval, Option.some.injEq, Prod.mk.injEq]
    by_cases hv : st > en ∨ st < 0 ∨ en < 0
    · simp only [hv, if_true, bind, Except.bind]
      constructor
      · intro h; cases h
      · rintro ⟨st', en', ⟨rfl, rfl⟩, h0, h1, _⟩; exfalso; grind
    · simp only [hv, if_false, bind, Except.bind]
      cases hl : labelToTags o s.label with
      | error e => simp
      | ok tags =>
        simp only [pure, Except.pure, Except.ok.injEq]
        constructor
        · rintro rfl; exact ⟨st, en, ⟨rfl, rfl⟩, by grind, by grind, rfl, rfl⟩
        · rintro ⟨st', en', ⟨rfl, rfl⟩, _, _, hg, ht⟩
          cases a; simp at hg ht; simp [hg, ht]

/-- a missing onset (or offset) is a `ValueError` -/
theorem C10_import_segment_missing (o : LabelOpts) (adjust : Bool) (r : Rec) (s : Segment)
    (h : (s.onsetS = none ∧ s.onsetSample = none) ∨ (s.offsetS = none ∧ s.offsetSample = none)) :
    importSegment o adjust r s = .error .invalid := by
  unfold importSegment segTimes fileTime
  rcases h with ⟨h1, h2⟩ | ⟨h1, h2⟩ <;> simp [h1, h2]
  cases s.onsetS <;> cases s.onsetSample <;> simp

/-- `bbox_to_annotation`: the geometry is the `BoundingBox` of the scaled coordinates; for a
    crowsetta box (onset ≤ offset, low ≤ high) and a positive factor no pair is swapped -/
theorem C10_import_bbox_geometry (o : LabelOpts) (r : Rec) (b : BBox) (a : Ann)
    (hte : 0 < r.te) (ht : b.onset ≤ b.offset) (hf : b.lowFreq ≤ b.highFreq) :
    importBBox o true r b = .ok a ↔
      0 ≤ b.onset ∧ 0 ≤ b.lowFreq ∧ b.highFreq * r.te ≤ MAXF ∧
      a.geom = some (.boundingBox (b.onset / r.te) (b.lowFreq * r.te) (b.offset / r.te) (b.highFreq * r.te)) ∧
      labelToTags o b.label = .ok a.tags := by
  unfold importBBox
  rw [C10_import_once_box]
  have hinv : 0 < r.te⁻¹ := Rat.inv_pos.mpr hte
  have h1 : b.onset / r.te ≤ b.offset / r.te := by
    rw [Rat.div_def, Rat.div_def]; exact Rat.mul_le_mul_of_nonneg_right ht (Rat.le_of_lt hinv)
  have h2 : b.lowFreq * r.te ≤ b.highFreq * r.te := Rat.mul_le_mul_of_nonneg_right hf (Rat.le_of_lt hte)
  have h3 : 0 ≤ b.onset ↔ 0 ≤ b.onset / r.te := by
    rw [Rat.div_def]
    constructor
    · intro h; exact Rat.mul_nonneg h (Rat.le_of_lt hinv)
    · intro h
      by_cases hn : 0 ≤ b.onset
      · exact hn
      · exfalso
        have : b.onset * r.te⁻¹ < 0 := by
          have := Rat.mul_lt_mul_of_pos_right (Rat.not_le.mp hn) hinv
          simpa using this
        grind
  have h4 : 0 ≤ b.lowFreq ↔ 0 ≤ b.lowFreq * r.te := by
    constructor
    · intro h; exact Rat.mul_nonneg h (Rat.le_of_lt hte)
    · intro h
      by_cases hn : 0 ≤ b.lowFreq
      · exact hn
      · exfalso
        have : b.lowFreq * r.te < 0 := by
          have := Rat.mul_lt_mul_of_pos_right (Rat.not_le.mp hn) hte
          simpa using this
        grind
  simp only [mkBox]
  by_cases hv : b.onset / r.te < 0 ∨ b.lowFreq * r.te < 0 ∨ b.lowFreq * r.te > MAXF ∨ b.offset / r.te < 0 ∨
      b.highFreq * r.te < 0 ∨ b.highFreq * r.te > MAXF
  · simp only [hv, if_true, bind, Except.bind]
    constructor
    · intro h; cases h
    · rintro ⟨h0, h0', hm, _⟩; exfalso; grind
  · simp only [hv, if_false, bind, Except.bind]
    have e1 : ¬ b.onset / r.te > b.offset / r.te := by grind
    have e2 : ¬ b.lowFreq * r.te > b.highFreq * r.te := by grind
    simp only [e1, e2, if_false]
    cases hl : labelToTags o b.label with
    | error e => simp
    | ok tags =>
      simp only [pure, Except.pure, Except.ok.injEq]
      constructor
      · rintro rfl; exact ⟨by grind, by grind, by grind, rfl, rfl⟩
      · rintro ⟨_, _, _, hg, ht⟩
        cases a; simp at hg ht; simp [hg, ht]

example : importSegment {} true ⟨8000, 10, "rec.wav"⟩ ⟨"a", some 5, some 20, none, none⟩ =
    .ok ⟨some (.timeInterval (1/2) 2), [⟨termFromKey "crowsetta", "a"⟩]⟩ := by decide +kernel
example : importSegment {} true ⟨8000, 10, "rec.wav"⟩ ⟨"a", none, none, some 4000, some 16000⟩ =
    .ok ⟨some (.timeInterval (1/2) 2), [⟨termFromKey "crowsetta", "a"⟩]⟩ := by decide +kernel
example : importBBox {} true ⟨8000, 10, "rec.wav"⟩ ⟨5, 20, 100, 400, "a"⟩ =
    .ok ⟨some (.boundingBox (1/2) 1000 2 4000), [⟨termFromKey "crowsetta", "a"⟩]⟩ := by decide +kernel
example : importBBox {} true ⟨8000, 10, "rec.wav"⟩ ⟨5, 20, 100, 600000, "a"⟩ = .error .invalid := by
  decide +kernel

end SE.Proofs.C10
