/- C03 — property theorems (to be written). -/
import SoundeventModel.Basic
namespace SE.Proofs.C03

end SE.Proofs.C03
