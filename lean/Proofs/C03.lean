/-
  C03 — Geometry validation accepts exactly the valid geometries and normalises them.
  Property theorems only (helper lemmas live in Proofs/Lemmas/Validate.lean).

  `validate ty r` is the model of what class `ty` of soundevent/data/geometries.py does with the
  `coordinates` value `r` (pydantic's typed parse, then the class's field validators in the
  code's order); `geometryValidate` / `construct` model the four entry points.  `Spec`,
  `Admissible`, `normalise`, `Normal`, `Valid` are the property's wording
  (SoundeventModel/Validate.lean); none of them is mentioned by `validate`.
-/
import Proofs.Lemmas.Validate
namespace SE.Proofs.C03
open SE SE.Validate

/-! ## Accept / reject -/

/-- The full input/output behaviour: an object `g` comes out exactly when the input is the
    coordinates of an admissible value `c` of the class, and `g` is `c` normalised. -/
theorem C03_result (ty : GType) (r : Raw) (g : Geom) :
    validate ty r = .ok g ↔
      ∃ c, GType.of c = ty ∧ r = dump c ∧ Admissible c ∧ g = normalise c :=
  (validate_spec ty r).1 g

/-- construction succeeds if and only if the wording accepts the input -/
theorem C03_accept_iff (ty : GType) (r : Raw) : (∃ g, validate ty r = .ok g) ↔ Spec ty r := by
  unfold Spec
  constructor
  · rintro ⟨g, hg⟩
    obtain ⟨c, h1, h2, h3, _⟩ := (C03_result ty r g).1 hg
    exact ⟨c, h1, h2, h3⟩
  · rintro ⟨c, h1, h2, h3⟩
    exact ⟨normalise c, (C03_result ty r _).2 ⟨c, h1, h2, h3, rfl⟩⟩

/-- a validator never fails with anything but a validation error (the `v[0][0]` index accesses
    of the ordering validators are always in range when they run) -/
theorem C03_no_crash (ty : GType) (r : Raw) : validate ty r ≠ .error .crash := by
  intro h
  have := (validate_spec ty r).2 _ h
  cases this

/-- otherwise a validation error is raised and no object exists -/
theorem C03_reject (ty : GType) (r : Raw) (h : ¬ Spec ty r) : validate ty r = .error .invalid := by
  cases hv : validate ty r with
  | ok g => exact absurd ((C03_accept_iff ty r).1 ⟨g, hv⟩) h
  | error e => rw [(validate_spec ty r).2 e hv]

/-- `validate` *is* the executable wording: decode the shape, test admissibility, normalise -/
theorem C03_validate_eq (ty : GType) (r : Raw) :
    validate ty r =
      match decode ty r with
      | some c => if admissibleB c then .ok (normalise c) else .error .invalid
      | none => .error .invalid := by
  cases hd : decode ty r with
  | none =>
    simp only
    apply C03_reject
    rintro ⟨c, hc, hr, _⟩
    have := (decode_some ty r c).2 ⟨hc, hr⟩
    rw [hd] at this; cases this
  | some c =>
    obtain ⟨hc, hr⟩ := (decode_some ty r c).1 hd
    simp only
    by_cases ha : admissibleB c = true
    · simp only [ha, if_true]
      exact (C03_result ty r _).2 ⟨c, hc, hr, (admissibleB_iff c).1 ha, rfl⟩
    · simp only [ha]
      apply C03_reject
      rintro ⟨c', hc', hr', ha'⟩
      have := (decode_some ty r c').2 ⟨hc', hr'⟩
      rw [hd] at this
      cases this
      exact ha ((admissibleB_iff c).2 ha')

/-- the Boolean test used by the run-time monitor decides the wording -/
theorem C03_specB_iff (ty : GType) (r : Raw) : specB ty r = true ↔ Spec ty r := specB_iff ty r

/-! ## Normal form, class, validity -/

/-- every accepted geometry is in normal form and is an instance of the class asked for -/
theorem C03_normal (ty : GType) (r : Raw) (g : Geom) (h : validate ty r = .ok g) :
    Normal g ∧ GType.of g = ty ∧ g.tag = ty.tag := by
  obtain ⟨c, h1, _, h3, rfl⟩ := (C03_result ty r g).1 h
  have hv := normalise_valid c h3
  refine ⟨hv.2, by rw [of_normalise, h1], by rw [tag_eq, of_normalise, h1]⟩

/-- every accepted geometry is valid: in range, with the required counts, in normal form -/
theorem C03_valid (ty : GType) (r : Raw) (g : Geom) (h : validate ty r = .ok g) : Valid g := by
  obtain ⟨c, _, _, h3, rfl⟩ := (C03_result ty r g).1 h
  exact normalise_valid c h3

/-- the valid geometries are exactly the objects that can exist -/
theorem C03_valid_iff_constructible (g : Geom) :
    Valid g ↔ ∃ r, validate (GType.of g) r = .ok g := by
  constructor
  · intro h
    refine ⟨dump g, (C03_result _ _ _).2 ⟨g, rfl, rfl, h.1, (normalise_of_valid g h).symm⟩⟩
  · rintro ⟨r, hr⟩; exact C03_valid _ r g hr

/-- normalisation does nothing else to the coordinates -/
theorem C03_coordinates_kept (ty : GType) (r : Raw) (g : Geom) (h : validate ty r = .ok g)
    (hb : ty ≠ .boundingBox) (hl : ty ≠ .lineString) : dump g = r := by
  obtain ⟨c, h1, h2, _, rfl⟩ := (C03_result ty r g).1 h
  cases c <;> simp_all [normalise, GType.of]

/-- a box given with reversed time and/or frequency ends is accepted and swapped -/
theorem C03_box_swapped (s l e h : Rat) (hs : 0 ≤ s) (he : 0 ≤ e)
    (hl : 0 ≤ l ∧ l ≤ MAXF) (hh : 0 ≤ h ∧ h ≤ MAXF) :
    validate .boundingBox (.arr [.num s, .num l, .num e, .num h]) =
      .ok (.boundingBox (min s e) (min l h) (max s e) (max l h)) :=
  (C03_result _ _ _).2 ⟨.boundingBox s l e h, rfl, rfl, ⟨hs, hl, he, hh⟩, rfl⟩

/-- a line string whose first point is later than its last is accepted and reversed; otherwise
    it is kept -/
theorem C03_line_reversed (ps : List Pt) (p q : Pt) (h2 : 2 ≤ ps.length) (hok : ∀ p ∈ ps, PtOk p)
    (hp : ps.head? = some p) (hq : ps.getLast? = some q) :
    validate .lineString (encPts ps) =
      .ok (.lineString (if p.1 > q.1 then ps.reverse else ps)) := by
  have := (C03_result .lineString (encPts ps) _).2 ⟨.lineString ps, rfl, rfl, ⟨h2, hok⟩, rfl⟩
  simpa only [normalise, orient, hp, hq] using this

/-- a reversed time interval is *rejected* (not swapped) -/
theorem C03_interval_reversed_rejected (s e : Rat) (h : e < s) :
    validate .timeInterval (.arr [.num s, .num e]) = .error .invalid := by
  apply C03_reject
  rintro ⟨c, hc, hr, ha⟩
  cases c <;> simp [GType.of] at hc
  simp only [dump, Raw.arr.injEq, List.cons.injEq, Raw.num.injEq, and_true] at hr
  obtain ⟨rfl, rfl⟩ := hr
  exact absurd h (Rat.not_lt.2 ha.2.2)

/-- a line of a multi-line whose end points have equal times is rejected (strictly forward) -/
theorem C03_multiline_strict (ls₁ ls₂ : List (List Pt)) (l : List Pt) (p q : Pt)
    (hp : l.head? = some p) (hq : l.getLast? = some q) (h : q.1 ≤ p.1) :
    validate .multiLineString (encRings (ls₁ ++ l :: ls₂)) = .error .invalid := by
  apply C03_reject
  rintro ⟨c, hc, hr, ha⟩
  cases c <;> simp [GType.of] at hc
  rename_i ls
  have : ls = ls₁ ++ l :: ls₂ := by
    have h1 := (decode_some .multiLineString _ (.multiLineString ls)).2 ⟨rfl, hr⟩
    have h2 := (decode_some .multiLineString _ (.multiLineString (ls₁ ++ l :: ls₂))).2 ⟨rfl, rfl⟩
    have h2' : decode .multiLineString (encRings (ls₁ ++ l :: ls₂)) =
        some (.multiLineString (ls₁ ++ l :: ls₂)) := h2
    rw [h2'] at h1
    injection h1 with h1; injection h1 with h1; exact h1.symm
  subst this
  obtain ⟨p', q', hp', hq', hlt⟩ := (ha.2 l (by simp)).2.2
  rw [hp] at hp'; rw [hq] at hq'
  cases hp'; cases hq'
  exact absurd hlt (Rat.not_lt.2 h)

/-- normalising twice is normalising once (on admissible coordinates), and the normal form of an
    admissible value is again admissible -/
theorem C03_normalise_idempotent (c : Geom) (h : Admissible c) :
    normalise (normalise c) = normalise c ∧ Admissible (normalise c) ∧ Normal (normalise c) := by
  have hv := normalise_valid c h
  exact ⟨normalise_of_valid _ hv, hv.1, hv.2⟩

/-! ## Re-validation of the dump -/

/-- re-validating the dumped coordinates of an accepted geometry yields an equal geometry -/
theorem C03_fixpoint (ty : GType) (r : Raw) (g : Geom) (h : validate ty r = .ok g) :
    validate ty (dump g) = .ok g := by
  have hv := C03_valid ty r g h
  have ht := (C03_normal ty r g h).2.1
  exact (C03_result _ _ _).2 ⟨g, ht, rfl, hv.1, (normalise_of_valid g hv).symm⟩

/-- the dump determines the object: two geometries of one class with equal dumps are equal -/
theorem C03_dump_injective (g g' : Geom) (ht : GType.of g = GType.of g') (h : dump g = dump g') :
    g = g' := by
  have h1 := decode_dump g
  have h2 := decode_dump g'
  rw [ht, h, h2] at h1
  injection h1 with h1
  exact h1.symm

/-! ## The four entry points -/

/-- what an entry point gets to see of the object it is handed: the type tag and the coordinates
    (`none`: the mode cannot read the object, or one of the two is missing) -/
def view : Mode → PyObj → Option (String × Raw)
  | .json, .str (some (.dict (some t) (some r))) => some (t, r)
  | .dict, .val (.dict (some t) (some r)) => some (t, r)
  | .attributes, .attrs (some t) (some r) => some (t, r)
  | _, _ => none

/-- the table of the model is well formed (the table obligation shows on every run that the
    table extracted from the code *is* this one) -/
theorem C03_table_wellFormed : WellFormed table := wellFormedB_sound table (by decide)

theorem C03_wellFormedB_sound (tbl : Table) (h : wellFormedB tbl = true) : WellFormed tbl :=
  wellFormedB_sound tbl h

/-- Every mode of `geometry_validate` is `validate` of the class named by the tag, applied to the
    coordinates, whenever the mode can read a known tag and coordinates off the object – and a
    validation error otherwise (wrong kind of object for the mode, text that is not JSON, missing
    `type`, tag not in the table, missing `coordinates`). -/
theorem C03_geometryValidate_eq (tbl : Table) (hw : WellFormed tbl) (mode : Mode) (obj : PyObj) :
    geometryValidate tbl mode obj =
      match view mode obj with
      | some (t, r) =>
        (match GType.ofTag t with
         | some ty => (validate ty r).map fun g => (t, g)
         | none => .error .invalid)
      | none => .error .invalid := by
  have hl := lookup_of_wellFormed tbl hw
  cases mode <;> rcases obj with (_ | (⟨_ | t, _ | r⟩ | _)) | (⟨_ | t, _ | r⟩ | _) | ⟨_ | t, _ | r⟩ <;>
    simp only [geometryValidate, view, bad, reduceCtorEq, if_true, if_false, PyObj.source, hl] <;>
    (try rfl)
  all_goals
    cases ht : GType.ofTag t with
    | none => rfl
    | some ty =>
      have := (ofTag_some t ty).1 ht
      subst this
      simp [classValidate_ideal]

/-- direct construction: the class's own validation, with the `type` keyword absent or given -/
theorem C03_construct_eq (ty : GType) (t : Option String) (r : Option Raw) :
    construct ⟨ty, ty.tag, ty.tag⟩ t r =
      match r with
      | none => .error .invalid
      | some r =>
        if t = none ∨ t = some ty.tag then (validate ty r).map fun g => (ty.tag, g)
        else .error .invalid := by
  unfold construct
  rw [classValidate_ideal]
  cases r <;> rfl

/-- The four entry points agree: handed the tag of class `ty` and coordinates `r`, the
    constructor and the three modes all return what `validate ty r` returns. -/
theorem C03_entrypoints_agree (tbl : Table) (hw : WellFormed tbl) (ty : GType) (r : Raw) :
    let res : R Obj := (validate ty r).map fun g => (ty.tag, g)
    construct ⟨ty, ty.tag, ty.tag⟩ none (some r) = res ∧
    construct ⟨ty, ty.tag, ty.tag⟩ (some ty.tag) (some r) = res ∧
    geometryValidate tbl .dict (.val (.dict (some ty.tag) (some r))) = res ∧
    geometryValidate tbl .json (.str (some (.dict (some ty.tag) (some r)))) = res ∧
    geometryValidate tbl .attributes (.attrs (some ty.tag) (some r)) = res := by
  have ht : GType.ofTag ty.tag = some ty := (ofTag_some _ _).2 rfl
  refine ⟨?_, ?_, ?_, ?_, ?_⟩
  · rw [C03_construct_eq]; simp
  · rw [C03_construct_eq]; simp
  · rw [C03_geometryValidate_eq tbl hw]; simp only [view, ht]
  · rw [C03_geometryValidate_eq tbl hw]; simp only [view, ht]
  · rw [C03_geometryValidate_eq tbl hw]; simp only [view, ht]

/-- a missing or unknown tag, or missing coordinates, is a validation error in every mode -/
theorem C03_bad_tag_rejected (tbl : Table) (hw : WellFormed tbl) (mode : Mode) (obj : PyObj)
    (h : ∀ t r, view mode obj = some (t, r) → GType.ofTag t = none) :
    geometryValidate tbl mode obj = .error .invalid := by
  rw [C03_geometryValidate_eq tbl hw]
  cases hv : view mode obj with
  | none => rfl
  | some tr => obtain ⟨t, r⟩ := tr; simp only [h t r hv]

/-- in every mode an accepted object is an instance of the class named by its type tag, is in
    normal form and valid -/
theorem C03_class_of_tag (tbl : Table) (hw : WellFormed tbl) (mode : Mode) (obj : PyObj) (t : String)
    (g : Geom) (h : geometryValidate tbl mode obj = .ok (t, g)) :
    g.tag = t ∧ (GType.of g).tag = t ∧ Valid g := by
  rw [C03_geometryValidate_eq tbl hw] at h
  cases hv : view mode obj with
  | none => simp [hv] at h
  | some tr =>
    obtain ⟨t', r⟩ := tr
    simp only [hv] at h
    cases ht : GType.ofTag t' with
    | none => simp [ht] at h
    | some ty =>
      simp only [ht] at h
      cases hval : validate ty r with
      | error e => simp [hval, Except.map] at h
      | ok g' =>
        simp only [hval, Except.map, Except.ok.injEq, Prod.mk.injEq] at h
        obtain ⟨rfl, rfl⟩ := h
        have hn := C03_normal ty r g' hval
        have := (ofTag_some t' ty).1 ht
        exact ⟨by rw [hn.2.2, this], by rw [hn.2.1, this], C03_valid ty r g' hval⟩

/-- re-validating the JSON dump of an object accepted through any entry point yields an equal
    object (same type field, equal geometry), whichever mode reads the dump back -/
theorem C03_dump_roundtrip (tbl : Table) (hw : WellFormed tbl) (mode : Mode) (obj : PyObj) (o : Obj)
    (h : geometryValidate tbl mode obj = .ok o) :
    geometryValidate tbl .json (.str (some (dumpDoc o))) = .ok o ∧
    geometryValidate tbl .dict (.val (dumpDoc o)) = .ok o ∧
    geometryValidate tbl .attributes (.attrs (some o.1) (some (dump o.2))) = .ok o := by
  obtain ⟨t, g⟩ := o
  have hfix : (match GType.ofTag t with
      | some ty => (validate ty (dump g)).map fun g => (t, g)
      | none => (.error .invalid : R Obj)) = .ok (t, g) := by
    rw [C03_geometryValidate_eq tbl hw] at h
    cases hv : view mode obj with
    | none => simp [hv] at h
    | some tr =>
      obtain ⟨t', r⟩ := tr
      simp only [hv] at h
      cases ht : GType.ofTag t' with
      | none => simp [ht] at h
      | some ty =>
        simp only [ht] at h
        cases hval : validate ty r with
        | error e => simp [hval, Except.map] at h
        | ok g' =>
          simp only [hval, Except.map, Except.ok.injEq, Prod.mk.injEq] at h
          obtain ⟨rfl, rfl⟩ := h
          simp only [ht, C03_fixpoint ty r g' hval, Except.map]
  refine ⟨?_, ?_, ?_⟩ <;> (rw [C03_geometryValidate_eq tbl hw]; simpa only [view, dumpDoc] using hfix)

/-- the same for direct construction -/
theorem C03_construct_roundtrip (tbl : Table) (hw : WellFormed tbl) (ty : GType) (r : Raw) (o : Obj)
    (h : construct ⟨ty, ty.tag, ty.tag⟩ none (some r) = .ok o) :
    geometryValidate tbl .json (.str (some (dumpDoc o))) = .ok o := by
  obtain ⟨h'', _, h', _⟩ := C03_entrypoints_agree tbl hw ty r
  rw [← h'', h] at h'
  exact (C03_dump_roundtrip tbl hw _ _ o h').1

/-! ## Boundaries -/

/-- a point is accepted exactly on the closed quadrant strip `0 ≤ t`, `0 ≤ f ≤ MAX_FREQUENCY` -/
theorem C03_point_boundary (t f : Rat) :
    (∃ g, validate .point (.arr [.num t, .num f]) = .ok g) ↔ 0 ≤ t ∧ 0 ≤ f ∧ f ≤ MAXF := by
  rw [C03_accept_iff]
  constructor
  · rintro ⟨c, hc, hr, ha⟩
    cases c <;> simp [GType.of] at hc
    simp only [dump, encPt, Raw.arr.injEq, List.cons.injEq, Raw.num.injEq, and_true] at hr
    obtain ⟨rfl, rfl⟩ := hr
    exact ⟨ha.1, ha.2.1, ha.2.2⟩
  · rintro ⟨h1, h2, h3⟩
    exact ⟨.point t f, rfl, rfl, h1, h2, h3⟩

/-- exactly 0 is accepted, as a time and as a frequency -/
theorem C03_accept_zero :
    validate .timeStamp (.num 0) = .ok (.timeStamp 0) ∧
    validate .point (.arr [.num 0, .num 0]) = .ok (.point 0 0) ∧
    validate .boundingBox (.arr [.num 0, .num 0, .num 0, .num 0]) = .ok (.boundingBox 0 0 0 0) := by
  refine ⟨?_, ?_, ?_⟩
  · exact (C03_result _ _ _).2 ⟨.timeStamp 0, rfl, rfl, Rat.le_refl, rfl⟩
  · exact (C03_result _ _ _).2 ⟨.point 0 0, rfl, rfl, ⟨Rat.le_refl, Rat.le_refl, by decide +kernel⟩, rfl⟩
  · exact (C03_result _ _ _).2 ⟨.boundingBox 0 0 0 0, rfl, rfl,
      ⟨Rat.le_refl, ⟨Rat.le_refl, by decide +kernel⟩, Rat.le_refl, ⟨Rat.le_refl, by decide +kernel⟩⟩,
      by decide +kernel⟩

/-- exactly `MAX_FREQUENCY` is accepted -/
theorem C03_accept_max_frequency (t : Rat) (ht : 0 ≤ t) :
    validate .point (.arr [.num t, .num MAXF]) = .ok (.point t MAXF) :=
  (C03_result _ _ _).2 ⟨.point t MAXF, rfl, rfl, ⟨ht, by decide +kernel, Rat.le_refl⟩, rfl⟩

/-- anything above `MAX_FREQUENCY` is rejected, however little above -/
theorem C03_reject_above_max (t f : Rat) (h : MAXF < f) :
    validate .point (.arr [.num t, .num f]) = .error .invalid := by
  cases hv : validate .point (.arr [.num t, .num f]) with
  | ok g =>
    have := (C03_point_boundary t f).1 ⟨g, hv⟩
    exact absurd h (Rat.not_lt.2 this.2.2)
  | error e => rw [(validate_spec _ _).2 e hv]

/-- anything below 0 is rejected, as a time or as a frequency -/
theorem C03_reject_negative (t f : Rat) (h : t < 0 ∨ f < 0) :
    validate .point (.arr [.num t, .num f]) = .error .invalid := by
  cases hv : validate .point (.arr [.num t, .num f]) with
  | ok g =>
    have := (C03_point_boundary t f).1 ⟨g, hv⟩
    rcases h with h | h
    · exact absurd h (Rat.not_lt.2 this.1)
    · exact absurd h (Rat.not_lt.2 this.2.1)
  | error e => rw [(validate_spec _ _).2 e hv]

/-- one bad coordinate anywhere inside a multi-polygon (any polygon, any ring, any position)
    makes the whole input invalid -/
theorem C03_reject_deep_inside (ps₁ ps₂ : List (List (List Pt))) (rs₁ rs₂ : List (List Pt))
    (ring₁ ring₂ : List Pt) (p : Pt) (h : ¬ PtOk p) :
    validate .multiPolygon
      (encPolys (ps₁ ++ (rs₁ ++ (ring₁ ++ p :: ring₂) :: rs₂) :: ps₂)) = .error .invalid := by
  apply C03_reject
  rintro ⟨c, hc, hr, ha⟩
  cases c <;> simp [GType.of] at hc
  rename_i ps
  have : ps = ps₁ ++ (rs₁ ++ (ring₁ ++ p :: ring₂) :: rs₂) :: ps₂ := by
    have h1 := (decode_some .multiPolygon _ (.multiPolygon ps)).2 ⟨rfl, hr⟩
    have h2 : decode .multiPolygon (encPolys (ps₁ ++ (rs₁ ++ (ring₁ ++ p :: ring₂) :: rs₂) :: ps₂)) =
        some (.multiPolygon (ps₁ ++ (rs₁ ++ (ring₁ ++ p :: ring₂) :: rs₂) :: ps₂)) :=
      (decode_some .multiPolygon _ (.multiPolygon _)).2 ⟨rfl, rfl⟩
    rw [h2] at h1
    injection h1 with h1; injection h1 with h1; exact h1.symm
  subst this
  have h1 : PolyOk (rs₁ ++ (ring₁ ++ p :: ring₂) :: rs₂) := ha.2 _ (by simp)
  have h2 : RingOk (ring₁ ++ p :: ring₂) := h1.2 _ (by simp)
  exact h (h2.2 p (by simp))

/-- the same for a point of a line of a multi-line string -/
theorem C03_reject_deep_inside_line (ls₁ ls₂ : List (List Pt)) (l₁ l₂ : List Pt) (p : Pt)
    (h : ¬ PtOk p) :
    validate .multiLineString (encRings (ls₁ ++ (l₁ ++ p :: l₂) :: ls₂)) = .error .invalid := by
  apply C03_reject
  rintro ⟨c, hc, hr, ha⟩
  cases c <;> simp [GType.of] at hc
  rename_i ls
  have : ls = ls₁ ++ (l₁ ++ p :: l₂) :: ls₂ := by
    have h1 := (decode_some .multiLineString _ (.multiLineString ls)).2 ⟨rfl, hr⟩
    have h2 : decode .multiLineString (encRings (ls₁ ++ (l₁ ++ p :: l₂) :: ls₂)) =
        some (.multiLineString (ls₁ ++ (l₁ ++ p :: l₂) :: ls₂)) :=
      (decode_some .multiLineString _ (.multiLineString _)).2 ⟨rfl, rfl⟩
    rw [h2] at h1
    injection h1 with h1; injection h1 with h1; exact h1.symm
  subst this
  have h1 : LineOk (l₁ ++ p :: l₂) := ha.2 _ (by simp)
  exact h (h1.2.1 p (by simp))

/-- wrong arity of an inner point (one or three numbers) is rejected: it is not the dump of any
    value of the class -/
theorem C03_reject_wrong_arity (xs : List Raw) (rest : List Raw) (h : xs.length ≠ 2) :
    validate .multiPoint (.arr (.arr xs :: rest)) = .error .invalid := by
  apply C03_reject
  rintro ⟨c, hc, hr, hadm⟩
  cases c <;> simp [GType.of] at hc
  rename_i ps
  cases ps with
  | nil => simp [dump, encPts] at hr
  | cons q qs =>
    simp only [dump, encPts, encPt, List.map_cons, Raw.arr.injEq, List.cons.injEq] at hr
    rw [hr.1] at h
    simp at h

/-- wrong nesting (a number where a list is expected, or the reverse) is rejected -/
theorem C03_reject_wrong_nesting (q : Rat) (xs : List Raw) :
    validate .timeStamp (.arr xs) = .error .invalid ∧
    validate .point (.num q) = .error .invalid ∧
    validate .lineString (.arr (.num q :: xs)) = .error .invalid ∧
    validate .point (.arr (.arr xs :: [.num q])) = .error .invalid := by
  refine ⟨?_, ?_, ?_, ?_⟩ <;> apply C03_reject <;> rintro ⟨c, hc, hr, hadm⟩ <;>
    cases c <;> simp [GType.of] at hc <;> simp [dump, encPt, encPts] at hr
  rename_i ps
  cases ps <;> simp [encPt] at hr

/-! ## The run-time monitor is the property -/

theorem C03_holds_complete (ty : GType) (r : Raw) : holdsB ty r (validate ty r) = true := by
  rw [C03_validate_eq]
  unfold holdsB specB
  cases hd : decode ty r with
  | none => simp
  | some c =>
    obtain ⟨hc, _⟩ := (decode_some ty r c).1 hd
    by_cases ha : admissibleB c = true
    · have hv := normalise_valid c ((admissibleB_iff c).1 ha)
      simp [ha, (normalB_iff _).2 hv.2, of_normalise, hc]
    · simp [ha]

theorem C03_holds_sound (ty : GType) (r : Raw) (out : R Geom) (h : holdsB ty r out = true) :
    out = validate ty r := by
  rw [C03_validate_eq]
  unfold holdsB specB at h
  cases out with
  | error e =>
    cases e <;> cases hd : decode ty r <;> simp_all
  | ok g =>
    cases hd : decode ty r with
    | none => simp [hd] at h
    | some c => simp [hd] at h; simp [h]

/-! ## Per-type acceptance in elementary terms (review additions)

    `Spec` says "the coordinates of some admissible value of the class".  The statements below spell
    that out per class without `Spec`, `dump`-existentials or `Admissible`, so that every rule of the
    property's wording (time ≥ 0, frequency in [0, MAX], start ≤ end, two points per line, three per
    ring, one member per multi-geometry, strictly forward lines) is visible as a theorem about
    `validate` itself. -/

/-- on coordinates that have the shape of the class, acceptance is admissibility -/
theorem C03_accept_dump_iff (c : Geom) :
    (∃ g, validate (GType.of c) (dump c) = .ok g) ↔ Admissible c := by
  rw [C03_accept_iff]
  constructor
  · rintro ⟨c', h1, h2, h3⟩
    have := C03_dump_injective c c' h1.symm h2
    rw [this]; exact h3
  · intro h; exact ⟨c, rfl, rfl, h⟩

/-- "the coordinates have the shape the type requires": whatever is accepted decodes as a value of
    the class (a number, a pair, four numbers, a list of pairs, …) -/
theorem C03_shape_required (ty : GType) (r : Raw) (g : Geom) (h : validate ty r = .ok g) :
    ∃ c, decode ty r = some c ∧ GType.of c = ty ∧ r = dump c := by
  obtain ⟨c, h1, h2, _, _⟩ := (C03_result ty r g).1 h
  exact ⟨c, (decode_some ty r c).2 ⟨h1, h2⟩, h1, h2⟩

theorem C03_timestamp_iff (t : Rat) : (∃ g, validate .timeStamp (.num t) = .ok g) ↔ 0 ≤ t :=
  C03_accept_dump_iff (.timeStamp t)

/-- interval: start ≥ 0 and start ≤ end (hence end ≥ 0) -/
theorem C03_interval_iff (s e : Rat) :
    (∃ g, validate .timeInterval (.arr [.num s, .num e]) = .ok g) ↔ 0 ≤ s ∧ 0 ≤ e ∧ s ≤ e :=
  C03_accept_dump_iff (.timeInterval s e)

/-- box: both times ≥ 0, both frequencies in [0, MAX]; *no* order is required of the ends -/
theorem C03_box_iff (s l e h : Rat) :
    (∃ g, validate .boundingBox (.arr [.num s, .num l, .num e, .num h]) = .ok g) ↔
      0 ≤ s ∧ (0 ≤ l ∧ l ≤ MAXF) ∧ 0 ≤ e ∧ (0 ≤ h ∧ h ≤ MAXF) :=
  C03_accept_dump_iff (.boundingBox s l e h)

/-- line string: at least two points, every point in range; no order is required -/
theorem C03_linestring_iff (ps : List Pt) :
    (∃ g, validate .lineString (encPts ps) = .ok g) ↔
      2 ≤ ps.length ∧ ∀ p ∈ ps, 0 ≤ p.1 ∧ (0 ≤ p.2 ∧ p.2 ≤ MAXF) :=
  C03_accept_dump_iff (.lineString ps)

/-- multi-point: at least one point, every point in range -/
theorem C03_multipoint_iff (ps : List Pt) :
    (∃ g, validate .multiPoint (encPts ps) = .ok g) ↔
      1 ≤ ps.length ∧ ∀ p ∈ ps, 0 ≤ p.1 ∧ (0 ≤ p.2 ∧ p.2 ≤ MAXF) :=
  C03_accept_dump_iff (.multiPoint ps)

/-- polygon: at least one ring, at least three points per ring, every point in range -/
theorem C03_polygon_iff (rs : List (List Pt)) :
    (∃ g, validate .polygon (encRings rs) = .ok g) ↔
      1 ≤ rs.length ∧ ∀ ring ∈ rs, 3 ≤ ring.length ∧ ∀ p ∈ ring, 0 ≤ p.1 ∧ (0 ≤ p.2 ∧ p.2 ≤ MAXF) :=
  C03_accept_dump_iff (.polygon rs)

/-- multi-line string: at least one line; each line has at least two points, all in range, and its
    first point is strictly earlier than its last -/
theorem C03_multilinestring_iff (ls : List (List Pt)) :
    (∃ g, validate .multiLineString (encRings ls) = .ok g) ↔
      1 ≤ ls.length ∧ ∀ l ∈ ls, 2 ≤ l.length ∧ (∀ p ∈ l, 0 ≤ p.1 ∧ (0 ≤ p.2 ∧ p.2 ≤ MAXF)) ∧
        ∃ p q, l.head? = some p ∧ l.getLast? = some q ∧ p.1 < q.1 :=
  C03_accept_dump_iff (.multiLineString ls)

/-- multi-polygon: at least one polygon, each with at least one ring of at least three points in
    range -/
theorem C03_multipolygon_iff (ps : List (List (List Pt))) :
    (∃ g, validate .multiPolygon (encPolys ps) = .ok g) ↔
      1 ≤ ps.length ∧ ∀ poly ∈ ps, 1 ≤ poly.length ∧
        ∀ ring ∈ poly, 3 ≤ ring.length ∧ ∀ p ∈ ring, 0 ≤ p.1 ∧ (0 ≤ p.2 ∧ p.2 ≤ MAXF) :=
  C03_accept_dump_iff (.multiPolygon ps)

/-! ## `geom_type()`, the construction of `GEOMETRY_MAPPING`, and the `Geometry` union (review
    additions): the construction path of every model that *holds* a geometry -/

theorem C03_membersOkB_sound (members : List Cls) (h : membersOkB members = true) :
    MembersOk members := membersOkB_sound members h

/-- `{geom.geom_type(): geom for geom in ALL_GEOMETRY_TYPES}` is a well-formed table whenever the
    listed classes are the nine classes (the table obligation shows `membersOkB` of the extracted
    list on every run) -/
theorem C03_buildTable_wellFormed (classes : List Cls) (h : MembersOk classes) :
    WellFormed (buildTable classes) := buildTable_wellFormed classes h

/-- a tagged input can be accepted by at most one member of the union – the class named by the tag –
    so the union's choice among successful members cannot matter -/
theorem C03_union_unique (members : List Cls) (hm : MembersOk members) (c : Cls) (hc : c ∈ members)
    (t : String) (r : Option Raw) (o : Obj)
    (h : classValidate c false (.mapping (some t) r) = .ok o) : c.ty.tag = t ∧ o.1 = t := by
  rw [hm.1 c hc] at h
  cases r with
  | none => rw [classValidate_ideal] at h; cases h
  | some r =>
    rw [member_outcome] at h
    by_cases ht : c.ty.tag = t
    · refine ⟨ht, ?_⟩
      simp only [ht, if_true] at h
      cases hv : validate c.ty r with
      | error e => simp [hv, Except.map] at h
      | ok g => simp [hv, Except.map] at h; rw [← h]
    · simp [ht] at h

/-- A tagged mapping validated against the `Geometry` union gives exactly what `validate` of the
    class named by the tag gives (and a validation error for an unknown tag). -/
theorem C03_union_eq (members : List Cls) (hm : MembersOk members) (t : String) (r : Raw) :
    unionValidate members (.mapping (some t) (some r)) =
      match GType.ofTag t with
      | some ty => (validate ty r).map fun g => (t, g)
      | none => .error .invalid := by
  unfold unionValidate
  cases ht : GType.ofTag t with
  | none =>
    simp only
    have hall : ∀ x ∈ members.map (fun c => classValidate c false (.mapping (some t) (some r))),
        x = (.error .invalid : R Obj) ∨ x = .error .invalid := by
      intro x hx
      obtain ⟨c, hc, rfl⟩ := List.mem_map.1 hx
      rw [hm.1 c hc, member_outcome]
      have : ¬ c.ty.tag = t := fun h => by
        have := (ofTag_some t c.ty).2 h
        rw [ht] at this; cases this
      simp [this]
    rcases pickUnion_spec (.error .invalid) (by simp) _ hall with h | ⟨h, _⟩ <;> exact h
  | some ty =>
    have htag := (ofTag_some t ty).1 ht
    simp only
    have hX : ((validate ty r).map fun g => (t, g) : R Obj) ≠ .error .crash := by
      cases hv : validate ty r with
      | ok g => simp [Except.map]
      | error e => rw [(validate_spec ty r).2 e hv]; simp [Except.map]
    apply pickUnion_of_mem _ hX
    · intro x hx
      obtain ⟨c, hc, rfl⟩ := List.mem_map.1 hx
      rw [hm.1 c hc, member_outcome]
      by_cases h : c.ty.tag = t
      · have : c.ty = ty := tag_inj (h.trans htag.symm)
        left; rw [this]; simp [htag]
      · right; simp [h]
    · refine List.mem_map.2 ⟨⟨ty, ty.tag, ty.tag⟩, hm.2 ty, ?_⟩
      rw [member_outcome]; simp [htag]

/-- the union path agrees with `geometry_validate` in dict mode (hence with all four entry points,
    `C03_entrypoints_agree`): same object or a validation error in both -/
theorem C03_union_agrees (tbl : Table) (hw : WellFormed tbl) (members : List Cls)
    (hm : MembersOk members) (t : String) (r : Raw) :
    unionValidate members (.mapping (some t) (some r)) =
      geometryValidate tbl .dict (.val (.dict (some t) (some r))) := by
  rw [C03_union_eq members hm, C03_geometryValidate_eq tbl hw]
  simp only [view]

/-- without coordinates, from an attribute object, or from a value that is not a mapping, the union
    fails with a validation error (python mode does not read attributes) -/
theorem C03_union_rejects (members : List Cls) (src : Source)
    (h : ∀ t r, src ≠ .mapping t (some r)) : unionValidate members src = .error .invalid := by
  unfold unionValidate
  have hall : ∀ x ∈ members.map (fun c => classValidate c false src),
      x = (.error .invalid : R Obj) ∨ x = .error .invalid := by
    intro x hx
    obtain ⟨c, _, rfl⟩ := List.mem_map.1 hx
    left
    rcases src with ⟨t, _ | r⟩ | ⟨t, r⟩ | _
    · rcases t with _ | s
      · simp [classValidate, classValidate.fields, bad]
      · by_cases hs : s = c.literal <;> simp [classValidate, classValidate.fields, bad, hs]
    · exact absurd rfl (h t r)
    · simp [classValidate, bad]
    · simp [classValidate, bad]
  rcases pickUnion_spec (.error .invalid) (by simp) _ hall with h | ⟨h, _⟩ <;> exact h

/-- every object that comes out of the union path is valid, in normal form and of the class named
    by its tag -/
theorem C03_union_valid (members : List Cls) (hm : MembersOk members) (t : String) (r : Raw)
    (t' : String) (g : Geom) (h : unionValidate members (.mapping (some t) (some r)) = .ok (t', g)) :
    t' = t ∧ g.tag = t ∧ (GType.of g).tag = t ∧ Valid g := by
  have hw := C03_table_wellFormed
  rw [C03_union_agrees table hw members hm] at h
  have h1 := C03_class_of_tag table hw _ _ _ _ h
  rw [C03_geometryValidate_eq table hw] at h
  simp only [view] at h
  cases ht : GType.ofTag t with
  | none => simp [ht] at h
  | some ty =>
    simp only [ht] at h
    cases hv : validate ty r with
    | error e => simp [hv, Except.map] at h
    | ok g' =>
      simp only [hv, Except.map, Except.ok.injEq, Prod.mk.injEq] at h
      obtain ⟨rfl, rfl⟩ := h
      exact ⟨rfl, h1.1, h1.2.1, h1.2.2⟩

/-! ## An existing geometry instance handed to `geometry_validate` (review addition; known finding
    C03-2)

    Full statement (what the property asks of the attributes mode, the instance being an attribute
    object like any other):
      `geometryValidateInstance tbl .attributes (cls, (t, g)) =
         geometryValidate tbl .attributes (.attrs (some t) (some (dump g)))`
    This is FALSE of the code: pydantic hands an instance of the requested class back without looking
    at its fields (`C03_instance_passthrough`), so an instance whose `coordinates` were assigned
    after construction (or that was built with `model_construct`) is "accepted" unvalidated and
    un-normalised (the `example` below).  What holds is the statement restricted to instances that
    are valid (`…_partial`). -/

/-- the code as it is: an instance of the class named by its tag comes back unchanged, whatever its
    coordinates are -/
theorem C03_instance_passthrough (tbl : Table) (hw : WellFormed tbl) (ty : GType) (g : Geom) :
    geometryValidateInstance tbl .attributes (⟨ty, ty.tag, ty.tag⟩, (ty.tag, g)) = .ok (ty.tag, g) := by
  simp [geometryValidateInstance, hw.1 ty, classValidateInstance]

/-- on *valid* instances the pass-through is what re-reading the attributes would give -/
theorem C03_instance_revalidate_partial (tbl : Table) (hw : WellFormed tbl) (ty : GType) (g : Geom)
    (ht : GType.of g = ty) (hv : Valid g) :
    geometryValidateInstance tbl .attributes (⟨ty, ty.tag, ty.tag⟩, (ty.tag, g)) =
      geometryValidate tbl .attributes (.attrs (some ty.tag) (some (dump g))) := by
  rw [C03_instance_passthrough tbl hw]
  have h := (C03_entrypoints_agree tbl hw ty (dump g)).2.2.2.2
  rw [h]
  have : validate ty (dump g) = .ok g :=
    (C03_result _ _ _).2 ⟨g, ht, rfl, hv.1, (normalise_of_valid g hv).symm⟩
  simp [this, Except.map]

/-- an instance is neither JSON text nor a dict -/
theorem C03_instance_wrong_mode (tbl : Table) (inst : Cls × Obj) :
    geometryValidateInstance tbl .json inst = .error .invalid ∧
    geometryValidateInstance tbl .dict inst = .error .invalid := by
  simp [geometryValidateInstance, bad]

/-! ## follow-up: construction paths (class-level entry points, attribute objects of every kind,
    positional / keyword calls) and histories -/

/-- The class-level entry points agree with the constructor: `Cls.model_validate(dict)` and
    `Cls.model_validate_json(text)` (a mapping, `type` present or absent) and
    `Cls.model_validate(obj, from_attributes=True)` (an attribute object, `type` present or absent) all
    return what `validate ty r` returns; without `from_attributes` an attribute object is refused. -/
theorem C03_class_entrypoints_agree (ty : GType) (r : Raw) (fa : Bool) :
    let c : Cls := ⟨ty, ty.tag, ty.tag⟩
    let res : R Obj := (validate ty r).map fun g => (ty.tag, g)
    classValidate c fa (.mapping none (some r)) = res ∧
    classValidate c fa (.mapping (some ty.tag) (some r)) = res ∧
    classValidate c true (.object (some ty.tag) (some r)) = res ∧
    classValidate c true (.object none (some r)) = res ∧
    classValidate c false (.object (some ty.tag) (some r)) = .error .invalid ∧
    classValidate c fa (.mapping none none) = .error .invalid ∧
    classValidate c fa .unusable = .error .invalid := by
  refine ⟨?_, ?_, ?_, ?_, ?_, ?_, ?_⟩ <;> rw [classValidate_ideal] <;> simp

/-- a tag that is not the class's own is refused by the class-level entry points -/
theorem C03_class_foreign_tag (ty : GType) (t : String) (r : Option Raw) (fa : Bool) (h : t ≠ ty.tag) :
    classValidate ⟨ty, ty.tag, ty.tag⟩ fa (.mapping (some t) r) = .error .invalid ∧
    classValidate ⟨ty, ty.tag, ty.tag⟩ fa (.object (some t) r) = .error .invalid := by
  constructor <;> rw [classValidate_ideal] <;> cases r <;> simp [h]

/-- Wherever the two attributes live (instance `__dict__`, class body, property, slot, named-tuple
    field, `__getattr__`): if `getattr` finds the tag of class `ty` and coordinates `r`, the
    attributes mode returns what `validate ty r` returns. -/
theorem C03_attr_lookup (tbl : Table) (hw : WellFormed tbl) (o : AttrObj) (ty : GType) (r : Raw)
    (ht : o.type.get = some ty.tag) (hr : o.coordinates.get = some r) :
    geometryValidate tbl .attributes (.ofAttrObj o) = (validate ty r).map fun g => (ty.tag, g) := by
  unfold PyObj.ofAttrObj
  rw [ht, hr]
  exact (C03_entrypoints_agree tbl hw ty r).2.2.2.2

/-- an attribute `getattr` does not find is a validation error -/
theorem C03_attr_missing (tbl : Table) (hw : WellFormed tbl) (o : AttrObj)
    (h : o.type.get = none ∨ o.coordinates.get = none) :
    geometryValidate tbl .attributes (.ofAttrObj o) = .error .invalid := by
  apply C03_bad_tag_rejected tbl hw
  intro t r hv
  unfold PyObj.ofAttrObj at hv
  rcases h with h | h <;> rw [h] at hv <;> simp [view] at hv

/-- every way of carrying the attributes is read alike: `getattr` finds the tag and the coordinates
    the carrier was made from (the class body loses against an instance attribute, an instance
    `__dict__` entry loses against a property) -/
theorem C03_carrier_get (k : Carrier) (t : String) (r : Raw) :
    (k.make t r).type.get = some t ∧ (k.make t r).coordinates.get = some r := by
  cases k <;> exact ⟨rfl, rfl⟩

/-- hence all carriers give the result of the plain namespace object -/
theorem C03_carriers_agree (tbl : Table) (k : Carrier) (t : String) (r : Raw) :
    geometryValidate tbl .attributes (.ofAttrObj (k.make t r)) =
      geometryValidate tbl .attributes (.attrs (some t) (some r)) := by
  unfold PyObj.ofAttrObj
  rw [(C03_carrier_get k t r).1, (C03_carrier_get k t r).2]

/-- An existing geometry object that came out of a construction (constructor, `model_validate`,
    `model_validate_json`, `model_copy`) carries the normalised coordinates; handed to the attributes
    mode it yields what the mode yields on the original input (pass-through = re-validation here). -/
theorem C03_instance_of_constructed (tbl : Table) (hw : WellFormed tbl) (ty : GType) (r : Raw) (g : Geom)
    (h : validate ty r = .ok g) :
    geometryValidateInstance tbl .attributes (⟨ty, ty.tag, ty.tag⟩, (ty.tag, g)) =
      geometryValidate tbl .attributes (.attrs (some ty.tag) (some r)) := by
  rw [C03_instance_passthrough tbl hw, (C03_entrypoints_agree tbl hw ty r).2.2.2.2, h]
  rfl

/-- the same for the union: a geometry object that came out of a construction, handed to a field
    annotated `Geometry`, is kept – which is what validating its original content would give -/
theorem C03_union_instance_of_constructed (members : List Cls) (hm : MembersOk members) (ty : GType)
    (r : Raw) (g : Geom) (h : validate ty r = .ok g) :
    unionValidateInstance members (⟨ty, ty.tag, ty.tag⟩, (ty.tag, g)) =
      unionValidate members (.mapping (some ty.tag) (some r)) := by
  rw [C03_union_eq members hm, (ofTag_some ty.tag ty).2 rfl]
  have hmem := hm.2 ty
  simp [unionValidateInstance, hmem, h, Except.map]

/-- Calls of `geometry_validate` under any signature that starts `(obj, mode="json", …defaults)`:
    positional, keyword, mixed, keywords in either order and the defaulted mode all run the body on
    the same `(obj, mode)`. -/
theorem C03_call_styles (tbl : Table) (sig : Sig) (hs : gvSigOkB sig = true) (o : PyObj) (m : String) :
    let res := some (geometryValidate tbl (Mode.ofString m) o)
    callGeometryValidate tbl sig [.obj o, .mode m] [] = res ∧
    callGeometryValidate tbl sig [.obj o] [("mode", .mode m)] = res ∧
    callGeometryValidate tbl sig [] [("obj", .obj o), ("mode", .mode m)] = res ∧
    callGeometryValidate tbl sig [] [("mode", .mode m), ("obj", .obj o)] = res ∧
    callGeometryValidate tbl sig [.obj o] [] = some (geometryValidate tbl .json o) ∧
    callGeometryValidate tbl sig [] [("obj", .obj o)] = some (geometryValidate tbl .json o) := by
  match sig, hs with
  | p :: q :: extra, hs =>
    simp only [gvSigOkB, Bool.and_eq_true, beq_iff_eq] at hs
    obtain ⟨⟨rfl, rfl⟩, hx⟩ := hs
    refine ⟨?_, ?_, ?_, ?_, ?_, ?_⟩ <;>
      simp [callGeometryValidate, bindArgs, bindPos, bindKw, bindDefaults, bindDefaults_eq _ hx,
        bindDefaults_filter _ _ hx, List.lookup, List.filter, Mode.ofString]

/-- Constructor calls under any signature with keyword-only `type` (default: the tag) and
    `coordinates`, *in either order*: the order of the keywords and of the declarations is
    irrelevant, an omitted `type` is the default. -/
theorem C03_ctor_keyword_order (ty : GType) (sig : Sig) (hs : ctorSigOkB ty.tag sig = true)
    (t : String) (r : Raw) :
    let c : Cls := ⟨ty, ty.tag, ty.tag⟩
    callConstruct c sig [("type", .type t), ("coordinates", .coordinates r)] = some (construct c (some t) (some r)) ∧
    callConstruct c sig [("coordinates", .coordinates r), ("type", .type t)] = some (construct c (some t) (some r)) ∧
    callConstruct c sig [("coordinates", .coordinates r)] = some (construct c none (some r)) := by
  match sig, hs with
  | p :: q :: extra, hs =>
    simp only [ctorSigOkB, Bool.and_eq_true, Bool.or_eq_true, beq_iff_eq] at hs
    obtain ⟨hpq, hx⟩ := hs
    rcases hpq with ⟨rfl, rfl⟩ | ⟨rfl, rfl⟩ <;>
      (refine ⟨?_, ?_, ?_⟩ <;>
        simp [callConstruct, bindArgs, bindPos, bindKw, bindDefaults, bindDefaults_filter _ _ hx,
          List.lookup, List.filter])

/-- a process with *any* state threaded through the calls, whose step answers each call by the
    stateless model, produces the stateless history whatever the state does -/
theorem C03_history_stateless {σ} (tbl : Table) (members : List Cls) (upd : σ → Call → σ) (s : σ)
    (calls : List Call) :
    runWith (fun s c => (upd s c, c.eval tbl members)) s calls = calls.map (Call.eval tbl members) := by
  induction calls generalizing s with
  | nil => rfl
  | cons c cs ih => simp [runWith, ih]

/-- what a call returns does not depend on what was called before it (nor after it): the answer at
    every step of a history is the base operation's answer on that step's content -/
theorem C03_history_prefix_independent (tbl : Table) (members : List Cls) (pre post : List Call)
    (c : Call) :
    (history tbl members (pre ++ c :: post))[pre.length]? = some (c.eval tbl members) := by
  unfold history
  rw [C03_history_stateless tbl members (fun s _ => s)]
  simp

/-- x, a neighbour y, x again: the two answers for x are the same -/
theorem C03_history_repeat (tbl : Table) (members : List Cls) (x y : Call) :
    history tbl members [x, y, x] = [x.eval tbl members, y.eval tbl members, x.eval tbl members] := by
  unfold history
  rw [C03_history_stateless tbl members (fun s _ => s)]
  rfl

/-! ## Non-vacuity: the statements above are about inputs that exist, on both sides -/

-- accepted, with normalisation
example : validate .boundingBox (.arr [.num 3, .num 5, .num 1, .num 2]) = .ok (.boundingBox 1 2 3 5) := by
  decide +kernel
example : validate .lineString (encPts [(1, 2), (1/2, 7), (0, 5)]) = .ok (.lineString [(0, 5), (1/2, 7), (1, 2)]) := by
  decide +kernel
example : validate .lineString (encPts [(1, 2), (0, 7), (1, 5)]) = .ok (.lineString [(1, 2), (0, 7), (1, 5)]) := by
  decide +kernel
example : validate .multiPolygon (encPolys [[[(0, 0), (1, 0), (1, MAXF)]], [[(2, 0), (3, 0), (3, 1)], [(2, 0), (2, 0), (2, 0)]]])
    = .ok (.multiPolygon [[[(0, 0), (1, 0), (1, MAXF)]], [[(2, 0), (3, 0), (3, 1)], [(2, 0), (2, 0), (2, 0)]]]) := by
  decide +kernel
example : validate .multiLineString (encRings [[(0, 1), (5, 1), (1, 1)]]) = .ok (.multiLineString [[(0, 1), (5, 1), (1, 1)]]) := by
  decide +kernel
-- rejected: boundary, arity, nesting, counts, ordering
example : validate .point (.arr [.num 0, .num (MAXF + 1/1024)]) = .error .invalid := by decide +kernel
example : validate .timeStamp (.num (-1/1024)) = .error .invalid := by decide +kernel
example : validate .timeInterval (.arr [.num 2, .num 1]) = .error .invalid := by decide +kernel
example : validate .timeInterval (.arr [.num 1, .num 1]) = .ok (.timeInterval 1 1) := by decide +kernel
example : validate .multiLineString (encRings [[(1, 1), (5, 1), (1, 1)]]) = .error .invalid := by decide +kernel
example : validate .multiPoint (.arr [.arr [.num 1, .num 2, .num 3]]) = .error .invalid := by decide +kernel
example : validate .multiPoint (.arr [.arr [.num 1]]) = .error .invalid := by decide +kernel
example : validate .multiPoint (.arr []) = .error .invalid := by decide +kernel
example : validate .lineString (encPts [(1, 2)]) = .error .invalid := by decide +kernel
example : validate .polygon (encRings [[(0, 0), (1, 0)]]) = .error .invalid := by decide +kernel
example : validate .polygon (.arr [.arr [.arr [.arr [.num 0, .num 0]]]]) = .error .invalid := by decide +kernel
example : validate .multiPolygon (encPolys [[[(0, 0), (1, 0), (1, 1)]], [[(2, 0), (3, 0), (3, MAXF + 1)]]])
    = .error .invalid := by decide +kernel
-- hypotheses of the theorems with premises are satisfiable
example : ¬ PtOk (0, MAXF + 1) := by unfold PtOk TimeOk FreqOk; decide +kernel
example : PtOk (0, MAXF) ∧ PtOk (0, 0) := by unfold PtOk TimeOk FreqOk; decide +kernel
example : wellFormedB table = true := by decide
example : wellFormedB ((table.drop 1)) = false := by decide
example : wellFormedB (("Point", ⟨.multiPoint, "Point", "Point"⟩) :: table) = false := by decide
-- the entry points on a concrete object; unknown / missing tag; wrong mode for the object
example : geometryValidate table .json (.str (some (.dict (some "BoundingBox") (some (.arr [.num 3, .num 5, .num 1, .num 2])))))
    = .ok ("BoundingBox", .boundingBox 1 2 3 5) := by decide +kernel
example : geometryValidate table .attributes (.attrs (some "BoundingBox") (some (.arr [.num 3, .num 5, .num 1, .num 2])))
    = .ok ("BoundingBox", .boundingBox 1 2 3 5) := by decide +kernel
example : geometryValidate table .other (.attrs (some "BoundingBox") (some (.arr [.num 3, .num 5, .num 1, .num 2])))
    = .error .invalid := by decide +kernel
example : geometryValidate table .dict (.val (.dict (some "Box") (some (.num 1)))) = .error .invalid := by decide +kernel
example : geometryValidate table .dict (.val (.dict none (some (.num 1)))) = .error .invalid := by decide +kernel
example : geometryValidate table .dict (.attrs (some "TimeStamp") (some (.num 1))) = .error .invalid := by decide +kernel
example : geometryValidate table .json (.str none) = .error .invalid := by decide +kernel
example : construct ⟨.timeStamp, "TimeStamp", "TimeStamp"⟩ (some "Point") (some (.num 1)) = .error .invalid := by
  decide +kernel
example : holdsB .boundingBox (.arr [.num 3, .num 5, .num 1, .num 2]) (.ok (.boundingBox 3 5 1 2)) = false := by
  decide +kernel
example : holdsB .timeStamp (.num (-1)) (.ok (.timeStamp (-1))) = false := by decide +kernel

-- review additions: the union path, the table construction, the instance pass-through
example : membersOkB allClasses = true := by decide
example : membersOkB (allClasses.drop 1) = false := by decide
example : membersOkB (⟨.point, "Point", "MultiPoint"⟩ :: allClasses) = false := by decide
example : wellFormedB (buildTable allClasses) = true := by decide
example : unionValidate allClasses (.mapping (some "BoundingBox") (some (.arr [.num 3, .num 5, .num 1, .num 2])))
    = .ok ("BoundingBox", .boundingBox 1 2 3 5) := by decide +kernel
example : unionValidate allClasses (.mapping (some "Box") (some (.num 1))) = .error .invalid := by decide +kernel
example : unionValidate allClasses (.object (some "TimeStamp") (some (.num 1))) = .error .invalid := by decide +kernel
-- known finding C03-2: the instance route and the attribute route differ on an instance whose
-- coordinates were assigned after construction
example : geometryValidateInstance table .attributes
      (⟨.boundingBox, "BoundingBox", "BoundingBox"⟩, ("BoundingBox", .boundingBox 5 0 1 (-1)))
    = .ok ("BoundingBox", .boundingBox 5 0 1 (-1)) := by decide +kernel
example : geometryValidate table .attributes
      (.attrs (some "BoundingBox") (some (dump (.boundingBox 5 0 1 (-1))))) = .error .invalid := by decide +kernel
example : Valid (.boundingBox 1 2 3 5) := by
  unfold Valid Admissible Normal TimeOk FreqOk; decide +kernel
example : validate .multiLineString (encRings [[(0, 1), (1, 1)]]) = .ok (.multiLineString [[(0, 1), (1, 1)]]) := by
  decide +kernel

-- follow-up: attribute lookup, signatures, histories
-- the instance `__dict__` alone (`vars(obj)`) is not what `getattr` sees: class-level tag, property, slot
example : (Carrier.classType.make "Point" (.num 1)).type.inst = none ∧
    (Carrier.classType.make "Point" (.num 1)).type.get = some "Point" := by decide
example : geometryValidate table .attributes (.ofAttrObj (Carrier.property.make "TimeStamp" (.num 1)))
    = .ok ("TimeStamp", .timeStamp 1) := by decide +kernel
example : geometryValidate table .attributes (.ofVars (Carrier.property.make "TimeStamp" (.num 1)))
    = .error .invalid := by decide +kernel
example : geometryValidate table .attributes (.ofAttrObj ((Carrier.shadowed "Point").make "TimeStamp" (.num 1)))
    = .ok ("TimeStamp", .timeStamp 1) := by decide +kernel
example : geometryValidate table .attributes (.ofAttrObj ((Carrier.propShadow "Point").make "TimeStamp" (.num 1)))
    = .ok ("TimeStamp", .timeStamp 1) := by decide +kernel
-- an unset slot is an AttributeError
example : (⟨{ cls := some (.data none) }, { inst := some (.num 1) }⟩ : AttrObj).type.get = none := by decide
example : gvSigOkB [⟨"obj", .posOrKw, none⟩, ⟨"mode", .posOrKw, some "json"⟩] = true := by decide
example : gvSigOkB [⟨"obj", .posOrKw, none⟩, ⟨"mode", .kwOnly, some "json"⟩] = false := by decide
example : gvSigOkB [⟨"obj", .posOrKw, none⟩, ⟨"mode", .posOrKw, some "dict"⟩] = false := by decide
example : gvSigOkB [⟨"mode", .posOrKw, some "json"⟩, ⟨"obj", .posOrKw, none⟩] = false := by decide
example : gvSigOkB [⟨"obj", .posOrKw, none⟩, ⟨"mode", .posOrKw, some "json"⟩, ⟨"strict", .kwOnly, some "False"⟩] = true := by
  decide
-- a keyword-only `mode` makes the positional call a TypeError
example : (callGeometryValidate table [⟨"obj", .posOrKw, none⟩, ⟨"mode", .kwOnly, some "json"⟩]
    [.obj (.str none), .mode "dict"] []).isNone = true := by decide +kernel
example : ctorSigOkB "Point" [⟨"coordinates", .kwOnly, none⟩, ⟨"type", .kwOnly, some "Point"⟩] = true := by decide
example : ctorSigOkB "Point" [⟨"type", .kwOnly, some "MultiPoint"⟩, ⟨"coordinates", .kwOnly, none⟩] = false := by decide
example : history table allClasses
    [.geometryValidate .dict (.val (.dict (some "MultiPoint") (some (.arr [.arr [.num (-1), .num 0]])))),
     .construct ⟨.multiPoint, "MultiPoint", "MultiPoint"⟩ none (some (.arr [.arr [.num 1, .num 0]]))]
    = [.error .invalid, .ok ("MultiPoint", .multiPoint [(1, 0)])] := by decide +kernel

end SE.Proofs.C03
