/- C17 — property theorems (to be written). -/
import SoundeventModel.Basic
namespace SE.Proofs.C17

end SE.Proofs.C17
