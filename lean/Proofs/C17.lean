/-
  C17 — Cropping and extending keep data on its coordinates and hit the requested size.
  Property theorems only (helper lemmas live in Proofs/Lemmas/Axis.lean, Proofs/Lemmas/Extend.lean,
  Proofs/Lemmas/AxisOps.lean).
-/
import SoundeventModel.Axis
import SoundeventModel.AxisOps
import Proofs.Lemmas.Axis
import Proofs.Lemmas.Extend
import Proofs.Lemmas.AxisOps
namespace SE.Proofs.C17
open SE SE.Axis

/-! ## `crop_dim` -/

/-- `crop_dim` keeps exactly the samples (coordinate with its datum, in order) whose coordinate
    lies in the requested interval, closed or open at each end as asked — provided no coordinate
    lies within `eps` of an open end on its inner side (the property's quantifier: steps large
    compared with `eps`).  A missing `start` / `stop` means the axis end, closed. -/
theorem C17_crop_exact {α} (a : Samples α) (start stop : Option Rat) (lc rc : Bool) (eps cs ce : Rat)
    (hmin : listMin (coordsOf a) = some cs) (hmax : listMax (coordsOf a) = some ce) (heps : 0 < eps)
    (hse : start.getD cs ≤ stop.getD ce) (hlo : cs ≤ start.getD cs) (hhi : stop.getD ce ≤ ce)
    (hl : start.isSome → lc = false →
      ∀ c ∈ coordsOf a, ¬ (start.getD cs < c ∧ c < start.getD cs + eps))
    (hr : stop.isSome → rc = false →
      ∀ c ∈ coordsOf a, ¬ (stop.getD ce - eps < c ∧ c < stop.getD ce)) :
    cropDim a start stop lc rc eps =
      .ok (a.filter (fun p => inside (start.getD cs) (stop.getD ce)
              (start.isNone || lc) (stop.isNone || rc) p.1)) := by
  have h1 : ¬ (start.getD cs > stop.getD ce) := by grind
  have h2 : ¬ (start.getD cs < cs ∨ stop.getD ce > ce) := by grind
  simp only [cropDim, hmin, hmax, h1, h2, if_false, selectRange]
  congr 1
  apply List.filter_congr
  intro p hp
  have hc : p.1 ∈ coordsOf a := List.mem_map.mpr ⟨p, hp, rfl⟩
  cases start with
  | none =>
    cases stop with
    | none => simp [inside]
    | some e =>
      cases rc with
      | true => simp [inside]
      | false =>
        have := hr rfl rfl p.1 hc
        simp [inside] at this ⊢
        grind
  | some s =>
    cases stop with
    | none =>
      cases lc with
      | true => simp [inside]
      | false =>
        have := hl rfl rfl p.1 hc
        simp [inside] at this ⊢
        grind
    | some e =>
      cases lc <;> cases rc <;> simp [inside]
      · have h1 := hl rfl rfl p.1 hc
        have h2 := hr rfl rfl p.1 hc
        simp at h1 h2; grind
      · have h1 := hl rfl rfl p.1 hc
        simp at h1; grind
      · have h2 := hr rfl rfl p.1 hc
        simp at h2; grind

/-- what `crop_dim` rejects: a reversed request, a request that leaves the axis range -/
theorem C17_crop_rejects {α} (a : Samples α) (start stop : Option Rat) (lc rc : Bool) (eps cs ce : Rat)
    (hmin : listMin (coordsOf a) = some cs) (hmax : listMax (coordsOf a) = some ce)
    (h : start.getD cs > stop.getD ce ∨ start.getD cs < cs ∨ stop.getD ce > ce) :
    cropDim a start stop lc rc eps = .error .invalid := by
  simp only [cropDim, hmin, hmax]
  by_cases h1 : start.getD cs > stop.getD ce
  · simp [h1]
  · have h2 : start.getD cs < cs ∨ stop.getD ce > ce := by grind
    simp [h1, h2]

/-! ## `extend_dim` -/

/-- On a regular axis `a0, a0 + step, …, a0 + n·step` (step from the attribute or estimated),
    for a request `[s, e]` / `(s, e)` / … that contains the axis, the result's coordinates are one
    contiguous piece of the axis lattice, `kl` points below the old start and `kr` points above
    the old end, and a lattice point beyond an end is included **iff** it lies inside the
    requested interval (closed or open as asked) — provided no lattice point lies within `eps`
    of a requested end without being that end (the property's quantifier: steps large compared
    with `eps`).  Hence the result consists of exactly the lattice points inside the request. -/
theorem C17_extend_lattice {α} (a : Samples α) (attr start stop : Option Rat) (fill : α) (eps : Rat)
    (lc rc : Bool) (a0 step : Rat) (n : Nat) (hreg : coordsOf a = lattice a0 step (n + 1))
    (hs : 0 < step) (heps : 0 < eps) (hstep : dimStep attr (coordsOf a) = .ok (some step))
    (hcl : start.getD a0 ≤ a0) (hcr : a0 + (n : Rat) * step ≤ stop.getD (a0 + (n : Rat) * step))
    (hl : ∀ j : Nat, 1 ≤ j →
      ¬ (if lc then start.getD a0 - eps < a0 - (j : Rat) * step ∧ a0 - (j : Rat) * step < start.getD a0
         else start.getD a0 < a0 - (j : Rat) * step ∧ a0 - (j : Rat) * step ≤ start.getD a0 + eps))
    (hr : ∀ i : Nat, 1 ≤ i →
      ¬ (if rc then stop.getD (a0 + (n : Rat) * step) < a0 + (n : Rat) * step + (i : Rat) * step ∧
              a0 + (n : Rat) * step + (i : Rat) * step < stop.getD (a0 + (n : Rat) * step) + eps
         else stop.getD (a0 + (n : Rat) * step) - eps ≤ a0 + (n : Rat) * step + (i : Rat) * step ∧
              a0 + (n : Rat) * step + (i : Rat) * step < stop.getD (a0 + (n : Rat) * step))) :
    ∃ (kl kr : Nat) (r : Samples α), extendDim a attr start stop fill eps lc rc = .ok r ∧
      coordsOf r = lattice (a0 - (kl : Rat) * step) step (kl + (n + 1) + kr) ∧
      (∀ j : Nat, 1 ≤ j → (j ≤ kl ↔
        (if lc then start.getD a0 ≤ a0 - (j : Rat) * step else start.getD a0 < a0 - (j : Rat) * step))) ∧
      (∀ i : Nat, 1 ≤ i → (i ≤ kr ↔
        (if rc then a0 + (n : Rat) * step + (i : Rat) * step ≤ stop.getD (a0 + (n : Rat) * step)
         else a0 + (n : Rat) * step + (i : Rat) * step < stop.getD (a0 + (n : Rat) * step)))) := by
  have hn0 : (0 : Rat) ≤ (n : Rat) * step := Rat.mul_nonneg (natCast_nonneg n) (Rat.le_of_lt hs)
  have hse : start.getD a0 ≤ stop.getD (a0 + (n : Rat) * step) := by grind
  refine ⟨_, _, _, extendDim_regular a attr start stop fill eps lc rc a0 step n hreg hs hstep hse,
    coordsOf_reindex _ _ _, ?_, ?_⟩
  · intro j hj
    rw [le_leftCount_iff a0 step _ hs j hj]
    have := hl j hj
    cases lc <;> simp at this ⊢ <;> grind
  · intro i hi
    rw [le_rightCount_iff _ step _ hs i hi]
    have := hr i hi
    cases rc <;> simp at this ⊢ <;> grind

/-- every original sample is kept, with its datum at its original coordinate (for any axis with
    unique coordinates, regular or not, whatever the request) -/
theorem C17_extend_keeps {α} (a r : Samples α) (attr start stop : Option Rat) (fill : α) (eps : Rat)
    (lc rc : Bool) (hnd : (coordsOf a).Nodup)
    (h : extendDim a attr start stop fill eps lc rc = .ok r) :
    (∀ p ∈ a, p ∈ r) ∧ ∃ l rr, coordsOf r = l ++ coordsOf a ++ rr := by
  simp only [extendDim] at h
  split at h
  · split at h
    · simp at h
    · split at h
      · simp at h
      · split at h
        · simp at h
        · simp at h
        · rename_i l rr _ _
          cases h
          refine ⟨?_, l, rr, coordsOf_reindex _ _ _⟩
          intro p hp
          simp only [reindex, List.mem_map]
          refine ⟨p.1, ?_, ?_⟩
          · simp; right; left; exact List.mem_map.mpr ⟨p, hp, rfl⟩
          · rw [find_of_mem_nodup (c := p.1) (d := p.2) hnd hp]
  · simp at h

/-- every sample at a coordinate the array did not have holds the fill value -/
theorem C17_extend_fill {α} (a r : Samples α) (attr start stop : Option Rat) (fill : α) (eps : Rat)
    (lc rc : Bool) (h : extendDim a attr start stop fill eps lc rc = .ok r) :
    ∀ p ∈ r, p.1 ∉ coordsOf a → p.2 = fill := by
  simp only [extendDim] at h
  split at h
  · split at h
    · simp at h
    · split at h
      · simp at h
      · split at h
        · simp at h
        · simp at h
        · cases h
          intro p hp hnot
          simp only [reindex, List.mem_map] at hp
          obtain ⟨c, _, rfl⟩ := hp
          simp only at hnot ⊢
          rw [find_none_of_not_mem hnot]
  · simp at h

/-! ## `adjust_dim_width`, `crop_dim_width`, `extend_dim_width` -/

/-- exactly `width` samples for every width ≥ 1, whatever the axis (its step being known from the
    attribute or estimable when samples have to be added) and for each of the three positions -/
theorem C17_width {α} (a : Samples α) (attr : Option Rat) (w : Int) (fill : α) (pos : Pos)
    (hw : 1 ≤ w) (hne : a ≠ [])
    (hstep : a.length < w.toNat → ∃ step, dimStep attr (coordsOf a) = .ok (some step)) :
    ∃ r, adjustWidth a attr w fill (some pos) = .ok r ∧ r.length = w.toNat := by
  have h1 : ¬ w < 1 := by omega
  simp only [adjustWidth, h1, if_false]
  by_cases heq : w.toNat = a.length
  · simp [heq]
  · by_cases hlt : w.toNat < a.length
    · have hge : ¬ w.toNat ≥ a.length := by omega
      have hw0 : w.toNat ≠ 0 := by omega
      simp only [heq, hlt, if_false, if_true, cropWidth, hge]
      cases pos <;> simp [hw0] <;> omega
    · have hgt : a.length < w.toNat := by omega
      obtain ⟨step, hst⟩ := hstep hgt
      obtain ⟨p, ps, rfl⟩ := List.exists_cons_of_ne_nil hne
      have hhead : (coordsOf (p :: ps)).head? = some p.1 := by simp [coordsOf]
      have hlast : ∃ ce, (coordsOf (p :: ps)).getLast? = some ce := by
        refine ⟨(coordsOf (p :: ps)).getLast (by simp [coordsOf]), List.getLast?_eq_some_getLast _⟩
      obtain ⟨ce, hce⟩ := hlast
      have hge : ¬ (p :: ps).length ≥ w.toNat := by omega
      have hl : (p :: ps).length = ps.length + 1 := rfl
      simp only [heq, hlt, if_false, extendWidth, hhead, hce, hst, hge]
      cases pos <;> simp [reindex_length, coordsOf_length] <;> omega

/-- placement on a regular axis: when samples are added, the result is `kl` filled samples, then
    the original samples unchanged, then `extra - kl` filled samples, with `kl = 0`, `extra / 2`,
    `extra` for `start`, `center`, `end`; when cropping, the result is the window of `width`
    consecutive original samples starting at `0`, `n / 2 - width / 2`, `n - width` -/
theorem C17_placement {α} (a : Samples α) (attr : Option Rat) (w : Int) (fill : α) (pos : Pos)
    (a0 step : Rat) (n : Nat) (hreg : coordsOf a = lattice a0 step (n + 1)) (hs : step ≠ 0)
    (hstep : dimStep attr (coordsOf a) = .ok (some step)) (hw : 1 ≤ w) :
    adjustWidth a attr w fill (some pos) = .ok (
      if w.toNat ≤ n + 1 then (a.drop (cropOffset (n + 1) w.toNat pos)).take w.toNat
      else
        (lattice (a0 - (padLeft (w.toNat - (n + 1)) pos : Rat) * step) step
            (padLeft (w.toNat - (n + 1)) pos)).map (fun c => (c, fill))
          ++ a ++
        (lattice (a0 + ((n + 1 : Nat) : Rat) * step) step
            (w.toNat - (n + 1) - padLeft (w.toNat - (n + 1)) pos)).map (fun c => (c, fill))) := by
  have hlen : a.length = n + 1 := by rw [← coordsOf_length, hreg, lattice_length]
  have h1 : ¬ w < 1 := by omega
  simp only [adjustWidth, h1, if_false, hlen]
  by_cases heq : w.toNat = n + 1
  · have : cropOffset (n + 1) (n + 1) pos = 0 := by cases pos <;> simp [cropOffset]
    rw [if_pos heq, if_pos (by omega), heq, this]
    simp [← hlen]
  · by_cases hlt : w.toNat < n + 1
    · have hge : ¬ w.toNat ≥ n + 1 := by omega
      have hw0 : w.toNat ≠ 0 := by omega
      have hle : w.toNat ≤ n + 1 := by omega
      simp only [heq, hlt, hle, if_false, if_true, cropWidth, hge, hlen]
      cases pos <;> simp [cropOffset, hw0]
      rw [List.take_of_length_le]
      simp [hlen]; omega
    · have hgt : ¬ w.toNat ≤ n + 1 := by omega
      have hge : ¬ n + 1 ≥ w.toNat := by omega
      simp only [heq, hlt, hgt, if_false, extendWidth, hstep, hlen]
      rw [hreg, lattice_head?, lattice_getLast?]
      simp only
      have hnd : (coordsOf a).Nodup := by rw [hreg]; exact lattice_nodup _ _ _ hs
      have hend : a0 + (n : Rat) * step + step = a0 + ((n + 1 : Nat) : Rat) * step := by simp; grind
      have hb : ∀ k : Nat, reindex a (lattice (a0 - (k : Rat) * step) step k) fill =
          (lattice (a0 - (k : Rat) * step) step k).map (fun c => (c, fill)) := by
        intro k; apply reindex_disjoint; rw [hreg]; exact before_disjoint a0 step k (n + 1) hs
      have ha : ∀ k : Nat, reindex a (lattice (a0 + (n : Rat) * step + step) step k) fill =
          (lattice (a0 + ((n + 1 : Nat) : Rat) * step) step k).map (fun c => (c, fill)) := by
        intro k; rw [hend]; apply reindex_disjoint; rw [hreg]; exact after_disjoint a0 step k (n + 1) hs
      have hself : reindex a (lattice a0 step (n + 1)) fill = a := by rw [← hreg]; exact reindex_self a fill hnd
      cases pos
      · simp only [padLeft, reindex_append, ha, hself]
        simp [lattice]
      · simp only [padLeft, reindex_append, ha, hb, hself]
      · simp only [padLeft, reindex_append, hb, hself]
        simp [lattice]

/-- a regular axis continues on its own lattice: the result's coordinates are again
    `c0 + i * step`, `i < width`, starting `kl` steps below the old start when extending and at
    the first kept coordinate when cropping -/
theorem C17_regular_axis_continues {α} (a r : Samples α) (attr : Option Rat) (w : Int) (fill : α)
    (pos : Pos) (a0 step : Rat) (n : Nat) (hreg : coordsOf a = lattice a0 step (n + 1)) (hs : step ≠ 0)
    (hstep : dimStep attr (coordsOf a) = .ok (some step)) (hw : 1 ≤ w)
    (h : adjustWidth a attr w fill (some pos) = .ok r) :
    coordsOf r = lattice
      (if w.toNat ≤ n + 1 then a0 + (cropOffset (n + 1) w.toNat pos : Rat) * step
       else a0 - (padLeft (w.toNat - (n + 1)) pos : Rat) * step) step w.toNat := by
  rw [C17_placement a attr w fill pos a0 step n hreg hs hstep hw] at h
  cases h
  by_cases hle : w.toNat ≤ n + 1
  · simp only [hle, if_true, coordsOf_drop_take, hreg, lattice_drop, lattice_take]
    congr 1
    cases pos <;> simp [cropOffset] <;> omega
  · have hpl := padLeft_le (w.toNat - (n + 1)) pos
    simp only [hle, if_false]
    simp only [coordsOf, List.map_append, List.map_map, Function.comp_def, List.map_id']
    have : List.map Prod.fst a = lattice a0 step (n + 1) := hreg
    rw [this]
    have e1 : a0 = a0 - (padLeft (w.toNat - (n + 1)) pos : Rat) * step
        + (padLeft (w.toNat - (n + 1)) pos : Rat) * step := by grind
    have e2 : a0 + ((n + 1 : Nat) : Rat) * step = a0 - (padLeft (w.toNat - (n + 1)) pos : Rat) * step
        + ((padLeft (w.toNat - (n + 1)) pos + (n + 1) : Nat) : Rat) * step := by simp; grind
    conv => lhs; arg 1; arg 2; rw [e1]
    rw [lattice_append, e2, lattice_append]
    congr 1; omega

/-- the step of a regular axis of at least two points is known without the attribute: the
    estimate (mean of the consecutive differences, tolerance check passed) is the axis step, so the
    hypothesis `dimStep attr coords = ok (some step)` of the theorems above holds both with the
    attribute and with the estimate -/
theorem C17_step_known (a0 step : Rat) (k : Nat) (coords : List Rat) :
    dimStep (some step) coords = .ok (some step) ∧
    dimStep none (lattice a0 step (k + 2)) = .ok (some step) :=
  ⟨rfl, dimStep_lattice a0 step k⟩

/-- the pinned tree generated the new coordinates with `arange(end + step, end + step + k * step, step)`
    and `arange(start - step, start - step - k * step, -step)[::-1]`; over the rationals these are
    the lists the repaired code generates by count — the width defect of the pinned tree
    (`width + 1` or `+ 2` samples for steps such as 0.01, 1/3, 0.004) is a binary64 effect only -/
theorem C17_arange_by_count (e step : Rat) (k : Nat) (hs : step ≠ 0) :
    arange (e + step) (e + step + (k : Rat) * step) step = lattice (e + step) step k ∧
    (arange (e - step) (e - step - (k : Rat) * step) (-step)).reverse = lattice (e - (k : Rat) * step) step k := by
  constructor
  · simp only [arange]
    rw [arangeLen_of_whole' (n := k) hs (by grind)]
  · simp only [arange]
    rw [arangeLen_of_whole' (n := k) (by grind) (by grind), lattice_neg_reverse]
    congr 1; grind

/-! ## review additions: the numeric kernels (tied to the source for all inputs), full results -/

/-- `crop_dim` is the label slice between the bounds `cropBounds` computes from `get_dim_range`
    and the request; `cropBounds` is what the symbolic trace of the current source is proved
    equal to on every run (sixteen variants: start / stop given or `None`, closedness flags). -/
theorem C17_crop_bounds {α} (a : Samples α) (start stop : Option Rat) (lc rc : Bool) (eps : Rat) :
    cropDim a start stop lc rc eps =
      match dimRange (coordsOf a) with
      | .error e => .error e
      | .ok (cs, ce) =>
        match cropBounds cs ce start stop lc rc eps with
        | none => .error .invalid
        | some (lo, hi) => .ok (selectRange a lo hi) := by
  cases h1 : listMin (coordsOf a) with
  | none => simp [cropDim, dimRange, h1]
  | some cs =>
    cases h2 : listMax (coordsOf a) with
    | none => simp [cropDim, dimRange, h1, h2]
    | some ce =>
      simp only [cropDim, dimRange, cropBounds, h1, h2]
      by_cases hA : start.getD cs > stop.getD ce
      · simp [hA]
      · by_cases hB : start.getD cs < cs ∨ stop.getD ce > ce
        · simp [hA, hB]
        · simp [hA, hB]
          rfl

/-- `extend_dim` with a known step is the re-indexing onto the coordinates the plan yields:
    `extendPlan` (the `np.arange` calls and their guards) is what the symbolic trace of the current
    source is proved equal to on every run. -/
theorem C17_extend_plan {α} (a : Samples α) (attr start stop : Option Rat) (fill : α) (eps : Rat)
    (lc rc : Bool) (cs ce last step : Rat)
    (hr : dimRange (coordsOf a) = .ok (cs, ce)) (hl : (coordsOf a).getLast? = some last)
    (hstep : dimStep attr (coordsOf a) = .ok (some step)) :
    extendDim a attr start stop fill eps lc rc =
      match extendPlan cs ce last step start stop eps lc rc with
      | none => .error .invalid
      | some p =>
        match planCoords (coordsOf a) p with
        | .error e => .error e
        | .ok cs' => .ok (reindex a cs' fill) := by
  have h1 : listMin (coordsOf a) = some cs ∧ listMax (coordsOf a) = some ce := by
    unfold dimRange at hr
    split at hr
    · rename_i lo hi h1 h2; cases hr; exact ⟨h1, h2⟩
    · simp at hr
  simp only [extendDim, extendPlan, planCoords, h1.1, h1.2, hl, hstep]
  by_cases hA : start.getD cs > stop.getD ce
  · simp [hA]
  · simp only [hA, if_false]
    generalize (if lc then start.getD cs - eps else start.getD cs + eps) = s'
    generalize (if rc then stop.getD ce + eps else stop.getD ce - eps) = e'
    by_cases h0 : step = 0
    · subst h0
      by_cases hL : s' ≤ cs - 0 <;> by_cases hR : e' ≥ ce <;> simp [hL, hR]
    · have h0' : ¬ (-step = 0) := by grind
      by_cases hL : s' ≤ cs - step <;> by_cases hR : e' ≥ ce <;> simp [hL, hR, h0, h0']

/-- the property's `extend_dim` clause in one statement: under the hypotheses of
    `C17_extend_lattice` the **whole result** is `kl` new samples holding the fill value on the
    lattice points below the axis, then the array itself (every sample, whatever it holds — NaN
    included — at its coordinate, in order), then `kr` new filled samples on the lattice points above,
    where a lattice point beyond an end is generated iff it lies inside the requested interval. -/
theorem C17_extend_exact {α} (a : Samples α) (attr start stop : Option Rat) (fill : α) (eps : Rat)
    (lc rc : Bool) (a0 step : Rat) (n : Nat) (hreg : coordsOf a = lattice a0 step (n + 1))
    (hs : 0 < step) (heps : 0 < eps) (hstep : dimStep attr (coordsOf a) = .ok (some step))
    (hcl : start.getD a0 ≤ a0) (hcr : a0 + (n : Rat) * step ≤ stop.getD (a0 + (n : Rat) * step))
    (hl : ∀ j : Nat, 1 ≤ j →
      ¬ (if lc then start.getD a0 - eps < a0 - (j : Rat) * step ∧ a0 - (j : Rat) * step < start.getD a0
         else start.getD a0 < a0 - (j : Rat) * step ∧ a0 - (j : Rat) * step ≤ start.getD a0 + eps))
    (hr : ∀ i : Nat, 1 ≤ i →
      ¬ (if rc then stop.getD (a0 + (n : Rat) * step) < a0 + (n : Rat) * step + (i : Rat) * step ∧
              a0 + (n : Rat) * step + (i : Rat) * step < stop.getD (a0 + (n : Rat) * step) + eps
         else stop.getD (a0 + (n : Rat) * step) - eps ≤ a0 + (n : Rat) * step + (i : Rat) * step ∧
              a0 + (n : Rat) * step + (i : Rat) * step < stop.getD (a0 + (n : Rat) * step))) :
    ∃ (kl kr : Nat), extendDim a attr start stop fill eps lc rc = .ok (
        (lattice (a0 - (kl : Rat) * step) step kl).map (fun c => (c, fill)) ++ a ++
        (lattice (a0 + ((n + 1 : Nat) : Rat) * step) step kr).map (fun c => (c, fill))) ∧
      (∀ j : Nat, 1 ≤ j → (j ≤ kl ↔
        (if lc then start.getD a0 ≤ a0 - (j : Rat) * step else start.getD a0 < a0 - (j : Rat) * step))) ∧
      (∀ i : Nat, 1 ≤ i → (i ≤ kr ↔
        (if rc then a0 + (n : Rat) * step + (i : Rat) * step ≤ stop.getD (a0 + (n : Rat) * step)
         else a0 + (n : Rat) * step + (i : Rat) * step < stop.getD (a0 + (n : Rat) * step)))) := by
  have hn0 : (0 : Rat) ≤ (n : Rat) * step := Rat.mul_nonneg (natCast_nonneg n) (Rat.le_of_lt hs)
  have hse : start.getD a0 ≤ stop.getD (a0 + (n : Rat) * step) := by grind
  have hne : step ≠ 0 := by grind
  refine ⟨leftCount a0 step (if lc then start.getD a0 - eps else start.getD a0 + eps),
    rightCount (a0 + (n : Rat) * step) step
      (if rc then stop.getD (a0 + (n : Rat) * step) + eps else stop.getD (a0 + (n : Rat) * step) - eps),
    ?_, ?_, ?_⟩
  · rw [extendDim_regular a attr start stop fill eps lc rc a0 step n hreg hs hstep hse,
      reindex_extended a fill a0 step n _ _ hreg hne]
  · intro j hj
    rw [le_leftCount_iff a0 step _ hs j hj]
    have := hl j hj
    cases lc <;> simp at this ⊢ <;> grind
  · intro i hi
    rw [le_rightCount_iff _ step _ hs i hi]
    have := hr i hi
    cases rc <;> simp at this ⊢ <;> grind

/-- widening on **any** axis with unique coordinates (regular or not, step from the attribute or
    estimated): every original sample is in the result, a result sample at an original coordinate
    is that original sample (NaN, ±inf, a value equal to the fill value: all kept), a result sample
    at a new coordinate holds the fill value, the original coordinates stay one contiguous block,
    and there are exactly `width` samples -/
theorem C17_width_keeps {α} (a r : Samples α) (attr : Option Rat) (w : Int) (fill : α) (pos : Pos)
    (hnd : (coordsOf a).Nodup) (hw : a.length ≤ w.toNat)
    (h : adjustWidth a attr w fill (some pos) = .ok r) :
    (∀ p ∈ a, p ∈ r) ∧ (∀ p ∈ r, p.1 ∈ coordsOf a → p ∈ a) ∧ (∀ p ∈ r, p.1 ∉ coordsOf a → p.2 = fill) ∧
    (∃ l rr, coordsOf r = l ++ coordsOf a ++ rr) ∧ r.length = w.toNat := by
  have key : ∀ l rr : List Rat, l.length + a.length + rr.length = w.toNat →
      r = reindex a (l ++ coordsOf a ++ rr) fill →
      (∀ p ∈ a, p ∈ r) ∧ (∀ p ∈ r, p.1 ∈ coordsOf a → p ∈ a) ∧ (∀ p ∈ r, p.1 ∉ coordsOf a → p.2 = fill) ∧
      (∃ l rr, coordsOf r = l ++ coordsOf a ++ rr) ∧ r.length = w.toNat := by
    intro l rr hlen hr
    subst hr
    refine ⟨?_, ?_, ?_, ⟨l, rr, coordsOf_reindex _ _ _⟩, ?_⟩
    · intro p hp
      apply mem_reindex_of_mem hnd hp
      simp; right; left; exact List.mem_map.mpr ⟨p, hp, rfl⟩
    · intro p hp hold; exact reindex_old_is_old hnd hp hold
    · intro p hp hnew; exact reindex_new_is_fill hp hnew
    · simp [reindex_length, coordsOf_length]; omega
  simp only [adjustWidth] at h
  split at h
  · simp at h
  · split at h
    · rename_i heq
      cases h
      exact key [] [] (by simp; omega) (by simp [reindex_self a fill hnd])
    · split at h
      · omega
      · rename_i hne hnl
        simp only [extendWidth] at h
        split at h
        · split at h
          · simp at h
          · split at h
            · simp at h
            · split at h
              · simp at h
              · cases pos
                · simp only [Except.ok.injEq] at h
                  refine key [] ?rr1 ?len1 ?eq1
                  case eq1 => exact h.symm
                  case len1 => simp [lattice_length]; omega
                · simp only [Except.ok.injEq] at h
                  refine key ?l2 ?rr2 ?len2 ?eq2
                  case eq2 => exact h.symm
                  case len2 => simp [lattice_length]; omega
                · simp only [Except.ok.injEq] at h
                  refine key ?l3 [] ?len3 ?eq3
                  case eq3 => rw [List.append_nil]; exact h.symm
                  case len3 => simp [lattice_length]; omega
        · simp at h

/-- narrowing on **any** axis (no regularity, no step needed): the result is the window of `width`
    consecutive original samples — coordinates with their data — starting at index `0`,
    `n / 2 - width / 2`, `n - width` for `start`, `center`, `end` -/
theorem C17_crop_window {α} (a : Samples α) (attr : Option Rat) (w : Int) (fill : α) (pos : Pos)
    (hw : 1 ≤ w) (hlt : w.toNat < a.length) :
    adjustWidth a attr w fill (some pos) = .ok ((a.drop (cropOffset a.length w.toNat pos)).take w.toNat) := by
  have h1 : ¬ w < 1 := by omega
  have heq : ¬ w.toNat = a.length := by omega
  have hge : ¬ w.toNat ≥ a.length := by omega
  have hw0 : w.toNat ≠ 0 := by omega
  simp only [adjustWidth, h1, heq, hlt, if_false, if_true, cropWidth, hge]
  cases pos <;> simp [cropOffset, hw0]
  rw [List.take_of_length_le]
  simp; omega

/-- `get_dim_step` with its options: the defaults are `dimStep` (what the operations call); the
    attribute wins over everything; without it and with `estimate_step=False` the call raises;
    with `check_tolerance=False` the mean of the differences is returned unchecked; a regular axis
    passes the check for every non-negative tolerance and yields its step -/
theorem C17_step_options (attr : Option Rat) (coords : List Rat) (rtol atol : Rat) (chk est : Bool) :
    dimStepFull attr coords defaultRtol defaultAtol true true = dimStep attr coords ∧
    (∀ s, dimStepFull (some s) coords rtol atol chk est = .ok (some s)) ∧
    dimStepFull none coords rtol atol chk false = .error .invalid ∧
    (diffs coords ≠ [] → dimStepFull none coords rtol atol false true =
      .ok (some (sumRat (diffs coords) / ((diffs coords).length : Rat)))) ∧
    (∀ a0 step k, 0 ≤ rtol → 0 ≤ atol →
      dimStepFull none (lattice a0 step (k + 2)) rtol atol chk true = .ok (some step)) := by
  refine ⟨?_, ?_, ?_, ?_, ?_⟩
  · cases attr <;> simp [dimStepFull, dimStep]
  · intro s; simp [dimStepFull]
  · simp [dimStepFull]
  · intro hne; simp [dimStepFull, hne]
  · intro a0 s k hrt hat
    have hk : ((k + 1 : Nat) : Rat) ≠ 0 := by simp; grind [natCast_nonneg]
    simp only [dimStepFull, diffs_lattice, sumRat, foldl_add_replicate, List.length_replicate]
    have hmean : (0 + ((k + 1 : Nat) : Rat) * s) / ((k + 1 : Nat) : Rat) = s := by
      rw [Rat.zero_add, Rat.mul_comm, Rat.mul_div_cancel hk]
    rw [hmean]
    have h0 : (s - s).abs = 0 := by simp [Rat.sub_self]
    have hall : (List.replicate (k + 1) s).all
        (fun d => decide ((d - s).abs ≤ atol + rtol * s.abs)) = true := by
      rw [List.all_eq_true]
      intro d hd
      rw [List.eq_of_mem_replicate hd, h0]
      have := Rat.mul_nonneg hrt (Rat.abs_nonneg (x := s))
      simp; grind
    simp [hall]


-- non-vacuity
example : cropDim [((0 : Rat), 1), (1/2, 2), (1, 3), (3/2, 4)] (some (1/2)) (some (3/2)) true false (1/1024)
    = .ok [(1/2, 2), (1, 3)] := by decide +kernel
example : cropDim [((0 : Rat), 1), (1/2, 2), (1, 3)] (some (1/2)) (some 2) true false (1/1024)
    = .error .invalid := by decide +kernel
example : extendDim [((0 : Rat), 1), (1/2, 2)] (some (1/2)) (some (-1)) (some (3/2)) 0 (1/1024) true false
    = .ok [(-1, 0), (-1/2, 0), (0, 1), (1/2, 2), (1, 0)] := by decide +kernel
example : extendDim [((0 : Rat), 1), (1/2, 2)] none (some (-1)) (some (3/2)) 0 (1/1024) false true
    = .ok [(-1/2, 0), (0, 1), (1/2, 2), (1, 0), (3/2, 0)] := by decide +kernel
example : adjustWidth [((0 : Rat), 1), (1/2, 2), (1, 3)] none 6 0 (some .center)
    = .ok [(-1/2, 0), (0, 1), (1/2, 2), (1, 3), (3/2, 0), (2, 0)] := by decide +kernel
example : adjustWidth [((0 : Rat), 1), (1/2, 2), (1, 3), (3/2, 4), (2, 5)] none 2 0 (some .center)
    = .ok [(1/2, 2), (1, 3)] := by decide +kernel
example : adjustWidth [((0 : Rat), 1)] none 0 0 (some .start) = .error .invalid := by decide +kernel
example : dimStep none (lattice (1/4) (3/8) 5) = .ok (some (3/8)) := by decide +kernel

-- cells: a NaN (or an infinity, or a number equal to the fill value) stays where it is
example : adjustWidth [((0 : Rat), [Cell.num 1]), (1, [Cell.nan]), (2, [Cell.num 0])] (some 1) 5 [Cell.num 0] (some .center)
    = .ok [(-1, [.num 0]), (0, [.num 1]), (1, [.nan]), (2, [.num 0]), (3, [.num 0])] := by decide +kernel
example : extendDim [((0 : Rat), [Cell.nan, Cell.posInf]), (1/2, [Cell.num 2, Cell.negInf])] none (some (-1/2)) (some 1)
      [Cell.nan, Cell.nan] (1/1024) true true
    = .ok [(-1/2, [.nan, .nan]), (0, [.nan, .posInf]), (1/2, [.num 2, .negInf]), (1, [.nan, .nan])] := by decide +kernel
example : cropDim [((0 : Rat), Cell.nan), (1, Cell.num 5), (2, Cell.nan)] (some 0) (some 2) false true (1/1024)
    = .ok [(1, .num 5), (2, .nan)] := by decide +kernel
-- kernels
example : cropBounds 0 10 (some 2) (some 7) true false (1/1024) = some (2, 7 - 1/1024) := by decide +kernel
example : cropBounds 0 10 (some 2) (some 11) true false (1/1024) = none := by decide +kernel
example : extendPlan 0 1 1 (1/2) (some (-1)) (some 2) (1/1024) true false
    = some (some (-1/2, -1 - 1/1024, -1/2), some (1, 2 - 1/1024, 1/2)) := by decide +kernel
example : planCoords [0, 1/2, 1] (some (-1/2, -1 - 1/1024, -1/2), some (1, 2 - 1/1024, 1/2))
    = .ok [-1, -1/2, 0, 1/2, 1, 3/2] := by decide +kernel
example : dimStepFull none [0, 1, 3] (1/4) 0 true true = .error .invalid := by decide +kernel
example : dimStepFull none [0, 1, 3] (1/4) 0 false true = .ok (some (3/2)) := by decide +kernel
example : dimStepFull none [0, 1, 3] (1/2) 0 true true = .ok (some (3/2)) := by decide +kernel
example : dimStepFull none [0, 1, 3] (1/2) 0 true false = .error .invalid := by decide +kernel

-- the hypotheses of `C17_extend_exact` / `C17_extend_lattice` are satisfiable (axis 0, 1/2; request [-1, 3/2))
example : ∃ kl kr : Nat,
    extendDim [((0 : Rat), (1 : Int)), (1/2, 2)] none (some (-1)) (some (3/2)) 0 (1/1024) true false = .ok (
        (lattice (0 - (kl : Rat) * (1/2)) (1/2) kl).map (fun c => (c, (0 : Int))) ++ [((0 : Rat), (1 : Int)), (1/2, 2)] ++
        (lattice (0 + ((1 + 1 : Nat) : Rat) * (1/2)) (1/2) kr).map (fun c => (c, (0 : Int)))) := by
  have hlt : ∀ j : Nat, (j : Rat) < 3 → j < 3 := by
    intro j h
    have : (j : Rat) < ((3 : Nat) : Rat) := by simpa using h
    exact Rat.natCast_lt_natCast.mp this
  have hle : ∀ j : Nat, (j : Rat) ≤ 1 → j ≤ 1 := by
    intro j h
    have : (j : Rat) ≤ ((1 : Nat) : Rat) := by simpa using h
    exact Rat.natCast_le_natCast.mp this
  obtain ⟨kl, kr, h, _, _⟩ := C17_extend_exact (α := Int) [((0 : Rat), (1 : Int)), (1/2, 2)] none (some (-1)) (some (3/2)) 0 (1/1024)
    true false 0 (1/2) 1 (by decide +kernel) (by decide +kernel) (by decide +kernel) (by decide +kernel)
    (by decide +kernel) (by decide +kernel)
    (by
      intro j hj h
      simp at h
      have h3 : ¬ (j : Rat) < 3 := by
        intro hj3
        have := hlt j hj3
        have : j = 1 ∨ j = 2 := by omega
        rcases this with rfl | rfl <;> simp at h <;> grind
      grind)
    (by
      intro i hi h
      simp at h
      have h2 : (i : Rat) < 3 := by grind
      have := hlt i h2
      have : i = 1 ∨ i = 2 := by omega
      rcases this with rfl | rfl <;> simp at h <;> grind)
  exact ⟨kl, kr, h⟩

/-! ## histories: every call works on what the previous call returned

  The class "non-empty piece of the lattice `a0 + k * step`, step known" (`OnLattice`) — the
  hypothesis of the single-call theorems — is closed under each operation, so the theorems apply
  to every call of a history with the array as it is at that moment; nothing of the past (such as
  the `start` / `stop` attributes an earlier `extend_dim` wrote) may influence a later call. -/

/-- `extend_dim` keeps the array on its lattice with the step known (for any request that does not
    raise), keeps every sample and fills the new ones; the array does not shrink -/
theorem C17_extend_closed {α} (a r : Samples α) (attr start stop : Option Rat) (fill : α) (eps : Rat)
    (lc rc : Bool) (a0 step : Rat) (hs : 0 < step) (hon : OnLattice a0 step attr a)
    (h : extendDim a attr start stop fill eps lc rc = .ok r) :
    OnLattice a0 step attr r ∧ (∀ p ∈ a, p ∈ r) ∧ (∀ p ∈ r, p.1 ∉ coordsOf a → p.2 = fill) ∧
      a.length ≤ r.length := by
  obtain ⟨k, n, hreg, hstep⟩ := hon
  have hne : step ≠ 0 := by grind
  have hnd : (coordsOf a).Nodup := by rw [hreg]; exact lattice_nodup _ _ _ hne
  have hkeep := (C17_extend_keeps a r attr start stop fill eps lc rc hnd h).1
  have hfill := C17_extend_fill a r attr start stop fill eps lc rc h
  refine ⟨?_, hkeep, hfill, ?_⟩
  · by_cases hse : start.getD (a0 + (k : Rat) * step) ≤ stop.getD (a0 + (k : Rat) * step + (n : Rat) * step)
    · rw [extendDim_regular a attr start stop fill eps lc rc _ step n hreg hs hstep hse] at h
      cases h
      generalize leftCount (a0 + (k : Rat) * step) step _ = kl
      generalize rightCount (a0 + (k : Rat) * step + (n : Rat) * step) step _ = kr
      refine ⟨k - (kl : Int), kl + n + kr, ?_, ?_⟩
      · rw [coordsOf_reindex]
        have e : a0 + (((k - (kl : Int) : Int)) : Rat) * step = a0 + (k : Rat) * step - (kl : Rat) * step := by
          push_cast; grind
        rw [e]; congr 1; omega
      · rw [coordsOf_reindex]
        have e : kl + (n + 1) + kr = (kl + n + kr) + 1 := by omega
        rw [e]
        rw [hreg] at hstep
        refine dimStep_again attr _ _ step n _ hstep ?_
        cases attr with
        | some s => simp
        | none =>
          right
          cases n with
          | zero => simp [dimStep, lattice, diffs] at hstep
          | succ j => omega
    · exfalso
      simp only [extendDim] at h
      rw [hreg] at h
      simp only [listMin_lattice _ step n (Rat.le_of_lt hs), listMax_lattice _ step n (Rat.le_of_lt hs),
        lattice_getLast?] at h
      have : start.getD (a0 + (k : Rat) * step) > stop.getD (a0 + (k : Rat) * step + (n : Rat) * step) := by grind
      simp [this] at h
  · obtain ⟨l, rr, hl⟩ := (C17_extend_keeps a r attr start stop fill eps lc rc hnd h).2
    have := congrArg List.length hl
    simp [coordsOf_length] at this
    omega


/-- `crop_dim` returns a contiguous block of the samples, again on the lattice; the step stays known
    when it is an attribute (and the block is not empty) or the block has at least two samples -/
theorem C17_crop_closed {α} (a r : Samples α) (attr start stop : Option Rat) (eps : Rat) (lc rc : Bool)
    (a0 step : Rat) (hs : 0 < step) (hon : OnLattice a0 step attr a)
    (h : cropDim a start stop lc rc eps = .ok r) (hsize : (attr.isSome ∧ r ≠ []) ∨ 2 ≤ r.length) :
    OnLattice a0 step attr r ∧ ∃ i k, r = (a.drop i).take k := by
  obtain ⟨k, n, hreg, hstep⟩ := hon
  have hsel : ∃ lo hi, r = selectRange a lo hi := by
    simp only [cropDim] at h
    split at h
    · split at h
      · simp at h
      · split at h
        · simp at h
        · exact ⟨_, _, (Except.ok.inj h).symm⟩
    · simp at h
  obtain ⟨lo, hi, rfl⟩ := hsel
  obtain ⟨i, kk, hik, hc⟩ := selectRange_lattice a lo hi _ step (n + 1) (Rat.le_of_lt hs) hreg
  refine ⟨?_, i, kk, hik⟩
  have hlen : (selectRange a lo hi).length = min kk (n + 1 - i) := by
    rw [← coordsOf_length, hc, lattice_length]
  obtain ⟨m, hm⟩ : ∃ m, min kk (n + 1 - i) = m + 1 := by
    refine ⟨min kk (n + 1 - i) - 1, ?_⟩
    have : 1 ≤ (selectRange a lo hi).length := by
      rcases hsize with ⟨_, hne⟩ | h2
      · exact List.length_pos_iff.mpr hne
      · omega
    omega
  refine ⟨k + (i : Int), m, ?_, ?_⟩
  · rw [hc, hm]
    congr 1; push_cast; grind
  · rw [hc, hm]
    rw [hreg] at hstep
    refine dimStep_again attr _ _ step n _ hstep ?_
    rcases hsize with ⟨ha, _⟩ | h2
    · left; exact ha
    · right; omega


/-- `adjust_dim_width` returns exactly `width` samples, again on the lattice with the step known -/
theorem C17_width_closed {α} (a r : Samples α) (attr : Option Rat) (w : Int) (fill : α) (pos : Option Pos)
    (a0 step : Rat) (hs : 0 < step) (hon : OnLattice a0 step attr a)
    (h : adjustWidth a attr w fill pos = .ok r) (hsize : attr.isSome ∨ 2 ≤ r.length) :
    OnLattice a0 step attr r ∧ r.length = w.toNat := by
  obtain ⟨k, n, hreg, hstep⟩ := hon
  have hne : step ≠ 0 := by grind
  have hlen : a.length = n + 1 := by rw [← coordsOf_length, hreg, lattice_length]
  have hw : 1 ≤ w := by
    simp only [adjustWidth] at h
    split at h
    · simp at h
    · omega
  cases pos with
  | none =>
    simp only [adjustWidth, cropWidth, extendWidth] at h
    have h1 : ¬ w < 1 := by omega
    simp only [h1, if_false] at h
    split at h
    · rename_i heq
      cases h
      exact ⟨⟨k, n, hreg, hstep⟩, heq.symm⟩
    · split at h
      · split at h <;> simp at h
      · split at h
        · split at h
          · simp at h
          · split at h
            · simp at h
            · split at h <;> simp at h
        · simp at h
  | some p =>
    have hc := C17_regular_axis_continues a r attr w fill p _ step n hreg hne hstep hw h
    have hl : r.length = w.toNat := by rw [← coordsOf_length, hc, lattice_length]
    refine ⟨?_, hl⟩
    obtain ⟨m, hm⟩ : ∃ m, w.toNat = m + 1 := ⟨w.toNat - 1, by omega⟩
    rw [hm] at hc
    have hd : dimStep attr (coordsOf r) = .ok (some step) := by
      rw [hc]
      rw [hreg] at hstep
      refine dimStep_again attr _ _ step n _ hstep ?_
      rcases hsize with ha | h2
      · left; exact ha
      · right; omega
    by_cases hle : m + 1 ≤ n + 1
    · refine ⟨k + (cropOffset (n + 1) (m + 1) p : Int), m, ?_, hd⟩
      rw [hc]; simp only [hle, if_true]
      congr 1; push_cast; grind
    · refine ⟨k - (padLeft (m + 1 - (n + 1)) p : Int), m, ?_, hd⟩
      rw [hc]; simp only [hle, if_false]
      congr 1; push_cast; grind


/-- one call of a history keeps the array in the class the single-call theorems speak about -/
theorem C17_step_closed {α} (a r : Samples α) (attr : Option Rat) (s : Step α) (a0 step : Rat) (hs : 0 < step)
    (hon : OnLattice a0 step attr a) (h : applyStep attr a s = .ok r)
    (hsize : (attr.isSome ∧ r ≠ []) ∨ 2 ≤ r.length) : OnLattice a0 step attr r := by
  cases s with
  | crop start stop lc rc eps => exact (C17_crop_closed a r attr start stop eps lc rc a0 step hs hon h hsize).1
  | extend start stop fill eps lc rc => exact (C17_extend_closed a r attr start stop fill eps lc rc a0 step hs hon h).1
  | width w fill pos =>
    refine (C17_width_closed a r attr w fill pos a0 step hs hon h ?_).1
    rcases hsize with ⟨ha, _⟩ | h2
    · left; exact ha
    · right; exact h2

/-- **histories** (axis with a `step` attribute): whatever sequence of `crop_dim` / `extend_dim` /
    `adjust_dim_width` calls is applied, each to the result of the previous one, every array a call
    returns is empty or again a non-empty piece of the *same* lattice `a0 + k * step` with its step
    known — so `C17_crop_exact`, `C17_extend_exact`, `C17_width`, `C17_placement` apply to every call of
    the history, with the array as it is at that moment.  (`runChain` feeds call `k` with the model
    result of call `k - 1` by definition.) -/
theorem C17_history_on_lattice {α} (a0 step : Rat) (hs : 0 < step) (steps : List (Step α)) (a : Samples α)
    (hon : a = [] ∨ OnLattice a0 step (some step) a) :
    ∀ r, .ok r ∈ runChain (some step) a steps → r = [] ∨ OnLattice a0 step (some step) r := by
  induction steps generalizing a with
  | nil => intro r hr; simp [runChain] at hr
  | cons s rest ih =>
    intro r hr
    simp only [runChain] at hr
    split at hr
    · simp at hr
    · rename_i r1 h1
      have hP : r1 = [] ∨ OnLattice a0 step (some step) r1 := by
        rcases hon with rfl | hon
        · obtain ⟨e, he⟩ := applyStep_nil (some step) s
          rw [he] at h1; cases h1
        · by_cases hnil : r1 = []
          · left; exact hnil
          · right
            exact C17_step_closed a r1 (some step) s a0 step hs hon h1 (Or.inl ⟨rfl, hnil⟩)
      rcases List.mem_cons.mp hr with heq | hmem
      · cases heq; exact hP
      · exact ih r1 hP r hmem

/-- `extend_dim` after `extend_dim` (each with its own request, fill value and closedness): the
    result is again on the lattice of the original axis with its step known, every original sample
    is still there with its datum, and every other sample holds one of the two fill values -/
theorem C17_extend_twice {α} (a r1 r2 : Samples α) (attr s1 e1 s2 e2 : Option Rat) (f1 f2 : α) (eps1 eps2 : Rat)
    (lc1 rc1 lc2 rc2 : Bool) (a0 step : Rat) (hs : 0 < step) (hon : OnLattice a0 step attr a)
    (h1 : extendDim a attr s1 e1 f1 eps1 lc1 rc1 = .ok r1)
    (h2 : extendDim r1 attr s2 e2 f2 eps2 lc2 rc2 = .ok r2) :
    OnLattice a0 step attr r2 ∧ (∀ p ∈ a, p ∈ r2) ∧
      (∀ p ∈ r2, p.1 ∉ coordsOf a → p.2 = f1 ∨ p.2 = f2) ∧ a.length ≤ r2.length := by
  obtain ⟨hon1, hk1, hf1, hl1⟩ := C17_extend_closed a r1 attr s1 e1 f1 eps1 lc1 rc1 a0 step hs hon h1
  obtain ⟨hon2, hk2, hf2, hl2⟩ := C17_extend_closed r1 r2 attr s2 e2 f2 eps2 lc2 rc2 a0 step hs hon1 h2
  refine ⟨hon2, fun p hp => hk2 p (hk1 p hp), ?_, by omega⟩
  intro p hp hnew
  by_cases hold : p.1 ∈ coordsOf r1
  · left
    obtain ⟨cs, rfl⟩ := extendDim_is_reindex r1 r2 attr s2 e2 f2 eps2 lc2 rc2 h2
    obtain ⟨k, n, hreg, _⟩ := hon1
    have hnd : (coordsOf r1).Nodup := by rw [hreg]; exact lattice_nodup _ _ _ (by grind)
    exact hf1 p (reindex_old_is_old hnd hp hold) hnew
  · right; exact hf2 p hp hold


-- a history evaluated: extend, crop inside the extended axis, extend again (each on the previous result)
example : runChain (some 1) [((0 : Rat), (1 : Int)), (1, 2)]
      [.extend (some (-2)) none 0 (1/1024) true false, .crop (some (-1)) (some 1) true true (1/1024),
       .extend none (some 3) 9 (1/1024) true true]
    = [.ok [(-2, 0), (-1, 0), (0, 1), (1, 2)], .ok [(-1, 0), (0, 1), (1, 2)],
       .ok [(-1, 0), (0, 1), (1, 2), (2, 9), (3, 9)]] := by decide +kernel
example : runChain (some 1) [((0 : Rat), (1 : Int)), (1, 2)]
      [.width 4 0 (some .center), .crop (some 3) (some 5) true true (1/1024), .width 2 0 (some .start)]
    = [.ok [(-1, 0), (0, 1), (1, 2), (2, 0)], .error .invalid] := by decide +kernel
example : OnLattice 0 1 (some 1) [((0 : Rat), (1 : Int)), (1, 2)] := ⟨0, 1, by decide +kernel, by decide +kernel⟩
example : OnLattice (1/4) (1/2) none [((-3/4 : Rat), (1 : Int)), (-1/4, 2), (1/4, 3)] :=
  ⟨-2, 2, by decide +kernel, by decide +kernel⟩

/-! ## positional calls and sessions

  "Closed or open at each end as asked" also holds for a caller who passes the optional arguments
  positionally in the documented order: the order of the parameters is part of the contract.  The
  model's order (`sigCropDim`, …) is compared with the signature of the current source on every
  run (`sigOK model_table extracted`, Tie 1); the theorems below say what that obligation buys. -/

/-- Python's binding, for any signature whose leading parameters are the documented ones: passing
    the first `k` optional arguments positionally (in the documented order) and the others by
    keyword gives, for every `k`, the binding of the all-keyword call — every documented parameter
    receives the value meant for it. -/
theorem C17_positional_binding {β} (doc current : List String) (skip : Nat) (vals : List β) (k : Nat)
    (hsig : sigOK doc current = true) (hskip : skip ≤ doc.length)
    (hlen : vals.length = (doc.drop skip).length) (hk : k ≤ vals.length) :
    bindArgs (current.drop skip) (vals.take k) (((doc.drop skip).zip vals).drop k)
      = some ((doc.drop skip).zip vals) := by
  obtain ⟨t, rfl⟩ : ∃ t, current = doc ++ t := by
    obtain ⟨t, ht⟩ := List.isPrefixOf_iff_prefix.mp hsig
    exact ⟨t, ht.symm⟩
  rw [List.drop_append_of_le_length hskip]
  generalize doc.drop skip = d at *
  have hkd : k ≤ d.length := by omega
  have hlt : (vals.take k).length = k := by simp [List.length_take]; omega
  unfold bindArgs
  rw [hlt]
  have c1 : ¬ (d ++ t).length < k := by simp; omega
  have c2 : (((d.zip vals).drop k).any fun p => !((d ++ t).drop k).contains p.1) = false := by
    rw [List.any_eq_false]
    intro p hp
    rw [List.zip, List.drop_zipWith] at hp
    have := (List.of_mem_zip hp).1
    simp
    rw [List.drop_append_of_le_length hkd]
    exact List.mem_append_left _ this
  rw [if_neg c1, c2]
  simp only [Bool.false_eq_true, if_false]
  rw [zip_take_prefix d t vals k hk hkd, List.take_append_drop]

/-- `crop_dim(arr, dim, start, stop, right_closed, left_closed, eps)`: with any current signature that
    passes the Tie-1 obligation, each way of calling it in the documented order (0 … 5 optional
    arguments positional, the rest by keyword) binds `right_closed` to the fifth and `left_closed` to
    the sixth argument -/
theorem C17_crop_positional {β} (current : List String) (h : sigOK sigCropDim current = true)
    (start stop rc lc eps : β) (k : Nat) (hk : k ≤ 5) :
    bindArgs (current.drop 2) ([start, stop, rc, lc, eps].take k)
        ([("start", start), ("stop", stop), ("right_closed", rc), ("left_closed", lc), ("eps", eps)].drop k)
      = some [("start", start), ("stop", stop), ("right_closed", rc), ("left_closed", lc), ("eps", eps)] :=
  C17_positional_binding sigCropDim current 2 [start, stop, rc, lc, eps] k h (by decide) rfl (by simpa using hk)

/-- `extend_dim(arr, dim, start, stop, fill_value, eps, left_closed, right_closed)` -/
theorem C17_extend_positional {β} (current : List String) (h : sigOK sigExtendDim current = true)
    (start stop fill eps lc rc : β) (k : Nat) (hk : k ≤ 6) :
    bindArgs (current.drop 2) ([start, stop, fill, eps, lc, rc].take k)
        ([("start", start), ("stop", stop), ("fill_value", fill), ("eps", eps), ("left_closed", lc),
          ("right_closed", rc)].drop k)
      = some [("start", start), ("stop", stop), ("fill_value", fill), ("eps", eps), ("left_closed", lc),
          ("right_closed", rc)] :=
  C17_positional_binding sigExtendDim current 2 [start, stop, fill, eps, lc, rc] k h (by decide) rfl
    (by simpa using hk)

/-- `adjust_dim_width` / `extend_dim_width (array, dim, width, fill_value, position)` and
    `crop_dim_width(array, dim, width, position)` -/
theorem C17_width_positional {β} (current : List String) (w fill pos : β) (k : Nat) (hk : k ≤ 3) :
    (sigOK sigAdjustDimWidth current = true ∨ sigOK sigExtendDimWidth current = true →
      bindArgs (current.drop 2) ([w, fill, pos].take k)
          ([("width", w), ("fill_value", fill), ("position", pos)].drop k)
        = some [("width", w), ("fill_value", fill), ("position", pos)]) ∧
    (sigOK sigCropDimWidth current = true → k ≤ 2 →
      bindArgs (current.drop 2) ([w, pos].take k) ([("width", w), ("position", pos)].drop k)
        = some [("width", w), ("position", pos)]) := by
  refine ⟨fun h => ?_, fun h hk2 => ?_⟩
  · have h' : sigOK sigAdjustDimWidth current = true := by
      rcases h with h | h
      · exact h
      · exact h
    exact C17_positional_binding sigAdjustDimWidth current 2 [w, fill, pos] k h' (by decide) rfl (by simpa using hk)
  · exact C17_positional_binding sigCropDimWidth current 2 [w, pos] k h (by decide) rfl (by simpa using hk2)

/-- `get_dim_step(arr, dim, rtol, atol, check_tolerance, estimate_step)` and
    `estimate_dim_step(data, rtol, atol, check_tolerance)` -/
theorem C17_step_positional {β} (current : List String) (rtol atol chk est : β) (k : Nat) :
    (sigOK sigGetDimStep current = true → k ≤ 4 →
      bindArgs (current.drop 2) ([rtol, atol, chk, est].take k)
          ([("rtol", rtol), ("atol", atol), ("check_tolerance", chk), ("estimate_step", est)].drop k)
        = some [("rtol", rtol), ("atol", atol), ("check_tolerance", chk), ("estimate_step", est)]) ∧
    (sigOK sigEstimateDimStep current = true → k ≤ 3 →
      bindArgs (current.drop 1) ([rtol, atol, chk].take k)
          ([("rtol", rtol), ("atol", atol), ("check_tolerance", chk)].drop k)
        = some [("rtol", rtol), ("atol", atol), ("check_tolerance", chk)]) :=
  ⟨fun h hk => C17_positional_binding sigGetDimStep current 2 [rtol, atol, chk, est] k h (by decide) rfl
      (by simpa using hk),
   fun h hk => C17_positional_binding sigEstimateDimStep current 1 [rtol, atol, chk] k h (by decide) rfl
      (by simpa using hk)⟩

-- what is at stake: with the two flags declared in the other order (left_closed, right_closed), the documented
-- call crop_dim(arr, dim, 2, 7, True) - right end closed - closes the *left* end instead, and on the axis 0..9
-- returns [2..6] instead of [2..7]
example : bindArgs ["start", "stop", "left_closed", "right_closed", "eps"] ([2, 7, 1] : List Nat) []
    = some [("start", 2), ("stop", 7), ("left_closed", 1)] := by decide
example : bindArgs (sigCropDim.drop 2) ([2, 7, 1] : List Nat) []
    = some [("start", 2), ("stop", 7), ("right_closed", 1)] := by decide
example : cropDim ((List.range 10).map fun (i : Nat) => ((i : Rat), (i : Int))) (some 2) (some 7) true true (1/1024)
      = .ok ((List.range' 2 6).map fun (i : Nat) => ((i : Rat), (i : Int))) ∧
    cropDim ((List.range 10).map fun (i : Nat) => ((i : Rat), (i : Int))) (some 2) (some 7) true false (1/1024)
      = .ok ((List.range' 2 5).map fun (i : Nat) => ((i : Rat), (i : Int))) := by decide +kernel
-- too many positional arguments / a parameter given twice / an unknown keyword: TypeError
example : bindArgs ["a", "b"] ([1, 2, 3] : List Nat) [] = none := by decide
example : bindArgs ["a", "b"] ([1] : List Nat) [("a", 2)] = none := by decide
example : bindArgs ["a", "b"] ([1] : List Nat) [("c", 2)] = none := by decide
example : sigOK sigCropDim (sigCropDim ++ ["copy"]) = true ∧
    sigOK sigCropDim ["arr", "dim", "start", "stop", "left_closed", "right_closed", "eps"] = false := by decide

/-- a session — consecutive calls in one process — is judged call by call: whatever was called
    before or after, call `k` returns what the operation returns for the array (and step attribute)
    it is given at that moment -/
theorem C17_session_pointwise {α} (pre post : List (Call α)) (c : Call α) :
    (runSession (pre ++ c :: post))[pre.length]? = some (applyStep c.attr c.arr c.step) := by
  simp [runSession]

/-- the same call made again later in a session (after calls with the same array and other
    options, the same axis and other data, …) returns the same result; and the single calls are
    the single-call models -/
theorem C17_session_replay {α} (pre mid post : List (Call α)) (c : Call α) :
    (runSession (pre ++ c :: (mid ++ c :: post)))[pre.length + 1 + mid.length]?
        = (runSession (pre ++ c :: (mid ++ c :: post)))[pre.length]? ∧
    (∀ attr (a : Samples α) start stop lc rc eps,
        applyStep attr a (.crop start stop lc rc eps) = cropDim a start stop lc rc eps) ∧
    (∀ attr (a : Samples α) start stop fill eps lc rc,
        applyStep attr a (.extend start stop fill eps lc rc) = extendDim a attr start stop fill eps lc rc) ∧
    (∀ attr (a : Samples α) w fill pos,
        applyStep attr a (.width w fill pos) = adjustWidth a attr w fill pos) := by
  refine ⟨?_, fun _ _ _ _ _ _ _ => rfl, fun _ _ _ _ _ _ _ _ => rfl, fun _ _ _ _ _ => rfl⟩
  have h1 := C17_session_pointwise pre (mid ++ c :: post) c
  have h2 := C17_session_pointwise (pre ++ c :: mid) post c
  have e : (pre ++ c :: mid) ++ c :: post = pre ++ c :: (mid ++ c :: post) := by simp
  have l : (pre ++ c :: mid).length = pre.length + 1 + mid.length := by simp; omega
  rw [e, l] at h2
  rw [h1, h2]

example : runSession [⟨some 1, [((0 : Rat), (1 : Int)), (1, 2)], .width 3 0 (some .start)⟩,
      ⟨some 1, [((0 : Rat), (5 : Int)), (1, 6)], .width 3 9 (some .end)⟩,
      ⟨some 1, [((0 : Rat), (1 : Int)), (1, 2)], .width 3 0 (some .start)⟩]
    = [.ok [(0, 1), (1, 2), (2, 0)], .ok [(-1, 9), (0, 5), (1, 6)], .ok [(0, 1), (1, 2), (2, 0)]] := by decide +kernel

/-! ## library-produced inputs: a truthful `step` attribute is redundant -/

/-- An array whose coordinates are a regular lattice `a0 + i·step` (at least two points) and whose `step`
    attribute is that very step is treated by `extend_dim`, `extend_dim_width` and `adjust_dim_width` exactly
    like the same array without the attribute (the estimated step is the lattice step, `C17_step_known`).
    This is what lets the check judge arrays that other library functions produced (`create_*_range`,
    `*_dim_from_array`, `set_dim_attrs`, `resize`) by the lattice of their coordinates: as long as the
    attribute they carry is truthful the two readings of "the step known from attributes or estimated"
    coincide; an array on which they differ violates the premise, not the conclusion. -/
theorem C17_truthful_attribute {α} (a : Samples α) (a0 step : Rat) (k : Nat)
    (h : coordsOf a = lattice a0 step (k + 2)) :
    (∀ (start stop : Option Rat) (fill : α) (eps : Rat) (lc rc : Bool),
        extendDim a (some step) start stop fill eps lc rc = extendDim a none start stop fill eps lc rc) ∧
    (∀ (w : Nat) (fill : α) (pos : Option Pos),
        extendWidth a (some step) w fill pos = extendWidth a none w fill pos) ∧
    (∀ (w : Int) (fill : α) (pos : Option Pos),
        adjustWidth a (some step) w fill pos = adjustWidth a none w fill pos) := by
  have h1 : dimStep (some step) (coordsOf a) = dimStep none (coordsOf a) := by
    rw [h]
    exact (C17_step_known a0 step k _).1.trans (C17_step_known a0 step k []).2.symm
  have hw : ∀ (w : Nat) (fill : α) (pos : Option Pos),
      extendWidth a (some step) w fill pos = extendWidth a none w fill pos := by
    intro w fill pos
    simp only [extendWidth, h1]
  refine ⟨?_, hw, ?_⟩
  · intro start stop fill eps lc rc
    simp only [extendDim, h1]
  · intro w fill pos
    simp only [adjustWidth, hw]

-- the hypothesis is satisfiable; an untruthful attribute (the stale step a `resize` could leave) does change the answer;
-- a fractional fill value on whole-number cells is held as it is
example : coordsOf [((0 : Rat), (1 : Int)), (1/2, 2), (1, 3)] = lattice 0 (1/2) 3 := by decide +kernel
example : extendWidth [((0 : Rat), (1 : Int)), (1/2, 2)] (some 1) 3 0 (some .start) = .ok [(0, 1), (1/2, 2), (3/2, 0)] ∧
    extendWidth [((0 : Rat), (1 : Int)), (1/2, 2)] none 3 0 (some .start) = .ok [(0, 1), (1/2, 2), (1, 0)] := by decide +kernel
example : extendWidth [((0 : Rat), Cell.num 1), (1, Cell.num 2)] none 4 (Cell.num (1/2)) (some .center)
    = .ok [(-1, .num (1/2)), (0, .num 1), (1, .num 2), (2, .num (1/2))] := by decide +kernel

end SE.Proofs.C17
