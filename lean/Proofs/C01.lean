/- C01 — property theorems (to be written). -/
import SoundeventModel.Basic
namespace SE.Proofs.C01

end SE.Proofs.C01
