/-
  C01 — the AOEF save/load round trip is lossless, for every collection type, with and without
  an audio directory, and is a fixpoint under repetition.

  All statements are about the executable model `SE.Aoef` (`save`, `load`, `cycles`), which the
  correspondence harness ties to `soundevent.io.aoef`.  `WF c` is the explicit hypothesis
  (coherent sharing, distinct feature labels, distinct member uuids); `wfB` is its executable
  form, evaluated by the harness on every generated input, and `wf_of_wfB` links the two.
-/
import Proofs.Lemmas.AoefRoundtrip
import Proofs.Lemmas.AoefC01Dir
import SoundeventModel.Aoef.File
import SoundeventModel.Aoef.FileSys
import Proofs.Lemmas.AoefFileSys
namespace SE.Proofs.C01
open SE SE.Aoef SE.Paths

deriving instance DecidableEq for Except

/-! ### concrete collections for the non-vacuity examples -/
def exUser : User := { uuid := "u1", name := some "Ann" }
def exTag1 : Tag := ⟨"species", "bat"⟩
def exTag2 : Tag := ⟨"call", "social"⟩
def exDir : PPath := ⟨"/", ["data"]⟩
def exDir2 : PPath := ⟨"/", ["mnt", "audio"]⟩
def exRec : Recording :=
  { uuid := "r1", path := ⟨"/", ["data", "night", "a.wav"]⟩, duration := "1.5", channels := "1",
    samplerate := "44100", time_expansion := "10.0", owners := [exUser],
    features := [⟨"snr", "3.0"⟩], tags := [exTag1] }
def exClip : Clip := { uuid := "c1", recording := exRec, start_time := "0.0", end_time := "1.0" }
def exSE : SoundEvent := { uuid := "s1", geometry := some "box", recording := exRec }
def exNote : Note := { uuid := "n1", message := "check", created_by := some exUser, created_on := "2020" }
def exSEA : SoundEventAnnotation :=
  { uuid := "a1", sound_event := exSE, notes := [exNote], tags := [exTag1], created_by := some exUser,
    created_on := "2020" }
def exCA : ClipAnnotation := { uuid := "ca1", clip := exClip, sound_events := [exSEA], created_on := "2020" }
def exSEP : SoundEventPrediction :=
  { uuid := "p1", sound_event := exSE, score := "0.9", tags := [⟨exTag2, "0.8"⟩] }
def exCP : ClipPrediction :=
  { uuid := "cp1", clip := exClip, sound_events := [exSEP], tags := [⟨exTag1, "0.5"⟩] }
def exMatch : Match :=
  { uuid := "m1", source := some exSEP, target := some exSEA, affinity := "0.7", score := some "0.9",
    metrics := [⟨"iou", "0.7"⟩] }
def exCE : ClipEvaluation :=
  { uuid := "ce1", annotations := exCA, predictions := exCP, «matches» := [exMatch],
    metrics := [⟨"acc", "1.0"⟩], score := some "1.0" }
/-- an evaluation with one clip evaluation: an annotation with a tagged sound-event annotation and
    a note by a user, a sound event on a recording with an owner, a feature and a time expansion,
    a prediction with predicted tags, one match -/
def exEval : Collection :=
  .evaluation { uuid := "e1", created_on := "2020", evaluation_task := "sed",
                clip_evaluations := [exCE], metrics := [⟨"map", "0.5"⟩], score := some "0.5" }

def exSeq : Sequence := { node := { uuid := "q2", sound_events := [exSE] }, ancestors := [{ uuid := "q1" }] }
def exSQA : SequenceAnnotation := { uuid := "qa1", sequence := exSeq, created_on := "2020" }
def exCA2 : ClipAnnotation :=
  { uuid := "ca2", clip := exClip, sound_events := [exSEA], sequences := [exSQA], created_on := "2020" }
def exTask : AnnotationTask :=
  { uuid := "t1", clip := exClip,
    status_badges := [{ state := "completed", owner := some exUser, created_on := "2020" }],
    created_on := "2020" }
/-- an annotation project: a clip annotation with a sequence annotation (a sequence with a
    parent), project tags and a task with a status badge -/
def exProject : Collection :=
  .annotationProject { uuid := "ap1", clip_annotations := [exCA2], created_on := "2020", name := "proj",
                       annotation_tags := [exTag2], tasks := [exTask] }

theorem wfB_exEval : wfB exEval = true := by decide +kernel
theorem wfB_exProject : wfB exProject = true := by decide +kernel
theorem wf_exEval : WF exEval := wf_of_wfB _ wfB_exEval
theorem wf_exProject : WF exProject := wf_of_wfB _ wfB_exProject
theorem inside_exEval : ∀ r ∈ recsOf exEval.trav, inside r.path exDir := by decide +kernel
theorem inside_exProject : ∀ r ∈ recsOf exProject.trav, inside r.path exDir := by decide +kernel

/-! sanity: the model really round-trips them (by evaluation) -/
example : cycles none none 2 exEval = .ok exEval := by decide +kernel
example : cycles none none 2 exProject = .ok exProject := by decide +kernel
example : cycles (some exDir) (some exDir) 2 exEval = .ok exEval := by decide +kernel
example : cycles (some exDir) (some exDir2) 1 exProject
    = .ok (exProject.mapPath (relocated (some exDir) (some exDir2))) := by decide +kernel
/-- the relocation is not trivial: the recording moves to the other directory -/
example : relocated (some exDir) (some exDir2) exRec.path = ⟨"/", ["mnt", "audio", "night", "a.wav"]⟩ := by
  decide +kernel
/-- `WF` matters: two different recordings under one uuid do not survive the round trip -/
example : let c : Collection := .recordingSet
            { uuid := "rs", created_on := "2020",
              recordings := [exRec, { exRec with duration := "2.5" }] }
          wfB c = false ∧ cycles none none 1 c ≠ .ok c := by decide +kernel

/-- the third clause of `WF` (distinct members) is what the code needs for `Evaluation` only: its
    `clip_evaluations` are written from the de-duplicated adapter table, so the same clip evaluation
    listed twice comes back once; the member lists the code writes *as given* (recordings, clip
    annotations, clip predictions, tasks) come back as given.  (The harness checks on every run that
    the real code behaves like the model on such inputs: operation `roundtrip_dup`.) -/
example : let c : Collection := .evaluation
            { uuid := "e1", created_on := "2020", evaluation_task := "sed", clip_evaluations := [exCE, exCE] }
          wfB c = false ∧ cycles none none 1 c
            = .ok (.evaluation { uuid := "e1", created_on := "2020", evaluation_task := "sed",
                                 clip_evaluations := [exCE] }) := by decide +kernel
example : let c : Collection := .recordingSet { uuid := "rs", created_on := "2020", recordings := [exRec, exRec] }
          wfB c = false ∧ cycles none none 2 c = .ok c := by decide +kernel

/-! ### the link between the executable check and the hypothesis -/
theorem C01_wf_of_wfB (c : Collection) (h : wfB c = true) : WF c := wf_of_wfB c h
example : wfB exEval = true := wfB_exEval
/-- and conversely: `wfB` decides `WF` -/
theorem C01_wfB_iff (c : Collection) : wfB c = true ↔ WF c := wfB_iff c

/-! ### the general theorem -/
/-- Loading (under `ld`) what was saved (under `sd`) gives the collection back with every
    recording's path relocated. -/
theorem C01_roundtrip_general (c : Collection) (sd ld : Option PPath) (d : Doc)
    (hwf : WF c) (hs : save c sd = .ok d) :
    load d ld = .ok (c.mapPath (relocated sd ld)) :=
  roundtrip_general c sd ld d hwf hs
example : ∃ d, WF exProject ∧ save exProject (some exDir) = .ok d :=
  ⟨_, wf_exProject, save_of_pathsOK (fun r hr => pathOK_inside (inside_exProject r (recsOf_mem.2 hr)))⟩

/-! ### the property theorems -/
/-- saving without an audio directory never fails -/
theorem C01_save_total : ∀ c : Collection, ∃ d, save c none = .ok d :=
  fun c => ⟨_, save_total c⟩

/-- save then load (no audio directory) is the identity -/
theorem C01_roundtrip (c : Collection) (d : Doc) (hwf : WF c) (hs : save c none = .ok d) :
    load d none = .ok c := by
  rw [roundtrip_general c none none d hwf hs, mapPath_relocated_none]
example : ∃ d, WF exEval ∧ save exEval none = .ok d := ⟨_, wf_exEval, save_total _⟩

/-- with an audio directory that contains every recording: saving succeeds and loading under
    the same directory is the identity -/
theorem C01_roundtrip_dir (c : Collection) (A : PPath) (hwf : WF c)
    (hin : ∀ r ∈ recsOf c.trav, inside r.path A) :
    ∃ d, save c (some A) = .ok d ∧ load d (some A) = .ok c := by
  have hs : save c (some A) = .ok (saveT c (some A)) :=
    save_of_pathsOK (fun r hr => pathOK_inside (hin r (recsOf_mem.2 hr)))
  refine ⟨_, hs, ?_⟩
  rw [roundtrip_general c (some A) (some A) _ hwf hs,
    mapPath_fix (fun r hr => relocated_same (hin r (recsOf_mem.2 hr)))]
example : WF exEval ∧ ∀ r ∈ recsOf exEval.trav, inside r.path exDir := ⟨wf_exEval, inside_exEval⟩

/-- saving under `A` and loading under `B` relocates every recording -/
theorem C01_relocate (c : Collection) (A B : PPath) (d : Doc) (hwf : WF c)
    (hs : save c (some A) = .ok d) :
    load d (some B) = .ok (c.mapPath (relocated (some A) (some B))) :=
  roundtrip_general c (some A) (some B) d hwf hs
example : ∃ d, WF exEval ∧ save exEval (some exDir) = .ok d :=
  ⟨_, wf_exEval, save_of_pathsOK (fun r hr => pathOK_inside (inside_exEval r (recsOf_mem.2 hr)))⟩

/-- the round trip is a fixpoint: any number of save/load cycles gives the collection back -/
theorem C01_fixpoint (c : Collection) (hwf : WF c) : ∀ n, cycles none none n c = .ok c :=
  cycles_fix (save_total c) (C01_roundtrip c _ hwf (save_total c))
example : WF exProject := wf_exProject

theorem C01_fixpoint_dir (c : Collection) (A : PPath) (hwf : WF c)
    (hin : ∀ r ∈ recsOf c.trav, inside r.path A) : ∀ n, cycles (some A) (some A) n c = .ok c := by
  obtain ⟨d, hs, hl⟩ := C01_roundtrip_dir c A hwf hin
  exact cycles_fix hs hl
example : WF exProject ∧ ∀ r ∈ recsOf exProject.trav, inside r.path exDir :=
  ⟨wf_exProject, inside_exProject⟩

/-! ### relative recording paths under a relative audio directory

`inside p A` is `p.root = A.root ∧ A.parts <+: p.parts`: the hypotheses of `C01_roundtrip_dir`,
`C01_relocate` and `C01_fixpoint_dir` are satisfied by relative paths under a relative directory
(both roots `""`) exactly as by absolute ones.  The statements below make that clause of the
quantifier ("with and without an audio directory") explicit and give it concrete witnesses. -/

/-- `exEval` with every recording path made relative: `data/night/a.wav` -/
def exEvalRel : Collection := exEval.mapPath (fun p => ⟨"", p.parts⟩)
/-- the relative audio directory `data` -/
def exRelDir : PPath := ⟨"", ["data"]⟩

theorem wf_exEvalRel : WF exEvalRel := wf_of_wfB _ (by decide +kernel)
theorem inside_exEvalRel : ∀ r ∈ recsOf exEvalRel.trav, inside r.path exRelDir ∧ r.path.root = "" := by
  decide +kernel

/-- relative recording paths, relative audio directory: saved relative to it, loaded back, n cycles -/
theorem C01_roundtrip_dir_relative (c : Collection) (A : PPath) (hwf : WF c) (hA : A.root = "")
    (hin : ∀ r ∈ recsOf c.trav, r.path.root = "" ∧ A.parts <+: r.path.parts) :
    (∃ d, save c (some A) = .ok d ∧ load d (some A) = .ok c) ∧ ∀ n, cycles (some A) (some A) n c = .ok c := by
  have hin' : ∀ r ∈ recsOf c.trav, inside r.path A := fun r hr => ⟨(hin r hr).1.trans hA.symm, (hin r hr).2⟩
  exact ⟨C01_roundtrip_dir c A hwf hin', C01_fixpoint_dir c A hwf hin'⟩
example : WF exEvalRel ∧ exRelDir.root = "" ∧
    ∀ r ∈ recsOf exEvalRel.trav, r.path.root = "" ∧ exRelDir.parts <+: r.path.parts :=
  ⟨wf_exEvalRel, rfl, by decide +kernel⟩
example : cycles (some exRelDir) (some exRelDir) 3 exEvalRel = .ok exEvalRel := by decide +kernel
/-- the directory as a caller may spell it: `./data/`, `data/.`, `data//` are the directory `data` -/
example : parse "./data/" = exRelDir ∧ parse "data/." = exRelDir ∧ parse "data//" = exRelDir
    ∧ parse "data" = exRelDir := by simp only [parse, splitOn_slash]; decide +kernel
example : cycles (some (parse "./data/")) (some (parse "data/.")) 2 exEvalRel = .ok exEvalRel := by
  simp only [parse, splitOn_slash]; decide +kernel
/-- what is stored is the path below the directory, and the loader prepends the directory: a writer
    that left a relative path as it is would come back with the directory twice -/
example : storedPath (some exRelDir) ⟨"", ["data", "night", "a.wav"]⟩ = .ok ⟨"", ["night", "a.wav"]⟩
    ∧ loadedPath (some exRelDir) ⟨"", ["night", "a.wav"]⟩ = ⟨"", ["data", "night", "a.wav"]⟩
    ∧ loadedPath (some exRelDir) ⟨"", ["data", "night", "a.wav"]⟩ = ⟨"", ["data", "data", "night", "a.wav"]⟩ := by
  decide +kernel

/-- the current directory (`"."`, `"./"`, `""`) contains every relative path: a collection whose
    recordings all have relative paths round-trips under it, for every number of cycles -/
theorem C01_fixpoint_dir_dot (c : Collection) (hwf : WF c) (hrel : ∀ r ∈ recsOf c.trav, r.path.root = "") :
    ∀ n, cycles (some (parse ".")) (some (parse ".")) n c = .ok c := by
  have hp : parse "." = ⟨"", []⟩ := by simp only [parse, splitOn_slash]; decide +kernel
  rw [hp]
  exact C01_fixpoint_dir c ⟨"", []⟩ hwf (fun r hr => inside_dot (hrel r hr))
example : parse "." = parse "" ∧ parse "./" = parse "." := by simp only [parse, splitOn_slash]; decide +kernel
example : WF exEvalRel ∧ ∀ r ∈ recsOf exEvalRel.trav, r.path.root = "" :=
  ⟨wf_exEvalRel, fun r hr => (inside_exEvalRel r hr).2⟩

/-- with an audio directory `A` and any number `n ≥ 1` of cycles: a reachable recording outside `A`
    makes the very first save fail (`ValueError`) … -/
theorem C01_cycles_dir_outside (c : Collection) (A : PPath) (r : Recording) (hwf : WF c)
    (hr : r ∈ recsOf c.trav) (hout : ¬ inside r.path A) (n : Nat) :
    cycles (some A) (some A) (n + 1) c = .error .invalid :=
  cycles_succ_of_save_error (save_outside_invalid hwf.recs hr hout) n
example : WF exEval ∧ exRec ∈ recsOf exEval.trav ∧ ¬ inside exRec.path exDir2 :=
  ⟨wf_exEval, by decide +kernel, by decide +kernel⟩
/-- an absolute directory never contains a relative path (and vice versa) -/
example : cycles (some exDir) (some exDir) 1 exEvalRel = .error .invalid
    ∧ cycles (some exRelDir) (some exRelDir) 1 exEval = .error .invalid := by decide +kernel

/-- … so, for every directory (relative or absolute) and every `n ≥ 1`, `n` save/load cycles under
    the directory give the collection back **exactly when** every reachable recording lies inside it -/
theorem C01_fixpoint_dir_iff (c : Collection) (A : PPath) (hwf : WF c) (n : Nat) :
    cycles (some A) (some A) (n + 1) c = .ok c ↔ ∀ r ∈ recsOf c.trav, inside r.path A := by
  constructor
  · intro h r hr
    by_cases hin : inside r.path A
    · exact hin
    · rw [C01_cycles_dir_outside c A r hwf hr hin n] at h
      cases h
  · intro hin
    exact C01_fixpoint_dir c A hwf hin (n + 1)
example : WF exEvalRel := wf_exEvalRel

/-- the document carries the collection's type, and the loaded collection has the document's -/
theorem C01_same_type_save (c : Collection) (sd : Option PPath) (d : Doc) (hs : save c sd = .ok d) :
    d.collection_type = c.typeName := save_typeName hs
example : ∃ d, save exEval (some exDir) = .ok d :=
  ⟨_, save_of_pathsOK (fun r hr => pathOK_inside (inside_exEval r (recsOf_mem.2 hr)))⟩

theorem C01_same_type_load (d : Doc) (ld : Option PPath) (c' : Collection) (hl : load d ld = .ok c') :
    c'.typeName = d.collection_type := load_typeName hl
example : ∃ c', load (saveT exEval none) (some exDir2) = .ok c' :=
  ⟨_, roundtrip_general exEval none (some exDir2) _ wf_exEval (save_total _)⟩

theorem C01_same_type :
    (∀ (c : Collection) (sd : Option PPath) (d : Doc), save c sd = .ok d → d.collection_type = c.typeName)
    ∧ (∀ (d : Doc) (ld : Option PPath) (c' : Collection), load d ld = .ok c' → c'.typeName = d.collection_type) :=
  ⟨C01_same_type_save, C01_same_type_load⟩

/-- a table scanned first-match picks, for every listed class, the class's own adapter, provided
    the table is most-specific-first (instantiated on the ADAPTERS table of the code by a
    regenerated obligation) -/
theorem C01_type_dispatch (order : List String) (sub : String → String → Bool) (c : String)
    (h : MostSpecificFirst order sub = true) (hc : c ∈ order) : firstMatch order sub c = some c :=
  firstMatch_self h hc
example : MostSpecificFirst adapterOrder collectionSub = true ∧ "dataset" ∈ adapterOrder := by decide
/-- on the real table every collection type reaches its own adapter -/
example : ∀ c ∈ adapterOrder, firstMatch adapterOrder collectionSub c = some c := by decide
/-- a table listing `recording_set` before `dataset` sends datasets to the wrong adapter -/
example : MostSpecificFirst ("recording_set" :: adapterOrder.filter (· != "recording_set")) collectionSub = false
    ∧ firstMatch ("recording_set" :: adapterOrder.filter (· != "recording_set")) collectionSub "dataset"
        = some "recording_set" := by decide


/-! ### the file-level gate of `io.load` (format, existence, suffix, requested type, version) -/

/-- `io.load` reaches the document conversion exactly when the file exists, is a `.json` file, the
    format is `aoef` (given or inferred), the version is the supported one and the requested type —
    if any — is the document's type -/
theorem C01_load_gate_iff (r : LoadRequest) :
    loadGate r = .ok () ↔
      (r.format = none ∨ r.format = some "aoef") ∧ r.fileExists = true ∧ r.suffixJson = true ∧
      (r.reqType = none ∨ r.reqType = some r.docType) ∧ r.version = AOEF_VERSION := by
  rcases r with ⟨ex, sj, fmt, rt, ver, dt⟩
  cases ex <;> cases sj <;> rcases fmt with _ | f <;> rcases rt with _ | t <;>
    simp [loadGate, bind, Except.bind, pure, Except.pure] <;>
    (repeat' split) <;> simp_all <;> grind

/-- a missing file is reported as such only when the format is acceptable; everything else is a
    `ValueError` -/
theorem C01_load_gate_not_found (r : LoadRequest) :
    loadGate r = .error .notFound ↔
      r.fileExists = false ∧ ((r.format = none ∧ r.suffixJson = true) ∨ r.format = some "aoef") := by
  rcases r with ⟨ex, sj, fmt, rt, ver, dt⟩
  cases ex <;> cases sj <;> rcases fmt with _ | f <;> rcases rt with _ | t <;>
    simp [loadGate, bind, Except.bind, pure, Except.pure] <;>
    (repeat' split) <;> simp_all

/-- with an explicit `type`, a successfully loaded object has that type -/
theorem C01_load_file_type (r : LoadRequest) (d : Doc) (dir : Option PPath) (c : Collection) (t : String)
    (hd : d.collection_type = r.docType) (ht : r.reqType = some t) (h : loadFile r d dir = .ok c) :
    c.typeName = t := by
  unfold loadFile at h
  cases hg : loadGate r with
  | error e => simp [hg, bind, Except.bind] at h
  | ok u =>
    have hgate := (C01_load_gate_iff r).1 (by cases u; exact hg)
    rcases hgate.2.2.2.1 with h1 | h1
    · rw [ht] at h1; cases h1
    · rw [ht] at h1
      have htd : t = r.docType := by injection h1
      cases hl : loadChecked d dir with
      | error e => simp [hg, hl, bind, Except.bind] at h
      | ok c' =>
        simp [hg, hl, bind, Except.bind, pure, Except.pure] at h
        subst h
        unfold loadChecked at hl
        cases hl2 : load d dir with
        | error e => simp [hl2, bind, Except.bind] at hl
        | ok c2 =>
          simp only [hl2, bind, Except.bind] at hl
          split at hl
          · have : c2 = c' := by simpa [pure, Except.pure] using hl
            subst this
            rw [htd, ← hd]
            exact C01_same_type_load d dir c2 hl2
          · cases hl

/-- `io.save` reaches the document conversion exactly when the format is `aoef`, given or inferred
    from a `.json` suffix; every refusal is a `ValueError` -/
theorem C01_save_gate_iff (r : SaveRequest) :
    (saveGate r = .ok () ↔ (r.format = some "aoef" ∨ (r.format = none ∧ r.suffixJson = true)))
    ∧ (saveGate r ≠ .ok () → saveGate r = .error .invalid) := by
  rcases r with ⟨sj, fmt⟩
  cases sj <;> rcases fmt with _ | f <;>
    simp [saveGate, bind, Except.bind, pure, Except.pure] <;>
    (repeat' split) <;> simp_all

/-- a file that `io.save` accepted is accepted by `io.load` with the same `format` argument exactly
    when it has the `.json` suffix (an explicit `format="aoef"` writes to any name, the loader insists
    on the suffix) and carries the supported version -/
theorem C01_save_load_gate (suffixJson : Bool) (format : Option String) (docType version : String)
    (hs : saveGate ⟨suffixJson, format⟩ = .ok ()) :
    loadGate ⟨true, suffixJson, format, none, version, docType⟩ = .ok () ↔
      suffixJson = true ∧ version = AOEF_VERSION := by
  have h := (C01_save_gate_iff ⟨suffixJson, format⟩).1.1 hs
  rw [C01_load_gate_iff]
  constructor
  · intro h'; exact ⟨h'.2.2.1, h'.2.2.2.2⟩
  · intro h'
    have hf : format = none ∨ format = some "aoef" := by
      rcases h with h | h
      · exact Or.inr h
      · exact Or.inl h.1
    exact ⟨hf, rfl, h'.1, Or.inl rfl, h'.2⟩
example : saveGate ⟨false, some "aoef"⟩ = .ok () ∧ saveGate ⟨false, none⟩ = .error .invalid
    ∧ saveGate ⟨true, some "other"⟩ = .error .invalid ∧ saveGate ⟨true, none⟩ = .ok () := by decide
example : loadGate ⟨true, false, some "aoef", none, "1.1.0", "dataset"⟩ = .error .invalid := by decide

example : loadGate ⟨true, true, none, some "dataset", "1.1.0", "dataset"⟩ = .ok () := by decide
example : loadGate ⟨true, true, none, some "recording_set", "1.1.0", "dataset"⟩ = .error .invalid := by decide
example : loadGate ⟨false, true, some "aoef", none, "1.1.0", "dataset"⟩ = .error .notFound := by decide
example : loadGate ⟨false, false, none, none, "1.1.0", "dataset"⟩ = .error .invalid := by decide

/-! ### histories: the state carried between calls of `io.save` / `io.load` is the file system

`SE.Aoef.FS`: a file system is a map path → content, `save` writes with `write` (which *replaces*),
`load` reads what the path holds now.  The theorems say that nothing a path held before, and nothing
that happened at other paths, can be seen through a save followed by a load. -/
section FileSystem
open SE.Aoef.FS SE.History

/-- writing replaces: what is read back is what was written, **whatever the path held before** -/
theorem C01_fs_write_read (p : String) (x : Content) (fs : FileSys) : FS.read p (write p x fs) = some x := by
  simp [FS.read, write]

/-- writing touches no other path -/
theorem C01_fs_write_frame (p q : String) (x : Content) (fs : FileSys) (h : q ≠ p) :
    FS.read q (write p x fs) = FS.read q fs := by
  simp [FS.read, write, h]

/-- after a successful `save` the file is a function of the saved object only: two file systems
    with arbitrary previous contents agree at the target afterwards; a failed `save` writes nothing -/
theorem C01_fs_save_overwrites (p : String) (c : Collection) (sd : Option PPath) :
    (∀ d, save c sd = .ok d → ∀ fs, FS.read p (exec fs (.save p c sd)).1 = some (.doc d))
    ∧ (∀ e, save c sd = .error e → ∀ fs, (exec fs (.save p c sd)).1 = fs) := by
  constructor
  · intro d hd fs
    simp [exec, execW, hd, FS.read, write]
  · intro e he fs
    simp [exec, execW, he]

/-- **Every history.**  Whatever calls `xs` came first (whatever any path holds: longer or shorter
    documents, other collections, text that is no document at all, nothing), once `c` has been saved
    to `p`, and whatever calls `ys` that do not write to `p` follow (saves to other paths, loads of any
    path), a load of `p` returns `c` (relocated when the load directory differs). -/
theorem C01_fs_load_last_save (fs0 : FileSys) (xs ys : List Cmd) (p : String) (c : Collection)
    (sd ld : Option PPath) (d : Doc) (hwf : WF c) (hs : save c sd = .ok d)
    (hys : ∀ y ∈ ys, y.target ≠ some p) :
    (exec (stateAfter exec fs0 (xs ++ Cmd.save p c sd :: ys)) (.load p ld)).2
      = .loaded (.ok (c.mapPath (relocated sd ld))) := by
  rw [stateAfter_append]
  simp only [stateAfter]
  have h1 : FS.read p (stateAfter exec (exec (stateAfter exec fs0 xs) (Cmd.save p c sd)).1 ys) = some (.doc d) := by
    show stateAfter exec (exec (stateAfter exec fs0 xs) (Cmd.save p c sd)).1 ys p = some (.doc d)
    rw [stateAfter_frame ys _ p hys]
    exact (C01_fs_save_overwrites p c sd).1 d hs _
  generalize stateAfter exec (exec (stateAfter exec fs0 xs) (Cmd.save p c sd)).1 ys = fs at h1
  show (execW write fs (.load p ld)).2 = _
  simp only [execW, h1]
  rw [C01_roundtrip_general c sd ld d hwf hs]

/-- one save followed by one load answers as the pure model does, in **every** file system -/
theorem C01_fs_save_load (fs : FileSys) (x : SaveLoad) : (slStep fs x).2 = slPure x := by
  unfold slStep slStepW slPure
  simp only [execW]
  cases hs : save x.c x.sd with
  | error e => rfl
  | ok d => simp [FS.read, write]

/-- the save/load cycle is history-free: no reachable file system changes its answer -/
theorem C01_fs_history_free (fs0 : FileSys) : HistoryFree slStep fs0 slPure :=
  fun s _ x => C01_fs_save_load s x

/-- a history of save/load cycles — any paths (the same path again and again, alternating
    collections, shrinking and growing documents), any previous content — answers step by step as
    the pure model -/
theorem C01_fs_history (fs0 : FileSys) (xs : List SaveLoad) : runS slStep fs0 xs = runPure slPure xs :=
  (historyFree_iff slStep fs0 slPure).1 (C01_fs_history_free fs0) xs

/-- … and for collections inside the quantifier every step returns the collection saved at that
    step (relocated when the directories differ) -/
theorem C01_fs_history_roundtrip (fs0 : FileSys) (xs : List SaveLoad)
    (h : ∀ x ∈ xs, WF x.c ∧ ∃ d, save x.c x.sd = .ok d) :
    runS slStep fs0 xs = xs.map fun x => .ok (x.c.mapPath (relocated x.sd x.ld)) := by
  rw [C01_fs_history]
  unfold runPure
  apply List.map_congr_left
  intro x hx
  obtain ⟨hwf, d, hd⟩ := h x hx
  simp [slPure, hd, C01_roundtrip_general x.c x.sd x.ld d hwf hd]

/-- without an audio directory: every step of every history returns exactly what was saved -/
theorem C01_fs_history_fixpoint (fs0 : FileSys) (xs : List SaveLoad)
    (h : ∀ x ∈ xs, WF x.c ∧ x.sd = none ∧ x.ld = none) :
    runS slStep fs0 xs = xs.map fun x => .ok x.c := by
  rw [C01_fs_history]
  unfold runPure
  apply List.map_congr_left
  intro x hx
  obtain ⟨hwf, hsd, hld⟩ := h x hx
  obtain ⟨d, hd⟩ := C01_save_total x.c
  simp [slPure, hsd, hld, hd, C01_roundtrip x.c d hwf hd]

/-! non-vacuity: a large collection then a small one on one path, over a path that held text that is
    no document; and a writer that does not truncate is *not* history-free on exactly that history -/
def exSmall : Collection := .recordingSet { uuid := "rs", created_on := "2020", recordings := [exRec] }
def exLarge : Collection :=
  .recordingSet { uuid := "rs", created_on := "2020",
                  recordings := [exRec, { exRec with uuid := "r2" }, { exRec with uuid := "r3" }] }
def exHistory : List SaveLoad :=
  [⟨"a.json", exLarge, none, none⟩, ⟨"a.json", exSmall, none, none⟩, ⟨"a.json", exEval, some exDir, some exDir⟩,
   ⟨"b.json", exSmall, none, none⟩, ⟨"a.json", exLarge, none, none⟩]
def exFs0 : FileSys := write "a.json" (.junk "not a document") FS.empty
def exLen : Content → Nat
  | .doc d => (d.recordings.getD []).length
  | .junk s => s.length

example : wfB exSmall = true ∧ wfB exLarge = true := by decide +kernel
example : runS slStep exFs0 exHistory = exHistory.map fun x => .ok x.c := by decide +kernel
example : runS (slStepW (writeNoTrunc exLen)) FS.empty exHistory ≠ runPure slPure exHistory := by decide +kernel
example : (runS (slStepW (writeNoTrunc exLen)) FS.empty exHistory)[1]? = some (.error .invalid) := by decide +kernel

end FileSystem

end SE.Proofs.C01
