/- C01 — property theorems (in progress). -/
import Proofs.Lemmas.AoefRoundtrip
namespace SE.Proofs.C01

end SE.Proofs.C01
