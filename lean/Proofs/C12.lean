/-
  C12 — Overlap predicates agree with exact interval arithmetic.
  Property theorems only (helper lemmas live in Proofs/Lemmas).
-/
import SoundeventModel.Intervals
import Proofs.Lemmas.Intervals
namespace SE.Proofs.C12
open SE SE.Intervals SE.Proofs.Lemmas.Intervals

/-- symmetric in the two intervals, for every threshold setting (errors included) -/
theorem C12_symm (s1 e1 s2 e2 : Rat) (abs rel : Option Rat) :
    intervalsOverlap s1 e1 s2 e2 abs rel = intervalsOverlap s2 e2 s1 e1 abs rel := by
  unfold intervalsOverlap threshold thrOverlap
  rcases abs with _ | a <;> rcases rel with _ | r <;> simp <;> grind

/-- the result is `intersection length ≥ threshold`, the threshold being 0, the absolute
    minimum, or the relative minimum times the shorter interval -/
theorem C12_iff (s1 e1 s2 e2 : Rat) (abs rel : Option Rat) (b : Bool) :
    intervalsOverlap s1 e1 s2 e2 abs rel = some b ↔
      ((abs = none ∧ rel = none ∧ b = decide (min e1 e2 - max s1 s2 ≥ 0)) ∨
       (∃ a, abs = some a ∧ rel = none ∧ b = decide (min e1 e2 - max s1 s2 ≥ a)) ∨
       (∃ r, abs = none ∧ rel = some r ∧ 0 ≤ r ∧ r ≤ 1 ∧
          b = decide (min e1 e2 - max s1 s2 ≥ r * min (e1 - s1) (e2 - s2)))) := by
  unfold intervalsOverlap threshold thrOverlap
  cases abs with
  | none =>
    cases rel with
    | none => simp; grind
    | some r => by_cases h : r < 0 ∨ 1 < r <;> simp [h] <;> grind
  | some a =>
    cases rel with
    | none => simp; grind
    | some r => simp

/-- set-theoretic reading of the default: proper intervals overlap iff they share a point -/
theorem C12_default_iff_common_point (s1 e1 s2 e2 : Rat) (h1 : s1 ≤ e1) (h2 : s2 ≤ e2) :
    intervalsOverlap s1 e1 s2 e2 none none = some true ↔
      ∃ x, s1 ≤ x ∧ x ≤ e1 ∧ s2 ≤ x ∧ x ≤ e2 := by
  unfold intervalsOverlap threshold thrOverlap
  simp
  constructor
  · intro h; exact ⟨max s1 s2, by grind⟩
  · rintro ⟨x, hx⟩; grind

/-- set-theoretic reading of an absolute threshold `a ≥ 0`: a common sub-interval of length `a` -/
theorem C12_abs_iff_common_subinterval (s1 e1 s2 e2 a : Rat) :
    intervalsOverlap s1 e1 s2 e2 (some a) none = some true ↔
      ∃ x, s1 ≤ x ∧ s2 ≤ x ∧ x + a ≤ e1 ∧ x + a ≤ e2 := by
  unfold intervalsOverlap threshold thrOverlap
  simp
  constructor
  · intro h; exact ⟨max s1 s2, by grind⟩
  · rintro ⟨x, hx⟩; grind

theorem C12_monotone_abs (s1 e1 s2 e2 a a' : Rat) (h : a ≤ a')
    (hov : intervalsOverlap s1 e1 s2 e2 (some a') none = some true) :
    intervalsOverlap s1 e1 s2 e2 (some a) none = some true := by
  unfold intervalsOverlap threshold thrOverlap at *
  simp at *
  grind

theorem C12_monotone_rel (s1 e1 s2 e2 r r' : Rat) (h1 : s1 ≤ e1) (h2 : s2 ≤ e2)
    (h0 : 0 ≤ r) (h : r ≤ r') (h1' : r' ≤ 1)
    (hov : intervalsOverlap s1 e1 s2 e2 none (some r') = some true) :
    intervalsOverlap s1 e1 s2 e2 none (some r) = some true := by
  unfold intervalsOverlap threshold thrOverlap at *
  have hw : 0 ≤ min (e1 - s1) (e2 - s2) := by grind
  have hr : ¬ (r < 0 ∨ r > 1) := by grind
  have hr' : ¬ (r' < 0 ∨ r' > 1) := by grind
  simp [hr, hr'] at *
  have : r * min (e1 - s1) (e2 - s2) ≤ r' * min (e1 - s1) (e2 - s2) :=
    Rat.mul_le_mul_of_nonneg_right h hw
  grind

/-- rejected exactly when both thresholds are given or the relative one is outside [0,1] -/
theorem C12_rejects (s1 e1 s2 e2 : Rat) (abs rel : Option Rat) :
    intervalsOverlap s1 e1 s2 e2 abs rel = none ↔
      ((abs.isSome ∧ rel.isSome) ∨ (abs = none ∧ ∃ r, rel = some r ∧ (r < 0 ∨ r > 1))) := by
  unfold intervalsOverlap threshold
  rcases abs with _ | a <;> rcases rel with _ | r <;> simp
  by_cases h : r < 0 ∨ 1 < r <;> simp [h] <;> grind

/-- temporal / frequency overlap are the interval predicate on the time / frequency extents -/
theorem C12_geometry_delegation (b1 b2 : Bounds) (abs rel : Option Rat) :
    temporalOverlap b1 b2 abs rel = intervalsOverlap b1.st b1.en b2.st b2.en abs rel ∧
    frequencyOverlap b1 b2 abs rel = intervalsOverlap b1.lo b1.hi b2.lo b2.hi abs rel :=
  ⟨rfl, rfl⟩

theorem C12_in_clip_iff (b : Bounds) (cs ce m : Rat) (v : Bool) :
    isInClip b cs ce m = some v ↔ (0 ≤ m ∧ v = decide (b.en > cs + m ∧ b.st < ce - m)) := by
  unfold isInClip
  by_cases hm : m < 0
  · simp [hm]; grind
  · by_cases h : b.en ≤ cs + m ∨ b.st ≥ ce - m <;> simp [hm, h] <;> grind

theorem C12_negative_minimum_rejected (b : Bounds) (cs ce m : Rat) (h : m < 0) :
    isInClip b cs ce m = none := by
  unfold isInClip; simp [h]

/-- an event of non-zero duration lying wholly inside the clip is in -/
theorem C12_inside_is_in (b : Bounds) (cs ce : Rat)
    (h1 : cs ≤ b.st) (h2 : b.st < b.en) (h3 : b.en ≤ ce) : isInClip b cs ce 0 = some true := by
  rw [C12_in_clip_iff]; grind

/-- a time stamp strictly inside the clip is in -/
theorem C12_timestamp_inside_is_in (b : Bounds) (cs ce : Rat)
    (h0 : b.st = b.en) (h1 : cs < b.st) (h3 : b.en < ce) : isInClip b cs ce 0 = some true := by
  rw [C12_in_clip_iff]; grind

/-- an event merely touching an edge of the clip is out -/
theorem C12_touching_is_out (b : Bounds) (cs ce : Rat) (h : b.en = cs ∨ b.st = ce) :
    isInClip b cs ce 0 = some false := by
  rw [C12_in_clip_iff]; grind

/-! ## Review R-C12: readings of the threshold, geometry level, is_in_clip as an overlap, floats -/

/-- the default is the zero threshold in either mode -/
theorem C12_default_is_zero_threshold (s1 e1 s2 e2 : Rat) :
    intervalsOverlap s1 e1 s2 e2 none none = intervalsOverlap s1 e1 s2 e2 (some 0) none ∧
    intervalsOverlap s1 e1 s2 e2 none none = intervalsOverlap s1 e1 s2 e2 none (some 0) := by
  unfold intervalsOverlap threshold thrOverlap
  have h1 : ¬ ((1 : Rat) < 0) := by decide +kernel
  simp [h1]

/-- "length of the intersection" read as a measure (`interLen`, 0 for disjoint intervals): for a
    positive threshold the predicate is `measure ≥ threshold`, whatever the intervals -/
theorem C12_iff_measure (s1 e1 s2 e2 a : Rat) (ha : 0 < a) :
    intervalsOverlap s1 e1 s2 e2 (some a) none = some (decide (interLen s1 e1 s2 e2 ≥ a)) := by
  unfold intervalsOverlap threshold thrOverlap interLen
  simp
  grind

/-- a *negative* absolute threshold is not rejected: it is a gap tolerance — proper intervals
    "overlap" iff some point of the one is within `-a` of some point of the other -/
theorem C12_negative_abs_is_gap_tolerance (s1 e1 s2 e2 a : Rat) (h1 : s1 ≤ e1) (h2 : s2 ≤ e2)
    (ha : a ≤ 0) :
    intervalsOverlap s1 e1 s2 e2 (some a) none = some true ↔
      ∃ x y, s1 ≤ x ∧ x ≤ e1 ∧ s2 ≤ y ∧ y ≤ e2 ∧ x - y ≤ -a ∧ y - x ≤ -a := by
  unfold intervalsOverlap threshold thrOverlap
  simp only [Option.map_some, Option.some.injEq, decide_eq_true_eq]
  constructor
  · intro h
    by_cases hov : max s1 s2 ≤ min e1 e2
    · exact ⟨max s1 s2, max s1 s2, by grind⟩
    · by_cases hlt : e1 < s2
      · exact ⟨e1, s2, by grind⟩
      · exact ⟨s1, e2, by grind⟩
  · rintro ⟨x, y, hx⟩; grind

/-- relative threshold 1: one interval contains the other (end-point-wise; no properness needed) -/
theorem C12_rel_one_iff_containment (s1 e1 s2 e2 : Rat) :
    intervalsOverlap s1 e1 s2 e2 none (some 1) = some true ↔
      ((s2 ≤ s1 ∧ e1 ≤ e2) ∨ (s1 ≤ s2 ∧ e2 ≤ e1)) := by
  unfold intervalsOverlap threshold thrOverlap
  simp
  grind

/-- `C12_monotone_rel` needs proper intervals: with a reversed interval the relative threshold
    is negative and a *smaller* fraction is harder to meet -/
theorem C12_monotone_rel_needs_proper :
    intervalsOverlap 2 0 0 3 none (some 1) = some true ∧
    intervalsOverlap 2 0 0 3 none (some 0) = some false := by decide +kernel

/-- symmetric on the geometry level, errors and undefined bounds included -/
theorem C12_geometry_symm (g1 g2 : Geom) (abs rel : Option Rat) :
    haveTemporalOverlap g1 g2 abs rel = haveTemporalOverlap g2 g1 abs rel ∧
    haveFrequencyOverlap g1 g2 abs rel = haveFrequencyOverlap g2 g1 abs rel := by
  unfold haveTemporalOverlap haveFrequencyOverlap temporalOverlap frequencyOverlap
  cases g1.bounds <;> cases g2.bounds <;> simp [C12_symm]

/-- **delegation at full strength**: on geometries, temporal (frequency) overlap is the interval
    predicate on `[least time, greatest time]` (`[least, greatest frequency]`) of the coordinates
    `compute_bounds` ranges over, and is defined exactly when both geometries have a vertex -/
theorem C12_geometry_extents (g1 g2 : Geom) (abs rel : Option Rat) (r : Option Bool) :
    (haveTemporalOverlap g1 g2 abs rel = some r ↔
      ∃ s1 e1 s2 e2, listMin (times g1) = some s1 ∧ listMax (times g1) = some e1 ∧
        listMin (times g2) = some s2 ∧ listMax (times g2) = some e2 ∧
        r = intervalsOverlap s1 e1 s2 e2 abs rel) ∧
    (haveFrequencyOverlap g1 g2 abs rel = some r ↔
      ∃ l1 h1 l2 h2, listMin (freqs g1) = some l1 ∧ listMax (freqs g1) = some h1 ∧
        listMin (freqs g2) = some l2 ∧ listMax (freqs g2) = some h2 ∧
        r = intervalsOverlap l1 h1 l2 h2 abs rel) := by
  unfold haveTemporalOverlap haveFrequencyOverlap temporalOverlap frequencyOverlap
  have none_of (g : Geom) (h : g.bounds = none) : listMin (times g) = none ∧ listMin (freqs g) = none := by
    have : g.boundPts = [] := (SE.Proofs.Lemmas.Bounds.ptsBounds_eq_none _).mp h
    simp [times, freqs, this, listMin]
  cases hb1 : g1.bounds with
  | none => simp [(none_of g1 hb1).1, (none_of g1 hb1).2]
  | some b1 =>
    cases hb2 : g2.bounds with
    | none => simp [(none_of g2 hb2).1, (none_of g2 hb2).2]
    | some b2 =>
      obtain ⟨a1, a2, a3, a4⟩ := (bounds_eq_some_iff g1 b1).mp hb1
      obtain ⟨c1, c2, c3, c4⟩ := (bounds_eq_some_iff g2 b2).mp hb2
      simp only [a1, a2, a3, a4, c1, c2, c3, c4, Option.some.injEq]
      constructor <;> constructor
      · intro h; exact ⟨_, _, _, _, rfl, rfl, rfl, rfl, h.symm⟩
      · rintro ⟨_, _, _, _, rfl, rfl, rfl, rfl, h⟩; exact h.symm
      · intro h; exact ⟨_, _, _, _, rfl, rfl, rfl, rfl, h.symm⟩
      · rintro ⟨_, _, _, _, rfl, rfl, rfl, rfl, h⟩; exact h.symm

/-- defined for every geometry with a vertex (every validated geometry) -/
theorem C12_geometry_defined (g1 g2 : Geom) (abs rel : Option Rat) :
    (haveTemporalOverlap g1 g2 abs rel).isSome ↔ (g1.boundPts ≠ [] ∧ g2.boundPts ≠ []) := by
  rw [← bounds_isSome_iff, ← bounds_isSome_iff]
  unfold haveTemporalOverlap
  cases g1.bounds <;> cases g2.bounds <;> simp

/-- the extents of the closed-form types: a time stamp is `[t, t] × [0, MAXF]`, an interval
    `[s, e] × [0, MAXF]`, a point `[t, t] × [f, f]`, a box `[s, e] × [l, h]` -/
theorem C12_extent_table (t f s e l h : Rat) (hse : s ≤ e) (hlh : l ≤ h) :
    (Geom.timeStamp t).bounds = some ⟨t, 0, t, MAXF⟩ ∧
    (Geom.timeInterval s e).bounds = some ⟨s, 0, e, MAXF⟩ ∧
    (Geom.point t f).bounds = some ⟨t, f, t, f⟩ ∧
    (Geom.boundingBox s l e h).bounds = some ⟨s, l, e, h⟩ := by
  have hM : (0 : Rat) ≤ MAXF := by decide +kernel
  refine ⟨?_, ?_, ?_, ?_⟩ <;>
    simp only [Geom.bounds, Geom.boundPts, ptsBounds, List.foldl, Option.some.injEq, Bounds.mk.injEq] <;>
    grind

/-- a time stamp and an interval overlap in time (default threshold) iff the stamp lies in the
    closed interval; two time stamps iff they are equal -/
theorem C12_timestamp_overlap (t t' s e : Rat) (hse : s ≤ e) :
    (haveTemporalOverlap (.timeStamp t) (.timeInterval s e) none none = some (some true) ↔ (s ≤ t ∧ t ≤ e)) ∧
    (haveTemporalOverlap (.timeStamp t) (.timeStamp t') none none = some (some true) ↔ t = t') := by
  obtain ⟨h1, h2, _, _⟩ := C12_extent_table t 0 s e 0 0 hse (Rat.le_refl)
  obtain ⟨h1', _, _, _⟩ := C12_extent_table t' 0 s e 0 0 hse (Rat.le_refl)
  unfold haveTemporalOverlap temporalOverlap intervalsOverlap threshold thrOverlap
  rw [h1, h2, h1']
  simp
  grind

/-- time-only geometries span the whole band: with the default threshold they overlap in
    frequency with every geometry whose frequencies lie in `[0, MAXF]` -/
theorem C12_time_only_frequency_overlap (t s e : Rat) (hse : s ≤ e) (g : Geom) (b : Bounds)
    (hb : g.bounds = some b) (hlo : 0 ≤ b.lo) (hhi : b.hi ≤ MAXF) :
    haveFrequencyOverlap (.timeStamp t) g none none = some (some true) ∧
    haveFrequencyOverlap (.timeInterval s e) g none none = some (some true) := by
  obtain ⟨h1, h2, _, _⟩ := C12_extent_table t 0 s e 0 0 hse (Rat.le_refl)
  have hM : (0 : Rat) ≤ MAXF := by decide +kernel
  have ho : b.lo ≤ b.hi :=
    (SE.Proofs.Lemmas.Bounds.isBoundsOf_ordered b _ (SE.Proofs.Lemmas.Bounds.ptsBounds_isBoundsOf _ _ hb)).2
  unfold haveFrequencyOverlap frequencyOverlap intervalsOverlap threshold thrOverlap
  rw [h1, h2, hb]
  simp
  grind

/-! ### is_in_clip on geometries and as an overlap length -/

theorem C12_in_clip_geom_iff (g : Geom) (cs ce m : Rat) (v : Bool) :
    isInClipGeom g cs ce m = some (some v) ↔
      (0 ≤ m ∧ ∃ s e, listMin (times g) = some s ∧ listMax (times g) = some e ∧
        v = decide (e > cs + m ∧ s < ce - m)) := by
  unfold isInClipGeom
  by_cases hm : m < 0
  · simp [hm]; grind
  · have hm' : 0 ≤ m := by grind
    simp only [hm, if_false, hm', true_and]
    cases hb : g.bounds with
    | none =>
      have : g.boundPts = [] := (SE.Proofs.Lemmas.Bounds.ptsBounds_eq_none _).mp hb
      simp [times, this, listMin]
    | some b =>
      obtain ⟨a1, a2, _, _⟩ := (bounds_eq_some_iff g b).mp hb
      simp only [a1, a2, Option.some.injEq]
      rw [C12_in_clip_iff]
      constructor
      · rintro ⟨_, h⟩; exact ⟨_, _, rfl, rfl, h⟩
      · rintro ⟨_, _, rfl, rfl, h⟩; exact ⟨hm', h⟩

/-- a negative minimum is rejected before the geometry is looked at -/
theorem C12_in_clip_geom_rejects (g : Geom) (cs ce m : Rat) :
    isInClipGeom g cs ce m = some none ↔ m < 0 := by
  unfold isInClipGeom isInClip
  by_cases hm : m < 0
  · simp [hm]
  · cases g.bounds <;> simp [hm] <;> split <;> simp

/-- `is_in_clip` against the docstring's "minimum required temporal overlap": the overlap of the
    event with the clip exceeds `m` iff `is_in_clip` holds **and** both the event and the clip are
    longer than `m` -/
theorem C12_in_clip_vs_overlap_length (b : Bounds) (cs ce m : Rat) (hm : 0 ≤ m) :
    (min b.en ce - max b.st cs > m) ↔
      (isInClip b cs ce m = some true ∧ b.en - b.st > m ∧ ce - cs > m) := by
  rw [C12_in_clip_iff]; simp [hm]; grind

/-- … and it does *not* measure the overlap when the clip (or the event) is shorter than `m`:
    event `[0, 10]`, clip `[4, 5]`, minimum 2 — in, with an overlap of 1 -/
theorem C12_in_clip_is_not_overlap_length :
    isInClip ⟨0, 0, 10, 5⟩ 4 5 2 = some true ∧ min (10 : Rat) 5 - max 0 4 < 2 := by decide +kernel

/-- with the default minimum: in iff the open event meets the open clip (events of positive
    duration), resp. the stamp lies strictly inside (zero duration) -/
theorem C12_in_clip_default_open (b : Bounds) (cs ce : Rat) :
    isInClip b cs ce 0 = some true ↔
      (cs < b.en ∧ b.st < ce) := by
  rw [C12_in_clip_iff]; simp; grind

theorem C12_in_clip_default_common_point (b : Bounds) (cs ce : Rat) (hb : b.st < b.en) (hc : cs < ce) :
    isInClip b cs ce 0 = some true ↔ ∃ x, b.st < x ∧ x < b.en ∧ cs < x ∧ x < ce := by
  rw [C12_in_clip_iff]; simp
  constructor
  · intro h
    exact ⟨(max b.st cs + min b.en ce) / 2, by grind⟩
  · rintro ⟨x, hx⟩; grind

/-- monotone in the minimum: whatever is in with a larger minimum is in with a smaller one -/
theorem C12_in_clip_antitone (b : Bounds) (cs ce m m' : Rat) (h0 : 0 ≤ m) (h : m ≤ m')
    (hin : isInClip b cs ce m' = some true) : isInClip b cs ce m = some true := by
  rw [C12_in_clip_iff] at *; simp at *; grind

/-! ### binary64: the computation operation by operation in a rounding arithmetic -/

/-- the laws of a rounding the theorems below use: monotone, exact at 0, and a non-zero number
    is not rounded to zero (binary64 subtraction never underflows to 0; products do not in the
    range the check generates) -/
structure IsRnd (rnd : Rat → Rat) : Prop where
  mono : ∀ x y, x ≤ y → rnd x ≤ rnd y
  zero : rnd 0 = 0
  neg : ∀ x, x < 0 → rnd x < 0

theorem isRnd_id : IsRnd id := ⟨fun _ _ h => h, rfl, fun _ h => h⟩

/-- a rounding that is not the identity and obeys the laws: `x ↦ 2x` below 0, `x` above
    (non-vacuity of the hypotheses with a function that really changes numbers) -/
theorem isRnd_example : IsRnd (fun x : Rat => if x < 0 then 2 * x else x) := by
  refine ⟨?_, ?_, ?_⟩
  · intro x y h; by_cases hx : x < 0 <;> by_cases hy : y < 0 <;> simp [hx, hy] <;> grind
  · simp
  · intro x hx; simp [hx]; grind

/-- exact arithmetic is the instance `rnd = id` -/
theorem C12_float_id (s1 e1 s2 e2 : Rat) (abs rel : Option Rat) (b : Bounds) (cs ce m : Rat) :
    intervalsOverlapR id s1 e1 s2 e2 abs rel = intervalsOverlap s1 e1 s2 e2 abs rel ∧
    isInClipR id b cs ce m = isInClip b cs ce m := by
  unfold intervalsOverlapR thresholdR intervalsOverlap threshold thrOverlap isInClipR isInClip
  constructor
  · rcases abs with _ | a <;> rcases rel with _ | r <;> simp
  · simp

/-- symmetric in binary64 as well — for *any* rounding function, no law needed -/
theorem C12_float_symm (rnd : Rat → Rat) (s1 e1 s2 e2 : Rat) (abs rel : Option Rat) :
    intervalsOverlapR rnd s1 e1 s2 e2 abs rel = intervalsOverlapR rnd s2 e2 s1 e1 abs rel := by
  unfold intervalsOverlapR thresholdR
  have hmin : min e1 e2 = min e2 e1 := by grind
  have hmax : max s1 s2 = max s2 s1 := by grind
  have hw : min (rnd (e1 - s1)) (rnd (e2 - s2)) = min (rnd (e2 - s2)) (rnd (e1 - s1)) := by grind
  rw [hmin, hmax, hw]

/-- rejection does not depend on the arithmetic -/
theorem C12_float_rejects (rnd : Rat → Rat) (s1 e1 s2 e2 : Rat) (abs rel : Option Rat) :
    intervalsOverlapR rnd s1 e1 s2 e2 abs rel = none ↔ intervalsOverlap s1 e1 s2 e2 abs rel = none := by
  unfold intervalsOverlapR thresholdR intervalsOverlap threshold
  rcases abs with _ | a <;> rcases rel with _ | r <;> simp

/-- the default threshold is decided exactly in binary64: no rounding artefact for any floats -/
theorem C12_float_default_exact (rnd : Rat → Rat) (R : IsRnd rnd) (s1 e1 s2 e2 : Rat) :
    intervalsOverlapR rnd s1 e1 s2 e2 none none = intervalsOverlap s1 e1 s2 e2 none none := by
  unfold intervalsOverlapR thresholdR intervalsOverlap threshold thrOverlap
  simp only [Option.map_some, Option.some.injEq, decide_eq_decide]
  constructor
  · intro h
    by_cases hx : min e1 e2 - max s1 s2 < 0
    · have := R.neg _ hx; grind
    · grind
  · intro h
    have := R.mono 0 _ h
    rw [R.zero] at this; exact this

/-- an absolute threshold that is a number of the arithmetic: rounding can only err towards
    "overlap" (exactly true ⇒ true in binary64), and not at all when the subtraction is exact -/
theorem C12_float_abs_one_sided (rnd : Rat → Rat) (R : IsRnd rnd) (s1 e1 s2 e2 a : Rat)
    (ha : rnd a = a) :
    (intervalsOverlap s1 e1 s2 e2 (some a) none = some true →
      intervalsOverlapR rnd s1 e1 s2 e2 (some a) none = some true) ∧
    (rnd (min e1 e2 - max s1 s2) = min e1 e2 - max s1 s2 →
      intervalsOverlapR rnd s1 e1 s2 e2 (some a) none = intervalsOverlap s1 e1 s2 e2 (some a) none) := by
  unfold intervalsOverlapR thresholdR intervalsOverlap threshold thrOverlap
  simp only [Option.map_some, Option.some.injEq, decide_eq_true_eq]
  constructor
  · intro h
    have := R.mono _ _ h
    rw [ha] at this; exact this
  · intro h; rw [h]

/-- monotone in both thresholds in binary64 too (relative: float-proper intervals) -/
theorem C12_float_monotone (rnd : Rat → Rat) (R : IsRnd rnd) (s1 e1 s2 e2 : Rat) :
    (∀ a a', a ≤ a' → intervalsOverlapR rnd s1 e1 s2 e2 (some a') none = some true →
      intervalsOverlapR rnd s1 e1 s2 e2 (some a) none = some true) ∧
    (∀ r r', s1 ≤ e1 → s2 ≤ e2 → 0 ≤ r → r ≤ r' → r' ≤ 1 →
      intervalsOverlapR rnd s1 e1 s2 e2 none (some r') = some true →
      intervalsOverlapR rnd s1 e1 s2 e2 none (some r) = some true) := by
  unfold intervalsOverlapR thresholdR
  constructor
  · intro a a' h
    simp only [Option.map_some, Option.some.injEq, decide_eq_true_eq]
    grind
  · intro r r' h1 h2 h0 h h1'
    have hr : ¬ (r < 0 ∨ r > 1) := by grind
    have hr' : ¬ (r' < 0 ∨ r' > 1) := by grind
    simp only [hr, hr', if_false, Option.map_some, Option.some.injEq, decide_eq_true_eq]
    have w1 : 0 ≤ rnd (e1 - s1) := by
      have := R.mono 0 (e1 - s1) (by grind); rwa [R.zero] at this
    have w2 : 0 ≤ rnd (e2 - s2) := by
      have := R.mono 0 (e2 - s2) (by grind); rwa [R.zero] at this
    have hw : 0 ≤ min (rnd (e1 - s1)) (rnd (e2 - s2)) := by grind
    have hm := R.mono _ _ (Rat.mul_le_mul_of_nonneg_right h hw)
    grind

/-- when every intermediate result is a number of the arithmetic (the dyadic grids of the
    exact correspondence), binary64 computes the exact predicate -/
theorem C12_float_exact_on_grid (rnd : Rat → Rat) (s1 e1 s2 e2 : Rat) (abs rel : Option Rat)
    (hx : rnd (min e1 e2 - max s1 s2) = min e1 e2 - max s1 s2)
    (hw1 : rnd (e1 - s1) = e1 - s1) (hw2 : rnd (e2 - s2) = e2 - s2)
    (hp : ∀ r, rel = some r → rnd (r * min (e1 - s1) (e2 - s2)) = r * min (e1 - s1) (e2 - s2)) :
    intervalsOverlapR rnd s1 e1 s2 e2 abs rel = intervalsOverlap s1 e1 s2 e2 abs rel := by
  unfold intervalsOverlapR thresholdR intervalsOverlap threshold thrOverlap
  rw [hx, hw1, hw2]
  rcases abs with _ | a <;> rcases rel with _ | r <;> simp
  rw [hp r rfl]

/-- `is_in_clip` in binary64: exact with the default minimum (clip ends are numbers of the
    arithmetic); with a positive minimum rounding moves the two edges by at most one rounding of
    `start + m`, `end − m`, and whatever is exactly "out" at an edge stays out when the sums are
    rounded monotonically -/
theorem C12_float_in_clip (rnd : Rat → Rat) (R : IsRnd rnd) (b : Bounds) (cs ce m : Rat)
    (hcs : rnd cs = cs) (hce : rnd ce = ce) (hst : rnd b.st = b.st) (hen : rnd b.en = b.en) :
    isInClipR rnd b cs ce 0 = isInClip b cs ce 0 ∧
    (isInClipR rnd b cs ce m = some true → isInClip b cs ce m = some true) ∧
    (isInClipR rnd b cs ce m = none ↔ m < 0) := by
  unfold isInClipR isInClip
  refine ⟨?_, ?_, ?_⟩
  · have a1 : cs + 0 = cs := by grind
    have a2 : ce - 0 = ce := by grind
    simp only [a1, a2, hcs, hce]
  · by_cases hm : m < 0
    · simp [hm]
    · simp only [hm, if_false]
      intro h
      have e1 : b.en ≤ cs + m → b.en ≤ rnd (cs + m) := by
        intro h'; have := R.mono _ _ h'; rwa [hen] at this
      have e2 : b.st ≥ ce - m → b.st ≥ rnd (ce - m) := by
        intro h'; have := R.mono _ _ h'; rwa [hst] at this
      grind
  · by_cases hm : m < 0
    · simp [hm]
    · simp only [hm, if_false]; split <;> simp

/-- **binary64 against exact arithmetic, all thresholds**: for every rounding with relative error
    ≤ `u` (binary64: `u = 2⁻⁵³`) the computed answer is the exact one whenever the exact margin
    `(intersection length − threshold)` lies outside `floatBand u = u·(|x| + 3·max |w₁| |w₂|)`;
    and the call raises exactly when the exact model does.  `floatOk` is the statement the check
    evaluates on the real code for arbitrary (non-dyadic) floats. -/
theorem C12_float_band (u : Rat) (rnd : Rat → Rat) (R : RelErr u rnd) (hu0 : 0 ≤ u) (hu1 : u ≤ 1)
    (s1 e1 s2 e2 : Rat) (abs rel : Option Rat) :
    floatOk u s1 e1 s2 e2 abs rel (intervalsOverlapR rnd s1 e1 s2 e2 abs rel) = true := by
  have hx := R (min e1 e2 - max s1 s2)
  have n1 := absR_nonneg (e1 - s1)
  have n2 := absR_nonneg (e2 - s2)
  have nx := absR_nonneg (min e1 e2 - max s1 s2)
  have hW : 0 ≤ max (absR (e1 - s1)) (absR (e2 - s2)) := by grind
  have hc : 0 ≤ u * max (absR (e1 - s1)) (absR (e2 - s2)) := Rat.mul_nonneg hu0 hW
  have hband : floatBand u s1 e1 s2 e2 =
      u * absR (min e1 e2 - max s1 s2) + 3 * (u * max (absR (e1 - s1)) (absR (e2 - s2))) := by
    unfold floatBand; grind
  unfold floatOk intervalsOverlapR thresholdR threshold
  rw [hband]
  generalize u * absR (min e1 e2 - max s1 s2) = bx at *
  generalize hcd : u * max (absR (e1 - s1)) (absR (e2 - s2)) = c at *
  rcases abs with _ | a <;> rcases rel with _ | r
  · simp only [Option.map_some]
    unfold absR at hx
    split <;> (try split) <;> (try simp) <;> (try grind)
  · by_cases hr : r < 0 ∨ r > 1
    · simp [hr]
    · have ht := rel_threshold_error u rnd R hu0 hu1 (e1 - s1) (e2 - s2) r (by grind) (by grind)
      rw [hcd] at ht
      simp only [hr, if_false, Option.map_some]
      generalize rnd (r * min (rnd (e1 - s1)) (rnd (e2 - s2))) = T at *
      generalize r * min (e1 - s1) (e2 - s2) = Q at *
      unfold absR at hx ht
      split <;> (try split) <;> (try simp) <;> (try grind)
  · simp only [Option.map_some]
    unfold absR at hx
    split <;> (try split) <;> (try simp) <;> (try grind)
  · simp

theorem C12_float_in_clip_band (u : Rat) (rnd : Rat → Rat) (R : RelErr u rnd)
    (b : Bounds) (cs ce m : Rat) :
    clipFloatOk u b cs ce m (isInClipR rnd b cs ce m) = true := by
  have h1 := R (cs + m)
  have h2 := R (ce - m)
  unfold clipFloatOk isInClipR isInClip
  generalize u * absR (cs + m) = b1 at *
  generalize u * absR (ce - m) = b2 at *
  unfold absR at h1 h2
  by_cases hm : m < 0
  · simp [hm]
  · simp only [hm, if_false]
    by_cases hA : b.en ≤ cs + m ∨ b.st ≥ ce - m <;> by_cases hB : b.en ≤ rnd (cs + m) ∨ b.st ≥ rnd (ce - m) <;>
      simp only [hA, hB, if_true, if_false] <;> split <;> (try split) <;> (try simp) <;> (try grind)

/-- non-vacuity of `RelErr`: exact arithmetic has relative error 0 ≤ u -/
theorem relErr_id (u : Rat) (hu : 0 ≤ u) : RelErr u id := by
  intro x
  have : absR (id x - x) = 0 := by unfold absR; simp only [id]; split <;> grind
  rw [this]; exact Rat.mul_nonneg hu (absR_nonneg x)

-- non-vacuity of the additions
example : haveTemporalOverlap (.timeStamp 1) (.timeInterval 1 2) none none = some (some true) := by decide +kernel
example : haveTemporalOverlap (.point 1 7) (.boundingBox 2 0 3 9) (some (1/2)) none = some (some false) := by decide +kernel
example : haveFrequencyOverlap (.point 1 7) (.boundingBox 2 0 3 9) none (some 1) = some (some true) := by decide +kernel
example : haveFrequencyOverlap (.lineString []) (.timeStamp 0) none none = none := by decide +kernel
example : isInClipGeom (.timeStamp 0) 0 1 0 = some (some false) := by decide +kernel
example : isInClipGeom (.timeStamp (1/2)) 0 1 0 = some (some true) := by decide +kernel
example : isInClipGeom (.timeStamp (1/2)) 0 1 (-1) = some none := by decide +kernel
example : intervalsOverlap 0 1 (5/4) 2 (some (-1/2)) none = some true := by decide +kernel
example : intervalsOverlap 0 2 (1/2) 1 none (some 1) = some true := by decide +kernel
example : floatOk (1/100) 0 1 (1/4) 2 (some (3/5)) none (some true) = true ∧
    floatOk (1/100) 0 1 (1/4) 2 (some (3/5)) none (some false) = false ∧
    floatOk (1/100) 0 1 (1/4) 2 (some (3/4)) none (some false) = true := by decide +kernel
-- a rounding that changes the answer: rounding down to integers turns 0.75 ≥ 0.6 into 0 ≥ 0.6
example : intervalsOverlap 0 1 (1/4) 2 (some (3/5)) none = some true ∧
    intervalsOverlapR (fun x => (x.floor : Rat)) 0 1 (1/4) 2 (some (3/5)) none = some false := by decide +kernel

-- non-vacuity: the hypotheses above are satisfiable and the predicate takes both values
example : intervalsOverlap 1 3 2 4 none (some (1/4)) = some true := by decide +kernel
example : intervalsOverlap 1 3 2 4 none (some (3/4)) = some false := by decide +kernel
example : intervalsOverlap 1 3 2 4 (some 1) (some 1) = none := by decide +kernel
example : isInClip ⟨1, 0, 2, 5⟩ 0 5 0 = some true := by decide +kernel
example : isInClip ⟨0, 0, 1, 5⟩ 1 5 0 = some false := by decide +kernel

/-! ## follow-up: construction paths — how the arguments of a call reach the parameters -/

/-- the parameter tables have no repeated names -/
theorem C12_params_nodup : overlapParams.Nodup ∧ clipParams.Nodup := by decide

/-- a purely positional call: the i-th optional parameter receives the i-th positional value,
    the parameters beyond the values given receive nothing (their default) -/
theorem C12_bind_positional {α} (params : List String) (pos : List α) (h : pos.length ≤ params.length) :
    bindCall params pos [] = some ((List.range params.length).map (fun i => pos[i]?)) := by
  have key : ∀ (ps : List String) (k : Nat),
      bindFrom pos ([] : List (String × α)) ps k = some ((List.range ps.length).map (fun i => pos[k + i]?)) := by
    intro ps
    induction ps with
    | nil => intro k; simp [bindFrom]
    | cons p ps ih =>
      intro k
      have hl : kwLookup ([] : List (String × α)) p = none := by simp [kwLookup]
      simp only [bindFrom, hl, ih (k + 1), List.length_cons, List.range_succ_eq_map, List.map_cons, List.map_map]
      cases hk : pos[k]? <;> simp [Function.comp_def, Nat.add_assoc, Nat.add_comm 1]
  unfold bindCall
  have h1 : ¬ pos.length > params.length := by omega
  simp [h1, key]

/-- the order in which keywords are written is irrelevant -/
theorem C12_bind_keyword_order {α} (params : List String) (pos : List α) (kw kw' : List (String × α))
    (h : kw.Perm kw') : bindCall params pos kw = bindCall params pos kw' := by
  have hl : ∀ name, kwLookup kw name = kwLookup kw' name := by
    intro name
    have hp := h.filter (fun p => p.1 == name)
    unfold kwLookup
    generalize kw.filter (fun p => p.1 == name) = l at hp
    generalize kw'.filter (fun p => p.1 == name) = l' at hp
    match l, l', hp with
    | [], l', hp => rw [List.nil_perm.mp hp]
    | [p], l', hp => rw [List.singleton_perm.mp hp]
    | p :: q :: t, [], hp => exact absurd hp.length_eq (by simp)
    | p :: q :: t, [x], hp => exact absurd hp.length_eq (by simp)
    | p :: q :: t, x :: y :: t', hp => rfl
  have hf : ∀ (ps : List String) (k : Nat), bindFrom pos kw ps k = bindFrom pos kw' ps k := by
    intro ps
    induction ps with
    | nil => intro k; rfl
    | cons p ps ih => intro k; simp only [bindFrom, hl p, ih (k + 1)]
  have ha : kw.any (fun p => !params.contains p.1) = kw'.any (fun p => !params.contains p.1) := by
    rw [Bool.eq_iff_iff]
    simp only [List.any_eq_true]
    constructor
    · rintro ⟨x, hx, hp⟩; exact ⟨x, h.mem_iff.mp hx, hp⟩
    · rintro ⟨x, hx, hp⟩; exact ⟨x, h.mem_iff.mpr hx, hp⟩
  unfold bindCall
  rw [ha, hf]

/-- every legitimate way of passing the two thresholds reaches `intervals_overlap`'s body with the same
    values: both by position, the first by position and the second by keyword, both by keyword in either
    order, one alone, none; "not given" and "given as `None`" coincide (third line from the end); and the
    calls Python itself rejects (three positional values, a parameter by position and by keyword, an
    unknown keyword) are `TypeError`s, not answers -/
theorem C12_call_forms (s1 e1 s2 e2 : Rat) (a r : Option Rat) :
    intervalsOverlapCall s1 e1 s2 e2 [a, r] [] = some (intervalsOverlap s1 e1 s2 e2 a r) ∧
    intervalsOverlapCall s1 e1 s2 e2 [a] [("min_relative_overlap", r)] = some (intervalsOverlap s1 e1 s2 e2 a r) ∧
    intervalsOverlapCall s1 e1 s2 e2 [] [("min_absolute_overlap", a), ("min_relative_overlap", r)]
      = some (intervalsOverlap s1 e1 s2 e2 a r) ∧
    intervalsOverlapCall s1 e1 s2 e2 [] [("min_relative_overlap", r), ("min_absolute_overlap", a)]
      = some (intervalsOverlap s1 e1 s2 e2 a r) ∧
    intervalsOverlapCall s1 e1 s2 e2 [a] [] = some (intervalsOverlap s1 e1 s2 e2 a none) ∧
    intervalsOverlapCall s1 e1 s2 e2 [] [("min_relative_overlap", r)] = some (intervalsOverlap s1 e1 s2 e2 none r) ∧
    intervalsOverlapCall s1 e1 s2 e2 [] [("min_absolute_overlap", a)] = some (intervalsOverlap s1 e1 s2 e2 a none) ∧
    intervalsOverlapCall s1 e1 s2 e2 [] [] = some (intervalsOverlap s1 e1 s2 e2 none none) ∧
    intervalsOverlapCall s1 e1 s2 e2 [a, r, a] [] = none ∧
    intervalsOverlapCall s1 e1 s2 e2 [a] [("min_absolute_overlap", a)] = none ∧
    intervalsOverlapCall s1 e1 s2 e2 [] [("minimum_overlap", a)] = none := by
  simp [intervalsOverlapCall, bindCall, bindFrom, kwLookup, overlapParams]

/-- the geometry predicates bind their thresholds exactly as `intervals_overlap` does, and
    `is_in_clip` its minimum (by position, by keyword, or not at all = the default) -/
theorem C12_call_forms_geometry (g g1 g2 : Geom) (a r : Option Rat) (cs ce m : Rat) :
    haveTemporalOverlapCall g1 g2 [a, r] [] = some (haveTemporalOverlap g1 g2 a r) ∧
    haveTemporalOverlapCall g1 g2 [a] [("min_relative_overlap", r)] = some (haveTemporalOverlap g1 g2 a r) ∧
    haveTemporalOverlapCall g1 g2 [] [("min_relative_overlap", r), ("min_absolute_overlap", a)]
      = some (haveTemporalOverlap g1 g2 a r) ∧
    haveFrequencyOverlapCall g1 g2 [a, r] [] = some (haveFrequencyOverlap g1 g2 a r) ∧
    haveFrequencyOverlapCall g1 g2 [a] [("min_relative_overlap", r)] = some (haveFrequencyOverlap g1 g2 a r) ∧
    haveFrequencyOverlapCall g1 g2 [] [("min_relative_overlap", r), ("min_absolute_overlap", a)]
      = some (haveFrequencyOverlap g1 g2 a r) ∧
    isInClipCall g cs ce [m] [] = some (isInClipGeom g cs ce m) ∧
    isInClipCall g cs ce [] [("minimum_overlap", m)] = some (isInClipGeom g cs ce m) ∧
    isInClipCall g cs ce [] [] = some (isInClipGeom g cs ce defaultMinimumOverlap) ∧
    isInClipCall g cs ce [m, m] [] = none := by
  simp [haveTemporalOverlapCall, haveFrequencyOverlapCall, isInClipCall, bindCall, bindFrom, kwLookup,
    overlapParams, clipParams]

/-! ## follow-up: histories — consecutive calls in one process -/

/-- after a history a slot carries what was last written to it (whatever was called or used in between) -/
theorem C12_session_last_write (σ : Store) (steps : List Step) (k : Nat) :
    (exec σ steps).geoms k = lastGeom k steps (σ.geoms k) ∧
    (exec σ steps).clips k = lastClip k steps (σ.clips k) := by
  induction steps generalizing σ with
  | nil => exact ⟨rfl, rfl⟩
  | cons s rest ih =>
    cases s <;> simp only [exec, lastGeom, lastClip, ih, Store.write, eq_comm (a := k)] <;> trivial

/-- every call of a history answers as the base function on the content the slots carry at that moment -/
theorem C12_session_answer (σ : Store) (pre : List Step) (q : Step) (post : List Step) :
    (runSession σ (pre ++ q :: post))[pre.length]? = some ((exec σ pre).answer q) := by
  induction pre generalizing σ with
  | nil => simp [runSession, exec]
  | cons s rest ih => simp [runSession, exec, ih]

/-- calls and uses leave no trace: the store after a history is the store after its writes alone, so
    no answer depends on what was asked (or merely computed) before -/
theorem C12_session_reads_transparent (σ : Store) (steps : List Step) :
    exec σ steps = exec σ (steps.filter Step.isWrite) := by
  induction steps generalizing σ with
  | nil => rfl
  | cons s rest ih =>
    cases s <;> simp only [List.filter, Step.isWrite, exec, ih] <;> rfl

/-- an object that was used, changed and used again answers like a freshly constructed one with the
    same content: after any history, a call on slots whose last written contents are `g1`, `g2`
    (clip `(cs, ce)`) is the base predicate on `g1`, `g2` -/
theorem C12_session_fresh (σ : Store) (pre : List Step) (i j c : Nat) (g1 g2 : Geom) (cs ce : Rat)
    (a r m : Option Rat)
    (h1 : lastGeom i pre (σ.geoms i) = some g1) (h2 : lastGeom j pre (σ.geoms j) = some g2)
    (h3 : lastClip c pre (σ.clips c) = some (cs, ce)) :
    (exec σ pre).answer (.temporal i j a r) = haveTemporalOverlap g1 g2 a r ∧
    (exec σ pre).answer (.frequency i j a r) = haveFrequencyOverlap g1 g2 a r ∧
    (exec σ pre).answer (.inClip i c m) = isInClipGeom g1 cs ce (m.getD defaultMinimumOverlap) ∧
    (exec σ pre).answer (.temporal i j a r)
      = (exec Store.empty [.setGeom i g1, .setGeom j g2]).answer (.temporal i j a r) := by
  have e1 := (C12_session_last_write σ pre i).1
  have e2 := (C12_session_last_write σ pre j).1
  have e3 := (C12_session_last_write σ pre c).2
  rw [h1] at e1; rw [h2] at e2; rw [h3] at e3
  refine ⟨?_, ?_, ?_, ?_⟩
  · simp [Store.answer, e1, e2]
  · simp [Store.answer, e1, e2]
  · simp [Store.answer, e1, e3]
  · by_cases hij : i = j
    · subst hij
      have : g1 = g2 := by rw [h1] at h2; exact Option.some.inj h2
      subst this
      simp [Store.answer, e1, exec, Store.write, Store.empty]
    · simp [Store.answer, e1, e2, exec, Store.write, Store.empty, hij]

-- non-vacuity: the history of seeded C12-7 (use, move by model_copy / assignment, use again)
example : runSession Store.empty
    [.setGeom 0 (.boundingBox 1 1200 2 1800), .setGeom 1 (.boundingBox (3/2) 1000 (5/2) 2000), .setClip 0 0 5,
     .temporal 0 1 none none, .inClip 0 0 none, .touch 0,
     .setGeom 0 (.boundingBox 7 3000 8 4000),
     .temporal 0 1 none none, .frequency 1 0 none none, .inClip 0 0 none]
    = [none, none, none, some (some true), some (some true), none, none,
       some (some false), some (some false), some (some false)] := by decide +kernel
example : bindCall overlapParams [some (1 : Rat)] [("min_relative_overlap", none)] = some [some (some 1), some none] := by
  decide +kernel

end SE.Proofs.C12
