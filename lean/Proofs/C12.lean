/-
  C12 — Overlap predicates agree with exact interval arithmetic.
  Property theorems only (helper lemmas live in Proofs/Lemmas).
-/
import SoundeventModel.Intervals
namespace SE.Proofs.C12
open SE SE.Intervals

/-- symmetric in the two intervals, for every threshold setting (errors included) -/
theorem C12_symm (s1 e1 s2 e2 : Rat) (abs rel : Option Rat) :
    intervalsOverlap s1 e1 s2 e2 abs rel = intervalsOverlap s2 e2 s1 e1 abs rel := by
  unfold intervalsOverlap threshold thrOverlap
  rcases abs with _ | a <;> rcases rel with _ | r <;> simp <;> grind

/-- the result is `intersection length ≥ threshold`, the threshold being 0, the absolute
    minimum, or the relative minimum times the shorter interval -/
theorem C12_iff (s1 e1 s2 e2 : Rat) (abs rel : Option Rat) (b : Bool) :
    intervalsOverlap s1 e1 s2 e2 abs rel = some b ↔
      ((abs = none ∧ rel = none ∧ b = decide (min e1 e2 - max s1 s2 ≥ 0)) ∨
       (∃ a, abs = some a ∧ rel = none ∧ b = decide (min e1 e2 - max s1 s2 ≥ a)) ∨
       (∃ r, abs = none ∧ rel = some r ∧ 0 ≤ r ∧ r ≤ 1 ∧
          b = decide (min e1 e2 - max s1 s2 ≥ r * min (e1 - s1) (e2 - s2)))) := by
  unfold intervalsOverlap threshold thrOverlap
  cases abs with
  | none =>
    cases rel with
    | none => simp; grind
    | some r => by_cases h : r < 0 ∨ 1 < r <;> simp [h] <;> grind
  | some a =>
    cases rel with
    | none => simp; grind
    | some r => simp

/-- set-theoretic reading of the default: proper intervals overlap iff they share a point -/
theorem C12_default_iff_common_point (s1 e1 s2 e2 : Rat) (h1 : s1 ≤ e1) (h2 : s2 ≤ e2) :
    intervalsOverlap s1 e1 s2 e2 none none = some true ↔
      ∃ x, s1 ≤ x ∧ x ≤ e1 ∧ s2 ≤ x ∧ x ≤ e2 := by
  unfold intervalsOverlap threshold thrOverlap
  simp
  constructor
  · intro h; exact ⟨max s1 s2, by grind⟩
  · rintro ⟨x, hx⟩; grind

/-- set-theoretic reading of an absolute threshold `a ≥ 0`: a common sub-interval of length `a` -/
theorem C12_abs_iff_common_subinterval (s1 e1 s2 e2 a : Rat) :
    intervalsOverlap s1 e1 s2 e2 (some a) none = some true ↔
      ∃ x, s1 ≤ x ∧ s2 ≤ x ∧ x + a ≤ e1 ∧ x + a ≤ e2 := by
  unfold intervalsOverlap threshold thrOverlap
  simp
  constructor
  · intro h; exact ⟨max s1 s2, by grind⟩
  · rintro ⟨x, hx⟩; grind

theorem C12_monotone_abs (s1 e1 s2 e2 a a' : Rat) (h : a ≤ a')
    (hov : intervalsOverlap s1 e1 s2 e2 (some a') none = some true) :
    intervalsOverlap s1 e1 s2 e2 (some a) none = some true := by
  unfold intervalsOverlap threshold thrOverlap at *
  simp at *
  grind

theorem C12_monotone_rel (s1 e1 s2 e2 r r' : Rat) (h1 : s1 ≤ e1) (h2 : s2 ≤ e2)
    (h0 : 0 ≤ r) (h : r ≤ r') (h1' : r' ≤ 1)
    (hov : intervalsOverlap s1 e1 s2 e2 none (some r') = some true) :
    intervalsOverlap s1 e1 s2 e2 none (some r) = some true := by
  unfold intervalsOverlap threshold thrOverlap at *
  have hw : 0 ≤ min (e1 - s1) (e2 - s2) := by grind
  have hr : ¬ (r < 0 ∨ r > 1) := by grind
  have hr' : ¬ (r' < 0 ∨ r' > 1) := by grind
  simp [hr, hr'] at *
  have : r * min (e1 - s1) (e2 - s2) ≤ r' * min (e1 - s1) (e2 - s2) :=
    Rat.mul_le_mul_of_nonneg_right h hw
  grind

/-- rejected exactly when both thresholds are given or the relative one is outside [0,1] -/
theorem C12_rejects (s1 e1 s2 e2 : Rat) (abs rel : Option Rat) :
    intervalsOverlap s1 e1 s2 e2 abs rel = none ↔
      ((abs.isSome ∧ rel.isSome) ∨ (abs = none ∧ ∃ r, rel = some r ∧ (r < 0 ∨ r > 1))) := by
  unfold intervalsOverlap threshold
  rcases abs with _ | a <;> rcases rel with _ | r <;> simp
  by_cases h : r < 0 ∨ 1 < r <;> simp [h] <;> grind

/-- temporal / frequency overlap are the interval predicate on the time / frequency extents -/
theorem C12_geometry_delegation (b1 b2 : Bounds) (abs rel : Option Rat) :
    temporalOverlap b1 b2 abs rel = intervalsOverlap b1.st b1.en b2.st b2.en abs rel ∧
    frequencyOverlap b1 b2 abs rel = intervalsOverlap b1.lo b1.hi b2.lo b2.hi abs rel :=
  ⟨rfl, rfl⟩

theorem C12_in_clip_iff (b : Bounds) (cs ce m : Rat) (v : Bool) :
    isInClip b cs ce m = some v ↔ (0 ≤ m ∧ v = decide (b.en > cs + m ∧ b.st < ce - m)) := by
  unfold isInClip
  by_cases hm : m < 0
  · simp [hm]; grind
  · by_cases h : b.en ≤ cs + m ∨ b.st ≥ ce - m <;> simp [hm, h] <;> grind

theorem C12_negative_minimum_rejected (b : Bounds) (cs ce m : Rat) (h : m < 0) :
    isInClip b cs ce m = none := by
  unfold isInClip; simp [h]

/-- an event of non-zero duration lying wholly inside the clip is in -/
theorem C12_inside_is_in (b : Bounds) (cs ce : Rat)
    (h1 : cs ≤ b.st) (h2 : b.st < b.en) (h3 : b.en ≤ ce) : isInClip b cs ce 0 = some true := by
  rw [C12_in_clip_iff]; grind

/-- a time stamp strictly inside the clip is in -/
theorem C12_timestamp_inside_is_in (b : Bounds) (cs ce : Rat)
    (h0 : b.st = b.en) (h1 : cs < b.st) (h3 : b.en < ce) : isInClip b cs ce 0 = some true := by
  rw [C12_in_clip_iff]; grind

/-- an event merely touching an edge of the clip is out -/
theorem C12_touching_is_out (b : Bounds) (cs ce : Rat) (h : b.en = cs ∨ b.st = ce) :
    isInClip b cs ce 0 = some false := by
  rw [C12_in_clip_iff]; grind

-- non-vacuity: the hypotheses above are satisfiable and the predicate takes both values
example : intervalsOverlap 1 3 2 4 none (some (1/4)) = some true := by decide +kernel
example : intervalsOverlap 1 3 2 4 none (some (3/4)) = some false := by decide +kernel
example : intervalsOverlap 1 3 2 4 (some 1) (some 1) = none := by decide +kernel
example : isInClip ⟨1, 0, 2, 5⟩ 0 5 0 = some true := by decide +kernel
example : isInClip ⟨0, 0, 1, 5⟩ 1 5 0 = some false := by decide +kernel

end SE.Proofs.C12
