/-
  C19 — Tag encoding projects faithfully onto the vocabulary; equal objects hash equally.
  Property theorems only (helper lemmas live in Proofs/Lemmas/Encoding.lean).

  `encode` is the model of the code's dictionary (an association list in which a later
  equal key overwrites); the theorems relate it to the list-search reading of the property.
-/
import SoundeventModel.Encoding
import Proofs.Lemmas.Encoding
namespace SE.Proofs.C19
open SE SE.Encoding SE.Proofs.Lemmas.Encoding

/-! ### the encoder -/

/-- what the dictionary holds for *any* vocabulary: the last position of the tag -/
theorem C19_encode_last (vocab : List Tag) (t : Tag) (i : Nat) :
    encode vocab t = some i ↔ vocab[i]? = some t ∧ ∀ j, i < j → vocab[j]? ≠ some t := by
  rw [encode_eq_lastIdx]; exact lastIdx_some

/-- a tag is encoded as `i` iff it is the `i`-th vocabulary tag -/
theorem C19_encode_iff (vocab : List Tag) (h : vocab.Nodup) (t : Tag) (i : Nat) :
    encode vocab t = some i ↔ vocab[i]? = some t := by
  rw [C19_encode_last]
  constructor
  · exact fun h => h.1
  · intro hi
    refine ⟨hi, fun j hj hjt => ?_⟩
    have hlt : i < vocab.length := (List.getElem?_eq_some_iff.mp hi).1
    have := (List.getElem?_inj hlt h).mp (hi.trans hjt.symm)
    omega

/-- … and to nothing otherwise (this half needs no distinctness) -/
theorem C19_encode_none (vocab : List Tag) (t : Tag) : encode vocab t = none ↔ t ∉ vocab := by
  rw [encode_eq_lastIdx]; exact lastIdx_none

/-- the dictionary agrees with a linear search for the first equal element -/
theorem C19_encode_eq_search (vocab : List Tag) (h : vocab.Nodup) (t : Tag) :
    encode vocab t = searchIdx t vocab := by
  rw [encode_eq_lastIdx]; exact lastIdx_eq_searchIdx h

/-- the search is "index of the first element equal to `t`" -/
theorem C19_search_first (vocab : List Tag) (t : Tag) (i : Nat) :
    searchIdx t vocab = some i ↔ vocab[i]? = some t ∧ ∀ j, j < i → vocab[j]? ≠ some t :=
  searchIdx_some

/-- an encoding is an index into the vocabulary -/
theorem C19_encode_lt (vocab : List Tag) (t : Tag) (i : Nat) (h : encode vocab t = some i) :
    i < numClasses vocab :=
  (List.getElem?_eq_some_iff.mp ((C19_encode_last vocab t i).mp h).1).1

/-- decoding an encoding gives the tag back (any vocabulary) -/
theorem C19_decode_encode (vocab : List Tag) (t : Tag) (i : Nat) (h : encode vocab t = some i) :
    decode vocab i = some t :=
  ((C19_encode_last vocab t i).mp h).1

/-- decoding then encoding is the identity on indices -/
theorem C19_encode_decode (vocab : List Tag) (h : vocab.Nodup) (i : Nat) (hi : i < numClasses vocab) :
    (decode vocab i).bind (encode vocab) = some i := by
  have : vocab[i]? = some vocab[i] := List.getElem?_eq_getElem hi
  simp only [decode, this, Option.bind_some]
  exact (C19_encode_iff vocab h _ i).mpr this

/-- the dictionary key identifies the tag: two tags have the same key iff they are equal -/
theorem C19_key_faithful (a b : Tag) : key a = key b ↔ a = b := key_inj

/-! ### classification -/

/-- the encoding of the first tag of the list that is in the vocabulary, `none` if there is none -/
theorem C19_first_in_vocab (vocab tags : List Tag) :
    classificationEncoding vocab tags = (tags.find? (· ∈ vocab)).bind (encode vocab) := by
  induction tags with
  | nil => rfl
  | cons t ts ih =>
    simp only [classificationEncoding, List.find?_cons]
    by_cases h : t ∈ vocab
    · have : encode vocab t ≠ none := fun e => (C19_encode_none vocab t).mp e h
      cases he : encode vocab t with
      | none => exact absurd he this
      | some i => simp [h, he]
    · simp [h, (C19_encode_none vocab t).mpr h, ih]

theorem C19_first_in_vocab_iff (vocab : List Tag) (h : vocab.Nodup) (tags : List Tag) (i : Nat) :
    classificationEncoding vocab tags = some i ↔
      ∃ t, tags.find? (· ∈ vocab) = some t ∧ vocab[i]? = some t := by
  rw [C19_first_in_vocab]
  cases tags.find? (· ∈ vocab) with
  | none => simp
  | some t => simp [C19_encode_iff vocab h]

theorem C19_classification_none (vocab tags : List Tag) :
    classificationEncoding vocab tags = none ↔ ∀ t ∈ tags, t ∉ vocab := by
  rw [C19_first_in_vocab]
  cases hf : tags.find? (· ∈ vocab) with
  | none => simpa using hf
  | some t =>
    have hm := List.mem_of_find?_eq_some hf
    have hv : t ∈ vocab := by simpa using List.find?_some hf
    simp only [Option.bind_some, C19_encode_none]
    exact ⟨fun h => absurd hv h, fun h => h t hm⟩

/-! ### multilabel -/

theorem C19_multilabel_length (vocab tags : List Tag) :
    (multilabelEncoding vocab tags).length = numClasses vocab := by
  simp [multilabelEncoding, fill_length, numClasses]

/-- entry `i` is 1 iff some tag of the list is encoded as `i` (any vocabulary) -/
theorem C19_indicator_general (vocab tags : List Tag) (i : Nat) (hi : i < numClasses vocab) :
    (multilabelEncoding vocab tags)[i]? =
      some (if ∃ t ∈ tags, encode vocab t = some i then 1 else 0) := by
  unfold multilabelEncoding
  rw [fill_get _ _ _ _ _ (by simpa [numClasses] using hi)]
  cases hl : lastWhere (fun t => encode vocab t == some i) tags with
  | none =>
    have := lastWhere_none.mp hl
    have hno : ¬ ∃ t ∈ tags, encode vocab t = some i := by
      rintro ⟨t, ht, he⟩; simpa [he] using this t ht
    have hi' : i < vocab.length := hi
    simp [hno, hi']
  | some x =>
    have := lastWhere_some_mem hl
    have hyes : ∃ t ∈ tags, encode vocab t = some i := ⟨x, this.1, by simpa using this.2⟩
    simp [hyes]

/-- the indicator vector of the vocabulary tags present in the list -/
theorem C19_indicator (vocab : List Tag) (h : vocab.Nodup) (tags : List Tag) (i : Nat)
    (hi : i < vocab.length) :
    (multilabelEncoding vocab tags)[i]? = some (if vocab[i] ∈ tags then 1 else 0) := by
  rw [C19_indicator_general vocab tags i hi]
  have hget : vocab[i]? = some vocab[i] := List.getElem?_eq_getElem hi
  have : (∃ t ∈ tags, encode vocab t = some i) ↔ vocab[i] ∈ tags := by
    constructor
    · rintro ⟨t, ht, he⟩
      have := (C19_encode_iff vocab h t i).mp he
      rw [hget] at this; cases this; exact ht
    · intro hm; exact ⟨_, hm, (C19_encode_iff vocab h _ i).mpr hget⟩
  simp only [this]

/-! ### predictions -/

theorem C19_prediction_length (cast : Rat → Rat) (vocab : List Tag) (preds : List PredictedTag) :
    (predictionEncoding cast vocab preds).length = numClasses vocab := by
  simp [predictionEncoding, fill_length, numClasses]

/-- entry `i` holds the stored score of the last predicted tag that is the `i`-th vocabulary
    tag, and 0 when there is none -/
theorem C19_scores (cast : Rat → Rat) (vocab : List Tag) (h : vocab.Nodup) (preds : List PredictedTag)
    (i : Nat) (hi : i < vocab.length) :
    (predictionEncoding cast vocab preds)[i]? =
      some (match lastWhere (fun p => decide (p.tag = vocab[i])) preds with
            | some p => cast p.score
            | none => 0) := by
  unfold predictionEncoding
  rw [fill_get _ _ _ _ _ (by simpa using hi)]
  have hget : vocab[i]? = some vocab[i] := List.getElem?_eq_getElem hi
  have hc : lastWhere (fun p : PredictedTag => encode vocab p.tag == some i) preds
      = lastWhere (fun p => decide (p.tag = vocab[i])) preds := by
    apply lastWhere_congr
    intro p _
    have := C19_encode_iff vocab h p.tag i
    rw [hget] at this
    by_cases hp : p.tag = vocab[i]
    · simp [hp, (C19_encode_iff vocab h _ i).mpr hget]
    · have : encode vocab p.tag ≠ some i := fun e => hp (by simpa using (this.mp e).symm)
      simp [hp, this]
  rw [hc]
  cases lastWhere (fun p => decide (p.tag = vocab[i])) preds <;> simp [hi]

/-- where every prediction of a vocabulary tag carries the same score, that score is the entry
    (the inputs on which the property determines the vector) -/
theorem C19_scores_unique (cast : Rat → Rat) (vocab : List Tag) (h : vocab.Nodup)
    (preds : List PredictedTag) (i : Nat) (hi : i < vocab.length) (s : Rat)
    (hex : ∃ p ∈ preds, p.tag = vocab[i])
    (hall : ∀ p ∈ preds, p.tag = vocab[i] → cast p.score = cast s) :
    (predictionEncoding cast vocab preds)[i]? = some (cast s) := by
  rw [C19_scores cast vocab h preds i hi]
  cases hl : lastWhere (fun p => decide (p.tag = vocab[i])) preds with
  | none =>
    obtain ⟨p, hp, ht⟩ := hex
    have := lastWhere_none.mp hl p hp
    simp [ht] at this
  | some p =>
    have := lastWhere_some_mem hl
    simp [hall p this.1 (by simpa using this.2)]

/-- an entry is never anything but 0 or the stored score of a prediction of that very tag -/
theorem C19_scores_mem (cast : Rat → Rat) (vocab : List Tag) (h : vocab.Nodup)
    (preds : List PredictedTag) (i : Nat) (hi : i < vocab.length) :
    ((∀ p ∈ preds, p.tag ≠ vocab[i]) ∧ (predictionEncoding cast vocab preds)[i]? = some 0) ∨
    (∃ p ∈ preds, p.tag = vocab[i] ∧ (predictionEncoding cast vocab preds)[i]? = some (cast p.score)) := by
  rw [C19_scores cast vocab h preds i hi]
  cases hl : lastWhere (fun p => decide (p.tag = vocab[i])) preds with
  | none =>
    left
    refine ⟨fun p hp => ?_, rfl⟩
    simpa using lastWhere_none.mp hl p hp
  | some p =>
    right
    have := lastWhere_some_mem hl
    exact ⟨p, this.1, by simpa using this.2, rfl⟩

/-! ### tags outside the vocabulary never influence a result -/

theorem C19_oov_irrelevant_classification (vocab tags : List Tag) :
    classificationEncoding vocab (tags.filter (· ∈ vocab)) = classificationEncoding vocab tags := by
  rw [C19_first_in_vocab, C19_first_in_vocab]
  congr 1
  induction tags with
  | nil => rfl
  | cons t ts ih => by_cases h : t ∈ vocab <;> simp [h, ih]

theorem C19_oov_irrelevant_multilabel (vocab tags : List Tag) :
    multilabelEncoding vocab (tags.filter (· ∈ vocab)) = multilabelEncoding vocab tags := by
  unfold multilabelEncoding
  generalize List.replicate vocab.length 0 = init
  induction tags generalizing init with
  | nil => rfl
  | cons t ts ih =>
    by_cases h : t ∈ vocab
    · simp only [List.filter_cons, h, decide_true, if_true, List.foldl_cons]; exact ih _
    · simp only [List.filter_cons, h, decide_false, Bool.false_eq_true, if_false, List.foldl_cons,
        (C19_encode_none vocab t).mpr h]
      exact ih init

theorem C19_oov_irrelevant_prediction (cast : Rat → Rat) (vocab : List Tag) (preds : List PredictedTag) :
    predictionEncoding cast vocab (preds.filter (·.tag ∈ vocab)) = predictionEncoding cast vocab preds := by
  unfold predictionEncoding
  generalize List.replicate vocab.length (0 : Rat) = init
  induction preds generalizing init with
  | nil => rfl
  | cons p ps ih =>
    by_cases h : p.tag ∈ vocab
    · simp only [List.filter_cons, h, decide_true, if_true, List.foldl_cons]; exact ih _
    · simp only [List.filter_cons, h, decide_false, Bool.false_eq_true, if_false, List.foldl_cons,
        (C19_encode_none vocab p.tag).mpr h]
      exact ih init

/-- two tag lists with the same in-vocabulary members, in the same order, are encoded alike -/
theorem C19_oov_irrelevant (cast : Rat → Rat) (vocab tags tags' : List Tag) (preds preds' : List PredictedTag)
    (ht : tags.filter (· ∈ vocab) = tags'.filter (· ∈ vocab))
    (hp : preds.filter (·.tag ∈ vocab) = preds'.filter (·.tag ∈ vocab)) :
    classificationEncoding vocab tags = classificationEncoding vocab tags' ∧
    multilabelEncoding vocab tags = multilabelEncoding vocab tags' ∧
    predictionEncoding cast vocab preds = predictionEncoding cast vocab preds' := by
  refine ⟨?_, ?_, ?_⟩
  · rw [← C19_oov_irrelevant_classification vocab tags, ht, C19_oov_irrelevant_classification]
  · rw [← C19_oov_irrelevant_multilabel vocab tags, ht, C19_oov_irrelevant_multilabel]
  · rw [← C19_oov_irrelevant_prediction cast vocab preds, hp, C19_oov_irrelevant_prediction]

/-! ### the executable statements used by the monitor mean what they say -/

theorem C19_holds_classification (vocab : List Tag) (h : vocab.Nodup) (tags : List Tag) (out : Option Nat) :
    holdsClassification vocab tags out = true ↔ out = classificationEncoding vocab tags := by
  rw [C19_first_in_vocab]
  unfold holdsClassification
  cases hf : tags.find? (· ∈ vocab) with
  | none => cases out <;> simp
  | some t =>
    have hv : t ∈ vocab := by simpa using List.find?_some hf
    cases out with
    | none =>
      have : encode vocab t ≠ none := fun e => (C19_encode_none vocab t).mp e hv
      simp; exact fun e => this e.symm
    | some i =>
      simp only [Option.bind_some, beq_iff_eq]
      rw [← C19_encode_iff vocab h t i]
      exact ⟨fun e => e.symm, fun e => e.symm⟩

theorem C19_holds_multilabel (vocab : List Tag) (h : vocab.Nodup) (tags : List Tag) (out : List Nat) :
    holdsMultilabel vocab tags out = true ↔ out = multilabelEncoding vocab tags := by
  constructor
  · intro hh
    simp only [holdsMultilabel, Bool.and_eq_true, beq_iff_eq, List.all_eq_true, List.mem_range] at hh
    obtain ⟨hlen, hall⟩ := hh
    apply List.ext_getElem?
    intro i
    by_cases hi : i < vocab.length
    · rw [C19_indicator vocab h tags i hi]
      have := hall i hi
      rw [List.getElem?_eq_getElem hi, List.getElem?_eq_getElem (by omega : i < out.length)] at this
      rw [List.getElem?_eq_getElem (by omega : i < out.length)]
      simpa using this
    · have l2 := C19_multilabel_length vocab tags
      unfold numClasses at l2
      rw [List.getElem?_eq_none (by omega), List.getElem?_eq_none (by omega)]
  · rintro rfl
    have l2 := C19_multilabel_length vocab tags
    unfold numClasses at l2
    simp only [holdsMultilabel, Bool.and_eq_true, beq_iff_eq, List.all_eq_true, List.mem_range]
    refine ⟨l2, fun i hi => ?_⟩
    rw [C19_indicator vocab h tags i hi, List.getElem?_eq_getElem hi]
    simp

/-- the model's prediction vector satisfies the monitor's statement -/
theorem C19_holds_prediction (cast : Rat → Rat) (vocab : List Tag) (h : vocab.Nodup)
    (preds : List PredictedTag) :
    holdsPrediction cast vocab preds (predictionEncoding cast vocab preds) = true := by
  have l2 := C19_prediction_length cast vocab preds
  unfold numClasses at l2
  simp only [holdsPrediction, Bool.and_eq_true, beq_iff_eq, List.all_eq_true, List.mem_range]
  refine ⟨l2, fun i hi => ?_⟩
  rw [List.getElem?_eq_getElem hi]
  rcases C19_scores_mem cast vocab h preds i hi with ⟨hno, hz⟩ | ⟨p, hp, ht, hs⟩
  · rw [hz]
    have : preds.filter (fun p => decide (p.tag = vocab[i])) = [] := by
      simp only [List.filter_eq_nil_iff, decide_eq_true_eq]; exact hno
    simp [this]
  · rw [hs]
    have hne : (preds.filter (fun p => decide (p.tag = vocab[i]))).isEmpty = false := by
      cases hf : preds.filter (fun p => decide (p.tag = vocab[i])) with
      | nil =>
        have : p ∈ preds.filter (fun p => decide (p.tag = vocab[i])) := by simp [hp, ht]
        rw [hf] at this; cases this
      | cons _ _ => rfl
    simp only [hne, Bool.false_eq_true, if_false, List.any_eq_true, List.mem_filter, decide_eq_true_eq,
      beq_iff_eq]
    exact ⟨p, ⟨hp, ht⟩, rfl⟩

/-- on inputs where every vocabulary tag is predicted with one (stored) score the statement
    determines the vector -/
theorem C19_holds_prediction_determines (cast : Rat → Rat) (vocab : List Tag) (h : vocab.Nodup)
    (preds : List PredictedTag) (out : List Rat)
    (huniq : ∀ p ∈ preds, ∀ q ∈ preds, p.tag = q.tag → cast p.score = cast q.score)
    (hh : holdsPrediction cast vocab preds out = true) :
    out = predictionEncoding cast vocab preds := by
  simp only [holdsPrediction, Bool.and_eq_true, beq_iff_eq, List.all_eq_true, List.mem_range] at hh
  obtain ⟨hlen, hall⟩ := hh
  have l2 := C19_prediction_length cast vocab preds
  unfold numClasses at l2
  apply List.ext_getElem?
  intro i
  by_cases hi : i < vocab.length
  · have := hall i hi
    rw [List.getElem?_eq_getElem hi, List.getElem?_eq_getElem (by omega : i < out.length)] at this
    rw [List.getElem?_eq_getElem (by omega : i < out.length)]
    rcases C19_scores_mem cast vocab h preds i hi with ⟨hno, hz⟩ | ⟨p, hp, ht, hs⟩
    · rw [hz]
      have hf : preds.filter (fun p => decide (p.tag = vocab[i])) = [] := by
        simp only [List.filter_eq_nil_iff, decide_eq_true_eq]; exact hno
      simp [hf] at this
      rw [this]
    · rw [hs]
      have hne : (preds.filter (fun p => decide (p.tag = vocab[i]))).isEmpty = false := by
        cases hf : preds.filter (fun p => decide (p.tag = vocab[i])) with
        | nil =>
          have : p ∈ preds.filter (fun p => decide (p.tag = vocab[i])) := by simp [hp, ht]
          rw [hf] at this; cases this
        | cons _ _ => rfl
      simp only [hne, Bool.false_eq_true, if_false, List.any_eq_true, List.mem_filter, decide_eq_true_eq,
        beq_iff_eq] at this
      obtain ⟨q, ⟨hq, hqt⟩, hqs⟩ := this
      rw [← hqs, huniq q hq p hp (hqt.trans ht.symm)]
  · rw [List.getElem?_eq_none (by omega), List.getElem?_eq_none (by omega)]

/-! ### equal objects hash equally -/

mutual
theorem beq_sound : ∀ (a b : Val), Val.beq a b = true → a = b
  | .none, b => by cases b <;> simp [Val.beq]
  | .bool x, b => by cases b <;> simp [Val.beq]
  | .str x, b => by cases b <;> simp [Val.beq]
  | .num x, b => by cases b <;> simp [Val.beq]
  | .list xs, b => by
    cases b <;> simp [Val.beq]
    exact beqList_sound xs _
  | .tuple xs, b => by
    cases b <;> simp [Val.beq]
    exact beqList_sound xs _
  | .obj c n xs, b => by
    cases b <;> simp [Val.beq]
    intro h1 h2 h3
    exact ⟨h1, h2, beqList_sound xs _ h3⟩
theorem beqList_sound : ∀ (a b : List Val), Val.beqList a b = true → a = b
  | [], b => by cases b <;> simp [Val.beqList]
  | x :: xs, b => by
    cases b with
    | nil => simp [Val.beqList]
    | cons y ys =>
      simp only [Val.beqList, Bool.and_eq_true, List.cons.injEq]
      exact fun ⟨h1, h2⟩ => ⟨beq_sound x y h1, beqList_sound xs ys h2⟩
end

mutual
theorem beq_refl : ∀ (a : Val), Val.beq a a = true
  | .none => by simp [Val.beq]
  | .bool _ => by simp [Val.beq]
  | .str _ => by simp [Val.beq]
  | .num _ => by simp [Val.beq]
  | .list xs => by simp [Val.beq, beqList_refl xs]
  | .tuple xs => by simp [Val.beq, beqList_refl xs]
  | .obj _ _ xs => by simp [Val.beq, beqList_refl xs]
theorem beqList_refl : ∀ (a : List Val), Val.beqList a a = true
  | [] => by simp [Val.beqList]
  | x :: xs => by simp [Val.beqList, beq_refl x, beqList_refl xs]
end

/-- the modelled `==` (same class, same field values, recursively) is equality of the trees -/
theorem C19_eq_structural (a b : Val) : Val.beq a b = true ↔ a = b :=
  ⟨beq_sound a b, fun h => h ▸ beq_refl a⟩

/-- objects that compare equal have the same hash key — for all eight classes at once
    (`hashKey` dispatches on the class: name; (term name, value); uuid) -/
theorem C19_hash_respects_eq (a b : Val) (h : Val.beq a b = true) : hashKey a = hashKey b := by
  rw [beq_sound a b h]

/-- the hash key of each class is made of fields of the object (so nothing equality ignores
    can enter a hash): whenever it is defined, every component is a field value of the
    object or of its `term` -/
theorem C19_hash_reads_fields (cls : String) (names : List String) (vals : List Val) (k : List Val)
    (h : hashKey (.obj cls names vals) = some k) :
    ∀ x ∈ k, (∃ f, (Val.obj cls names vals).field f = some x) ∨
             (∃ t f, (Val.obj cls names vals).field "term" = some t ∧ t.field f = some x) := by
  intro x hx
  simp only [hashKey] at h
  split at h
  · -- Term
    simp only [Option.map_eq_some_iff] at h
    obtain ⟨n, hn, rfl⟩ := h
    simp at hx; subst hx; exact .inl ⟨"name", hn⟩
  · split at h
    · -- Tag / Feature
      split at h
      · rename_i t v ht hv
        simp only [Option.map_eq_some_iff] at h
        obtain ⟨n, hn, rfl⟩ := h
        simp at hx
        rcases hx with rfl | rfl
        · exact .inr ⟨t, "name", ht, hn⟩
        · exact .inl ⟨"value", hv⟩
      · cases h
    · split at h
      · -- identified classes
        simp only [Option.map_eq_some_iff] at h
        obtain ⟨u, hu, rfl⟩ := h
        simp at hx; subst hx; exact .inl ⟨"uuid", hu⟩
      · cases h

/-- table form (tie 1): if every field a `__hash__` reads is a field `__eq__` compares, two
    records that agree on the compared fields agree on the hashed ones -/
theorem C19_hash_table (r : HashRow) (h : r.wellFormed = true) (a b : Record)
    (hab : agreeOn r.eqReads a b) : agreeOn r.hashReads a b := by
  intro f hf
  simp only [HashRow.wellFormed, List.all_eq_true, decide_eq_true_eq] at h
  exact hab f (h f hf)

/-- for the concrete structures of the encoder: equal tags have equal keys and equal hash keys,
    and the key of the dictionary determines the hash key -/
theorem C19_hash_respects_eq_tag (a b : Tag) (h : key a = key b) :
    a.hashKey = b.hashKey ∧ a.term.hashKey = b.term.hashKey := by
  rw [key_inj.mp h]; exact ⟨rfl, rfl⟩

/-! ### non-vacuity -/
section Examples
def tm (label name : String) : Term :=
  { label := label, definition := "d", name := name, uri := none, typeOfTerm := "property",
    comment := none, see := none, subpropertyOf := none, subclassOf := none, domain := none,
    domainIncludes := none, termRange := none, rangeIncludes := none, memberOf := none,
    instanceOf := none, equivalentProperty := none, description := none, scopeNote := none, extra := [] }
def dog : Tag := ⟨tm "animal" "a:animal", "dog"⟩
def dog' : Tag := ⟨tm "Animal" "a:animal", "dog"⟩   -- same name, other label
def cat : Tag := ⟨tm "animal" "a:animal", "cat"⟩
def brown : Tag := ⟨tm "colour" "a:colour", "brown"⟩

example : [dog, dog', brown].Nodup := by decide
example : encode [dog, dog', brown] dog' = some 1 := by decide
example : encode [dog, dog', brown] cat = none := by decide
-- a vocabulary with a repeated tag: the dictionary keeps the last position, the search the first
example : encode [dog, brown, dog] dog = some 2 ∧ searchIdx dog [dog, brown, dog] = some 0 := by decide
example : classificationEncoding [dog, brown] [cat, brown, dog] = some 1 := by decide
example : multilabelEncoding [dog, brown, cat] [cat, dog', cat] = [0, 0, 1] := by decide
example : predictionEncoding id [dog, brown] [⟨dog, 1/4⟩, ⟨cat, 1⟩, ⟨dog, 1/2⟩] = [1/2, 0] := by decide +kernel
example : holdsPrediction id [dog, brown] [⟨dog, 1/4⟩, ⟨dog, 1/2⟩] [1/4, 0] = true := by decide +kernel
example : holdsPrediction id [dog, brown] [⟨dog, 1/4⟩, ⟨dog, 1/2⟩] [3/4, 0] = false := by decide +kernel
example : (hashKey (.obj "Tag" ["term", "value"] [.obj "Term" ["label", "name"] [.str "l", .str "n"], .str "v"])).map
    (Val.beqList [.str "n", .str "v"]) = some true := by decide
example : (HashRow.mk "Term" ["label", "definition", "name"] ["name"]).wellFormed = true := by decide
example : (HashRow.mk "Term" ["label"] ["name"]).wellFormed = false := by decide
end Examples

end SE.Proofs.C19
