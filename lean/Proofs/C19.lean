/- C19 — property theorems (to be written). -/
import SoundeventModel.Basic
namespace SE.Proofs.C19

end SE.Proofs.C19
