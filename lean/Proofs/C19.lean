/-
  C19 — Tag encoding projects faithfully onto the vocabulary; equal objects hash equally.
  Property theorems only (helper lemmas live in Proofs/Lemmas/Encoding.lean).

  `encode` is the model of the code's dictionary (an association list in which a later
  equal key overwrites); the theorems relate it to the list-search reading of the property.
-/
import SoundeventModel.Encoding
import Proofs.Lemmas.Encoding
import Proofs.Lemmas.EncodingPaths
namespace SE.Proofs.C19
open SE SE.Encoding SE.Proofs.Lemmas.Encoding SE.Proofs.Lemmas.EncodingPaths

/-! ### the encoder -/

/-- what the dictionary holds for *any* vocabulary: the last position of the tag -/
theorem C19_encode_last (vocab : List Tag) (t : Tag) (i : Nat) :
    encode vocab t = some i ↔ vocab[i]? = some t ∧ ∀ j, i < j → vocab[j]? ≠ some t := by
  rw [encode_eq_lastIdx]; exact lastIdx_some

/-- a tag is encoded as `i` iff it is the `i`-th vocabulary tag -/
theorem C19_encode_iff (vocab : List Tag) (h : vocab.Nodup) (t : Tag) (i : Nat) :
    encode vocab t = some i ↔ vocab[i]? = some t := by
  rw [C19_encode_last]
  constructor
  · exact fun h => h.1
  · intro hi
    refine ⟨hi, fun j hj hjt => ?_⟩
    have hlt : i < vocab.length := (List.getElem?_eq_some_iff.mp hi).1
    have := (List.getElem?_inj hlt h).mp (hi.trans hjt.symm)
    omega

/-- … and to nothing otherwise (this half needs no distinctness) -/
theorem C19_encode_none (vocab : List Tag) (t : Tag) : encode vocab t = none ↔ t ∉ vocab := by
  rw [encode_eq_lastIdx]; exact lastIdx_none

/-- the dictionary agrees with a linear search for the first equal element -/
theorem C19_encode_eq_search (vocab : List Tag) (h : vocab.Nodup) (t : Tag) :
    encode vocab t = searchIdx t vocab := by
  rw [encode_eq_lastIdx]; exact lastIdx_eq_searchIdx h

/-- the search is "index of the first element equal to `t`" -/
theorem C19_search_first (vocab : List Tag) (t : Tag) (i : Nat) :
    searchIdx t vocab = some i ↔ vocab[i]? = some t ∧ ∀ j, j < i → vocab[j]? ≠ some t :=
  searchIdx_some

/-- an encoding is an index into the vocabulary -/
theorem C19_encode_lt (vocab : List Tag) (t : Tag) (i : Nat) (h : encode vocab t = some i) :
    i < numClasses vocab :=
  (List.getElem?_eq_some_iff.mp ((C19_encode_last vocab t i).mp h).1).1

/-- decoding an encoding gives the tag back (any vocabulary) -/
theorem C19_decode_encode (vocab : List Tag) (t : Tag) (i : Nat) (h : encode vocab t = some i) :
    decode vocab i = some t :=
  ((C19_encode_last vocab t i).mp h).1

/-- decoding then encoding is the identity on indices -/
theorem C19_encode_decode (vocab : List Tag) (h : vocab.Nodup) (i : Nat) (hi : i < numClasses vocab) :
    (decode vocab i).bind (encode vocab) = some i := by
  have : vocab[i]? = some vocab[i] := List.getElem?_eq_getElem hi
  simp only [decode, this, Option.bind_some]
  exact (C19_encode_iff vocab h _ i).mpr this

/-- the dictionary key identifies the tag: two tags have the same key iff they are equal -/
theorem C19_key_faithful (a b : Tag) : key a = key b ↔ a = b := key_inj

/-! ### classification -/

/-- the encoding of the first tag of the list that is in the vocabulary, `none` if there is none -/
theorem C19_first_in_vocab (vocab tags : List Tag) :
    classificationEncoding vocab tags = (tags.find? (· ∈ vocab)).bind (encode vocab) := by
  induction tags with
  | nil => rfl
  | cons t ts ih =>
    simp only [classificationEncoding, List.find?_cons]
    by_cases h : t ∈ vocab
    · have : encode vocab t ≠ none := fun e => (C19_encode_none vocab t).mp e h
      cases he : encode vocab t with
      | none => exact absurd he this
      | some i => simp [h, he]
    · simp [h, (C19_encode_none vocab t).mpr h, ih]

theorem C19_first_in_vocab_iff (vocab : List Tag) (h : vocab.Nodup) (tags : List Tag) (i : Nat) :
    classificationEncoding vocab tags = some i ↔
      ∃ t, tags.find? (· ∈ vocab) = some t ∧ vocab[i]? = some t := by
  rw [C19_first_in_vocab]
  cases tags.find? (· ∈ vocab) with
  | none => simp
  | some t => simp [C19_encode_iff vocab h]

theorem C19_classification_none (vocab tags : List Tag) :
    classificationEncoding vocab tags = none ↔ ∀ t ∈ tags, t ∉ vocab := by
  rw [C19_first_in_vocab]
  cases hf : tags.find? (· ∈ vocab) with
  | none => simpa using hf
  | some t =>
    have hm := List.mem_of_find?_eq_some hf
    have hv : t ∈ vocab := by simpa using List.find?_some hf
    simp only [Option.bind_some, C19_encode_none]
    exact ⟨fun h => absurd hv h, fun h => h t hm⟩

/-! ### multilabel -/

theorem C19_multilabel_length (vocab tags : List Tag) :
    (multilabelEncoding vocab tags).length = numClasses vocab := by
  simp [multilabelEncoding, fill_length, numClasses]

/-- entry `i` is 1 iff some tag of the list is encoded as `i` (any vocabulary) -/
theorem C19_indicator_general (vocab tags : List Tag) (i : Nat) (hi : i < numClasses vocab) :
    (multilabelEncoding vocab tags)[i]? =
      some (if ∃ t ∈ tags, encode vocab t = some i then 1 else 0) := by
  unfold multilabelEncoding
  rw [fill_get _ _ _ _ _ (by simpa [numClasses] using hi)]
  cases hl : lastWhere (fun t => encode vocab t == some i) tags with
  | none =>
    have := lastWhere_none.mp hl
    have hno : ¬ ∃ t ∈ tags, encode vocab t = some i := by
      rintro ⟨t, ht, he⟩; simpa [he] using this t ht
    have hi' : i < vocab.length := hi
    simp [hno, hi']
  | some x =>
    have := lastWhere_some_mem hl
    have hyes : ∃ t ∈ tags, encode vocab t = some i := ⟨x, this.1, by simpa using this.2⟩
    simp [hyes]

/-- the indicator vector of the vocabulary tags present in the list -/
theorem C19_indicator (vocab : List Tag) (h : vocab.Nodup) (tags : List Tag) (i : Nat)
    (hi : i < vocab.length) :
    (multilabelEncoding vocab tags)[i]? = some (if vocab[i] ∈ tags then 1 else 0) := by
  rw [C19_indicator_general vocab tags i hi]
  have hget : vocab[i]? = some vocab[i] := List.getElem?_eq_getElem hi
  have : (∃ t ∈ tags, encode vocab t = some i) ↔ vocab[i] ∈ tags := by
    constructor
    · rintro ⟨t, ht, he⟩
      have := (C19_encode_iff vocab h t i).mp he
      rw [hget] at this; cases this; exact ht
    · intro hm; exact ⟨_, hm, (C19_encode_iff vocab h _ i).mpr hget⟩
  simp only [this]

/-! ### predictions -/

theorem C19_prediction_length (cast : Rat → Rat) (vocab : List Tag) (preds : List PredictedTag) :
    (predictionEncoding cast vocab preds).length = numClasses vocab := by
  simp [predictionEncoding, fill_length, numClasses]

/-- entry `i` holds the stored score of the last predicted tag that is the `i`-th vocabulary
    tag, and 0 when there is none -/
theorem C19_scores (cast : Rat → Rat) (vocab : List Tag) (h : vocab.Nodup) (preds : List PredictedTag)
    (i : Nat) (hi : i < vocab.length) :
    (predictionEncoding cast vocab preds)[i]? =
      some (match lastWhere (fun p => decide (p.tag = vocab[i])) preds with
            | some p => cast p.score
            | none => 0) := by
  unfold predictionEncoding
  rw [fill_get _ _ _ _ _ (by simpa using hi)]
  have hget : vocab[i]? = some vocab[i] := List.getElem?_eq_getElem hi
  have hc : lastWhere (fun p : PredictedTag => encode vocab p.tag == some i) preds
      = lastWhere (fun p => decide (p.tag = vocab[i])) preds := by
    apply lastWhere_congr
    intro p _
    have := C19_encode_iff vocab h p.tag i
    rw [hget] at this
    by_cases hp : p.tag = vocab[i]
    · simp [hp, (C19_encode_iff vocab h _ i).mpr hget]
    · have : encode vocab p.tag ≠ some i := fun e => hp (by simpa using (this.mp e).symm)
      simp [hp, this]
  rw [hc]
  cases lastWhere (fun p => decide (p.tag = vocab[i])) preds <;> simp [hi]

/-- where every prediction of a vocabulary tag carries the same score, that score is the entry
    (the inputs on which the property determines the vector) -/
theorem C19_scores_unique (cast : Rat → Rat) (vocab : List Tag) (h : vocab.Nodup)
    (preds : List PredictedTag) (i : Nat) (hi : i < vocab.length) (s : Rat)
    (hex : ∃ p ∈ preds, p.tag = vocab[i])
    (hall : ∀ p ∈ preds, p.tag = vocab[i] → cast p.score = cast s) :
    (predictionEncoding cast vocab preds)[i]? = some (cast s) := by
  rw [C19_scores cast vocab h preds i hi]
  cases hl : lastWhere (fun p => decide (p.tag = vocab[i])) preds with
  | none =>
    obtain ⟨p, hp, ht⟩ := hex
    have := lastWhere_none.mp hl p hp
    simp [ht] at this
  | some p =>
    have := lastWhere_some_mem hl
    simp [hall p this.1 (by simpa using this.2)]

/-- an entry is never anything but 0 or the stored score of a prediction of that very tag -/
theorem C19_scores_mem (cast : Rat → Rat) (vocab : List Tag) (h : vocab.Nodup)
    (preds : List PredictedTag) (i : Nat) (hi : i < vocab.length) :
    ((∀ p ∈ preds, p.tag ≠ vocab[i]) ∧ (predictionEncoding cast vocab preds)[i]? = some 0) ∨
    (∃ p ∈ preds, p.tag = vocab[i] ∧ (predictionEncoding cast vocab preds)[i]? = some (cast p.score)) := by
  rw [C19_scores cast vocab h preds i hi]
  cases hl : lastWhere (fun p => decide (p.tag = vocab[i])) preds with
  | none =>
    left
    refine ⟨fun p hp => ?_, rfl⟩
    simpa using lastWhere_none.mp hl p hp
  | some p =>
    right
    have := lastWhere_some_mem hl
    exact ⟨p, this.1, by simpa using this.2, rfl⟩

/-! ### tags outside the vocabulary never influence a result -/

theorem C19_oov_irrelevant_classification (vocab tags : List Tag) :
    classificationEncoding vocab (tags.filter (· ∈ vocab)) = classificationEncoding vocab tags := by
  rw [C19_first_in_vocab, C19_first_in_vocab]
  congr 1
  induction tags with
  | nil => rfl
  | cons t ts ih => by_cases h : t ∈ vocab <;> simp [h, ih]

theorem C19_oov_irrelevant_multilabel (vocab tags : List Tag) :
    multilabelEncoding vocab (tags.filter (· ∈ vocab)) = multilabelEncoding vocab tags := by
  unfold multilabelEncoding
  generalize List.replicate vocab.length 0 = init
  induction tags generalizing init with
  | nil => rfl
  | cons t ts ih =>
    by_cases h : t ∈ vocab
    · simp only [List.filter_cons, h, decide_true, if_true, List.foldl_cons]; exact ih _
    · simp only [List.filter_cons, h, decide_false, Bool.false_eq_true, if_false, List.foldl_cons,
        (C19_encode_none vocab t).mpr h]
      exact ih init

theorem C19_oov_irrelevant_prediction (cast : Rat → Rat) (vocab : List Tag) (preds : List PredictedTag) :
    predictionEncoding cast vocab (preds.filter (·.tag ∈ vocab)) = predictionEncoding cast vocab preds := by
  unfold predictionEncoding
  generalize List.replicate vocab.length (0 : Rat) = init
  induction preds generalizing init with
  | nil => rfl
  | cons p ps ih =>
    by_cases h : p.tag ∈ vocab
    · simp only [List.filter_cons, h, decide_true, if_true, List.foldl_cons]; exact ih _
    · simp only [List.filter_cons, h, decide_false, Bool.false_eq_true, if_false, List.foldl_cons,
        (C19_encode_none vocab p.tag).mpr h]
      exact ih init

/-- two tag lists with the same in-vocabulary members, in the same order, are encoded alike -/
theorem C19_oov_irrelevant (cast : Rat → Rat) (vocab tags tags' : List Tag) (preds preds' : List PredictedTag)
    (ht : tags.filter (· ∈ vocab) = tags'.filter (· ∈ vocab))
    (hp : preds.filter (·.tag ∈ vocab) = preds'.filter (·.tag ∈ vocab)) :
    classificationEncoding vocab tags = classificationEncoding vocab tags' ∧
    multilabelEncoding vocab tags = multilabelEncoding vocab tags' ∧
    predictionEncoding cast vocab preds = predictionEncoding cast vocab preds' := by
  refine ⟨?_, ?_, ?_⟩
  · rw [← C19_oov_irrelevant_classification vocab tags, ht, C19_oov_irrelevant_classification]
  · rw [← C19_oov_irrelevant_multilabel vocab tags, ht, C19_oov_irrelevant_multilabel]
  · rw [← C19_oov_irrelevant_prediction cast vocab preds, hp, C19_oov_irrelevant_prediction]

/-! ### the executable statements used by the monitor mean what they say -/

theorem C19_holds_classification (vocab : List Tag) (h : vocab.Nodup) (tags : List Tag) (out : Option Nat) :
    holdsClassification vocab tags out = true ↔ out = classificationEncoding vocab tags := by
  rw [C19_first_in_vocab]
  unfold holdsClassification
  cases hf : tags.find? (· ∈ vocab) with
  | none => cases out <;> simp
  | some t =>
    have hv : t ∈ vocab := by simpa using List.find?_some hf
    cases out with
    | none =>
      have : encode vocab t ≠ none := fun e => (C19_encode_none vocab t).mp e hv
      simp; exact fun e => this e.symm
    | some i =>
      simp only [Option.bind_some, beq_iff_eq]
      rw [← C19_encode_iff vocab h t i]
      exact ⟨fun e => e.symm, fun e => e.symm⟩

theorem C19_holds_multilabel (vocab : List Tag) (h : vocab.Nodup) (tags : List Tag) (out : List Nat) :
    holdsMultilabel vocab tags out = true ↔ out = multilabelEncoding vocab tags := by
  constructor
  · intro hh
    simp only [holdsMultilabel, Bool.and_eq_true, beq_iff_eq, List.all_eq_true, List.mem_range] at hh
    obtain ⟨hlen, hall⟩ := hh
    apply List.ext_getElem?
    intro i
    by_cases hi : i < vocab.length
    · rw [C19_indicator vocab h tags i hi]
      have := hall i hi
      rw [List.getElem?_eq_getElem hi, List.getElem?_eq_getElem (by omega : i < out.length)] at this
      rw [List.getElem?_eq_getElem (by omega : i < out.length)]
      simpa using this
    · have l2 := C19_multilabel_length vocab tags
      unfold numClasses at l2
      rw [List.getElem?_eq_none (by omega), List.getElem?_eq_none (by omega)]
  · rintro rfl
    have l2 := C19_multilabel_length vocab tags
    unfold numClasses at l2
    simp only [holdsMultilabel, Bool.and_eq_true, beq_iff_eq, List.all_eq_true, List.mem_range]
    refine ⟨l2, fun i hi => ?_⟩
    rw [C19_indicator vocab h tags i hi, List.getElem?_eq_getElem hi]
    simp

/-- the model's prediction vector satisfies the monitor's statement -/
theorem C19_holds_prediction (cast : Rat → Rat) (vocab : List Tag) (h : vocab.Nodup)
    (preds : List PredictedTag) :
    holdsPrediction cast vocab preds (predictionEncoding cast vocab preds) = true := by
  have l2 := C19_prediction_length cast vocab preds
  unfold numClasses at l2
  simp only [holdsPrediction, Bool.and_eq_true, beq_iff_eq, List.all_eq_true, List.mem_range]
  refine ⟨l2, fun i hi => ?_⟩
  rw [List.getElem?_eq_getElem hi]
  rcases C19_scores_mem cast vocab h preds i hi with ⟨hno, hz⟩ | ⟨p, hp, ht, hs⟩
  · rw [hz]
    have : preds.filter (fun p => decide (p.tag = vocab[i])) = [] := by
      simp only [List.filter_eq_nil_iff, decide_eq_true_eq]; exact hno
    simp [this]
  · rw [hs]
    have hne : (preds.filter (fun p => decide (p.tag = vocab[i]))).isEmpty = false := by
      cases hf : preds.filter (fun p => decide (p.tag = vocab[i])) with
      | nil =>
        have : p ∈ preds.filter (fun p => decide (p.tag = vocab[i])) := by simp [hp, ht]
        rw [hf] at this; cases this
      | cons _ _ => rfl
    simp only [hne, Bool.false_eq_true, if_false, List.any_eq_true, List.mem_filter, decide_eq_true_eq,
      beq_iff_eq]
    exact ⟨p, ⟨hp, ht⟩, rfl⟩

/-- on inputs where every vocabulary tag is predicted with one (stored) score the statement
    determines the vector -/
theorem C19_holds_prediction_determines (cast : Rat → Rat) (vocab : List Tag) (h : vocab.Nodup)
    (preds : List PredictedTag) (out : List Rat)
    (huniq : ∀ p ∈ preds, ∀ q ∈ preds, p.tag = q.tag → cast p.score = cast q.score)
    (hh : holdsPrediction cast vocab preds out = true) :
    out = predictionEncoding cast vocab preds := by
  simp only [holdsPrediction, Bool.and_eq_true, beq_iff_eq, List.all_eq_true, List.mem_range] at hh
  obtain ⟨hlen, hall⟩ := hh
  have l2 := C19_prediction_length cast vocab preds
  unfold numClasses at l2
  apply List.ext_getElem?
  intro i
  by_cases hi : i < vocab.length
  · have := hall i hi
    rw [List.getElem?_eq_getElem hi, List.getElem?_eq_getElem (by omega : i < out.length)] at this
    rw [List.getElem?_eq_getElem (by omega : i < out.length)]
    rcases C19_scores_mem cast vocab h preds i hi with ⟨hno, hz⟩ | ⟨p, hp, ht, hs⟩
    · rw [hz]
      have hf : preds.filter (fun p => decide (p.tag = vocab[i])) = [] := by
        simp only [List.filter_eq_nil_iff, decide_eq_true_eq]; exact hno
      simp [hf] at this
      rw [this]
    · rw [hs]
      have hne : (preds.filter (fun p => decide (p.tag = vocab[i]))).isEmpty = false := by
        cases hf : preds.filter (fun p => decide (p.tag = vocab[i])) with
        | nil =>
          have : p ∈ preds.filter (fun p => decide (p.tag = vocab[i])) := by simp [hp, ht]
          rw [hf] at this; cases this
        | cons _ _ => rfl
      simp only [hne, Bool.false_eq_true, if_false, List.any_eq_true, List.mem_filter, decide_eq_true_eq,
        beq_iff_eq] at this
      obtain ⟨q, ⟨hq, hqt⟩, hqs⟩ := this
      rw [← hqs, huniq q hq p hp (hqt.trans ht.symm)]
  · rw [List.getElem?_eq_none (by omega), List.getElem?_eq_none (by omega)]

/-! ### equal objects hash equally -/

mutual
theorem beq_sound : ∀ (a b : Val), Val.beq a b = true → a = b
  | .none, b => by cases b <;> simp [Val.beq]
  | .bool x, b => by cases b <;> simp [Val.beq]
  | .str x, b => by cases b <;> simp [Val.beq]
  | .num x, b => by cases b <;> simp [Val.beq]
  | .list xs, b => by
    cases b <;> simp [Val.beq]
    exact beqList_sound xs _
  | .tuple xs, b => by
    cases b <;> simp [Val.beq]
    exact beqList_sound xs _
  | .obj c n xs, b => by
    cases b <;> simp [Val.beq]
    intro h1 h2 h3
    exact ⟨h1, h2, beqList_sound xs _ h3⟩
theorem beqList_sound : ∀ (a b : List Val), Val.beqList a b = true → a = b
  | [], b => by cases b <;> simp [Val.beqList]
  | x :: xs, b => by
    cases b with
    | nil => simp [Val.beqList]
    | cons y ys =>
      simp only [Val.beqList, Bool.and_eq_true, List.cons.injEq]
      exact fun ⟨h1, h2⟩ => ⟨beq_sound x y h1, beqList_sound xs ys h2⟩
end

mutual
theorem beq_refl : ∀ (a : Val), Val.beq a a = true
  | .none => by simp [Val.beq]
  | .bool _ => by simp [Val.beq]
  | .str _ => by simp [Val.beq]
  | .num _ => by simp [Val.beq]
  | .list xs => by simp [Val.beq, beqList_refl xs]
  | .tuple xs => by simp [Val.beq, beqList_refl xs]
  | .obj _ _ xs => by simp [Val.beq, beqList_refl xs]
theorem beqList_refl : ∀ (a : List Val), Val.beqList a a = true
  | [] => by simp [Val.beqList]
  | x :: xs => by simp [Val.beqList, beq_refl x, beqList_refl xs]
end

/-- the modelled `==` (same class, same field values, recursively) is equality of the trees -/
theorem C19_eq_structural (a b : Val) : Val.beq a b = true ↔ a = b :=
  ⟨beq_sound a b, fun h => h ▸ beq_refl a⟩

/-- objects that compare equal have the same hash key — for all eight classes at once
    (`hashKey` dispatches on the class: name; (term name, value); uuid) -/
theorem C19_hash_respects_eq (a b : Val) (h : Val.beq a b = true) : hashKey a = hashKey b := by
  rw [beq_sound a b h]

/-- the hash key of each class is made of fields of the object (so nothing equality ignores
    can enter a hash): whenever it is defined, every component is a field value of the
    object or of its `term` -/
theorem C19_hash_reads_fields (cls : String) (names : List String) (vals : List Val) (k : List Val)
    (h : hashKey (.obj cls names vals) = some k) :
    ∀ x ∈ k, (∃ f, (Val.obj cls names vals).field f = some x) ∨
             (∃ t f, (Val.obj cls names vals).field "term" = some t ∧ t.field f = some x) := by
  intro x hx
  simp only [hashKey] at h
  split at h
  · -- Term
    simp only [Option.map_eq_some_iff] at h
    obtain ⟨n, hn, rfl⟩ := h
    simp at hx; subst hx; exact .inl ⟨"name", hn⟩
  · split at h
    · -- Tag / Feature
      split at h
      · rename_i t v ht hv
        simp only [Option.map_eq_some_iff] at h
        obtain ⟨n, hn, rfl⟩ := h
        simp at hx
        rcases hx with rfl | rfl
        · exact .inr ⟨t, "name", ht, hn⟩
        · exact .inl ⟨"value", hv⟩
      · cases h
    · split at h
      · -- identified classes
        simp only [Option.map_eq_some_iff] at h
        obtain ⟨u, hu, rfl⟩ := h
        simp at hx; subst hx; exact .inl ⟨"uuid", hu⟩
      · cases h

/-- table form (tie 1): if every field a `__hash__` reads is a field `__eq__` compares, two
    records that agree on the compared fields agree on the hashed ones -/
theorem C19_hash_table (r : HashRow) (h : r.wellFormed = true) (a b : Record)
    (hab : agreeOn r.eqReads a b) : agreeOn r.hashReads a b := by
  intro f hf
  simp only [HashRow.wellFormed, List.all_eq_true, decide_eq_true_eq] at h
  exact hab f (h f hf)

/-- for the concrete structures of the encoder: equal tags have equal keys and equal hash keys,
    and the key of the dictionary determines the hash key -/
theorem C19_hash_respects_eq_tag (a b : Tag) (h : key a = key b) :
    a.hashKey = b.hashKey ∧ a.term.hashKey = b.term.hashKey := by
  rw [key_inj.mp h]; exact ⟨rfl, rfl⟩


/-! ### review additions: the three encodings over any `Encoder` -/

/-- the result of the first element the encoder does not skip -/
theorem C19_generic_classification {α} (enc : α → Option Int) (tags : List α) :
    classificationG enc tags = (tags.find? (fun t => (enc t).isSome)).bind enc := by
  induction tags with
  | nil => rfl
  | cons t ts ih =>
    simp only [classificationG, List.find?_cons]
    cases he : enc t with
    | none => simp [ih]
    | some i => simp [he]

/-- the fill loops raise (`IndexError`) exactly when some element is given an index outside `[-n, n)` -/
theorem C19_generic_fill_error_iff {α β} (enc : α → Option Int) (val : α → β) (n : Nat) (zero : β) (xs : List α) :
    fillG enc val n zero xs = none ↔ ∃ x ∈ xs, ∃ i, enc x = some i ∧ (i < -(n : Int) ∨ (n : Int) ≤ i) := by
  unfold fillG
  rw [fillM_eq]
  simp only [List.length_replicate]
  constructor
  · intro h
    split at h
    · rename_i hany
      obtain ⟨x, hx, ho⟩ := List.any_eq_true.mp hany
      refine ⟨x, hx, ?_⟩
      unfold oor at ho
      cases he : enc x with
      | none => simp [he] at ho
      | some i =>
        rw [he] at ho
        exact ⟨i, rfl, (normIdx_none_iff n i).mp (by simpa using ho)⟩
    · cases h
  · rintro ⟨x, hx, i, he, hi⟩
    have : xs.any (oor enc n) = true :=
      List.any_eq_true.mpr ⟨x, hx, by simp [oor, he, (normIdx_none_iff n i).mpr hi]⟩
    simp [this]

/-- when they do not raise, the vector has `n` entries and entry `k` holds the value of the last
    element stored at position `k` (numpy index rule), the initial value if there is none -/
theorem C19_generic_fill_get {α β} (enc : α → Option Int) (val : α → β) (n : Nat) (zero : β) (xs : List α)
    (out : List β) (h : fillG enc val n zero xs = some out) :
    out.length = n ∧ ∀ k, k < n → out[k]? =
      some (match lastWhere (fun x => slot enc n x == some k) xs with
            | some x => val x
            | none => zero) := by
  unfold fillG at h
  rw [fillM_eq] at h
  simp only [List.length_replicate] at h
  split at h
  · cases h
  · simp only [Option.some.injEq] at h
    subst h
    refine ⟨by simp [fill_length], fun k hk => ?_⟩
    rw [fill_get _ _ _ _ _ (by simpa using hk)]
    cases lastWhere (fun x => slot enc n x == some k) xs <;> simp [hk]

/-- the multilabel vector over any encoder: entry `k` is 1 iff some tag is stored at `k` -/
theorem C19_generic_multilabel {α} (enc : α → Option Int) (n : Nat) (tags : List α) (out : List Nat)
    (h : multilabelG enc n tags = some out) (k : Nat) (hk : k < n) :
    out[k]? = some (if ∃ t ∈ tags, slot enc n t = some k then 1 else 0) := by
  rw [(C19_generic_fill_get enc _ n 0 tags out h).2 k hk]
  cases hl : lastWhere (fun x => slot enc n x == some k) tags with
  | none =>
    have := lastWhere_none.mp hl
    have hno : ¬ ∃ t ∈ tags, slot enc n t = some k := by
      rintro ⟨t, ht, he⟩; simpa [he] using this t ht
    simp [hno]
  | some x =>
    have := lastWhere_some_mem hl
    have hyes : ∃ t ∈ tags, slot enc n t = some k := ⟨x, this.1, by simpa using this.2⟩
    simp [hyes]

/-- elements the encoder skips never influence a result (any encoder) -/
theorem C19_generic_skip {α β} (enc : α → Option Int) (val : α → β) (n : Nat) (zero : β) (xs : List α) :
    classificationG enc (xs.filter fun x => (enc x).isSome) = classificationG enc xs ∧
    fillG enc val n zero (xs.filter fun x => (enc x).isSome) = fillG enc val n zero xs := by
  constructor
  · induction xs with
    | nil => rfl
    | cons x xs ih =>
      cases he : enc x with
      | none => simp [he, classificationG, ih]
      | some i => simp [he, classificationG]
  · unfold fillG
    generalize List.replicate n zero = init
    induction xs generalizing init with
    | nil => rfl
    | cons x xs ih =>
      cases he : enc x with
      | none =>
        simp only [List.filter_cons, he, Option.isSome_none, Bool.false_eq_true, if_false, List.foldlM_cons, storeI]
        exact ih init
      | some i =>
        simp only [List.filter_cons, he, Option.isSome_some, if_true, List.foldlM_cons]
        cases storeI init (some i) (val x) with
        | none => rfl
        | some a => simp [ih]

theorem slot_encodeI (vocab : List Tag) (t : Tag) : slot (encodeI vocab) vocab.length t = encode vocab t := by
  unfold slot encodeI
  cases he : encode vocab t with
  | none => rfl
  | some i =>
    have := C19_encode_lt vocab t i he
    unfold numClasses at this
    simp [normIdx, this]

theorem oor_encodeI (vocab : List Tag) (t : Tag) : oor (encodeI vocab) vocab.length t = false := by
  have := slot_encodeI vocab t
  unfold slot at this
  unfold oor
  cases he : encodeI vocab t with
  | none => rfl
  | some i =>
    rw [he] at this
    cases hn : normIdx vocab.length i with
    | some k => simp [hn]
    | none =>
      simp only [hn, Option.bind_some] at this
      unfold encodeI at he
      cases h2 : encode vocab t with
      | none => simp [h2] at he
      | some j => rw [h2] at this; cases this

/-- `SimpleEncoder` is one instance: through the generic functions it gives the vocabulary
    encodings of the first half of this file, and never raises -/
theorem C19_simple_is_generic (cast : Rat → Rat) (vocab tags : List Tag) (preds : List PredictedTag) :
    classificationG (encodeI vocab) tags = (classificationEncoding vocab tags).map Int.ofNat ∧
    multilabelG (encodeI vocab) vocab.length tags = some (multilabelEncoding vocab tags) ∧
    predictionG cast (fun p => encodeI vocab p.tag) (·.score) vocab.length preds
      = some (predictionEncoding cast vocab preds) := by
  refine ⟨?_, ?_, ?_⟩
  · induction tags with
    | nil => rfl
    | cons t ts ih =>
      simp only [classificationG, classificationEncoding, encodeI]
      cases encode vocab t with
      | none => simpa using ih
      | some i => simp
  · unfold multilabelG fillG multilabelEncoding
    rw [fillM_eq]
    simp only [List.length_replicate]
    have : tags.any (oor (encodeI vocab) vocab.length) = false := by
      simp [oor_encodeI]
    simp only [this, Bool.false_eq_true, if_false, slot_encodeI]
  · unfold predictionG fillG predictionEncoding
    rw [fillM_eq]
    simp only [List.length_replicate]
    have h1 : ∀ p : PredictedTag, oor (fun p : PredictedTag => encodeI vocab p.tag) vocab.length p = false := by
      intro p; exact oor_encodeI vocab p.tag
    have h2 : ∀ p : PredictedTag, slot (fun p : PredictedTag => encodeI vocab p.tag) vocab.length p = encode vocab p.tag := by
      intro p; exact slot_encodeI vocab p.tag
    have : preds.any (oor (fun p : PredictedTag => encodeI vocab p.tag) vocab.length) = false := by
      simp [h1]
    simp only [this, Bool.false_eq_true, if_false, h2]

/-! ### review additions: `decode` for any Python integer -/

theorem C19_decodeI_nonneg (vocab : List Tag) (i : Nat) : decodeI vocab (i : Int) = decode vocab i := by
  unfold decodeI decode
  rw [normIdx_ofNat]
  by_cases h : i < vocab.length
  · simp [h]
  · simp [h]

/-- a negative index counts from the end -/
theorem C19_decodeI_neg (vocab : List Tag) (k : Nat) (h0 : 0 < k) (hk : k ≤ vocab.length) :
    decodeI vocab (-(k : Int)) = vocab[vocab.length - k]? := by
  unfold decodeI
  rw [normIdx_neg _ _ h0 hk]; rfl

/-- `IndexError` exactly outside `[-n, n)` -/
theorem C19_decodeI_none_iff (vocab : List Tag) (i : Int) :
    decodeI vocab i = none ↔ i < -(vocab.length : Int) ∨ (vocab.length : Int) ≤ i := by
  unfold decodeI
  rw [← normIdx_none_iff]
  cases hn : normIdx vocab.length i with
  | none => simp
  | some k =>
    have := normIdx_lt hn
    simp [List.getElem?_eq_getElem this]


/-! ### review additions: `find_tag` / `find_feature` -/

/-- with a term given: the first element whose term equals it (the label is not looked at),
    else the default -/
theorem C19_find_by_term {α} (termOf : α → Term) (xs : List α) (label : Option String) (tm : Term)
    (default : Option α) :
    findBy termOf xs label (some tm) default = some ((xs.find? fun x => termOf x = tm).or default) := rfl

/-- with only a label given: the first element whose term carries that label, else the default -/
theorem C19_find_by_label {α} (termOf : α → Term) (xs : List α) (l : String) (default : Option α) :
    findBy termOf xs (some l) none default = some ((xs.find? fun x => (termOf x).label = l).or default) := rfl

/-- `ValueError` exactly when neither is given -/
theorem C19_find_by_error_iff {α} (termOf : α → Term) (xs : List α) (label : Option String) (term : Option Term)
    (default : Option α) : findBy termOf xs label term default = none ↔ label = none ∧ term = none := by
  unfold findBy
  cases term <;> cases label <;> simp

/-- first-match semantics, spelled out: the answer `xs[i]` matches and nothing before it does;
    the default is returned only when nothing matches -/
theorem C19_find_by_first {α} (termOf : α → Term) (xs : List α) (label : Option String) (tm : Term)
    (default r : Option α) (h : findBy termOf xs label (some tm) default = some r) :
    (∃ i x, xs[i]? = some x ∧ r = some x ∧ termOf x = tm ∧ ∀ j : Nat, j < i → ∀ y, xs[j]? = some y → termOf y ≠ tm) ∨
    ((∀ x ∈ xs, termOf x ≠ tm) ∧ r = default) := by
  simp only [findBy, Option.some.injEq] at h
  subst h
  cases hf : xs.find? (fun x => termOf x = tm) with
  | none =>
    right
    refine ⟨fun x hx => ?_, by simp⟩
    simpa using (List.find?_eq_none.mp hf) x hx
  | some x =>
    left
    obtain ⟨hp, i, hi, hx, hbefore⟩ := List.find?_eq_some_iff_getElem.mp hf
    refine ⟨i, x, by simp [hi, hx], by simp, by simpa using hp, ?_⟩
    intro j hj y hy
    have hjl : j < xs.length := by omega
    have := hbefore j hj
    rw [List.getElem?_eq_getElem hjl] at hy
    cases hy
    simpa using this

/-! ### review additions: the deprecated `key=` / `name=` construction path -/

theorem C19_key_of_term_from_key (k : String) : keyFromTerm (termFromKey k) = k := rfl

theorem C19_term_from_key_inj (a b : String) : termFromKey a = termFromKey b ↔ a = b := by
  constructor
  · intro h; exact congrArg Term.label h
  · rintro rfl; rfl

/-- a given term wins over the key; the key alone stands for `term_from_key key` -/
theorem C19_tag_init (key : Option String) (term : Option Term) (value : String) :
    (∀ tm, term = some tm → tagInit key term value = some ⟨tm, value⟩) ∧
    (∀ k, term = none → key = some k → tagInit key term value = some ⟨termFromKey k, value⟩) ∧
    (tagInit key term value = none ↔ term = none ∧ key = none) := by
  refine ⟨?_, ?_, ?_⟩
  · rintro tm rfl; rfl
  · rintro k rfl rfl; rfl
  · cases term <;> cases key <;> simp [tagInit]

theorem C19_feature_init (name : Option String) (term : Option Term) (value : Rat) :
    (∀ tm, term = some tm → featureInit name term value = some ⟨tm, value⟩) ∧
    (∀ k, term = none → name = some k → featureInit name term value = some ⟨termFromKey k, value⟩) ∧
    (featureInit name term value = none ↔ term = none ∧ name = none) := by
  refine ⟨?_, ?_, ?_⟩
  · rintro tm rfl; rfl
  · rintro k rfl rfl; rfl
  · cases term <;> cases name <;> simp [featureInit]

/-- tags made from keys are equal iff key and value are, whichever way they were built, and
    then hash alike; so a vocabulary of distinct (key, value) pairs is a vocabulary of distinct tags -/
theorem C19_key_tags_faithful (k k' v v' : String) :
    (tagInit (some k) none v = tagInit none (some (termFromKey k')) v' ↔ k = k' ∧ v = v') ∧
    (tagInit (some k) none v = tagInit (some k') none v' ↔ k = k' ∧ v = v') ∧
    ((tagInit (some k) none v).map Tag.hashKey = some ("soundevent:" ++ k, v)) := by
  refine ⟨?_, ?_, rfl⟩ <;>
  · simp only [tagInit, Option.map_some, Option.some.injEq, Tag.mk.injEq, C19_term_from_key_inj]

theorem C19_key_vocab_nodup (kvs : List (String × String)) (h : kvs.Nodup) :
    (kvs.map fun kv => (⟨termFromKey kv.1, kv.2⟩ : Tag)).Nodup := by
  unfold List.Nodup at *
  refine List.Pairwise.map _ ?_ h
  intro a b hne hab
  simp only [Tag.mk.injEq, C19_term_from_key_inj] at hab
  exact hne (Prod.ext hab.1 hab.2)


/-! ### review additions: equal keys with equal hashes make a hash table an association list -/

/-- **equal objects hash equally ⇒ dictionaries and sets keyed by them are sound**: if `==`-equal
    keys have equal hashes, a dictionary filled through the hash table answers every lookup as the
    plain association list under `==` does, and set membership is `any (== x)` -/
theorem C19_hashdict_sound {ρ} (eqv : ρ → ρ → Bool) (h : ρ → Int) (hc : ∀ a b, eqv a b = true → h a = h b)
    (keys : List ρ) (k : ρ) :
    hdGet eqv h (hdBuild eqv h [] 0 keys) k = adGet eqv (adBuild eqv [] 0 keys) k ∧
    hsMem eqv h keys k = keys.any (eqv · k) := by
  refine ⟨?_, ?_⟩
  · rw [hdBuild_eq_adBuild eqv h hc, (hd_eq_ad eqv h hc _ k).2]
  · unfold hsMem
    congr 1
    funext x
    cases he : eqv x k with
    | false => simp
    | true => simp [hc x k he]

/-- the converse is what goes wrong otherwise: a key that is `==` to a stored one but hashes
    differently is not found -/
theorem C19_hashdict_needs_contract {ρ ν} (eqv : ρ → ρ → Bool) (h : ρ → Int) (a b : ρ) (v : ν)
    (hne : h a ≠ h b) : hdGet eqv h [(a, v)] b = none ∧ hsMem eqv h [a] b = false := by
  simp [hdGet, hsMem, hne]

/-- the encoder of the model *is* the hash table of the code, whatever the hash function of the
    keys (structural `==` of the key tuples: every hash function respects it) -/
theorem C19_encoder_on_hash_table (h : Term × String → Int) (vocab : List Tag) (t : Tag) :
    hdGet (fun a b => decide (a = b)) h (hdBuild (fun a b => decide (a = b)) h [] 0 (vocab.map key)) (key t)
      = encode vocab t := by
  rw [(C19_hashdict_sound (fun a b => decide (a = b)) h (by intro a b hab; simp at hab; rw [hab]) _ _).1,
    adBuild_eq_buildFrom, adGet_eq_dictGet]
  rfl

/-! ### review additions: Python's `==` on raw values, and the hand-written hashes -/

/-- Python's `==` on raw values (an `int` equals the `float` of the same value, `0.0 == -0.0`) is
    equality of the canonical trees: the harness may compare canonical trees -/
theorem C19_pyeq_canonical (a b : PyVal) : PyVal.beq a b = true ↔ a.canon = b.canon := by
  rw [pybeq_canon, C19_eq_structural]

/-- … hence an equivalence relation -/
theorem C19_pyeq_equivalence :
    (∀ a, PyVal.beq a a = true) ∧ (∀ a b, PyVal.beq a b = true → PyVal.beq b a = true) ∧
    (∀ a b c, PyVal.beq a b = true → PyVal.beq b c = true → PyVal.beq a c = true) := by
  refine ⟨fun a => (C19_pyeq_canonical a a).mpr rfl,
    fun a b h => (C19_pyeq_canonical b a).mpr ((C19_pyeq_canonical a b).mp h).symm,
    fun a b c h1 h2 => (C19_pyeq_canonical a c).mpr
      (((C19_pyeq_canonical a b).mp h1).trans ((C19_pyeq_canonical b c).mp h2))⟩

/-- **equal objects hash equally**, on raw Python values that `==` identifies although they are
    different objects (`1` and `1.0`, `0.0` and `-0.0`, inside any of the eight classes): for any
    primitive hash functions that agree on integral floats (CPython's numeric hash invariant) and
    any way of combining field hashes, `a == b` implies `hash(a) == hash(b)` (also: both unhashable) -/
theorem C19_pyhash_respects_eq (hf : String → Option (List String)) (H : PyHasher)
    (hfi : ∀ n : Int, H.float n = H.int n) (a b : PyVal)
    (h : PyVal.beq a b = true) : pyHash hf H a = pyHash hf H b := pyhash_respects hf H hfi a b h

/-- what a hand-written hash reads: two objects of a class that agree (`==`) on the hashed fields
    hash alike, whatever their other fields hold -/
theorem C19_pyhash_reads_only (hf : String → Option (List String)) (H : PyHasher) (cls : String)
    (names : List String) (vals vals' : List PyVal) (fs : List String) (hfs : hf cls = some fs)
    (hagree : ∀ f ∈ fs, ((names.zip (pyHashList hf H vals)).lookup f) = ((names.zip (pyHashList hf H vals')).lookup f)) :
    pyHash hf H (.obj cls names vals) = pyHash hf H (.obj cls names vals') := by
  simp only [pyHash, hfs]
  congr 2
  exact List.map_congr_left fun f hfm => by rw [hagree f hfm]


/-! ### follow-up 3: construction paths (extras order, call styles) and histories -/

/-- Python's `dict.__eq__` on the extras of two terms is "the same items in any order" -/
theorem C19_extras_eq_iff_perm (a b : Extras) (ha : (a.map (·.1)).Nodup) (hb : (b.map (·.1)).Nodup) :
    dictEqv a b = true ↔ a.Perm b :=
  dictEqv_iff_perm ha hb

/-- … hence equality of the key-sorted item lists: the walk of the harness (`sorted(extra.items())`)
    loses nothing `==` sees and keeps nothing it ignores -/
theorem C19_extras_canonical (a b : Extras) (ha : (a.map (·.1)).Nodup) (hb : (b.map (·.1)).Nodup) :
    dictEqv a b = true ↔ canonExtras a = canonExtras b := by
  rw [dictEqv_iff_perm ha hb, perm_iff_canon_eq ha]

/-- two terms however constructed (extras by keyword, from a dict, from JSON, by `model_copy(update=…)`,
    in any order): pydantic's `==` holds iff the canonical terms of the model are equal; equal terms then
    have the same hash key (the name), so do the tags built on them, and the encoder of the vocabulary
    `[Tag(a, v)]` finds `Tag(b, v)` at index 0 -/
theorem C19_term_paths (a b : RawTerm) (ha : a.wf) (hb : b.wf) :
    (a.pyEq b = true ↔ a.canon = b.canon) ∧
    (a.pyEq b = true → a.canon.hashKey = b.canon.hashKey ∧
      ∀ v : String, (⟨a.canon, v⟩ : Tag).hashKey = (⟨b.canon, v⟩ : Tag).hashKey ∧
        encode [⟨a.canon, v⟩] ⟨b.canon, v⟩ = some 0) := by
  have key : a.pyEq b = true ↔ a.canon = b.canon := by
    unfold RawTerm.pyEq RawTerm.canon
    rw [Bool.and_eq_true, decide_eq_true_eq, C19_extras_canonical _ _ ha hb]
    constructor
    · rintro ⟨h1, h2⟩
      have : a.core.noExtra = b.core.noExtra := h1
      cases hac : a.core; cases hbc : b.core
      simp only [hac, hbc, Term.noExtra, Term.mk.injEq] at this ⊢
      simp only [this, h2, and_self]
    · intro h
      cases hac : a.core; cases hbc : b.core
      simp only [hac, hbc, Term.noExtra, Term.mk.injEq] at h ⊢
      simp only [h, and_self]
  refine ⟨key, fun h => ?_⟩
  have e := key.mp h
  refine ⟨by rw [e], fun v => ⟨by rw [e], ?_⟩⟩
  rw [e]
  exact (C19_encode_iff [⟨b.canon, v⟩] (by simp) _ 0).mpr rfl

/-- what the property forbids: a hash that folds the extras *in insertion order* (any hash of the item
    list that tells the two orders apart) gives two equal terms different hashes, and then a hash table
    holding one does not find the other (`C19_hashdict_needs_contract`) -/
theorem C19_order_hash_breaks (hs : String → Int) (hx : Extras → Int) (mix : Int → Int → Int)
    (hmix : ∀ n x y, mix n x = mix n y → x = y) (a b : RawTerm) (hname : a.core.name = b.core.name)
    (hord : hx a.extra ≠ hx b.extra) (v : Nat) :
    orderHash hs hx mix a ≠ orderHash hs hx mix b ∧
    hdGet (fun x y => RawTerm.pyEq x y) (orderHash hs hx mix) [(a, v)] b = none := by
  have hne : orderHash hs hx mix a ≠ orderHash hs hx mix b := by
    unfold orderHash; rw [hname]; exact fun e => hord (hmix _ _ _ e)
  exact ⟨hne, (C19_hashdict_needs_contract _ _ a b v hne).1⟩

/-- Python's call binding: a parameter given positionally is bound to the argument at its position, any
    other to the keyword argument of its name (none: left to its default) -/
theorem C19_call_binding {α} (params : List String) (hn : params.Nodup) (pos : List α) (kw : List (String × α))
    (b : List (String × α)) (h : bindCall params pos kw = some b) (i : Nat) (hi : i < params.length) :
    b.lookup params[i] = if hp : i < pos.length then some pos[i] else kw.lookup params[i] := by
  unfold bindCall at h
  split at h
  · cases h
  · split at h
    · cases h
      split
      · rename_i hp
        exact lookup_append_of_lookup_some _ _ _ _ (lookup_zip_getElem params pos hn i hi hp)
      · rename_i hp
        apply lookup_append_of_not_mem_keys
        intro hk
        have hmem := keys_zip_subset params pos _ hk
        obtain ⟨j, hj, hje⟩ := List.getElem_of_mem hmem
        have hjlt : j < pos.length := by
          have : j < (params.take pos.length).length := hj
          simp only [List.length_take] at this; omega
        rw [List.getElem_take] at hje
        have hjp : j < params.length := by
          have : j < (params.take pos.length).length := hj
          simp only [List.length_take] at this; omega
        have := (List.getElem_inj (h₀ := hjp) (h₁ := hi) hn).mp hje
        omega
    · cases h

/-- `find_tag(tags, label, term, default)` called positionally in the documented order binds exactly as the
    call with keywords, in whatever order the keywords are written -/
theorem C19_find_call_styles {α} (tags label term default : α) (kw : List (String × α))
    (hkw : kw.Perm [("label", label), ("term", term), ("default", default)]) :
    ∃ b₁ b₂, bindCall findTagSig [tags, label, term, default] [] = some b₁ ∧
      bindCall findTagSig [tags] kw = some b₂ ∧
      ∀ p ∈ findTagSig, b₁.lookup p = b₂.lookup p := by
  have hkeys : (kw.map (·.1)).Perm ["label", "term", "default"] := by simpa using hkw.map (·.1)
  have hnd : (kw.map (·.1)).Nodup := hkeys.nodup_iff.mpr (by decide)
  have hall : (kw.all fun p => (findTagSig.drop 1).contains p.1) = true := by
    rw [List.all_eq_true]
    intro p hp
    have : p.1 ∈ ["label", "term", "default"] := hkeys.subset (List.mem_map.mpr ⟨p, hp, rfl⟩)
    simp only [findTagSig, List.drop_succ_cons, List.drop_zero, List.contains_eq_mem, decide_eq_true_eq]
    exact this
  have hb2 : bindCall findTagSig [tags] kw = some (findTagSig.zip [tags] ++ kw) := by
    unfold bindCall
    rw [if_neg (by simp [findTagSig])]
    have : List.length [tags] = 1 := rfl
    rw [this, hall, decide_eq_true hnd]
    rfl
  have hb1 : bindCall findTagSig [tags, label, term, default] [] =
      some (findTagSig.zip [tags, label, term, default] ++ []) := by
    simp [bindCall, findTagSig]
  refine ⟨_, _, hb1, hb2, ?_⟩
  have hsig : findTagSig.Nodup := by decide
  intro p hp
  obtain ⟨i, hi, rfl⟩ := List.getElem_of_mem hp
  rw [C19_call_binding findTagSig hsig _ _ _ hb1 i hi, C19_call_binding findTagSig hsig _ _ _ hb2 i hi]
  have hlook : ∀ k v, [("label", label), ("term", term), ("default", default)].lookup k = some v →
      kw.lookup k = some v := by
    intro k v hv
    have hm : (k, v) ∈ kw := by
      have : (k, v) ∈ [("label", label), ("term", term), ("default", default)] := by
        revert hv
        simp only [List.lookup_cons, List.lookup_nil]
        intro hv
        split at hv
        · simp_all
        · split at hv
          · simp_all
          · split at hv <;> simp_all
      exact hkw.symm.subset this
    -- lookup in a list with distinct keys finds the item
    have : ∀ (l : List (String × α)), (l.map (·.1)).Nodup → (k, v) ∈ l → l.lookup k = some v := by
      intro l hl hm
      induction l with
      | nil => cases hm
      | cons q l ih =>
        obtain ⟨a, c⟩ := q
        simp only [List.map_cons, List.nodup_cons] at hl
        by_cases hka : k = a
        · subst hka
          rcases List.mem_cons.mp hm with e | hm'
          · cases e; simp
          · exact absurd (List.mem_map.mpr ⟨(k, v), hm', rfl⟩) hl.1
        · have hbq : (k == a) = false := by simpa using hka
          rcases List.mem_cons.mp hm with e | hm'
          · cases e; exact absurd rfl hka
          · simp only [List.lookup_cons, hbq]; exact ih hl.2 hm'
    exact this kw hnd hm
  have h4 : i < 4 := by simpa [findTagSig] using hi
  rcases i with _ | _ | _ | _ | i
  · simp
  · simp only [findTagSig, List.length_cons, List.length_nil]
    simp only [show ¬ (1 < 1) by omega, dite_false, List.lookup_nil]
    simp only [show (1 : Nat) < 0 + 1 + 1 + 1 + 1 by omega, dite_true]
    exact (hlook "label" label (by simp)).symm
  · simp only [findTagSig, List.length_cons, List.length_nil]
    simp only [show ¬ (2 < 1) by omega, dite_false]
    simp only [show (2 : Nat) < 0 + 1 + 1 + 1 + 1 by omega, dite_true]
    exact (hlook "term" term rfl).symm
  · simp only [findTagSig, List.length_cons, List.length_nil]
    simp only [show ¬ (3 < 1) by omega, dite_false]
    simp only [show (3 : Nat) < 0 + 1 + 1 + 1 + 1 by omega, dite_true]
    exact (hlook "default" default rfl).symm
  · omega

/-- a history of calls answered through a memo table agrees, step by step, with the pure function iff the
    memo key determines the answer (a cache keyed by the *full* input is invisible) … -/
theorem C19_history_cache_sound {α β κ} [BEq κ] [LawfulBEq κ] (f : α → β) (p : α → κ)
    (h : ∀ x y, p x = p y → f x = f y) (xs : List α) : memoRun f p [] xs = xs.map f :=
  memoRun_sound f p h [] (by simp) xs

/-- … and a cache keyed by a *part* of the input answers the second of two neighbours (same key, other
    answer) wrongly: the history `x, y` tells it apart from the pure function -/
theorem C19_history_cache_stale {α β κ} [BEq κ] [LawfulBEq κ] (f : α → β) (p : α → κ) (x y : α)
    (hk : p x = p y) (hf : f x ≠ f y) : memoRun f p [] [x, y] = [f x, f x] ∧ memoRun f p [] [x, y] ≠ [x, y].map f := by
  have : memoRun f p [] [x, y] = [f x, f x] := by
    simp [memoRun, memoCall, hk]
  refine ⟨this, ?_⟩
  rw [this]
  simp only [List.map_cons, List.map_nil, ne_eq, List.cons.injEq, and_true, true_and]
  exact hf

/-- an object that forgets its memoised hash whenever its content changes (or memoises nothing) answers
    every `hash(obj)` of every history with the hash of the content it carries *at that moment* -/
theorem C19_history_hash_now {α} (h : α → Int) (c : Cell α) (hc : ∀ v, c.memo = some v → v = h c.content)
    (steps : List (CellStep α)) : ∀ o ∈ Cell.run h true c steps, o.1 = h o.2 := by
  induction steps generalizing c with
  | nil => simp [Cell.run]
  | cons s ss ih =>
    cases s with
    | use =>
      cases hm : c.memo with
      | some v =>
        have hv := hc v hm
        simp only [Cell.run, Cell.step, hm]
        intro o ho
        rcases List.mem_cons.mp ho with e | ho
        · rw [e]; exact hv
        · exact ih c hc o ho
      | none =>
        simp only [Cell.run, Cell.step, hm]
        intro o ho
        rcases List.mem_cons.mp ho with e | ho
        · rw [e]
        · exact ih _ (by intro v hv; simp at hv; exact hv.symm) o ho
    | assign x => simp only [Cell.run, Cell.step]; exact ih _ (by simp)
    | copyUpdate x => simp only [Cell.run, Cell.step]; exact ih _ (by simp)
    | rebuild x => simp only [Cell.run, Cell.step]; exact ih _ (by simp)

/-- without invalidation (`cached_property` surviving an assignment or a `model_copy(update=…)`): use,
    change, use again gives the old hash for the new content -/
theorem C19_history_hash_stale {α} (h : α → Int) (x y : α) (hxy : h x ≠ h y) :
    Cell.run h false ⟨x, none⟩ [.use, .assign y, .use] = [(h x, x), (h x, y)] ∧
    Cell.run h false ⟨x, none⟩ [.use, .copyUpdate y, .use] = [(h x, x), (h x, y)] ∧
    ¬ ∀ o ∈ Cell.run h false ⟨x, none⟩ [.use, .assign y, .use], o.1 = h o.2 := by
  refine ⟨rfl, rfl, fun hall => hxy ?_⟩
  exact hall (h x, y) (by simp [Cell.run, Cell.step])


/-! ### non-vacuity -/
section Examples
def tm (label name : String) : Term :=
  { label := label, definition := "d", name := name, uri := none, typeOfTerm := "property",
    comment := none, see := none, subpropertyOf := none, subclassOf := none, domain := none,
    domainIncludes := none, termRange := none, rangeIncludes := none, memberOf := none,
    instanceOf := none, equivalentProperty := none, description := none, scopeNote := none, extra := [] }
def dog : Tag := ⟨tm "animal" "a:animal", "dog"⟩
def dog' : Tag := ⟨tm "Animal" "a:animal", "dog"⟩   -- same name, other label
def cat : Tag := ⟨tm "animal" "a:animal", "cat"⟩
def brown : Tag := ⟨tm "colour" "a:colour", "brown"⟩

example : [dog, dog', brown].Nodup := by decide
example : encode [dog, dog', brown] dog' = some 1 := by decide
example : encode [dog, dog', brown] cat = none := by decide
-- a vocabulary with a repeated tag: the dictionary keeps the last position, the search the first
example : encode [dog, brown, dog] dog = some 2 ∧ searchIdx dog [dog, brown, dog] = some 0 := by decide
example : classificationEncoding [dog, brown] [cat, brown, dog] = some 1 := by decide
example : multilabelEncoding [dog, brown, cat] [cat, dog', cat] = [0, 0, 1] := by decide
example : predictionEncoding id [dog, brown] [⟨dog, 1/4⟩, ⟨cat, 1⟩, ⟨dog, 1/2⟩] = [1/2, 0] := by decide +kernel
example : holdsPrediction id [dog, brown] [⟨dog, 1/4⟩, ⟨dog, 1/2⟩] [1/4, 0] = true := by decide +kernel
example : holdsPrediction id [dog, brown] [⟨dog, 1/4⟩, ⟨dog, 1/2⟩] [3/4, 0] = false := by decide +kernel
example : (hashKey (.obj "Tag" ["term", "value"] [.obj "Term" ["label", "name"] [.str "l", .str "n"], .str "v"])).map
    (Val.beqList [.str "n", .str "v"]) = some true := by decide
example : (HashRow.mk "Term" ["label", "definition", "name"] ["name"]).wellFormed = true := by decide
example : (HashRow.mk "Term" ["label"] ["name"]).wellFormed = false := by decide

-- review additions
/-- an encoder that is not a vocabulary: many-to-one, a negative index, an index out of range -/
def encEx : Nat → Option Int
  | 0 => some 0
  | 1 => some (-1)
  | 2 => some 0
  | 3 => some 5
  | _ => none
example : classificationG encEx [7, 1, 0] = some (-1) := by decide
example : multilabelG encEx 3 [0, 9, 1] = some [1, 0, 1] := by decide
example : multilabelG encEx 3 [0, 3] = none := by decide       -- IndexError
example : ∃ x ∈ [0, 3], ∃ i, encEx x = some i ∧ (i < -((3 : Nat) : Int) ∨ ((3 : Nat) : Int) ≤ i) :=
  ⟨3, by decide, 5, rfl, by decide⟩
example : predictionG id encEx (fun _ => 1/2) 2 [9, 2] = some [1/2, 0] := by decide +kernel
example : slot encEx 3 1 = some 2 ∧ slot encEx 3 9 = none ∧ oor encEx 3 3 = true := by decide
example : decodeI [dog, brown] (-1) = some brown ∧ decodeI [dog, brown] 2 = none ∧
    decodeI [dog, brown] (-3) = none ∧ decodeI [dog, brown] 0 = some dog := by decide
example : findTag [dog, cat, brown] (some "colour") (some (tm "animal" "a:animal")) none = some (some dog) := by decide
example : findTag [dog, cat, brown] (some "colour") none none = some (some brown) := by decide
example : findTag [dog] (some "zz") none (some cat) = some (some cat) := by decide
example : findTag [dog] none none (some cat) = none := by decide
example : findFeature [⟨tm "a" "n", 1⟩, ⟨tm "a" "m", 2⟩] (some "a") (some (tm "a" "m")) none
    = some (some ⟨tm "a" "m", 2⟩) := by decide +kernel
example : tagInit (some "animal") none "dog" = some ⟨termFromKey "animal", "dog"⟩ ∧
    tagInit (some "animal") (some (tm "l" "n")) "dog" = some ⟨tm "l" "n", "dog"⟩ ∧
    tagInit none none "dog" = none := by decide
example : [("animal", "dog"), ("animal", "cat"), ("color", "dog")].Nodup := by decide
-- a hash that reads something `==` ignores: the equal key is not found
example : hdGet (fun (a b : Nat × Nat) => a.1 == b.1) (fun a => (a.2 : Int)) [((1, 0), 7)] (1, 1) = none ∧
    adGet (fun (a b : Nat × Nat) => a.1 == b.1) [((1, 0), 7)] (1, 1) = some 7 := by decide
-- … and one that respects `==` although `==` is coarser than identity
example : ∀ a b : Nat × Nat, (a.1 == b.1) = true → ((a.1 : Int)) = (b.1 : Int) := by
  intro a b h; simp at h; rw [h]
def featI : PyVal := .obj "Feature" ["term", "value"] [.obj "Term" ["label", "name"] [.str "l", .str "n"], .int 1]
def featF : PyVal := .obj "Feature" ["term", "value"] [.obj "Term" ["label", "name"] [.str "L", .str "n"], .float 1 false]
def featG : PyVal := .obj "Feature" ["term", "value"] [.obj "Term" ["label", "name"] [.str "l", .str "n"], .float 1 false]
example : PyVal.beq featI featG = true := by decide +kernel
example : PyVal.beq featI featF = false := by decide +kernel
example : PyVal.beq (.float 0 true) (.float 0 false) = true ∧ PyVal.beq (.int 0) (.float 0 true) = true := by
  decide +kernel
example (H : PyHasher) :
    pyHash hashFields H featI = some (H.combine "Feature" [H.combine "Term" [H.str "n"], H.int 1]) := rfl
-- the hash does not read the label: unequal objects may collide, equal ones must
example (H : PyHasher) :
    pyHash hashFields H featF = some (H.combine "Feature" [H.combine "Term" [H.str "n"], H.float 1]) := rfl
example (H : PyHasher) (hfi : ∀ n : Int, H.float n = H.int n) : pyHash hashFields H featI = pyHash hashFields H featF := by
  have h1 : H.float 1 = H.int 1 := by simpa using hfi 1
  show some (H.combine "Feature" [H.combine "Term" [H.str "n"], H.int 1])
    = some (H.combine "Feature" [H.combine "Term" [H.str "n"], H.float 1])
  rw [h1]
example (H : PyHasher) : pyHash hashFields H (.obj "Recording" ["uuid"] [.str "u"]) = none := rfl
example (H : PyHasher) : pyHash hashFields H (.list []) = none := rfl
-- the table the check extracts, as it instantiates the theorem
example : tableOf [("Term", ["name"]), ("Tag", ["term", "value"])] "Tag" = hashFields "Tag" := by decide
example (H : PyHasher) (hfi : ∀ n : Int, H.float n = H.int n) :
    pyHash (tableOf [("Term", ["name"]), ("Feature", ["term", "value"])]) H featI
      = pyHash (tableOf [("Term", ["name"]), ("Feature", ["term", "value"])]) H featG :=
  C19_pyhash_respects_eq _ H hfi featI featG (by decide +kernel)

-- follow-up 3
def rawA : RawTerm := ⟨tm "species" "dwc:species", [("note", "n"), ("status", "s")]⟩
def rawB : RawTerm := ⟨tm "species" "dwc:species", [("status", "s"), ("note", "n")]⟩
def rawC : RawTerm := ⟨tm "species" "dwc:species", [("status", "s"), ("note", "m")]⟩
example : rawA.wf ∧ rawB.wf := by unfold RawTerm.wf; decide
example : rawA.pyEq rawB = true ∧ rawA.extra ≠ rawB.extra ∧ rawA.canon = rawB.canon := by decide
example : rawA.pyEq rawC = false ∧ rawA.canon ≠ rawC.canon := by decide
example : canonExtras [("status", "s"), ("note", "n")] = [("note", "n"), ("status", "s")] := by decide
example : dictEqv [("a", "1")] [("a", "1"), ("b", "2")] = false ∧ dictEqv [("a", "1"), ("b", "2")] [("a", "1")] = false := by
  decide
-- a hash over the items in insertion order (here: the first key's length) separates the two equal terms
example : orderHash (fun _ => 0) (fun x => ((x.head?.map (·.1.length)).getD 0 : Nat)) (· + ·) rawA
    ≠ orderHash (fun _ => 0) (fun x => ((x.head?.map (·.1.length)).getD 0 : Nat)) (· + ·) rawB := by decide
example : bindCall findTagSig [1, 2, 3, 4] [] = some [("tags", 1), ("label", 2), ("term", 3), ("default", 4)] := by decide
example : bindCall findTagSig [1] [("default", 4), ("label", 2)] = some [("tags", 1), ("default", 4), ("label", 2)] := by
  decide
example : bindCall findTagSig [1, 2] [("label", 2)] = none ∧ bindCall findTagSig [1] [("key", 2)] = none ∧
    bindCall findTagSig [1, 2, 3, 4, 5] [] = none ∧ bindCall findTagSig [1] [("term", 2), ("term", 3)] = none := by decide
example : [("default", 4), ("label", 2), ("term", 3)].Perm [("label", 2), ("term", 3), ("default", 4)] := by decide
-- a cache of `encode` keyed by the term's name and the value only: the neighbour is answered wrongly
example : memoRun (fun t => encode [dog] t) (fun t => (t.term.name, t.value)) [] [dog, dog'] = [some 0, some 0] ∧
    encode [dog] dog' = none := by decide
example : memoRun (fun t => encode [dog] t) (fun t => t) [] [dog, dog', dog] = [some 0, none, some 0] := by decide
example : Cell.run (fun (t : Tag) => (t.value.length : Int)) true ⟨dog, none⟩ [.use, .assign brown, .use, .copyUpdate cat, .use]
    = [(3, dog), (5, brown), (3, cat)] := by decide
end Examples


/-! ### follow-up (wave 5): object identities -/

/-- object identity agrees with content when, among the objects involved, being the same object and
    carrying equal content coincide (one object has one content: always; equal terms are one *shared*
    object: a habit of the caller, not a law): the identity-first encoder is then the encoder -/
theorem C19_identity_lookup_sound (vocab : List TagObj) (t : TagObj)
    (h : ∀ x ∈ vocab, (x.term.id = t.term.id ↔ x.term.val = t.term.val)) :
    encodeById vocab t = encode (vocab.map TagObj.content) t.content := by
  unfold encodeById
  split
  · rw [lastIdxById_eq t vocab h, encode_eq_lastIdx]
  · rfl

/-- … and it is not, as soon as two vocabulary tags carry equal terms as *separate* objects: the tag built
    on the term object of the first with the value of the second equals the second vocabulary tag — the
    encoder answers `some 1` — but the identity-first lookup finds the object, not the value: `none`
    (seeded C19-11; the input every identity pattern "another vocabulary tag's term object" lays out) -/
theorem C19_identity_lookup_breaks (T : Term) (a b : String) (i j : Nat) (hab : a ≠ b) (hij : i ≠ j) :
    let vocab : List TagObj := [⟨⟨i, T⟩, a⟩, ⟨⟨j, T⟩, b⟩]
    let t : TagObj := ⟨⟨i, T⟩, b⟩
    t.content = (vocab.map TagObj.content)[1]! ∧
    encode (vocab.map TagObj.content) t.content = some 1 ∧ encodeById vocab t = none := by
  intro vocab t
  refine ⟨rfl, ?_, ?_⟩
  · rw [encode_eq_lastIdx]
    simp [vocab, t, TagObj.content, lastIdx]
  · simp [encodeById, vocab, t, lastIdxById, hab, Ne.symm hij]

example : encodeById [⟨⟨1, Encoding.termFromKey "animal"⟩, "dog"⟩, ⟨⟨2, Encoding.termFromKey "animal"⟩, "cat"⟩]
    ⟨⟨1, Encoding.termFromKey "animal"⟩, "cat"⟩ = none := by decide

end SE.Proofs.C19
