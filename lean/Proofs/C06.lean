/-
  C06 — Affinity is a symmetric intersection-over-union in [0, 1].
  Property theorems only (helper lemmas and the contracts `Sane`, `Sound`, `BoxExact`,
  `ShiftInv` on the GEOS parameter: Proofs/Lemmas/Affinity.lean).

  `affinity G g₁ g₂ tb fb` is `compute_affinity(g₁, g₂, time_buffer=tb, freq_buffer=fb)` with
  everything shapely/GEOS computes as the parameter `G`.  The model follows the repaired
  code (`fixes/C06-1-clamp-affinity.patch`): the area ratio is `min(I / U, 1)`.
-/
import Mathlib.Tactic.Linarith
import Mathlib.Tactic.Ring
import Mathlib.Algebra.Order.Field.Basic
import Proofs.Lemmas.Affinity
import Proofs.Lemmas.Bounds
import Proofs.Lemmas.AffinityExtent
import Proofs.C11
import Proofs.Lemmas.AffinityCall
namespace SE.Proofs.C06
open SE SE.Affinity
variable {σ : Type}

/-! ### the two formulas -/


theorem iou_range (a b i : Rat) (h0 : 0 ≤ i) (ha : i ≤ a) (hb : i ≤ b) :
    0 ≤ iou a b i ∧ iou a b i ≤ 1 := by
  unfold iou
  split
  · exact ⟨le_refl _, by norm_num⟩
  · rename_i hu
    have hpos : 0 < a + b - i := lt_of_le_of_ne (by linarith) (Ne.symm hu)
    exact ⟨div_nonneg h0 hpos.le, (div_le_one hpos).2 (by linarith)⟩

/-- the formula does not depend on the order of the two areas -/
theorem iou_symm (a b i : Rat) : iou a b i = iou b a i := by
  unfold iou; rw [add_comm a b]

/-- `A = B = I > 0` gives exactly 1 -/
theorem iou_self (a : Rat) (h : 0 < a) : iou a a a = 1 := by
  unfold iou
  have : a + a - a = a := by ring
  rw [this, if_neg (ne_of_gt h), div_self (ne_of_gt h)]

/-- no intersection gives 0 (also through the zero-union guard) -/
theorem iou_zero (a b : Rat) : iou a b 0 = 0 := by
  unfold iou; split <;> simp

/-- the repaired (clamped) formula lies in `[0, 1]` as soon as `0 ≤ I ≤ A + B` -/
theorem iouC_range (a b i : Rat) (h0 : 0 ≤ i) (hu : i ≤ a + b) :
    0 ≤ iouC a b i ∧ iouC a b i ≤ 1 := by
  unfold iouC
  split
  · exact ⟨le_refl _, by norm_num⟩
  · rename_i hne
    have hpos : 0 < a + b - i := lt_of_le_of_ne (by linarith) (Ne.symm hne)
    exact ⟨le_min (div_nonneg h0 hpos.le) (by norm_num), min_le_right _ _⟩

/-- under the exact contract `I ≤ min(A, B)` the clamp is inactive -/
theorem iouC_eq_iou (a b i : Rat) (h0 : 0 ≤ i) (ha : i ≤ a) (hb : i ≤ b) : iouC a b i = iou a b i := by
  have h := (iou_range a b i h0 ha hb).2
  unfold iouC iou at *
  split
  · rfl
  · rename_i hne
    rw [if_neg hne] at h
    exact min_eq_left h

theorem iouC_symm (a b i : Rat) : iouC a b i = iouC b a i := by
  unfold iouC; rw [add_comm a b]

theorem iouC_self (a : Rat) (h : 0 < a) : iouC a a a = 1 := by
  rw [iouC_eq_iou a a a h.le (le_refl _) (le_refl _), iou_self a h]

theorem iouC_zero (a b : Rat) : iouC a b 0 = 0 := by
  unfold iouC; split <;> simp

/-- the time affinity is the same formula on durations and overlap length -/
theorem timeIoU_eq_iou (s1 e1 s2 e2 : Rat) :
    timeIoU s1 e1 s2 e2 = iou (e1 - s1) (e2 - s2) (max 0 (min e1 e2 - max s1 s2)) := rfl

/-- time affinity of two ordered extents lies in `[0, 1]` -/
theorem timeIoU_range (s1 e1 s2 e2 : Rat) (h1 : s1 ≤ e1) (h2 : s2 ≤ e2) :
    0 ≤ timeIoU s1 e1 s2 e2 ∧ timeIoU s1 e1 s2 e2 ≤ 1 := by
  obtain ⟨a, b, c⟩ := timeInter_bounds s1 e1 s2 e2 h1 h2
  rw [timeIoU_eq_iou]; exact iou_range _ _ _ a b c

theorem timeIoU_symm (s1 e1 s2 e2 : Rat) : timeIoU s1 e1 s2 e2 = timeIoU s2 e2 s1 e1 := by
  rw [timeIoU_eq_iou, timeIoU_eq_iou, min_comm e1 e2, max_comm s1 s2, iou_symm]

theorem timeIoU_self (s e : Rat) (h : s < e) : timeIoU s e s e = 1 := by
  rw [timeIoU_eq_iou, min_self, max_self, max_eq_right (by linarith : (0 : Rat) ≤ e - s)]
  exact iou_self _ (by linarith)

/-- extents that do not overlap (touching included) give 0 -/
theorem timeIoU_disjoint (s1 e1 s2 e2 : Rat) (h : e1 ≤ s2 ∨ e2 ≤ s1) : timeIoU s1 e1 s2 e2 = 0 := by
  have : max 0 (min e1 e2 - max s1 s2) = 0 := by
    apply max_eq_left
    rcases h with h | h
    · have := min_le_left e1 e2; have := le_max_right s1 s2; linarith
    · have := min_le_right e1 e2; have := le_max_left s1 s2; linarith
  rw [timeIoU_eq_iou, this, iou_zero]

/-- a common time offset changes nothing -/
theorem timeIoU_shift (s1 e1 s2 e2 d : Rat) :
    timeIoU (s1 + d) (e1 + d) (s2 + d) (e2 + d) = timeIoU s1 e1 s2 e2 := by
  simp only [timeIoU_eq_iou, min_add_add_right, max_add_add_right]
  congr 1 <;> ring_nf


/-! ### rectangles in closed form -/


/-- the intersection area of two rectangles is non-negative and at most either area -/
theorem boxInter_le_min (s1 l1 e1 h1 s2 l2 e2 h2 : Rat) (a1 : s1 ≤ e1) (b1 : l1 ≤ h1) (a2 : s2 ≤ e2)
    (b2 : l2 ≤ h2) :
    0 ≤ boxInter s1 l1 e1 h1 s2 l2 e2 h2 ∧
    boxInter s1 l1 e1 h1 s2 l2 e2 h2 ≤ min (boxArea s1 l1 e1 h1) (boxArea s2 l2 e2 h2) := by
  obtain ⟨h0, ha, hb⟩ := boxInter_bounds s1 l1 e1 h1 s2 l2 e2 h2 a1 b1 a2 b2
  exact ⟨h0, le_min ha hb⟩

/-- rectangle intersection area is symmetric -/
theorem boxInter_symm (s1 l1 e1 h1 s2 l2 e2 h2 : Rat) :
    boxInter s1 l1 e1 h1 s2 l2 e2 h2 = boxInter s2 l2 e2 h2 s1 l1 e1 h1 := by
  unfold boxInter; rw [min_comm e1 e2, max_comm s1 s2, min_comm h1 h2, max_comm l1 l2]

/-- a rectangle intersected with itself has its own area -/
theorem boxInter_self (s l e h : Rat) (a : s ≤ e) (b : l ≤ h) : boxInter s l e h s l e h = boxArea s l e h := by
  unfold boxInter boxArea
  rw [min_self, max_self, min_self, max_self, max_eq_right (by linarith), max_eq_right (by linarith)]

/-- rectangles disjoint in time have intersection area 0 -/
theorem boxInter_disjoint (s1 l1 e1 h1 s2 l2 e2 h2 : Rat) (h : e1 ≤ s2 ∨ e2 ≤ s1) :
    boxInter s1 l1 e1 h1 s2 l2 e2 h2 = 0 := by
  unfold boxInter
  have : max 0 (min e1 e2 - max s1 s2) = 0 := by
    apply max_eq_left
    rcases h with h | h
    · have := min_le_left e1 e2; have := le_max_right s1 s2; linarith
    · have := min_le_right e1 e2; have := le_max_left s1 s2; linarith
  rw [this, zero_mul]

/-- rectangle areas and intersection areas are invariant under a common time shift -/
theorem box_shift (s1 l1 e1 h1 s2 l2 e2 h2 d : Rat) :
    boxInter (s1 + d) l1 (e1 + d) h1 (s2 + d) l2 (e2 + d) h2 = boxInter s1 l1 e1 h1 s2 l2 e2 h2 ∧
    boxArea (s1 + d) l1 (e1 + d) h1 = boxArea s1 l1 e1 h1 := by
  unfold boxInter boxArea
  simp only [min_add_add_right, max_add_add_right]
  constructor
  · congr 2; ring
  · ring



open SE SE.Affinity

/-! ### the dispatcher -/

/-- `compute_affinity` returns a value exactly when no negative buffer reaches `buffer_geometry` -/
theorem affinity_ok_iff (G : Geos σ) (g1 g2 : Geom) (tb fb : Rat) :
    (∃ v, affinity G g1 g2 tb fb = .ok v) ↔
      (∃ p1 p2, prepare G g1 tb fb = .ok p1 ∧ prepare G g2 tb fb = .ok p2) := by
  unfold affinity
  constructor
  · rintro ⟨v, h⟩
    split at h
    · cases h
    · rename_i p1 h1
      split at h
      · cases h
      · rename_i p2 h2
        exact ⟨p1, p2, h1, h2⟩
  · rintro ⟨p1, p2, h1, h2⟩
    rw [h1, h2]; exact ⟨_, rfl⟩

/-- **Range.**  For valid geometries the (repaired) affinity lies in `[0, 1]`; of GEOS only
    `Sane` is needed (`0 ≤ I ≤ A₁ + A₂`), which binary64 results satisfy as well. -/
theorem C06_range (G : Geos σ) (hG : Sane G) (g1 g2 : Geom) (tb fb v : Rat) (w1 : WF g1) (w2 : WF g2)
    (h : affinity G g1 g2 tb fb = .ok v) : 0 ≤ v ∧ v ≤ 1 := by
  obtain ⟨p1, p2, h1, h2, rfl⟩ := affinity_ok_prepared G g1 g2 tb fb v h
  unfold affinityP
  split
  · exact timeIoU_range _ _ _ _ (prepare_ordered G hG.bounds_ordered g1 tb fb p1 w1 h1)
      (prepare_ordered G hG.bounds_ordered g2 tb fb p2 w2 h2)
  · exact iouC_range _ _ _ (hG.inter_nonneg _ _) (hG.inter_le_sum _ _)

theorem affinityP_symm (G : Geos σ) (hG : Sound G) (p1 p2 : Prep σ) :
    affinityP G p1 p2 = affinityP G p2 p1 := by
  unfold affinityP
  rw [Bool.or_comm (isTime p1) (isTime p2), timeIoU_symm, iouC_symm, hG.inter_symm]

/-- **Symmetry**, errors included -/
theorem C06_symm (G : Geos σ) (hG : Sound G) (g1 g2 : Geom) (tb fb : Rat) :
    affinity G g1 g2 tb fb = affinity G g2 g1 tb fb := by
  unfold affinity
  rcases h1 : prepare G g1 tb fb with e1 | p1 <;> rcases h2 : prepare G g2 tb fb with e2 | p2 <;> simp only
  · rw [(prepare_error G g1 tb fb e1 h1).1, (prepare_error G g2 tb fb e2 h2).1]
  · rw [affinityP_symm G hG]

/-- **Self-affinity.**  A geometry of non-zero extent (duration in the time branch, area
    otherwise) compared with itself gives exactly 1 -/
theorem C06_self_one (G : Geos σ) (hG : Sound G) (g : Geom) (tb fb : Rat) (p : Prep σ)
    (hp : prepare G g tb fb = .ok p) (hext : 0 < extent G p) : affinity G g g tb fb = .ok 1 := by
  rw [affinity_eq G g g tb fb p p hp hp]
  congr 1
  unfold affinityP
  unfold extent at hext
  cases ht : isTime p <;> simp only [ht, Bool.or_self, if_true] at hext ⊢
  · simp only [Bool.false_eq_true, if_false] at hext ⊢
    rw [hG.inter_self]; exact iouC_self _ hext
  · exact timeIoU_self _ _ (by linarith)

/-- **Disjoint in time.**  If the prepared (buffered) geometries do not overlap in time the
    affinity is 0 -/
theorem C06_disjoint_zero (G : Geos σ) (hG : Sound G) (g1 g2 : Geom) (tb fb : Rat) (p1 p2 : Prep σ)
    (w1 : WF g1) (w2 : WF g2)
    (h1 : prepare G g1 tb fb = .ok p1) (h2 : prepare G g2 tb fb = .ok p2)
    (hd : (timeBounds G p1).2 ≤ (timeBounds G p2).1 ∨ (timeBounds G p2).2 ≤ (timeBounds G p1).1) :
    affinity G g1 g2 tb fb = .ok 0 := by
  rw [affinity_eq G g1 g2 tb fb p1 p2 h1 h2]
  congr 1
  unfold affinityP
  cases t1 : isTime p1 <;> cases t2 : isTime p2 <;> simp only [Bool.or_self, Bool.or_true, Bool.or_false,
      Bool.false_eq_true, if_true, if_false]
  · obtain ⟨a1, b1⟩ := toShape_bounds G hG g1 tb fb p1 w1 h1 t1
    obtain ⟨a2, b2⟩ := toShape_bounds G hG g2 tb fb p2 w2 h2 t2
    have : G.inter (toShape G p1) (toShape G p2) = 0 := by
      rcases hd with hd | hd
      · exact hG.inter_disjoint _ _ (by rw [b1, a2]; exact hd)
      · rw [hG.inter_symm]; exact hG.inter_disjoint _ _ (by rw [b2, a1]; exact hd)
    rw [this, iouC_zero]
  all_goals exact timeIoU_disjoint _ _ _ _ hd

/-- **Bounding boxes.**  For two (valid) bounding boxes the affinity is the area
    intersection-over-union in closed form, whatever the buffers -/
theorem C06_box_closed_form (G : Geos σ) (hG : BoxExact G) (s1 l1 e1 h1 s2 l2 e2 h2 tb fb : Rat)
    (w1 : WF (.boundingBox s1 l1 e1 h1)) (w2 : WF (.boundingBox s2 l2 e2 h2)) :
    affinity G (.boundingBox s1 l1 e1 h1) (.boundingBox s2 l2 e2 h2) tb fb =
      .ok (iou (boxArea s1 l1 e1 h1) (boxArea s2 l2 e2 h2) (boxInter s1 l1 e1 h1 s2 l2 e2 h2)) := by
  have p1 : prepare G (.boundingBox s1 l1 e1 h1) tb fb = .ok (.box s1 l1 e1 h1) := by rw [prepare_spec]
  have p2 : prepare G (.boundingBox s2 l2 e2 h2) tb fb = .ok (.box s2 l2 e2 h2) := by rw [prepare_spec]
  rw [affinity_eq G _ _ tb fb _ _ p1 p2]
  congr 1
  obtain ⟨b0, b1, b2⟩ := boxInter_bounds s1 l1 e1 h1 s2 l2 e2 h2 w1.1 w1.2 w2.1 w2.2
  simp only [affinityP, isTime_box, Bool.or_self, Bool.false_eq_true, if_false, toShape]
  rw [hG.area_box _ _ _ _ w1.1 w1.2, hG.area_box _ _ _ _ w2.1 w2.2,
    hG.inter_box _ _ _ _ _ _ _ _ w1.1 w1.2 w2.1 w2.2, iouC_eq_iou _ _ _ b0 b1 b2]

/-- **Time-only.**  Whenever either geometry is a TimeStamp or a TimeInterval the affinity is
    the intersection-over-union of the (buffered) time extents -/
theorem C06_time_only_is_time_iou (G : Geos σ) (g1 g2 : Geom) (tb fb : Rat) (p1 p2 : Prep σ)
    (ht : timeTypes.contains g1.tag = true ∨ timeTypes.contains g2.tag = true)
    (h1 : prepare G g1 tb fb = .ok p1) (h2 : prepare G g2 tb fb = .ok p2) :
    affinity G g1 g2 tb fb =
      .ok (timeIoU (timeBounds G p1).1 (timeBounds G p1).2 (timeBounds G p2).1 (timeBounds G p2).2) := by
  rw [affinity_eq G g1 g2 tb fb p1 p2 h1 h2]
  congr 1
  have : (isTime p1 || isTime p2) = true := by
    rcases ht with ht | ht
    · rw [prepare_time_only G g1 tb fb p1 ht h1]; rfl
    · rw [prepare_time_only G g2 tb fb p2 ht h2]; simp
  simp only [affinityP, this, if_true]

/-- `compute_affinity` composes the dispatch (`timeBranchArgs`: which bounds reach
    `compute_affinity_in_time`) with the time IoU — the two halves that the symbolic ties
    re-derive from the source separately -/
theorem C06_time_branch_composes (G : Geos σ) (g1 g2 : Geom) (tb fb s1 e1 s2 e2 : Rat)
    (h : timeBranchArgs G g1 g2 tb fb = some (s1, e1, s2, e2)) :
    affinity G g1 g2 tb fb = .ok (timeIoU s1 e1 s2 e2) := by
  unfold timeBranchArgs at h
  unfold affinity
  rcases h1 : prepare G g1 tb fb with e | p1 <;> rcases h2 : prepare G g2 tb fb with e' | p2 <;>
    rw [h1, h2] at h <;> simp only at h
  · cases h
  · cases h
  · cases h
  · by_cases ht : (isTime p1 || isTime p2) = true
    · rw [if_pos ht] at h
      cases h
      simp only [affinityP, ht, if_true]
    · rw [if_neg ht] at h
      cases h

/-- the (buffered) time extents in closed form: a time stamp `t` becomes
    `[max(t - tb, 0), t + tb]`, intervals and boxes keep `[start, end]` -/
theorem C06_time_extents (G : Geos σ) (tb fb : Rat) (hb : 0 ≤ tb ∧ 0 ≤ fb) :
    (∀ t, ∃ p, prepare G (.timeStamp t) tb fb = .ok p ∧ timeBounds G p = (max (t - tb) 0, t + tb)) ∧
    (∀ s e, ∃ p, prepare G (.timeInterval s e) tb fb = .ok p ∧ timeBounds G p = (s, e)) ∧
    (∀ s l e h, ∃ p, prepare G (.boundingBox s l e h) tb fb = .ok p ∧ timeBounds G p = (s, e)) := by
  have hn : ¬ (tb < 0 ∨ fb < 0) := by
    rintro (h | h) <;> linarith [hb.1, hb.2]
  refine ⟨fun t => ?_, fun s e => ?_, fun s l e h => ?_⟩
  · exact ⟨.interval "TimeInterval" (max (t - tb) 0) (t + tb), by rw [prepare_spec]; simp only [hn, if_false], rfl⟩
  · exact ⟨_, by rw [prepare_spec], rfl⟩
  · exact ⟨_, by rw [prepare_spec], rfl⟩

/-- a negative buffer is rejected (`ValueError`) exactly when a geometry that is buffered is
    involved; otherwise the buffers are ignored -/
theorem C06_negative_buffer (G : Geos σ) (g1 g2 : Geom) (tb fb : Rat) :
    affinity G g1 g2 tb fb = .error .invalid ↔
      ((tb < 0 ∨ fb < 0) ∧ (bufferTypes.contains g1.tag = true ∨ bufferTypes.contains g2.tag = true)) := by
  unfold affinity
  rw [prepare_spec, prepare_spec]
  by_cases hn : tb < 0 ∨ fb < 0
  · cases g1 <;> cases g2 <;> simp [hn, bufferTypes, Geom.tag]
  · cases g1 <;> cases g2 <;> simp [hn]


/-- **Shift invariance.**  Shifting both geometries by the same time offset leaves the
    affinity unchanged as long as neither buffered geometry reaches time 0 (before and
    after the shift), so that the clamp of the buffers is inactive -/
theorem C06_shift_invariant (G : Geos σ) (d : Rat) (τ : σ → σ) (hS : ShiftInv G d τ) (g1 g2 : Geom)
    (tb fb : Rat) (p1 : g1.bounds.isSome) (p2 : g2.bounds.isSome)
    (c1 : NoClamp g1 tb d) (c2 : NoClamp g2 tb d) :
    affinity G (g1.shift d) (g2.shift d) tb fb = affinity G g1 g2 tb fb := by
  unfold affinity
  rw [prepare_shift G d τ hS g1 tb fb p1 c1, prepare_shift G d τ hS g2 tb fb p2 c2]
  rcases prepare G g1 tb fb with e1 | q1 <;> rcases prepare G g2 tb fb with e2 | q2 <;>
    simp only [Except.map]
  congr 1
  unfold affinityP
  simp only [isTime_shiftPrep, timeBounds_shiftPrep G d τ hS, toShape_shiftPrep G d τ hS,
    timeIoU_shift, hS.area_shift, hS.inter_shift]

/-- the executable statement of the property that the check evaluates on the real outputs
    (`judgeObs`: range, symmetry, self-affinity, time-disjointness) holds of the model under
    the contract -/
theorem C06_model_holds (G : Geos σ) (hG : Sound G) (g1 g2 : Geom) (tb fb : Rat) (w1 : WF g1) (w2 : WF g2)
    (p1 p2 : Prep σ) (h1 : prepare G g1 tb fb = .ok p1) (h2 : prepare G g2 tb fb = .ok p2)
    (a12 a21 : Rat) (e12 : affinity G g1 g2 tb fb = .ok a12) (e21 : affinity G g2 g1 tb fb = .ok a21) :
    (judgeObs ⟨a12, a21, decide (g1 = g2), decide (0 < extent G p1),
      decide ((timeBounds G p1).2 ≤ (timeBounds G p2).1 ∨ (timeBounds G p2).2 ≤ (timeBounds G p1).1)⟩).all
      = true := by
  obtain ⟨r0, r1⟩ := C06_range G hG.sane g1 g2 tb fb a12 w1 w2 e12
  obtain ⟨q0, q1⟩ := C06_range G hG.sane g2 g1 tb fb a21 w2 w1 e21
  have hs : a12 = a21 := by
    rw [C06_symm G hG g1 g2 tb fb, e21] at e12
    cases e12; rfl
  simp only [ObsVerdict.all, judgeObs, Bool.and_eq_true, Bool.or_eq_true, Bool.not_eq_true',
    decide_eq_true_eq, Bool.and_eq_false_imp, decide_eq_false_iff_not]
  refine ⟨⟨⟨⟨⟨⟨r0, r1⟩, q0⟩, q1⟩, hs⟩, ?_⟩, ?_⟩
  · by_cases hsame : g1 = g2
    · by_cases hext : 0 < extent G p1
      · right
        subst hsame
        rw [C06_self_one G hG g1 tb fb p1 h1 hext] at e12
        cases e12; rfl
      · left; intro _; exact hext
    · left; intro h; exact absurd h hsame
  · by_cases hd : (timeBounds G p1).2 ≤ (timeBounds G p2).1 ∨ (timeBounds G p2).2 ≤ (timeBounds G p1).1
    · right
      rw [C06_disjoint_zero G hG g1 g2 tb fb p1 p2 w1 w2 h1 h2 hd] at e12
      cases e12; rfl
    · left; exact hd

/-! ### the contracts are satisfiable, the defect and its repair on concrete numbers -/

/-- rectangles with exact arithmetic satisfy every contract used above -/
theorem C06_contracts_satisfiable :
    Sound boxGeos ∧ Sane boxGeos ∧ BoxExact boxGeos ∧ ∀ d, ShiftInv boxGeos d (shiftRect d) :=
  ⟨boxGeos_sound, boxGeos_sound.sane, boxGeos_boxExact, boxGeos_shiftInv⟩

/-- why the clamp is needed: when the measured intersection exceeds an area (as binary64 GEOS
    results do by a few ulp) the pinned formula leaves `[0, 1]`, the repaired one does not -/
theorem C06_pinned_formula_exceeds_one :
    ∃ a b i : Rat, 0 ≤ i ∧ i ≤ a + b ∧ 1 < iou a b i ∧ iouC a b i = 1 :=
  ⟨1, 1, 9/8, by decide +kernel, by decide +kernel, by decide +kernel, by decide +kernel⟩

example : affinity boxGeos (.boundingBox 0 0 2 1) (.boundingBox 1 0 3 1) (1/100) 100 = .ok (1/3) := by decide +kernel
example : affinity boxGeos (.timeStamp 1) (.timeInterval 1 2) (1/2) 100 = .ok (1/3) := by decide +kernel
example : affinity boxGeos (.timeStamp 1) (.timeInterval 1 2) (-1) 100 = .error .invalid := by decide +kernel
example : affinity boxGeos (.boundingBox 0 0 2 1) (.timeInterval 1 2) (-1) 100 = .ok (1/2) := by decide +kernel
example : affinity boxGeos (.boundingBox 0 100 1 200) (.boundingBox 5 100 6 200) (1/100) 100 = .ok 0 := by decide +kernel
example : WF (.boundingBox 0 0 2 1) := ⟨by decide +kernel, by decide +kernel⟩
example : NoClamp (.timeStamp 1) (1/2) 3 := by
  intro b hb; rw [bounds_timeStamp] at hb; cases hb; constructor <;> decide +kernel

/-! ## review additions -/

/-! ### the route: which computation `compute_affinity` ends in (tied to the source for all 81 type pairs) -/

/-- `compute_affinity` is its route (re-derived from the source symbolically) followed by the time IoU
    (`ext_time_iou`) or, in the area branch, by nothing -/
theorem C06_route_composes (G : Geos σ) (g1 g2 : Geom) (tb fb : Rat) :
    (affinity G g1 g2 tb fb).toOption = (route G g1 g2 tb fb).map Route.value := by
  unfold affinity route
  rcases prepare G g1 tb fb with e1 | p1 <;> rcases prepare G g2 tb fb with e2 | p2 <;>
    simp only [Except.toOption, Option.map]
  unfold affinityP
  split <;> rfl

/-- … and the same in any rounding arithmetic -/
theorem C06_routeR_composes (rnd : Rat → Rat) (G : Geos σ) (g1 g2 : Geom) (tb fb : Rat) :
    (affinityR rnd G g1 g2 tb fb).toOption = (routeR rnd G g1 g2 tb fb).map (Route.valueR rnd) := by
  unfold affinityR routeR
  rcases prepareR rnd G g1 tb fb with e1 | p1 <;> rcases prepareR rnd G g2 tb fb with e2 | p2 <;>
    simp only [Except.toOption, Option.map]
  unfold affinityPR
  split <;> rfl

/-- exact arithmetic is the rounding arithmetic `rnd = id` -/
theorem affinityR_id (G : Geos σ) (g1 g2 : Geom) (tb fb : Rat) :
    affinityR id G g1 g2 tb fb = affinity G g1 g2 tb fb := by
  unfold affinityR affinity
  rw [prepareR_id, prepareR_id]
  rcases prepare G g1 tb fb with e1 | p1 <;> rcases prepare G g2 tb fb with e2 | p2 <;> simp only
  rfl

theorem routeR_id (G : Geos σ) (g1 g2 : Geom) (tb fb : Rat) :
    routeR id G g1 g2 tb fb = route G g1 g2 tb fb := by
  unfold routeR route
  rw [prepareR_id, prepareR_id]
  rfl

/-! ### the formulas in a rounding arithmetic -/

/-- **Range of the time branch in floating point.**  With every operation rounded, the time affinity
    of two ordered extents still lies in `[0, 1]`: the rounded union is never below the rounded overlap
    (this is why the time branch needs no clamp) -/
theorem timeIoUR_range {rnd : Rat → Rat} (R : IsRounding rnd) (s1 e1 s2 e2 : Rat) (h1 : s1 ≤ e1) (h2 : s2 ≤ e2) :
    0 ≤ timeIoUR rnd s1 e1 s2 e2 ∧ timeIoUR rnd s1 e1 s2 e2 ≤ 1 := by
  obtain ⟨i0, iu⟩ := timeR_facts R s1 e1 s2 e2 h1 h2
  unfold timeIoUR
  simp only
  split
  · exact ⟨le_refl _, by norm_num⟩
  · rename_i hu
    have hpos : 0 < rnd (rnd (rnd (e1 - s1) + rnd (e2 - s2)) - max 0 (rnd (min e1 e2 - max s1 s2))) :=
      lt_of_le_of_ne (le_trans i0 iu) (Ne.symm hu)
    refine ⟨R.nonneg _ (div_nonneg i0 hpos.le), ?_⟩
    have := R.mono _ 1 ((div_le_one hpos).2 iu)
    rwa [R.one] at this

theorem timeIoUR_symm (rnd : Rat → Rat) (s1 e1 s2 e2 : Rat) :
    timeIoUR rnd s1 e1 s2 e2 = timeIoUR rnd s2 e2 s1 e1 := by
  unfold timeIoUR
  rw [min_comm e1 e2, max_comm s1 s2, add_comm (rnd (e1 - s1))]

/-- an extent whose (rounded) duration is positive has time affinity exactly 1 with itself -/
theorem timeIoUR_self {rnd : Rat → Rat} (R : IsRounding rnd) (s e : Rat) (h : 0 < rnd (e - s)) :
    timeIoUR rnd s e s e = 1 := by
  unfold timeIoUR
  simp only [min_self, max_self]
  rw [max_eq_right h.le]
  have hS : rnd (rnd (e - s) + rnd (e - s)) = 2 * rnd (e - s) := by
    rw [← two_mul]; exact R.dbl _ (R.idem _)
  have hu : rnd (rnd (rnd (e - s) + rnd (e - s)) - rnd (e - s)) = rnd (e - s) := by
    rw [hS]
    have : 2 * rnd (e - s) - rnd (e - s) = rnd (e - s) := by ring
    rw [this, R.idem]
  rw [hu, if_neg (ne_of_gt h), div_self (ne_of_gt h), R.one]

theorem timeIoUR_disjoint {rnd : Rat → Rat} (R : IsRounding rnd) (s1 e1 s2 e2 : Rat) (h : e1 ≤ s2 ∨ e2 ≤ s1) :
    timeIoUR rnd s1 e1 s2 e2 = 0 := by
  have hm : min e1 e2 - max s1 s2 ≤ 0 := by
    rcases h with h | h
    · have := min_le_left e1 e2; have := le_max_right s1 s2; linarith
    · have := min_le_right e1 e2; have := le_max_left s1 s2; linarith
  have hi : max 0 (rnd (min e1 e2 - max s1 s2)) = 0 := max_eq_left (R.nonpos _ hm)
  unfold timeIoUR
  simp only [hi]
  split
  · rfl
  · rw [zero_div, R.zero]

/-- **Range of the (repaired) area branch in floating point**: of the three numbers GEOS returned only
    `0 ≤ I ≤ A + B` is needed -/
theorem iouCR_range {rnd : Rat → Rat} (R : IsRounding rnd) (a b i : Rat) (h0 : 0 ≤ i) (hi : rnd i = i)
    (hu : i ≤ a + b) : 0 ≤ iouCR rnd a b i ∧ iouCR rnd a b i ≤ 1 := by
  have hS : i ≤ rnd (a + b) := by have := R.mono i (a + b) hu; rwa [hi] at this
  have hU : 0 ≤ rnd (rnd (a + b) - i) := R.nonneg _ (by linarith)
  unfold iouCR
  simp only
  split
  · exact ⟨le_refl _, by norm_num⟩
  · exact ⟨le_min (R.nonneg _ (div_nonneg h0 hU)) (by norm_num), min_le_right _ _⟩

theorem iouCR_symm (rnd : Rat → Rat) (a b i : Rat) : iouCR rnd a b i = iouCR rnd b a i := by
  unfold iouCR; rw [add_comm a b]

theorem iouCR_self {rnd : Rat → Rat} (R : IsRounding rnd) (a : Rat) (h : 0 < a) (hr : rnd a = a) :
    iouCR rnd a a a = 1 := by
  unfold iouCR
  simp only
  have hS : rnd (a + a) = 2 * a := by rw [← two_mul]; exact R.dbl a hr
  have hu : rnd (rnd (a + a) - a) = a := by
    rw [hS]
    have : 2 * a - a = a := by ring
    rw [this, hr]
  rw [hu, if_neg (ne_of_gt h), div_self (ne_of_gt h), R.one, min_self]

theorem iouCR_zero {rnd : Rat → Rat} (R : IsRounding rnd) (a b : Rat) : iouCR rnd a b 0 = 0 := by
  unfold iouCR
  simp only
  split
  · rfl
  · rw [zero_div, R.zero]; exact min_eq_left (by norm_num)

theorem timeIoUR_id (s1 e1 s2 e2 : Rat) : timeIoUR id s1 e1 s2 e2 = timeIoU s1 e1 s2 e2 := rfl

theorem iouCR_id (a b i : Rat) : iouCR id a b i = iouC a b i := rfl

/-! ### the dispatcher in a rounding arithmetic -/

/-- **Range, floating point included.**  In any rounding arithmetic the repaired `compute_affinity`
    returns a value in `[0, 1]` for valid geometries, provided what GEOS returned is `Sane` -/
theorem C06_range_rounded {rnd : Rat → Rat} (R : IsRounding rnd) (G : Geos σ) (hG : Sane G)
    (hrep : Representable rnd G) (g1 g2 : Geom) (tb fb v : Rat) (w1 : WF g1) (w2 : WF g2)
    (h : affinityR rnd G g1 g2 tb fb = .ok v) : 0 ≤ v ∧ v ≤ 1 := by
  obtain ⟨p1, p2, h1, h2, rfl⟩ := affinityR_ok_prepared rnd G g1 g2 tb fb v h
  unfold affinityPR
  split
  · exact timeIoUR_range R _ _ _ _ (prepareR_ordered R G hG.bounds_ordered g1 tb fb p1 w1 h1)
      (prepareR_ordered R G hG.bounds_ordered g2 tb fb p2 w2 h2)
  · exact iouCR_range R _ _ _ (hG.inter_nonneg _ _) (hrep.inter _ _) (hG.inter_le_sum _ _)

/-- **Symmetry** in any rounding arithmetic (errors included), given exact plane geometry -/
theorem C06_symm_rounded (rnd : Rat → Rat) (G : Geos σ) (hG : Sound G) (g1 g2 : Geom) (tb fb : Rat) :
    affinityR rnd G g1 g2 tb fb = affinityR rnd G g2 g1 tb fb := by
  unfold affinityR
  rcases h1 : prepareR rnd G g1 tb fb with e1 | p1 <;> rcases h2 : prepareR rnd G g2 tb fb with e2 | p2 <;>
    simp only
  · rw [(prepareR_error rnd G g1 tb fb e1 h1).1, (prepareR_error rnd G g2 tb fb e2 h2).1]
  · unfold affinityPR
    rw [Bool.or_comm (isTime p1) (isTime p2), timeIoUR_symm, iouCR_symm, hG.inter_symm]

/-- **Self-affinity** is exactly 1 in any rounding arithmetic -/
theorem C06_self_one_rounded {rnd : Rat → Rat} (R : IsRounding rnd) (G : Geos σ) (hG : Sound G)
    (hrep : Representable rnd G) (g : Geom) (tb fb : Rat) (p : Prep σ)
    (hp : prepareR rnd G g tb fb = .ok p) (hext : 0 < extentR rnd G p) : affinityR rnd G g g tb fb = .ok 1 := by
  rw [affinityR_eq rnd G g g tb fb p p hp hp]
  congr 1
  unfold affinityPR
  unfold extentR at hext
  cases ht : isTime p <;> simp only [ht, Bool.or_self, if_true] at hext ⊢
  · simp only [Bool.false_eq_true, if_false] at hext ⊢
    rw [hG.inter_self]; exact iouCR_self R _ hext (hrep.area _)
  · exact timeIoUR_self R _ _ hext

/-- **Disjoint in time** gives exactly 0 in any rounding arithmetic -/
theorem C06_disjoint_zero_rounded {rnd : Rat → Rat} (R : IsRounding rnd) (G : Geos σ) (hG : Sound G)
    (g1 g2 : Geom) (tb fb : Rat) (p1 p2 : Prep σ) (w1 : WF g1) (w2 : WF g2)
    (h1 : prepareR rnd G g1 tb fb = .ok p1) (h2 : prepareR rnd G g2 tb fb = .ok p2)
    (hd : (timeBounds G p1).2 ≤ (timeBounds G p2).1 ∨ (timeBounds G p2).2 ≤ (timeBounds G p1).1) :
    affinityR rnd G g1 g2 tb fb = .ok 0 := by
  rw [affinityR_eq rnd G g1 g2 tb fb p1 p2 h1 h2]
  congr 1
  unfold affinityPR
  cases t1 : isTime p1 <;> cases t2 : isTime p2 <;> simp only [Bool.or_self, Bool.or_true, Bool.or_false,
      Bool.false_eq_true, if_true, if_false]
  · obtain ⟨a1, b1⟩ := toShape_bounds G hG g1 tb fb p1 w1 (prepareR_nontime rnd G g1 tb fb p1 h1 t1) t1
    obtain ⟨a2, b2⟩ := toShape_bounds G hG g2 tb fb p2 w2 (prepareR_nontime rnd G g2 tb fb p2 h2 t2) t2
    have : G.inter (toShape G p1) (toShape G p2) = 0 := by
      rcases hd with hd | hd
      · exact hG.inter_disjoint _ _ (by rw [b1, a2]; exact hd)
      · rw [hG.inter_symm]; exact hG.inter_disjoint _ _ (by rw [b2, a1]; exact hd)
    rw [this, iouCR_zero R]
  all_goals exact timeIoUR_disjoint R _ _ _ _ hd

/-- the laws are satisfiable: exact arithmetic, and (non-trivially) rounding down to integers -/
theorem C06_roundings_exist : IsRounding id ∧ IsRounding floorRnd ∧ floorRnd (1/2) ≠ 1/2 := by
  refine ⟨isRounding_id, ⟨?_, ?_, ?_, ?_, ?_⟩, by decide +kernel⟩
  · intro x y h
    unfold floorRnd
    exact_mod_cast Rat.floor_monotone h
  · decide +kernel
  · decide +kernel
  · intro x; unfold floorRnd; rw [Rat.floor_intCast]
  · intro x hx
    unfold floorRnd at hx ⊢
    rw [← hx]
    have : (2 : Rat) * ((x.floor : Int) : Rat) = ((2 * x.floor : Int) : Rat) := by push_cast; ring
    rw [this, Rat.floor_intCast]

example : timeIoUR floorRnd (1/2) (5/2) (3/2) (7/2) = 0 := by decide +kernel
example : timeIoU (1/2) (5/2) (3/2) (7/2) = 1/3 := by decide +kernel

/-! ### time-only pairs in closed form, shapes included -/

/-- **Time-only, closed form.**  If either geometry is a TimeStamp / TimeInterval and neither is a
    point- or line-like geometry (whose polygonal buffer GEOS computes), the affinity is the time IoU of
    extents read off the coordinates: `[max(t - tb, 0), t + tb]` for a time stamp, `[start, end]` for an
    interval or box, the smallest and largest time of the exterior ring(s) for a (multi)polygon -/
theorem C06_time_only_closed_form (G : Geos σ) (hB : BoundsExact G) (g1 g2 : Geom) (tb fb : Rat)
    (hb : 0 ≤ tb ∧ 0 ≤ fb) (ht : timeTypes.contains g1.tag = true ∨ timeTypes.contains g2.tag = true)
    (x1 x2 : Rat × Rat) (h1 : closedExtent g1 tb = some x1) (h2 : closedExtent g2 tb = some x2) :
    affinity G g1 g2 tb fb = .ok (timeIoU x1.1 x1.2 x2.1 x2.2) := by
  have hn : ¬ (tb < 0 ∨ fb < 0) := by
    rintro (h | h) <;> linarith [hb.1, hb.2]
  have key : ∀ g x, closedExtent g tb = some x →
      ∃ p, prepare G g tb fb = .ok p ∧ timeBounds G p = x := by
    intro g x hx
    rw [prepare_spec]
    cases g <;> simp only [closedExtent, Option.some.injEq, reduceCtorEq] at hx
    · subst hx; exact ⟨.interval "TimeInterval" (max (_ - tb) 0) (_ + tb), by simp only [hn, if_false], rfl⟩
    · subst hx; exact ⟨_, rfl, rfl⟩
    · rename_i r
      rcases hbd : (Geom.polygon r).bounds with _ | b <;> rw [hbd] at hx <;> simp only [Option.map, reduceCtorEq,
        Option.some.injEq] at hx
      subst hx
      exact ⟨_, rfl, by simp only [timeBounds, hB.st_ofGeom _ _ hbd, hB.en_ofGeom _ _ hbd]⟩
    · subst hx; exact ⟨_, rfl, rfl⟩
    · rename_i r
      rcases hbd : (Geom.multiPolygon r).bounds with _ | b <;> rw [hbd] at hx <;> simp only [Option.map, reduceCtorEq,
        Option.some.injEq] at hx
      subst hx
      exact ⟨_, rfl, by simp only [timeBounds, hB.st_ofGeom _ _ hbd, hB.en_ofGeom _ _ hbd]⟩
  obtain ⟨p1, e1, b1⟩ := key g1 x1 h1
  obtain ⟨p2, e2, b2⟩ := key g2 x2 h2
  rw [C06_time_only_is_time_iou G g1 g2 tb fb p1 p2 ht e1 e2, b1, b2]

example : closedExtent (.polygon [[(1, 2), (3, 2), (3, 5), (1, 2)]]) (1/4) = some (1, 3) := by decide +kernel
example : closedExtent (.timeStamp 1) (1/4) = some (3/4, 5/4) := by decide +kernel

/-! ### shift invariance without a clamp condition on geometries that are not buffered -/

/-- **Shift invariance, full strength.**  Only a geometry that `_prepare_geometry` buffers has to stay
    clear of time 0 (before and after the shift); intervals, boxes and polygons are not buffered and
    need no such condition -/
theorem C06_shift_invariant_strong (G : Geos σ) (d : Rat) (τ : σ → σ) (hS : ShiftInv G d τ) (g1 g2 : Geom)
    (tb fb : Rat) (p1 : g1.bounds.isSome) (p2 : g2.bounds.isSome)
    (c1 : bufferTypes.contains g1.tag = true → NoClamp g1 tb d)
    (c2 : bufferTypes.contains g2.tag = true → NoClamp g2 tb d) :
    affinity G (g1.shift d) (g2.shift d) tb fb = affinity G g1 g2 tb fb := by
  have key : ∀ g, g.bounds.isSome → (bufferTypes.contains g.tag = true → NoClamp g tb d) →
      prepare G (g.shift d) tb fb = (prepare G g tb fb).map (shiftPrep τ d) := by
    intro g hp hc
    by_cases hb : bufferTypes.contains g.tag = true
    · exact prepare_shift G d τ hS g tb fb hp (hc hb)
    · rw [prepare_spec, prepare_spec]
      cases g <;> simp [bufferTypes, Geom.tag] at hb <;> simp only [Geom.shift]
      · rfl
      · simp only [Except.map, shiftPrep]; rw [← hS.ofGeom_shift _ hp]; rfl
      · rfl
      · simp only [Except.map, shiftPrep]; rw [← hS.ofGeom_shift _ hp]; rfl
  unfold affinity
  rw [key g1 p1 c1, key g2 p2 c2]
  rcases prepare G g1 tb fb with e1 | q1 <;> rcases prepare G g2 tb fb with e2 | q2 <;>
    simp only [Except.map]
  congr 1
  unfold affinityP
  simp only [isTime_shiftPrep, timeBounds_shiftPrep G d τ hS, toShape_shiftPrep G d τ hS,
    timeIoU_shift, hS.area_shift, hS.inter_shift]

/-- a box that starts at time 0 may be shifted (the weaker theorem above excludes it) -/
example : affinity boxGeos ((Geom.boundingBox 0 0 2 1).shift 3) ((Geom.timeInterval 1 2).shift 3) (1/2) 1
    = affinity boxGeos (.boundingBox 0 0 2 1) (.timeInterval 1 2) (1/2) 1 :=
  C06_shift_invariant_strong boxGeos 3 (shiftRect 3) (boxGeos_shiftInv 3) _ _ _ _ (by decide +kernel) (by decide +kernel)
    (by intro h; exact absurd h (by decide)) (by intro h; exact absurd h (by decide))

/-- the exact-bounds contract is satisfiable (rectangles) -/
theorem C06_boundsExact_satisfiable : BoundsExact boxGeos := by
  constructor <;> intro g b hb <;> simp only [boxGeos, hb]
  · exact min_eq_left (SE.Proofs.Lemmas.Bounds.isBoundsOf_ordered b _
      (SE.Proofs.Lemmas.Bounds.ptsBounds_isBoundsOf _ b hb)).1
  · exact max_eq_right (SE.Proofs.Lemmas.Bounds.isBoundsOf_ordered b _
      (SE.Proofs.Lemmas.Bounds.ptsBounds_isBoundsOf _ b hb)).1

/-! ### non-vacuity of the rounding-arithmetic theorems -/

example : Representable id boxGeos := ⟨fun _ => rfl, fun _ _ => rfl⟩

/-- the hypotheses of `C06_self_one_rounded` / `C06_range_rounded` are met by rectangles in exact arithmetic … -/
example : affinityR id boxGeos (.timeStamp 1) (.timeStamp 1) (1/4) 1 = .ok 1 :=
  C06_self_one_rounded isRounding_id boxGeos boxGeos_sound ⟨fun _ => rfl, fun _ _ => rfl⟩ (.timeStamp 1) (1/4) 1
    (.interval "TimeInterval" (max ((1 : Rat) - 1/4) 0) (1 + 1/4))
    (by rw [prepareR_spec]; simp only [id]; rw [if_neg (by decide +kernel)]) (by decide +kernel)

/-- … and the conclusions are what a coarse rounding computes as well -/
example : affinityR floorRnd boxGeos (.boundingBox 0 0 2 1) (.boundingBox 0 0 2 1) (1/2) 1 = .ok 1 := by decide +kernel
example : affinityR floorRnd boxGeos (.timeStamp 3) (.timeInterval 5 7) (3/2) 1 = .ok 0 := by decide +kernel
example : affinityR floorRnd boxGeos (.timeStamp 3) (.timeInterval 4 7) (3/2) 1 = .ok 0 := by decide +kernel
example : affinity boxGeos (.timeStamp 3) (.timeInterval 4 7) (3/2) 1 = .ok (1/11) := by decide +kernel

/-- `rnd64` on concrete numbers: 1/3 and 1/10 round to the binary64 neighbours Python prints -/
example : rnd64 (1/3) = 6004799503160661 / 18014398509481984 := by decide +kernel
example : rnd64 (1/10) = 3602879701896397 / 36028797018963968 := by decide +kernel
example : rnd64 1 = 1 ∧ rnd64 0 = 0 ∧ rnd64 5000000 = 5000000 := by decide +kernel

/-! ## follow-up 2: the buffered time extent is pinned from the coordinates

  `C06_time_only_is_time_iou` says that the time-branch affinity is the time IoU of `G.st / G.en` of
  whatever `buffer_geometry` returned for a point / line type — a buffer that truncates its result
  satisfies it just as well.  The theorems below say what that extent has to be: the raw time bounds
  `[s, e]` of the coordinates moved outwards by the time buffer, `[max (s - tb) 0, e + tb]`
  (`ρ = κ = 1`), and for the polygonal buffer GEOS computes an explicit band around it
  (`ρ ≤ 1 ≤ κ`).  `bufferedTimeBand` is what the check evaluates on every such pair. -/

/-- **the band of the time IoU** (monotonicity of overlap and union in the ends of an extent) -/
theorem timeIoU_band (B : ExtentBox) (st en s2 e2 : Rat)
    (h1 : B.stLo ≤ st) (h2 : st ≤ B.stHi) (h3 : B.enLo ≤ en) (h4 : en ≤ B.enHi)
    (ho : st ≤ en) (ho2 : s2 ≤ e2) :
    (timeIoUBand B s2 e2).1 ≤ timeIoU st en s2 e2 ∧ timeIoU st en s2 e2 ≤ (timeIoUBand B s2 e2).2 :=
  timeIoU_in_band B st en s2 e2 h1 h2 h3 h4 ho ho2

/-- an admissible buffered extent `[st, en]` (raw bounds `[s, e]`, buffer `tb`, at least `ρ` and at most `κ`
    buffers outwards) has its time IoU with any extent `[s2, e2]`, in either argument order, inside
    `extentBand` -/
theorem C06_extent_band (ρ κ tol s e tb st en s2 e2 : Rat)
    (hw : extentWithin ρ κ tol s e tb st en = true) (ho : st ≤ en) (ho2 : s2 ≤ e2) :
    ((extentBand ρ κ tol s e tb s2 e2).1 ≤ timeIoU st en s2 e2 ∧
      timeIoU st en s2 e2 ≤ (extentBand ρ κ tol s e tb s2 e2).2) ∧
    ((extentBand ρ κ tol s e tb s2 e2).1 ≤ timeIoU s2 e2 st en ∧
      timeIoU s2 e2 st en ≤ (extentBand ρ κ tol s e tb s2 e2).2) := by
  obtain ⟨a, b, c, d⟩ := (extentWithin_iff ρ κ tol s e tb st en).mp hw
  have := timeIoU_in_band (extentBox ρ κ tol s e tb) st en s2 e2 a b c d ho ho2
  exact ⟨this, by rw [timeIoU_symm s2 e2 st en]; exact this⟩

/-- **for `ρ = κ = 1` (and no slack) the band is the single value the property names**: the time IoU of
    the ideal buffered extent `[max (s - tb) 0, e + tb]` -/
theorem C06_extent_band_exact (s e tb s2 e2 : Rat) (hs : 0 ≤ s) (he : s ≤ e) (hb : 0 ≤ tb) (ho2 : s2 ≤ e2) :
    extentBand 1 1 0 s e tb s2 e2 =
      (timeIoU (idealExtent s e tb).1 (idealExtent s e tb).2 s2 e2,
       timeIoU (idealExtent s e tb).1 (idealExtent s e tb).2 s2 e2) := by
  unfold extentBand idealExtent
  rw [extentBox_exact]
  exact timeIoUBand_collapse _ _ _ _ (max_le (by linarith) (by linarith)) ho2

/-- … and the only admissible extent is the ideal one -/
theorem C06_extent_exact (s e tb st en : Rat) (hw : extentWithin 1 1 0 s e tb st en = true) :
    (st, en) = idealExtent s e tb := by
  obtain ⟨a, b, c, d⟩ := (extentWithin_iff 1 1 0 s e tb st en).mp hw
  rw [extentBox_exact] at a b c d
  simp only at a b c d
  unfold idealExtent
  rw [le_antisymm b a, le_antisymm d c]

/-- **Time-only against a point / line type, from the coordinates.**  `g` a Point, LineString, MultiPoint
    or MultiLineString with raw bounds `b`, `h` a TimeStamp or TimeInterval.  If the time extent GEOS
    reports for the buffer of `g` is admissible (`extentWithin`, monitored on every such pair), then
    `compute_affinity`, in either argument order, returns one value inside the band
    `bufferedTimeBand ρ κ tol g h tb fb` that the check computes without the library's buffer code -/
theorem C06_buffered_time_band (G : Geos σ) (g h : Geom) (ρ κ tol tb fb : Rat) (b : Bounds) (band : Rat × Rat)
    (hb : 0 ≤ tb ∧ 0 ≤ fb) (wh : WF h) (hgb : g.bounds = some b)
    (hband : bufferedTimeBand ρ κ tol g h tb fb = some band)
    (hext : extentWithin ρ κ tol b.st b.en tb (G.st (G.buffered g tb fb)) (G.en (G.buffered g tb fb)) = true)
    (hord : G.st (G.buffered g tb fb) ≤ G.en (G.buffered g tb fb)) :
    ∃ v, affinity G g h tb fb = .ok v ∧ affinity G h g tb fb = .ok v ∧ band.1 ≤ v ∧ v ≤ band.2 := by
  unfold bufferedTimeBand at hband
  by_cases hc : (geosBuffered g && timeTypes.contains h.tag) = true
  · rw [if_pos hc] at hband
    obtain ⟨hg, ht⟩ := Bool.and_eq_true_iff.mp hc
    obtain ⟨s2, e2, p2, pu, o2⟩ := prepare_timeOnly G h tb fb ht hb wh
    have p1 := prepare_geosBuffered G g tb fb hg hb
    rw [hgb, pu] at hband
    simp only [timeBounds, Option.some.injEq] at hband
    subst hband
    obtain ⟨k1, k2⟩ := C06_extent_band ρ κ tol b.st b.en tb _ _ s2 e2 hext hord o2
    refine ⟨timeIoU (G.st (G.buffered g tb fb)) (G.en (G.buffered g tb fb)) s2 e2, ?_, ?_, k1.1, k1.2⟩
    · rw [affinity_eq G g h tb fb _ _ p1 p2]
      simp [affinityP, isTime_interval, timeBounds]
    · rw [affinity_eq G h g tb fb _ _ p2 p1, timeIoU_symm]
      simp [affinityP, isTime_interval, timeBounds]
  · rw [if_neg hc] at hband
    cases hband

/-- **the property's clause**: when the reported extent is the ideal one (`ρ = κ = 1`, no slack — an
    exact buffer), the affinity *is* the IoU of the ideal buffered time extents: `[max (s - tb) 0, e + tb]`
    for the point / line type with raw bounds `[s, e] = [b.st, b.en]` (`b` is tied to `g` by `hext` alone: in
    the check it is `g.bounds`), and the closed-form extent of the time-only side -/
theorem C06_buffered_time_exact (G : Geos σ) (g h : Geom) (tb fb : Rat) (b : Bounds) (x2 : Rat × Rat)
    (hb : 0 ≤ tb ∧ 0 ≤ fb) (wh : WF h) (hg : geosBuffered g = true) (ht : timeTypes.contains h.tag = true)
    (hx : closedExtent h tb = some x2)
    (hext : extentWithin 1 1 0 b.st b.en tb (G.st (G.buffered g tb fb)) (G.en (G.buffered g tb fb)) = true) :
    affinity G g h tb fb = .ok (timeIoU (max (b.st - tb) 0) (b.en + tb) x2.1 x2.2) ∧
    affinity G h g tb fb = .ok (timeIoU (max (b.st - tb) 0) (b.en + tb) x2.1 x2.2) := by
  obtain ⟨s2, e2, p2, _, _⟩ := prepare_timeOnly G h tb fb ht hb wh
  have p1 := prepare_geosBuffered G g tb fb hg hb
  have hx2 : x2 = (s2, e2) := by
    have hn : ¬ (tb < 0 ∨ fb < 0) := by
      rintro (h | h) <;> linarith [hb.1, hb.2]
    rw [prepare_spec] at p2
    cases h <;> simp [timeTypes, Geom.tag] at ht <;> simp [closedExtent] at hx <;> simp [hn] at p2 <;>
      rw [← hx] <;> simp [p2.1, p2.2]
  have he := C06_extent_exact _ _ _ _ _ hext
  simp only [idealExtent, Prod.mk.injEq] at he
  subst hx2
  constructor
  · rw [affinity_eq G g h tb fb _ _ p1 p2]
    simp [affinityP, isTime_interval, timeBounds, he.1, he.2]
  · rw [affinity_eq G h g tb fb _ _ p2 p1]
    simp only [affinityP, isTime_interval, timeBounds, Bool.true_or, if_true]
    rw [timeIoU_symm, he.1, he.2]

/-- **the shapely pipeline satisfies the extent contract** (corollary of C11's pipeline theorems).
    `S` the point set of a valid point / line geometry `g` with raw bounds `b` (it contains the vertices
    and has no time outside `[b.st, b.en]`), `buf` GEOS's buffer with the two contracts `CoversDisc ρ`
    (lower side: `C11_pipeline_bounds_extend`) and `ReachAtMost κ` (upper side), `[st, en]` the time extent
    of the result of `buffer_shapely_geometry`.  Then `[st, en]` is admissible, exactly (`tol = 0`). -/
theorem C06_pipeline_extent_within (buf : SE.Buf.PSet → SE.Buf.PSet) (S : SE.Buf.PSet) (g : Geom) (b : Bounds)
    (ρ κ tb fb m maxT st en : Rat) (hρ : 0 ≤ ρ) (hκ : 0 ≤ κ) (h1 : 0 < tb) (h2 : 0 ≤ fb) (hm0 : 0 ≤ m)
    (hg : geosBuffered g = true) (hv : SE.Buf.valid g = true) (hb : g.bounds = some b)
    (hS : ∀ c ∈ g.boundPts, S c) (hSb : ∀ c, S c → b.st ≤ c.1 ∧ c.1 ≤ b.en)
    (hdisc : SE.Buf.CoversDisc ρ buf) (hreach : ReachAtMost κ buf)
    (hm : SE.Buf.IsMaxTime buf S tb fb maxT)
    (hext : IsTimeExtent (SE.Buf.pipelineSet buf S tb fb m maxT) st en) :
    extentWithin ρ κ 0 b.st b.en tb st en = true := by
  obtain ⟨hall, ⟨p, hp, hpst⟩, ⟨p', hp', hpen⟩⟩ := hext
  -- lower side: C11
  have hrb : ∀ q, SE.Buf.pipelineSet buf S tb fb m maxT q → SE.Buf.inRect ⟨st, 0, en, MAXF⟩ q := by
    intro q hq
    obtain ⟨_, d2, d3⟩ := SE.Proofs.C11.C11_pipeline_in_domain buf S tb fb m maxT q hq
    exact ⟨(hall q hq).1, (hall q hq).2, d2, d3⟩
  obtain ⟨lo1, _, lo3, _⟩ := SE.Proofs.C11.C11_pipeline_bounds_extend buf S g b ⟨st, 0, en, MAXF⟩ ρ tb fb m maxT
    hρ h1.le h2 hm0 (geosBuffered_not_closedForm g hg) hv hb hS hdisc hm hrb
  -- upper side: nothing of the buffer is farther than κ from the scaled input
  have reach : ∀ q, SE.Buf.pipelineSet buf S tb fb m maxT q →
      0 ≤ q.1 ∧ b.st - κ * tb ≤ q.1 ∧ q.1 ≤ b.en + κ * tb := by
    intro q hq
    have hd := SE.Proofs.C11.C11_pipeline_in_domain buf S tb fb m maxT q hq
    obtain ⟨_, r, hr, rfl⟩ := hq
    obtain ⟨c', ⟨c, hc, rfl⟩, hdist⟩ := hreach _ r hr
    obtain ⟨a1, a2⟩ := abs_coord_of_dist2 r (SE.Buf.scalePt tb fb c) κ hκ hdist
    obtain ⟨b1, b2⟩ := hSb c hc
    have hf : SE.Buf.factor tb = 1 / tb := SE.Proofs.Lemmas.Buffer.factor_of_pos tb h1
    simp only [SE.Buf.scalePt, SE.Buf.unscalePt, hf] at a1 a2 hd ⊢
    have e1 : r.1 / (1 / tb) = r.1 * tb := by field_simp
    have e2 : c.1 * (1 / tb) * tb = c.1 := by field_simp
    rw [e1]
    refine ⟨by rw [← e1]; exact hd.1, ?_, ?_⟩
    · have := mul_le_mul_of_nonneg_right a1 h1.le
      nlinarith
    · have := mul_le_mul_of_nonneg_right a2 h1.le
      nlinarith
  obtain ⟨u1, u2, _⟩ := reach p hp
  obtain ⟨_, _, u3⟩ := reach p' hp'
  rw [extentWithin_iff]
  simp only [extentBox, slack, zero_mul, sub_zero, add_zero]
  simp only at lo1 lo3
  exact ⟨by rw [← hpst]; exact max_le u2 u1, lo1, lo3, by rw [← hpen]; exact u3⟩

/-- with an exact unit buffer the extent of the pipeline's result is the ideal one -/
theorem C06_pipeline_extent_ideal (S : SE.Buf.PSet) (g : Geom) (b : Bounds) (tb fb m maxT st en : Rat)
    (h1 : 0 < tb) (h2 : 0 ≤ fb) (hm0 : 0 ≤ m)
    (hg : geosBuffered g = true) (hv : SE.Buf.valid g = true) (hb : g.bounds = some b)
    (hS : ∀ c ∈ g.boundPts, S c) (hSb : ∀ c, S c → b.st ≤ c.1 ∧ c.1 ≤ b.en)
    (hm : SE.Buf.IsMaxTime SE.Buf.discBuf S tb fb maxT)
    (hext : IsTimeExtent (SE.Buf.pipelineSet SE.Buf.discBuf S tb fb m maxT) st en) :
    extentWithin 1 1 0 b.st b.en tb st en = true ∧ (st, en) = idealExtent b.st b.en tb := by
  have := C06_pipeline_extent_within SE.Buf.discBuf S g b 1 1 tb fb m maxT st en (by norm_num) (by norm_num) h1 h2 hm0
    hg hv hb hS hSb (SE.Proofs.C11.C11_pipeline_contracts_ideal.2 1 (by norm_num) (le_refl _)) reachAtMost_discBuf hm hext
  exact ⟨this, C06_extent_exact _ _ _ _ _ this⟩

/-- **end to end**: the model of `buffer_shapely_geometry` (C11) under its two GEOS contracts, a `Geos`
    whose reported bounds of the buffered shape are the time extent of that point set, a time-only
    partner: `compute_affinity` lies in the band computed from the coordinates, and for the exact unit
    buffer it is the IoU of the ideal buffered time extents -/
theorem C06_pipeline_affinity_band (G : Geos σ) (buf : SE.Buf.PSet → SE.Buf.PSet) (S : SE.Buf.PSet) (g h : Geom)
    (b : Bounds) (band : Rat × Rat) (ρ κ tb fb m maxT : Rat) (hρ : 0 ≤ ρ) (hκ : 0 ≤ κ) (h1 : 0 < tb) (h2 : 0 ≤ fb)
    (hm0 : 0 ≤ m) (wh : WF h) (hv : SE.Buf.valid g = true) (hb : g.bounds = some b)
    (hband : bufferedTimeBand ρ κ 0 g h tb fb = some band)
    (hS : ∀ c ∈ g.boundPts, S c) (hSb : ∀ c, S c → b.st ≤ c.1 ∧ c.1 ≤ b.en)
    (hdisc : SE.Buf.CoversDisc ρ buf) (hreach : ReachAtMost κ buf)
    (hm : SE.Buf.IsMaxTime buf S tb fb maxT)
    (hext : IsTimeExtent (SE.Buf.pipelineSet buf S tb fb m maxT)
      (G.st (G.buffered g tb fb)) (G.en (G.buffered g tb fb))) :
    ∃ v, affinity G g h tb fb = .ok v ∧ affinity G h g tb fb = .ok v ∧ band.1 ≤ v ∧ v ≤ band.2 := by
  have hg : geosBuffered g = true := by
    unfold bufferedTimeBand at hband
    by_cases hc : (geosBuffered g && timeTypes.contains h.tag) = true
    · exact (Bool.and_eq_true_iff.mp hc).1
    · rw [if_neg hc] at hband; cases hband
  have hw := C06_pipeline_extent_within buf S g b ρ κ tb fb m maxT _ _ hρ hκ h1 h2 hm0 hg hv hb hS hSb hdisc hreach hm hext
  obtain ⟨hall, ⟨p, hp, _⟩, _⟩ := hext
  have hord : G.st (G.buffered g tb fb) ≤ G.en (G.buffered g tb fb) := by
    have := hall p hp; linarith [this.1, this.2]
  exact C06_buffered_time_band G g h ρ κ 0 tb fb b band ⟨h1.le, h2⟩ wh hb hband hw hord

-- non-vacuity: a point at 5 s buffered by 3/2 s against the interval [4, 8]
example : bufferedTimeBand 1 1 0 (.point 5 2000) (.timeInterval 4 8) (3/2) 100 = some (5/9, 5/9) := by decide +kernel
example : extentWithin 1 1 0 5 5 (3/2) (7/2) (13/2) = true ∧ extentWithin 1 1 0 5 5 (3/2) (7/2) (16/3) = false := by
  decide +kernel
-- the truncated extent [7/2, 16/3] (the clip edge read in the scaled space: 5 / (3/2) + 2) gives 8/27, outside the band
example : timeIoU (7/2) (16/3) 4 8 = 8/27 ∧ inBand (5/9, 5/9) (1 / 2 ^ 40) (8/27) = false := by decide +kernel
-- round caps: a line end may fall short by 0.49 % of the buffer; the band has a width
example : bufferedTimeBand (9951/10000) 1 0 (.lineString [(4, 3000), (6, 3000)]) (.timeInterval 4 8) 2 500
    = some (19951 / 30000, 20000 / 29951) := by decide +kernel
-- the contracts of `C06_pipeline_extent_within` are met by the exact unit buffer on a one-point set
example : ReachAtMost 1 SE.Buf.discBuf ∧ SE.Buf.CoversDisc 1 SE.Buf.discBuf :=
  ⟨reachAtMost_discBuf, SE.Proofs.C11.C11_pipeline_contracts_ideal.2 1 (by norm_num) (le_refl _)⟩
example : geosBuffered (.point 5 2000) = true ∧ SE.Buf.valid (.point 5 2000) = true ∧
    (Geom.point 5 2000).bounds = some ⟨5, 2000, 5, 2000⟩ := by decide +kernel

/-- non-vacuity of `C06_pipeline_extent_within` / `C06_pipeline_extent_ideal`: the one-point set `{(5, 2000)}` with
    the exact unit buffer, time buffer 3/2 s, frequency buffer 100 Hz: the result of the pipeline has the time extent
    `[7/2, 13/2]`, `13/2` bounds its times (`IsMaxTime`), and the conclusion holds of it -/
example : SE.Buf.IsMaxTime SE.Buf.discBuf (fun p => p = ((5 : Rat), (2000 : Rat))) (3/2) 100 (13/2) ∧
    IsTimeExtent (SE.Buf.pipelineSet SE.Buf.discBuf (fun p => p = ((5 : Rat), (2000 : Rat))) (3/2) 100 1 (13/2))
      (7/2) (13/2) ∧
    extentWithin 1 1 0 5 5 (3/2) (7/2) (13/2) = true := by
  have f1 : SE.Buf.factor (3/2) = 2/3 := by
    rw [SE.Proofs.Lemmas.Buffer.factor_of_pos _ (by norm_num)]; norm_num
  have f2 : SE.Buf.factor 100 = 1/100 := SE.Proofs.Lemmas.Buffer.factor_of_pos _ (by norm_num)
  have hmax : SE.Buf.IsMaxTime SE.Buf.discBuf (fun p => p = ((5 : Rat), (2000 : Rat))) (3/2) 100 (13/2) := by
    intro q hq
    obtain ⟨c', ⟨c, hc, rfl⟩, hq⟩ := hq
    subst hc
    have h := SE.Proofs.Lemmas.Buffer.coord_le_of_dist2 _ _ hq
    simp only [SE.Buf.scalePt, SE.Buf.unscalePt, f1] at h ⊢
    rw [div_le_iff₀ (by norm_num)]
    linarith
  have hM : (2000 : Rat) ≤ MAXF := by decide +kernel
  have key := SE.Proofs.C11.C11_pipeline_exact_ideal (fun p => p = ((5 : Rat), (2000 : Rat))) (3/2) 100 1 (13/2)
    (by norm_num) hmax
  refine ⟨hmax, ⟨?_, ⟨((7/2 : Rat), (2000 : Rat)), ?_, rfl⟩, ⟨((13/2 : Rat), (2000 : Rat)), ?_, rfl⟩⟩, by decide +kernel⟩
  · intro p hp
    obtain ⟨_, c, rfl, hw⟩ := (key p).mp hp
    simp only [SE.Buf.withinBuffers, f1, f2] at hw
    constructor
    · by_contra hc
      have hc := not_le.mp hc
      nlinarith [mul_self_nonneg ((p.2 - 2000) * (1 / 100))]
    · by_contra hc
      have hc := not_le.mp hc
      nlinarith [mul_self_nonneg ((p.2 - 2000) * (1 / 100))]
  · exact (key _).mpr ⟨⟨by norm_num, by norm_num, hM⟩, _, rfl, by simp only [SE.Buf.withinBuffers, f1, f2]; norm_num⟩
  · exact (key _).mpr ⟨⟨by norm_num, by norm_num, hM⟩, _, rfl, by simp only [SE.Buf.withinBuffers, f1, f2]; norm_num⟩

-- the shoelace area (contract `AreaExact`): a 2 x 3 rectangle given as a closed ring, with a unit-square hole
example : closedArea (.polygon [[(0, 0), (2, 0), (2, 3), (0, 3), (0, 0)]]) = some 6 := by decide +kernel
example : closedArea (.polygon [[(0, 0), (2, 0), (2, 3), (0, 3)], [(1/2, 1), (1/2, 2), (3/2, 2), (3/2, 1), (1/2, 1)]]) = some 5 := by
  decide +kernel
example : closedArea (.boundingBox 1 2 3 5) = some 6 := by decide +kernel

/-! ### follow-up 3: histories (sequences of calls in one process) and the binding of arguments -/

/-- **Histories.**  Whatever state an implementation keeps between calls (`τ` is arbitrary: module-level
    caches, values memoised on the argument objects), it returns the model's affinity at every step of every
    sequence of calls in one process iff no state reachable by some sequence of calls changes the answer of
    any single call.  This is what the operation `affinity_history` of the check decides by running
    sequences: each step is judged by `callModel` on the content the objects carry at that step. -/
theorem C06_history {τ : Type} (G : Geos σ) (step : τ → Call → τ × Except Err Rat) (s0 : τ) :
    SE.History.HistoryFree step s0 (callModel G) ↔
      ∀ calls : List Call, SE.History.runS step s0 calls = calls.map (callModel G) :=
  SE.History.historyFree_iff step s0 (callModel G)

/-- a cache keyed by anything that determines the affinity is invisible in every history … -/
theorem C06_history_keyed_cache {κ : Type} [DecidableEq κ] (G : Geos σ) (key : Call → κ)
    (hkey : ∀ x y, key x = key y → callModel G x = callModel G y) :
    SE.History.HistoryFree (keyedCacheStep key (callModel G)) [] (callModel G) :=
  keyedCache_historyFree key (callModel G) hkey

/-- … in particular a cache keyed by the complete call (both geometries and both buffers) -/
theorem C06_history_full_key_cache (G : Geos σ) (calls : List Call) :
    SE.History.runS (keyedCacheStep (fun c : Call => c) (callModel G)) [] calls = calls.map (callModel G) :=
  (C06_history G _ []).mp (C06_history_keyed_cache G (fun c => c) (fun _ _ h => by rw [h])) calls

/-- a cache keyed by the geometries alone (the buffers forgotten) is *not* history free: two time stamps one
    second apart, first with a buffer of one second (affinity 1/3), then with a quarter of a second
    (disjoint: 0) -/
theorem C06_history_partial_key_cache_not_free :
    ¬ SE.History.HistoryFree (keyedCacheStep (fun c : Call => (c.1, c.2.1)) (callModel unitGeos)) []
        (callModel unitGeos) := by
  intro h
  have := (C06_history unitGeos _ []).mp h
    [(.timeStamp 1, .timeStamp 2, 1, 1), (.timeStamp 1, .timeStamp 2, 1/4, 1)]
  revert this
  decide +kernel

/-- a shape memoised on a geometry object is invisible as long as every change of the object's coordinates
    drops it, from any state whatsoever … -/
theorem C06_history_memo_dropped (G : Geos σ) (s0 : Cell × Cell) :
    SE.History.HistoryFree (memoStep false G) s0 (callModel G) := by
  intro s _ c
  simp [memoStep, Cell.update, Cell.convert, callModel]

/-- … and is *not* when `model_copy(update=…)` / assignment carries it over (the seeded change C06-7): two
    boxes with IoU 1/7, then the second box moved ten seconds later on the same objects — the affinity is
    still 1/7 instead of 0 -/
theorem C06_history_memo_kept_not_free :
    ¬ SE.History.HistoryFree (memoStep true boxGeos) (⟨default, none⟩, ⟨default, none⟩) (callModel boxGeos) := by
  intro h
  have := (C06_history boxGeos _ _).mp h
    [(.boundingBox 1 1000 2 3000, .boundingBox (3/2) 2000 (5/2) 4000, 0, 0),
     (.boundingBox 1 1000 2 3000, .boundingBox (23/2) 2000 (25/2) 4000, 0, 0)]
  revert this
  decide +kernel

example : SE.History.runS (memoStep true boxGeos) (⟨default, none⟩, ⟨default, none⟩)
    [(.boundingBox 1 1000 2 3000, .boundingBox (3/2) 2000 (5/2) 4000, 0, 0),
     (.boundingBox 1 1000 2 3000, .boundingBox (23/2) 2000 (25/2) 4000, 0, 0)] = [.ok (1/7), .ok (1/7)] := by
  decide +kernel
example : [(Geom.boundingBox 1 1000 2 3000, Geom.boundingBox (3/2) 2000 (5/2) 4000, (0 : Rat), (0 : Rat)),
     (.boundingBox 1 1000 2 3000, .boundingBox (23/2) 2000 (25/2) 4000, 0, 0)].map (callModel boxGeos)
      = [.ok (1/7), .ok 0] := by
  decide +kernel

-- one way of passing the arguments: the optional tail of the signature binds (`key`), the rest is computation
set_option hygiene false in
local macro "bind_case " key:ident ", " pos:term ", " kw:term : tactic =>
  `(tactic| (obtain ⟨as, has⟩ := $key $pos $kw
             simp only [bindCall, bindArgs, List.length_cons, List.length_nil, h0, h2, h3, h4, if_false]
             simp [bindFrom, bindOne, has, toCall, List.lookup]))

/-- **Binding of arguments.**  For every signature the documented interface admits (`WellFormedSig`: the check
    re-extracts the signature of the imported function on every run and discharges this hypothesis by
    `decide`), every way of passing the four arguments — all positional in the documented order, the buffers
    by keyword in either order, the time buffer positional and the frequency buffer by keyword, everything by
    keyword — makes the same call, and an omitted buffer is the declared default of that parameter. -/
theorem C06_bind_wellformed (sig : Sig) (h : WellFormedSig sig = true) :
    ∃ dt df, sigDefault sig "time_buffer" = some dt ∧ sigDefault sig "freq_buffer" = some df ∧ 0 ≤ dt ∧ 0 ≤ df ∧
    ∀ g1 g2 tb fb,
      bindCall sig [.geom g1, .geom g2, .num tb, .num fb] [] = .ok (g1, g2, tb, fb) ∧
      bindCall sig [.geom g1, .geom g2] [("time_buffer", .num tb), ("freq_buffer", .num fb)] = .ok (g1, g2, tb, fb) ∧
      bindCall sig [.geom g1, .geom g2] [("freq_buffer", .num fb), ("time_buffer", .num tb)] = .ok (g1, g2, tb, fb) ∧
      bindCall sig [.geom g1, .geom g2, .num tb] [("freq_buffer", .num fb)] = .ok (g1, g2, tb, fb) ∧
      bindCall sig [] [("geometry2", .geom g2), ("freq_buffer", .num fb), ("geometry1", .geom g1),
        ("time_buffer", .num tb)] = .ok (g1, g2, tb, fb) ∧
      bindCall sig [.geom g1, .geom g2] [] = .ok (g1, g2, dt, df) ∧
      bindCall sig [.geom g1, .geom g2] [("time_buffer", .num tb)] = .ok (g1, g2, tb, df) ∧
      bindCall sig [.geom g1, .geom g2] [("freq_buffer", .num fb)] = .ok (g1, g2, dt, fb) ∧
      bindCall sig [.geom g1, .geom g2, .num tb] [] = .ok (g1, g2, tb, df) := by
  obtain ⟨dt, df, rest, rfl, hdt, hdf, hrest⟩ := wellFormedSig_shape sig h
  refine ⟨dt, df, by simp [sigDefault, List.lookup], by simp [sigDefault, List.lookup], hdt, hdf, ?_⟩
  intro g1 g2 tb fb
  have key : ∀ (pos : List Arg) (kw : List (String × Arg)), ∃ as, bindFrom pos kw 4 rest = .ok as :=
    fun pos kw => bindFrom_optional pos kw rest hrest 4
  have h0 : ¬ (rest.length + 1 + 1 + 1 + 1 < 0) := by omega
  have h2 : ¬ (rest.length + 1 + 1 + 1 + 1 < 2) := by omega
  have h3 : ¬ (rest.length + 1 + 1 + 1 + 1 < 3) := by omega
  have h4 : ¬ (rest.length + 1 + 1 + 1 + 1 < 4) := by omega
  refine ⟨?_, ?_, ?_, ?_, ?_, ?_, ?_, ?_, ?_⟩
  · bind_case key, [.geom g1, .geom g2, .num tb, .num fb], []
  · bind_case key, [.geom g1, .geom g2], [("time_buffer", .num tb), ("freq_buffer", .num fb)]
  · bind_case key, [.geom g1, .geom g2], [("freq_buffer", .num fb), ("time_buffer", .num tb)]
  · bind_case key, [.geom g1, .geom g2, .num tb], [("freq_buffer", .num fb)]
  · bind_case key, [], [("geometry2", .geom g2), ("freq_buffer", .num fb), ("geometry1", .geom g1), ("time_buffer", .num tb)]
  · bind_case key, [.geom g1, .geom g2], []
  · bind_case key, [.geom g1, .geom g2], [("time_buffer", .num tb)]
  · bind_case key, [.geom g1, .geom g2], [("freq_buffer", .num fb)]
  · bind_case key, [.geom g1, .geom g2, .num tb], []

/-- the signature of the pinned tree is well formed; one with the two buffers declared in the other order, or
    without a default for a buffer, is not -/
theorem C06_pinned_sig_wellformed :
    WellFormedSig pinnedSig = true ∧
    WellFormedSig [("geometry1", none), ("geometry2", none), ("freq_buffer", some (.num 100)),
      ("time_buffer", some (.num (1/100)))] = false ∧
    WellFormedSig [("geometry1", none), ("geometry2", none), ("time_buffer", none),
      ("freq_buffer", some (.num 100))] = false := by
  decide +kernel

-- the swapped signature binds a positional call to the other call: the frequency buffer lands in the time buffer
example : bindCall [("geometry1", none), ("geometry2", none), ("freq_buffer", some (.num 100)),
      ("time_buffer", some (.num (1/100)))] [.geom (.timeStamp 1), .geom (.timeStamp 2), .num (1/4), .num 2] []
    = .ok (.timeStamp 1, .timeStamp 2, 2, 1/4) := by
  decide +kernel
-- too many positional arguments, an unknown keyword, a parameter given twice: `TypeError`
example : bindCall pinnedSig [.geom (.timeStamp 1), .geom (.timeStamp 2), .num 1, .num 1, .num 1] [] = .error .type := by
  decide +kernel
example : bindCall pinnedSig [.geom (.timeStamp 1), .geom (.timeStamp 2)] [("buffer", .num 1)] = .error .type := by
  decide +kernel
example : bindCall pinnedSig [.geom (.timeStamp 1), .geom (.timeStamp 2), .num 1] [("time_buffer", .num 1)] = .error .type := by
  decide +kernel
example : bindCall pinnedSig [.geom (.timeStamp 1)] [] = .error .type := by decide +kernel

end SE.Proofs.C06
