/- C06 — property theorems (to be written). -/
import SoundeventModel.Basic
namespace SE.Proofs.C06

end SE.Proofs.C06
