/-
  C06 — Affinity is a symmetric intersection-over-union in [0, 1].
  Property theorems only (helper lemmas and the contracts `Sane`, `Sound`, `BoxExact`,
  `ShiftInv` on the GEOS parameter: Proofs/Lemmas/Affinity.lean).

  `affinity G g₁ g₂ tb fb` is `compute_affinity(g₁, g₂, time_buffer=tb, freq_buffer=fb)` with
  everything shapely/GEOS computes as the parameter `G`.  The model follows the repaired
  code (`fixes/C06-1-clamp-affinity.patch`): the area ratio is `min(I / U, 1)`.
-/
import Mathlib.Tactic.Linarith
import Mathlib.Tactic.Ring
import Mathlib.Algebra.Order.Field.Basic
import Proofs.Lemmas.Affinity
namespace SE.Proofs.C06
open SE SE.Affinity
variable {σ : Type}

/-! ### the two formulas -/


theorem iou_range (a b i : Rat) (h0 : 0 ≤ i) (ha : i ≤ a) (hb : i ≤ b) :
    0 ≤ iou a b i ∧ iou a b i ≤ 1 := by
  unfold iou
  split
  · exact ⟨le_refl _, by norm_num⟩
  · rename_i hu
    have hpos : 0 < a + b - i := lt_of_le_of_ne (by linarith) (Ne.symm hu)
    exact ⟨div_nonneg h0 hpos.le, (div_le_one hpos).2 (by linarith)⟩

/-- the formula does not depend on the order of the two areas -/
theorem iou_symm (a b i : Rat) : iou a b i = iou b a i := by
  unfold iou; rw [add_comm a b]

/-- `A = B = I > 0` gives exactly 1 -/
theorem iou_self (a : Rat) (h : 0 < a) : iou a a a = 1 := by
  unfold iou
  have : a + a - a = a := by ring
  rw [this, if_neg (ne_of_gt h), div_self (ne_of_gt h)]

/-- no intersection gives 0 (also through the zero-union guard) -/
theorem iou_zero (a b : Rat) : iou a b 0 = 0 := by
  unfold iou; split <;> simp

/-- the repaired (clamped) formula lies in `[0, 1]` as soon as `0 ≤ I ≤ A + B` -/
theorem iouC_range (a b i : Rat) (h0 : 0 ≤ i) (hu : i ≤ a + b) :
    0 ≤ iouC a b i ∧ iouC a b i ≤ 1 := by
  unfold iouC
  split
  · exact ⟨le_refl _, by norm_num⟩
  · rename_i hne
    have hpos : 0 < a + b - i := lt_of_le_of_ne (by linarith) (Ne.symm hne)
    exact ⟨le_min (div_nonneg h0 hpos.le) (by norm_num), min_le_right _ _⟩

/-- under the exact contract `I ≤ min(A, B)` the clamp is inactive -/
theorem iouC_eq_iou (a b i : Rat) (h0 : 0 ≤ i) (ha : i ≤ a) (hb : i ≤ b) : iouC a b i = iou a b i := by
  have h := (iou_range a b i h0 ha hb).2
  unfold iouC iou at *
  split
  · rfl
  · rename_i hne
    rw [if_neg hne] at h
    exact min_eq_left h

theorem iouC_symm (a b i : Rat) : iouC a b i = iouC b a i := by
  unfold iouC; rw [add_comm a b]

theorem iouC_self (a : Rat) (h : 0 < a) : iouC a a a = 1 := by
  rw [iouC_eq_iou a a a h.le (le_refl _) (le_refl _), iou_self a h]

theorem iouC_zero (a b : Rat) : iouC a b 0 = 0 := by
  unfold iouC; split <;> simp

/-- the time affinity is the same formula on durations and overlap length -/
theorem timeIoU_eq_iou (s1 e1 s2 e2 : Rat) :
    timeIoU s1 e1 s2 e2 = iou (e1 - s1) (e2 - s2) (max 0 (min e1 e2 - max s1 s2)) := rfl

/-- time affinity of two ordered extents lies in `[0, 1]` -/
theorem timeIoU_range (s1 e1 s2 e2 : Rat) (h1 : s1 ≤ e1) (h2 : s2 ≤ e2) :
    0 ≤ timeIoU s1 e1 s2 e2 ∧ timeIoU s1 e1 s2 e2 ≤ 1 := by
  obtain ⟨a, b, c⟩ := timeInter_bounds s1 e1 s2 e2 h1 h2
  rw [timeIoU_eq_iou]; exact iou_range _ _ _ a b c

theorem timeIoU_symm (s1 e1 s2 e2 : Rat) : timeIoU s1 e1 s2 e2 = timeIoU s2 e2 s1 e1 := by
  rw [timeIoU_eq_iou, timeIoU_eq_iou, min_comm e1 e2, max_comm s1 s2, iou_symm]

theorem timeIoU_self (s e : Rat) (h : s < e) : timeIoU s e s e = 1 := by
  rw [timeIoU_eq_iou, min_self, max_self, max_eq_right (by linarith : (0 : Rat) ≤ e - s)]
  exact iou_self _ (by linarith)

/-- extents that do not overlap (touching included) give 0 -/
theorem timeIoU_disjoint (s1 e1 s2 e2 : Rat) (h : e1 ≤ s2 ∨ e2 ≤ s1) : timeIoU s1 e1 s2 e2 = 0 := by
  have : max 0 (min e1 e2 - max s1 s2) = 0 := by
    apply max_eq_left
    rcases h with h | h
    · have := min_le_left e1 e2; have := le_max_right s1 s2; linarith
    · have := min_le_right e1 e2; have := le_max_left s1 s2; linarith
  rw [timeIoU_eq_iou, this, iou_zero]

/-- a common time offset changes nothing -/
theorem timeIoU_shift (s1 e1 s2 e2 d : Rat) :
    timeIoU (s1 + d) (e1 + d) (s2 + d) (e2 + d) = timeIoU s1 e1 s2 e2 := by
  simp only [timeIoU_eq_iou, min_add_add_right, max_add_add_right]
  congr 1 <;> ring_nf


/-! ### rectangles in closed form -/


/-- the intersection area of two rectangles is non-negative and at most either area -/
theorem boxInter_le_min (s1 l1 e1 h1 s2 l2 e2 h2 : Rat) (a1 : s1 ≤ e1) (b1 : l1 ≤ h1) (a2 : s2 ≤ e2)
    (b2 : l2 ≤ h2) :
    0 ≤ boxInter s1 l1 e1 h1 s2 l2 e2 h2 ∧
    boxInter s1 l1 e1 h1 s2 l2 e2 h2 ≤ min (boxArea s1 l1 e1 h1) (boxArea s2 l2 e2 h2) := by
  obtain ⟨h0, ha, hb⟩ := boxInter_bounds s1 l1 e1 h1 s2 l2 e2 h2 a1 b1 a2 b2
  exact ⟨h0, le_min ha hb⟩

/-- rectangle intersection area is symmetric -/
theorem boxInter_symm (s1 l1 e1 h1 s2 l2 e2 h2 : Rat) :
    boxInter s1 l1 e1 h1 s2 l2 e2 h2 = boxInter s2 l2 e2 h2 s1 l1 e1 h1 := by
  unfold boxInter; rw [min_comm e1 e2, max_comm s1 s2, min_comm h1 h2, max_comm l1 l2]

/-- a rectangle intersected with itself has its own area -/
theorem boxInter_self (s l e h : Rat) (a : s ≤ e) (b : l ≤ h) : boxInter s l e h s l e h = boxArea s l e h := by
  unfold boxInter boxArea
  rw [min_self, max_self, min_self, max_self, max_eq_right (by linarith), max_eq_right (by linarith)]

/-- rectangles disjoint in time have intersection area 0 -/
theorem boxInter_disjoint (s1 l1 e1 h1 s2 l2 e2 h2 : Rat) (h : e1 ≤ s2 ∨ e2 ≤ s1) :
    boxInter s1 l1 e1 h1 s2 l2 e2 h2 = 0 := by
  unfold boxInter
  have : max 0 (min e1 e2 - max s1 s2) = 0 := by
    apply max_eq_left
    rcases h with h | h
    · have := min_le_left e1 e2; have := le_max_right s1 s2; linarith
    · have := min_le_right e1 e2; have := le_max_left s1 s2; linarith
  rw [this, zero_mul]

/-- rectangle areas and intersection areas are invariant under a common time shift -/
theorem box_shift (s1 l1 e1 h1 s2 l2 e2 h2 d : Rat) :
    boxInter (s1 + d) l1 (e1 + d) h1 (s2 + d) l2 (e2 + d) h2 = boxInter s1 l1 e1 h1 s2 l2 e2 h2 ∧
    boxArea (s1 + d) l1 (e1 + d) h1 = boxArea s1 l1 e1 h1 := by
  unfold boxInter boxArea
  simp only [min_add_add_right, max_add_add_right]
  constructor
  · congr 2; ring
  · ring



open SE SE.Affinity

/-! ### the dispatcher -/

/-- `compute_affinity` returns a value exactly when no negative buffer reaches `buffer_geometry` -/
theorem affinity_ok_iff (G : Geos σ) (g1 g2 : Geom) (tb fb : Rat) :
    (∃ v, affinity G g1 g2 tb fb = .ok v) ↔
      (∃ p1 p2, prepare G g1 tb fb = .ok p1 ∧ prepare G g2 tb fb = .ok p2) := by
  unfold affinity
  constructor
  · rintro ⟨v, h⟩
    split at h
    · cases h
    · rename_i p1 h1
      split at h
      · cases h
      · rename_i p2 h2
        exact ⟨p1, p2, h1, h2⟩
  · rintro ⟨p1, p2, h1, h2⟩
    rw [h1, h2]; exact ⟨_, rfl⟩

/-- **Range.**  For valid geometries the (repaired) affinity lies in `[0, 1]`; of GEOS only
    `Sane` is needed (`0 ≤ I ≤ A₁ + A₂`), which binary64 results satisfy as well. -/
theorem C06_range (G : Geos σ) (hG : Sane G) (g1 g2 : Geom) (tb fb v : Rat) (w1 : WF g1) (w2 : WF g2)
    (h : affinity G g1 g2 tb fb = .ok v) : 0 ≤ v ∧ v ≤ 1 := by
  obtain ⟨p1, p2, h1, h2, rfl⟩ := affinity_ok_prepared G g1 g2 tb fb v h
  unfold affinityP
  split
  · exact timeIoU_range _ _ _ _ (prepare_ordered G hG.bounds_ordered g1 tb fb p1 w1 h1)
      (prepare_ordered G hG.bounds_ordered g2 tb fb p2 w2 h2)
  · exact iouC_range _ _ _ (hG.inter_nonneg _ _) (hG.inter_le_sum _ _)

theorem affinityP_symm (G : Geos σ) (hG : Sound G) (p1 p2 : Prep σ) :
    affinityP G p1 p2 = affinityP G p2 p1 := by
  unfold affinityP
  rw [Bool.or_comm (isTime p1) (isTime p2), timeIoU_symm, iouC_symm, hG.inter_symm]

/-- **Symmetry**, errors included -/
theorem C06_symm (G : Geos σ) (hG : Sound G) (g1 g2 : Geom) (tb fb : Rat) :
    affinity G g1 g2 tb fb = affinity G g2 g1 tb fb := by
  unfold affinity
  rcases h1 : prepare G g1 tb fb with e1 | p1 <;> rcases h2 : prepare G g2 tb fb with e2 | p2 <;> simp only
  · rw [(prepare_error G g1 tb fb e1 h1).1, (prepare_error G g2 tb fb e2 h2).1]
  · rw [affinityP_symm G hG]

/-- **Self-affinity.**  A geometry of non-zero extent (duration in the time branch, area
    otherwise) compared with itself gives exactly 1 -/
theorem C06_self_one (G : Geos σ) (hG : Sound G) (g : Geom) (tb fb : Rat) (p : Prep σ)
    (hp : prepare G g tb fb = .ok p) (hext : 0 < extent G p) : affinity G g g tb fb = .ok 1 := by
  rw [affinity_eq G g g tb fb p p hp hp]
  congr 1
  unfold affinityP
  unfold extent at hext
  cases ht : isTime p <;> simp only [ht, Bool.or_self, if_true] at hext ⊢
  · simp only [Bool.false_eq_true, if_false] at hext ⊢
    rw [hG.inter_self]; exact iouC_self _ hext
  · exact timeIoU_self _ _ (by linarith)

/-- **Disjoint in time.**  If the prepared (buffered) geometries do not overlap in time the
    affinity is 0 -/
theorem C06_disjoint_zero (G : Geos σ) (hG : Sound G) (g1 g2 : Geom) (tb fb : Rat) (p1 p2 : Prep σ)
    (w1 : WF g1) (w2 : WF g2)
    (h1 : prepare G g1 tb fb = .ok p1) (h2 : prepare G g2 tb fb = .ok p2)
    (hd : (timeBounds G p1).2 ≤ (timeBounds G p2).1 ∨ (timeBounds G p2).2 ≤ (timeBounds G p1).1) :
    affinity G g1 g2 tb fb = .ok 0 := by
  rw [affinity_eq G g1 g2 tb fb p1 p2 h1 h2]
  congr 1
  unfold affinityP
  cases t1 : isTime p1 <;> cases t2 : isTime p2 <;> simp only [Bool.or_self, Bool.or_true, Bool.or_false,
      Bool.false_eq_true, if_true, if_false]
  · obtain ⟨a1, b1⟩ := toShape_bounds G hG g1 tb fb p1 w1 h1 t1
    obtain ⟨a2, b2⟩ := toShape_bounds G hG g2 tb fb p2 w2 h2 t2
    have : G.inter (toShape G p1) (toShape G p2) = 0 := by
      rcases hd with hd | hd
      · exact hG.inter_disjoint _ _ (by rw [b1, a2]; exact hd)
      · rw [hG.inter_symm]; exact hG.inter_disjoint _ _ (by rw [b2, a1]; exact hd)
    rw [this, iouC_zero]
  all_goals exact timeIoU_disjoint _ _ _ _ hd

/-- **Bounding boxes.**  For two (valid) bounding boxes the affinity is the area
    intersection-over-union in closed form, whatever the buffers -/
theorem C06_box_closed_form (G : Geos σ) (hG : BoxExact G) (s1 l1 e1 h1 s2 l2 e2 h2 tb fb : Rat)
    (w1 : WF (.boundingBox s1 l1 e1 h1)) (w2 : WF (.boundingBox s2 l2 e2 h2)) :
    affinity G (.boundingBox s1 l1 e1 h1) (.boundingBox s2 l2 e2 h2) tb fb =
      .ok (iou (boxArea s1 l1 e1 h1) (boxArea s2 l2 e2 h2) (boxInter s1 l1 e1 h1 s2 l2 e2 h2)) := by
  have p1 : prepare G (.boundingBox s1 l1 e1 h1) tb fb = .ok (.box s1 l1 e1 h1) := by rw [prepare_spec]
  have p2 : prepare G (.boundingBox s2 l2 e2 h2) tb fb = .ok (.box s2 l2 e2 h2) := by rw [prepare_spec]
  rw [affinity_eq G _ _ tb fb _ _ p1 p2]
  congr 1
  obtain ⟨b0, b1, b2⟩ := boxInter_bounds s1 l1 e1 h1 s2 l2 e2 h2 w1.1 w1.2 w2.1 w2.2
  simp only [affinityP, isTime_box, Bool.or_self, Bool.false_eq_true, if_false, toShape]
  rw [hG.area_box _ _ _ _ w1.1 w1.2, hG.area_box _ _ _ _ w2.1 w2.2,
    hG.inter_box _ _ _ _ _ _ _ _ w1.1 w1.2 w2.1 w2.2, iouC_eq_iou _ _ _ b0 b1 b2]

/-- **Time-only.**  Whenever either geometry is a TimeStamp or a TimeInterval the affinity is
    the intersection-over-union of the (buffered) time extents -/
theorem C06_time_only_is_time_iou (G : Geos σ) (g1 g2 : Geom) (tb fb : Rat) (p1 p2 : Prep σ)
    (ht : timeTypes.contains g1.tag = true ∨ timeTypes.contains g2.tag = true)
    (h1 : prepare G g1 tb fb = .ok p1) (h2 : prepare G g2 tb fb = .ok p2) :
    affinity G g1 g2 tb fb =
      .ok (timeIoU (timeBounds G p1).1 (timeBounds G p1).2 (timeBounds G p2).1 (timeBounds G p2).2) := by
  rw [affinity_eq G g1 g2 tb fb p1 p2 h1 h2]
  congr 1
  have : (isTime p1 || isTime p2) = true := by
    rcases ht with ht | ht
    · rw [prepare_time_only G g1 tb fb p1 ht h1]; rfl
    · rw [prepare_time_only G g2 tb fb p2 ht h2]; simp
  simp only [affinityP, this, if_true]

/-- `compute_affinity` composes the dispatch (`timeBranchArgs`: which bounds reach
    `compute_affinity_in_time`) with the time IoU — the two halves that the symbolic ties
    re-derive from the source separately -/
theorem C06_time_branch_composes (G : Geos σ) (g1 g2 : Geom) (tb fb s1 e1 s2 e2 : Rat)
    (h : timeBranchArgs G g1 g2 tb fb = some (s1, e1, s2, e2)) :
    affinity G g1 g2 tb fb = .ok (timeIoU s1 e1 s2 e2) := by
  unfold timeBranchArgs at h
  unfold affinity
  rcases h1 : prepare G g1 tb fb with e | p1 <;> rcases h2 : prepare G g2 tb fb with e' | p2 <;>
    rw [h1, h2] at h <;> simp only at h
  · cases h
  · cases h
  · cases h
  · by_cases ht : (isTime p1 || isTime p2) = true
    · rw [if_pos ht] at h
      cases h
      simp only [affinityP, ht, if_true]
    · rw [if_neg ht] at h
      cases h

/-- the (buffered) time extents in closed form: a time stamp `t` becomes
    `[max(t - tb, 0), t + tb]`, intervals and boxes keep `[start, end]` -/
theorem C06_time_extents (G : Geos σ) (tb fb : Rat) (hb : 0 ≤ tb ∧ 0 ≤ fb) :
    (∀ t, ∃ p, prepare G (.timeStamp t) tb fb = .ok p ∧ timeBounds G p = (max (t - tb) 0, t + tb)) ∧
    (∀ s e, ∃ p, prepare G (.timeInterval s e) tb fb = .ok p ∧ timeBounds G p = (s, e)) ∧
    (∀ s l e h, ∃ p, prepare G (.boundingBox s l e h) tb fb = .ok p ∧ timeBounds G p = (s, e)) := by
  have hn : ¬ (tb < 0 ∨ fb < 0) := by
    rintro (h | h) <;> linarith [hb.1, hb.2]
  refine ⟨fun t => ?_, fun s e => ?_, fun s l e h => ?_⟩
  · exact ⟨.interval "TimeInterval" (max (t - tb) 0) (t + tb), by rw [prepare_spec]; simp only [hn, if_false], rfl⟩
  · exact ⟨_, by rw [prepare_spec], rfl⟩
  · exact ⟨_, by rw [prepare_spec], rfl⟩

/-- a negative buffer is rejected (`ValueError`) exactly when a geometry that is buffered is
    involved; otherwise the buffers are ignored -/
theorem C06_negative_buffer (G : Geos σ) (g1 g2 : Geom) (tb fb : Rat) :
    affinity G g1 g2 tb fb = .error .invalid ↔
      ((tb < 0 ∨ fb < 0) ∧ (bufferTypes.contains g1.tag = true ∨ bufferTypes.contains g2.tag = true)) := by
  unfold affinity
  rw [prepare_spec, prepare_spec]
  by_cases hn : tb < 0 ∨ fb < 0
  · cases g1 <;> cases g2 <;> simp [hn, bufferTypes, Geom.tag]
  · cases g1 <;> cases g2 <;> simp [hn]


/-- **Shift invariance.**  Shifting both geometries by the same time offset leaves the
    affinity unchanged as long as neither buffered geometry reaches time 0 (before and
    after the shift), so that the clamp of the buffers is inactive -/
theorem C06_shift_invariant (G : Geos σ) (d : Rat) (τ : σ → σ) (hS : ShiftInv G d τ) (g1 g2 : Geom)
    (tb fb : Rat) (p1 : g1.bounds.isSome) (p2 : g2.bounds.isSome)
    (c1 : NoClamp g1 tb d) (c2 : NoClamp g2 tb d) :
    affinity G (g1.shift d) (g2.shift d) tb fb = affinity G g1 g2 tb fb := by
  unfold affinity
  rw [prepare_shift G d τ hS g1 tb fb p1 c1, prepare_shift G d τ hS g2 tb fb p2 c2]
  rcases prepare G g1 tb fb with e1 | q1 <;> rcases prepare G g2 tb fb with e2 | q2 <;>
    simp only [Except.map]
  congr 1
  unfold affinityP
  simp only [isTime_shiftPrep, timeBounds_shiftPrep G d τ hS, toShape_shiftPrep G d τ hS,
    timeIoU_shift, hS.area_shift, hS.inter_shift]

/-- the executable statement of the property that the check evaluates on the real outputs
    (`judgeObs`: range, symmetry, self-affinity, time-disjointness) holds of the model under
    the contract -/
theorem C06_model_holds (G : Geos σ) (hG : Sound G) (g1 g2 : Geom) (tb fb : Rat) (w1 : WF g1) (w2 : WF g2)
    (p1 p2 : Prep σ) (h1 : prepare G g1 tb fb = .ok p1) (h2 : prepare G g2 tb fb = .ok p2)
    (a12 a21 : Rat) (e12 : affinity G g1 g2 tb fb = .ok a12) (e21 : affinity G g2 g1 tb fb = .ok a21) :
    (judgeObs ⟨a12, a21, decide (g1 = g2), decide (0 < extent G p1),
      decide ((timeBounds G p1).2 ≤ (timeBounds G p2).1 ∨ (timeBounds G p2).2 ≤ (timeBounds G p1).1)⟩).all
      = true := by
  obtain ⟨r0, r1⟩ := C06_range G hG.sane g1 g2 tb fb a12 w1 w2 e12
  have hs : a12 = a21 := by
    rw [C06_symm G hG g1 g2 tb fb, e21] at e12
    cases e12; rfl
  simp only [ObsVerdict.all, judgeObs, Bool.and_eq_true, Bool.or_eq_true, Bool.not_eq_true',
    decide_eq_true_eq, Bool.and_eq_false_imp, decide_eq_false_iff_not]
  refine ⟨⟨⟨⟨r0, r1⟩, hs⟩, ?_⟩, ?_⟩
  · by_cases hsame : g1 = g2
    · by_cases hext : 0 < extent G p1
      · right
        subst hsame
        rw [C06_self_one G hG g1 tb fb p1 h1 hext] at e12
        cases e12; rfl
      · left; intro _; exact hext
    · left; intro h; exact absurd h hsame
  · by_cases hd : (timeBounds G p1).2 ≤ (timeBounds G p2).1 ∨ (timeBounds G p2).2 ≤ (timeBounds G p1).1
    · right
      rw [C06_disjoint_zero G hG g1 g2 tb fb p1 p2 w1 w2 h1 h2 hd] at e12
      cases e12; rfl
    · left; exact hd

/-! ### the contracts are satisfiable, the defect and its repair on concrete numbers -/

/-- rectangles with exact arithmetic satisfy every contract used above -/
theorem C06_contracts_satisfiable :
    Sound boxGeos ∧ Sane boxGeos ∧ BoxExact boxGeos ∧ ∀ d, ShiftInv boxGeos d (shiftRect d) :=
  ⟨boxGeos_sound, boxGeos_sound.sane, boxGeos_boxExact, boxGeos_shiftInv⟩

/-- why the clamp is needed: when the measured intersection exceeds an area (as binary64 GEOS
    results do by a few ulp) the pinned formula leaves `[0, 1]`, the repaired one does not -/
theorem C06_pinned_formula_exceeds_one :
    ∃ a b i : Rat, 0 ≤ i ∧ i ≤ a + b ∧ 1 < iou a b i ∧ iouC a b i = 1 :=
  ⟨1, 1, 9/8, by decide +kernel, by decide +kernel, by decide +kernel, by decide +kernel⟩

example : affinity boxGeos (.boundingBox 0 0 2 1) (.boundingBox 1 0 3 1) (1/100) 100 = .ok (1/3) := by decide +kernel
example : affinity boxGeos (.timeStamp 1) (.timeInterval 1 2) (1/2) 100 = .ok (1/3) := by decide +kernel
example : affinity boxGeos (.timeStamp 1) (.timeInterval 1 2) (-1) 100 = .error .invalid := by decide +kernel
example : affinity boxGeos (.boundingBox 0 0 2 1) (.timeInterval 1 2) (-1) 100 = .ok (1/2) := by decide +kernel
example : affinity boxGeos (.boundingBox 0 100 1 200) (.boundingBox 5 100 6 200) (1/100) 100 = .ok 0 := by decide +kernel
example : WF (.boundingBox 0 0 2 1) := ⟨by decide +kernel, by decide +kernel⟩
example : NoClamp (.timeStamp 1) (1/2) 3 := by
  intro b hb; rw [bounds_timeStamp] at hb; cases hb; constructor <;> decide +kernel

end SE.Proofs.C06
