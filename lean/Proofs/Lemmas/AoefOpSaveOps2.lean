/-
  C02 — refinement of the operational save path: the specifications of the object adapters
  (clips, sound events, sequences, annotations, predictions, tasks, matches, clip evaluations).
-/
import Proofs.Lemmas.AoefOpSaveOps
namespace SE.Aoef
open SE.Paths

section ops
variable {T : List Tag} {dir : Option PPath}

local macro "norec" : tactic => `(tactic| simp [kindIx, objKey])

/-! ### clips and sound events -/
theorem opClip_spec (c : Clip) (os : List Obj) (hpre : Pre T dir os (clipAll c)) :
    Spec T dir (opClip dir c) os (clipAll c) (encClip c) := by
  unfold opClip
  refine viaStore_spec (tabClips (T := T) (dir := dir)) c (recAll c.recording) _
    (PathsOK dir (recAll c.recording)) hpre
    (fun h o ho => clipAll_full hpre.closed h o (List.mem_append_left _ ho))
    (hno_of_kinds (tabClips (T := T) (dir := dir)) 3 (fun _ => rfl) (kinds_recAll _) (by decide) c)
    ?_ ?_
  · simp only [pathsOK_append, pathsOK_single_norec (o := Obj.clip c) (by norec), and_true]
  · intro hp
    exact (opRecordingId_spec _ _ hp).map

theorem opClipId_spec (c : Clip) (os : List Obj) (hpre : Pre T dir os (clipAll c)) :
    Spec T dir (opClipId dir c) os (clipAll c) c.uuid := by
  unfold opClipId
  exact (opClip_spec c os hpre).map (g := fun o : ClipObj => o.uuid)

theorem opSoundEvent_spec (s : SoundEvent) (os : List Obj) (hpre : Pre T dir os (seAll s)) :
    Spec T dir (opSoundEvent dir s) os (seAll s) (encSoundEvent s) := by
  unfold opSoundEvent
  refine viaStore_spec (tabSEs (T := T) (dir := dir)) s (recAll s.recording) _
    (PathsOK dir (recAll s.recording)) hpre
    (fun h o ho => seAll_full hpre.closed h o (List.mem_append_left _ ho))
    (hno_of_kinds (tabSEs (T := T) (dir := dir)) 4 (fun _ => rfl) (kinds_recAll _) (by decide) s)
    ?_ ?_
  · simp only [pathsOK_append, pathsOK_single_norec (o := Obj.soundEvent s) (by norec), and_true]
  · intro hp
    exact (opRecordingId_spec _ _ hp).map

theorem opSoundEventId_spec (s : SoundEvent) (os : List Obj) (hpre : Pre T dir os (seAll s)) :
    Spec T dir (opSoundEventId dir s) os (seAll s) s.uuid := by
  unfold opSoundEventId
  exact (opSoundEvent_spec s os hpre).map (g := fun o : SoundEventObj => o.uuid)

theorem opSoundEventIds_spec (ss : List SoundEvent) (os : List Obj)
    (hpre : Pre T dir os (ss.flatMap seAll)) :
    Spec T dir (opList (opSoundEventId dir) ss) os (ss.flatMap seAll) (ss.map (·.uuid)) :=
  opList_spec (opSoundEventId dir) _ _ ss (fun s _ => closedL_seAll s)
    (fun s _ os h => opSoundEventId_spec s os h) os hpre

/-! ### sequences: the parent chain -/
theorem seqAllAux_anc_len (a : SeqNode) (as : List SeqNode) (y : Sequence)
    (h : Obj.sequence y ∈ seqAllAux a as) : y.ancestors.length ≤ as.length := by
  induction as generalizing a with
  | nil =>
    simp only [seqAllAux, List.mem_append, List.mem_singleton, Obj.sequence.injEq] at h
    rcases h with h | h
    · exact absurd h (noseq_sesAll _ _)
    · subst h; exact Nat.le_refl _
  | cons b bs ih =>
    simp only [seqAllAux, List.mem_append, List.mem_singleton, Obj.sequence.injEq] at h
    rcases h with (h | h) | h
    · exact Nat.le_succ_of_le (ih b h)
    · exact absurd h (noseq_sesAll _ _)
    · subst h; exact Nat.le_refl _

theorem opSeqAux_spec (n : SeqNode) (as : List SeqNode) : ∀ (os : List Obj),
    Pre T dir os (seqAllAux n as) →
    Spec T dir (opSeqAux dir n as) os (seqAllAux n as) (encSequence ⟨n, as⟩) := by
  induction as generalizing n with
  | nil =>
    intro os hpre
    unfold opSeqAux
    unfold seqAllAux at hpre ⊢
    refine viaStore_spec (tabSeqs (T := T) (dir := dir)) (⟨n, []⟩ : Sequence)
      (n.sound_events.flatMap seAll) _ (PathsOK dir (n.sound_events.flatMap seAll)) hpre
      (fun h o ho => seqAllAux_full hpre.closed n [] h o (List.mem_append_left _ ho))
      (hno_of_kinds (tabSeqs (T := T) (dir := dir)) 5 (fun _ => rfl) (kinds_sesAll _) (by decide) _)
      ?_ ?_
    · simp only [pathsOK_append, pathsOK_single_norec (o := Obj.sequence ⟨n, []⟩) (by norec),
        and_true]
    · intro hp
      exact (opSoundEventIds_spec _ _ hp).map
  | cons a as ih =>
    intro os hpre
    unfold opSeqAux
    unfold seqAllAux at hpre ⊢
    refine viaStore_spec (tabSeqs (T := T) (dir := dir)) (⟨n, a :: as⟩ : Sequence)
      (seqAllAux a as ++ n.sound_events.flatMap seAll) _
      (PathsOK dir (seqAllAux a as) ∧ PathsOK dir (n.sound_events.flatMap seAll)) hpre
      (fun h o ho => seqAllAux_full hpre.closed n (a :: as) h o (by
        unfold seqAllAux; exact List.mem_append_left _ ho))
      ?_ ?_ ?_
    · -- a stored ancestor cannot carry the node's uuid: it would be the node itself
      intro o ho y hs hk
      have hoy : o = Obj.sequence y := tabSeqs.inj_sel (T := T) (dir := dir) o y hs
      subst hoy
      rcases List.mem_append.1 ho with h | h
      · have heq : Obj.sequence y = Obj.sequence ⟨n, a :: as⟩ :=
          hpre.coh _ (by simp [h]) _ (by simp) (by
            simp only [objKey]
            have : y.node.uuid = n.uuid := hk
            rw [this])
        have hy : y = ⟨n, a :: as⟩ := Obj.sequence.inj heq
        have := seqAllAux_anc_len a as y h
        rw [hy] at this
        simp only [List.length_cons] at this
        omega
      · exact absurd h (noseq_sesAll _ _)
    · simp only [pathsOK_append, pathsOK_single_norec (o := Obj.sequence ⟨n, a :: as⟩) (by norec),
        and_true]
    · intro hp
      refine SpecP.bind hp (closedL_seqAllAux _ _) id (ih a os) fun _ hp1 => ?_
      exact (opSoundEventIds_spec _ _ hp1).map

theorem opSequence_spec (s : Sequence) (os : List Obj) (hpre : Pre T dir os (seqAll s)) :
    Spec T dir (opSequence dir s) os (seqAll s) (encSequence s) :=
  opSeqAux_spec s.node s.ancestors os hpre

theorem opSequenceId_spec (s : Sequence) (os : List Obj) (hpre : Pre T dir os (seqAll s)) :
    Spec T dir (opSequenceId dir s) os (seqAll s) s.uuid := by
  unfold opSequenceId
  exact (opSequence_spec s os hpre).map (g := fun o : SequenceObj => o.uuid)

/-! ### annotations -/
theorem opSEA_spec (a : SoundEventAnnotation) (os : List Obj) (hpre : Pre T dir os (seaAll a)) :
    Spec T dir (opSEA dir a) os (seaAll a) (encSEA T a) := by
  unfold opSEA
  refine viaStore_spec (tabSEAs (T := T) (dir := dir)) a
    (seAll a.sound_event ++ notesAll a.notes ++ tagsAll a.tags ++ optUser a.created_by) _
    (PathsOK dir (seAll a.sound_event) ∧ PathsOK dir (notesAll a.notes) ∧
      PathsOK dir (tagsAll a.tags) ∧ PathsOK dir (optUser a.created_by)) hpre
    (fun h o ho => seaAll_full hpre.closed h o (List.mem_append_left _ ho))
    (hno_of_kinds (tabSEAs (T := T) (dir := dir)) 6 (fun _ => rfl) (kinds_seaSub a) (by decide) a)
    ?_ ?_
  · simp only [pathsOK_append, pathsOK_single_norec (o := Obj.seAnn a) (by norec), and_true,
      and_assoc]
  · intro hp
    have hp' : Pre T dir os (seAll a.sound_event ++ (notesAll a.notes ++ (tagsAll a.tags
        ++ optUser a.created_by))) := hp.of_eq (by simp)
    refine SpecP.of_eq (ys := seAll a.sound_event ++ (notesAll a.notes ++ (tagsAll a.tags
        ++ optUser a.created_by))) ?_ (by simp) rfl
    refine SpecP.bind hp' (closedL_seAll _) id (opSoundEventId_spec _ _) fun _ hp1 => ?_
    refine SpecP.bind hp1 (closedL_notesAll _) id (opNotes_spec _ _) fun _ hp2 => ?_
    refine SpecP.bind hp2 (closedL_tagsAll _) id (opTagIds_spec _ _) fun _ hp3 => ?_
    exact (opOptUserId_spec _ _ hp3).map

theorem opSEAId_spec (a : SoundEventAnnotation) (os : List Obj) (hpre : Pre T dir os (seaAll a)) :
    Spec T dir (opSEAId dir a) os (seaAll a) a.uuid := by
  unfold opSEAId
  exact (opSEA_spec a os hpre).map (g := fun o : SoundEventAnnotationObj => o.uuid)

theorem opSQA_spec (a : SequenceAnnotation) (os : List Obj) (hpre : Pre T dir os (sqaAll a)) :
    Spec T dir (opSQA dir a) os (sqaAll a) (encSQA T a) := by
  unfold opSQA
  refine viaStore_spec (tabSQAs (T := T) (dir := dir)) a
    (seqAll a.sequence ++ notesAll a.notes ++ tagsAll a.tags ++ optUser a.created_by) _
    (PathsOK dir (seqAll a.sequence) ∧ PathsOK dir (notesAll a.notes) ∧
      PathsOK dir (tagsAll a.tags) ∧ PathsOK dir (optUser a.created_by)) hpre
    (fun h o ho => sqaAll_full hpre.closed h o (List.mem_append_left _ ho))
    (hno_of_kinds (tabSQAs (T := T) (dir := dir)) 7 (fun _ => rfl) (kinds_sqaSub a) (by decide) a)
    ?_ ?_
  · simp only [pathsOK_append, pathsOK_single_norec (o := Obj.seqAnn a) (by norec), and_true,
      and_assoc]
  · intro hp
    have hp' : Pre T dir os (seqAll a.sequence ++ (notesAll a.notes ++ (tagsAll a.tags
        ++ optUser a.created_by))) := hp.of_eq (by simp)
    refine SpecP.of_eq (ys := seqAll a.sequence ++ (notesAll a.notes ++ (tagsAll a.tags
        ++ optUser a.created_by))) ?_ (by simp) rfl
    refine SpecP.bind hp' (closedL_seqAll _) id (opSequenceId_spec _ _) fun _ hp1 => ?_
    refine SpecP.bind hp1 (closedL_notesAll _) id (opNotes_spec _ _) fun _ hp2 => ?_
    refine SpecP.bind hp2 (closedL_tagsAll _) id (opTagIds_spec _ _) fun _ hp3 => ?_
    exact (opOptUserId_spec _ _ hp3).map

theorem opSQAId_spec (a : SequenceAnnotation) (os : List Obj) (hpre : Pre T dir os (sqaAll a)) :
    Spec T dir (opSQAId dir a) os (sqaAll a) a.uuid := by
  unfold opSQAId
  exact (opSQA_spec a os hpre).map (g := fun o : SequenceAnnotationObj => o.uuid)

theorem opCA_spec (a : ClipAnnotation) (os : List Obj) (hpre : Pre T dir os (caAll a)) :
    Spec T dir (opCA dir a) os (caAll a) (encCA T a) := by
  unfold opCA
  refine viaStore_spec (tabCAs (T := T) (dir := dir)) a
    (clipAll a.clip ++ tagsAll a.tags ++ a.sound_events.flatMap seaAll
      ++ a.sequences.flatMap sqaAll ++ notesAll a.notes) _
    (PathsOK dir (clipAll a.clip) ∧ PathsOK dir (tagsAll a.tags) ∧
      PathsOK dir (a.sound_events.flatMap seaAll) ∧ PathsOK dir (a.sequences.flatMap sqaAll) ∧
      PathsOK dir (notesAll a.notes)) hpre
    (fun h o ho => caAll_full hpre.closed h o (List.mem_append_left _ ho))
    (hno_of_kinds (tabCAs (T := T) (dir := dir)) 8 (fun _ => rfl) (kinds_caSub a) (by decide) a)
    ?_ ?_
  · simp only [pathsOK_append, pathsOK_single_norec (o := Obj.clipAnn a) (by norec), and_true,
      and_assoc]
  · intro hp
    have hp' : Pre T dir os (clipAll a.clip ++ (tagsAll a.tags ++ (a.sound_events.flatMap seaAll
        ++ (a.sequences.flatMap sqaAll ++ notesAll a.notes)))) := hp.of_eq (by simp)
    refine SpecP.of_eq (ys := clipAll a.clip ++ (tagsAll a.tags ++ (a.sound_events.flatMap seaAll
        ++ (a.sequences.flatMap sqaAll ++ notesAll a.notes)))) ?_ (by simp) rfl
    refine SpecP.bind hp' (closedL_clipAll _) id (opClipId_spec _ _) fun _ hp1 => ?_
    refine SpecP.bind hp1 (closedL_tagsAll _) id (opTagIds_spec _ _) fun _ hp2 => ?_
    refine SpecP.bind hp2 (closedL_flatMap _ _ fun x _ => closedL_seaAll x) id
      (opList_spec (opSEAId dir) seaAll (·.uuid) _ (fun x _ => closedL_seaAll x)
        (fun x _ os h => opSEAId_spec x os h) _) fun _ hp3 => ?_
    refine SpecP.bind hp3 (closedL_flatMap _ _ fun x _ => closedL_sqaAll x) id
      (opList_spec (opSQAId dir) sqaAll (·.uuid) _ (fun x _ => closedL_sqaAll x)
        (fun x _ os h => opSQAId_spec x os h) _) fun _ hp4 => ?_
    exact (opNotes_spec _ _ hp4).map

theorem opCAId_spec (a : ClipAnnotation) (os : List Obj) (hpre : Pre T dir os (caAll a)) :
    Spec T dir (opCAId dir a) os (caAll a) a.uuid := by
  unfold opCAId
  exact (opCA_spec a os hpre).map (g := fun o : ClipAnnotationsObj => o.uuid)

/-! ### predictions -/
theorem opSEP_spec (p : SoundEventPrediction) (os : List Obj) (hpre : Pre T dir os (sepAll p)) :
    Spec T dir (opSEP dir p) os (sepAll p) (encSEP T p) := by
  unfold opSEP
  refine viaStore_spec (tabSEPs (T := T) (dir := dir)) p
    (seAll p.sound_event ++ ptagsAll p.tags) _
    (PathsOK dir (seAll p.sound_event) ∧ PathsOK dir (ptagsAll p.tags)) hpre
    (fun h o ho => sepAll_full hpre.closed h o (List.mem_append_left _ ho))
    (hno_of_kinds (tabSEPs (T := T) (dir := dir)) 9 (fun _ => rfl) (kinds_sepSub p) (by decide) p)
    ?_ ?_
  · simp only [pathsOK_append, pathsOK_single_norec (o := Obj.sePred p) (by norec), and_true]
  · intro hp
    refine SpecP.bind hp (closedL_seAll _) id (opSoundEventId_spec _ _) fun _ hp1 => ?_
    exact (opPTags_spec _ _ hp1).map

theorem opSEPId_spec (p : SoundEventPrediction) (os : List Obj) (hpre : Pre T dir os (sepAll p)) :
    Spec T dir (opSEPId dir p) os (sepAll p) p.uuid := by
  unfold opSEPId
  exact (opSEP_spec p os hpre).map (g := fun o : SoundEventPredictionObj => o.uuid)

theorem opSQP_spec (p : SequencePrediction) (os : List Obj) (hpre : Pre T dir os (sqpAll p)) :
    Spec T dir (opSQP dir p) os (sqpAll p) (encSQP T p) := by
  unfold opSQP
  refine viaStore_spec (tabSQPs (T := T) (dir := dir)) p
    (seqAll p.sequence ++ ptagsAll p.tags) _
    (PathsOK dir (seqAll p.sequence) ∧ PathsOK dir (ptagsAll p.tags)) hpre
    (fun h o ho => sqpAll_full hpre.closed h o (List.mem_append_left _ ho))
    (hno_of_kinds (tabSQPs (T := T) (dir := dir)) 10 (fun _ => rfl) (kinds_sqpSub p) (by decide) p)
    ?_ ?_
  · simp only [pathsOK_append, pathsOK_single_norec (o := Obj.seqPred p) (by norec), and_true]
  · intro hp
    refine SpecP.bind hp (closedL_seqAll _) id (opSequenceId_spec _ _) fun _ hp1 => ?_
    exact (opPTags_spec _ _ hp1).map

theorem opSQPId_spec (p : SequencePrediction) (os : List Obj) (hpre : Pre T dir os (sqpAll p)) :
    Spec T dir (opSQPId dir p) os (sqpAll p) p.uuid := by
  unfold opSQPId
  exact (opSQP_spec p os hpre).map (g := fun o : SequencePredictionObj => o.uuid)

theorem opCP_spec (p : ClipPrediction) (os : List Obj) (hpre : Pre T dir os (cpAll p)) :
    Spec T dir (opCP dir p) os (cpAll p) (encCP T p) := by
  unfold opCP
  refine viaStore_spec (tabCPs (T := T) (dir := dir)) p
    (clipAll p.clip ++ p.sound_events.flatMap sepAll ++ p.sequences.flatMap sqpAll
      ++ ptagsAll p.tags) _
    (PathsOK dir (clipAll p.clip) ∧ PathsOK dir (p.sound_events.flatMap sepAll) ∧
      PathsOK dir (p.sequences.flatMap sqpAll) ∧ PathsOK dir (ptagsAll p.tags)) hpre
    (fun h o ho => cpAll_full hpre.closed h o (List.mem_append_left _ ho))
    (hno_of_kinds (tabCPs (T := T) (dir := dir)) 11 (fun _ => rfl) (kinds_cpSub p) (by decide) p)
    ?_ ?_
  · simp only [pathsOK_append, pathsOK_single_norec (o := Obj.clipPred p) (by norec), and_true,
      and_assoc]
  · intro hp
    have hp' : Pre T dir os (clipAll p.clip ++ (p.sound_events.flatMap sepAll
        ++ (p.sequences.flatMap sqpAll ++ ptagsAll p.tags))) := hp.of_eq (by simp)
    refine SpecP.of_eq (ys := clipAll p.clip ++ (p.sound_events.flatMap sepAll
        ++ (p.sequences.flatMap sqpAll ++ ptagsAll p.tags))) ?_ (by simp) rfl
    refine SpecP.bind hp' (closedL_clipAll _) id (opClipId_spec _ _) fun _ hp1 => ?_
    refine SpecP.bind hp1 (closedL_flatMap _ _ fun x _ => closedL_sepAll x) id
      (opList_spec (opSEPId dir) sepAll (·.uuid) _ (fun x _ => closedL_sepAll x)
        (fun x _ os h => opSEPId_spec x os h) _) fun _ hp2 => ?_
    refine SpecP.bind hp2 (closedL_flatMap _ _ fun x _ => closedL_sqpAll x) id
      (opList_spec (opSQPId dir) sqpAll (·.uuid) _ (fun x _ => closedL_sqpAll x)
        (fun x _ os h => opSQPId_spec x os h) _) fun _ hp3 => ?_
    exact (opPTags_spec _ _ hp3).map

theorem opCPId_spec (p : ClipPrediction) (os : List Obj) (hpre : Pre T dir os (cpAll p)) :
    Spec T dir (opCPId dir p) os (cpAll p) p.uuid := by
  unfold opCPId
  exact (opCP_spec p os hpre).map (g := fun o : ClipPredictionsObj => o.uuid)

/-! ### tasks: the badge owners are converted twice -/
theorem opBadge_spec (b : StatusBadge) (os : List Obj) (hpre : Pre T dir os (badgeAll b)) :
    Spec T dir (opBadge b) os (badgeAll b) (encBadge b) := by
  unfold opBadge
  exact (opOptUserId_spec b.owner os hpre).map

theorem opTask_spec (t : AnnotationTask) (os : List Obj) (hpre : Pre T dir os (taskAll t)) :
    Spec T dir (opTask dir t) os (taskAll t) (encTask t) := by
  unfold opTask
  refine viaStore_spec (tabTasks (T := T) (dir := dir)) t
    (t.status_badges.flatMap badgeAll ++ clipAll t.clip) _
    (PathsOK dir (t.status_badges.flatMap badgeAll) ∧ PathsOK dir (clipAll t.clip) ∧ True) hpre
    (fun h o ho => taskAll_full hpre.closed h o (List.mem_append_left _ ho))
    (hno_of_kinds (tabTasks (T := T) (dir := dir)) 12 (fun _ => rfl) (kinds_taskSub t) (by decide) t)
    ?_ ?_
  · simp only [pathsOK_append, pathsOK_single_norec (o := Obj.task t) (by norec), and_true]
  · intro hp
    have hp' : Pre T dir os (t.status_badges.flatMap badgeAll ++ (clipAll t.clip ++ [])) :=
      hp.of_eq (by simp)
    refine SpecP.of_eq (ys := t.status_badges.flatMap badgeAll ++ (clipAll t.clip ++ [])) ?_
      (by simp) rfl
    refine SpecP.bind hp' (closedL_badges _) id
      (opList_spec (fun b => opOpt opUserId b.owner) badgeAll (fun b => b.owner.map (·.uuid)) _
        (fun b _ => closedL_optUser _) (fun b _ os h => opOptUserId_spec b.owner os h) _)
      fun _ hp1 => ?_
    refine SpecP.bind hp1 (closedL_clipAll _) id (opClipId_spec _ _) fun _ hp2 => ?_
    -- second pass over the badges: every owner is stored already
    refine SpecP.bind_absorb hp2 (ys := t.status_badges.flatMap badgeAll)
      (by intro o ho; simp only [List.mem_append]; exact Or.inl (Or.inr ho))
      (opList_spec opBadge badgeAll encBadge _ (fun b _ => closedL_optUser _)
        (fun b _ os h => opBadge_spec b os h) _) ?_
    exact SpecP.pure _ _

/-! ### matches and clip evaluations -/
theorem opMatch_spec (m : Match) (os : List Obj) (hpre : Pre T dir os (matchAll m)) :
    Spec T dir (opMatch dir m) os (matchAll m) (encMatch m) := by
  unfold opMatch
  rw [matchAll_eq] at hpre ⊢
  refine viaStore_spec (tabMatches (T := T) (dir := dir)) m
    (optAll sepAll m.source ++ optAll seaAll m.target) _
    (PathsOK dir (optAll sepAll m.source) ∧ PathsOK dir (optAll seaAll m.target)) hpre
    (fun h o ho => matchAll_full hpre.closed h o (by
      rw [matchAll_eq]; exact List.mem_append_left _ ho))
    (hno_of_kinds (tabMatches (T := T) (dir := dir)) 13 (fun _ => rfl) (kinds_matchSub m)
      (by decide) m)
    ?_ ?_
  · simp only [pathsOK_append, pathsOK_single_norec (o := Obj.mtch m) (by norec), and_true]
  · intro hp
    refine SpecP.bind hp (closedL_optAll fun p _ => closedL_sepAll p) id
      (opOpt_spec (opSEPId dir) sepAll (·.uuid) _ (fun p _ os h => opSEPId_spec p os h) _)
      fun _ hp1 => ?_
    exact (opOpt_spec (opSEAId dir) seaAll (·.uuid) _ (fun a _ os h => opSEAId_spec a os h) _ hp1).map

theorem opMatchId_spec (m : Match) (os : List Obj) (hpre : Pre T dir os (matchAll m)) :
    Spec T dir (opMatchId dir m) os (matchAll m) m.uuid := by
  unfold opMatchId
  exact (opMatch_spec m os hpre).map (g := fun o : MatchObj => o.uuid)

theorem opCE_spec (e : ClipEvaluation) (os : List Obj) (hpre : Pre T dir os (ceAll e)) :
    Spec T dir (opCE dir e) os (ceAll e) (encCE e) := by
  unfold opCE
  refine viaStore_spec (tabCEs (T := T) (dir := dir)) e
    (caAll e.annotations ++ cpAll e.predictions ++ e.«matches».flatMap matchAll) _
    (PathsOK dir (caAll e.annotations) ∧ PathsOK dir (cpAll e.predictions) ∧
      PathsOK dir (e.«matches».flatMap matchAll)) hpre
    (fun h o ho => ceAll_full hpre.closed h o (List.mem_append_left _ ho))
    (hno_of_kinds (tabCEs (T := T) (dir := dir)) 14 (fun _ => rfl) (kinds_ceSub e) (by decide) e)
    ?_ ?_
  · simp only [pathsOK_append, pathsOK_single_norec (o := Obj.clipEval e) (by norec), and_true,
      and_assoc]
  · intro hp
    have hp' : Pre T dir os (caAll e.annotations ++ (cpAll e.predictions
        ++ e.«matches».flatMap matchAll)) := hp.of_eq (by simp)
    refine SpecP.of_eq (ys := caAll e.annotations ++ (cpAll e.predictions
        ++ e.«matches».flatMap matchAll)) ?_ (by simp) rfl
    refine SpecP.bind hp' (closedL_caAll _) id (opCAId_spec _ _) fun _ hp1 => ?_
    refine SpecP.bind hp1 (closedL_cpAll _) id (opCPId_spec _ _) fun _ hp2 => ?_
    exact (opList_spec (opMatchId dir) matchAll (·.uuid) _ (fun x _ => closedL_matchAll x)
      (fun x _ os h => opMatchId_spec x os h) _ hp2).map

end ops

end SE.Aoef
