/- helper lemmas about the kernels of C16 (`SoundeventModel/AxisKernel.lean`) -/
import SoundeventModel.AxisKernel
import Proofs.Lemmas.Axis
import Proofs.Lemmas.NDArr
namespace SE.Axis

theorem dropLast_lattice (a s : Rat) (n : Nat) : (lattice a s n).dropLast = lattice a s (n - 1) := by
  cases n with
  | zero => simp [lattice]
  | succ k => simp [lattice_succ]

/-- a plan with a non-zero step evaluates to the coordinates of `rangeCoords` and that step -/
theorem rangePlanOf_eval (start stop s : Rat) (hs : s ≠ 0) :
    (rangePlanOf start stop s).map RangePlan.eval = .ok { coords := rangeCoords start stop s, step := s } := by
  simp only [rangePlanOf, if_neg hs]
  split
  · rename_i h
    simp [Except.map, RangePlan.eval, rangeCoords, arange, dropTrailing_lattice, dropLast_lattice]
    simp only [arangeLast] at h
    simp [h]
  · rename_i h
    simp [Except.map, RangePlan.eval, rangeCoords, arange, dropTrailing_lattice]
    simp only [arangeLast] at h
    simp [h]

theorem rangePlanOf_zero (start stop : Rat) :
    (rangePlanOf start stop 0).map RangePlan.eval = .error .zerodiv := by
  simp [rangePlanOf, Except.map]

theorem createRangeDim_some (start stop s : Rat) (size : Option Int) :
    createRangeDim start stop (some s) size = (rangePlanOf start stop s).map RangePlan.eval := by
  by_cases hs : s = 0
  · subst hs; rw [rangePlanOf_zero]; simp [createRangeDim]
  · rw [rangePlanOf_eval _ _ _ hs]; simp [createRangeDim, hs]

theorem intCast_eq_zero_iff (n : Int) : ((n : Rat) = 0) ↔ n = 0 := by
  constructor
  · intro h
    have : ((n : Int) : Rat) = ((0 : Int) : Rat) := by simpa using h
    exact Rat.intCast_inj.mp this
  · intro h; subst h; rfl

/-! ### the indexer -/

theorem axisRange_eq (coords : List Rat) (lo hi : Rat) (h : axisRange coords = some (lo, hi)) :
    listMin coords = some lo ∧ listMax coords = some hi := by
  simp only [axisRange] at h
  split at h
  · simp at h; simp_all
  · simp at h

theorem coordIndex_of_range (coords : List Rat) (lo hi v : Rat) (raise : Bool)
    (h : axisRange coords = some (lo, hi)) :
    coordIndex coords v raise = (indexKernel lo hi v raise).map (fun p => (p.eval coords).toNat) := by
  obtain ⟨h1, h2⟩ := axisRange_eq coords lo hi h
  simp only [coordIndex, h1, h2, indexKernel]
  split
  · cases raise
    · simp only [Bool.false_eq_true, if_false]
      split <;> simp [Except.map, IdxPlan.eval]
    · simp [Except.map]
  · simp only [Except.map, IdxPlan.eval]
    congr 1
    omega

theorem eval_set (axes : List (List Rat)) (ixp : IndexerPlan) (k : Nat) (p : IdxPlan) (coords : List Rat)
    (hk : axes[k]? = some coords) :
    IndexerPlan.eval axes (ixp.set k (some (k, p))) = (IndexerPlan.eval axes ixp).set k (some (p.eval coords).toNat) := by
  simp [IndexerPlan.eval, List.map_set, hk]

/-- `addressed` spelled out: every integer entry of the indexer equals the component of the
    multi-index on that axis -/
theorem addressed_iff (ix : Indexer) (m : List Nat) (hlen : ix.length = m.length) :
    addressed ix m = true ↔ ∀ (k i : Nat), ix[k]? = some (some i) → m[k]? = some i := by
  induction ix generalizing m with
  | nil =>
    cases m with
    | nil => simp [addressed]
    | cons j m => simp at hlen
  | cons e ix ih =>
    cases m with
    | nil => simp at hlen
    | cons j m =>
      have hl : ix.length = m.length := by simpa using hlen
      cases e with
      | none =>
        simp only [addressed, ih m hl]
        constructor
        · intro h k i hk
          cases k with
          | zero => simp at hk
          | succ k => simpa using h k i (by simpa using hk)
        · intro h k i hk
          simpa using h (k + 1) i (by simpa using hk)
      | some i0 =>
        simp only [addressed, Bool.and_eq_true, beq_iff_eq, ih m hl]
        constructor
        · rintro ⟨h0, h⟩ k i hk
          cases k with
          | zero => simp at hk; subst hk; simp [h0]
          | succ k => simpa using h k i (by simpa using hk)
        · intro h
          refine ⟨?_, ?_⟩
          · have := h 0 i0 (by simp); exact (by simpa using this : j = i0).symm
          · intro k i hk
            simpa using h (k + 1) i (by simpa using hk)

end SE.Axis
