/-
  Helper lemmas for C02: the identifiers each top-level list of a saved document defines, as a
  function of the traversal (`srcKeys`): distinctness and agreement with the reachable keys.
-/
import Proofs.Lemmas.AoefC02Order
namespace SE.Aoef
open SE.Paths

/-- the identifiers defined per kind, read off the sources of the top-level lists -/
def srcKeys (c : Collection) : Kind → List String
  | .user => (dedupBy (·.uuid) (usersOf c.trav)).map (·.uuid)
  | .tag => (List.range (tagTable c.trav).length).map tid
  | .recording => (recSrc c).map (·.uuid)
  | .clip => (dedupBy (·.uuid) (clipsOf c.trav)).map (·.uuid)
  | .soundEvent => (dedupBy (·.uuid) (sesOf c.trav)).map (·.uuid)
  | .sequence => (dedupBy (·.uuid) (seqsOf c.trav)).map (·.uuid)
  | .seAnn => (dedupBy (·.uuid) (seasOf c.trav)).map (·.uuid)
  | .seqAnn => (dedupBy (·.uuid) (sqasOf c.trav)).map (·.uuid)
  | .clipAnn => (caSrc c).map (·.uuid)
  | .sePred => (dedupBy (·.uuid) (sepsOf c.trav)).map (·.uuid)
  | .seqPred => (dedupBy (·.uuid) (sqpsOf c.trav)).map (·.uuid)
  | .clipPred => (cpSrc c).map (·.uuid)
  | .mtch => (dedupBy (·.uuid) (matchesOf c.trav)).map (·.uuid)
  | .clipEval => (dedupBy (·.uuid) (cesOf c.trav)).map (·.uuid)
  | .task => (taskSrc c).map (·.uuid)

theorem map_map_key {α β} (enc : α → β) (k1 : α → String) (k2 : β → String) (h : ∀ x, k2 (enc x) = k1 x)
    (xs : List α) : (xs.map enc).map k2 = xs.map k1 := by
  rw [List.map_map]; exact List.map_congr_left (fun x _ => h x)

theorem recordings_keys {c : Collection} {dir : Option PPath} {rs : List RecordingObj}
    (hrs : (recSrc c).mapM (encRecording (tagTable c.trav) dir) = .ok rs) :
    rs.map (·.uuid) = (recSrc c).map (·.uuid) := by
  apply forall₂_map_eq (mapM_ok_forall₂.1 hrs)
  intro r o h
  obtain ⟨q, _, rfl⟩ := encRecording_ok_iff.1 h
  rfl

theorem defs_eq_srcKeys {c : Collection} {dir : Option PPath} {d : Doc} {rs : List RecordingObj}
    (hrs : (recSrc c).mapM (encRecording (tagTable c.trav) dir) = .ok rs) (spec : SaveSpec c d rs) :
    ∀ k, defs d k = srcKeys c k := by
  intro k
  cases k with
  | user => simp only [defs, srcKeys, spec.users]; exact map_map_key _ _ _ (fun _ => rfl) _
  | tag => simp only [defs, srcKeys, spec.tags]; exact encTags_defs _
  | recording => simp only [defs, srcKeys, spec.recordings]; exact recordings_keys hrs
  | clip => simp only [defs, srcKeys, spec.clips]; exact map_map_key _ _ _ (fun _ => rfl) _
  | soundEvent => simp only [defs, srcKeys, spec.ses]; exact map_map_key _ _ _ (fun _ => rfl) _
  | sequence => simp only [defs, srcKeys, spec.seqs]; exact map_map_key _ _ _ (fun _ => rfl) _
  | seAnn => simp only [defs, srcKeys, spec.seas]; exact map_map_key _ _ _ (fun _ => rfl) _
  | seqAnn => simp only [defs, srcKeys, spec.sqas]; exact map_map_key _ _ _ (fun _ => rfl) _
  | clipAnn => simp only [defs, srcKeys, spec.cas]; exact map_map_key _ _ _ (fun _ => rfl) _
  | sePred => simp only [defs, srcKeys, spec.seps]; exact map_map_key _ _ _ (fun _ => rfl) _
  | seqPred => simp only [defs, srcKeys, spec.sqps]; exact map_map_key _ _ _ (fun _ => rfl) _
  | clipPred => simp only [defs, srcKeys, spec.cps]; exact map_map_key _ _ _ (fun _ => rfl) _
  | mtch => simp only [defs, srcKeys, spec.ms]; exact map_map_key _ _ _ (fun _ => rfl) _
  | clipEval => simp only [defs, srcKeys, spec.ces]; exact map_map_key _ _ _ (fun _ => rfl) _
  | task => simp only [defs, srcKeys, spec.tasks]; exact map_map_key _ _ _ (fun _ => rfl) _

theorem srcKeys_nodup {c : Collection} (h : WF c) : ∀ k, (srcKeys c k).Nodup := by
  intro k
  cases k with
  | tag => exact List.Pairwise.map tid (fun a b hab h => hab (tid_injective h)) List.nodup_range
  | recording => exact recSrc_nodup h
  | clipAnn => exact caSrc_nodup h
  | clipPred => exact cpSrc_nodup h
  | task => exact taskSrc_nodup h
  | _ => exact dedupBy_keys_nodup _ _

/-- the identifiers defined are the keys of the reachable objects (kinds other than tags) -/
theorem srcKeys_mem {c : Collection} {k : Kind} (hk : k ≠ .tag) {key : String} :
    key ∈ srcKeys c k ↔ key ∈ reachKeys c.trav k := by
  cases k with
  | tag => exact absurd rfl hk
  | recording => exact recSrc_keys
  | clipAnn => exact caSrc_keys
  | clipPred => exact cpSrc_keys
  | task => exact taskSrc_keys
  | _ => exact mem_keys_dedupBy _

end SE.Aoef
