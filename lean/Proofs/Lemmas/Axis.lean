/- helper lemmas about the axis model (C16, C17, C20) -/
import SoundeventModel.Axis
namespace SE.Axis

theorem natCast_nonneg (n : Nat) : (0 : Rat) ≤ (n : Rat) := by
  have : ((0 : Nat) : Rat) ≤ (n : Rat) := Rat.natCast_le_natCast.mpr (Nat.zero_le n)
  simpa using this

theorem natCast_pred {n : Nat} (h : 0 < n) : ((n - 1 : Nat) : Rat) = (n : Rat) - 1 := by
  obtain ⟨k, rfl⟩ : ∃ k, n = k + 1 := ⟨n - 1, by omega⟩
  simp; grind

/-! ### lattice -/

@[simp] theorem lattice_length (a s : Rat) (n : Nat) : (lattice a s n).length = n := by
  simp [lattice]

theorem lattice_getElem (a s : Rat) (n i : Nat) (h : i < (lattice a s n).length) :
    (lattice a s n)[i] = a + (i : Rat) * s := by
  simp [lattice]

theorem lattice_succ (a s : Rat) (n : Nat) :
    lattice a s (n + 1) = lattice a s n ++ [a + (n : Rat) * s] := by
  simp [lattice, List.range_succ]

theorem mem_lattice {a s : Rat} {n : Nat} {c : Rat} :
    c ∈ lattice a s n ↔ ∃ i : Nat, i < n ∧ c = a + (i : Rat) * s := by
  simp [lattice]
  constructor
  · rintro ⟨i, hi, rfl⟩; exact ⟨i, hi, rfl⟩
  · rintro ⟨i, hi, rfl⟩; exact ⟨i, hi, rfl⟩

/-- the trailing-point rule on a lattice: it stays a lattice, one point shorter or not -/
theorem dropTrailing_lattice (a s stop step : Rat) (n : Nat) :
    dropTrailing stop step (lattice a s n) =
      lattice a s (if 0 < n ∧ a + ((n - 1 : Nat) : Rat) * s ≥ stop - step / 2 then n - 1 else n) := by
  cases n with
  | zero => simp [dropTrailing, lattice]
  | succ k =>
    simp only [dropTrailing, lattice_succ]
    simp
    split <;> simp [lattice_succ]

/-! ### `create_range_dim` -/

/-- number of coordinates of `create_range_dim` -/
def rangeLen (start stop step : Rat) : Nat :=
  let n := arangeLen start stop step
  if 0 < n ∧ start + ((n - 1 : Nat) : Rat) * step ≥ stop - step / 2 then n - 1 else n

theorem rangeCoords_eq (start stop step : Rat) :
    rangeCoords start stop step = lattice start step (rangeLen start stop step) := by
  simp only [rangeCoords, arange, dropTrailing_lattice, rangeLen]

theorem rangeLen_le (start stop step : Rat) : rangeLen start stop step ≤ arangeLen start stop step := by
  unfold rangeLen; simp only; split <;> omega

/-- an index below the `arange` length is below the quotient `(stop - start) / step` -/
theorem lt_arangeLen {start stop step : Rat} {i : Nat} (h : i < arangeLen start stop step) :
    (i : Rat) < (stop - start) / step := by
  unfold arangeLen at h
  have h1 : (i : Int) < ((stop - start) / step).ceil := by omega
  exact (Rat.lt_ceil_iff (x := (stop - start) / step) (y := (i : Int))).mp h1

theorem lt_arangeLen_iff {start stop step : Rat} {i : Nat} :
    i < arangeLen start stop step ↔ (i : Rat) < (stop - start) / step := by
  unfold arangeLen
  rw [Int.lt_toNat]
  exact Rat.lt_ceil_iff (x := (stop - start) / step) (y := (i : Int))

theorem div_neg (x s : Rat) (hs : s ≠ 0) : x / (-s) = (-x) / s := by
  have h1 : x / (-s) * (-s) = x := Rat.div_mul_cancel (by grind)
  have h2 : (-x) / s * s = -x := Rat.div_mul_cancel hs
  have h3 : (x / (-s) - (-x) / s) * s = 0 := by grind
  rcases Rat.mul_eq_zero.mp h3 with h | h
  · grind
  · exact absurd h hs

theorem arangeLen_of_whole' {start stop step : Rat} {n : Nat} (hs : step ≠ 0)
    (h : stop - start = (n : Rat) * step) : arangeLen start stop step = n := by
  unfold arangeLen
  have : (stop - start) / step = ((n : Int) : Rat) := by
    rw [h, Rat.mul_div_cancel hs]; rfl
  rw [this, Rat.ceil_intCast]; simp

theorem arangeLen_of_whole {start stop step : Rat} {n : Nat} (hs : 0 < step)
    (h : stop - start = (n : Rat) * step) : arangeLen start stop step = n :=
  arangeLen_of_whole' (by grind) h

/-! ### sorted axes: minimum, maximum, `#{c ≤ v}` -/

/-- the axis is increasing (repeated coordinates allowed) -/
abbrev Sorted (coords : List Rat) : Prop := coords.Pairwise (· ≤ ·)

theorem foldl_min_of_le (x : Rat) (xs : List Rat) (h : ∀ y ∈ xs, x ≤ y) : xs.foldl min x = x := by
  induction xs with
  | nil => rfl
  | cons y ys ih =>
    have hxy : x ≤ y := h y (by simp)
    have : min x y = x := by grind
    simp only [List.foldl_cons, this]
    exact ih (fun z hz => h z (by simp [hz]))

theorem listMin_sorted {x : Rat} {xs : List Rat} (h : Sorted (x :: xs)) : listMin (x :: xs) = some x := by
  simp only [listMin]
  rw [foldl_min_of_le x xs (by simpa using (List.pairwise_cons.mp h).1)]

theorem foldl_max_sorted (x : Rat) (xs : List Rat) (h : Sorted (x :: xs)) :
    xs.foldl max x = (x :: xs).getLast (by simp) := by
  induction xs generalizing x with
  | nil => rfl
  | cons y ys ih =>
    have hxy : x ≤ y := (List.pairwise_cons.mp h).1 y (by simp)
    have : max x y = y := by grind
    simp only [List.foldl_cons, this]
    rw [ih y (List.pairwise_cons.mp h).2]
    simp

theorem listMax_sorted {x : Rat} {xs : List Rat} (h : Sorted (x :: xs)) :
    listMax (x :: xs) = some ((x :: xs).getLast (by simp)) := by
  simp only [listMax]
  rw [foldl_max_sorted x xs h]

/-- on a sorted axis the coordinates `≤ v` are exactly the first `#{c ≤ v}` ones -/
theorem lt_countLE_iff {coords : List Rat} (h : Sorted coords) (v : Rat) (j : Nat) (hj : j < coords.length) :
    j < countLE coords v ↔ coords[j] ≤ v := by
  induction coords generalizing j with
  | nil => simp at hj
  | cons x xs ih =>
    have hx := List.pairwise_cons.mp h
    by_cases hxv : x ≤ v
    · cases j with
      | zero => simp [countLE, hxv]
      | succ k =>
        have := ih hx.2 k (by simpa using hj)
        simp only [countLE] at this ⊢
        simp [hxv, this]
    · have hall : ∀ y ∈ xs, ¬ y ≤ v := fun y hy hyv => hxv (Rat.le_trans (hx.1 y hy) hyv)
      have h0 : List.countP (fun c => decide (c ≤ v)) xs = 0 := by
        rw [List.countP_eq_zero]; intro y hy; simpa using hall y hy
      simp only [countLE, List.countP_cons, h0, hxv]
      cases j with
      | zero => simp [hxv]
      | succ k =>
        have hk : k < xs.length := by simpa using hj
        have hmem : xs[k] ∈ xs := List.getElem_mem hk
        have := hall _ hmem
        simp; grind

theorem sorted_le_getLast {coords : List Rat} (h : Sorted coords) (hne : coords ≠ []) (j : Nat)
    (hj : j < coords.length) : coords[j] ≤ coords.getLast hne := by
  rw [List.getLast_eq_getElem]
  by_cases hlt : j < coords.length - 1
  · exact (List.pairwise_iff_getElem.mp h) j (coords.length - 1) hj (by omega) hlt
  · have : j = coords.length - 1 := by omega
    subst this; exact Rat.le_refl

theorem sorted_head_le {coords : List Rat} (h : Sorted coords) (hne : coords ≠ []) (j : Nat)
    (hj : j < coords.length) : coords.head hne ≤ coords[j] := by
  rw [List.head_eq_getElem]
  by_cases hlt : 0 < j
  · exact (List.pairwise_iff_getElem.mp h) 0 j (by omega) hj hlt
  · have : j = 0 := by omega
    subst this; exact Rat.le_refl

theorem countLE_le_length (coords : List Rat) (v : Rat) : countLE coords v ≤ coords.length :=
  List.countP_le_length

/-- value of the lookup on a non-empty sorted axis, by cases on the position of `v` -/
theorem coordIndex_sorted (coords : List Rat) (v : Rat) (raise : Bool) (hs : Sorted coords)
    (hne : coords ≠ []) :
    coordIndex coords v raise =
      if v < coords.head hne ∨ v > coords.getLast hne then
        (if raise then .error .key else if v < coords.head hne then .ok 0 else .ok coords.length)
      else .ok (countLE coords v - 1) := by
  cases coords with
  | nil => exact absurd rfl hne
  | cons x xs =>
    simp only [coordIndex, listMin_sorted hs, listMax_sorted hs, List.head_cons]
    rfl

/-! ### more about lattices (C17) -/

theorem lattice_append (a s : Rat) (m k : Nat) :
    lattice a s m ++ lattice (a + (m : Rat) * s) s k = lattice a s (m + k) := by
  apply List.ext_getElem
  · simp
  · intro i h1 h2
    by_cases hi : i < m
    · rw [List.getElem_append_left (by simpa using hi)]
      simp [lattice_getElem]
    · rw [List.getElem_append_right (by simpa using hi)]
      simp only [lattice_getElem, lattice_length]
      have : ((i - m : Nat) : Rat) = (i : Rat) - (m : Rat) := by
        obtain ⟨d, rfl⟩ : ∃ d, i = m + d := ⟨i - m, by omega⟩
        simp; grind
      rw [this]; grind

theorem lattice_neg_reverse (x s : Rat) (m : Nat) :
    (lattice x (-s) m).reverse = lattice (x - (m : Rat) * s + s) s m := by
  apply List.ext_getElem
  · simp
  · intro i h1 h2
    simp only [List.getElem_reverse, lattice_getElem, lattice_length]
    have hi : i < m := by simpa using h2
    have : ((m - 1 - i : Nat) : Rat) = (m : Rat) - 1 - (i : Rat) := by
      obtain ⟨d, rfl⟩ : ∃ d, m = i + 1 + d := ⟨m - 1 - i, by omega⟩
      have : i + 1 + d - 1 - i = d := by omega
      rw [this]; simp; grind
    rw [this]; grind

theorem lattice_drop (a s : Rat) (m k : Nat) :
    (lattice a s m).drop k = lattice (a + (k : Rat) * s) s (m - k) := by
  apply List.ext_getElem
  · simp
  · intro i h1 h2
    simp only [List.getElem_drop, lattice_getElem]
    simp; grind

theorem lattice_take (a s : Rat) (m k : Nat) :
    (lattice a s m).take k = lattice a s (min k m) := by
  apply List.ext_getElem
  · simp
  · intro i h1 h2
    simp [lattice_getElem]

/-- distinct indices give distinct lattice points when the step is not zero -/
theorem lattice_nodup (a s : Rat) (n : Nat) (hs : s ≠ 0) : (lattice a s n).Nodup := by
  rw [List.nodup_iff_pairwise_ne, List.pairwise_iff_getElem]
  intro i j hi hj hij h
  simp only [lattice_getElem] at h
  have h1 : ((i : Rat) - (j : Rat)) * s = 0 := by grind
  have h2 : (i : Rat) - (j : Rat) = 0 := by
    rcases Rat.mul_eq_zero.mp h1 with h | h
    · exact h
    · exact absurd h hs
  have : (i : Rat) = (j : Rat) := by grind
  have := Rat.natCast_inj.mp this
  omega

end SE.Axis
