/-
  C01 — completion order of the traversal: every sequence object is preceded by its parent
  (`SeqPB`), hence in the first-wins table of sequences the parent comes first.
-/
import Proofs.Lemmas.AoefDecode
namespace SE.Aoef
open SE.Paths

/-- every sequence object in `b` has its parent in `pre ++ (the part of b before it)` -/
def SeqPB (pre b : List Obj) : Prop :=
  ∀ l1 l2 s p, b = l1 ++ Obj.sequence s :: l2 → s.parent = some p → Obj.sequence p ∈ pre ++ l1

theorem seqPB_noseq {pre b : List Obj} (h : ∀ s, Obj.sequence s ∉ b) : SeqPB pre b := by
  intro l1 l2 s p hb _
  exact absurd (by rw [hb]; simp) (h s)

theorem seqPB_mono {pre pre' b : List Obj} (hsub : ∀ o ∈ pre, o ∈ pre') (h : SeqPB pre b) :
    SeqPB pre' b := by
  intro l1 l2 s p hb hp
  rcases List.mem_append.1 (h l1 l2 s p hb hp) with h | h
  · exact List.mem_append.2 (Or.inl (hsub _ h))
  · exact List.mem_append.2 (Or.inr h)

theorem seqPB_nil_pre {pre b : List Obj} (h : SeqPB [] b) : SeqPB pre b :=
  seqPB_mono (by intro o ho; cases ho) h

theorem seqPB_append {pre a b : List Obj} (ha : SeqPB pre a) (hb : SeqPB (pre ++ a) b) :
    SeqPB pre (a ++ b) := by
  intro l1 l2 s p h hp
  rcases List.append_eq_append_iff.1 h with ⟨a', h1, h2⟩ | ⟨c', h1, h2⟩
  · have := hb a' l2 s p h2 hp
    rw [h1]; simpa [List.append_assoc] using this
  · cases c' with
    | nil =>
      simp only [List.append_nil] at h1
      simp only [List.nil_append] at h2
      have := hb [] l2 s p h2.symm hp
      rw [← h1]; simpa using this
    | cons x c' =>
      simp only [List.cons_append, List.cons.injEq] at h2
      rcases h2 with ⟨rfl, _⟩
      exact ha l1 c' s p h1 hp

theorem seqPB_append_noseq {pre a b : List Obj} (ha : SeqPB pre a) (hb : ∀ s, Obj.sequence s ∉ b) :
    SeqPB pre (a ++ b) := seqPB_append ha (seqPB_noseq hb)

theorem seqPB_flatMap {α : Type} (f : α → List Obj) (xs : List α)
    (h : ∀ x ∈ xs, SeqPB [] (f x)) : ∀ pre, SeqPB pre (xs.flatMap f) := by
  induction xs with
  | nil => intro pre; exact seqPB_noseq (by simp)
  | cons x xs ih =>
    intro pre
    rw [List.flatMap_cons]
    exact seqPB_append (seqPB_nil_pre (h x (by simp))) (ih (fun y hy => h y (by simp [hy])) _)

theorem seqPB_single {pre : List Obj} {s : Sequence}
    (h : ∀ p, s.parent = some p → Obj.sequence p ∈ pre) : SeqPB pre [Obj.sequence s] := by
  intro l1 l2 s' p hb hp
  cases l1 with
  | nil =>
    simp only [List.nil_append, List.cons.injEq, Obj.sequence.injEq] at hb
    rcases hb with ⟨rfl, _⟩
    simpa using h p hp
  | cons x l1 => simp at hb

/-! objects without sequences -/
theorem noseq_recAll (r : Recording) : ∀ s, Obj.sequence s ∉ recAll r := by
  intro s; simp [recAll, tagsAll, notesAll, noteAll, optUser]
theorem noseq_clipAll (c : Clip) : ∀ s, Obj.sequence s ∉ clipAll c := by
  intro s; simp [clipAll, noseq_recAll]
theorem noseq_seAll (x : SoundEvent) : ∀ s, Obj.sequence s ∉ seAll x := by
  intro s; simp [seAll, noseq_recAll]
theorem noseq_sesAll (xs : List SoundEvent) : ∀ s, Obj.sequence s ∉ xs.flatMap seAll := by
  intro s; simp [noseq_seAll]
theorem noseq_seaAll (a : SoundEventAnnotation) : ∀ s, Obj.sequence s ∉ seaAll a := by
  intro s; simp [seaAll, noseq_seAll, tagsAll, notesAll, noteAll, optUser]
theorem noseq_sepAll (a : SoundEventPrediction) : ∀ s, Obj.sequence s ∉ sepAll a := by
  intro s; simp [sepAll, noseq_seAll, ptagsAll]
theorem noseq_taskAll (t : AnnotationTask) : ∀ s, Obj.sequence s ∉ taskAll t := by
  intro s; simp [taskAll, noseq_clipAll, badgeAll, optUser]
theorem noseq_matchAll (m : Match) : ∀ s, Obj.sequence s ∉ matchAll m := by
  intro s
  cases hs : m.source <;> cases ht : m.target <;> simp [matchAll, hs, ht, noseq_sepAll, noseq_seaAll]

theorem seqPB_seqAllAux (n : SeqNode) (as : List SeqNode) : ∀ pre, SeqPB pre (seqAllAux n as) := by
  induction as generalizing n with
  | nil =>
    intro pre
    unfold seqAllAux
    exact seqPB_append (seqPB_noseq (noseq_sesAll _)) (seqPB_single (by simp [Sequence.parent]))
  | cons a as ih =>
    intro pre
    unfold seqAllAux
    refine seqPB_append (seqPB_append_noseq (ih a pre) (noseq_sesAll _)) (seqPB_single ?_)
    intro p hp
    simp only [Sequence.parent, Option.some.injEq] at hp
    subst hp
    exact List.mem_append.2 (Or.inr (List.mem_append.2 (Or.inl (self_mem_seqAllAux a as))))

theorem seqPB_seqAll (s : Sequence) (pre : List Obj) : SeqPB pre (seqAll s) := seqPB_seqAllAux _ _ pre

theorem seqPB_sqaAll (a : SequenceAnnotation) (pre : List Obj) : SeqPB pre (sqaAll a) := by
  unfold sqaAll
  refine seqPB_append_noseq (seqPB_append_noseq (seqPB_append_noseq (seqPB_append_noseq
    (seqPB_seqAll _ _) ?_) ?_) ?_) ?_ <;> intro s <;> simp [tagsAll, notesAll, noteAll, optUser]

theorem seqPB_sqpAll (a : SequencePrediction) (pre : List Obj) : SeqPB pre (sqpAll a) := by
  unfold sqpAll
  refine seqPB_append_noseq (seqPB_append_noseq (seqPB_seqAll _ _) ?_) ?_ <;> intro s <;> simp [ptagsAll]

theorem seqPB_caAll (a : ClipAnnotation) (pre : List Obj) : SeqPB pre (caAll a) := by
  unfold caAll
  refine seqPB_append_noseq (seqPB_append_noseq (seqPB_append (seqPB_noseq ?_)
    (seqPB_flatMap _ _ (fun x _ => seqPB_sqaAll x []) _)) ?_) ?_ <;> intro s <;>
    simp [tagsAll, notesAll, noteAll, optUser, noseq_clipAll, noseq_seaAll]

theorem seqPB_cpAll (a : ClipPrediction) (pre : List Obj) : SeqPB pre (cpAll a) := by
  unfold cpAll
  refine seqPB_append_noseq (seqPB_append_noseq (seqPB_append (seqPB_noseq ?_)
    (seqPB_flatMap _ _ (fun x _ => seqPB_sqpAll x []) _)) ?_) ?_ <;> intro s <;>
    simp [ptagsAll, noseq_clipAll, noseq_sepAll]

theorem seqPB_ceAll (e : ClipEvaluation) (pre : List Obj) : SeqPB pre (ceAll e) := by
  unfold ceAll
  refine seqPB_append_noseq (seqPB_append_noseq (seqPB_append (seqPB_caAll _ _) (seqPB_cpAll _ _))
    ?_) ?_ <;> intro s <;> simp [noseq_matchAll]

theorem seqPB_trav (c : Collection) : SeqPB [] c.trav := by
  cases c with
  | recordingSet x => exact seqPB_noseq (by intro s; simp [Collection.trav, noseq_recAll])
  | dataset x => exact seqPB_noseq (by intro s; simp [Collection.trav, noseq_recAll])
  | annotationSet x => exact seqPB_flatMap _ _ (fun a _ => seqPB_caAll a []) _
  | annotationProject x =>
    simp only [Collection.trav]
    refine seqPB_append (seqPB_noseq ?_) (seqPB_flatMap _ _ (fun a _ => seqPB_caAll a []) _)
    intro s; simp [noseq_taskAll, tagsAll]
  | evaluationSet x =>
    simp only [Collection.trav]
    refine seqPB_append_noseq (seqPB_flatMap _ _ (fun a _ => seqPB_caAll a []) _) ?_
    intro s; simp [tagsAll]
  | predictionSet x => exact seqPB_flatMap _ _ (fun a _ => seqPB_cpAll a []) _
  | modelRun x => exact seqPB_flatMap _ _ (fun a _ => seqPB_cpAll a []) _
  | evaluation x => exact seqPB_flatMap _ _ (fun a _ => seqPB_ceAll a []) _

/-! transfer to the projection `seqsOf` -/
theorem filterMap_split {α β : Type} (f : α → Option β) : ∀ (os : List α) (l1 : List β) (y : β)
    (l2 : List β), os.filterMap f = l1 ++ y :: l2 →
    ∃ o1 x o2, os = o1 ++ x :: o2 ∧ f x = some y ∧ o1.filterMap f = l1 := by
  intro os
  induction os with
  | nil => intro l1 y l2 h; simp at h
  | cons o os ih =>
    intro l1 y l2 h
    cases hfo : f o with
    | none =>
      rw [List.filterMap_cons, hfo] at h
      rcases ih l1 y l2 h with ⟨o1, x, o2, h1, h2, h3⟩
      exact ⟨o :: o1, x, o2, by simp [h1], h2, by simp [hfo, h3]⟩
    | some z =>
      rw [List.filterMap_cons, hfo] at h
      cases l1 with
      | nil =>
        simp only [List.nil_append, List.cons.injEq] at h
        exact ⟨[], o, os, rfl, by rw [hfo, h.1], rfl⟩
      | cons w l1 =>
        simp only [List.cons_append, List.cons.injEq] at h
        rcases ih l1 y l2 h.2 with ⟨o1, x, o2, h1, h2, h3⟩
        exact ⟨o :: o1, x, o2, by simp [h1], h2, by simp [hfo, h3, h.1]⟩

/-- what a sequence requires to be registered before it: its parent's uuid -/
def seqReq (s : Sequence) : Option Atom := s.ancestors.head?.map (·.uuid)

theorem seqs_reqBefore {os : List Obj} (h : SeqPB [] os) :
    ReqBefore (fun s : Sequence => s.uuid) seqReq (seqsOf os) := by
  intro l1 y l2 k hL hreq
  rcases filterMap_split _ os l1 y l2 hL with ⟨o1, x, o2, h1, h2, h3⟩
  have hx : x = Obj.sequence y := by cases x <;> simp at h2 <;> simp [h2]
  subst hx
  rcases y with ⟨n, anc⟩
  cases anc with
  | nil => simp [seqReq] at hreq
  | cons a as =>
    simp only [seqReq, List.head?_cons, Option.map_some, Option.some.injEq] at hreq
    have := h o1 o2 ⟨n, a :: as⟩ ⟨a, as⟩ h1 rfl
    simp only [List.nil_append] at this
    refine ⟨⟨a, as⟩, ?_, hreq⟩
    rw [← h3]
    exact seqsOf_mem.2 this

end SE.Aoef
