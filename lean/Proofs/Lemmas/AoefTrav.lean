/-
  Helper lemmas about the traversal `Collection.trav` (C01 / C02):
  it contains the roots and is closed under `children`.
-/
import SoundeventModel.Aoef.Reach
namespace SE.Aoef

/-- a list of objects that contains everything its members refer to -/
def ClosedL (os : List Obj) : Prop := ∀ o ∈ os, ∀ ch ∈ children o, ch ∈ os

theorem closedL_nil : ClosedL [] := by intro o h; cases h

theorem closedL_append {a b : List Obj} (ha : ClosedL a) (hb : ClosedL b) : ClosedL (a ++ b) := by
  intro o ho ch hch
  rcases List.mem_append.1 ho with h | h
  · exact List.mem_append.2 (Or.inl (ha o h ch hch))
  · exact List.mem_append.2 (Or.inr (hb o h ch hch))

theorem closedL_flatMap {α} (f : α → List Obj) (xs : List α) (h : ∀ x ∈ xs, ClosedL (f x)) :
    ClosedL (xs.flatMap f) := by
  intro o ho ch hch
  rcases List.mem_flatMap.1 ho with ⟨x, hx, hox⟩
  exact List.mem_flatMap.2 ⟨x, hx, h x hx o hox ch hch⟩

/-- appending an object all of whose references are already there -/
theorem closedL_snoc {a : List Obj} {o : Obj} (ha : ClosedL a) (ho : ∀ ch ∈ children o, ch ∈ a) :
    ClosedL (a ++ [o]) := by
  intro x hx ch hch
  rcases List.mem_append.1 hx with h | h
  · exact List.mem_append.2 (Or.inl (ha x h ch hch))
  · have : x = o := by simpa using h
    subst this
    exact List.mem_append.2 (Or.inl (ho ch hch))

theorem closedL_leaves {os : List Obj} (h : ∀ o ∈ os, children o = []) : ClosedL os := by
  intro o ho ch hch
  rw [h o ho] at hch; cases hch

theorem closedL_tagsAll (ts : List Tag) : ClosedL (tagsAll ts) := by
  apply closedL_leaves; intro o ho
  simp only [tagsAll, List.mem_map] at ho
  rcases ho with ⟨t, _, rfl⟩; rfl

theorem closedL_ptagsAll (ts : List PredictedTag) : ClosedL (ptagsAll ts) := by
  apply closedL_leaves; intro o ho
  simp only [ptagsAll, List.mem_map] at ho
  rcases ho with ⟨t, _, rfl⟩; rfl

theorem closedL_users (us : List User) : ClosedL (us.map Obj.user) := by
  apply closedL_leaves; intro o ho
  simp only [List.mem_map] at ho
  rcases ho with ⟨t, _, rfl⟩; rfl

theorem closedL_optUser (u : Option User) : ClosedL (optUser u) := by
  unfold optUser; exact closedL_users _

theorem closedL_notesAll (ns : List Note) : ClosedL (notesAll ns) := by
  unfold notesAll
  apply closedL_flatMap; intro n _
  exact closedL_optUser _

theorem closedL_badges (bs : List StatusBadge) : ClosedL (bs.flatMap badgeAll) := by
  apply closedL_flatMap; intro n _
  exact closedL_optUser _

/-! every `…All x` ends with `x` itself -/
theorem self_mem_recAll (r : Recording) : Obj.recording r ∈ recAll r := by simp [recAll]
theorem self_mem_clipAll (c : Clip) : Obj.clip c ∈ clipAll c := by simp [clipAll]
theorem self_mem_seAll (s : SoundEvent) : Obj.soundEvent s ∈ seAll s := by simp [seAll]
theorem self_mem_seqAllAux (n : SeqNode) (as : List SeqNode) : Obj.sequence ⟨n, as⟩ ∈ seqAllAux n as := by
  cases as <;> simp [seqAllAux]
theorem self_mem_seqAll (s : Sequence) : Obj.sequence s ∈ seqAll s := self_mem_seqAllAux s.node s.ancestors
theorem self_mem_seaAll (a : SoundEventAnnotation) : Obj.seAnn a ∈ seaAll a := by simp [seaAll]
theorem self_mem_sqaAll (a : SequenceAnnotation) : Obj.seqAnn a ∈ sqaAll a := by simp [sqaAll]
theorem self_mem_caAll (a : ClipAnnotation) : Obj.clipAnn a ∈ caAll a := by simp [caAll]
theorem self_mem_sepAll (p : SoundEventPrediction) : Obj.sePred p ∈ sepAll p := by simp [sepAll]
theorem self_mem_sqpAll (p : SequencePrediction) : Obj.seqPred p ∈ sqpAll p := by simp [sqpAll]
theorem self_mem_cpAll (p : ClipPrediction) : Obj.clipPred p ∈ cpAll p := by simp [cpAll]
theorem self_mem_taskAll (t : AnnotationTask) : Obj.task t ∈ taskAll t := by simp [taskAll]
theorem self_mem_matchAll (m : Match) : Obj.mtch m ∈ matchAll m := by simp [matchAll]
theorem self_mem_ceAll (e : ClipEvaluation) : Obj.clipEval e ∈ ceAll e := by simp [ceAll]

theorem closedL_recAll (r : Recording) : ClosedL (recAll r) := by
  unfold recAll
  apply closedL_snoc
  · exact closedL_append (closedL_append (closedL_tagsAll _) (closedL_notesAll _)) (closedL_users _)
  · intro ch hch; simpa [children] using hch

theorem closedL_clipAll (c : Clip) : ClosedL (clipAll c) := by
  unfold clipAll
  apply closedL_snoc (closedL_recAll _)
  intro ch hch
  have : ch = .recording c.recording := by simpa [children] using hch
  subst this; exact self_mem_recAll _

theorem closedL_seAll (s : SoundEvent) : ClosedL (seAll s) := by
  unfold seAll
  apply closedL_snoc (closedL_recAll _)
  intro ch hch
  have : ch = .recording s.recording := by simpa [children] using hch
  subst this; exact self_mem_recAll _

theorem closedL_sesAll (ss : List SoundEvent) : ClosedL (ss.flatMap seAll) :=
  closedL_flatMap _ _ (fun s _ => closedL_seAll s)

theorem mem_sesAll {ss : List SoundEvent} {s : SoundEvent} (h : s ∈ ss) :
    Obj.soundEvent s ∈ ss.flatMap seAll :=
  List.mem_flatMap.2 ⟨s, h, self_mem_seAll s⟩

theorem closedL_seqAllAux (n : SeqNode) (as : List SeqNode) : ClosedL (seqAllAux n as) := by
  induction as generalizing n with
  | nil =>
    unfold seqAllAux
    apply closedL_snoc (closedL_sesAll _)
    intro ch hch
    simp only [children, Sequence.parent, List.append_nil, List.mem_map] at hch
    rcases hch with ⟨s, hs, rfl⟩
    exact mem_sesAll hs
  | cons a as ih =>
    unfold seqAllAux
    apply closedL_snoc (closedL_append (ih a) (closedL_sesAll _))
    intro ch hch
    simp only [children, Sequence.parent, List.mem_append, List.mem_map, List.mem_singleton] at hch
    rcases hch with ⟨s, hs, rfl⟩ | rfl
    · exact List.mem_append.2 (Or.inr (mem_sesAll hs))
    · exact List.mem_append.2 (Or.inl (self_mem_seqAllAux a as))

theorem closedL_seqAll (s : Sequence) : ClosedL (seqAll s) := closedL_seqAllAux _ _


theorem closedL_seaAll (a : SoundEventAnnotation) : ClosedL (seaAll a) := by
  unfold seaAll
  apply closedL_snoc
  · exact closedL_append (closedL_append (closedL_append (closedL_seAll _) (closedL_notesAll _))
      (closedL_tagsAll _)) (closedL_optUser _)
  · intro ch hch
    simp only [children, List.mem_append, List.mem_singleton] at hch ⊢
    rcases hch with ((rfl | h) | h) | h
    · exact Or.inl (Or.inl (Or.inl (self_mem_seAll _)))
    · exact Or.inl (Or.inl (Or.inr h))
    · exact Or.inl (Or.inr h)
    · exact Or.inr h

theorem closedL_sqaAll (a : SequenceAnnotation) : ClosedL (sqaAll a) := by
  unfold sqaAll
  apply closedL_snoc
  · exact closedL_append (closedL_append (closedL_append (closedL_seqAll _) (closedL_notesAll _))
      (closedL_tagsAll _)) (closedL_optUser _)
  · intro ch hch
    simp only [children, List.mem_append, List.mem_singleton] at hch ⊢
    rcases hch with ((rfl | h) | h) | h
    · exact Or.inl (Or.inl (Or.inl (self_mem_seqAll _)))
    · exact Or.inl (Or.inl (Or.inr h))
    · exact Or.inl (Or.inr h)
    · exact Or.inr h

theorem closedL_caAll (a : ClipAnnotation) : ClosedL (caAll a) := by
  unfold caAll
  apply closedL_snoc
  · exact closedL_append (closedL_append (closedL_append (closedL_append (closedL_clipAll _)
      (closedL_tagsAll _)) (closedL_flatMap _ _ (fun x _ => closedL_seaAll x)))
      (closedL_flatMap _ _ (fun x _ => closedL_sqaAll x))) (closedL_notesAll _)
  · intro ch hch
    simp only [children, List.mem_append, List.mem_singleton, List.mem_map] at hch ⊢
    rcases hch with (((rfl | h) | ⟨x, hx, rfl⟩) | ⟨x, hx, rfl⟩) | h
    · exact Or.inl (Or.inl (Or.inl (Or.inl (self_mem_clipAll _))))
    · exact Or.inl (Or.inl (Or.inl (Or.inr h)))
    · exact Or.inl (Or.inl (Or.inr (List.mem_flatMap.2 ⟨x, hx, self_mem_seaAll x⟩)))
    · exact Or.inl (Or.inr (List.mem_flatMap.2 ⟨x, hx, self_mem_sqaAll x⟩))
    · exact Or.inr h

theorem closedL_sepAll (p : SoundEventPrediction) : ClosedL (sepAll p) := by
  unfold sepAll
  apply closedL_snoc (closedL_append (closedL_seAll _) (closedL_ptagsAll _))
  intro ch hch
  simp only [children, List.mem_append, List.mem_singleton] at hch ⊢
  rcases hch with rfl | h
  · exact Or.inl (self_mem_seAll _)
  · exact Or.inr h

theorem closedL_sqpAll (p : SequencePrediction) : ClosedL (sqpAll p) := by
  unfold sqpAll
  apply closedL_snoc (closedL_append (closedL_seqAll _) (closedL_ptagsAll _))
  intro ch hch
  simp only [children, List.mem_append, List.mem_singleton] at hch ⊢
  rcases hch with rfl | h
  · exact Or.inl (self_mem_seqAll _)
  · exact Or.inr h

theorem closedL_cpAll (p : ClipPrediction) : ClosedL (cpAll p) := by
  unfold cpAll
  apply closedL_snoc
  · exact closedL_append (closedL_append (closedL_append (closedL_clipAll _)
      (closedL_flatMap _ _ (fun x _ => closedL_sepAll x)))
      (closedL_flatMap _ _ (fun x _ => closedL_sqpAll x))) (closedL_ptagsAll _)
  · intro ch hch
    simp only [children, List.mem_append, List.mem_singleton, List.mem_map] at hch ⊢
    rcases hch with ((rfl | ⟨x, hx, rfl⟩) | ⟨x, hx, rfl⟩) | h
    · exact Or.inl (Or.inl (Or.inl (self_mem_clipAll _)))
    · exact Or.inl (Or.inl (Or.inr (List.mem_flatMap.2 ⟨x, hx, self_mem_sepAll x⟩)))
    · exact Or.inl (Or.inr (List.mem_flatMap.2 ⟨x, hx, self_mem_sqpAll x⟩))
    · exact Or.inr h

theorem closedL_taskAll (t : AnnotationTask) : ClosedL (taskAll t) := by
  unfold taskAll
  apply closedL_snoc (closedL_append (closedL_badges _) (closedL_clipAll _))
  intro ch hch
  simp only [children, List.mem_append, List.mem_singleton] at hch ⊢
  rcases hch with h | rfl
  · exact Or.inl h
  · exact Or.inr (self_mem_clipAll _)

theorem closedL_matchAll (m : Match) : ClosedL (matchAll m) := by
  unfold matchAll
  apply closedL_snoc
  · apply closedL_append
    · cases m.source with
      | none => exact closedL_nil
      | some p => exact closedL_sepAll p
    · cases m.target with
      | none => exact closedL_nil
      | some a => exact closedL_seaAll a
  · intro ch hch
    simp only [children, List.mem_append] at hch ⊢
    rcases hch with h | h
    · left
      cases hs : m.source with
      | none => simp [hs] at h
      | some p =>
        have : ch = .sePred p := by simpa [hs] using h
        subst this; exact self_mem_sepAll p
    · right
      cases ht : m.target with
      | none => simp [ht] at h
      | some a =>
        have : ch = .seAnn a := by simpa [ht] using h
        subst this; exact self_mem_seaAll a

theorem closedL_ceAll (e : ClipEvaluation) : ClosedL (ceAll e) := by
  unfold ceAll
  apply closedL_snoc
  · exact closedL_append (closedL_append (closedL_caAll _) (closedL_cpAll _))
      (closedL_flatMap _ _ (fun x _ => closedL_matchAll x))
  · intro ch hch
    simp only [children, List.mem_append, List.mem_cons, List.mem_map, List.not_mem_nil, or_false] at hch ⊢
    rcases hch with (rfl | rfl) | ⟨x, hx, rfl⟩
    · exact Or.inl (Or.inl (self_mem_caAll _))
    · exact Or.inl (Or.inr (self_mem_cpAll _))
    · exact Or.inr (List.mem_flatMap.2 ⟨x, hx, self_mem_matchAll x⟩)

/-- the traversal of a collection is closed under direct references -/
theorem trav_closed (c : Collection) : ClosedL c.trav := by
  cases c with
  | recordingSet x => exact closedL_flatMap _ _ (fun r _ => closedL_recAll r)
  | dataset x => exact closedL_flatMap _ _ (fun r _ => closedL_recAll r)
  | annotationSet x => exact closedL_flatMap _ _ (fun r _ => closedL_caAll r)
  | annotationProject x =>
    exact closedL_append (closedL_append (closedL_flatMap _ _ (fun r _ => closedL_taskAll r))
      (closedL_tagsAll _)) (closedL_flatMap _ _ (fun r _ => closedL_caAll r))
  | evaluationSet x =>
    exact closedL_append (closedL_flatMap _ _ (fun r _ => closedL_caAll r)) (closedL_tagsAll _)
  | predictionSet x => exact closedL_flatMap _ _ (fun r _ => closedL_cpAll r)
  | modelRun x => exact closedL_flatMap _ _ (fun r _ => closedL_cpAll r)
  | evaluation x => exact closedL_flatMap _ _ (fun r _ => closedL_ceAll r)

/-- the traversal contains the collection's own members -/
theorem roots_subset_trav (c : Collection) : ∀ o ∈ c.roots, o ∈ c.trav := by
  intro o ho
  cases c with
  | recordingSet x =>
    simp only [Collection.roots, List.mem_map] at ho; rcases ho with ⟨r, hr, rfl⟩
    exact List.mem_flatMap.2 ⟨r, hr, self_mem_recAll r⟩
  | dataset x =>
    simp only [Collection.roots, List.mem_map] at ho; rcases ho with ⟨r, hr, rfl⟩
    exact List.mem_flatMap.2 ⟨r, hr, self_mem_recAll r⟩
  | annotationSet x =>
    simp only [Collection.roots, List.mem_map] at ho; rcases ho with ⟨r, hr, rfl⟩
    exact List.mem_flatMap.2 ⟨r, hr, self_mem_caAll r⟩
  | annotationProject x =>
    simp only [Collection.roots, Collection.trav, List.mem_append, List.mem_map] at ho ⊢
    rcases ho with (⟨r, hr, rfl⟩ | h) | ⟨r, hr, rfl⟩
    · exact Or.inl (Or.inl (List.mem_flatMap.2 ⟨r, hr, self_mem_taskAll r⟩))
    · exact Or.inl (Or.inr h)
    · exact Or.inr (List.mem_flatMap.2 ⟨r, hr, self_mem_caAll r⟩)
  | evaluationSet x =>
    simp only [Collection.roots, Collection.trav, List.mem_append, List.mem_map] at ho ⊢
    rcases ho with ⟨r, hr, rfl⟩ | h
    · exact Or.inl (List.mem_flatMap.2 ⟨r, hr, self_mem_caAll r⟩)
    · exact Or.inr h
  | predictionSet x =>
    simp only [Collection.roots, List.mem_map] at ho; rcases ho with ⟨r, hr, rfl⟩
    exact List.mem_flatMap.2 ⟨r, hr, self_mem_cpAll r⟩
  | modelRun x =>
    simp only [Collection.roots, List.mem_map] at ho; rcases ho with ⟨r, hr, rfl⟩
    exact List.mem_flatMap.2 ⟨r, hr, self_mem_cpAll r⟩
  | evaluation x =>
    simp only [Collection.roots, List.mem_map] at ho; rcases ho with ⟨r, hr, rfl⟩
    exact List.mem_flatMap.2 ⟨r, hr, self_mem_ceAll r⟩

/-- everything reachable from the collection is in the traversal (nothing reachable is missing) -/
theorem reachable_mem_trav (c : Collection) (o : Obj) (h : Reachable c o) : o ∈ c.trav := by
  rcases h with ⟨r, hr, hro⟩
  induction hro with
  | refl => exact roots_subset_trav c _ hr
  | step _ hch ih => exact trav_closed c _ ih _ hch

end SE.Aoef
