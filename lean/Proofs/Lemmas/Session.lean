/-
  Helper lemmas for C18 (follow-up: histories): finite maps of a session, what one step does to the
  files, and the frame property over a list of steps.
-/
import SoundeventModel.Aoef.Session
import Proofs.Lemmas.History
namespace SE.Aoef.Session
open SE SE.Paths SE.Aoef SE.History

theorem get_put_same {α : Type} (m : List (String × α)) (k : String) (v : α) : get (put m k v) k = some v := by
  simp [get, put]

theorem get_put_other {α : Type} (m : List (String × α)) {k g : String} (v : α) (h : g ≠ k) :
    get (put m k v) g = get m g := by
  simp [get, put, Ne.symm h]

theorem step_save_ok {s : State} {k f : String} {dir : Option PPath} {c : Collection} {d : Doc}
    (hk : get s.objs k = some c) (hd : Aoef.save c dir = .ok d) :
    step s (.save k f dir) = ({ s with files := put s.files f d }, .stored (storedOf d)) := by
  simp only [step, hk, hd]

theorem step_save_error {s : State} {k f : String} {dir : Option PPath} {c : Collection} {e : Err}
    (hk : get s.objs k = some c) (he : Aoef.save c dir = .error e) :
    step s (.save k f dir) = (s, .fail e) := by
  simp only [step, hk, he]

theorem step_load_ok {s : State} {f into : String} {dir : Option PPath} {d : Doc} {c : Collection}
    (hf : get s.files f = some d) (hl : Aoef.load d dir = .ok c) :
    step s (.load f dir into) = ({ s with objs := put s.objs into c }, .recs (recPaths c)) := by
  simp only [step, hf, hl]

/-- the content of a cell changes only through a successful save to that very cell, and then it is
    exactly the document of that save — or through a copy into it, and then it is the source's document -/
theorem file_changes (s : State) (st : Step) (f : String) :
    get (step s st).1.files f = get s.files f ∨
    (∃ k dir c d, st = .save k f dir ∧ get s.objs k = some c ∧ Aoef.save c dir = .ok d ∧
      get (step s st).1.files f = some d) ∨
    (∃ src d, st = .copy src f ∧ get s.files src = some d ∧ get (step s st).1.files f = some d) := by
  cases st with
  | put k c => exact .inl rfl
  | move k src dst =>
    left
    cases hk : get s.objs k with
    | none => simp only [step, hk]
    | some c => simp only [step, hk]
  | save k g dir =>
    cases hk : get s.objs k with
    | none => left; simp only [step, hk]
    | some c =>
      cases hd : Aoef.save c dir with
      | error e => left; rw [step_save_error hk hd]
      | ok d =>
        rw [step_save_ok hk hd]
        by_cases hg : g = f
        · subst hg
          exact .inr (.inl ⟨k, dir, c, d, rfl, hk, hd, get_put_same _ _ _⟩)
        · exact .inl (get_put_other _ _ (Ne.symm hg))
  | load g dir into =>
    left
    cases hf : get s.files g with
    | none => simp only [step, hf]
    | some d =>
      cases hl : Aoef.load d dir with
      | error e => simp only [step, hf, hl]
      | ok c => simp only [step, hf, hl]
  | copy src g =>
    cases hs : get s.files src with
    | none => left; simp only [step, hs]
    | some d =>
      have hstep : step s (.copy src g) = ({ s with files := put s.files g d }, .stored (storedOf d)) := by
        simp only [step, hs]
      rw [hstep]
      by_cases hg : g = f
      · subst hg
        exact .inr (.inr ⟨src, d, rfl, hs, get_put_same _ _ _⟩)
      · exact .inl (get_put_other _ _ (Ne.symm hg))
  | skip => exact .inl rfl

/-- steps that do not write to `f` (no save to it, no copy into it) leave `f` as it is -/
theorem frame (f : String) (steps : List Step) (s : State) (h : ∀ st ∈ steps, st.savesTo f = false) :
    get (after s steps).files f = get s.files f := by
  induction steps generalizing s with
  | nil => rfl
  | cons st rest ih =>
    have h1 : get (step s st).1.files f = get s.files f := by
      rcases file_changes s st f with h1 | ⟨k, dir, c, d, rfl, _⟩ | ⟨src, d, rfl, _⟩
      · exact h1
      · have := h _ List.mem_cons_self
        simp [Step.savesTo] at this
      · have := h _ List.mem_cons_self
        simp [Step.savesTo] at this
    show get (after (step s st).1 rest).files f = _
    rw [ih _ (fun x hx => h x (List.mem_cons_of_mem _ hx)), h1]

theorem step_copy_ok {s : State} {src dst : String} {d : Doc} (hs : get s.files src = some d) :
    step s (.copy src dst) = ({ s with files := put s.files dst d }, .stored (storedOf d)) := by
  simp only [step, hs]

theorem run_cons (s : State) (st : Step) (rest : List Step) :
    run s (st :: rest) = (step s st).2 :: run (step s st).1 rest := rfl

theorem run_append (s : State) (xs ys : List Step) : run s (xs ++ ys) = run s xs ++ run (after s xs) ys :=
  runS_append step s xs ys

end SE.Aoef.Session
