/-
  Helper definitions and lemmas for the follow-up of C06 (`Proofs/C06.lean`, section "follow-up 2"):
  monotonicity of the overlap and union lengths of two time extents in the ends of one of them, the
  band of the time IoU, what `_prepare_geometry` does with a GEOS-buffered / a time-only geometry,
  and the two contracts that connect the point-set model of the shapely pipeline
  (`SoundeventModel/Buffer.lean`, C11) with a measured time extent.
-/
import Mathlib.Tactic.Linarith
import Mathlib.Tactic.Ring
import Mathlib.Algebra.Order.Field.Basic
import SoundeventModel.Affinity
import SoundeventModel.Buffer
import Proofs.Lemmas.Affinity
import Proofs.Lemmas.Buffer
namespace SE.Affinity
open SE
variable {σ : Type}

/-! ### contracts -/

/-- contract on GEOS's buffer (distance 1 in the scaled space): nothing of the result is farther than
    `κ` from the input (`κ = 1` for an exact buffer and for round caps, which are inscribed in the unit
    circle; a mitre join at a sharp turn reaches up to the mitre limit) -/
def ReachAtMost (κ : Rat) (buf : SE.Buf.PSet → SE.Buf.PSet) : Prop :=
  ∀ T q, buf T q → ∃ c, T c ∧ SE.Buf.dist2 q c ≤ κ * κ

/-- `[st, en]` is the time extent of the point set `P` (what `shp.bounds[0]`, `shp.bounds[2]` return):
    it contains every time of `P` and both ends are attained -/
def IsTimeExtent (P : SE.Buf.PSet) (st en : Rat) : Prop :=
  (∀ p, P p → st ≤ p.1 ∧ p.1 ≤ en) ∧ (∃ p, P p ∧ p.1 = st) ∧ (∃ p, P p ∧ p.1 = en)

theorem reachAtMost_discBuf : ReachAtMost 1 SE.Buf.discBuf := by
  intro T q h
  obtain ⟨c, hc, hd⟩ := h
  exact ⟨c, hc, by simpa using hd⟩

/-! ### overlap and union of two time extents -/

theorem timeIoU_eq_ratio (s1 e1 s2 e2 : Rat) :
    timeIoU s1 e1 s2 e2 =
      if timeUnion s1 e1 s2 e2 = 0 then 0 else timeInter s1 e1 s2 e2 / timeUnion s1 e1 s2 e2 := rfl

theorem timeInter_nonneg (s1 e1 s2 e2 : Rat) : 0 ≤ timeInter s1 e1 s2 e2 := le_max_left _ _

/-- a larger first extent overlaps the second at least as much -/
theorem timeInter_mono (s1 s1' e1 e1' s2 e2 : Rat) (hs : s1' ≤ s1) (he : e1 ≤ e1') :
    timeInter s1 e1 s2 e2 ≤ timeInter s1' e1' s2 e2 := by
  unfold timeInter
  apply max_le_max (le_refl _)
  have := min_le_min he (le_refl e2)
  have := max_le_max hs (le_refl s2)
  linarith

/-- … and the union with the second is at least as long (the overlap grows no faster than the extent) -/
theorem timeUnion_mono (s1 s1' e1 e1' s2 e2 : Rat) (hs : s1' ≤ s1) (he : e1 ≤ e1') :
    timeUnion s1 e1 s2 e2 ≤ timeUnion s1' e1' s2 e2 := by
  unfold timeUnion timeInter
  simp only [min_def, max_def]
  split_ifs <;> linarith

theorem timeInter_le_union (s1 e1 s2 e2 : Rat) (h1 : s1 ≤ e1) (h2 : s2 ≤ e2) :
    timeInter s1 e1 s2 e2 ≤ timeUnion s1 e1 s2 e2 := by
  obtain ⟨_, a, b⟩ := timeInter_bounds s1 e1 s2 e2 h1 h2
  unfold timeUnion timeInter
  linarith

theorem timeIoU_range' (s1 e1 s2 e2 : Rat) (h1 : s1 ≤ e1) (h2 : s2 ≤ e2) :
    0 ≤ timeIoU s1 e1 s2 e2 ∧ timeIoU s1 e1 s2 e2 ≤ 1 := by
  have hI := timeInter_nonneg s1 e1 s2 e2
  have hU := timeInter_le_union s1 e1 s2 e2 h1 h2
  rw [timeIoU_eq_ratio]
  split
  · exact ⟨le_refl _, by norm_num⟩
  · rename_i hne
    have hpos : 0 < timeUnion s1 e1 s2 e2 := lt_of_le_of_ne (le_trans hI hU) (Ne.symm hne)
    exact ⟨div_nonneg hI hpos.le, (div_le_one hpos).2 hU⟩

/-- the band contains the time IoU of every extent inside the box -/
theorem timeIoU_in_band (B : ExtentBox) (st en s2 e2 : Rat)
    (h1 : B.stLo ≤ st) (h2 : st ≤ B.stHi) (h3 : B.enLo ≤ en) (h4 : en ≤ B.enHi)
    (ho : st ≤ en) (ho2 : s2 ≤ e2) :
    (timeIoUBand B s2 e2).1 ≤ timeIoU st en s2 e2 ∧ timeIoU st en s2 e2 ≤ (timeIoUBand B s2 e2).2 := by
  have iIn := timeInter_mono B.stHi st B.enLo en s2 e2 h2 h3
  have iOut := timeInter_mono st B.stLo en B.enHi s2 e2 h1 h4
  have uIn := timeUnion_mono B.stHi st B.enLo en s2 e2 h2 h3
  have uOut := timeUnion_mono st B.stLo en B.enHi s2 e2 h1 h4
  have i0 := timeInter_nonneg st en s2 e2
  have iIn0 := timeInter_nonneg B.stHi B.enLo s2 e2
  have iU := timeInter_le_union st en s2 e2 ho ho2
  obtain ⟨r0, r1⟩ := timeIoU_range' st en s2 e2 ho ho2
  constructor
  · -- smallest overlap over largest union
    show (if timeUnion B.stLo B.enHi s2 e2 = 0 then 0
      else timeInter B.stHi B.enLo s2 e2 / timeUnion B.stLo B.enHi s2 e2) ≤ _
    split
    · exact r0
    · rename_i hne
      have hpos : 0 < timeUnion B.stLo B.enHi s2 e2 := lt_of_le_of_ne (by linarith) (Ne.symm hne)
      rw [timeIoU_eq_ratio]
      split
      · rename_i hU
        have : timeInter B.stHi B.enLo s2 e2 = 0 := le_antisymm (by linarith) iIn0
        rw [this, zero_div]
      · rename_i hU
        have hUpos : 0 < timeUnion st en s2 e2 := lt_of_le_of_ne (by linarith) (Ne.symm hU)
        rw [div_le_div_iff₀ hpos hUpos]
        exact mul_le_mul iIn uOut hUpos.le i0
  · -- largest overlap over smallest union
    show _ ≤ (if timeUnion B.stHi B.enLo s2 e2 ≤ 0 then (if timeInter B.stLo B.enHi s2 e2 = 0 then 0 else 1)
      else min 1 (timeInter B.stLo B.enHi s2 e2 / timeUnion B.stHi B.enLo s2 e2))
    split
    · split
      · rename_i _ hz
        have hI : timeInter st en s2 e2 = 0 := le_antisymm (by linarith) i0
        rw [timeIoU_eq_ratio, hI]
        split
        · exact le_refl _
        · rw [zero_div]
      · exact r1
    · rename_i hpos
      have hpos : 0 < timeUnion B.stHi B.enLo s2 e2 := not_le.mp hpos
      have hUpos : 0 < timeUnion st en s2 e2 := lt_of_lt_of_le hpos uIn
      refine le_min r1 ?_
      rw [timeIoU_eq_ratio, if_neg (ne_of_gt hUpos), div_le_div_iff₀ hUpos hpos]
      exact mul_le_mul iOut uIn hpos.le (le_trans i0 iOut)

/-- a box without width is the single extent `[a, b]`: the band is the time IoU itself -/
theorem timeIoUBand_collapse (a b s2 e2 : Rat) (h1 : a ≤ b) (h2 : s2 ≤ e2) :
    timeIoUBand ⟨a, a, b, b⟩ s2 e2 = (timeIoU a b s2 e2, timeIoU a b s2 e2) := by
  have i0 := timeInter_nonneg a b s2 e2
  have iU := timeInter_le_union a b s2 e2 h1 h2
  obtain ⟨_, r1⟩ := timeIoU_range' a b s2 e2 h1 h2
  show ((if timeUnion a b s2 e2 = 0 then 0 else timeInter a b s2 e2 / timeUnion a b s2 e2),
    (if timeUnion a b s2 e2 ≤ 0 then (if timeInter a b s2 e2 = 0 then 0 else 1)
      else min 1 (timeInter a b s2 e2 / timeUnion a b s2 e2))) = _
  rw [timeIoU_eq_ratio] at r1 ⊢
  by_cases hU : timeUnion a b s2 e2 = 0
  · have hI : timeInter a b s2 e2 = 0 := le_antisymm (by linarith) i0
    simp [hU, hI]
  · have hpos : 0 < timeUnion a b s2 e2 := lt_of_le_of_ne (by linarith) (Ne.symm hU)
    rw [if_neg hU] at r1
    rw [if_neg hU, if_neg (not_le.mpr hpos), min_eq_right r1]

/-- with `ρ = κ = 1` and no slack the box is the ideal extent -/
theorem extentBox_exact (s e tb : Rat) :
    extentBox 1 1 0 s e tb = ⟨max (s - tb) 0, max (s - tb) 0, e + tb, e + tb⟩ := by
  simp [extentBox, slack]

theorem extentWithin_iff (ρ κ tol s e tb st en : Rat) :
    extentWithin ρ κ tol s e tb st en = true ↔
      (extentBox ρ κ tol s e tb).stLo ≤ st ∧ st ≤ (extentBox ρ κ tol s e tb).stHi ∧
      (extentBox ρ κ tol s e tb).enLo ≤ en ∧ en ≤ (extentBox ρ κ tol s e tb).enHi := by
  simp [extentWithin, and_assoc]

/-! ### `_prepare_geometry` on a GEOS-buffered and on a time-only geometry -/

theorem prepare_geosBuffered (G : Geos σ) (g : Geom) (tb fb : Rat) (hg : geosBuffered g = true)
    (hb : 0 ≤ tb ∧ 0 ≤ fb) : prepare G g tb fb = .ok (.shape "Polygon" (G.buffered g tb fb)) := by
  have hn : ¬ (tb < 0 ∨ fb < 0) := by
    rintro (h | h) <;> linarith [hb.1, hb.2]
  rw [prepare_spec]
  cases g <;> simp [geosBuffered] at hg <;> simp [hn]

/-- a time stamp / time interval is prepared to the same time interval whatever the `Geos`, and (for a
    valid one, non-negative buffer) the interval is ordered -/
theorem prepare_timeOnly (G : Geos σ) (h : Geom) (tb fb : Rat) (ht : timeTypes.contains h.tag = true)
    (hb : 0 ≤ tb ∧ 0 ≤ fb) (wh : WF h) :
    ∃ s2 e2, prepare G h tb fb = .ok (.interval "TimeInterval" s2 e2) ∧
      prepare unitGeos h tb fb = .ok (.interval "TimeInterval" s2 e2) ∧ s2 ≤ e2 := by
  have hn : ¬ (tb < 0 ∨ fb < 0) := by
    rintro (h | h) <;> linarith [hb.1, hb.2]
  cases h <;> simp [timeTypes, Geom.tag] at ht
  · rename_i t
    refine ⟨max (t - tb) 0, t + tb, by rw [prepare_spec]; simp [hn], by rw [prepare_spec]; simp [hn], ?_⟩
    have : (0 : Rat) ≤ t := wh
    exact max_le (by linarith [hb.1]) (by linarith [hb.1])
  · rename_i s e
    exact ⟨s, e, by rw [prepare_spec], by rw [prepare_spec], wh⟩

theorem geosBuffered_not_closedForm (g : Geom) (hg : geosBuffered g = true) : SE.Buf.closedForm g = false := by
  cases g <;> simp [geosBuffered] at hg <;> rfl

/-! ### one coordinate of a point within distance `κ` -/

theorem abs_coord_of_dist2 (q c : Pt) (κ : Rat) (hκ : 0 ≤ κ) (h : SE.Buf.dist2 q c ≤ κ * κ) :
    -κ ≤ q.1 - c.1 ∧ q.1 - c.1 ≤ κ := by
  unfold SE.Buf.dist2 at h
  constructor
  · by_contra hc
    have hc := not_le.mp hc
    nlinarith [mul_self_nonneg (q.2 - c.2)]
  · by_contra hc
    have hc := not_le.mp hc
    nlinarith [mul_self_nonneg (q.2 - c.2)]

end SE.Affinity
