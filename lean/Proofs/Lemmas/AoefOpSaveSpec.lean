/-
  C02 — refinement of the operational save path: the predicted state `mkSt`, the hypotheses `Pre`,
  the specification format `SpecP`, and the generic adapter lemma `viaStore_spec`.
-/
import Proofs.Lemmas.AoefOpSaveBase
namespace SE.Aoef
open SE.Paths

/-! ### selectors: the per-kind projections as `filterMap` of a named selector -/
def selUser : Obj → Option User | .user x => some x | _ => none
def selTag : Obj → Option Tag | .tag x => some x | _ => none
def selRec : Obj → Option Recording | .recording x => some x | _ => none
def selClip : Obj → Option Clip | .clip x => some x | _ => none
def selSE : Obj → Option SoundEvent | .soundEvent x => some x | _ => none
def selSeq : Obj → Option Sequence | .sequence x => some x | _ => none
def selSEA : Obj → Option SoundEventAnnotation | .seAnn x => some x | _ => none
def selSQA : Obj → Option SequenceAnnotation | .seqAnn x => some x | _ => none
def selCA : Obj → Option ClipAnnotation | .clipAnn x => some x | _ => none
def selSEP : Obj → Option SoundEventPrediction | .sePred x => some x | _ => none
def selSQP : Obj → Option SequencePrediction | .seqPred x => some x | _ => none
def selCP : Obj → Option ClipPrediction | .clipPred x => some x | _ => none
def selTask : Obj → Option AnnotationTask | .task x => some x | _ => none
def selMatch : Obj → Option Match | .mtch x => some x | _ => none
def selCE : Obj → Option ClipEvaluation | .clipEval x => some x | _ => none

theorem usersOf_eq (os : List Obj) : usersOf os = os.filterMap selUser := rfl
theorem tagsOf_eq (os : List Obj) : tagsOf os = os.filterMap selTag := rfl
theorem recsOf_eq (os : List Obj) : recsOf os = os.filterMap selRec := rfl
theorem clipsOf_eq (os : List Obj) : clipsOf os = os.filterMap selClip := rfl
theorem sesOf_eq (os : List Obj) : sesOf os = os.filterMap selSE := rfl
theorem seqsOf_eq (os : List Obj) : seqsOf os = os.filterMap selSeq := rfl
theorem seasOf_eq (os : List Obj) : seasOf os = os.filterMap selSEA := rfl
theorem sqasOf_eq (os : List Obj) : sqasOf os = os.filterMap selSQA := rfl
theorem casOf_eq (os : List Obj) : casOf os = os.filterMap selCA := rfl
theorem sepsOf_eq (os : List Obj) : sepsOf os = os.filterMap selSEP := rfl
theorem sqpsOf_eq (os : List Obj) : sqpsOf os = os.filterMap selSQP := rfl
theorem cpsOf_eq (os : List Obj) : cpsOf os = os.filterMap selCP := rfl
theorem tasksOf_eq (os : List Obj) : tasksOf os = os.filterMap selTask := rfl
theorem matchesOf_eq (os : List Obj) : matchesOf os = os.filterMap selMatch := rfl
theorem cesOf_eq (os : List Obj) : cesOf os = os.filterMap selCE := rfl

/-! ### the predicted adapter tables after a traversal prefix -/

/-- the tag adapter's `_aoef_store` for a key table -/
def tagStoreOf (l : List (Tag × Nat)) : List (Nat × TagObj) :=
  l.map fun e => (e.2, ⟨e.2, e.1.key, e.1.value⟩)

/-- what the declarative writer says the adapter tables are after converting the traversal
    prefix `os`, with tag ids looked up in `T` -/
def mkSt (T : List Tag) (dir : Option PPath) (os : List Obj) : SaveSt where
  users := tbl (·.uuid) encUser (os.filterMap selUser)
  tagMap := (dedupBy id (os.filterMap selTag)).zipIdx
  tags := tagStoreOf (dedupBy id (os.filterMap selTag)).zipIdx
  recordings := tbl (·.uuid) (encRecordingT T dir) (os.filterMap selRec)
  clips := tbl (·.uuid) encClip (os.filterMap selClip)
  soundEvents := tbl (·.uuid) encSoundEvent (os.filterMap selSE)
  sequences := tbl (·.uuid) encSequence (os.filterMap selSeq)
  seas := tbl (·.uuid) (encSEA T) (os.filterMap selSEA)
  sqas := tbl (·.uuid) (encSQA T) (os.filterMap selSQA)
  cas := tbl (·.uuid) (encCA T) (os.filterMap selCA)
  seps := tbl (·.uuid) (encSEP T) (os.filterMap selSEP)
  sqps := tbl (·.uuid) (encSQP T) (os.filterMap selSQP)
  cps := tbl (·.uuid) (encCP T) (os.filterMap selCP)
  tasks := tbl (·.uuid) encTask (os.filterMap selTask)
  matches_ := tbl (·.uuid) encMatch (os.filterMap selMatch)
  ces := tbl (·.uuid) encCE (os.filterMap selCE)

theorem tagTable_eq (os : List Obj) : tagTable os = dedupBy id (os.filterMap selTag) := by
  rw [tagTable, tagsOf_eq]

theorem mkSt_nil (T : List Tag) (dir : Option PPath) : mkSt T dir [] = {} := rfl

/-- objects already in the prefix change nothing -/
theorem mkSt_absorb (T : List Tag) (dir : Option PPath) (os ys : List Obj) (h : ∀ o ∈ ys, o ∈ os) :
    mkSt T dir (os ++ ys) = mkSt T dir os := by
  simp only [mkSt, tbl, dedup_filterMap_absorb _ _ os ys h]

theorem tagTable_absorb (os ys : List Obj) (h : ∀ o ∈ ys, o ∈ os) :
    tagTable (os ++ ys) = tagTable os := by
  simp only [tagTable_eq, dedup_filterMap_absorb _ _ os ys h]

theorem tagTable_prefix (os ys : List Obj) : tagTable os <+: tagTable (os ++ ys) := by
  simp only [tagTable_eq, List.filterMap_append]
  exact dedupBy_prefix_append _ _ _

/-! ### the hypotheses of a conversion step -/
structure Pre (T : List Tag) (dir : Option PPath) (os ys : List Obj) : Prop where
  closed : ClosedL os
  coh : CohO (os ++ ys)
  ok : PathsOK dir os
  pre : tagTable (os ++ ys) <+: T

section pre
variable {T : List Tag} {dir : Option PPath} {os ys zs : List Obj}

theorem Pre.left (h : Pre T dir os (ys ++ zs)) : Pre T dir os ys where
  closed := h.closed
  coh := h.coh.mono (by
    intro o ho; simp only [List.mem_append] at ho ⊢
    rcases ho with ho | ho
    · exact Or.inl ho
    · exact Or.inr (Or.inl ho))
  ok := h.ok
  pre := by
    have := tagTable_prefix (os ++ ys) zs
    rw [List.append_assoc] at this
    exact this.trans h.pre

theorem Pre.right (h : Pre T dir os (ys ++ zs)) (hcl : ClosedL ys) (hok : PathsOK dir ys) :
    Pre T dir (os ++ ys) zs where
  closed := closedL_append h.closed hcl
  coh := by rw [List.append_assoc]; exact h.coh
  ok := pathsOK_append.2 ⟨h.ok, hok⟩
  pre := by rw [List.append_assoc]; exact h.pre

theorem Pre.of_eq (h : Pre T dir os ys) (e : ys = zs) : Pre T dir os zs := e ▸ h

/-- a step whose traversal is already contained in the prefix -/
theorem Pre.absorb (h : Pre T dir os zs) (hs : ∀ o ∈ ys, o ∈ os) : Pre T dir os ys where
  closed := h.closed
  coh := h.coh.mono (by
    intro o ho; simp only [List.mem_append] at ho ⊢
    rcases ho with ho | ho
    · exact Or.inl ho
    · exact Or.inl (hs o ho))
  ok := h.ok
  pre := by
    rw [tagTable_absorb os ys hs]
    exact (tagTable_prefix os zs).trans h.pre

theorem Pre.nil (h : Pre T dir os ys) : Pre T dir os [] :=
  h.absorb (by intro o ho; cases ho)

end pre

/-! ### specifications -/

/-- from the predicted state after `os`, `m` returns `a` and leaves the predicted state after
    `os ++ ys` when `P` holds, and raises `ValueError` otherwise -/
def SpecP {α : Type} (T : List Tag) (dir : Option PPath) (m : Op α) (os ys : List Obj) (P : Prop)
    (a : α) : Prop :=
  (P → m (mkSt T dir os) = .ok (a, mkSt T dir (os ++ ys))) ∧
  (¬ P → m (mkSt T dir os) = .error .invalid)

/-- the usual case: the step succeeds iff every recording it traverses has a stored path -/
abbrev Spec {α : Type} (T : List Tag) (dir : Option PPath) (m : Op α) (os ys : List Obj) (a : α) :
    Prop := SpecP T dir m os ys (PathsOK dir ys) a

theorem op_bind_ok {α β : Type} {m : Op α} {f : α → Op β} {st st' : SaveSt} {a : α}
    (h : m st = .ok (a, st')) : (m >>= f) st = f a st' := by
  show (StateT.bind m f) st = _
  simp only [StateT.bind, h, bind, Except.bind]

theorem op_bind_err {α β : Type} {m : Op α} {f : α → Op β} {st : SaveSt} {e : Err}
    (h : m st = .error e) : (m >>= f) st = .error e := by
  show (StateT.bind m f) st = _
  simp only [StateT.bind, h, bind, Except.bind]

theorem op_pure {α : Type} (a : α) (st : SaveSt) : (pure a : Op α) st = .ok (a, st) := rfl

theorem op_get (st : SaveSt) : (get : Op SaveSt) st = .ok (st, st) := rfl

section spec
variable {T : List Tag} {dir : Option PPath} {α β : Type}

theorem SpecP.congr {m : Op α} {os ys : List Obj} {P P' : Prop} {a : α}
    (h : SpecP T dir m os ys P a) (e : P' ↔ P) : SpecP T dir m os ys P' a :=
  ⟨fun hp => h.1 (e.1 hp), fun hn => h.2 (fun hp => hn (e.2 hp))⟩

theorem SpecP.of_eq {m : Op α} {os ys ys' : List Obj} {P : Prop} {a a' : α}
    (h : SpecP T dir m os ys P a) (e : ys = ys') (ea : a = a') : SpecP T dir m os ys' P a' := by
  subst e ea; exact h

theorem SpecP.pure (os : List Obj) (a : α) : SpecP T dir (pure a : Op α) os [] True a :=
  ⟨fun _ => by rw [List.append_nil]; rfl, fun h => absurd trivial h⟩

theorem SpecP.bind {m : Op α} {f : α → Op β} {os ys zs : List Obj} {P Q : Prop} {a : α} {b : β}
    (hpre : Pre T dir os (ys ++ zs)) (hcl : ClosedL ys) (hP : P → PathsOK dir ys)
    (h1 : Pre T dir os ys → SpecP T dir m os ys P a)
    (h2 : P → Pre T dir (os ++ ys) zs → SpecP T dir (f a) (os ++ ys) zs Q b) :
    SpecP T dir (m >>= f) os (ys ++ zs) (P ∧ Q) b := by
  have s1 := h1 hpre.left
  constructor
  · rintro ⟨hp, hq⟩
    rw [op_bind_ok (s1.1 hp), (h2 hp (hpre.right hcl (hP hp))).1 hq, List.append_assoc]
  · intro hn
    by_cases hp : P
    · have hq : ¬ Q := fun hq => hn ⟨hp, hq⟩
      rw [op_bind_ok (s1.1 hp), (h2 hp (hpre.right hcl (hP hp))).2 hq]
    · rw [op_bind_err (s1.2 hp)]

/-- `do let a ← m; pure (g a)` -/
theorem SpecP.map {m : Op α} {g : α → β} {os ys : List Obj} {P : Prop} {a : α}
    (h : SpecP T dir m os ys P a) : SpecP T dir (m >>= fun a => Pure.pure (g a)) os ys P (g a) := by
  constructor
  · intro hp; rw [op_bind_ok (h.1 hp)]; rfl
  · intro hn; rw [op_bind_err (h.2 hn)]

/-- a step whose traversal is already contained in the prefix leaves the state unchanged -/
theorem SpecP.bind_absorb {m : Op α} {f : α → Op β} {os ys zs : List Obj} {Q : Prop} {a : α} {b : β}
    (hpre : Pre T dir os zs) (hs : ∀ o ∈ ys, o ∈ os)
    (h1 : Pre T dir os ys → SpecP T dir m os ys (PathsOK dir ys) a)
    (h2 : SpecP T dir (f a) os zs Q b) :
    SpecP T dir (m >>= f) os zs Q b := by
  have s1 := h1 (hpre.absorb hs)
  have hok : PathsOK dir ys := pathsOK_of_subset hpre.ok hs
  have e := s1.1 hok
  rw [mkSt_absorb T dir os ys hs] at e
  constructor
  · intro hq; rw [op_bind_ok e, h2.1 hq]
  · intro hq; rw [op_bind_ok e, h2.2 hq]

end spec

end SE.Aoef
