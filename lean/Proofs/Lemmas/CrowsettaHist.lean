/-
  Helper lemmas for the history (store) semantics and the positional binding of C10.
-/
import SoundeventModel.CrowsettaHist
namespace SE.Proofs.Lemmas.CrowsettaHist
open SE SE.Crowsetta SE.Crowsetta.Hist

/-! ## `modifyAt` -/

theorem modifyAt_length {α} (f : α → α) (l : List α) (n : Nat) : (modifyAt f l n).length = l.length := by
  induction l generalizing n with
  | nil => simp [modifyAt]
  | cons x xs ih => cases n <;> simp [modifyAt, ih]

theorem modifyAt_getElem? {α} (f : α → α) (l : List α) (n i : Nat) :
    (modifyAt f l n)[i]? = if i = n then l[i]?.map f else l[i]? := by
  induction l generalizing n i with
  | nil => simp [modifyAt]
  | cons x xs ih =>
    cases n with
    | zero => cases i <;> simp [modifyAt]
    | succ n =>
      cases i with
      | zero => simp [modifyAt]
      | succ i => simp [modifyAt, ih]

/-! ## reading the store -/

/-- what the caller sees in every result so far -/
def reads (s : St) : List (Option (List Tag)) := (List.range s.results.length).map s.cells

theorem reads_length (s : St) : (reads s).length = s.results.length := by simp [reads]

theorem reads_getElem? (s : St) (k : Nat) :
    (reads s)[k]? = if k < s.results.length then some (s.cells k) else none := by
  unfold reads
  by_cases h : k < s.results.length
  · simp [h]
  · simp [h]

/-- blocks lie below `next` and in the order of the calls (so they are pairwise disjoint) -/
structure WF (s : St) : Prop where
  below : ∀ (k : Nat) (b : Block), s.results[k]? = some (some b) → b.base + b.len ≤ s.next
  ordered : ∀ (j k : Nat) (bj bk : Block), j < k → s.results[j]? = some (some bj) → s.results[k]? = some (some bk) →
    bj.base + bj.len ≤ bk.base

theorem wf_init : WF ({} : St) := ⟨by simp, by simp⟩

theorem cells_alloc_fresh (heap : Nat → Tag) (next : Nat) (ts : List Tag) :
    (List.range ts.length).map (fun i => alloc heap next ts (next + i)) = ts := by
  apply List.ext_getElem
  · simp
  · intro i h1 h2
    simp at h1
    simp [alloc, h1]

theorem step_call_ok (s : St) (o : LabelOpts) (ls : List String) (ts : List Tag) (h : callVals o ls = .ok ts) :
    step s (.call o ls) = { heap := alloc s.heap s.next ts, next := s.next + ts.length,
                            results := s.results ++ [some ⟨s.next, ts.length⟩] } := by
  simp [step, h]

theorem step_call_error (s : St) (o : LabelOpts) (ls : List String) (e : Err) (h : callVals o ls = .error e) :
    step s (.call o ls) = { s with results := s.results ++ [none] } := by
  simp [step, h]

/-- one step preserves well-formedness and is simulated by the value semantics -/
theorem step_sim (s : St) (hw : WF s) (e : Ev) :
    WF (step s e) ∧ reads (step s e) = pureStep (reads s) e := by
  cases e with
  | call o ls =>
    cases hc : callVals o ls with
    | error err =>
      rw [step_call_error s o ls err hc]
      refine ⟨⟨?_, ?_⟩, ?_⟩
      · intro k b hk
        have : s.results[k]? = some (some b) := by
          by_cases hlt : k < s.results.length
          · simpa [List.getElem?_append_left hlt] using hk
          · have hge : s.results.length ≤ k := Nat.le_of_not_lt hlt
            rw [List.getElem?_append_right hge] at hk
            cases hd : k - s.results.length <;> simp [hd] at hk
        exact hw.below k b this
      · intro j k bj bk hjk hj hk
        have old : ∀ (i : Nat) (b : Block), (s.results ++ [none])[i]? = some (some b) → s.results[i]? = some (some b) := by
          intro i b hi
          by_cases hlt : i < s.results.length
          · simpa [List.getElem?_append_left hlt] using hi
          · have hge : s.results.length ≤ i := Nat.le_of_not_lt hlt
            rw [List.getElem?_append_right hge] at hi
            cases hd : i - s.results.length <;> simp [hd] at hi
        exact hw.ordered j k bj bk hjk (old j bj hj) (old k bk hk)
      · apply List.ext_getElem?
        intro k
        simp only [pureStep, hc, Except.toOption]
        rw [reads_getElem?]
        by_cases hlt : k < s.results.length
        · have hlt' : k < (s.results ++ [none]).length := by simp; omega
          simp only [hlt', if_true]
          rw [List.getElem?_append_left (by simpa [reads_length] using hlt), reads_getElem?]
          simp only [hlt, if_true]
          simp [St.cells, List.getElem?_append_left hlt]
        · by_cases heq : k = s.results.length
          · subst heq
            have hlt' : s.results.length < (s.results ++ [none]).length := by simp
            simp only [hlt', if_true]
            rw [List.getElem?_append_right (by simp [reads_length])]
            simp [reads_length, St.cells]
          · have hge : ¬ k < (s.results ++ [none]).length := by simp; omega
            simp only [hge, if_false]
            rw [List.getElem?_append_right (by simp [reads_length]; omega)]
            simp [reads_length]
            omega
    | ok ts =>
      rw [step_call_ok s o ls ts hc]
      have old : ∀ (i : Nat) (b : Block), (s.results ++ [some (⟨s.next, ts.length⟩ : Block)])[i]? = some (some b) →
          (i < s.results.length ∧ s.results[i]? = some (some b)) ∨ (i = s.results.length ∧ b = ⟨s.next, ts.length⟩) := by
        intro i b hi
        by_cases hlt : i < s.results.length
        · left; exact ⟨hlt, by simpa [List.getElem?_append_left hlt] using hi⟩
        · have hge : s.results.length ≤ i := Nat.le_of_not_lt hlt
          rw [List.getElem?_append_right hge] at hi
          cases hd : i - s.results.length with
          | zero => right; simp [hd] at hi; exact ⟨by omega, hi.symm⟩
          | succ n => simp [hd] at hi
      refine ⟨⟨?_, ?_⟩, ?_⟩
      · intro k b hk
        rcases old k b hk with ⟨_, h⟩ | ⟨_, h⟩
        · have := hw.below k b h; simp only; omega
        · subst h; simp
      · intro j k bj bk hjk hj hk
        rcases old k bk hk with ⟨hklt, h⟩ | ⟨hkeq, h⟩
        · rcases old j bj hj with ⟨_, h'⟩ | ⟨hjeq, _⟩
          · exact hw.ordered j k bj bk hjk h' h
          · omega
        · rcases old j bj hj with ⟨_, h'⟩ | ⟨hjeq, _⟩
          · subst h; exact hw.below j bj h'
          · omega
      · apply List.ext_getElem?
        intro k
        simp only [pureStep, hc, Except.toOption]
        rw [reads_getElem?]
        by_cases hlt : k < s.results.length
        · have hlt' : k < (s.results ++ [some (⟨s.next, ts.length⟩ : Block)]).length := by simp; omega
          simp only [hlt', if_true]
          rw [List.getElem?_append_left (by simpa [reads_length] using hlt), reads_getElem?]
          simp only [hlt, if_true]
          simp only [St.cells, List.getElem?_append_left hlt]
          cases hr : s.results[k]? with
          | none => rfl
          | some ob =>
            cases ob with
            | none => rfl
            | some b =>
              have hb := hw.below k b hr
              simp only [Option.some.injEq]
              apply List.map_congr_left
              intro i hi
              have : i < b.len := by simpa using hi
              simp only [alloc]
              have : ¬ s.next ≤ b.base + i := by omega
              simp [this]
        · by_cases heq : k = s.results.length
          · subst heq
            have hlt' : s.results.length < (s.results ++ [some (⟨s.next, ts.length⟩ : Block)]).length := by simp
            simp only [hlt', if_true]
            rw [List.getElem?_append_right (by simp [reads_length])]
            simp only [reads_length, Nat.sub_self, List.getElem?_cons_zero, Option.some.injEq]
            simp only [St.cells, List.getElem?_append_right (Nat.le_refl _), Nat.sub_self, List.getElem?_cons_zero]
            rw [cells_alloc_fresh]
          · have hge : ¬ k < (s.results ++ [some (⟨s.next, ts.length⟩ : Block)]).length := by simp; omega
            simp only [hge, if_false]
            rw [List.getElem?_append_right (by simp [reads_length]; omega)]
            simp [reads_length]
            omega
  | edit k a v =>
    simp only [step]
    cases hr : s.results[k]? with
    | none =>
      refine ⟨hw, ?_⟩
      apply List.ext_getElem?
      intro i
      simp only [pureStep, modifyAt_getElem?]
      by_cases hik : i = k
      · subst hik
        have : ¬ i < s.results.length := by
          intro h; simp [List.getElem?_eq_getElem h] at hr
        simp [reads_getElem?, this]
      · simp [hik]
    | some ob =>
      cases ob with
      | none =>
        refine ⟨hw, ?_⟩
        apply List.ext_getElem?
        intro i
        simp only [pureStep, modifyAt_getElem?]
        by_cases hik : i = k
        · subst hik
          by_cases hlt : i < s.results.length
          · simp only [reads_getElem?, hlt, if_true, St.cells, hr]; rfl
          · simp [reads_getElem?, hlt]
        · simp [hik]
      | some b =>
        by_cases ha : a < b.len
        · simp only [ha, if_true]
          refine ⟨⟨hw.below, hw.ordered⟩, ?_⟩
          apply List.ext_getElem?
          intro i
          simp only [pureStep, modifyAt_getElem?]
          rw [reads_getElem?, reads_getElem?]
          by_cases hlt : i < s.results.length
          · simp only [hlt, if_true]
            by_cases hik : i = k
            · subst hik
              simp only [if_true, Option.map_some, Option.some.injEq]
              simp only [St.cells, hr, Option.map_some, Option.some.injEq]
              apply List.ext_getElem?
              intro j
              rw [modifyAt_getElem?]
              by_cases hj : j < b.len
              · simp only [List.getElem?_map, List.getElem?_range hj, Option.map_some]
                by_cases hja : j = a
                · subst hja; simp [write]
                · have : b.base + j ≠ b.base + a := by omega
                  simp [write, hja]
              · have h1 : ((List.range b.len).map (fun i => write s.heap (b.base + a) (setValue v) (b.base + i)))[j]? = none := by
                  simp; omega
                have h2 : ((List.range b.len).map (fun i => s.heap (b.base + i)))[j]? = none := by
                  simp; omega
                rw [h1, h2]; simp
            · simp only [hik, if_false, Option.some.injEq]
              simp only [St.cells]
              cases hri : s.results[i]? with
              | none => rfl
              | some ob' =>
                cases ob' with
                | none => rfl
                | some b' =>
                  simp only [Option.some.injEq]
                  apply List.map_congr_left
                  intro j hj
                  have hj' : j < b'.len := by simpa using hj
                  have hne : b'.base + j ≠ b.base + a := by
                    rcases Nat.lt_or_gt_of_ne hik with h | h
                    · have := hw.ordered i k b' b h hri hr; omega
                    · have := hw.ordered k i b b' h hr hri; omega
                  simp [write, hne]
          · simp [hlt]
        · simp only [ha, if_false]
          refine ⟨hw, ?_⟩
          apply List.ext_getElem?
          intro i
          simp only [pureStep, modifyAt_getElem?]
          by_cases hik : i = k
          · subst hik
            by_cases hlt : i < s.results.length
            · simp only [reads_getElem?, hlt, if_true, Option.map_some, Option.some.injEq]
              simp only [St.cells, hr, Option.map_some, Option.some.injEq]
              apply List.ext_getElem?
              intro j
              rw [modifyAt_getElem?]
              by_cases hja : j = a
              · subst hja
                have : ((List.range b.len).map (fun i => s.heap (b.base + i)))[j]? = none := by simp; omega
                simp [this]
              · simp [hja]
            · simp [reads_getElem?, hlt]
          · simp [hik]

theorem foldl_sim (evs : List Ev) (s : St) (hw : WF s) :
    WF (evs.foldl step s) ∧ reads (evs.foldl step s) = evs.foldl pureStep (reads s) := by
  induction evs generalizing s with
  | nil => exact ⟨hw, rfl⟩
  | cons e es ih =>
    obtain ⟨hw', hr⟩ := step_sim s hw e
    have := ih (step s e) hw'
    simp only [List.foldl_cons]
    rw [← hr]
    exact this

/-! ## positional binding -/

theorem zip_take_drop {α} (params : List String) (vals : List α) (k : Nat) :
    params.zip (vals.take k) ++ (params.zip vals).drop k = params.zip vals := by
  induction params generalizing vals k with
  | nil => simp
  | cons p ps ih =>
    cases vals with
    | nil => simp
    | cons v vs =>
      cases k with
      | zero => simp
      | succ k => simp [ih]

theorem drop_zip_not_in_take {α} (params : List String) (vals : List α) (k : Nat) (hn : params.Nodup) :
    ∀ p ∈ (params.zip vals).drop k, p.1 ∉ params.take k := by
  induction params generalizing vals k with
  | nil => simp
  | cons q qs ih =>
    cases vals with
    | nil => simp
    | cons v vs =>
      cases k with
      | zero => simp
      | succ k =>
        intro p hp
        simp only [List.zip_cons_cons, List.drop_succ_cons] at hp
        have hq : q ∉ qs := (List.nodup_cons.mp hn).1
        have hmem : p ∈ qs.zip vs := List.mem_of_mem_drop hp
        have hp1 : p.1 ∈ qs := (List.of_mem_zip (a := p.1) (b := p.2) (by simpa using hmem)).1
        simp only [List.take_succ_cons, List.mem_cons, not_or]
        exact ⟨fun h => hq (h ▸ hp1), ih vs k (List.nodup_cons.mp hn).2 p hp⟩

theorem splitCall_eq {α} (params : List String) (vals : List α) (k : Nat) (hn : params.Nodup)
    (hl : vals.length ≤ params.length) : splitCall params vals k = some (params.zip vals) := by
  unfold splitCall bindCall
  have h1 : (vals.take k).length ≤ params.length := by
    simp only [List.length_take]; omega
  have h2 : ((params.zip vals).drop k).all (fun p => !(params.take (vals.take k).length).contains p.1) = true := by
    rw [List.all_eq_true]
    intro p hp
    have := drop_zip_not_in_take params vals k hn p hp
    have hsub : p.1 ∉ params.take (vals.take k).length := by
      intro hm
      apply this
      have hle : (vals.take k).length ≤ k := by simp only [List.length_take]; omega
      exact (List.take_subset_take_left params hle) hm
    simpa using hsub
  simp only [h1, h2, and_self, if_true, zip_take_drop]

theorem zip_lookup {α} (params : List String) (vals : List α) (hn : params.Nodup) (i : Nat)
    (hp : i < params.length) (hv : i < vals.length) : (params.zip vals).lookup params[i] = some vals[i] := by
  induction params generalizing vals i with
  | nil => simp at hp
  | cons q qs ih =>
    cases vals with
    | nil => simp at hv
    | cons v vs =>
      cases i with
      | zero => simp
      | succ i =>
        have hq : q ∉ qs := (List.nodup_cons.mp hn).1
        have hne : (qs[i]'(by simpa using hp) == q) = false := by
          simp only [beq_eq_false_iff_ne, ne_eq]
          intro h
          exact hq (h ▸ List.getElem_mem _)
        simp only [List.zip_cons_cons, List.getElem_cons_succ, List.lookup, hne]
        exact ih vs (List.nodup_cons.mp hn).2 i (by simpa using hp) (by simpa using hv)

/-- the tags the cascade builds itself carry the label as value -/
theorem ownTags_value (o : LabelOpts) (label : String) (ts : List Tag) (ho : ownTags o = true)
    (h : labelToTags o label = .ok ts) : ∀ t ∈ ts, t.value = label := by
  unfold ownTags at ho
  simp only [Bool.and_eq_true, Option.isNone_iff_eq_none] at ho
  unfold labelToTags fnRung hit at h
  simp only [ho.1, ho.2, Option.bind_none] at h
  split at h
  · cases h; simp
  · split at h
    · cases h; simp
    · split at h
      · cases h; simp
      · cases h; simp

end SE.Proofs.Lemmas.CrowsettaHist
