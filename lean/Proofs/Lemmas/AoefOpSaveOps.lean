/-
  C02 — refinement of the operational save path: one specification per conversion function, in
  dependency order.  Each says: from the predicted state after a prefix `os`, converting `x`
  returns the declarative encoding of `x` and leaves the predicted state after `os ++ xAll x`
  (or raises when a recording traversed lies outside the audio directory).
-/
import Proofs.Lemmas.AoefOpSaveTabs
namespace SE.Aoef
open SE.Paths

/-! ### which kinds of objects a traversal contains -/
def kindIx (o : Obj) : Nat := (objKey o).1

def OKinds (ys : List Obj) (ks : List Nat) : Prop := ∀ o ∈ ys, kindIx o ∈ ks

theorem OKinds.mono {ys : List Obj} {ks ks' : List Nat} (h : OKinds ys ks) (hs : ∀ k ∈ ks, k ∈ ks') :
    OKinds ys ks' := fun o ho => hs _ (h o ho)

theorem OKinds.append {a b : List Obj} {ks : List Nat} (ha : OKinds a ks) (hb : OKinds b ks) :
    OKinds (a ++ b) ks := by
  intro o ho
  rcases List.mem_append.1 ho with h | h
  · exact ha o h
  · exact hb o h

theorem OKinds.flatMap {α : Type} {f : α → List Obj} {xs : List α} {ks : List Nat}
    (h : ∀ x ∈ xs, OKinds (f x) ks) : OKinds (xs.flatMap f) ks := by
  intro o ho
  rcases List.mem_flatMap.1 ho with ⟨x, hx, hox⟩
  exact h x hx o hox

theorem OKinds.map {α : Type} {f : α → Obj} {xs : List α} {ks : List Nat}
    (h : ∀ x, kindIx (f x) ∈ ks) : OKinds (xs.map f) ks := by
  intro o ho
  rcases List.mem_map.1 ho with ⟨x, _, rfl⟩
  exact h x

theorem OKinds.single {o : Obj} {ks : List Nat} (h : kindIx o ∈ ks) : OKinds [o] ks := by
  intro o' ho'
  have : o' = o := by simpa using ho'
  exact this ▸ h

theorem OKinds.nil {ks : List Nat} : OKinds [] ks := by intro o ho; cases ho

theorem OKinds.pathsOK {sd : Option PPath} {ys : List Obj} {ks : List Nat} (h : OKinds ys ks)
    (hk : 2 ∉ ks) : PathsOK sd ys := by
  intro r hr
  exact absurd (h _ hr) hk

theorem kinds_tagsAll (ts : List Tag) : OKinds (tagsAll ts) [1] := OKinds.map (fun _ => by simp [kindIx, objKey])
theorem kinds_ptagsAll (ts : List PredictedTag) : OKinds (ptagsAll ts) [1] :=
  OKinds.map (fun _ => by simp [kindIx, objKey])
theorem kinds_users (us : List User) : OKinds (us.map Obj.user) [0] :=
  OKinds.map (fun _ => by simp [kindIx, objKey])
theorem kinds_optUser (u : Option User) : OKinds (optUser u) [0] := kinds_users _
theorem kinds_notesAll (ns : List Note) : OKinds (notesAll ns) [0] :=
  OKinds.flatMap (fun _ _ => kinds_optUser _)
theorem kinds_badges (bs : List StatusBadge) : OKinds (bs.flatMap badgeAll) [0] :=
  OKinds.flatMap (fun _ _ => kinds_optUser _)

/-- the condition `hno` of `viaStore_spec` from the kinds occurring in the sub-traversal -/
theorem hno_of_kinds {T : List Tag} {dir : Option PPath} {κ ω : Type}
    {get : SaveSt → List (Atom × ω)} {set : SaveSt → List (Atom × ω) → SaveSt}
    {sel : Obj → Option κ} {inj : κ → Obj} {key : κ → Atom} {enc : κ → ω}
    (tb : TabOK T dir get set sel inj key enc) {sub : List Obj} {ks : List Nat} (k : Nat)
    (hk : ∀ y, kindIx (inj y) = k) (hks : OKinds sub ks) (hnk : k ∉ ks) (x : κ) :
    ∀ o ∈ sub, ∀ y, sel o = some y → key y ≠ key x := by
  intro o ho y hs
  have := hks o ho
  rw [tb.inj_sel o y hs, hk] at this
  exact absurd this hnk

theorem pathsOK_single_norec {sd : Option PPath} {o : Obj} (h : kindIx o ≠ 2) :
    PathsOK sd [o] ↔ True := by
  refine ⟨fun _ => trivial, fun _ r hr => ?_⟩
  have : Obj.recording r = o := by simpa using hr
  subst this
  exact absurd rfl h

theorem pathsOK_single_rec {sd : Option PPath} {r : Recording} :
    PathsOK sd [Obj.recording r] ↔ PathOK sd r := by
  constructor
  · intro h; exact h r (by simp)
  · intro h r' hr'
    have : r' = r := by simpa using hr'
    exact this ▸ h

/-! ### leaves: users, notes -/
section ops
variable {T : List Tag} {dir : Option PPath}

theorem opUser_spec (u : User) (os : List Obj) (hpre : Pre T dir os [Obj.user u]) :
    Spec T dir (opUser u) os [Obj.user u] (encUser u) :=
  viaStore_spec (tabUsers (T := T) (dir := dir)) u [] (pure (encUser u)) True hpre
    (by intro _ o ho; cases ho) (by intro o ho; cases ho)
    (by simp [pathsOK_single_norec (o := Obj.user u) (by simp [kindIx, objKey])])
    (fun _ => SpecP.pure os _)

theorem opUserId_spec (u : User) (os : List Obj) (hpre : Pre T dir os [Obj.user u]) :
    Spec T dir (opUserId u) os [Obj.user u] u.uuid := by
  unfold opUserId
  exact (opUser_spec u os hpre).map (g := fun o : UserObj => o.uuid)

theorem optUser_eq (u : Option User) : optUser u = optAll (fun u => [Obj.user u]) u := by
  cases u <;> rfl

theorem opOptUserId_spec (u : Option User) (os : List Obj) (hpre : Pre T dir os (optUser u)) :
    Spec T dir (opOpt opUserId u) os (optUser u) (u.map (·.uuid)) := by
  rw [optUser_eq] at hpre ⊢
  exact opOpt_spec opUserId _ _ u (fun y _ os h => opUserId_spec y os h) os hpre

theorem opUserIds_spec (us : List User) (os : List Obj) (hpre : Pre T dir os (us.map Obj.user)) :
    Spec T dir (opList opUserId us) os (us.map Obj.user) (us.map (·.uuid)) := by
  rw [map_eq_flatMap_single] at hpre ⊢
  exact opList_spec opUserId _ _ us (fun u _ => closedL_users [u]) (fun u _ os h => opUserId_spec u os h)
    os hpre

theorem opNote_spec (n : Note) (os : List Obj) (hpre : Pre T dir os (noteAll n)) :
    Spec T dir (opNote n) os (noteAll n) (encNote n) := by
  unfold opNote
  exact (opOptUserId_spec n.created_by os hpre).map
    (g := fun u => (⟨n.uuid, n.message, u, n.is_issue, some n.created_on⟩ : NoteObj))

theorem opNotes_spec (ns : List Note) (os : List Obj) (hpre : Pre T dir os (notesAll ns)) :
    Spec T dir (opList opNote ns) os (notesAll ns) (ns.map encNote) :=
  opList_spec opNote _ _ ns (fun _ _ => closedL_optUser _) (fun n _ os h => opNote_spec n os h) os hpre

theorem opPTag_spec (p : PredictedTag) (os : List Obj) (hpre : Pre T dir os [Obj.tag p.tag]) :
    Spec T dir (opPTag p) os [Obj.tag p.tag] ⟨tagId T p.tag, p.score⟩ := by
  unfold opPTag
  exact (opTagId_spec p.tag os hpre).map (g := fun i => (⟨i, p.score⟩ : ScoredTag))

theorem opPTags_spec (ts : List PredictedTag) (os : List Obj) (hpre : Pre T dir os (ptagsAll ts)) :
    Spec T dir (opList opPTag ts) os (ptagsAll ts) (ts.map fun p => ⟨tagId T p.tag, p.score⟩) := by
  have e : ptagsAll ts = ts.flatMap (fun p => [Obj.tag p.tag]) := map_eq_flatMap_single _ _
  rw [e] at hpre ⊢
  exact opList_spec opPTag _ _ ts (fun p _ => closedL_tagsAll [p.tag])
    (fun p _ os h => opPTag_spec p os h) os hpre

/-! ### recordings -/

/-- `relative_to`, then the object is built -/
theorem SpecP.liftPath {β : Type} (os : List Obj) (p : PPath) (g : PPath → β) :
    SpecP T dir (opLift (storedPath dir p) >>= fun q => Pure.pure (g q)) os []
      (storedPath dir p = .ok (storedPathT dir p)) (g (storedPathT dir p)) := by
  unfold storedPathT
  cases h : storedPath dir p with
  | ok q =>
    refine ⟨fun _ => ?_, fun hn => absurd rfl hn⟩
    rw [List.append_nil]
    have : (opLift (Except.ok q) : Op PPath) (mkSt T dir os) = .ok (q, mkSt T dir os) := rfl
    rw [op_bind_ok this]; rfl
  | error e =>
    refine ⟨fun hp => (by cases hp), fun _ => ?_⟩
    have he : e = .invalid := by
      cases dir with
      | none => simp [storedPath] at h
      | some d =>
        simp only [storedPath, relativeTo] at h
        split at h
        · cases h
        · exact (Except.error.inj h).symm
    subst he
    have : (opLift (Except.error Err.invalid) : Op PPath) (mkSt T dir os) = .error .invalid := rfl
    rw [op_bind_err this]

theorem recAll_sub {os : List Obj} (hc : ClosedL os) {r : Recording} (h : Obj.recording r ∈ os) :
    ∀ o ∈ tagsAll r.tags ++ notesAll r.notes ++ r.owners.map Obj.user, o ∈ os :=
  fun o ho => hc _ h o (by simpa [children] using ho)

theorem kinds_recSub (r : Recording) :
    OKinds (tagsAll r.tags ++ notesAll r.notes ++ r.owners.map Obj.user) [0, 1] :=
  ((kinds_tagsAll _).mono (by simp)).append ((kinds_notesAll _).mono (by simp)) |>.append
    ((kinds_users _).mono (by simp))

theorem kinds_recAll (r : Recording) : OKinds (recAll r) [0, 1, 2] :=
  ((kinds_recSub r).mono (by simp)).append (OKinds.single (by simp [kindIx, objKey]))

theorem opRecording_spec (r : Recording) (os : List Obj) (hpre : Pre T dir os (recAll r)) :
    Spec T dir (opRecording dir r) os (recAll r) (encRecordingT T dir r) := by
  unfold opRecording
  refine viaStore_spec (tabRecs (T := T) (dir := dir)) r
    (tagsAll r.tags ++ notesAll r.notes ++ r.owners.map Obj.user) _
    (PathsOK dir (tagsAll r.tags) ∧ PathsOK dir (notesAll r.notes) ∧
      PathsOK dir (r.owners.map Obj.user) ∧ PathOK dir r) hpre
    (recAll_sub hpre.closed)
    (hno_of_kinds (tabRecs (T := T) (dir := dir)) 2 (fun _ => rfl) (kinds_recSub r) (by simp) r) ?_ ?_
  · simp only [pathsOK_append, pathsOK_single_rec, and_assoc]
  · intro hp
    have hp' : Pre T dir os (tagsAll r.tags ++ (notesAll r.notes ++ (r.owners.map Obj.user ++ []))) :=
      hp.of_eq (by simp)
    refine SpecP.of_eq
      (ys := tagsAll r.tags ++ (notesAll r.notes ++ (r.owners.map Obj.user ++ []))) ?_ (by simp) rfl
    refine SpecP.bind hp' (closedL_tagsAll _) id (opTagIds_spec _ _) fun _ hp1 => ?_
    refine SpecP.bind hp1 (closedL_notesAll _) id (opNotes_spec _ _) fun _ hp2 => ?_
    refine SpecP.bind hp2 (closedL_users _) id (opUserIds_spec _ _) fun _ hp3 => ?_
    exact SpecP.liftPath _ r.path _

theorem opRecordingId_spec (r : Recording) (os : List Obj) (hpre : Pre T dir os (recAll r)) :
    Spec T dir (opRecordingId dir r) os (recAll r) r.uuid := by
  unfold opRecordingId
  exact (opRecording_spec r os hpre).map (g := fun o : RecordingObj => o.uuid)

/-! ### "everything `x` refers to is in a closed list that contains `x`" -/
theorem sub_snoc {os sub : List Obj} {x : Obj} (hs : ∀ o ∈ sub, o ∈ os) (hx : x ∈ os) :
    ∀ o ∈ sub ++ [x], o ∈ os := by
  intro o ho
  rcases List.mem_append.1 ho with h | h
  · exact hs o h
  · have : o = x := by simpa using h
    exact this ▸ hx

theorem sub_append {os a b : List Obj} (ha : ∀ o ∈ a, o ∈ os) (hb : ∀ o ∈ b, o ∈ os) :
    ∀ o ∈ a ++ b, o ∈ os := by
  intro o ho
  rcases List.mem_append.1 ho with h | h
  · exact ha o h
  · exact hb o h

theorem sub_flatMap {α : Type} {os : List Obj} {f : α → List Obj} {xs : List α}
    (h : ∀ x ∈ xs, ∀ o ∈ f x, o ∈ os) : ∀ o ∈ xs.flatMap f, o ∈ os := by
  intro o ho
  rcases List.mem_flatMap.1 ho with ⟨x, hx, hox⟩
  exact h x hx o hox

theorem sub_optAll {α : Type} {os : List Obj} {f : α → List Obj} {x : Option α}
    (h : ∀ y, x = some y → ∀ o ∈ f y, o ∈ os) : ∀ o ∈ optAll f x, o ∈ os := by
  cases x with
  | none => intro o ho; cases ho
  | some y => exact h y rfl

section full
variable {os : List Obj} (hc : ClosedL os)
include hc

theorem recAll_full {r : Recording} (h : Obj.recording r ∈ os) : ∀ o ∈ recAll r, o ∈ os :=
  sub_snoc (recAll_sub hc h) h

theorem clipAll_full {c : Clip} (h : Obj.clip c ∈ os) : ∀ o ∈ clipAll c, o ∈ os :=
  sub_snoc (recAll_full hc (hc _ h _ (by simp [children]))) h

theorem seAll_full {s : SoundEvent} (h : Obj.soundEvent s ∈ os) : ∀ o ∈ seAll s, o ∈ os :=
  sub_snoc (recAll_full hc (hc _ h _ (by simp [children]))) h

theorem sesAll_full {ss : List SoundEvent} (h : ∀ s ∈ ss, Obj.soundEvent s ∈ os) :
    ∀ o ∈ ss.flatMap seAll, o ∈ os :=
  sub_flatMap (fun s hs => seAll_full hc (h s hs))

theorem seqAllAux_full (n : SeqNode) (as : List SeqNode) (h : Obj.sequence ⟨n, as⟩ ∈ os) :
    ∀ o ∈ seqAllAux n as, o ∈ os := by
  induction as generalizing n with
  | nil =>
    unfold seqAllAux
    refine sub_snoc (sesAll_full hc fun s hs => hc _ h _ ?_) h
    simp only [children, Sequence.parent, List.append_nil, List.mem_map]
    exact ⟨s, hs, rfl⟩
  | cons a as ih =>
    unfold seqAllAux
    refine sub_snoc (sub_append (ih a (hc _ h _ ?_)) (sesAll_full hc fun s hs => hc _ h _ ?_)) h
    · simp [children, Sequence.parent]
    · simp only [children, Sequence.parent, List.mem_append, List.mem_map]
      exact Or.inl ⟨s, hs, rfl⟩

theorem seqAll_full {s : Sequence} (h : Obj.sequence s ∈ os) : ∀ o ∈ seqAll s, o ∈ os :=
  seqAllAux_full hc s.node s.ancestors h

theorem seaAll_full {a : SoundEventAnnotation} (h : Obj.seAnn a ∈ os) : ∀ o ∈ seaAll a, o ∈ os := by
  unfold seaAll
  refine sub_snoc (sub_append (sub_append (sub_append (seAll_full hc (hc _ h _ ?_))
    (fun o ho => hc _ h o ?_)) (fun o ho => hc _ h o ?_)) (fun o ho => hc _ h o ?_)) h
  all_goals simp [children, *]

theorem sqaAll_full {a : SequenceAnnotation} (h : Obj.seqAnn a ∈ os) : ∀ o ∈ sqaAll a, o ∈ os := by
  unfold sqaAll
  refine sub_snoc (sub_append (sub_append (sub_append (seqAll_full hc (hc _ h _ ?_))
    (fun o ho => hc _ h o ?_)) (fun o ho => hc _ h o ?_)) (fun o ho => hc _ h o ?_)) h
  all_goals simp [children, *]

theorem caAll_full {a : ClipAnnotation} (h : Obj.clipAnn a ∈ os) : ∀ o ∈ caAll a, o ∈ os := by
  unfold caAll
  refine sub_snoc (sub_append (sub_append (sub_append (sub_append (clipAll_full hc (hc _ h _ ?_))
    (fun o ho => hc _ h o ?_)) (sub_flatMap fun x hx => seaAll_full hc (hc _ h _ ?_)))
    (sub_flatMap fun x hx => sqaAll_full hc (hc _ h _ ?_))) (fun o ho => hc _ h o ?_)) h
  all_goals simp [children, *]

theorem sepAll_full {p : SoundEventPrediction} (h : Obj.sePred p ∈ os) : ∀ o ∈ sepAll p, o ∈ os := by
  unfold sepAll
  refine sub_snoc (sub_append (seAll_full hc (hc _ h _ ?_)) (fun o ho => hc _ h o ?_)) h
  all_goals simp [children, *]

theorem sqpAll_full {p : SequencePrediction} (h : Obj.seqPred p ∈ os) : ∀ o ∈ sqpAll p, o ∈ os := by
  unfold sqpAll
  refine sub_snoc (sub_append (seqAll_full hc (hc _ h _ ?_)) (fun o ho => hc _ h o ?_)) h
  all_goals simp [children, *]

theorem cpAll_full {p : ClipPrediction} (h : Obj.clipPred p ∈ os) : ∀ o ∈ cpAll p, o ∈ os := by
  unfold cpAll
  refine sub_snoc (sub_append (sub_append (sub_append (clipAll_full hc (hc _ h _ ?_))
    (sub_flatMap fun x hx => sepAll_full hc (hc _ h _ ?_)))
    (sub_flatMap fun x hx => sqpAll_full hc (hc _ h _ ?_))) (fun o ho => hc _ h o ?_)) h
  all_goals simp [children, *]

theorem taskAll_full {t : AnnotationTask} (h : Obj.task t ∈ os) : ∀ o ∈ taskAll t, o ∈ os := by
  unfold taskAll
  refine sub_snoc (sub_append (fun o ho => hc _ h o ?_) (clipAll_full hc (hc _ h _ ?_))) h
  · simp only [children, List.mem_append]; exact Or.inl ho
  · simp [children]

omit hc in
/-- `matchAll` with the optional references as `optAll` -/
theorem matchAll_eq (m : Match) :
    matchAll m = optAll sepAll m.source ++ optAll seaAll m.target ++ [Obj.mtch m] := by
  unfold matchAll
  cases m.source <;> cases m.target <;> rfl

theorem matchAll_full {m : Match} (h : Obj.mtch m ∈ os) : ∀ o ∈ matchAll m, o ∈ os := by
  rw [matchAll_eq]
  refine sub_snoc (sub_append (sub_optAll fun p hp => sepAll_full hc (hc _ h _ ?_))
    (sub_optAll fun a ha => seaAll_full hc (hc _ h _ ?_))) h
  · simp [children, hp]
  · simp [children, ha]

theorem ceAll_full {e : ClipEvaluation} (h : Obj.clipEval e ∈ os) : ∀ o ∈ ceAll e, o ∈ os := by
  unfold ceAll
  refine sub_snoc (sub_append (sub_append (caAll_full hc (hc _ h _ ?_)) (cpAll_full hc (hc _ h _ ?_)))
    (sub_flatMap fun x hx => matchAll_full hc (hc _ h _ ?_))) h
  all_goals simp [children, *]

end full

/-! ### kinds occurring in each traversal -/
theorem kinds_clipAll (c : Clip) : OKinds (clipAll c) [0, 1, 2, 3] :=
  ((kinds_recAll _).mono (by decide)).append (OKinds.single (by simp [kindIx, objKey]))
theorem kinds_seAll (s : SoundEvent) : OKinds (seAll s) [0, 1, 2, 4] :=
  ((kinds_recAll _).mono (by decide)).append (OKinds.single (by simp [kindIx, objKey]))
theorem kinds_sesAll (ss : List SoundEvent) : OKinds (ss.flatMap seAll) [0, 1, 2, 4] :=
  OKinds.flatMap fun s _ => kinds_seAll s
theorem kinds_seqAllAux (n : SeqNode) (as : List SeqNode) : OKinds (seqAllAux n as) [0, 1, 2, 4, 5] := by
  induction as generalizing n with
  | nil =>
    unfold seqAllAux
    exact ((kinds_sesAll _).mono (by decide)).append (OKinds.single (by simp [kindIx, objKey]))
  | cons a as ih =>
    unfold seqAllAux
    exact ((ih a).append ((kinds_sesAll _).mono (by decide))).append
      (OKinds.single (by simp [kindIx, objKey]))
theorem kinds_seqAll (s : Sequence) : OKinds (seqAll s) [0, 1, 2, 4, 5] := kinds_seqAllAux _ _

theorem kinds_seaSub (a : SoundEventAnnotation) :
    OKinds (seAll a.sound_event ++ notesAll a.notes ++ tagsAll a.tags ++ optUser a.created_by)
      [0, 1, 2, 4] :=
  (((kinds_seAll _).append ((kinds_notesAll _).mono (by decide))).append
    ((kinds_tagsAll _).mono (by decide))).append ((kinds_optUser _).mono (by decide))
theorem kinds_seaAll (a : SoundEventAnnotation) : OKinds (seaAll a) [0, 1, 2, 4, 6] :=
  ((kinds_seaSub a).mono (by decide)).append (OKinds.single (by simp [kindIx, objKey]))

theorem kinds_sqaSub (a : SequenceAnnotation) :
    OKinds (seqAll a.sequence ++ notesAll a.notes ++ tagsAll a.tags ++ optUser a.created_by)
      [0, 1, 2, 4, 5] :=
  (((kinds_seqAll _).append ((kinds_notesAll _).mono (by decide))).append
    ((kinds_tagsAll _).mono (by decide))).append ((kinds_optUser _).mono (by decide))
theorem kinds_sqaAll (a : SequenceAnnotation) : OKinds (sqaAll a) [0, 1, 2, 4, 5, 7] :=
  ((kinds_sqaSub a).mono (by decide)).append (OKinds.single (by simp [kindIx, objKey]))

theorem kinds_caSub (a : ClipAnnotation) :
    OKinds (clipAll a.clip ++ tagsAll a.tags ++ a.sound_events.flatMap seaAll
      ++ a.sequences.flatMap sqaAll ++ notesAll a.notes) [0, 1, 2, 3, 4, 5, 6, 7] :=
  (((((kinds_clipAll _).mono (by decide)).append ((kinds_tagsAll _).mono (by decide))).append
    (OKinds.flatMap fun x _ => (kinds_seaAll x).mono (by decide))).append
    (OKinds.flatMap fun x _ => (kinds_sqaAll x).mono (by decide))).append
    ((kinds_notesAll _).mono (by decide))
theorem kinds_caAll (a : ClipAnnotation) : OKinds (caAll a) [0, 1, 2, 3, 4, 5, 6, 7, 8] :=
  ((kinds_caSub a).mono (by decide)).append (OKinds.single (by simp [kindIx, objKey]))

theorem kinds_sepSub (p : SoundEventPrediction) :
    OKinds (seAll p.sound_event ++ ptagsAll p.tags) [0, 1, 2, 4] :=
  (kinds_seAll _).append ((kinds_ptagsAll _).mono (by decide))
theorem kinds_sepAll (p : SoundEventPrediction) : OKinds (sepAll p) [0, 1, 2, 4, 9] :=
  ((kinds_sepSub p).mono (by decide)).append (OKinds.single (by simp [kindIx, objKey]))

theorem kinds_sqpSub (p : SequencePrediction) :
    OKinds (seqAll p.sequence ++ ptagsAll p.tags) [0, 1, 2, 4, 5] :=
  (kinds_seqAll _).append ((kinds_ptagsAll _).mono (by decide))
theorem kinds_sqpAll (p : SequencePrediction) : OKinds (sqpAll p) [0, 1, 2, 4, 5, 10] :=
  ((kinds_sqpSub p).mono (by decide)).append (OKinds.single (by simp [kindIx, objKey]))

theorem kinds_cpSub (p : ClipPrediction) :
    OKinds (clipAll p.clip ++ p.sound_events.flatMap sepAll ++ p.sequences.flatMap sqpAll
      ++ ptagsAll p.tags) [0, 1, 2, 3, 4, 5, 9, 10] :=
  ((((kinds_clipAll _).mono (by decide)).append
    (OKinds.flatMap fun x _ => (kinds_sepAll x).mono (by decide))).append
    (OKinds.flatMap fun x _ => (kinds_sqpAll x).mono (by decide))).append
    ((kinds_ptagsAll _).mono (by decide))
theorem kinds_cpAll (p : ClipPrediction) : OKinds (cpAll p) [0, 1, 2, 3, 4, 5, 9, 10, 11] :=
  ((kinds_cpSub p).mono (by decide)).append (OKinds.single (by simp [kindIx, objKey]))

theorem kinds_taskSub (t : AnnotationTask) :
    OKinds (t.status_badges.flatMap badgeAll ++ clipAll t.clip) [0, 1, 2, 3] :=
  ((kinds_badges _).mono (by decide)).append (kinds_clipAll _)

theorem kinds_optAll {α : Type} {f : α → List Obj} {x : Option α} {ks : List Nat}
    (h : ∀ y, OKinds (f y) ks) : OKinds (optAll f x) ks := by
  cases x with
  | none => exact OKinds.nil
  | some y => exact h y

theorem kinds_matchSub (m : Match) :
    OKinds (optAll sepAll m.source ++ optAll seaAll m.target) [0, 1, 2, 4, 6, 9] :=
  (kinds_optAll fun p => (kinds_sepAll p).mono (by decide)).append
    (kinds_optAll fun a => (kinds_seaAll a).mono (by decide))
theorem kinds_matchAll (m : Match) : OKinds (matchAll m) [0, 1, 2, 4, 6, 9, 13] := by
  rw [matchAll_eq]
  exact ((kinds_matchSub m).mono (by decide)).append (OKinds.single (by simp [kindIx, objKey]))

theorem kinds_ceSub (e : ClipEvaluation) :
    OKinds (caAll e.annotations ++ cpAll e.predictions ++ e.«matches».flatMap matchAll)
      [0, 1, 2, 3, 4, 5, 6, 7, 8, 9, 10, 11, 13] :=
  (((kinds_caAll _).mono (by decide)).append ((kinds_cpAll _).mono (by decide))).append
    (OKinds.flatMap fun x _ => (kinds_matchAll x).mono (by decide))

end ops

end SE.Aoef
