/-
  The operational `DataAdapter` (SoundeventModel/Aoef/Adapter.lean) refines to the declarative
  tables used by Save.lean: after converting a list of objects in order,
    * `UserAdapter.values()` is the first-wins de-duplication by uuid, encoded;
    * `TagAdapter.values()` is `encTags (dedupBy id tags)` — ids are allocated densely, one per
      distinct (label, value), and the id handed out for a tag is `tagId` in the final table.
-/
import SoundeventModel.Aoef.Adapter
namespace SE.Aoef
open Adapter

/-! ### first-wins insertion is `dedupBy` -/

def insNew {α κ} [DecidableEq κ] (key : α → κ) (acc : List α) (x : α) : List α :=
  if key x ∈ acc.map key then acc else acc ++ [x]

theorem foldl_insNew {α κ} [DecidableEq κ] (key : α → κ) (xs acc : List α) :
    xs.foldl (insNew key) acc = acc ++ (dedupBy key xs).filter (fun y => key y ∉ acc.map key) := by
  induction xs generalizing acc with
  | nil => simp [dedupBy]
  | cons x xs ih =>
    rw [List.foldl_cons, ih]
    by_cases h : key x ∈ acc.map key
    · simp only [insNew, h, if_true, dedupBy]
      congr 1
      rw [List.filter_cons]
      simp only [h, not_true_eq_false, decide_false, Bool.false_eq_true, if_false, List.filter_filter]
      apply List.filter_congr
      intro y _
      by_cases hy : key y ∈ acc.map key
      · simp [hy]
      · have : key y ≠ key x := fun e => hy (e ▸ h)
        simp [hy, this]
    · simp only [insNew, h, if_false, dedupBy]
      rw [List.filter_cons]
      simp only [h, not_false_eq_true, decide_true, if_true, List.append_assoc, List.singleton_append,
        List.filter_filter]
      congr 2
      apply List.filter_congr
      intro y _
      simp only [List.map_append, List.map_cons, List.map_nil, List.mem_append, List.mem_singleton, not_or,
        Bool.decide_and, Bool.and_comm]

theorem firstWins_eq_dedupBy {α κ} [DecidableEq κ] (key : α → κ) (xs : List α) :
    xs.foldl (insNew key) [] = dedupBy key xs := by
  rw [foldl_insNew]; simp

theorem ad_dedupBy_keys_nodup {α κ} [DecidableEq κ] (key : α → κ) (xs : List α) :
    ((dedupBy key xs).map key).Nodup := by
  induction xs with
  | nil => simp [dedupBy]
  | cons x xs ih =>
    simp only [dedupBy, List.map_cons, List.nodup_cons, List.mem_map, List.mem_filter, not_exists, not_and]
    constructor
    · intro y hy
      have := hy.2
      simpa using this
    · exact (ih.sublist (List.Sublist.map _ (List.filter_sublist)))

theorem ad_mem_dedupBy {α κ} [DecidableEq κ] (key : α → κ) {xs : List α} {y : α} (h : y ∈ dedupBy key xs) : y ∈ xs := by
  induction xs with
  | nil => simp [dedupBy] at h
  | cons x xs ih =>
    simp only [dedupBy, List.mem_cons, List.mem_filter] at h ⊢
    rcases h with rfl | ⟨h, _⟩
    · exact Or.inl rfl
    · exact Or.inr (ih h)

/-! ### lookups in tables built by `map` -/

theorem ad_lookup_map_of_mem {τ α β} [DecidableEq α] (kf : τ → α) (vf : τ → β) (ts : List τ)
    (hnd : (ts.map kf).Nodup) {t : τ} (ht : t ∈ ts) :
    List.lookup (kf t) (ts.map fun t => (kf t, vf t)) = some (vf t) := by
  induction ts with
  | nil => cases ht
  | cons a ts ih =>
    simp only [List.map_cons, List.nodup_cons] at hnd
    simp only [List.map_cons, List.lookup_cons]
    rcases List.mem_cons.1 ht with rfl | h
    · simp
    · have hne : kf t ≠ kf a := fun e => hnd.1 (e ▸ List.mem_map_of_mem h)
      have hb : (kf t == kf a) = false := beq_eq_false_iff_ne.2 hne
      simp [hb, ih hnd.2 h]

theorem ad_lookup_map_none {τ α β} [DecidableEq α] (kf : τ → α) (vf : τ → β) (ts : List τ) (k : α)
    (h : k ∉ ts.map kf) : List.lookup k (ts.map fun t => (kf t, vf t)) = none := by
  induction ts with
  | nil => rfl
  | cons a ts ih =>
    simp only [List.map_cons, List.mem_cons, not_or] at h
    simp only [List.map_cons, List.lookup_cons]
    have hb : (k == kf a) = false := beq_eq_false_iff_ne.2 h.1
    simp [hb, ih h.2]

/-! ### the adapter invariant

`ts` lists the distinct objects converted so far with the id each one got. -/

structure Inv {κ ι σ ω} [DecidableEq κ] [DecidableEq ι] (sp : Spec κ ι σ ω) (a : Adapter κ ι σ ω)
    (ts : List (σ × ι)) : Prop where
  mapping : a.mapping = ts.map fun t => (sp.seKey t.1, t.2)
  seStore : a.seStore = ts.map fun t => (t.2, t.1)
  aoefStore : a.aoefStore = ts.map fun t => (t.2, sp.assembleAoef t.1 t.2)
  keysNodup : (ts.map fun t => sp.seKey t.1).Nodup
  idsNodup : (ts.map (·.2)).Nodup

theorem putNew_hit {α β} [DecidableEq α] (tbl : List (α × β)) (k : α) (v w : β)
    (h : List.lookup k tbl = some w) : putNew tbl k v = tbl := by simp [putNew, h]

theorem putNew_miss {α β} [DecidableEq α] (tbl : List (α × β)) (k : α) (v : β)
    (h : List.lookup k tbl = none) : putNew tbl k v = tbl ++ [(k, v)] := by simp [putNew, h]

/-- converting an object whose key was seen before changes nothing and returns the stored object -/
theorem toAoef_seen {κ ι σ ω} [DecidableEq κ] [DecidableEq ι] (sp : Spec κ ι σ ω) (a : Adapter κ ι σ ω)
    (ts : List (σ × ι)) (hinv : Inv sp a ts) (x : σ) (t : σ × ι) (ht : t ∈ ts) (hk : sp.seKey t.1 = sp.seKey x) :
    toAoef sp a x = (sp.assembleAoef t.1 t.2, a) := by
  have hmap : List.lookup (sp.seKey x) a.mapping = some t.2 := by
    rw [hinv.mapping, ← hk]
    exact ad_lookup_map_of_mem (fun t => sp.seKey t.1) (fun t => t.2) ts hinv.keysNodup ht
  have hse : List.lookup t.2 a.seStore = some t.1 := by
    rw [hinv.seStore]
    exact ad_lookup_map_of_mem (fun t => t.2) (fun t => t.1) ts hinv.idsNodup ht
  have hao : List.lookup t.2 a.aoefStore = some (sp.assembleAoef t.1 t.2) := by
    rw [hinv.aoefStore]
    exact ad_lookup_map_of_mem (fun t => t.2) (fun t => sp.assembleAoef t.1 t.2) ts hinv.idsNodup ht
  have hget : getId sp a x = (t.2, a) := by
    simp only [getId, hmap]
    rw [putNew_hit _ _ _ _ hse]
  simp only [toAoef, hget, hao]
  rw [putNew_hit _ _ _ _ hse]
  simp [hao]

/-- converting an object with a new key appends it to all three tables under the fresh id -/
theorem toAoef_new {κ ι σ ω} [DecidableEq κ] [DecidableEq ι] (sp : Spec κ ι σ ω) (a : Adapter κ ι σ ω)
    (ts : List (σ × ι)) (hinv : Inv sp a ts) (x : σ) (hk : sp.seKey x ∉ ts.map fun t => sp.seKey t.1)
    (hfresh : sp.newId a x ∉ ts.map (·.2)) :
    ∃ a', toAoef sp a x = (sp.assembleAoef x (sp.newId a x), a') ∧ Inv sp a' (ts ++ [(x, sp.newId a x)]) := by
  have hmap : List.lookup (sp.seKey x) a.mapping = none := by
    rw [hinv.mapping]; exact ad_lookup_map_none (fun t => sp.seKey t.1) (fun t => t.2) ts _ hk
  have hse : List.lookup (sp.newId a x) a.seStore = none := by
    rw [hinv.seStore]; exact ad_lookup_map_none (fun t => t.2) (fun t => t.1) ts _ hfresh
  have hao : List.lookup (sp.newId a x) a.aoefStore = none := by
    rw [hinv.aoefStore]; exact ad_lookup_map_none (fun t => t.2) (fun t => sp.assembleAoef t.1 t.2) ts _ hfresh
  have hmap2 : List.lookup (sp.seKey x) (a.mapping ++ [(sp.seKey x, sp.newId a x)]) = some (sp.newId a x) := by
    rw [List.lookup_append, hmap]; simp
  have hget : getId sp a x = (sp.newId a x,
      { a with mapping := a.mapping ++ [(sp.seKey x, sp.newId a x)],
               seStore := a.seStore ++ [(sp.newId a x, x)] }) := by
    simp only [getId, hmap, hmap2]
    rw [putNew_miss _ _ _ hse]
  refine ⟨{ mapping := a.mapping ++ [(sp.seKey x, sp.newId a x)],
            seStore := a.seStore ++ [(sp.newId a x, x)],
            aoefStore := a.aoefStore ++ [(sp.newId a x, sp.assembleAoef x (sp.newId a x))] }, ?_, ?_⟩
  · have hse2 : List.lookup (sp.newId a x) (a.seStore ++ [(sp.newId a x, x)]) = some x := by
      rw [List.lookup_append, hse]; simp
    have hao2 : List.lookup (sp.newId a x) (a.aoefStore ++ [(sp.newId a x, sp.assembleAoef x (sp.newId a x))])
        = some (sp.assembleAoef x (sp.newId a x)) := by
      rw [List.lookup_append, hao]; simp
    simp only [toAoef, hget, hao]
    rw [putNew_hit _ _ _ _ hse2]
    simp [hao2]
  · constructor
    · simp [hinv.mapping]
    · simp [hinv.seStore]
    · simp [hinv.aoefStore]
    · simp only [List.map_append, List.map_cons, List.map_nil]
      exact List.nodup_append.2 ⟨hinv.keysNodup, by simp, by
        intro k hk1 k' hk2
        have : k' = sp.seKey x := by simpa using hk2
        subst this; intro e; exact hk (e ▸ hk1)⟩
    · simp only [List.map_append, List.map_cons, List.map_nil]
      exact List.nodup_append.2 ⟨hinv.idsNodup, by simp, by
        intro k hk1 k' hk2
        have : k' = sp.newId a x := by simpa using hk2
        subst this; intro e; exact hfresh (e ▸ hk1)⟩

theorem inv_empty {κ ι σ ω} [DecidableEq κ] [DecidableEq ι] (sp : Spec κ ι σ ω) :
    Inv sp ({} : Adapter κ ι σ ω) [] := by
  constructor <;> simp


/-! ### converting a list: the tables are the first-wins list of what was converted -/

/-- one step of `toAoefAll`, for a spec whose fresh ids are really fresh (`hfresh`) and with an
    extra property `P` of the (object, id) list that each insertion preserves (`hP`) -/
theorem toAoef_step {κ ι σ ω} [DecidableEq κ] [DecidableEq ι] (sp : Spec κ ι σ ω)
    (P : List (σ × ι) → Prop)
    (hfresh : ∀ a ts x, Inv sp a ts → P ts → (sp.seKey x ∉ ts.map fun t => sp.seKey t.1) → sp.newId a x ∉ ts.map (·.2))
    (hP : ∀ a ts x, Inv sp a ts → P ts → P (ts ++ [(x, sp.newId a x)]))
    (a : Adapter κ ι σ ω) (ts : List (σ × ι)) (hinv : Inv sp a ts) (hp : P ts) (x : σ) :
    ∃ ts', Inv sp (toAoef sp a x).2 ts' ∧ P ts' ∧
      ts'.map (·.1) = insNew sp.seKey (ts.map (·.1)) x ∧
      ∃ t ∈ ts', sp.seKey t.1 = sp.seKey x ∧ (toAoef sp a x).1 = sp.assembleAoef t.1 t.2 := by
  by_cases hk : sp.seKey x ∈ ts.map fun t => sp.seKey t.1
  · rcases List.mem_map.1 hk with ⟨t, ht, hkt⟩
    have h := toAoef_seen sp a ts hinv x t ht hkt
    refine ⟨ts, by rw [h]; exact hinv, hp, ?_, t, ht, hkt, by rw [h]⟩
    have : sp.seKey x ∈ (ts.map (·.1)).map sp.seKey := by
      rw [List.map_map]; exact hk
    unfold insNew; rw [if_pos this]
  · rcases toAoef_new sp a ts hinv x hk (hfresh a ts x hinv hp hk) with ⟨a', h, hinv'⟩
    refine ⟨ts ++ [(x, sp.newId a x)], by rw [h]; exact hinv', hP a ts x hinv hp, ?_,
      (x, sp.newId a x), by simp, rfl, by rw [h]⟩
    have : sp.seKey x ∉ (ts.map (·.1)).map sp.seKey := by
      rw [List.map_map]; exact hk
    unfold insNew; rw [if_neg this]; simp

theorem toAoefAll_fold {κ ι σ ω} [DecidableEq κ] [DecidableEq ι] (sp : Spec κ ι σ ω)
    (P : List (σ × ι) → Prop)
    (hfresh : ∀ a ts x, Inv sp a ts → P ts → (sp.seKey x ∉ ts.map fun t => sp.seKey t.1) → sp.newId a x ∉ ts.map (·.2))
    (hP : ∀ a ts x, Inv sp a ts → P ts → P (ts ++ [(x, sp.newId a x)]))
    (xs : List σ) (a : Adapter κ ι σ ω) (ts : List (σ × ι)) (out : List ω) (hinv : Inv sp a ts) (hp : P ts) :
    ∃ ts', Inv sp (xs.foldl (fun (acc : List ω × Adapter κ ι σ ω) x =>
        ((acc.1 ++ [(toAoef sp acc.2 x).1]), (toAoef sp acc.2 x).2)) (out, a)).2 ts' ∧ P ts' ∧
      ts'.map (·.1) = xs.foldl (insNew sp.seKey) (ts.map (·.1)) := by
  induction xs generalizing a ts out with
  | nil => exact ⟨ts, hinv, hp, rfl⟩
  | cons x xs ih =>
    rcases toAoef_step sp P hfresh hP a ts hinv hp x with ⟨ts1, hinv1, hp1, hfst, _⟩
    rcases ih (toAoef sp a x).2 ts1 (out ++ [(toAoef sp a x).1]) hinv1 hp1 with ⟨ts2, h2, hp2, hf2⟩
    exact ⟨ts2, h2, hp2, by rw [hf2, hfst]; rfl⟩

theorem toAoefAll_tables {κ ι σ ω} [DecidableEq κ] [DecidableEq ι] (sp : Spec κ ι σ ω)
    (P : List (σ × ι) → Prop) (hP0 : P [])
    (hfresh : ∀ a ts x, Inv sp a ts → P ts → (sp.seKey x ∉ ts.map fun t => sp.seKey t.1) → sp.newId a x ∉ ts.map (·.2))
    (hP : ∀ a ts x, Inv sp a ts → P ts → P (ts ++ [(x, sp.newId a x)]))
    (xs : List σ) :
    ∃ ts, Inv sp (toAoefAll sp {} xs).2 ts ∧ P ts ∧ ts.map (·.1) = dedupBy sp.seKey xs := by
  rcases toAoefAll_fold sp P hfresh hP xs {} [] [] (inv_empty sp) hP0 with ⟨ts, h, hp, hf⟩
  refine ⟨ts, ?_, hp, by rw [hf]; exact firstWins_eq_dedupBy _ _⟩
  simpa [toAoefAll] using h

theorem values_of_inv {κ ι σ ω} [DecidableEq κ] [DecidableEq ι] (sp : Spec κ ι σ ω) (a : Adapter κ ι σ ω)
    (ts : List (σ × ι)) (hinv : Inv sp a ts) :
    a.values = listOpt (ts.map fun t => sp.assembleAoef t.1 t.2) := by
  simp only [values, hinv.aoefStore, listOpt, List.isEmpty_map, List.map_map]
  rfl

/-- **`UserAdapter`**: after `to_aoef` of `xs` in order, `values()` is the first-wins
    de-duplication by uuid, encoded — what `Save.shared` writes as `users` -/
theorem userAdapter_values (xs : List User) :
    (toAoefAll userSpec {} xs).2.values = listOpt ((dedupBy (·.uuid) xs).map encUser) := by
  rcases toAoefAll_tables userSpec (fun ts => ∀ t ∈ ts, t.2 = t.1.uuid) (by simp)
      (by
        intro a ts x hinv hp hk hmem
        -- a fresh uuid cannot be among the ids, which are the uuids (= keys) of the entries
        apply hk
        rcases List.mem_map.1 hmem with ⟨t, ht, he⟩
        refine List.mem_map.2 ⟨t, ht, ?_⟩
        show t.1.uuid = x.uuid
        rw [← hp t ht, he]; rfl)
      (by
        intro a ts x _ hp t ht
        rcases List.mem_append.1 ht with h | h
        · exact hp t h
        · have : t = (x, userSpec.newId a x) := by simpa using h
          subst this; rfl)
      xs with ⟨ts, hinv, _, hf⟩
  rw [values_of_inv userSpec _ ts hinv]
  have hf' : dedupBy (·.uuid) xs = ts.map (·.1) := hf.symm
  rw [hf', List.map_map]
  rfl


theorem eq_zipIdx_of_snd_range {α} (ts : List (α × Nat)) (h : ts.map (·.2) = List.range ts.length) :
    ts = (ts.map (·.1)).zipIdx := by
  apply List.ext_getElem
  · simp
  · intro i h1 h2
    have hi : (ts.map (·.2))[i]'(by simpa using h1) = i := by
      simp only [h, List.getElem_range]
    simp only [List.getElem_map] at hi
    simp only [List.getElem_zipIdx, List.getElem_map, Nat.zero_add]
    exact Prod.ext rfl hi

/-- **`TagAdapter`**: ids are allocated densely from the size of the key table, one per distinct
    (label, value): after `to_aoef` of `xs` in order, `values()` is `encTags (dedupBy id xs)` — what
    `Save.shared` writes as `tags` -/
theorem tagAdapter_values (xs : List Tag) :
    (toAoefAll tagSpec {} xs).2.values = listOpt (encTags (dedupBy id xs)) := by
  rcases toAoefAll_tables tagSpec (fun ts => ts.map (·.2) = List.range ts.length) (by simp)
      (by
        intro a ts x hinv hp _ hmem
        have hlen : tagSpec.newId a x = ts.length := by
          show a.mapping.length = ts.length
          rw [hinv.mapping]; simp
        rw [hp, hlen] at hmem
        simp at hmem)
      (by
        intro a ts x hinv hp
        have hlen : tagSpec.newId a x = ts.length := by
          show a.mapping.length = ts.length
          rw [hinv.mapping]; simp
        simp [hp, hlen, List.range_succ])
      xs with ⟨ts, hinv, hp, hf⟩
  rw [values_of_inv tagSpec _ ts hinv]
  have hf' : dedupBy id xs = ts.map (·.1) := hf.symm
  rw [hf']
  congr 1
  have hz := eq_zipIdx_of_snd_range ts hp
  rw [encTags, ← hz]
  rfl

/-- the id a tag gets is its index in the final table (`tagId`), and converting it again returns
    the same entry -/
theorem tagAdapter_id (xs : List Tag) (t : Tag) (ht : t ∈ xs) :
    (toAoef tagSpec (toAoefAll tagSpec {} xs).2 t).1 = ⟨tagId (dedupBy id xs) t, t.key, t.value⟩ := by
  rcases toAoefAll_tables tagSpec (fun ts => ts.map (·.2) = List.range ts.length) (by simp)
      (by
        intro a ts x hinv hp _ hmem
        have hlen : tagSpec.newId a x = ts.length := by
          show a.mapping.length = ts.length
          rw [hinv.mapping]; simp
        rw [hp, hlen] at hmem
        simp at hmem)
      (by
        intro a ts x hinv hp
        have hlen : tagSpec.newId a x = ts.length := by
          show a.mapping.length = ts.length
          rw [hinv.mapping]; simp
        simp [hp, hlen, List.range_succ])
      xs with ⟨ts, hinv, hp, hf⟩
  -- the tag is in the table (first-wins de-duplication keeps one copy of every converted tag)
  have hmem : t ∈ ts.map (·.1) := by
    rw [hf]
    have : ∀ (ys : List Tag), t ∈ ys → t ∈ dedupBy id ys := by
      intro ys
      induction ys with
      | nil => intro h; cases h
      | cons y ys ih =>
        intro h
        simp only [dedupBy, List.mem_cons, List.mem_filter]
        by_cases e : t = y
        · exact Or.inl e
        · rcases List.mem_cons.1 h with h | h
          · exact absurd h e
          · exact Or.inr ⟨ih h, by simpa using e⟩
    exact this xs ht
  rcases List.mem_map.1 hmem with ⟨e, he, het⟩
  have hseen := toAoef_seen tagSpec _ ts hinv t e he (by show e.1 = t; exact het)
  rw [hseen]
  -- the id of the entry is its index
  have hz := eq_zipIdx_of_snd_range ts hp
  have hidx : e.2 = (ts.map (·.1)).idxOf e.1 := by
    rw [hz] at he
    rcases List.mem_iff_getElem.1 he with ⟨i, hi, hei⟩
    simp only [List.getElem_zipIdx, Nat.zero_add] at hei
    have hnd : (ts.map (·.1)).Nodup := by
      have := hinv.keysNodup
      simpa [tagSpec] using this
    rw [← hei]
    simp only
    have hi' : i < (ts.map (·.1)).length := by simpa using hi
    exact (List.Nodup.idxOf_getElem hnd i hi').symm
  show (⟨e.2, e.1.key, e.1.value⟩ : TagObj) = _
  have hf2 : ts.map (·.1) = dedupBy id xs := hf
  rw [hidx, het, tagId, hf2]


/-! ### the loading side: `to_soundevent` in a loop is `addAll` -/

theorem toSoundevent_seStore {κ ι σ ω} [DecidableEq κ] [DecidableEq ι] (sp : Spec κ ι σ ω)
    (a : Adapter κ ι σ ω) (o : ω) :
    (toSoundevent sp a o).2.seStore =
      (match find a.seStore (sp.aoefKey o) with
       | some _ => a.seStore
       | none => a.seStore ++ [(sp.aoefKey o, sp.assembleSe o)]) := by
  unfold toSoundevent find
  cases h : List.lookup (sp.aoefKey o) a.seStore <;> simp [h]

/-- registering a list of AOEF objects with `to_soundevent` fills the object table exactly as the
    loader's `addAll` does (first-wins by id) -/
theorem toSoundeventAll_seStore {κ ι σ ω} [DecidableEq κ] [DecidableEq ι] (sp : Spec κ ι σ ω)
    (os : List ω) (a : Adapter κ ι σ ω) (out : List σ) :
    addAll sp.aoefKey (fun _ o => pure (sp.assembleSe o)) a.seStore os
      = .ok (os.foldl (fun (acc : List σ × Adapter κ ι σ ω) o =>
          ((acc.1 ++ [(toSoundevent sp acc.2 o).1]), (toSoundevent sp acc.2 o).2)) (out, a)).2.seStore := by
  induction os generalizing a out with
  | nil => simp [addAll]; rfl
  | cons o os ih =>
    have := ih (toSoundevent sp a o).2 (out ++ [(toSoundevent sp a o).1])
    simp only [List.foldl_cons]
    rw [← this, toSoundevent_seStore]
    simp only [addAll, List.foldlM_cons]
    cases h : find a.seStore (sp.aoefKey o) <;> simp [h] <;> rfl

/-- `from_id` after registering: the object decoded from the first entry with that id -/
theorem fromId_after_registering {κ ι σ ω} [DecidableEq κ] [DecidableEq ι] (sp : Spec κ ι σ ω) (os : List ω) (i : ι) :
    (addAll sp.aoefKey (fun _ o => pure (sp.assembleSe o)) [] os).map (fun st => find st i)
      = .ok ((toSoundeventAll sp {} os).2.fromId i) := by
  have := toSoundeventAll_seStore sp os ({} : Adapter κ ι σ ω) []
  simp only [toSoundeventAll, fromId]
  rw [this]
  rfl

end SE.Aoef
