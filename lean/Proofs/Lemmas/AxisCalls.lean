import SoundeventModel.AxisCalls
import Proofs.Lemmas.History

/-! Helper lemmas for the call-form theorem of C16 (`C16_call_forms`). -/
namespace SE.Axis

theorem lookup_cons_ne {α : Type} (n m : String) (a : α) (kw : List (String × α)) (h : m ≠ n) :
    List.lookup m ((n, a) :: kw) = List.lookup m kw := by
  have hp : (m == n) = false := by simpa using h
  rw [List.lookup_cons, hp]

/-- a keyword that names no parameter does not take part in the binding -/
theorem bindParams_cons_kw {α : Type} (ps : List Param) (pos : List α) (n : String) (a : α)
    (kw : List (String × α)) (hn : n ∉ ps.map (·.name)) :
    bindParams ps pos ((n, a) :: kw) = bindParams ps pos kw := by
  induction ps generalizing pos with
  | nil => cases pos <;> simp [bindParams]
  | cons p ps ih =>
    have hp : p.name ≠ n := fun h => hn (by simp [h])
    have hps : n ∉ ps.map (·.name) := fun h => hn (by simp [h])
    cases pos with
    | nil => simp only [bindParams, lookup_cons_ne n p.name a kw hp, ih [] hps]
    | cons b bs => simp only [bindParams, lookup_cons_ne n p.name a kw hp, ih bs hps]

theorem lookup_zip_drop_none {α : Type} (names : List String) (vals : List α) (k : Nat) (n : String)
    (hn : n ∉ names) : ((names.zip vals).drop k).lookup n = none := by
  rw [List.lookup_eq_none_iff]
  intro e he
  have h1 : e ∈ names.zip vals := List.mem_of_mem_drop he
  have h2 : e.1 ∈ names := (List.of_mem_zip (a := e.1) (b := e.2) h1).1
  have : n ≠ e.1 := fun h => hn (h ▸ h2)
  simpa using this

/-- all-keyword call = all-positional call -/
theorem bindParams_all_kw {α : Type} (ps : List Param) (vals : List α) (hnd : (ps.map (·.name)).Nodup)
    (hlen : vals.length ≤ ps.length) :
    bindParams ps [] ((ps.map (·.name)).zip vals) = bindParams ps vals [] := by
  induction ps generalizing vals with
  | nil =>
    cases vals with
    | nil => simp [bindParams]
    | cons a as => simp at hlen
  | cons p ps ih =>
    have hnd' : (ps.map (·.name)).Nodup := (List.nodup_cons.mp (by simpa using hnd)).2
    have hp : p.name ∉ ps.map (·.name) := (List.nodup_cons.mp (by simpa using hnd)).1
    cases vals with
    | nil => simp [bindParams]
    | cons a as =>
      have hl : as.length ≤ ps.length := by simpa using hlen
      simp only [List.map_cons, List.zip_cons_cons, bindParams, List.lookup_cons, beq_self_eq_true]
      rw [bindParams_cons_kw ps [] p.name a _ hp, ih as hnd' hl]
      simp

/-- any split into a positional prefix and keywords = the all-positional call -/
theorem bindParams_split {α : Type} (ps : List Param) (vals : List α) (k : Nat)
    (hnd : (ps.map (·.name)).Nodup) (hlen : vals.length ≤ ps.length) :
    bindParams ps (vals.take k) (((ps.map (·.name)).zip vals).drop k) = bindParams ps vals [] := by
  induction ps generalizing vals k with
  | nil =>
    cases vals with
    | nil => simp [bindParams]
    | cons a as => simp at hlen
  | cons p ps ih =>
    have hnd' : (ps.map (·.name)).Nodup := (List.nodup_cons.mp (by simpa using hnd)).2
    have hp : p.name ∉ ps.map (·.name) := (List.nodup_cons.mp (by simpa using hnd)).1
    cases k with
    | zero =>
      simp only [List.take_zero, List.drop_zero]
      exact bindParams_all_kw (p :: ps) vals hnd hlen
    | succ k =>
      cases vals with
      | nil => simp [bindParams]
      | cons a as =>
        have hl : as.length ≤ ps.length := by simpa using hlen
        simp only [List.take_succ_cons, List.map_cons, List.zip_cons_cons, List.drop_succ_cons, bindParams]
        rw [lookup_zip_drop_none _ _ _ _ hp, ih as k hnd' hl]
        simp

end SE.Axis
