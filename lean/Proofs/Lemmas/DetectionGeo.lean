/-
  Helper lemmas for the geometry layer of C08 (model: SoundeventModel/DetectionGeo.lean):
  positivity of the two IoU formulas in terms of end-point comparisons, `_prepare_geometry` on
  the closed-form types, and the correspondence between the filtered geometry lists and the
  index map of `evaluate_clip`.
-/
import Mathlib.Tactic.Linarith
import Mathlib.Tactic.Ring
import Mathlib.Algebra.Order.Field.Basic
import SoundeventModel.DetectionGeo
import Proofs.Lemmas.Affinity
import Proofs.Lemmas.Detection
import Proofs.C06
namespace SE.Detection
open SE SE.Metrics SE.Affinity SE.Proofs.C06

theorem iou_pos_iff (a b i : Rat) (h0 : 0 ≤ i) (ha : i ≤ a) (hb : i ≤ b) : 0 < iou a b i ↔ 0 < i := by
  unfold iou
  constructor
  · intro h
    split at h
    · exact absurd h (lt_irrefl _)
    · rcases lt_or_eq_of_le h0 with h1 | h1
      · exact h1
      · rw [← h1] at h; simp at h
  · intro h
    have hu : 0 < a + b - i := by linarith
    rw [if_neg (ne_of_gt hu)]
    exact div_pos h hu

theorem max0_pos (x : Rat) : 0 < max 0 x ↔ 0 < x := by
  constructor
  · intro h
    rcases le_total x 0 with hx | hx
    · rw [max_eq_left hx] at h; exact absurd h (lt_irrefl _)
    · rw [max_eq_right hx] at h; exact h
  · intro h; exact lt_of_lt_of_le h (le_max_right _ _)

theorem timeIoU_pos_iff (s1 e1 s2 e2 : Rat) (h1 : s1 ≤ e1) (h2 : s2 ≤ e2) :
    0 < timeIoU s1 e1 s2 e2 ↔ max s1 s2 < min e1 e2 := by
  rw [timeIoU_eq_iou]
  obtain ⟨b0, b1, b2⟩ := timeInter_bounds s1 e1 s2 e2 h1 h2
  rw [iou_pos_iff _ _ _ b0 b1 b2, max0_pos]
  constructor <;> intro h <;> linarith

theorem boxInter_pos_iff (s1 l1 e1 h1 s2 l2 e2 h2 : Rat) :
    0 < boxInter s1 l1 e1 h1 s2 l2 e2 h2 ↔ (max s1 s2 < min e1 e2 ∧ max l1 l2 < min h1 h2) := by
  unfold boxInter
  have ha : 0 ≤ max 0 (min e1 e2 - max s1 s2) := le_max_left _ _
  have hb : 0 ≤ max 0 (min h1 h2 - max l1 l2) := le_max_left _ _
  constructor
  · intro h
    have h1' : 0 < max 0 (min e1 e2 - max s1 s2) := by
      rcases lt_or_eq_of_le ha with h' | h'
      · exact h'
      · rw [← h', zero_mul] at h; exact absurd h (lt_irrefl _)
    have h2' : 0 < max 0 (min h1 h2 - max l1 l2) := by
      rcases lt_or_eq_of_le hb with h' | h'
      · exact h'
      · rw [← h', mul_zero] at h; exact absurd h (lt_irrefl _)
    rw [max0_pos] at h1' h2'
    constructor <;> linarith
  · rintro ⟨p, q⟩
    apply mul_pos <;> rw [max0_pos] <;> linarith


theorem stamp_ordered (t tb : Rat) (ht : 0 ≤ t) (htb : 0 ≤ tb) : max (t - tb) 0 ≤ t + tb := by
  apply max_le <;> linarith

theorem prep_stamp {σ} (G : Geos σ) (t tb fb : Rat) (hn : ¬ (tb < 0 ∨ fb < 0)) :
    prepare G (.timeStamp t) tb fb = .ok (.interval "TimeInterval" (max (t - tb) 0) (t + tb)) := by
  rw [prepare_spec]; simp only [hn, if_false]
theorem prep_interval {σ} (G : Geos σ) (s e tb fb : Rat) :
    prepare G (.timeInterval s e) tb fb = .ok (.interval "TimeInterval" s e) := by rw [prepare_spec]
theorem prep_box {σ} (G : Geos σ) (s l e h tb fb : Rat) :
    prepare G (.boundingBox s l e h) tb fb = .ok (.box s l e h) := by rw [prepare_spec]

theorem overlap_iff_affinity_pos (tb fb : Rat) (htb : 0 ≤ tb) (hfb : 0 ≤ fb) (g1 g2 : Geom) (w1 : WF g1) (w2 : WF g2)
    (b : Bool) (h : overlapCF tb g1 g2 = some b) :
    ∃ v, affinityCF tb fb g1 g2 = .ok v ∧ (0 < v ↔ b = true) := by
  have hn : ¬ (tb < 0 ∨ fb < 0) := by
    intro h; rcases h with h | h <;> linarith
  unfold affinityCF
  cases g1 <;> cases g2 <;> simp only [overlapCF, extents, Option.some.injEq, reduceCtorEq] at h
  case boundingBox.boundingBox s1 l1 e1 h1 s2 l2 e2 h2 =>
    refine ⟨_, C06_box_closed_form boxGeos boxGeos_boxExact s1 l1 e1 h1 s2 l2 e2 h2 tb fb w1 w2, ?_⟩
    obtain ⟨b0, b1, b2⟩ := boxInter_bounds s1 l1 e1 h1 s2 l2 e2 h2 w1.1 w1.2 w2.1 w2.2
    rw [iou_pos_iff _ _ _ b0 b1 b2, boxInter_pos_iff, ← h]
    simp [openOverlap]
  all_goals
    refine ⟨_, affinity_eq boxGeos _ _ tb fb _ _ (by first | exact prep_stamp _ _ _ _ hn | exact prep_interval .. | exact prep_box ..)
      (by first | exact prep_stamp _ _ _ _ hn | exact prep_interval .. | exact prep_box ..), ?_⟩
    simp only [affinityP, isTime_interval, isTime_box, Bool.or_true, Bool.true_or, Bool.or_self, if_true, timeBounds]
    rw [timeIoU_pos_iff _ _ _ _ (by first | exact w1 | exact w1.1 | exact stamp_ordered _ _ w1 htb)
      (by first | exact w2 | exact w2.1 | exact stamp_ordered _ _ w2 htb), ← h]
    simp [openOverlap]


theorem overlapCF_closed (tb : Rat) (g1 g2 : Geom) (c1 : closed g1 = true) (c2 : closed g2 = true) :
    ∃ b, overlapCF tb g1 g2 = some b := by
  cases g1 <;> simp only [closed, Bool.false_eq_true] at c1 <;>
    cases g2 <;> simp only [closed, Bool.false_eq_true] at c2 <;> exact ⟨_, rfl⟩

theorem closed_of_overlapCF (tb : Rat) (g1 g2 : Geom) (b : Bool) (h : overlapCF tb g1 g2 = some b) :
    closed g1 = true ∧ closed g2 = true := by
  cases g1 <;> cases g2 <;> simp only [overlapCF, extents, reduceCtorEq] at h <;> exact ⟨rfl, rfl⟩

theorem overlapCF_symm (tb : Rat) (g1 g2 : Geom) : overlapCF tb g1 g2 = overlapCF tb g2 g1 := by
  cases g1 <;> cases g2 <;> simp only [overlapCF, extents, openOverlap] <;>
    simp only [max_comm, min_comm]

theorem affinityCF_ok (tb fb : Rat) (htb : 0 ≤ tb) (hfb : 0 ≤ fb) (g1 g2 : Geom) :
    ∃ v, affinityCF tb fb g1 g2 = .ok v := by
  have hn : ¬ (tb < 0 ∨ fb < 0) := by
    intro h; rcases h with h | h <;> linarith
  unfold affinityCF
  rw [affinity_ok_iff]
  have : ∀ g : Geom, ∃ p, prepare boxGeos g tb fb = .ok p := by
    intro g
    rw [prepare_spec]
    cases g <;> simp only [hn, if_false] <;> exact ⟨_, rfl⟩
  obtain ⟨p1, h1⟩ := this g1
  obtain ⟨p2, h2⟩ := this g2
  exact ⟨p1, p2, h1, h2⟩

/-! ### the filtered geometry lists and the index map -/

theorem filter_isSome_map_snd {α} (l : List (α × Option Geom)) :
    (l.filter (·.2.isSome)).map (·.2) = (geomsOf l).map some := by
  unfold geomsOf
  induction l with
  | nil => rfl
  | cons x xs ih =>
    rcases x with ⟨a, _ | g⟩
    · simpa using ih
    · simpa using ih

/-- the event at the `k`-th position of the index map carries the `k`-th geometry handed to the
    matcher -/
theorem geomIdx_geomsOf {α} [Inhabited α] (l : List (α × Option Geom)) (k i : Nat)
    (h : (geomIdx (l.map (·.2.isSome)))[k]? = some i) :
    ∃ x g, l[i]? = some x ∧ x.2 = some g ∧ (geomsOf l)[k]? = some g := by
  have hi : i ∈ geomIdx (l.map (·.2.isSome)) := List.mem_of_getElem? h
  rw [mem_geomIdx, List.length_map] at hi
  have hm := geomIdx_map_getD l (·.2.isSome)
  have hm2 := congrArg (List.map (·.2)) hm
  rw [filter_isSome_map_snd, List.map_map] at hm2
  have hk := congrArg (fun l' => l'[k]?) hm2
  simp only [List.getElem?_map, h, Option.map_some, Function.comp] at hk
  have hx : l[i]? = some (l.getD i default) := by
    simp [List.getD_eq_getElem?_getD, hi.1]
  cases hg : (geomsOf l)[k]? with
  | none => rw [hg] at hk; simp at hk
  | some g =>
    rw [hg] at hk
    simp only [Option.map_some, Option.some.injEq] at hk
    exact ⟨l.getD i default, g, hx, hk, rfl⟩

theorem geomsOf_length {α} (l : List (α × Option Geom)) :
    (geomsOf l).length = (l.filter (·.2.isSome)).length := by
  have := congrArg List.length (filter_isSome_map_snd l)
  simpa using this.symm

theorem evPreds_hasGeom (l : List GPred) : (evPreds l).map (·.hasGeom) = l.map (·.2.isSome) := by
  simp [evPreds, List.map_map, Function.comp_def]

theorem evAnns_hasGeom (l : List GAnn) : (evAnns l).map (·.hasGeom) = l.map (·.2.isSome) := by
  simp [evAnns, List.map_map, Function.comp_def]

theorem evPreds_filter_length (l : List GPred) :
    ((evPreds l).filter (·.hasGeom)).length = (geomsOf l).length := by
  rw [geomsOf_length]
  simp [evPreds, List.filter_map, Function.comp_def]

theorem evAnns_filter_length (l : List GAnn) :
    ((evAnns l).filter (·.hasGeom)).length = (geomsOf l).length := by
  rw [geomsOf_length]
  simp [evAnns, List.filter_map, Function.comp_def]

/-- the entries of the cost matrix lie in [0, 1] -/
theorem affEntry_range (X : Matching.Mat) (tb fb : Rat) (src tgt : List Geom)
    (hX : ∀ i j, 0 ≤ X i j ∧ X i j ≤ 1) (hs : ∀ g ∈ src, WF g) (ht : ∀ g ∈ tgt, WF g) (i j : Nat) :
    0 ≤ affEntry X tb fb src tgt i j ∧ affEntry X tb fb src tgt i j ≤ 1 := by
  have hz : (0 : Rat) ≤ 0 ∧ (0 : Rat) ≤ 1 := ⟨le_refl _, by norm_num⟩
  unfold affEntry
  cases h1 : src[i]? with
  | none => exact hz
  | some g1 =>
    cases h2 : tgt[j]? with
    | none => exact hz
    | some g2 =>
      simp only
      split
      · cases hv : affinityCF tb fb g1 g2 with
        | error e => exact hz
        | ok v =>
          exact C06_range boxGeos boxGeos_sound.sane g1 g2 tb fb v (hs g1 (List.mem_of_getElem? h1))
            (ht g2 (List.mem_of_getElem? h2)) hv
      · exact hX i j

/-- a positive closed-form entry means the two geometries overlap -/
theorem affEntry_closed (X : Matching.Mat) (tb fb : Rat) (htb : 0 ≤ tb) (hfb : 0 ≤ fb) (src tgt : List Geom)
    (i j : Nat) (g1 g2 : Geom) (h1 : src[i]? = some g1) (h2 : tgt[j]? = some g2) (w1 : WF g1) (w2 : WF g2)
    (c1 : closed g1 = true) (c2 : closed g2 = true) :
    affinityCF tb fb g1 g2 = .ok (affEntry X tb fb src tgt i j) ∧
      (0 < affEntry X tb fb src tgt i j ↔ overlapCF tb g1 g2 = some true) := by
  obtain ⟨b, hb⟩ := overlapCF_closed tb g1 g2 c1 c2
  obtain ⟨v, hv, hpos⟩ := overlap_iff_affinity_pos tb fb htb hfb g1 g2 w1 w2 b hb
  have : affEntry X tb fb src tgt i j = v := by
    unfold affEntry
    simp only [h1, h2, c1, c2, Bool.and_self, if_true, hv]
  rw [this, hb]
  exact ⟨hv, by simpa using hpos⟩

/-! ### plumbing for the end-to-end statement -/

theorem lookupLast_map {α β} (f : α → β) (k : Nat) (xs : List (Nat × α)) :
    lookupLast k (xs.map (fun a => (a.1, f a.2))) = (lookupLast k xs).map f := by
  unfold lookupLast
  rw [← List.map_reverse, List.find?_map]
  cases h : List.find? ((fun p => p.1 == k) ∘ fun (a : Nat × α) => (a.1, f a.2)) xs.reverse with
  | none =>
    have : List.find? (fun p => p.1 == k) xs.reverse = none := by
      rw [List.find?_eq_none] at h ⊢
      intro x hx; simpa using h x hx
    simp [this]
  | some p =>
    have : List.find? (fun p => p.1 == k) xs.reverse = some p := by
      rw [← h]; rfl
    simp [this]

theorem mapM_total_mem {α β ε} (f : α → Except ε β) (g : α → β) (l : List α) (hf : ∀ a ∈ l, f a = .ok (g a)) :
    l.mapM f = .ok (l.map g) := by
  induction l with
  | nil => simp [List.mapM_nil, pure, Except.pure]
  | cons a l ih =>
    simp [List.mapM_cons, hf a (by simp), ih (fun x hx => hf x (by simp [hx])), bind, Except.bind, pure, Except.pure]

end SE.Detection
